package ana

import (
	"fmt"
	"go/constant"
	"go/token"
	"go/types"
	"strings"

	"golang.org/x/tools/go/ssa"
)

// E-TABLE8: exact collecting semantics of a pure, loop-free function (with
// loop-free repo callees inlined) over a finite input space. Each symbolic
// input is a struct field of a pointer parameter (identified by access path,
// e.g. "resp.LVM") or a scalar parameter; its domain is a finite list of
// values. Every SSA value is a table with one entry per point of the product
// space; every block has a reachability mask. No Go code is executed.

// TableInput declares one symbolic input.
type TableInput struct {
	Path   string  // access path relative to the entry function: "resp.LVM" or param name "l"
	Values []int64 // domain
}

// TableResult is the outcome for the whole input space.
type TableResult struct {
	N       int
	Inputs  []TableInput
	Returns [][]int64 // per result index: value per point (error results: 0 nil, 1 non-nil)
	Panics  []bool    // point reaches a panic
	// FinalFields holds the final value of stored fields (access path -> table), for setters.
	FinalFields map[string][]int64
	Err         error
}

// Point decodes point index i into the input values.
func (t *TableResult) Point(i int) []int64 {
	out := make([]int64, len(t.Inputs))
	for k := len(t.Inputs) - 1; k >= 0; k-- {
		d := len(t.Inputs[k].Values)
		out[k] = t.Inputs[k].Values[i%d]
		i /= d
	}
	return out
}

type tval struct {
	tab    []int64
	isAddr bool   // address of a symbolic/stored field
	path   string // for addresses / pointer params
}

type tframe struct {
	fn     *ssa.Function
	vals   map[ssa.Value]*tval
	prefix map[ssa.Value]string // pointer params -> path prefix in the caller's space
}

type tinterp struct {
	n      int
	inputs []TableInput
	fields map[string][]int64 // current value of each field path
	panics []bool
	depth  int
}

// RunTable interprets fn over the product of the inputs.
func RunTable(fn *ssa.Function, inputs []TableInput) *TableResult {
	n := 1
	for _, in := range inputs {
		n *= len(in.Values)
	}
	ti := &tinterp{n: n, inputs: inputs, fields: map[string][]int64{}, panics: make([]bool, n)}
	res := &TableResult{N: n, Inputs: inputs}
	// initialise symbolic fields / params
	stride := n
	params := map[string][]int64{}
	for _, in := range inputs {
		d := len(in.Values)
		stride /= d
		tab := make([]int64, n)
		for i := 0; i < n; i++ {
			tab[i] = in.Values[(i/stride)%d]
		}
		params[in.Path] = tab
		ti.fields[in.Path] = tab
	}
	fr := &tframe{fn: fn, vals: map[ssa.Value]*tval{}, prefix: map[ssa.Value]string{}}
	for _, p := range fn.Params {
		if _, ok := p.Type().Underlying().(*types.Pointer); ok {
			fr.prefix[p] = p.Name()
			fr.vals[p] = &tval{isAddr: true, path: p.Name()}
			continue
		}
		if tab, ok := params[p.Name()]; ok {
			fr.vals[p] = &tval{tab: tab}
		}
	}
	full := make([]bool, n)
	for i := range full {
		full[i] = true
	}
	rets, err := ti.call(fr, full)
	if err != nil {
		res.Err = err
		return res
	}
	res.Returns = rets
	res.Panics = ti.panics
	res.FinalFields = ti.fields
	return res
}

func (ti *tinterp) constTab(v int64) []int64 {
	t := make([]int64, ti.n)
	if v != 0 {
		for i := range t {
			t[i] = v
		}
	}
	return t
}

func truncate(v int64, t types.Type) int64 {
	b, ok := t.Underlying().(*types.Basic)
	if !ok {
		return v
	}
	switch b.Kind() {
	case types.Uint8:
		return int64(uint8(v))
	case types.Uint16:
		return int64(uint16(v))
	case types.Uint32:
		return int64(uint32(v))
	case types.Int8:
		return int64(int8(v))
	case types.Int16:
		return int64(int16(v))
	case types.Int32:
		return int64(int32(v))
	case types.Bool:
		if v != 0 {
			return 1
		}
		return 0
	}
	return v
}

// call interprets the frame's function under mask; returns result tables.
func (ti *tinterp) call(fr *tframe, mask []bool) ([][]int64, error) {
	fn := fr.fn
	ti.depth++
	defer func() { ti.depth-- }()
	if ti.depth > 6 {
		return nil, fmt.Errorf("inlining depth exceeded at %s", fn)
	}
	// loop-free check + topological order
	order, err := topo(fn)
	if err != nil {
		return nil, err
	}
	bmask := make([][]bool, len(fn.Blocks))
	emask := map[Edge][]bool{}
	bmask[0] = mask
	nres := fn.Signature.Results().Len()
	rets := make([][]int64, nres)
	for i := range rets {
		rets[i] = make([]int64, ti.n)
	}
	get := func(v ssa.Value) (*tval, error) {
		if c, ok := v.(*ssa.Const); ok {
			if c.Value == nil {
				return &tval{tab: ti.constTab(0)}, nil
			}
			switch c.Value.Kind() {
			case constant.Bool:
				if constant.BoolVal(c.Value) {
					return &tval{tab: ti.constTab(1)}, nil
				}
				return &tval{tab: ti.constTab(0)}, nil
			case constant.Int:
				i, ok := constant.Int64Val(c.Value)
				if !ok {
					return nil, fmt.Errorf("constant out of range: %s", c)
				}
				return &tval{tab: ti.constTab(i)}, nil
			}
			return nil, fmt.Errorf("unsupported constant %s", c)
		}
		if tv, ok := fr.vals[v]; ok {
			return tv, nil
		}
		return nil, fmt.Errorf("value %s (%T) not computed in %s", v.Name(), v, fn)
	}
	for _, b := range order {
		var m []bool
		if b.Index == 0 {
			m = mask
		} else {
			m = make([]bool, ti.n)
			for _, p := range b.Preds {
				for si, s := range p.Succs {
					if s == b {
						if em := emask[Edge{p, si}]; em != nil {
							for i, x := range em {
								if x {
									m[i] = true
								}
							}
						}
					}
				}
			}
		}
		bmask[b.Index] = m
		any := false
		for _, x := range m {
			if x {
				any = true
				break
			}
		}
		if !any {
			continue
		}
		for _, in := range b.Instrs {
			switch x := in.(type) {
			case *ssa.Phi:
				tab := make([]int64, ti.n)
				for pi, p := range b.Preds {
					var em []bool
					for si, s := range p.Succs {
						if s == b {
							if e := emask[Edge{p, si}]; e != nil {
								if em == nil {
									em = make([]bool, ti.n)
								}
								for i, y := range e {
									if y {
										em[i] = true
									}
								}
							}
						}
					}
					if em == nil {
						continue
					}
					ev, err := get(x.Edges[pi])
					if err != nil {
						// value undefined on a dead edge is fine
						continue
					}
					if ev.tab == nil {
						return nil, fmt.Errorf("phi of non-scalar in %s", fn)
					}
					for i, y := range em {
						if y {
							tab[i] = ev.tab[i]
						}
					}
				}
				fr.vals[x] = &tval{tab: tab}
			case *ssa.FieldAddr:
				base, err := get(x.X)
				if err != nil {
					return nil, err
				}
				if !base.isAddr {
					return nil, fmt.Errorf("FieldAddr on non-address in %s", fn)
				}
				fr.vals[x] = &tval{isAddr: true, path: base.path + "." + fieldName(x.X.Type(), x.Field)}
			case *ssa.UnOp:
				switch x.Op {
				case token.MUL:
					a, err := get(x.X)
					if err != nil {
						// load of a global (error variables): treat as non-nil marker 1
						if _, ok := x.X.(*ssa.Global); ok {
							fr.vals[x] = &tval{tab: ti.constTab(1)}
							continue
						}
						return nil, err
					}
					if !a.isAddr {
						return nil, fmt.Errorf("load through non-address in %s", fn)
					}
					tab, ok := ti.fields[a.path]
					if !ok {
						// a non-scalar value (struct) that is only handed to opaque calls declared as inputs
						if _, isStruct := x.Type().Underlying().(*types.Struct); isStruct {
							fr.vals[x] = &tval{path: a.path}
							continue
						}
						return nil, fmt.Errorf("load of non-symbolic field %s in %s (declare it as an input)", a.path, fn)
					}
					cp := make([]int64, ti.n)
					copy(cp, tab)
					fr.vals[x] = &tval{tab: cp}
				case token.NOT:
					a, err := get(x.X)
					if err != nil {
						return nil, err
					}
					tab := make([]int64, ti.n)
					for i, v := range a.tab {
						if v == 0 {
							tab[i] = 1
						}
					}
					fr.vals[x] = &tval{tab: tab}
				case token.XOR:
					a, err := get(x.X)
					if err != nil {
						return nil, err
					}
					tab := make([]int64, ti.n)
					for i, v := range a.tab {
						tab[i] = truncate(^v, x.Type())
					}
					fr.vals[x] = &tval{tab: tab}
				case token.SUB:
					a, err := get(x.X)
					if err != nil {
						return nil, err
					}
					tab := make([]int64, ti.n)
					for i, v := range a.tab {
						tab[i] = truncate(-v, x.Type())
					}
					fr.vals[x] = &tval{tab: tab}
				default:
					return nil, fmt.Errorf("unsupported unary op %s in %s", x.Op, fn)
				}
			case *ssa.BinOp:
				a, err := get(x.X)
				if err != nil {
					return nil, err
				}
				c, err := get(x.Y)
				if err != nil {
					return nil, err
				}
				if a.tab == nil || c.tab == nil {
					return nil, fmt.Errorf("binop on non-scalars in %s", fn)
				}
				tab := make([]int64, ti.n)
				for i := range tab {
					l, r := a.tab[i], c.tab[i]
					var v int64
					bo := func(b bool) int64 {
						if b {
							return 1
						}
						return 0
					}
					switch x.Op {
					case token.ADD:
						v = l + r
					case token.SUB:
						v = l - r
					case token.MUL:
						v = l * r
					case token.AND:
						v = l & r
					case token.OR:
						v = l | r
					case token.XOR:
						v = l ^ r
					case token.AND_NOT:
						v = l &^ r
					case token.SHL:
						v = l << uint64(r)
					case token.SHR:
						v = l >> uint64(r)
					case token.EQL:
						v = bo(l == r)
					case token.NEQ:
						v = bo(l != r)
					case token.LSS:
						v = bo(l < r)
					case token.LEQ:
						v = bo(l <= r)
					case token.GTR:
						v = bo(l > r)
					case token.GEQ:
						v = bo(l >= r)
					default:
						return nil, fmt.Errorf("unsupported binary op %s in %s", x.Op, fn)
					}
					tab[i] = truncate(v, x.Type())
				}
				fr.vals[x] = &tval{tab: tab}
			case *ssa.Convert:
				a, err := get(x.X)
				if err != nil {
					return nil, err
				}
				tab := make([]int64, ti.n)
				for i, v := range a.tab {
					tab[i] = truncate(v, x.Type())
				}
				fr.vals[x] = &tval{tab: tab}
			case *ssa.ChangeType:
				a, err := get(x.X)
				if err != nil {
					return nil, err
				}
				fr.vals[x] = a
			case *ssa.MakeInterface:
				// boxing a value into an interface (panic argument / error): non-nil marker
				fr.vals[x] = &tval{tab: ti.constTab(1)}
			case *ssa.Store:
				a, err := get(x.Addr)
				if err != nil {
					return nil, err
				}
				v, err := get(x.Val)
				if err != nil {
					return nil, err
				}
				if !a.isAddr || v.tab == nil {
					return nil, fmt.Errorf("unsupported store in %s", fn)
				}
				old, ok := ti.fields[a.path]
				nt := make([]int64, ti.n)
				if ok {
					copy(nt, old)
				}
				for i, y := range m {
					if y {
						nt[i] = v.tab[i]
					}
				}
				ti.fields[a.path] = nt
			case *ssa.Call:
				callee := x.Call.StaticCallee()
				if callee == nil || callee.Blocks == nil {
					// an opaque call declared as an input: "call:<callee>(<arg paths>)"
					var aps []string
					for _, a := range x.Call.Args {
						aps = append(aps, AccessPath(a))
					}
					key := "call:" + CalleeName(&x.Call) + "(" + strings.Join(aps, ",") + ")"
					if tab, ok := ti.fields[key]; ok {
						fr.vals[x] = &tval{tab: tab}
						continue
					}
					return nil, fmt.Errorf("call to non-inlinable %s in %s (input key %s)", CalleeName(&x.Call), fn, key)
				}
				nf := &tframe{fn: callee, vals: map[ssa.Value]*tval{}, prefix: map[ssa.Value]string{}}
				for ai, prm := range callee.Params {
					av, err := get(x.Call.Args[ai])
					if err != nil {
						return nil, err
					}
					nf.vals[prm] = av
				}
				rs, err := ti.call(nf, m)
				if err != nil {
					return nil, err
				}
				if len(rs) == 1 {
					fr.vals[x] = &tval{tab: rs[0]}
				} else if len(rs) > 1 {
					return nil, fmt.Errorf("multi-result callee %s not supported", callee)
				}
			case *ssa.If:
				cv, err := get(x.Cond)
				if err != nil {
					return nil, err
				}
				tm := make([]bool, ti.n)
				fm := make([]bool, ti.n)
				for i, y := range m {
					if y {
						if cv.tab[i] != 0 {
							tm[i] = true
						} else {
							fm[i] = true
						}
					}
				}
				emask[Edge{b, 0}] = tm
				emask[Edge{b, 1}] = fm
			case *ssa.Jump:
				emask[Edge{b, 0}] = m
			case *ssa.Return:
				for ri, rv := range x.Results {
					v, err := get(rv)
					if err != nil {
						return nil, err
					}
					if v.tab == nil {
						return nil, fmt.Errorf("non-scalar return in %s", fn)
					}
					for i, y := range m {
						if y {
							rets[ri][i] = v.tab[i]
						}
					}
				}
			case *ssa.Panic:
				for i, y := range m {
					if y {
						ti.panics[i] = true
					}
				}
			case *ssa.DebugRef:
			default:
				return nil, fmt.Errorf("unsupported instruction %T in %s (function not admitted to the truth-table domain)", in, fn)
			}
		}
	}
	return rets, nil
}

// topo returns the blocks in topological order or an error if fn has a loop.
func topo(fn *ssa.Function) ([]*ssa.BasicBlock, error) {
	state := map[*ssa.BasicBlock]int{}
	var order []*ssa.BasicBlock
	var visit func(b *ssa.BasicBlock) error
	visit = func(b *ssa.BasicBlock) error {
		switch state[b] {
		case 1:
			return fmt.Errorf("function %s has a loop (not admitted to the truth-table domain)", fn)
		case 2:
			return nil
		}
		state[b] = 1
		for _, s := range b.Succs {
			if err := visit(s); err != nil {
				return err
			}
		}
		state[b] = 2
		order = append(order, b)
		return nil
	}
	if err := visit(fn.Blocks[0]); err != nil {
		return nil, err
	}
	for i, j := 0, len(order)-1; i < j; i, j = i+1, j-1 {
		order[i], order[j] = order[j], order[i]
	}
	return order, nil
}

// Range returns [lo, hi].
func Range(lo, hi int64) []int64 {
	out := make([]int64, 0, hi-lo+1)
	for i := lo; i <= hi; i++ {
		out = append(out, i)
	}
	return out
}

// Topo returns the blocks of a loop-free function in topological order.
func Topo(fn *ssa.Function) ([]*ssa.BasicBlock, error) { return topo(fn) }
