package ana

import (
	"math/big"
	"sort"
)

// Rational Fourier-Motzkin elimination: decides whether a small system of
// linear constraints (each L >= 0) has no rational solution. Used to prove an
// integer goal g >= 0 by refuting facts /\ (g <= -1).

type lpRow struct {
	coef map[string]*big.Rat
	c    *big.Rat
}

func lpFromILin(l ILin) lpRow {
	r := lpRow{coef: map[string]*big.Rat{}, c: new(big.Rat).SetInt64(l.C)}
	for a, k := range l.Coef {
		if k != 0 {
			r.coef[a] = new(big.Rat).SetInt64(k)
		}
	}
	return r
}

func (r lpRow) key() string {
	var ks []string
	for a := range r.coef {
		ks = append(ks, a)
	}
	sort.Strings(ks)
	s := ""
	for _, a := range ks {
		s += a + "*" + r.coef[a].RatString() + ";"
	}
	return s + r.c.RatString()
}

// normalise scales the row so that the smallest-named atom has coefficient +-1.
func (r lpRow) normalise() lpRow {
	var first string
	for a := range r.coef {
		if first == "" || a < first {
			first = a
		}
	}
	if first == "" {
		return r
	}
	k := new(big.Rat).Abs(r.coef[first])
	if k.Cmp(big.NewRat(1, 1)) == 0 {
		return r
	}
	out := lpRow{coef: map[string]*big.Rat{}, c: new(big.Rat).Quo(r.c, k)}
	for a, v := range r.coef {
		out.coef[a] = new(big.Rat).Quo(v, k)
	}
	return out
}

// lpInfeasible reports whether the rows (each >= 0) are contradictory over the rationals.
// ok=false means the procedure gave up (too large).
func lpInfeasible(rows []lpRow) (infeasible bool, ok bool) {
	const maxRows = 3000
	dedupe := func(rs []lpRow) []lpRow {
		seen := map[string]bool{}
		var out []lpRow
		for _, r := range rs {
			r = r.normalise()
			k := r.key()
			if !seen[k] {
				seen[k] = true
				out = append(out, r)
			}
		}
		return out
	}
	rows = dedupe(rows)
	zero := new(big.Rat)
	for iter := 0; iter < 64; iter++ {
		// contradiction check and variable census
		pos := map[string]int{}
		neg := map[string]int{}
		for _, r := range rows {
			if len(r.coef) == 0 {
				if r.c.Cmp(zero) < 0 {
					return true, true
				}
				continue
			}
			for a, v := range r.coef {
				if v.Sign() > 0 {
					pos[a]++
				} else {
					neg[a]++
				}
			}
		}
		vars := map[string]bool{}
		for a := range pos {
			vars[a] = true
		}
		for a := range neg {
			vars[a] = true
		}
		if len(vars) == 0 {
			return false, true
		}
		// choose the variable producing the fewest new rows
		best, bestCost := "", -1
		var names []string
		for a := range vars {
			names = append(names, a)
		}
		sort.Strings(names)
		for _, a := range names {
			cost := pos[a]*neg[a] - pos[a] - neg[a]
			if bestCost == -1 || cost < bestCost {
				best, bestCost = a, cost
			}
		}
		var ps, ns, rest []lpRow
		for _, r := range rows {
			v, has := r.coef[best]
			switch {
			case !has:
				rest = append(rest, r)
			case v.Sign() > 0:
				ps = append(ps, r)
			default:
				ns = append(ns, r)
			}
		}
		for _, p := range ps {
			for _, n := range ns {
				// p: a*x + P >= 0 (a>0), n: -b*x + N >= 0 (b>0)  =>  b*P + a*N >= 0
				a := p.coef[best]
				b := new(big.Rat).Neg(n.coef[best])
				nr := lpRow{coef: map[string]*big.Rat{}, c: new(big.Rat)}
				nr.c.Add(new(big.Rat).Mul(b, p.c), new(big.Rat).Mul(a, n.c))
				for k, v := range p.coef {
					if k == best {
						continue
					}
					nr.coef[k] = new(big.Rat).Mul(b, v)
				}
				for k, v := range n.coef {
					if k == best {
						continue
					}
					t := new(big.Rat).Mul(a, v)
					if cur, ok := nr.coef[k]; ok {
						t.Add(t, cur)
					}
					if t.Sign() == 0 {
						delete(nr.coef, k)
					} else {
						nr.coef[k] = t
					}
				}
				rest = append(rest, nr)
			}
		}
		rows = dedupe(rest)
		if len(rows) > maxRows {
			return false, false
		}
	}
	return false, false
}

// lpProve: facts (each >= 0) together with atom bounds imply g >= 0 for integer-valued terms.
func (p *Prover) lpProve(g ILin, facts []ILin) bool {
	// restrict to the facts connected to the goal through shared atoms
	rel := map[string]bool{}
	for a := range g.Coef {
		rel[a] = true
	}
	used := make([]bool, len(facts))
	for changed := true; changed; {
		changed = false
		for i, f := range facts {
			if used[i] {
				continue
			}
			hit := false
			for a := range f.Coef {
				if rel[a] {
					hit = true
				}
			}
			if hit {
				used[i] = true
				changed = true
				for a := range f.Coef {
					rel[a] = true
				}
			}
		}
	}
	var rows []lpRow
	n := 0
	for i, f := range facts {
		if used[i] && len(f.Coef) > 0 {
			rows = append(rows, lpFromILin(f))
			n++
		}
	}
	if n > 60 || len(rel) > 24 {
		return false
	}
	for a := range rel {
		if lo, ok := p.lo[a]; ok {
			l := lin1(a)
			l.C = -lo
			rows = append(rows, lpFromILin(l))
		}
		if p.hasHi[a] {
			l := newILin()
			l.Coef[a] = -1
			l.C = p.hi[a]
			rows = append(rows, lpFromILin(l))
		}
	}
	// negated goal: -g - 1 >= 0
	ng := newILin().add(g, -1)
	ng.C -= 1
	rows = append(rows, lpFromILin(ng))
	inf, ok := lpInfeasible(rows)
	return ok && inf
}
