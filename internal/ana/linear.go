package ana

import (
	"fmt"
	"go/constant"
	"go/token"
	"go/types"
	"sort"
	"strings"

	"golang.org/x/tools/go/ssa"
)

// E-GUARD: linear canonical form of comparisons (DESIGN §2.4).
// A Lin is  sum(coef[sym] * sym) + c.
type Lin struct {
	Coef map[string]float64
	C    float64
}

func (l Lin) String() string {
	var ks []string
	for k := range l.Coef {
		ks = append(ks, k)
	}
	sort.Strings(ks)
	var sb strings.Builder
	for _, k := range ks {
		fmt.Fprintf(&sb, "%+g*%s ", l.Coef[k], k)
	}
	fmt.Fprintf(&sb, "%+g", l.C)
	return sb.String()
}

func constFloat(c *ssa.Const) (float64, bool) {
	if c.Value == nil {
		return 0, false
	}
	switch c.Value.Kind() {
	case constant.Int, constant.Float:
		f, _ := constant.Float64Val(constant.ToFloat(c.Value))
		return f, true
	}
	return 0, false
}

// Linear renders v as a linear form over symbols. Symbols are access paths of
// loads (cfg.SyncInterval), parameter names, or "[name]" of other SSA values.
func Linear(v ssa.Value) (Lin, bool) {
	return linear(v, 0)
}

func linear(v ssa.Value, d int) (Lin, bool) {
	if d > 10 {
		return Lin{}, false
	}
	v = StripConv(v)
	switch x := v.(type) {
	case *ssa.Const:
		f, ok := constFloat(x)
		return Lin{Coef: map[string]float64{}, C: f}, ok
	case *ssa.BinOp:
		switch x.Op {
		case token.ADD, token.SUB:
			a, ok1 := linear(x.X, d+1)
			b, ok2 := linear(x.Y, d+1)
			if !ok1 || !ok2 {
				break
			}
			s := 1.0
			if x.Op == token.SUB {
				s = -1
			}
			out := Lin{Coef: map[string]float64{}, C: a.C + s*b.C}
			for k, c := range a.Coef {
				out.Coef[k] += c
			}
			for k, c := range b.Coef {
				out.Coef[k] += s * c
			}
			for k, c := range out.Coef {
				if c == 0 {
					delete(out.Coef, k)
				}
			}
			return out, true
		case token.QUO, token.MUL:
			a, ok1 := linear(x.X, d+1)
			b, ok2 := linear(x.Y, d+1)
			if !ok1 || !ok2 {
				break
			}
			if len(b.Coef) == 0 && b.C != 0 {
				f := b.C
				if x.Op == token.QUO {
					f = 1 / f
				}
				out := Lin{Coef: map[string]float64{}, C: a.C * f}
				for k, c := range a.Coef {
					out.Coef[k] = c * f
				}
				return out, true
			}
			if x.Op == token.MUL && len(a.Coef) == 0 {
				out := Lin{Coef: map[string]float64{}, C: b.C * a.C}
				for k, c := range b.Coef {
					out.Coef[k] = c * a.C
				}
				return out, true
			}
		}
	}
	sym := AccessPath(v)
	if sym == "" {
		if v.Name() == "" {
			return Lin{}, false
		}
		sym = "[" + v.Name() + "]"
	}
	return Lin{Coef: map[string]float64{sym: 1}}, true
}

// CanonCmp brings "X op Y" into the form  L op' 0  with the coefficient of the
// alphabetically first symbol positive. Returns the form as a string such as
// "+1*cfg.PeerClockImpact -1*cfg.ReferenceClockImpact -1 > 0".
func CanonCmp(c Cmp, holds bool) (string, bool) {
	a, ok1 := Linear(c.X)
	b, ok2 := Linear(c.Y)
	if !ok1 || !ok2 {
		return "", false
	}
	op := c.Op
	if !holds {
		op = NegOp(op)
	}
	l := Lin{Coef: map[string]float64{}, C: a.C - b.C}
	for k, v := range a.Coef {
		l.Coef[k] += v
	}
	for k, v := range b.Coef {
		l.Coef[k] -= v
	}
	var ks []string
	for k, v := range l.Coef {
		if v == 0 {
			delete(l.Coef, k)
			continue
		}
		ks = append(ks, k)
	}
	if len(ks) == 0 {
		return "", false
	}
	sort.Strings(ks)
	lead := l.Coef[ks[0]]
	if lead < 0 {
		for k := range l.Coef {
			l.Coef[k] = -l.Coef[k]
		}
		l.C = -l.C
		op = SwapOp(op)
		lead = -lead
	}
	// scale so that the leading coefficient is 1
	for k := range l.Coef {
		l.Coef[k] /= lead
	}
	l.C /= lead
	if l.C == 0 {
		l.C = 0 // normalise -0
	}
	return l.String() + " " + op.String() + " 0", true
}

// LinearMayWrap reports whether evaluating v (as traversed by Linear) involves
// integer arithmetic that can overflow for large operands: a multiplication or
// left shift of a non-constant integer by a constant of magnitude > 1, or the
// sum/difference of two non-constant integers. The rational normal form is
// only equivalent to the Go expression when this is false.
func LinearMayWrap(v ssa.Value) bool {
	return mayWrap(v, 0)
}

func mayWrap(v ssa.Value, d int) bool {
	if d > 10 {
		return false
	}
	v = StripConv(v)
	bo, ok := v.(*ssa.BinOp)
	if !ok {
		return false
	}
	isInt := false
	if b, ok := bo.Type().Underlying().(*types.Basic); ok && b.Info()&types.IsInteger != 0 {
		isInt = true
	}
	_, xc := StripConv(bo.X).(*ssa.Const)
	_, yc := StripConv(bo.Y).(*ssa.Const)
	if isInt {
		switch bo.Op {
		case token.MUL:
			if xc != yc {
				k, _ := ConstInt(bo.X)
				if yc {
					k, _ = ConstInt(bo.Y)
				}
				if k > 1 || k < -1 {
					return true
				}
			} else if !xc {
				return true
			}
		case token.SHL:
			if !xc {
				return true
			}
		case token.ADD, token.SUB:
			if !xc && !yc {
				return true
			}
		}
	}
	switch bo.Op {
	case token.ADD, token.SUB, token.MUL, token.QUO:
		return mayWrap(bo.X, d+1) || mayWrap(bo.Y, d+1)
	}
	return false
}
