package ana

import (
	"fmt"
	"go/token"
	"go/types"
	"sort"
	"strings"

	"golang.org/x/tools/go/ssa"
)

// E-CODEC: writer/reader table extraction for fixed-layout codecs (DESIGN §2.6),
// done on SSA. A row relates one byte offset of the wire buffer to one byte of
// a message field: (offset, field path, shift, condition).

// CodecRow is one byte of the layout.
type CodecRow struct {
	Off   int64
	Field string // path relative to the message parameter: "RootDelay.Seconds", "Timestamp.Seconds[0]"
	Shift int64
	Cond  string // "" = unconditional, else canonical condition of the enclosing flag arm
	Pos   token.Pos
}

func (r CodecRow) String() string {
	c := ""
	if r.Cond != "" {
		c = " if " + r.Cond
	}
	return fmt.Sprintf("b[%d] <-> %s>>%d%s", r.Off, r.Field, r.Shift, c)
}

// CodecTable is what an encoder or decoder does.
type CodecTable struct {
	Rows       []CodecRow
	ZeroPad    [][2]int64 // encoder: [lo,hi) ranges written with constant 0 (with Cond in ZeroCond)
	ZeroCond   []string
	ZeroFields map[string]string // decoder: field -> cond under which it is set to constant 0
	Problems   []string
}

// relField strips the root parameter name from an access path.
func relField(path string) string {
	if i := strings.IndexAny(path, ".["); i >= 0 {
		return strings.TrimPrefix(path[i:], ".")
	}
	return ""
}

// blockCond returns a canonical description of the flag condition that
// dominates block b ("" if b is executed unconditionally w.r.t. flag tests).
// Only conditions of the form `x & k == k` over a message field are recognised;
// length guards are ignored.
func blockCond(b *ssa.BasicBlock) string {
	fn := b.Parent()
	var conds []string
	for _, d := range fn.Blocks {
		n := len(d.Instrs)
		if n == 0 {
			continue
		}
		iff, ok := d.Instrs[n-1].(*ssa.If)
		if !ok {
			continue
		}
		c, pos, isCmp := AsCmp(iff.Cond)
		if !isCmp || (c.Op != token.EQL && c.Op != token.NEQ) {
			continue
		}
		and, ok := c.X.(*ssa.BinOp)
		if !ok || and.Op != token.AND {
			continue
		}
		k1, ok1 := ConstInt(and.Y)
		k2, ok2 := ConstInt(c.Y)
		if !ok1 || !ok2 || k1 != k2 {
			continue
		}
		fld := relField(AccessPath(and.X))
		if fld == "" {
			continue
		}
		holdsOnTrue := (c.Op == token.EQL) == pos
		for si, s := range d.Succs {
			if len(s.Preds) == 1 && s.Dominates(b) {
				holds := holdsOnTrue == (si == 0)
				conds = append(conds, fmt.Sprintf("%s&%d==%d:%v", fld, k1, k1, holds))
			}
		}
	}
	sort.Strings(conds)
	return strings.Join(conds, ",")
}

// isByteSlice reports whether t is []byte (or *[]byte).
func isByteBuf(t types.Type) bool {
	if p, ok := t.Underlying().(*types.Pointer); ok {
		t = p.Elem()
	}
	s, ok := t.Underlying().(*types.Slice)
	if !ok {
		return false
	}
	b, ok := s.Elem().Underlying().(*types.Basic)
	return ok && b.Kind() == types.Uint8
}

// ExtractEncoder builds the table of an encoder: stores buf[k] = byte(field >> s).
func ExtractEncoder(fn *ssa.Function, msgParam string) *CodecTable {
	t := &CodecTable{ZeroFields: map[string]string{}}
	Instrs(fn, func(in ssa.Instruction) {
		st, ok := in.(*ssa.Store)
		if !ok {
			return
		}
		ia, ok := st.Addr.(*ssa.IndexAddr)
		if !ok || !isByteBuf(ia.X.Type()) {
			return
		}
		k, isK := ConstInt(ia.Index)
		if base, okB := sliceBase(ia.X); okB {
			k += base // a store through a constant sub-slice of the buffer (helper given b[lo:hi])
		} else {
			isK = false
		}
		if !isK {
			// loop zero fill: index phi [lo, +1], value const 0
			if z, ok := ConstInt(st.Val); ok && z == 0 {
				if lo, hi, ok := loopRange(ia.Index); ok {
					t.ZeroPad = append(t.ZeroPad, [2]int64{lo, hi})
					t.ZeroCond = append(t.ZeroCond, blockCond(loopHeaderOf(ia.Index)))
					return
				}
				// zero fill of a constant sub-slice: p := b[lo:hi]; for i := range p { p[i] = 0 }
				if sl, isSl := ia.X.(*ssa.Slice); isSl && sl.Low != nil && sl.High != nil {
					lo, ok1 := ConstInt(sl.Low)
					hi, ok2 := ConstInt(sl.High)
					if ok1 && ok2 && rangesOver(ia.Index, sl) {
						t.ZeroPad = append(t.ZeroPad, [2]int64{lo, hi})
						t.ZeroCond = append(t.ZeroCond, blockCond(ia.Block()))
						return
					}
				}
			}
			t.Problems = append(t.Problems, fmt.Sprintf("store to buffer at non-constant index at %s", fn.Prog.Fset.Position(st.Pos())))
			return
		}
		fld, sh, ok := fieldShift(st.Val, msgParam)
		if !ok {
			t.Problems = append(t.Problems, fmt.Sprintf("b[%d] is written from an unrecognised expression", k))
			return
		}
		t.Rows = append(t.Rows, CodecRow{Off: k, Field: fld, Shift: sh, Cond: blockCond(st.Block()), Pos: st.Pos()})
	})
	return t
}

// loopRange recognises `for i := lo; i != hi; i++` from the index phi.
func loopRange(idx ssa.Value) (lo, hi int64, ok bool) {
	ph, isPhi := idx.(*ssa.Phi)
	if !isPhi || len(ph.Edges) != 2 {
		return 0, 0, false
	}
	var inc *ssa.BinOp
	gotLo := false
	for _, e := range ph.Edges {
		if k, isK := ConstInt(e); isK {
			lo = k
			gotLo = true
			continue
		}
		if bo, isB := e.(*ssa.BinOp); isB && bo.Op == token.ADD && bo.X == ssa.Value(ph) {
			if k, isK := ConstInt(bo.Y); isK && k == 1 {
				inc = bo
			}
		}
	}
	if !gotLo || inc == nil {
		return 0, 0, false
	}
	// exit test in the phi's block: i != hi / i < hi
	b := ph.Block()
	iff, isIf := b.Instrs[len(b.Instrs)-1].(*ssa.If)
	if !isIf {
		return 0, 0, false
	}
	c, pos, isCmp := AsCmp(iff.Cond)
	if !isCmp || c.X != ssa.Value(ph) || !pos {
		return 0, 0, false
	}
	k, isK := ConstInt(c.Y)
	if !isK || (c.Op != token.NEQ && c.Op != token.LSS) {
		return 0, 0, false
	}
	return lo, k, true
}

// rangesOver: idx is the index of `for idx := range s` (every element of s once):
// next = phi[-1, next'] + 1 with the continuation test next < len(s) in the phi's block.
func rangesOver(idx ssa.Value, s ssa.Value) bool {
	bo, ok := idx.(*ssa.BinOp)
	if !ok || bo.Op != token.ADD {
		return false
	}
	if k, isK := ConstInt(bo.Y); !isK || k != 1 {
		return false
	}
	ph, ok := bo.X.(*ssa.Phi)
	if !ok || len(ph.Edges) != 2 {
		return false
	}
	okEdges := 0
	for _, e := range ph.Edges {
		if k, isK := ConstInt(e); isK && k == -1 {
			okEdges++
		} else if e == ssa.Value(bo) {
			okEdges++
		}
	}
	if okEdges != 2 {
		return false
	}
	b := bo.Block()
	iff, isIf := b.Instrs[len(b.Instrs)-1].(*ssa.If)
	if !isIf {
		return false
	}
	c, pos, isCmp := AsCmp(iff.Cond)
	if !isCmp || !pos || c.Op != token.LSS || c.X != ssa.Value(bo) {
		return false
	}
	call, isCall := c.Y.(*ssa.Call)
	if !isCall {
		return false
	}
	if bi, isB := call.Call.Value.(*ssa.Builtin); !isB || bi.Name() != "len" || call.Call.Args[0] != s {
		return false
	}
	return true
}

func loopHeaderOf(idx ssa.Value) *ssa.BasicBlock {
	if ph, ok := idx.(*ssa.Phi); ok {
		return ph.Block()
	}
	return nil
}

// fieldShift matches (conv)* (field >> s) rooted at the message parameter.
func fieldShift(v ssa.Value, msgParam string) (string, int64, bool) {
	v = StripConv(v)
	var sh int64
	if bo, ok := v.(*ssa.BinOp); ok && bo.Op == token.SHR {
		k, isK := ConstInt(bo.Y)
		if !isK {
			return "", 0, false
		}
		sh = k
		v = StripConv(bo.X)
	}
	p := AccessPath(v)
	if p == "" || !(strings.HasPrefix(p, msgParam+".") || strings.HasPrefix(p, msgParam+"[")) {
		return "", 0, false
	}
	return relField(p), sh, true
}

// isZeroStruct: the zero value of a struct type (constant, or a composite literal without elements).
func isZeroStruct(v ssa.Value) bool {
	if c, ok := v.(*ssa.Const); ok {
		return c.Value == nil
	}
	if u, ok := v.(*ssa.UnOp); ok && u.Op == token.MUL {
		if a, ok := u.X.(*ssa.Alloc); ok {
			for _, ref := range Referrers(a) {
				if ref != ssa.Instruction(u) {
					return false
				}
			}
			return true
		}
	}
	return false
}

// ExtractDecoder builds the table of a decoder: stores msg.F = OR of (conv(b[k]) << s).
func ExtractDecoder(fn *ssa.Function, msgParam string) *CodecTable {
	t := &CodecTable{ZeroFields: map[string]string{}}
	Instrs(fn, func(in ssa.Instruction) {
		st, ok := in.(*ssa.Store)
		if !ok {
			return
		}
		p := AccessPath(st.Addr)
		if p == "" || !strings.HasPrefix(p, msgParam+".") {
			return
		}
		fld := relField(p)
		cond := blockCond(st.Block())
		if z, ok := ConstInt(st.Val); ok && z == 0 {
			t.ZeroFields[fld] = cond
			return
		}
		// a nested struct cleared as a whole: msg.S = S{}
		if _, isStruct := st.Val.Type().Underlying().(*types.Struct); isStruct && isZeroStruct(st.Val) {
			for _, lf := range LeafFields(st.Val.Type(), fld) {
				t.ZeroFields[lf] = cond
			}
			return
		}
		// array literal: value is a load of a local array alloc filled element-wise
		if u, ok := st.Val.(*ssa.UnOp); ok && u.Op == token.MUL {
			if a, ok := u.X.(*ssa.Alloc); ok {
				n := 0
				for _, ref := range Referrers(a) {
					ia, ok := ref.(*ssa.IndexAddr)
					if !ok {
						continue
					}
					i, _ := ConstInt(ia.Index)
					for _, r2 := range Referrers(ia) {
						if es, ok := r2.(*ssa.Store); ok && es.Addr == ssa.Value(ia) {
							terms, ok := orTerms(es.Val)
							if !ok || len(terms) != 1 {
								t.Problems = append(t.Problems, fmt.Sprintf("%s[%d] is read from an unrecognised expression", fld, i))
								continue
							}
							t.Rows = append(t.Rows, CodecRow{Off: terms[0][0], Field: fmt.Sprintf("%s[%d]", fld, i), Shift: terms[0][1], Cond: cond, Pos: es.Pos()})
							n++
						}
					}
				}
				if n > 0 {
					return
				}
			}
		}
		terms, ok := orTerms(st.Val)
		if !ok {
			t.Problems = append(t.Problems, fmt.Sprintf("%s is read from an unrecognised expression", fld))
			return
		}
		for _, tm := range terms {
			t.Rows = append(t.Rows, CodecRow{Off: tm[0], Field: fld, Shift: tm[1], Cond: cond, Pos: st.Pos()})
		}
	})
	return t
}

// orTerms flattens an OR of (conv(b[k]) << s) into (k, s) pairs.
func orTerms(v ssa.Value) ([][2]int64, bool) {
	v = StripConv(v)
	switch x := v.(type) {
	case *ssa.BinOp:
		switch x.Op {
		case token.OR:
			l, ok1 := orTerms(x.X)
			r, ok2 := orTerms(x.Y)
			if !ok1 || !ok2 {
				return nil, false
			}
			return append(l, r...), true
		case token.SHL:
			k, isK := ConstInt(x.Y)
			if !isK {
				return nil, false
			}
			inner, ok := orTerms(x.X)
			if !ok || len(inner) != 1 || inner[0][1] != 0 {
				return nil, false
			}
			return [][2]int64{{inner[0][0], k}}, true
		}
	case *ssa.UnOp:
		if x.Op == token.MUL {
			if ia, ok := x.X.(*ssa.IndexAddr); ok && isByteBuf(ia.X.Type()) {
				if k, isK := ConstInt(ia.Index); isK {
					if base, okB := sliceBase(ia.X); okB {
						return [][2]int64{{k + base, 0}}, true
					}
				}
			}
		}
	}
	return nil, false
}

// LeafFields enumerates the leaf field paths of a struct type (arrays are leaves).
func LeafFields(t types.Type, prefix string) []string {
	st, ok := t.Underlying().(*types.Struct)
	if !ok {
		return []string{prefix}
	}
	var out []string
	for i := 0; i < st.NumFields(); i++ {
		f := st.Field(i)
		name := f.Name()
		if prefix != "" {
			name = prefix + "." + name
		}
		if _, isStruct := f.Type().Underlying().(*types.Struct); isStruct {
			out = append(out, LeafFields(f.Type(), name)...)
		} else {
			out = append(out, name)
		}
	}
	return out
}

// FieldWidth returns the width in bytes of a (possibly indexed) leaf field path.
func FieldWidth(t types.Type, path string) int {
	cur := t
	for _, part := range strings.Split(path, ".") {
		idx := ""
		if i := strings.Index(part, "["); i >= 0 {
			idx = part[i:]
			part = part[:i]
		}
		st, ok := cur.Underlying().(*types.Struct)
		if !ok {
			return 0
		}
		found := false
		for i := 0; i < st.NumFields(); i++ {
			if st.Field(i).Name() == part {
				cur = st.Field(i).Type()
				found = true
				break
			}
		}
		if !found {
			return 0
		}
		if idx != "" {
			if a, ok := cur.Underlying().(*types.Array); ok {
				cur = a.Elem()
			}
		}
	}
	if b, ok := cur.Underlying().(*types.Basic); ok {
		switch b.Kind() {
		case types.Uint8, types.Int8:
			return 1
		case types.Uint16, types.Int16:
			return 2
		case types.Uint32, types.Int32:
			return 4
		case types.Uint64, types.Int64:
			return 8
		}
	}
	return 0
}

// sliceBase: the constant offset of a byte buffer value inside the buffer it was sliced from
// (b[lo:hi] with constant lo, nested); ok=false for a non-constant lower bound.
func sliceBase(v ssa.Value) (int64, bool) {
	var base int64
	for i := 0; i < 6; i++ {
		sl, ok := v.(*ssa.Slice)
		if !ok {
			return base, true
		}
		if sl.Low != nil {
			lo, isK := ConstInt(sl.Low)
			if !isK {
				return 0, false
			}
			base += lo
		}
		v = sl.X
	}
	return base, true
}
