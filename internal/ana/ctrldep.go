package ana

import (
	"golang.org/x/tools/go/ssa"
)

// CtrlDep holds immediate control dependence: for each block, the set of
// (If block, successor index) edges it is directly control dependent on.
type CtrlDep struct {
	fn    *ssa.Function
	ipdom []int // immediate post-dominator (block index), -1 = virtual exit
	deps  map[int][]Edge
}

// ControlDeps computes post-dominators (iteratively, on the reverse CFG with a
// virtual exit joining all returns/panics/dead ends) and control dependence.
func ControlDeps(fn *ssa.Function) *CtrlDep {
	n := len(fn.Blocks)
	exit := n
	// reverse graph successors: preds in reverse graph = succs in CFG
	succ := make([][]int, n+1)
	for _, b := range fn.Blocks {
		if len(b.Succs) == 0 {
			succ[b.Index] = []int{exit}
		}
		for _, s := range b.Succs {
			succ[b.Index] = append(succ[b.Index], s.Index)
		}
	}
	// infinite loops without exit: connect loop headers lacking a path to exit
	reachExit := make([]bool, n+1)
	reachExit[exit] = true
	for changed := true; changed; {
		changed = false
		for i := 0; i < n; i++ {
			if reachExit[i] {
				continue
			}
			for _, s := range succ[i] {
				if reachExit[s] {
					reachExit[i] = true
					changed = true
					break
				}
			}
		}
	}
	for i := 0; i < n; i++ {
		if !reachExit[i] {
			// treat as additionally connected to exit so that post-dominance is defined
			succ[i] = append(succ[i], exit)
		}
	}
	// post-dominator sets via iterative dataflow (small functions: fine)
	all := make([]bool, n+1)
	for i := range all {
		all[i] = true
	}
	pdom := make([][]bool, n+1)
	for i := 0; i <= n; i++ {
		pdom[i] = make([]bool, n+1)
		if i == exit {
			pdom[i][exit] = true
		} else {
			copy(pdom[i], all)
		}
	}
	for changed := true; changed; {
		changed = false
		for i := n - 1; i >= 0; i-- {
			nw := make([]bool, n+1)
			first := true
			for _, s := range succ[i] {
				if first {
					copy(nw, pdom[s])
					first = false
				} else {
					for k := range nw {
						nw[k] = nw[k] && pdom[s][k]
					}
				}
			}
			nw[i] = true
			for k := range nw {
				if nw[k] != pdom[i][k] {
					changed = true
				}
			}
			pdom[i] = nw
		}
	}
	cd := &CtrlDep{fn: fn, deps: map[int][]Edge{}}
	// B is control dependent on edge (A -> S) iff B post-dominates S and B does not strictly post-dominate A
	for _, a := range fn.Blocks {
		if len(a.Succs) < 2 {
			continue
		}
		for si, sblk := range a.Succs {
			for _, b := range fn.Blocks {
				if pdom[sblk.Index][b.Index] && !(b.Index != a.Index && pdom[a.Index][b.Index]) {
					cd.deps[b.Index] = append(cd.deps[b.Index], Edge{a, si})
				}
			}
		}
	}
	return cd
}

// Direct returns the edges block b is directly control dependent on.
func (c *CtrlDep) Direct(b *ssa.BasicBlock) []Edge { return c.deps[b.Index] }
