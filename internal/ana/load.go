// Package ana holds the shared engines of the scion-time static checker:
// loading (go/packages + go/ssa), CFG path queries with a small amount of
// path sensitivity, value tracing (provenance), guards, and reporting.
package ana

import (
	"fmt"
	"go/token"
	"go/types"
	"os"
	"sort"
	"strings"

	"golang.org/x/tools/go/packages"
	"golang.org/x/tools/go/ssa"
	"golang.org/x/tools/go/ssa/ssautil"
)

// ModPath is the module path of the analysed repository.
const ModPath = "example.com/scion-time"

// Prog is the loaded, type-checked, SSA-built program (the 24 repo packages;
// dependencies are body-less externals).
type Prog struct {
	Dir    string
	Fset   *token.FileSet
	Pkgs   []*packages.Package
	SSA    *ssa.Program
	byPath map[string]*packages.Package
	ssaPkg map[string]*ssa.Package
	// AllFuncs are all SSA functions with bodies that belong to repo packages
	// (including anonymous functions and methods).
	AllFuncs []*ssa.Function
	// Overlay holds the normalised text of files in which calls to new helper
	// functions were replaced by the helper's body (empty on the pinned tree).
	Overlay map[string][]byte
	NormLog []string
}

func hasErrors(pkgs []*packages.Package) bool {
	bad := false
	packages.Visit(pkgs, nil, func(p *packages.Package) {
		if strings.HasPrefix(p.PkgPath, ModPath) && len(p.Errors) > 0 {
			bad = true
		}
	})
	return bad
}

func firstError(pkgs []*packages.Package, err error) string {
	if err != nil {
		return err.Error()
	}
	msg := ""
	packages.Visit(pkgs, nil, func(p *packages.Package) {
		if msg == "" && strings.HasPrefix(p.PkgPath, ModPath) && len(p.Errors) > 0 {
			for i, e := range p.Errors {
				if i < 4 {
					msg += strings.ReplaceAll(e.Error(), "\n", " | ") + " ;; "
				}
			}
		}
	})
	return msg
}

// RepoDir returns the directory of the repository under analysis.
func RepoDir() string {
	if d := os.Getenv("SCIONCHECK_REPO"); d != "" {
		return d
	}
	return "/repo"
}

// Load loads the root module's packages for linux/amd64 (non-test files).
func Load(dir string, goos string) (*Prog, error) { return LoadOverlay(dir, goos, nil) }

// LoadOverlay: as Load, with the given files (absolute path -> text) replacing or adding to the
// files on disk (used to analyse a variant of the tree without writing to it).
func LoadOverlay(dir string, goos string, initial map[string][]byte) (*Prog, error) {
	if goos == "" {
		goos = "linux"
	}
	env := append(os.Environ(), "GOOS="+goos, "GOARCH=amd64", "CGO_ENABLED=0",
		"GOFLAGS=-mod=mod", "GOPROXY=off", "GOSUMDB=off", "GOTOOLCHAIN=local", "GOWORK=off")
	cfg := &packages.Config{
		Mode:  packages.LoadSyntax,
		Dir:   dir,
		Tests: false,
		Env:   env,
	}
	if len(initial) > 0 {
		cfg.Overlay = initial
	}
	pkgs, err := packages.Load(cfg, "./...")
	if err != nil {
		return nil, fmt.Errorf("packages.Load: %w", err)
	}
	// normalisation: see through helper functions that did not exist on the pinned tree
	overlay := map[string][]byte{}
	for k, v := range initial {
		overlay[k] = v
	}
	var normLog []string
	if os.Getenv("SCIONCHECK_NOINLINE") == "" && !hasErrors(pkgs) {
		// first: pinned names for the variables of pinned functions
		changed, log := RenameBackOverlay(pkgs, overlay)
		if len(changed) == 0 {
			for _, l := range log {
				if strings.Contains(l, "dropped") {
					normLog = append(normLog, l)
				}
			}
		}
		if len(changed) > 0 {
			cfg2 := *cfg
			next := map[string][]byte{}
			for k, v := range overlay {
				next[k] = v
			}
			for k, v := range changed {
				next[k] = v
			}
			cfg2.Overlay = next
			pkgs2, err2 := packages.Load(&cfg2, "./...")
			if err2 != nil || hasErrors(pkgs2) {
				normLog = append(normLog, fmt.Sprintf("renaming locals back discarded: rewritten source does not type-check (%s)", firstError(pkgs2, err2)))
			} else {
				overlay, pkgs = next, pkgs2
				normLog = append(normLog, log...)
			}
		}
		for round := 0; round < 16; round++ {
			changed, log := NormalizeOverlay(pkgs, overlay)
			if len(changed) == 0 {
				break
			}
			next := map[string][]byte{}
			for k, v := range overlay {
				next[k] = v
			}
			for k, v := range changed {
				next[k] = v
			}
			cfg2 := *cfg
			cfg2.Overlay = next
			pkgs2, err2 := packages.Load(&cfg2, "./...")
			if err2 != nil || hasErrors(pkgs2) {
				normLog = append(normLog, fmt.Sprintf("round %d discarded: rewritten source does not type-check (%s)", round, firstError(pkgs2, err2)))
				break
			}
			overlay, pkgs = next, pkgs2
			normLog = append(normLog, log...)
		}
	}
	var errs []string
	packages.Visit(pkgs, nil, func(p *packages.Package) {
		if !strings.HasPrefix(p.PkgPath, ModPath) {
			return
		}
		for _, e := range p.Errors {
			errs = append(errs, e.Error())
		}
	})
	if len(errs) > 0 {
		return nil, fmt.Errorf("type/load errors in repo packages: %s", strings.Join(errs, "; "))
	}
	if len(pkgs) < 20 {
		return nil, fmt.Errorf("only %d packages loaded from %s (expected >= 20)", len(pkgs), dir)
	}
	prog, spkgs := ssautil.Packages(pkgs, ssa.InstantiateGenerics)
	prog.Build()
	p := &Prog{Dir: dir, Fset: prog.Fset, Pkgs: pkgs, SSA: prog, Overlay: overlay, NormLog: normLog,
		byPath: map[string]*packages.Package{}, ssaPkg: map[string]*ssa.Package{}}
	for i, pk := range pkgs {
		p.byPath[pk.PkgPath] = pk
		if spkgs[i] == nil {
			return nil, fmt.Errorf("no SSA package for %s", pk.PkgPath)
		}
		p.ssaPkg[pk.PkgPath] = spkgs[i]
	}
	seen := map[*ssa.Function]bool{}
	var add func(f *ssa.Function)
	add = func(f *ssa.Function) {
		if f == nil || seen[f] || f.Blocks == nil {
			return
		}
		seen[f] = true
		p.AllFuncs = append(p.AllFuncs, f)
		for _, a := range f.AnonFuncs {
			add(a)
		}
	}
	for _, sp := range spkgs {
		for _, m := range sp.Members {
			switch m := m.(type) {
			case *ssa.Function:
				add(m)
			case *ssa.Type:
				for _, t := range []types.Type{m.Type(), types.NewPointer(m.Type())} {
					ms := prog.MethodSets.MethodSet(t)
					for i := 0; i < ms.Len(); i++ {
						fn := prog.MethodValue(ms.At(i))
						if fn != nil && fn.Pkg == sp {
							add(fn)
						}
					}
				}
			}
		}
	}
	// helper functions that did not exist on the pinned tree and whose every call was seen
	// through by the normalisation are dead code for the analysis
	if len(overlay) > 0 {
		referenced := map[*ssa.Function]bool{}
		for _, f := range p.AllFuncs {
			for _, b := range f.Blocks {
				for _, in := range b.Instrs {
					for _, op := range in.Operands(nil) {
						if g, ok := (*op).(*ssa.Function); ok && g != f {
							referenced[g] = true
						}
					}
				}
			}
		}
		var kept []*ssa.Function
		for _, f := range p.AllFuncs {
			root := f
			for root.Parent() != nil {
				root = root.Parent()
			}
			if obj, ok := root.Object().(*types.Func); ok && !knownFuncs[obj.FullName()] && !referenced[root] {
				p.NormLog = append(p.NormLog, "absorbed: "+obj.FullName())
				continue
			}
			kept = append(kept, f)
		}
		p.AllFuncs = kept
	}
	sort.Slice(p.AllFuncs, func(i, j int) bool { return p.AllFuncs[i].String() < p.AllFuncs[j].String() })
	return p, nil
}

// Pkg returns the packages.Package with the repo-relative path rel
// ("core/server", "" for the root package).
func (p *Prog) Pkg(rel string) *packages.Package {
	path := ModPath
	if rel != "" {
		path += "/" + rel
	}
	return p.byPath[path]
}

// SSAPkg returns the SSA package for a repo-relative path.
func (p *Prog) SSAPkg(rel string) *ssa.Package {
	path := ModPath
	if rel != "" {
		path += "/" + rel
	}
	return p.ssaPkg[path]
}

// Func resolves a function or method of a repo package. name is either
// "funcName" or "(*T).method" / "(T).method".
func (p *Prog) Func(rel, name string) *ssa.Function {
	sp := p.SSAPkg(rel)
	if sp == nil {
		return nil
	}
	if !strings.HasPrefix(name, "(") {
		return sp.Func(name)
	}
	// method
	close := strings.Index(name, ")")
	if close < 0 {
		return nil
	}
	recv := name[1:close]
	meth := strings.TrimPrefix(name[close+1:], ".")
	ptr := strings.HasPrefix(recv, "*")
	recv = strings.TrimPrefix(recv, "*")
	tm := sp.Type(recv)
	if tm == nil {
		return nil
	}
	var t types.Type = tm.Type()
	if ptr {
		t = types.NewPointer(t)
	}
	sel := p.SSA.MethodSets.MethodSet(t).Lookup(sp.Pkg, meth)
	if sel == nil {
		return nil
	}
	return p.SSA.MethodValue(sel)
}

// Global resolves a package-level variable.
func (p *Prog) Global(rel, name string) *ssa.Global {
	sp := p.SSAPkg(rel)
	if sp == nil {
		return nil
	}
	return sp.Var(name)
}

// Const resolves a package-level constant.
func (p *Prog) Const(rel, name string) *ssa.NamedConst {
	sp := p.SSAPkg(rel)
	if sp == nil {
		return nil
	}
	return sp.Const(name)
}

// Pos renders a position relative to the repository directory.
func (p *Prog) Pos(pos token.Pos) string {
	if !pos.IsValid() {
		return "-"
	}
	ps := p.Fset.Position(pos)
	f := strings.TrimPrefix(ps.Filename, p.Dir+"/")
	return fmt.Sprintf("%s:%d:%d", f, ps.Line, ps.Column)
}

// FuncName is a short stable name for a function: "core/server.handleRequest".
func FuncName(f *ssa.Function) string {
	if f == nil {
		return "<nil>"
	}
	s := f.String()
	s = strings.ReplaceAll(s, ModPath+"/", "")
	s = strings.ReplaceAll(s, ModPath, "main")
	return s
}

// CalleeName returns the types.Func full name of a call's callee (static
// function, method, or interface method), or "" for dynamic closures/builtins.
func CalleeName(c *ssa.CallCommon) string {
	if c.IsInvoke() {
		return c.Method.FullName()
	}
	if f := c.StaticCallee(); f != nil {
		if f.Object() != nil {
			return f.Object().(*types.Func).FullName()
		}
		// synthetic wrappers / anonymous
		return f.String()
	}
	if b, ok := c.Value.(*ssa.Builtin); ok {
		return "builtin." + b.Name()
	}
	return ""
}

// Short strips the module path from a full name.
func Short(s string) string {
	return strings.ReplaceAll(s, ModPath+"/", "")
}

// Q qualifies a repo-relative function name: Q("net/ntp.DecodePacket").
func Q(s string) string {
	if strings.HasPrefix(s, "(") {
		// "(*net/nts.Packet).authenticate" -> "(*example.com/scion-time/net/nts.Packet).authenticate"
		i := 1
		if strings.HasPrefix(s[1:], "*") {
			i = 2
		}
		return s[:i] + ModPath + "/" + s[i:]
	}
	return ModPath + "/" + s
}

// Sizes returns the type sizes of the analysed target (linux/amd64).
func (p *Prog) Sizes() types.Sizes { return types.SizesFor("gc", "amd64") }
