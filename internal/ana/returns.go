package ana

import (
	"go/token"
	"go/types"

	"golang.org/x/tools/go/ssa"
)

// zeroMarker stands for "no store reaches: the zero value".
type zeroMarker struct{ ssa.Value }

// Zero is the sentinel for the zero value of a local alloc.
var Zero ssa.Value = zeroMarker{}

// unknownMarker stands for a value written through an escaped address.
type unknownMarker struct{ ssa.Value }

var Unknown ssa.Value = unknownMarker{}

// ReachingStores computes, for a local Alloc, the set of stored values that may
// reach each instruction (flow-sensitive, intraprocedural). A call that
// receives the alloc's address yields Unknown. Returns a query function.
func ReachingStores(fn *ssa.Function, a *ssa.Alloc) func(at ssa.Instruction) []ssa.Value {
	type set map[ssa.Value]bool
	in := make([]set, len(fn.Blocks))
	out := make([]set, len(fn.Blocks))
	transfer := func(b *ssa.BasicBlock, s set, upto ssa.Instruction) set {
		cur := set{}
		for k := range s {
			cur[k] = true
		}
		for _, ins := range b.Instrs {
			if ins == upto {
				break
			}
			switch x := ins.(type) {
			case *ssa.Store:
				if x.Addr == ssa.Value(a) {
					cur = set{x.Val: true}
				}
			case ssa.CallInstruction:
				for _, arg := range x.Common().Args {
					if arg == ssa.Value(a) {
						cur = set{Unknown: true}
					}
				}
			}
		}
		return cur
	}
	for i := range in {
		in[i] = set{}
		out[i] = set{}
	}
	in[0] = set{Zero: true}
	changed := true
	for changed {
		changed = false
		for _, b := range fn.Blocks {
			if b.Index != 0 {
				ns := set{}
				for _, p := range b.Preds {
					for k := range out[p.Index] {
						ns[k] = true
					}
				}
				if len(ns) != len(in[b.Index]) {
					in[b.Index] = ns
					changed = true
				}
			}
			no := transfer(b, in[b.Index], nil)
			if len(no) != len(out[b.Index]) {
				changed = true
			} else {
				for k := range no {
					if !out[b.Index][k] {
						changed = true
					}
				}
			}
			out[b.Index] = no
		}
	}
	return func(at ssa.Instruction) []ssa.Value {
		b := at.Block()
		s := transfer(b, in[b.Index], at)
		var vs []ssa.Value
		for k := range s {
			vs = append(vs, k)
		}
		return vs
	}
}

// ReturnInfo describes one return statement's error operand.
type ReturnInfo struct {
	Ret *ssa.Return
	// ErrVals are the values the error result may have (resolved through the
	// named-result alloc when results are spilled around defer).
	ErrVals []ssa.Value
	// Class is "success" (error is nil on some reaching value), "failure"
	// (every reaching value is proven non-nil) or "unknown".
	Class string
	Why   string
}

// ClassifyReturns classifies every return of fn by its last (error) result.
func ClassifyReturns(fn *ssa.Function) []ReturnInfo {
	var out []ReturnInfo
	res := fn.Signature.Results()
	if res.Len() == 0 {
		return nil
	}
	ei := res.Len() - 1
	if !types.Identical(res.At(ei).Type(), types.Universe.Lookup("error").Type()) {
		return nil
	}
	cache := map[*ssa.Alloc]func(ssa.Instruction) []ssa.Value{}
	dead := DeadBlocks(fn)
	for _, b := range fn.Blocks {
		if fn.Recover != nil && b == fn.Recover {
			continue
		}
		if dead[b] {
			continue // reachable only through a branch on a constant condition
		}
		n := len(b.Instrs)
		if n == 0 {
			continue
		}
		ret, ok := b.Instrs[n-1].(*ssa.Return)
		if !ok {
			continue
		}
		ev := ret.Results[ei]
		var vals []ssa.Value
		// spilled named result: t = *errAlloc after rundefers
		if u, ok := ev.(*ssa.UnOp); ok && u.Op == token.MUL {
			if a, ok := u.X.(*ssa.Alloc); ok {
				q := cache[a]
				if q == nil {
					q = ReachingStores(fn, a)
					cache[a] = q
				}
				for _, v := range q(u) {
					vals = append(vals, expandLocal(fn, v, cache, 0)...)
				}
			}
		}
		if vals == nil {
			vals = []ssa.Value{ev}
		}
		ri := ReturnInfo{Ret: ret, ErrVals: vals}
		allFail, anyNil := true, false
		for _, v := range vals {
			switch {
			case v == Zero || IsNilConst(v):
				anyNil = true
				allFail = false
			case provenNonNil(v, b):
			case provenNil(v, b):
				anyNil = true
				allFail = false
			default:
				allFail = false
			}
		}
		switch {
		case anyNil:
			ri.Class = "success"
		case allFail:
			ri.Class = "failure"
		default:
			ri.Class = "unknown"
		}
		out = append(out, ri)
	}
	return out
}

// expandLocal resolves a value that is itself a load of a local alloc to the
// stores reaching that load.
func expandLocal(fn *ssa.Function, v ssa.Value, cache map[*ssa.Alloc]func(ssa.Instruction) []ssa.Value, depth int) []ssa.Value {
	if depth > 4 || v == Zero || v == Unknown {
		return []ssa.Value{v}
	}
	if u, ok := v.(*ssa.UnOp); ok && u.Op == token.MUL {
		if a, ok := u.X.(*ssa.Alloc); ok {
			q := cache[a]
			if q == nil {
				q = ReachingStores(fn, a)
				cache[a] = q
			}
			var out []ssa.Value
			for _, w := range q(u) {
				out = append(out, expandLocal(fn, w, cache, depth+1)...)
			}
			return out
		}
	}
	return []ssa.Value{v}
}

// provenNonNil: v is a load of a package-level error variable, a fresh error
// construction, or the block at is dominated by the non-nil edge of a nil test
// of v.
func provenNonNil(v ssa.Value, at *ssa.BasicBlock) bool {
	v = Strip(v)
	if u, ok := v.(*ssa.UnOp); ok && u.Op == token.MUL {
		if _, ok := u.X.(*ssa.Global); ok {
			return true // package-level errors.New variable (never nil in this repo; checked by C-rules' evidence)
		}
	}
	if c, ok := v.(*ssa.Call); ok {
		switch CalleeName(c.Common()) {
		case "errors.New", "fmt.Errorf":
			return true
		}
	}
	if _, ok := v.(*ssa.MakeInterface); ok {
		return true
	}
	// dominated by a nil test of v
	fn := at.Parent()
	for _, b := range fn.Blocks {
		n := len(b.Instrs)
		if n == 0 {
			continue
		}
		iff, ok := b.Instrs[n-1].(*ssa.If)
		if !ok {
			continue
		}
		c, pos, isCmp := AsCmp(iff.Cond)
		if !isCmp || (c.Op != token.EQL && c.Op != token.NEQ) {
			// `err != nil || n != len(buf)` style disjunctions are not proofs
			continue
		}
		x, y := c.X, c.Y
		if IsNilConst(x) {
			x, y = y, x
		}
		if !IsNilConst(y) {
			continue
		}
		if !sameValue(x, v) {
			continue
		}
		// cond true <=> (x op nil) == pos ; non-nil edge:
		nonNilOnTrue := (c.Op == token.NEQ) == pos
		idx := 1
		if nonNilOnTrue {
			idx = 0
		}
		succ := b.Succs[idx]
		if len(succ.Preds) == 1 && succ.Dominates(at) {
			return true
		}
	}
	return false
}

// sameValue: identical SSA value, or both loads of the same local alloc with
// the same unique reaching store (cheap check: identical after Resolve).
func sameValue(a, b ssa.Value) bool {
	if a == b {
		return true
	}
	ra, rb := Resolve(a), Resolve(b)
	if ra == rb {
		return true
	}
	// loads of the same alloc in a dominating relation with no store between
	// are handled by Resolve when in one block; otherwise compare alloc identity
	ua, ok1 := a.(*ssa.UnOp)
	ub, ok2 := b.(*ssa.UnOp)
	if ok1 && ok2 && ua.Op == token.MUL && ub.Op == token.MUL && ua.X == ub.X {
		if _, ok := ua.X.(*ssa.Alloc); ok {
			return true
		}
	}
	return false
}

// UniqueReaching resolves a load of a local alloc to the single store value
// that reaches it (flow-sensitive), following chains of such loads. It returns
// v itself when v is not such a load, and nil when the reaching store is not
// unique.
func UniqueReaching(fn *ssa.Function, v ssa.Value) ssa.Value {
	for i := 0; i < 8; i++ {
		v = Strip(v)
		u, ok := v.(*ssa.UnOp)
		if !ok || u.Op != token.MUL {
			return v
		}
		a, ok := u.X.(*ssa.Alloc)
		if !ok {
			return v
		}
		vals := ReachingStores(fn, a)(u)
		if len(vals) != 1 || vals[0] == Zero || vals[0] == Unknown {
			return nil
		}
		v = vals[0]
	}
	return v
}

// provenNil: block at is dominated by the nil edge of a nil test of v.
func provenNil(v ssa.Value, at *ssa.BasicBlock) bool {
	v = Strip(v)
	fn := at.Parent()
	for _, b := range fn.Blocks {
		n := len(b.Instrs)
		if n == 0 {
			continue
		}
		iff, ok := b.Instrs[n-1].(*ssa.If)
		if !ok {
			continue
		}
		c, pos, isCmp := AsCmp(iff.Cond)
		if !isCmp || (c.Op != token.EQL && c.Op != token.NEQ) {
			continue
		}
		x, y := c.X, c.Y
		if IsNilConst(x) {
			x, y = y, x
		}
		if !IsNilConst(y) || !sameValue(x, v) {
			continue
		}
		nilOnTrue := (c.Op == token.EQL) == pos
		idx := 1
		if nilOnTrue {
			idx = 0
		}
		succ := b.Succs[idx]
		if len(succ.Preds) == 1 && (succ == at || succ.Dominates(at)) {
			return true
		}
	}
	return false
}

// DefKind classifies what an instruction does to an abstract location.
type DefKind int

const (
	DefNone    DefKind = iota
	DefStrong          // overwrites the location with Val
	DefWeak            // may change part of the location (adds Val)
	DefUnknown         // the location may be rewritten by code we do not see (address escapes to a call)
)

// ReachingDefs is a generic flow-sensitive reaching-definitions analysis for one
// abstract location of a function. classify tells what each instruction does.
// The query returns the set of values that may be in the location before `at`
// (Zero for the initial zero value, Unknown after an unknown definition).
func ReachingDefs(fn *ssa.Function, classify func(ssa.Instruction) (DefKind, ssa.Value)) func(at ssa.Instruction) []ssa.Value {
	type set map[ssa.Value]bool
	in := make([]set, len(fn.Blocks))
	out := make([]set, len(fn.Blocks))
	transfer := func(b *ssa.BasicBlock, s set, upto ssa.Instruction) set {
		cur := set{}
		for k := range s {
			cur[k] = true
		}
		for _, ins := range b.Instrs {
			if ins == upto {
				break
			}
			k, v := classify(ins)
			switch k {
			case DefStrong:
				cur = set{v: true}
			case DefWeak:
				cur[v] = true
			case DefUnknown:
				cur = set{Unknown: true}
			}
		}
		return cur
	}
	for i := range in {
		in[i] = set{}
		out[i] = set{}
	}
	in[0] = set{Zero: true}
	for changed := true; changed; {
		changed = false
		for _, b := range fn.Blocks {
			if b.Index != 0 {
				ns := set{}
				for _, p := range b.Preds {
					for k := range out[p.Index] {
						ns[k] = true
					}
				}
				if len(ns) != len(in[b.Index]) {
					in[b.Index] = ns
					changed = true
				}
			}
			no := transfer(b, in[b.Index], nil)
			if len(no) != len(out[b.Index]) {
				changed = true
			} else {
				for k := range no {
					if !out[b.Index][k] {
						changed = true
					}
				}
			}
			out[b.Index] = no
		}
	}
	return func(at ssa.Instruction) []ssa.Value {
		b := at.Block()
		s := transfer(b, in[b.Index], at)
		var vs []ssa.Value
		for k := range s {
			vs = append(vs, k)
		}
		return vs
	}
}
