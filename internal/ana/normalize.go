package ana

import (
	_ "embed"
	"encoding/json"
	"fmt"
	"go/ast"
	"go/token"
	"go/types"
	"os"
	"regexp"
	"sort"
	"strings"

	"golang.org/x/tools/go/packages"
)

// Normalisation: calls to same-package helper functions that did not exist on
// the pinned tree (not listed in known_funcs.txt) are replaced, in an in-memory
// overlay of the source, by the helper's body. The rules anchor on the
// functions of the pinned tree; a maintainer who later extracts part of such a
// function into a new helper does not change behaviour, and after
// normalisation the rules see the same code shape as before the extraction.
// Nothing is written to /repo; the overlay lives in the loader's configuration.
//
// The rewrite is purely syntactic and conservative: a call site or callee it
// does not understand is left alone.

//go:embed known_funcs.txt
var knownFuncsTxt string

var knownFuncs = func() map[string]bool {
	m := map[string]bool{}
	for _, l := range strings.Split(knownFuncsTxt, "\n") {
		l = strings.TrimSpace(l)
		if l != "" && !strings.HasPrefix(l, "#") {
			m[l] = true
		}
	}
	return m
}()

// fullHygiene (NORM_FULL_HYGIENE=1): every local the callee declares gets the call's unique prefix.
// The default renames exactly the callee locals that could capture a caller-side name placed inside
// the inlined block: the assignment targets, every name of a copied failure handler, and - by
// refusing the substitution - every name of a substituted argument. That is sufficient (those are
// the only caller-side names that enter the callee's scope) and keeps the helper's own names,
// which some rules read.
var fullHygiene = os.Getenv("NORM_FULL_HYGIENE") != ""

type textEdit struct {
	start, end int
	text       string
}

func applyEdits(src []byte, edits []textEdit) []byte {
	// from the end of the text backwards; at one position a replacement is applied before an
	// insertion, so that the insertion ends up in front of the replaced text
	sort.SliceStable(edits, func(i, j int) bool {
		if edits[i].start != edits[j].start {
			return edits[i].start > edits[j].start
		}
		return edits[i].end > edits[j].end
	})
	out := append([]byte{}, src...)
	for _, e := range edits {
		out = append(out[:e.start], append([]byte(e.text), out[e.end:]...)...)
	}
	return out
}

type normalizer struct {
	fset    *token.FileSet
	pkg     *packages.Package
	src     map[string][]byte // file name -> current text
	counter int
	log     []string

	closures   map[types.Object]*closureInfo // local closure variables that are only ever called
	closureSet bool
	marked     map[types.Object]bool           // closures that received (or already have) a `_ = f` marker this round
	extra      map[string][]textEdit           // edits produced on the side (markers), per file
	encl       map[ast.Stmt]*types.Signature   // enclosing function of each collected statement
	addImp     map[*ast.File]map[string]string // imports to add to a file (path -> local name or "")
	curCall    *ast.CallExpr                   // the call that is the whole right-hand side of the assignment being rewritten
	curLHS     []ast.Expr                      // and that assignment's targets
}

func (n *normalizer) off(p token.Pos) int { return n.fset.Position(p).Offset }

// calleeDecl finds the declaration of fn in the package.
func (n *normalizer) calleeDecl(fn *types.Func) (*ast.FuncDecl, *ast.File) {
	for _, f := range n.pkg.Syntax {
		for _, d := range f.Decls {
			fd, ok := d.(*ast.FuncDecl)
			if ok && n.pkg.TypesInfo.Defs[fd.Name] == types.Object(fn) {
				return fd, f
			}
		}
	}
	return nil, nil
}

// inlinable checks the callee's shape.
func (n *normalizer) inlinable(fd *ast.FuncDecl, sig *types.Signature, fn types.Object) bool {
	if fd.Body == nil || fd.Type.TypeParams != nil {
		return false
	}
	if sig.TypeParams() != nil || sig.RecvTypeParams() != nil {
		return false
	}
	// named results must all be named (handled as locals); no defer/recover/labels/goto, no recursion
	if fd.Type.Results != nil {
		named, unnamed := 0, 0
		for _, f := range fd.Type.Results.List {
			if len(f.Names) > 0 {
				named += len(f.Names)
				for _, nm := range f.Names {
					if nm.Name == "_" {
						return false
					}
				}
			} else {
				unnamed++
			}
		}
		if named > 0 && unnamed > 0 {
			return false
		}
	}
	for _, f := range fd.Type.Params.List {
		for _, nm := range f.Names {
			if nm.Name == "_" {
				return false
			}
		}
		if len(f.Names) == 0 {
			return false
		}
	}
	if fd.Recv != nil && (len(fd.Recv.List) != 1 || len(fd.Recv.List[0].Names) != 1 || fd.Recv.List[0].Names[0].Name == "_") {
		return false
	}
	ok := true
	ast.Inspect(fd.Body, func(x ast.Node) bool {
		switch y := x.(type) {
		case *ast.DeferStmt:
			ok = false
		case *ast.LabeledStmt:
			// labels this normaliser generated (an earlier round inlined something into the helper)
			// are renamed when the helper's text is copied
			if !generatedLabel.MatchString(y.Label.Name) {
				ok = false
			}
		case *ast.BranchStmt:
			if y.Tok == token.GOTO || (y.Label != nil && !generatedLabel.MatchString(y.Label.Name)) {
				ok = false
			}
		case *ast.CallExpr:
			if id, isId := y.Fun.(*ast.Ident); isId {
				if id.Name == "recover" {
					ok = false
				}
				if n.pkg.TypesInfo.Uses[id] == fn {
					ok = false
				}
			}
			if sel, isSel := y.Fun.(*ast.SelectorExpr); isSel && n.pkg.TypesInfo.Uses[sel.Sel] == fn {
				ok = false
			}
		}
		return ok
	})
	return ok
}

// qualifierFor renders types relative to file f; ok=false if a needed package is not imported by f.
func (n *normalizer) qualifierFor(f *ast.File, missing *[]*types.Package) types.Qualifier {
	names := map[string]string{}
	for _, im := range f.Imports {
		path := strings.Trim(im.Path.Value, "\"")
		name := ""
		if im.Name != nil {
			name = im.Name.Name
		}
		names[path] = name
	}
	return func(p *types.Package) string {
		if p == n.pkg.Types {
			return ""
		}
		if nm, ok := names[p.Path()]; ok {
			if nm == "" {
				return p.Name()
			}
			return nm
		}
		*missing = append(*missing, p)
		return p.Name()
	}
}

// bodyText renders the callee body with parameters renamed and returns rewritten.
// retFmt receives the rendered result expressions and produces the replacement statement.
func (n *normalizer) bodyText(fd *ast.FuncDecl, file *ast.File, prefix string, subst map[types.Object]string, retStmt func(results string, nres int) string) (string, bool) {
	return n.bodyTextX(fd, file, prefix, subst, retStmt, nil, nil)
}

// bodyTextX: as bodyText; retTail (optional) returns extra text to run after the assignment of
// one particular return statement instead of leaving the inlined block (the caller's failure
// handler); avoid lists names that locals declared by the callee must not keep.
func (n *normalizer) bodyTextX(fd *ast.FuncDecl, file *ast.File, prefix string, subst map[types.Object]string, retStmt func(results string, nres int) string, retTail func(z *ast.ReturnStmt) (string, bool), avoid map[string]bool) (string, bool) {
	src := n.src[n.fset.Position(file.Pos()).Filename]
	info := n.pkg.TypesInfo
	params := map[types.Object]bool{}
	add := func(fl *ast.FieldList) {
		if fl == nil {
			return
		}
		for _, f := range fl.List {
			for _, nm := range f.Names {
				if o := info.Defs[nm]; o != nil {
					params[o] = true
				}
			}
		}
	}
	add(fd.Recv)
	add(fd.Type.Params)
	add(fd.Type.Results)
	base := n.off(fd.Body.Lbrace) + 1
	end := n.off(fd.Body.Rbrace)
	var edits []textEdit
	okAll := true
	var walk func(x ast.Node, inLit bool)
	walk = func(x ast.Node, inLit bool) {
		ast.Inspect(x, func(y ast.Node) bool {
			switch z := y.(type) {
			case *ast.FuncLit:
				if y != x {
					walk(z.Body, true)
					return false
				}
			case *ast.Ident:
				if o := info.Uses[z]; o != nil && params[o] {
					rep := prefix + z.Name
					if t, ok := subst[o]; ok {
						rep = t
					}
					edits = append(edits, textEdit{n.off(z.Pos()) - base, n.off(z.End()) - base, rep})
				} else if fullHygiene || (avoid != nil && avoid[z.Name]) {
					// a local of the callee: renamed so that it can never capture a name that means
					// something else at the call site (targets, failure handler, substituted arguments)
					o := info.Uses[z]
					if o == nil {
						o = info.Defs[z]
					}
					if v, isVar := o.(*types.Var); isVar && !v.IsField() && v.Parent() != nil && v.Parent() != n.pkg.Types.Scope() && v.Parent() != types.Universe && !params[o] {
						if fd.Body.Pos() <= v.Pos() && v.Pos() <= fd.Body.End() {
							edits = append(edits, textEdit{n.off(z.Pos()) - base, n.off(z.End()) - base, prefix + z.Name})
						}
					}
				}
			case *ast.AssignStmt:
				// `res, x := f()` at the top of a function may REUSE a parameter or named result
				// (same scope) and define only x. Inside the block the body is copied into, the
				// stand-in for that variable lives in an outer scope, where `:=` would declare a
				// new one and leave the stand-in unset: declare the new variables, then assign.
				if z.Tok == token.DEFINE && !inLit {
					reuses := false
					var decls strings.Builder
					okTypes := true
					var missing []*types.Package
					q := n.qualifierFor(file, &missing)
					for _, l := range z.Lhs {
						id, isId := l.(*ast.Ident)
						if !isId || id.Name == "_" {
							continue
						}
						if o := info.Defs[id]; o != nil {
							fmt.Fprintf(&decls, "var %s %s; ", id.Name, types.TypeString(o.Type(), q))
						} else if o := info.Uses[id]; o != nil && params[o] {
							reuses = true
						}
					}
					if reuses {
						if len(missing) > 0 {
							okTypes = false
						}
						if !okTypes {
							okAll = false
							return false
						}
						edits = append(edits, textEdit{n.off(z.Pos()) - base, n.off(z.Pos()) - base, decls.String()})
						edits = append(edits, textEdit{n.off(z.TokPos) - base, n.off(z.TokPos) - base + 2, "="})
					}
				}
			case *ast.LabeledStmt:
				if generatedLabel.MatchString(z.Label.Name) {
					edits = append(edits, textEdit{n.off(z.Label.Pos()) - base, n.off(z.Label.End()) - base, labelPrefix(prefix) + z.Label.Name})
				}
			case *ast.BranchStmt:
				if z.Label != nil && generatedLabel.MatchString(z.Label.Name) {
					edits = append(edits, textEdit{n.off(z.Label.Pos()) - base, n.off(z.Label.End()) - base, labelPrefix(prefix) + z.Label.Name})
				}
			case *ast.ReturnStmt:
				if inLit {
					return true
				}
				// "return e1, e2" -> "{ <assign>; break L }"
				kw := n.off(z.Pos()) - base
				if len(z.Results) == 0 {
					edits = append(edits, textEdit{kw, kw + len("return"), "{ " + retStmt("", 0) + " }"})
				} else {
					edits = append(edits, textEdit{kw, kw + len("return"), "{ " + retStmt("\x00", len(z.Results))})
					tail := "\x01 }"
					if retTail != nil {
						if t, ok := retTail(z); ok {
							tail = "\n" + t + "\n}"
						}
					}
					edits = append(edits, textEdit{n.off(z.End()) - base, n.off(z.End()) - base, tail})
				}
			}
			return true
		})
	}
	walk(fd.Body, false)
	if !okAll {
		return "", false
	}
	body := applyEdits(append([]byte{}, src[base:end]...), edits)
	return string(body), true
}

var generatedLabel = regexp.MustCompile(`^(inl[0-9]+x)*inl[0-9]+L$`)

// labelPrefix: "inl12_" -> "inl12x" (labels of a copied helper body stay unique per copy).
func labelPrefix(prefix string) string { return strings.TrimSuffix(prefix, "_") + "x" }

// pureArg: an argument expression without side effects whose value the callee
// cannot change (identifiers, field selections, literals, &x, conversions of such).
func (n *normalizer) pureArg(e ast.Expr) bool {
	switch x := e.(type) {
	case *ast.Ident:
		_, isFn := n.pkg.TypesInfo.Uses[x].(*types.Func)
		return !isFn
	case *ast.BasicLit:
		return true
	case *ast.ParenExpr:
		return n.pureArg(x.X)
	case *ast.SelectorExpr:
		if sel := n.pkg.TypesInfo.Selections[x]; sel != nil {
			return sel.Kind() == types.FieldVal && n.pureArg(x.X)
		}
		// qualified identifier pkg.Name
		if id, ok := x.X.(*ast.Ident); ok {
			if _, isPkg := n.pkg.TypesInfo.Uses[id].(*types.PkgName); isPkg {
				_, isFn := n.pkg.TypesInfo.Uses[x.Sel].(*types.Func)
				return !isFn
			}
		}
	case *ast.UnaryExpr:
		return x.Op == token.AND && n.pureArg(x.X)
	case *ast.StarExpr:
		return n.pureArg(x.X)
	case *ast.CallExpr:
		if tv, ok := n.pkg.TypesInfo.Types[x.Fun]; ok && tv.IsType() && len(x.Args) == 1 {
			return n.pureArg(x.Args[0])
		}
		if n.pureLibCall(x) {
			for _, a := range x.Args {
				if !n.pureArg(a) {
					return false
				}
			}
			if sel, ok := x.Fun.(*ast.SelectorExpr); ok && n.pkg.TypesInfo.Selections[sel] != nil {
				return n.pureArg(sel.X)
			}
			return true
		}
	}
	return false
}

// hasRealCall: e contains a call that is not a conversion.
func (n *normalizer) hasRealCall(e ast.Expr) bool {
	found := false
	ast.Inspect(e, func(x ast.Node) bool {
		if c, ok := x.(*ast.CallExpr); ok {
			if tv, ok := n.pkg.TypesInfo.Types[c.Fun]; !ok || !tv.IsType() {
				found = true
			}
		}
		return !found
	})
	return found
}

// useCount: how often the callee's body mentions o.
func (n *normalizer) useCount(fd *ast.FuncDecl, o types.Object) int {
	k := 0
	ast.Inspect(fd.Body, func(x ast.Node) bool {
		if id, ok := x.(*ast.Ident); ok && n.pkg.TypesInfo.Uses[id] == o {
			k++
		}
		return true
	})
	return k
}

// pureLibCall: a call of a standard-library function or method that only computes a value from
// its operands (no clock, no I/O, no mutation): reordering it with other calls, or evaluating it
// more than once, cannot be observed.
func (n *normalizer) pureLibCall(x *ast.CallExpr) bool {
	info := n.pkg.TypesInfo
	var fn *types.Func
	switch f := x.Fun.(type) {
	case *ast.Ident:
		if b, ok := info.Uses[f].(*types.Builtin); ok {
			switch b.Name() {
			case "len", "cap", "min", "max":
				return true
			}
			return false
		}
		fn, _ = info.Uses[f].(*types.Func)
	case *ast.SelectorExpr:
		if sel := info.Selections[f]; sel != nil {
			if sel.Kind() != types.MethodVal {
				return false
			}
			fn, _ = sel.Obj().(*types.Func)
			if _, isIface := sel.Recv().Underlying().(*types.Interface); isIface {
				return false
			}
		} else {
			fn, _ = info.Uses[f.Sel].(*types.Func)
		}
	}
	if fn == nil || fn.Pkg() == nil {
		return false
	}
	sig, _ := fn.Type().(*types.Signature)
	switch fn.Pkg().Path() {
	case "time":
		if sig != nil && sig.Recv() != nil {
			// value methods of time.Time and time.Duration compute from the receiver
			if _, isPtr := sig.Recv().Type().(*types.Pointer); isPtr {
				return false
			}
			rn := sig.Recv().Type().String()
			return rn == "time.Time" || rn == "time.Duration"
		}
		switch fn.Name() {
		case "Unix", "UnixMilli", "UnixMicro", "Date":
			return true
		}
		return false
	case "math", "math/bits", "cmp":
		return true
	case "net/netip":
		if sig != nil && sig.Recv() != nil {
			_, isPtr := sig.Recv().Type().(*types.Pointer)
			return !isPtr
		}
		switch fn.Name() {
		case "AddrFrom4", "AddrFrom16", "AddrPortFrom", "AddrFromSlice":
			return true
		}
	}
	return false
}

// assignedParams: parameters the callee assigns to, increments or takes the address of.
func (n *normalizer) assignedParams(fd *ast.FuncDecl) map[types.Object]bool {
	info := n.pkg.TypesInfo
	out := map[types.Object]bool{}
	mark := func(e ast.Expr) {
		for {
			if p, ok := e.(*ast.ParenExpr); ok {
				e = p.X
				continue
			}
			break
		}
		if id, ok := e.(*ast.Ident); ok {
			if o := info.Uses[id]; o != nil {
				out[o] = true
			}
		}
	}
	ast.Inspect(fd.Body, func(x ast.Node) bool {
		switch y := x.(type) {
		case *ast.AssignStmt:
			for _, l := range y.Lhs {
				mark(l)
			}
		case *ast.IncDecStmt:
			mark(y.X)
		case *ast.UnaryExpr:
			if y.Op == token.AND {
				mark(y.X)
			}
		case *ast.RangeStmt:
			if y.Key != nil {
				mark(y.Key)
			}
			if y.Value != nil {
				mark(y.Value)
			}
		}
		return true
	})
	return out
}

// declaredNames: names declared inside the callee body (locals, labels are excluded by inlinable).
func (n *normalizer) declaredNames(fd *ast.FuncDecl) map[string]bool {
	out := map[string]bool{}
	ast.Inspect(fd.Body, func(x ast.Node) bool {
		if id, ok := x.(*ast.Ident); ok {
			if o := n.pkg.TypesInfo.Defs[id]; o != nil {
				out[id.Name] = true
			}
		}
		return true
	})
	return out
}

func identsOf(e ast.Node) []string {
	var out []string
	ast.Inspect(e, func(x ast.Node) bool {
		if id, ok := x.(*ast.Ident); ok {
			out = append(out, id.Name)
		}
		return true
	})
	return out
}

func (n *normalizer) staticCallee(call *ast.CallExpr) (*types.Func, ast.Expr) {
	info := n.pkg.TypesInfo
	switch f := call.Fun.(type) {
	case *ast.Ident:
		if fn, ok := info.Uses[f].(*types.Func); ok {
			return fn, nil
		}
	case *ast.SelectorExpr:
		if sel := info.Selections[f]; sel != nil && sel.Kind() == types.MethodVal {
			if len(sel.Index()) != 1 {
				return nil, nil
			}
			if fn, ok := sel.Obj().(*types.Func); ok {
				if _, isIface := sel.Recv().Underlying().(*types.Interface); isIface {
					return nil, nil
				}
				return fn, f.X
			}
		}
	}
	return nil, nil
}

func (n *normalizer) isTarget(call *ast.CallExpr) bool {
	return n.resolveCallee(call) != nil
}

// inlineCall renders "var r0 T0 ...; { bindings; L: for { body; break L } }" for one call
// and returns the names of the result temporaries.
// inlineOpts: the call is the right-hand side of `x, err := f(...)` directly followed by
// `if err != nil { <terminating handler> }`: results are assigned to the targets directly and
// returns of the callee that certainly carry a non-nil error run the handler right away.
type inlineOpts struct {
	targets []string
	handler string
	avoid   map[string]bool
	tail    bool   // the call is the sole operand of a return statement: the callee's returns become the caller's
	direct  bool   // plain `targets (:)= f(...)`: results are assigned to the targets at each return, no failure handler
	fresh   []bool // per target: a variable this very statement declares (a named result of the callee may stand for it)
}

func (n *normalizer) inlineCall(call *ast.CallExpr, file *ast.File, at token.Pos) (string, []string, bool) {
	return n.inlineCallX(call, file, at, nil)
}

// retErrKind classifies the error operand of a return statement of fd: "ok" (nil), "fail"
// (certainly non-nil) or "unknown".
func (n *normalizer) retErrKind(fd *ast.FuncDecl, z *ast.ReturnStmt, nres int) string {
	if len(z.Results) != nres || nres == 0 {
		return "unknown"
	}
	info := n.pkg.TypesInfo
	last := z.Results[nres-1]
	switch x := last.(type) {
	case *ast.Ident:
		if _, isNil := info.Uses[x].(*types.Nil); isNil {
			return "ok"
		}
		if c, isConst := info.Uses[x].(*types.Const); isConst && c.Parent() == types.Universe {
			switch x.Name {
			case "true":
				return "ok"
			case "false":
				return "fail"
			}
		}
		if v, ok := info.Uses[x].(*types.Var); ok {
			if v.Parent() == n.pkg.Types.Scope() {
				return "fail" // package-level error value
			}
			// inside `if v != nil { ... return ..., v }`
			found := false
			var stack []ast.Node
			ast.Inspect(fd.Body, func(y ast.Node) bool {
				if y == nil {
					stack = stack[:len(stack)-1]
					return true
				}
				stack = append(stack, y)
				if y == ast.Node(z) {
					for i := len(stack) - 2; i >= 0; i-- {
						ifs, ok := stack[i].(*ast.IfStmt)
						if !ok || i+1 >= len(stack) || stack[i+1] != ast.Node(ifs.Body) {
							continue
						}
						if be, ok := ifs.Cond.(*ast.BinaryExpr); ok && be.Op == token.NEQ {
							if id, ok := be.X.(*ast.Ident); ok && info.Uses[id] == types.Object(v) {
								if nid, ok := be.Y.(*ast.Ident); ok {
									if _, isNil := info.Uses[nid].(*types.Nil); isNil {
										found = true
									}
								}
							}
						}
					}
				}
				return true
			})
			if found {
				return "fail"
			}
		}
	case *ast.CallExpr:
		if sel, ok := x.Fun.(*ast.SelectorExpr); ok {
			if id, ok := sel.X.(*ast.Ident); ok {
				if pn, ok := info.Uses[id].(*types.PkgName); ok {
					full := pn.Imported().Path() + "." + sel.Sel.Name
					if full == "errors.New" || full == "fmt.Errorf" {
						return "fail"
					}
				}
			}
		}
	}
	return "unknown"
}

func (n *normalizer) inlineCallX(call *ast.CallExpr, file *ast.File, at token.Pos, opts *inlineOpts) (string, []string, bool) {
	info := n.pkg.TypesInfo
	ref := n.resolveCallee(call)
	if ref == nil {
		return n.fail(1)
	}
	fd, cfile, recvExpr, sig := ref.fd, ref.file, ref.recv, ref.sig
	if fd == nil || !n.inlinable(fd, sig, ref.obj) {
		return n.fail(2)
	}
	if !n.sameMeaningAt(ref, fd.Body, at) {
		return n.fail(3)
	}
	callerImports := map[string]string{}
	for _, im := range file.Imports {
		nm := ""
		if im.Name != nil {
			nm = im.Name.Name
		}
		callerImports[strings.Trim(im.Path.Value, "\"")] = nm
	}
	okImp := true
	needImp := map[string]string{}
	ast.Inspect(fd.Body, func(x ast.Node) bool {
		if id, ok := x.(*ast.Ident); ok {
			if pn, ok := info.Uses[id].(*types.PkgName); ok {
				nm, has := callerImports[pn.Imported().Path()]
				want := ""
				if pn.Name() != pn.Imported().Name() {
					want = pn.Name()
				}
				if !has {
					// the caller's file does not import the package yet: add the import
					needImp[pn.Imported().Path()] = want
				} else if nm != want {
					okImp = false
				}
			}
		}
		return okImp
	})
	if !okImp {
		return n.fail(4)
	}
	// hygiene: package-level names used by the callee must mean the same thing at the call site
	inner := n.pkg.Types.Scope().Innermost(at)
	okScope := true
	ast.Inspect(fd.Body, func(x ast.Node) bool {
		if id, ok := x.(*ast.Ident); ok {
			if o := info.Uses[id]; o != nil && o.Parent() != nil && (o.Parent() == n.pkg.Types.Scope() || o.Parent() == types.Universe) {
				if inner != nil {
					if _, found := inner.LookupParent(id.Name, at); found != o {
						okScope = false
					}
				}
			}
		}
		return okScope
	})
	if !okScope {
		return n.fail(5)
	}
	registerImports := func() {
		if len(needImp) == 0 {
			return
		}
		if n.addImp == nil {
			n.addImp = map[*ast.File]map[string]string{}
		}
		if n.addImp[file] == nil {
			n.addImp[file] = map[string]string{}
		}
		for k, v := range needImp {
			n.addImp[file][k] = v
		}
	}
	n.counter++
	k := n.counter
	prefix := fmt.Sprintf("inl%d_", k)
	label := fmt.Sprintf("inl%dL", k)
	var missing []*types.Package
	q := n.qualifierFor(file, &missing)
	src := n.src[n.fset.Position(file.Pos()).Filename]
	text := func(e ast.Node) string { return string(src[n.off(e.Pos()):n.off(e.End())]) }
	var sb strings.Builder
	nres := sig.Results().Len()
	var temps []string
	tail := opts != nil && opts.tail
	if tail {
		// named results of the callee would need temporaries; bare returns too
		if fd.Type.Results != nil {
			for _, f := range fd.Type.Results.List {
				if len(f.Names) > 0 {
					return n.fail(60)
				}
			}
		}
	} else if opts != nil {
		if len(opts.targets) != nres {
			return n.fail(6)
		}
		temps = opts.targets
	} else {
		for i := 0; i < nres; i++ {
			t := fmt.Sprintf("%sr%d", prefix, i)
			temps = append(temps, t)
			fmt.Fprintf(&sb, "var %s %s\n_ = %s\n", t, types.TypeString(sig.Results().At(i).Type(), q), t)
		}
	}
	sb.WriteString("{\n")
	assigned := n.assignedParams(fd)
	declared := n.declaredNames(fd)
	subst := map[types.Object]string{}
	// overwritten: caller variables that the enclosing assignment overwrites with a result of this
	// very call. A parameter the callee assigns to may stand for such a variable directly - the
	// callee's updates of its copy are lost in the original only until the assignment replaces the
	// variable anyway - provided no other argument mentions the variable.
	overwritten := map[types.Object]bool{}
	if n.curCall == call {
		for _, l := range n.curLHS {
			if id, ok := l.(*ast.Ident); ok && info.Defs[id] == nil {
				if o := info.Uses[id]; o != nil {
					overwritten[o] = true
				}
			}
		}
	}
	mentions := func(o types.Object, except ast.Expr) bool {
		found := false
		for _, a := range call.Args {
			if a == except {
				continue
			}
			ast.Inspect(a, func(x ast.Node) bool {
				if id, ok := x.(*ast.Ident); ok && info.Uses[id] == o {
					found = true
				}
				return !found
			})
		}
		return found
	}
	canSubst := func(o types.Object, arg ast.Expr) bool {
		if assigned[o] {
			id, isId := arg.(*ast.Ident)
			if !isId || info.Uses[id] == nil || !overwritten[info.Uses[id]] || mentions(info.Uses[id], arg) || declared[id.Name] {
				return false
			}
			if !types.Identical(info.Uses[id].Type(), o.Type()) {
				return false
			}
			return true
		}
		if !n.pureArg(arg) {
			return false
		}
		if n.hasRealCall(arg) && n.useCount(fd, o) > 1 {
			return false // a (pure) call is kept a single value: bound once to a temporary
		}
		for _, nm := range identsOf(arg) {
			if declared[nm] {
				return false
			}
		}
		return true
	}
	if recvExpr != nil {
		rt := sig.Recv().Type()
		sel := info.Selections[call.Fun.(*ast.SelectorExpr)]
		re := text(recvExpr)
		_, wantPtr := rt.(*types.Pointer)
		_, havePtr := sel.Recv().(*types.Pointer)
		switch {
		case wantPtr && !havePtr:
			re = "(&" + re + ")"
		case !wantPtr && havePtr:
			re = "(*" + re + ")"
		default:
			if _, isId := recvExpr.(*ast.Ident); !isId {
				re = "(" + re + ")"
			}
		}
		ro := info.Defs[fd.Recv.List[0].Names[0]]
		if ro != nil && canSubst(ro, recvExpr) {
			subst[ro] = re
		} else {
			fmt.Fprintf(&sb, "var %s%s %s = %s\n", prefix, fd.Recv.List[0].Names[0].Name, types.TypeString(rt, q), re)
			fmt.Fprintf(&sb, "_ = %s%s\n", prefix, fd.Recv.List[0].Names[0].Name)
		}
	}
	np := sig.Params().Len()
	variadicText := ""
	if sig.Variadic() && !call.Ellipsis.IsValid() {
		// f(a, b, xs...) is f(a, b, []T{xs...}); no extra arguments pass nil
		if len(call.Args) < np-1 {
			return n.fail(7)
		}
		vt := types.TypeString(sig.Params().At(np-1).Type(), q)
		if len(call.Args) == np-1 {
			variadicText = vt + "(nil)"
		} else {
			var parts []string
			for _, a := range call.Args[np-1:] {
				parts = append(parts, text(a))
			}
			variadicText = vt + "{" + strings.Join(parts, ", ") + "}"
		}
	} else if len(call.Args) != np {
		return n.fail(7)
	}
	pi := 0
	for _, f := range fd.Type.Params.List {
		for _, nm := range f.Names {
			p := sig.Params().At(pi)
			if variadicText != "" && pi == np-1 {
				pi++
				fmt.Fprintf(&sb, "var %s%s %s = %s\n", prefix, p.Name(), types.TypeString(p.Type(), q), variadicText)
				fmt.Fprintf(&sb, "_ = %s%s\n", prefix, p.Name())
				continue
			}
			arg := call.Args[pi]
			pi++
			po := info.Defs[nm]
			if po != nil && canSubst(po, arg) {
				at := text(arg)
				if _, isLit := arg.(*ast.BasicLit); isLit {
					at = types.TypeString(p.Type(), q) + "(" + at + ")"
				} else if _, isId := arg.(*ast.Ident); !isId {
					at = "(" + at + ")"
				}
				subst[po] = at
				continue
			}
			fmt.Fprintf(&sb, "var %s%s %s = %s\n", prefix, p.Name(), types.TypeString(p.Type(), q), text(arg))
			fmt.Fprintf(&sb, "_ = %s%s\n", prefix, p.Name())
		}
	}
	if len(missing) > 0 {
		return n.fail(8)
	}
	var namedRes []string
	if fd.Type.Results != nil {
		ri := 0
		for _, f := range fd.Type.Results.List {
			for _, nm := range f.Names {
				if opts != nil && !tail && ri < len(opts.fresh) && opts.fresh[ri] && ri < len(temps) && !declared[temps[ri]] {
					// the caller's freshly declared target variable is the callee's named result
					if ro := info.Defs[nm]; ro != nil {
						subst[ro] = temps[ri]
						namedRes = append(namedRes, temps[ri])
						ri++
						continue
					}
				}
				namedRes = append(namedRes, prefix+nm.Name)
				fmt.Fprintf(&sb, "var %s%s %s\n_ = %s%s\n", prefix, nm.Name, types.TypeString(sig.Results().At(ri).Type(), q), prefix, nm.Name)
				ri++
			}
		}
	}
	retStmt := func(results string, nr int) string {
		if tail {
			return "return " + results
		}
		if len(temps) == 0 {
			return "break " + label
		}
		if nr == 0 {
			if len(namedRes) == len(temps) {
				return strings.Join(temps, ", ") + " = " + strings.Join(namedRes, ", ") + "; break " + label
			}
			return "break " + label
		}
		return strings.Join(temps, ", ") + " = " + results
	}
	var retTail func(z *ast.ReturnStmt) (string, bool)
	var avoid map[string]bool
	if opts != nil && !tail {
		avoid = opts.avoid
	}
	if opts != nil && !tail && !opts.direct {
		retTail = func(z *ast.ReturnStmt) (string, bool) {
			if n.retErrKind(fd, z, nres) == "fail" {
				return opts.handler, true
			}
			return "", false
		}
		// substituted argument text must not mention names that callee locals will be renamed away from... it cannot: it is caller text
	}
	body, ok := n.bodyTextX(fd, cfile, prefix, subst, retStmt, retTail, avoid)
	if !ok {
		return n.fail(9)
	}
	body = strings.ReplaceAll(body, "\x00", "")
	if tail {
		body = strings.ReplaceAll(body, "\x01", "")
		fmt.Fprintf(&sb, "%s\n}\n", body)
		n.log = append(n.log, fmt.Sprintf("%s: inlined %s (tail position)", n.fset.Position(call.Pos()), ref.name))
		n.noteInlined(ref)
		registerImports()
		return sb.String(), nil, true
	}
	body = strings.ReplaceAll(body, "\x01", "; break "+label)
	// a labeled switch (not a loop): `continue` inside a copied failure handler still means the caller's loop
	fmt.Fprintf(&sb, "%s:\nswitch {\ndefault:\n%s\nbreak %s\n}\n}\n", label, body, label)
	n.log = append(n.log, fmt.Sprintf("%s: inlined %s", n.fset.Position(call.Pos()), ref.name))
	n.noteInlined(ref)
	registerImports()
	return sb.String(), temps, true
}

// fail reports (under NORM_DEBUG) which condition stopped an inlining attempt.
func (n *normalizer) fail(k int) (string, []string, bool) {
	if os.Getenv("NORM_DEBUG") != "" {
		fmt.Fprintf(os.Stderr, "inline attempt stopped at condition %d\n", k)
	}
	return "", nil, false
}

// hoistTargets finds the calls of new helpers among the expressions of one statement, in
// evaluation order, and checks that moving them in front of the statement keeps the order
// of all side effects: every other call in the expressions must be an ancestor of a target
// (evaluated after it) whose remaining operands are pure, or a conversion / len / cap.
func (n *normalizer) hoistTargets(exprs []ast.Expr) ([]*ast.CallExpr, bool) {
	var targets []*ast.CallExpr
	ok := true
	var contains func(e ast.Node) bool
	contains = func(e ast.Node) bool {
		found := false
		ast.Inspect(e, func(x ast.Node) bool {
			if c, isC := x.(*ast.CallExpr); isC && n.isTarget(c) {
				found = true
			}
			return !found
		})
		return found
	}
	seenImpure := false // a call with possible side effects has been evaluated before this point
	harmless := func(x *ast.CallExpr) bool {
		if tv, has := n.pkg.TypesInfo.Types[x.Fun]; has && tv.IsType() {
			return true
		}
		if id, isId := x.Fun.(*ast.Ident); isId {
			if _, isB := n.pkg.TypesInfo.Uses[id].(*types.Builtin); isB && (id.Name == "len" || id.Name == "cap" || id.Name == "min" || id.Name == "max") {
				return true
			}
		}
		return n.pureLibCall(x)
	}
	var walk func(e ast.Expr)
	walk = func(e ast.Expr) {
		if e == nil || !ok {
			return
		}
		switch x := e.(type) {
		case *ast.CallExpr:
			if n.isTarget(x) {
				// arguments of the target are rendered inside the inlined block. A target nested in the
				// arguments goes first: this round hoists the inner calls (operands are evaluated before
				// the call), the outer call follows in the next round
				nested := false
				for _, a := range x.Args {
					if contains(a) {
						nested = true
					}
				}
				if nested {
					if sel, isSel := x.Fun.(*ast.SelectorExpr); isSel && n.pkg.TypesInfo.Selections[sel] != nil {
						walk(sel.X)
					}
					for _, a := range x.Args {
						walk(a)
					}
					seenImpure = true
					return
				}
				if seenImpure {
					ok = false // moving the target in front of the statement would overtake an earlier call
				}
				targets = append(targets, x)
				return
			}
			// operands first (receiver, then arguments), then the call itself
			if sel, isSel := x.Fun.(*ast.SelectorExpr); isSel && n.pkg.TypesInfo.Selections[sel] != nil {
				walk(sel.X)
			}
			for _, a := range x.Args {
				walk(a)
			}
			if !harmless(x) {
				seenImpure = true
			}
		case *ast.BinaryExpr:
			if x.Op == token.LAND || x.Op == token.LOR {
				walk(x.X)
				if contains(x.Y) {
					ok = false
				}
				return
			}
			walk(x.X)
			walk(x.Y)
		case *ast.UnaryExpr:
			if x.Op == token.ARROW {
				walk(x.X)
				seenImpure = true
				return
			}
			walk(x.X)
		case *ast.ParenExpr:
			walk(x.X)
		case *ast.StarExpr:
			walk(x.X)
		case *ast.SelectorExpr:
			walk(x.X)
		case *ast.IndexExpr:
			walk(x.X)
			walk(x.Index)
		case *ast.SliceExpr:
			walk(x.X)
			walk(x.Low)
			walk(x.High)
			walk(x.Max)
		case *ast.TypeAssertExpr:
			walk(x.X)
		case *ast.CompositeLit:
			for _, el := range x.Elts {
				if kv, isKV := el.(*ast.KeyValueExpr); isKV {
					walk(kv.Value)
				} else {
					walk(el)
				}
			}
		case *ast.KeyValueExpr:
			walk(x.Value)
		case *ast.FuncLit:
			// calls inside a function literal run later
		case *ast.Ident, *ast.BasicLit:
		default:
			if contains(e) {
				ok = false
			}
		}
	}
	// an impure non-target call anywhere in the statement blocks hoisting only when a target exists
	for _, e := range exprs {
		walk(e)
	}
	if len(targets) == 0 {
		return nil, false
	}
	return targets, ok
}

// rewriteStmt returns the replacement text of st when it contains calls of new helpers.
func (n *normalizer) rewriteStmt(st ast.Stmt, file *ast.File) (string, bool) {
	fname := n.fset.Position(file.Pos()).Filename
	src := n.src[fname]
	text := func(a, b token.Pos) string { return string(src[n.off(a):n.off(b)]) }
	var exprs []ast.Expr
	multiOK := false // the statement may take a multi-value call directly
	var multiCall *ast.CallExpr
	wrapIf := (*ast.IfStmt)(nil)
	var initFirst *ast.AssignStmt
	switch x := st.(type) {
	case *ast.ExprStmt:
		exprs = []ast.Expr{x.X}
		if c, ok := x.X.(*ast.CallExpr); ok && n.isTarget(c) {
			multiOK, multiCall = true, c
		}
	case *ast.AssignStmt:
		if x.Tok != token.ASSIGN && x.Tok != token.DEFINE {
			// op-assignment: x += f(): operands of x are evaluated first
			for _, l := range x.Lhs {
				if !n.pureArg(l) {
					return "", false
				}
			}
		}
		exprs = append(exprs, x.Lhs...)
		exprs = append(exprs, x.Rhs...)
		if len(x.Rhs) == 1 {
			if c, ok := x.Rhs[0].(*ast.CallExpr); ok && n.isTarget(c) {
				multiOK, multiCall = true, c
				if x.Tok == token.ASSIGN || x.Tok == token.DEFINE {
					n.curCall, n.curLHS = c, x.Lhs
				}
			}
		}
	case *ast.ReturnStmt:
		exprs = x.Results
		if len(x.Results) == 1 {
			if c, ok := x.Results[0].(*ast.CallExpr); ok && n.isTarget(c) {
				multiOK, multiCall = true, c
			}
		}
	case *ast.IfStmt:
		// `if L && R(helper) {..}` without else: the helper call is conditional on L; the test is
		// split into nested ifs (same evaluation order, same outcomes), the inner one is handled
		// in the next round
		if x.Init == nil && x.Else == nil {
			cond := ast.Expr(x.Cond)
			for {
				pe, ok := cond.(*ast.ParenExpr)
				if !ok {
					break
				}
				cond = pe.X
			}
			if be, ok := cond.(*ast.BinaryExpr); ok && be.Op == token.LAND {
				hasTarget := func(e ast.Node) bool {
					found := false
					ast.Inspect(e, func(y ast.Node) bool {
						if c, isC := y.(*ast.CallExpr); isC && n.isTarget(c) {
							found = true
						}
						return !found
					})
					return found
				}
				if !hasTarget(be.X) && hasTarget(be.Y) {
					return "if " + text(be.X.Pos(), be.X.End()) + " {\nif " + text(be.Y.Pos(), be.Y.End()) + " " + text(x.Body.Pos(), x.Body.End()) + "\n}\n", true
				}
			}
		}
		wrapIf = x
		if x.Init != nil {
			as, ok := x.Init.(*ast.AssignStmt)
			if !ok {
				return "", false
			}
			if ts, _ := n.hoistTargets([]ast.Expr{x.Cond}); len(ts) > 0 {
				// `if init; cond(helper) {..}`: the init statement is moved in front (inside the
				// block that replaces the statement, so its variables keep their scope), the
				// helper calls of the condition follow it
				if its, _ := n.hoistTargets(append(append([]ast.Expr{}, as.Lhs...), as.Rhs...)); len(its) > 0 {
					return "", false
				}
				initFirst = as
				exprs = []ast.Expr{x.Cond}
			} else {
				exprs = append(exprs, as.Lhs...)
				exprs = append(exprs, as.Rhs...)
				if len(as.Rhs) == 1 {
					if c, ok := as.Rhs[0].(*ast.CallExpr); ok && n.isTarget(c) {
						multiOK, multiCall = true, c
					}
				}
			}
		} else {
			exprs = []ast.Expr{x.Cond}
		}
	case *ast.SwitchStmt:
		if x.Init != nil || x.Tag == nil {
			return "", false
		}
		exprs = []ast.Expr{x.Tag}
	case *ast.SendStmt:
		exprs = []ast.Expr{x.Chan, x.Value}
	case *ast.DeclStmt:
		gd, ok := x.Decl.(*ast.GenDecl)
		if !ok || gd.Tok != token.VAR || len(gd.Specs) != 1 {
			return "", false
		}
		vs := gd.Specs[0].(*ast.ValueSpec)
		exprs = vs.Values
		if len(vs.Values) == 1 {
			if c, ok := vs.Values[0].(*ast.CallExpr); ok && n.isTarget(c) {
				multiOK, multiCall = true, c
			}
		}
	default:
		return "", false
	}
	targets, ok := n.hoistTargets(exprs)
	if !ok || len(targets) == 0 {
		return "", false
	}
	if rs, isRet := st.(*ast.ReturnStmt); isRet && multiCall != nil && len(targets) == 1 && targets[0] == multiCall {
		// `return helper(...)`: the helper's own returns take the place of this one
		if ref := n.resolveCallee(multiCall); ref != nil && n.encl[rs] != nil && types.Identical(ref.sig.Results(), n.encl[rs].Results()) {
			if txt, _, ok := n.inlineCallX(multiCall, file, st.Pos(), &inlineOpts{tail: true}); ok {
				return txt, true
			}
		}
	}
	if as, isAs := st.(*ast.AssignStmt); isAs && multiCall != nil && len(targets) == 1 && targets[0] == multiCall &&
		(as.Tok == token.ASSIGN || as.Tok == token.DEFINE) && len(as.Rhs) == 1 {
		// `a, b (:)= helper(...)`: assign the results where the helper returns them, without temporaries
		info := n.pkg.TypesInfo
		var names []string
		var fresh []bool
		var decl strings.Builder
		var missing []*types.Package
		q := n.qualifierFor(file, &missing)
		okAll := true
		for _, l := range as.Lhs {
			id, isId := l.(*ast.Ident)
			if !isId || id.Name == "_" {
				okAll = false
				break
			}
			names = append(names, id.Name)
			if o := info.Defs[id]; o != nil && as.Tok == token.DEFINE {
				fresh = append(fresh, true)
				fmt.Fprintf(&decl, "var %s %s\n_ = %s\n", id.Name, types.TypeString(o.Type(), q), id.Name)
			} else {
				fresh = append(fresh, false)
			}
		}
		// a target that is also mentioned in an argument keeps the temporaries (evaluation order)
		if okAll && len(missing) == 0 {
			for _, a := range multiCall.Args {
				for _, nm := range identsOf(a) {
					for i, t := range names {
						if nm == t && fresh[i] {
							okAll = false // the argument refers to an outer variable of the same name
						}
					}
				}
			}
		}
		if okAll && len(missing) == 0 {
			// locals of the helper that are called like a target are renamed: inside the helper's
			// block the target's name must keep meaning the caller's variable
			avoid := map[string]bool{}
			for _, t := range names {
				avoid[t] = true
			}
			if txt, _, ok := n.inlineCallX(multiCall, file, st.Pos(), &inlineOpts{targets: names, direct: true, fresh: fresh, avoid: avoid}); ok {
				return "{\n" + decl.String() + txt + "\n}\n", true
			}
		}
	}
	var pre strings.Builder
	var edits []textEdit
	stStart, stEnd := n.off(st.Pos()), n.off(st.End())
	for _, c := range targets {
		txt, temps, ok := n.inlineCall(c, file, st.Pos())
		if !ok {
			return "", false
		}
		repl := ""
		switch {
		case len(temps) == 1:
			repl = temps[0]
		case multiOK && c == multiCall:
			repl = strings.Join(temps, ", ")
		default:
			return "", false // multi-value or no-value call nested in an expression
		}
		pre.WriteString(txt)
		edits = append(edits, textEdit{n.off(c.Pos()) - stStart, n.off(c.End()) - stStart, repl})
	}
	initText := ""
	if initFirst != nil && wrapIf != nil {
		// drop "init;" from the if header, keep it as a statement of its own
		initText = string(src[n.off(initFirst.Pos()):n.off(initFirst.End())]) + "\n"
		edits = append(edits, textEdit{n.off(initFirst.Pos()) - stStart, n.off(wrapIf.Cond.Pos()) - stStart, ""})
	}
	stmtText := string(applyEdits(append([]byte{}, src[stStart:stEnd]...), edits))
	if es, isExpr := st.(*ast.ExprStmt); isExpr {
		if c, ok := es.X.(*ast.CallExpr); ok && c == multiCall {
			stmtText = "" // results discarded
		}
	}
	_ = text
	_ = wrapIf
	return "{\n" + initText + pre.String() + stmtText + "\n}\n", true
}

// terminating: the block always leaves the enclosing straight-line code.
func terminating(b *ast.BlockStmt) bool {
	if len(b.List) == 0 {
		return false
	}
	switch x := b.List[len(b.List)-1].(type) {
	case *ast.BlockStmt:
		return terminating(x)
	case *ast.ReturnStmt:
		return true
	case *ast.BranchStmt:
		return x.Tok == token.CONTINUE || x.Tok == token.BREAK || x.Tok == token.GOTO
	case *ast.ExprStmt:
		if c, ok := x.X.(*ast.CallExpr); ok {
			if id, ok := c.Fun.(*ast.Ident); ok && id.Name == "panic" {
				return true
			}
		}
	}
	return false
}

// rewriteErrChecked handles `lhs..., err (:)= f(...)` followed by `if err != nil { handler }`.
// It returns the text replacing both statements.
func (n *normalizer) rewriteErrChecked(as *ast.AssignStmt, ifst *ast.IfStmt, file *ast.File) (string, bool) {
	info := n.pkg.TypesInfo
	if len(as.Rhs) != 1 || (as.Tok != token.ASSIGN && as.Tok != token.DEFINE) || len(as.Lhs) < 1 {
		return n.failE(1)
	}
	call, ok := as.Rhs[0].(*ast.CallExpr)
	if !ok || !n.isTarget(call) {
		return n.failE(2)
	}
	for _, a := range call.Args {
		if ts, _ := n.hoistTargets([]ast.Expr{a}); len(ts) > 0 {
			return n.failE(3)
		}
	}
	errId, ok := as.Lhs[len(as.Lhs)-1].(*ast.Ident)
	if !ok || errId.Name == "_" {
		return n.failE(4)
	}
	var errObj types.Object
	if o := info.Defs[errId]; o != nil {
		errObj = o
	} else {
		errObj = info.Uses[errId]
	}
	if errObj == nil {
		return n.failE(5)
	}
	if ifst.Init != nil || ifst.Else != nil || !terminating(ifst.Body) {
		return n.failE(6)
	}
	isErr := types.Identical(errObj.Type(), types.Universe.Lookup("error").Type())
	isBool := false
	if b, ok := errObj.Type().Underlying().(*types.Basic); ok && b.Kind() == types.Bool {
		isBool = true
	}
	switch {
	case isErr:
		be, ok := ifst.Cond.(*ast.BinaryExpr)
		if !ok || be.Op != token.NEQ {
			return n.failE(7)
		}
		cx, ok := be.X.(*ast.Ident)
		if !ok || info.Uses[cx] != errObj {
			return n.failE(8)
		}
		if ny, ok := be.Y.(*ast.Ident); !ok || info.Uses[ny] == nil {
			return n.failE(9)
		} else if _, isNil := info.Uses[ny].(*types.Nil); !isNil {
			return n.failE(10)
		}
	case isBool:
		ue, ok := ifst.Cond.(*ast.UnaryExpr)
		if !ok || ue.Op != token.NOT {
			return n.failE(11)
		}
		cx, ok := ue.X.(*ast.Ident)
		if !ok || info.Uses[cx] != errObj {
			return n.failE(12)
		}
	default:
		return n.failE(13)
	}
	// a `break`/`continue` in the handler would bind to the inlined block's own loop
	bad := false
	ast.Inspect(ifst.Body, func(x ast.Node) bool {
		switch y := x.(type) {
		case *ast.BranchStmt:
			if y.Tok == token.BREAK && y.Label == nil {
				bad = true
			}
		case *ast.ForStmt, *ast.RangeStmt, *ast.SwitchStmt, *ast.SelectStmt, *ast.TypeSwitchStmt, *ast.FuncLit:
			return false
		}
		return true
	})
	fname := n.fset.Position(file.Pos()).Filename
	src := n.src[fname]
	text := func(e ast.Node) string { return string(src[n.off(e.Pos()):n.off(e.End())]) }
	handler := string(src[n.off(ifst.Body.Lbrace)+1 : n.off(ifst.Body.Rbrace)])
	if bad {
		// unlabeled continue/break of the caller's loop: not expressible inside the helper's block
		return n.failE(14)
	}
	avoid := map[string]bool{}
	for _, nm := range identsOf(ifst.Body) {
		avoid[nm] = true
	}
	var pre strings.Builder
	var targets []string
	var q types.Qualifier
	var missing []*types.Package
	q = n.qualifierFor(file, &missing)
	ref := n.resolveCallee(call)
	for li, l := range as.Lhs {
		if id, isId := l.(*ast.Ident); isId && id.Name == "_" && ref != nil && li < ref.sig.Results().Len() {
			// a discarded result still needs a typed place to be assigned to
			n.counter++
			tmp := fmt.Sprintf("inl%d_blank", n.counter)
			fmt.Fprintf(&pre, "var %s %s\n_ = %s\n", tmp, types.TypeString(ref.sig.Results().At(li).Type(), q), tmp)
			targets = append(targets, tmp)
			continue
		}
		targets = append(targets, text(l))
		for _, nm := range identsOf(l) {
			avoid[nm] = true
		}
		if id, isId := l.(*ast.Ident); isId && as.Tok == token.DEFINE && id.Name != "_" {
			if o := info.Defs[id]; o != nil {
				fmt.Fprintf(&pre, "var %s %s\n_ = %s\n", id.Name, types.TypeString(o.Type(), q), id.Name)
			}
		}
	}
	if len(missing) > 0 {
		return n.failE(15)
	}
	n.curCall, n.curLHS = call, as.Lhs
	txt, _, ok := n.inlineCallX(call, file, as.Pos(), &inlineOpts{targets: targets, handler: handler, avoid: avoid})
	if !ok {
		return n.failE(16)
	}
	return pre.String() + txt + text(ifst) + "\n", true
}

// failE reports (under NORM_DEBUG) which condition stopped the error-checked rewrite.
func (n *normalizer) failE(k int) (string, bool) {
	if os.Getenv("NORM_DEBUG") != "" {
		fmt.Fprintf(os.Stderr, "err-checked rewrite stopped at condition %d\n", k)
	}
	return "", false
}

// collectStmts lists the simple statements of a body (not descending into rewritten ones later).
func collectStmts(body *ast.BlockStmt, out *[]ast.Stmt) {
	collectStmtsX(body, out, nil)
}

func collectStmtsX(body *ast.BlockStmt, out *[]ast.Stmt, next map[ast.Stmt]ast.Stmt) {
	var visitBlock func(list []ast.Stmt)
	var visitStmt func(st ast.Stmt)
	visitStmt = func(st ast.Stmt) {
		if st == nil {
			return
		}
		*out = append(*out, st)
		switch x := st.(type) {
		case *ast.IfStmt:
			visitBlock(x.Body.List)
			visitStmt(x.Else)
		case *ast.BlockStmt:
			visitBlock(x.List)
		case *ast.ForStmt:
			visitBlock(x.Body.List)
		case *ast.RangeStmt:
			visitBlock(x.Body.List)
		case *ast.SwitchStmt:
			for _, cc := range x.Body.List {
				visitBlock(cc.(*ast.CaseClause).Body)
			}
		case *ast.TypeSwitchStmt:
			for _, cc := range x.Body.List {
				visitBlock(cc.(*ast.CaseClause).Body)
			}
		case *ast.SelectStmt:
			for _, cc := range x.Body.List {
				visitBlock(cc.(*ast.CommClause).Body)
			}
		case *ast.LabeledStmt:
			visitStmt(x.Stmt)
		}
	}
	visitBlock = func(list []ast.Stmt) {
		for i, st := range list {
			if next != nil && i+1 < len(list) {
				next[st] = list[i+1]
			}
			visitStmt(st)
		}
	}
	visitBlock(body.List)
}

// normalizePackage returns new file contents for the files it changed.
func (n *normalizer) normalizePackage() map[string][]byte {
	if out := n.exprPass(); len(out) > 0 {
		return out
	}
	out := map[string][]byte{}
	n.encl = map[ast.Stmt]*types.Signature{}
	for _, f := range n.pkg.Syntax {
		fname := n.fset.Position(f.Pos()).Filename
		var stmts []ast.Stmt
		next := map[ast.Stmt]ast.Stmt{}
		for _, d := range f.Decls {
			fd, ok := d.(*ast.FuncDecl)
			if !ok || fd.Body == nil {
				continue
			}
			tag := func(from int, t types.Type) {
				sig, _ := t.(*types.Signature)
				for _, st := range stmts[from:] {
					n.encl[st] = sig
				}
			}
			k0 := len(stmts)
			collectStmtsX(fd.Body, &stmts, next)
			if o := n.pkg.TypesInfo.Defs[fd.Name]; o != nil {
				tag(k0, o.Type())
			}
			ast.Inspect(fd.Body, func(x ast.Node) bool {
				if fl, ok := x.(*ast.FuncLit); ok {
					k1 := len(stmts)
					collectStmtsX(fl.Body, &stmts, next)
					if t := n.pkg.TypesInfo.TypeOf(fl); t != nil {
						tag(k1, t)
					}
				}
				return true
			})
		}
		sort.Slice(stmts, func(i, j int) bool { return stmts[i].Pos() < stmts[j].Pos() })
		var edits []textEdit
		lastEnd := token.NoPos
		for _, st := range stmts {
			if st.Pos() < lastEnd {
				continue // inside a statement rewritten in this round
			}
			// `x, err := helper(...)` followed by `if err != nil { ... }`
			if as, isAs := st.(*ast.AssignStmt); isAs {
				if ifst, isIf := next[st].(*ast.IfStmt); isIf {
					if txt, ok := n.rewriteErrChecked(as, ifst, f); ok {
						edits = append(edits, textEdit{n.off(st.Pos()), n.off(ifst.End()), txt})
						lastEnd = ifst.End()
						continue
					}
				}
			}
			// statements declaring variables for the following statements cannot be wrapped in a block
			txt, ok := n.rewriteStmt(st, f)
			if !ok {
				continue
			}
			if declares(st) {
				// keep the declared names visible: no surrounding braces
				txt = strings.TrimSuffix(strings.TrimPrefix(txt, "{\n"), "}\n")
			}
			edits = append(edits, textEdit{n.off(st.Pos()), n.off(st.End()), txt})
			lastEnd = st.End()
		}
		edits = append(edits, n.extra[fname]...)
		if len(edits) > 0 {
			var paths []string
			for k := range n.addImp[f] {
				paths = append(paths, k)
			}
			sort.Strings(paths)
			imp := ""
			for _, k := range paths {
				imp += "\nimport " + n.addImp[f][k] + " \"" + k + "\""
			}
			if imp != "" {
				at := n.off(f.Name.End())
				edits = append(edits, textEdit{at, at, imp + "\n"})
			}
			out[fname] = applyEdits(n.src[fname], edits)
		}
	}
	return out
}

// declares: the statement introduces names for the statements after it.
func declares(st ast.Stmt) bool {
	switch x := st.(type) {
	case *ast.AssignStmt:
		return x.Tok == token.DEFINE
	case *ast.DeclStmt:
		return true
	}
	return false
}

// NormalizeOverlay computes one round of inlining over the repo packages.
// It returns the files whose text changed.
func NormalizeOverlay(pkgs []*packages.Package, current map[string][]byte) (map[string][]byte, []string) {
	out := map[string][]byte{}
	var log []string
	// names of generated labels and temporaries must differ between rounds: the text of earlier
	// rounds is part of the source now
	counter := 0
	for _, b := range current {
		for i := 0; i+3 < len(b); i++ {
			if b[i] == 'i' && b[i+1] == 'n' && b[i+2] == 'l' {
				k := 0
				for j := i + 3; j < len(b) && b[j] >= '0' && b[j] <= '9'; j++ {
					k = k*10 + int(b[j]-'0')
				}
				if k >= counter {
					counter = k + 1
				}
			}
		}
	}
	for _, pk := range pkgs {
		if !strings.HasPrefix(pk.PkgPath, ModPath) || pk.TypesInfo == nil {
			continue
		}
		n := &normalizer{fset: pk.Fset, pkg: pk, src: map[string][]byte{}, counter: counter}
		for _, f := range pk.Syntax {
			fname := pk.Fset.Position(f.Pos()).Filename
			if b, ok := current[fname]; ok {
				n.src[fname] = b
			} else if b, err := os.ReadFile(fname); err == nil {
				n.src[fname] = b
			}
		}
		for k, v := range n.normalizePackage() {
			out[k] = v
		}
		counter = n.counter + 1000
		log = append(log, n.log...)
	}
	return out, log
}

// ListFuncs lists the full names of all functions and methods declared in the repo packages.
func ListFuncs(p *Prog) []string {
	var out []string
	for _, pk := range p.Pkgs {
		if !strings.HasPrefix(pk.PkgPath, ModPath) {
			continue
		}
		for _, f := range pk.Syntax {
			for _, d := range f.Decls {
				if fd, ok := d.(*ast.FuncDecl); ok {
					if fn, ok := pk.TypesInfo.Defs[fd.Name].(*types.Func); ok {
						out = append(out, fn.FullName())
					}
				}
			}
		}
	}
	sort.Strings(out)
	return out
}

// ---- local names ---------------------------------------------------------------------
//
// The rules name locals, parameters and receivers of the anchor functions as they are
// called on the pinned tree ("udpLayer.Length", "c.prev.cTxTime"). Renaming such a
// variable does not change behaviour. Before analysis the variables of every function
// that existed on the pinned tree are therefore given back their pinned names, in the
// same in-memory overlay: receiver, parameters and results are matched by position,
// locals by (type, ordinal among the locals of that type in declaration order).

//go:embed known_locals.json
var knownLocalsJSON []byte

// LocalEntry describes one variable of a function.
type LocalEntry struct {
	Kind string `json:"k"` // recv, param, result, local
	Idx  int    `json:"i"` // position (recv/param/result) or ordinal among same-typed locals
	Type string `json:"t"`
	Name string `json:"n"`
}

var knownLocals = func() map[string][]LocalEntry {
	m := map[string][]LocalEntry{}
	if len(knownLocalsJSON) > 0 {
		_ = json.Unmarshal(knownLocalsJSON, &m)
	}
	return m
}()

func typeKey(t types.Type) string {
	return types.TypeString(stripParamNames(t), func(p *types.Package) string { return p.Path() })
}

// stripParamNames removes the parameter names of (unnamed) function types, which are not part of the type's identity.
func stripParamNames(t types.Type) types.Type {
	switch x := t.(type) {
	case *types.Signature:
		strip := func(tp *types.Tuple) *types.Tuple {
			var vs []*types.Var
			for i := 0; i < tp.Len(); i++ {
				vs = append(vs, types.NewVar(0, nil, "", stripParamNames(tp.At(i).Type())))
			}
			return types.NewTuple(vs...)
		}
		return types.NewSignatureType(nil, nil, nil, strip(x.Params()), strip(x.Results()), x.Variadic())
	case *types.Pointer:
		return types.NewPointer(stripParamNames(x.Elem()))
	case *types.Slice:
		return types.NewSlice(stripParamNames(x.Elem()))
	case *types.Array:
		return types.NewArray(stripParamNames(x.Elem()), x.Len())
	case *types.Map:
		return types.NewMap(stripParamNames(x.Key()), stripParamNames(x.Elem()))
	case *types.Chan:
		return types.NewChan(x.Dir(), stripParamNames(x.Elem()))
	}
	return t
}

// funcLocals lists the variables of fd in a canonical order together with their objects.
func funcLocals(info *types.Info, fd *ast.FuncDecl) ([]LocalEntry, []types.Object) {
	var es []LocalEntry
	var objs []types.Object
	seen := map[types.Object]bool{}
	add := func(kind string, idx int, o types.Object) {
		if o == nil || seen[o] || o.Name() == "_" || o.Name() == "" {
			return
		}
		seen[o] = true
		es = append(es, LocalEntry{Kind: kind, Idx: idx, Type: typeKey(o.Type()), Name: o.Name()})
		objs = append(objs, o)
	}
	fields := func(kind string, fl *ast.FieldList) {
		if fl == nil {
			return
		}
		i := 0
		for _, f := range fl.List {
			if len(f.Names) == 0 {
				i++
				continue
			}
			for _, nm := range f.Names {
				add(kind, i, info.Defs[nm])
				i++
			}
		}
	}
	fields("recv", fd.Recv)
	fields("param", fd.Type.Params)
	fields("result", fd.Type.Results)
	if fd.Body == nil {
		return es, objs
	}
	ord := map[string]int{}
	local := func(o types.Object) {
		v, ok := o.(*types.Var)
		if !ok || v.IsField() || seen[o] || o.Name() == "_" {
			return
		}
		k := typeKey(o.Type())
		add("local", ord[k], o)
		ord[k]++
	}
	ast.Inspect(fd.Body, func(x ast.Node) bool {
		switch y := x.(type) {
		case *ast.Ident:
			if o := info.Defs[y]; o != nil {
				local(o)
			}
		case *ast.TypeSwitchStmt:
			// the symbolic variable of a type switch: one implicit object per clause, one name
			if as, ok := y.Assign.(*ast.AssignStmt); ok && len(as.Lhs) == 1 {
				for _, cc := range y.Body.List {
					if o := info.Implicits[cc]; o != nil {
						local(o)
					}
				}
			}
		}
		return true
	})
	return es, objs
}

// ListLocals renders the table for the current tree (used to produce known_locals.json).
func ListLocals(p *Prog) map[string][]LocalEntry {
	out := map[string][]LocalEntry{}
	for _, pk := range p.Pkgs {
		if !strings.HasPrefix(pk.PkgPath, ModPath) {
			continue
		}
		for _, f := range pk.Syntax {
			for _, d := range f.Decls {
				fd, ok := d.(*ast.FuncDecl)
				if !ok {
					continue
				}
				fn, ok := pk.TypesInfo.Defs[fd.Name].(*types.Func)
				if !ok {
					continue
				}
				es, _ := funcLocals(pk.TypesInfo, fd)
				out[fn.FullName()] = es
			}
		}
	}
	return out
}

// RenameBackOverlay gives the variables of pinned functions their pinned names.
func RenameBackOverlay(pkgs []*packages.Package, current map[string][]byte) (map[string][]byte, []string) {
	out := map[string][]byte{}
	var log []string
	for _, pk := range pkgs {
		if !strings.HasPrefix(pk.PkgPath, ModPath) || pk.TypesInfo == nil {
			continue
		}
		info := pk.TypesInfo
		for _, f := range pk.Syntax {
			fname := pk.Fset.Position(f.Pos()).Filename
			src, ok := current[fname]
			if !ok {
				b, err := os.ReadFile(fname)
				if err != nil {
					continue
				}
				src = b
			}
			rename := map[types.Object]string{}
			for _, d := range f.Decls {
				fd, ok := d.(*ast.FuncDecl)
				if !ok || fd.Body == nil {
					continue
				}
				fn, ok := info.Defs[fd.Name].(*types.Func)
				if !ok {
					continue
				}
				pinned, ok := knownLocals[fn.FullName()]
				if !ok {
					continue
				}
				cur, objs := funcLocals(info, fd)
				// receiver / parameters / results: by position and type. Locals: per type, variables that
				// still carry a pinned name keep it; the remaining ones are matched in declaration order.
				want := map[string]string{}
				pinnedLocals := map[string][]string{} // type -> pinned names in order
				for _, e := range pinned {
					if e.Kind == "local" {
						pinnedLocals[e.Type] = append(pinnedLocals[e.Type], e.Name)
					} else {
						want[fmt.Sprintf("%s|%d|%s", e.Kind, e.Idx, e.Type)] = e.Name
					}
				}
				local := map[types.Object]string{}
				taken := map[string]bool{}
				curLocals := map[string][]int{} // type -> indices into cur
				for i, e := range cur {
					if e.Kind == "local" {
						curLocals[e.Type] = append(curLocals[e.Type], i)
						continue
					}
					nm := e.Name
					if w, ok := want[fmt.Sprintf("%s|%d|%s", e.Kind, e.Idx, e.Type)]; ok {
						nm = w
					}
					local[objs[i]] = nm
				}
				pinnedHas := map[types.Object]bool{}
				for tk, idxs := range curLocals {
					avail := map[string]int{}
					for _, nm := range pinnedLocals[tk] {
						avail[nm]++
					}
					var rest []int
					for _, i := range idxs {
						if avail[cur[i].Name] > 0 {
							avail[cur[i].Name]--
							local[objs[i]] = cur[i].Name
							pinnedHas[objs[i]] = true
						} else {
							rest = append(rest, i)
						}
					}
					var restPinned []string
					used := map[string]int{}
					for _, i := range idxs {
						if pinnedHas[objs[i]] {
							used[cur[i].Name]++
						}
					}
					for _, nm := range pinnedLocals[tk] {
						if used[nm] > 0 {
							used[nm]--
							continue
						}
						restPinned = append(restPinned, nm)
					}
					for k, i := range rest {
						if k < len(restPinned) {
							local[objs[i]] = restPinned[k]
							pinnedHas[objs[i]] = true
						} else {
							local[objs[i]] = cur[i].Name
						}
					}
				}
				// a variable without a pinned counterpart must not carry a name that a renamed one now takes
				changed := false
				for i, e := range cur {
					if local[objs[i]] != e.Name {
						changed = true
						taken[local[objs[i]]] = true
					}
				}
				if !changed {
					continue
				}
				for i, e := range cur {
					if local[objs[i]] == e.Name && taken[e.Name] && !pinnedHas[objs[i]] && e.Kind == "local" {
						local[objs[i]] = e.Name + "_x"
					}
				}
				for o, nm := range local {
					if nm != o.Name() {
						rename[o] = nm
					}
				}
				log = append(log, fmt.Sprintf("renamed locals of %s back to their pinned names", fn.FullName()))
			}
			// hygiene: a rename must not change what any identifier refers to. Renaming v to N is
			// dropped when (a) inside v's scope an identifier N refers to another object (it would now
			// mean v), or (b) a use of v lies where N already means an object declared inside v's scope
			// (the use would now mean that object). Found by a repaired twin: `tsOpt, tsErr := ...` was
			// renamed back to `err`, which captured the `err` a later assignment in the block stores to.
			// identifiers that are not looked up in the scope chain: selector names, struct literal keys
			notScoped := map[*ast.Ident]bool{}
			ast.Inspect(f, func(x ast.Node) bool {
				switch y := x.(type) {
				case *ast.SelectorExpr:
					notScoped[y.Sel] = true
				case *ast.KeyValueExpr:
					if k, ok := y.Key.(*ast.Ident); ok {
						if v, isVar := info.Uses[k].(*types.Var); isVar && v.IsField() {
							notScoped[k] = true
						}
					}
				}
				return true
			})
			for changed := true; changed; {
				changed = false
				for o, nm := range rename {
					sc := o.Parent()
					if sc == nil {
						continue
					}
					unsafe := false
					for id, u := range info.Uses {
						if unsafe {
							break
						}
						if notScoped[id] {
							continue
						}
						if id.Name == nm && u != o && id.Pos() >= o.Pos() && id.Pos() < sc.End() && sc.Contains(id.Pos()) && visibleAt(pk.Types, o, id.Pos()) &&
							!(u.Parent() != nil && u.Parent() != sc && sc.Contains(u.Pos()) && u.Pos() > o.Pos()) {
							if n2, renamed := rename[u]; !renamed || n2 == nm {
								if _, isVar := u.(*types.Var); isVar || u.Parent() != types.Universe {
									unsafe = true
								}
							}
						}
						if u == o {
							if inner := pk.Types.Scope().Innermost(id.Pos()); inner != nil {
								if _, q := inner.LookupParent(nm, id.Pos()); q != nil && q != o && q.Parent() != nil && q.Parent() != sc && sc.Contains(q.Pos()) && q.Pos() > o.Pos() {
									if n2, renamed := rename[q]; !renamed || n2 == nm {
										unsafe = true
									}
								}
							}
						}
					}
					if unsafe {
						delete(rename, o)
						changed = true
						log = append(log, fmt.Sprintf("rename of %s back to %s dropped: it would capture another variable", o.Name(), nm))
					}
				}
			}
			if len(rename) == 0 {
				continue
			}
			var edits []textEdit
			seenOff := map[int]bool{}
			ast.Inspect(f, func(x ast.Node) bool {
				id, ok := x.(*ast.Ident)
				if !ok {
					return true
				}
				var o types.Object
				if d := info.Defs[id]; d != nil {
					o = d
				} else if u := info.Uses[id]; u != nil {
					o = u
				}
				if nm, ok := rename[o]; ok && o != nil {
					off := pk.Fset.Position(id.Pos()).Offset
					if !seenOff[off] {
						seenOff[off] = true
						edits = append(edits, textEdit{off, off + len(id.Name), nm})
					}
				}
				return true
			})
			// type switch guards: `switch v := x.(type)` defines implicit per-clause objects
			ast.Inspect(f, func(x ast.Node) bool {
				ts, ok := x.(*ast.TypeSwitchStmt)
				if !ok {
					return true
				}
				as, ok := ts.Assign.(*ast.AssignStmt)
				if !ok || len(as.Lhs) != 1 {
					return true
				}
				id, ok := as.Lhs[0].(*ast.Ident)
				if !ok {
					return true
				}
				for _, cc := range ts.Body.List {
					if o := info.Implicits[cc]; o != nil {
						if nm, ok := rename[o]; ok {
							off := pk.Fset.Position(id.Pos()).Offset
							if !seenOff[off] {
								seenOff[off] = true
								edits = append(edits, textEdit{off, off + len(id.Name), nm})
							}
							break
						}
					}
				}
				return true
			})
			if len(edits) > 0 {
				out[fname] = applyEdits(src, edits)
			}
		}
	}
	return out, log
}

// visibleAt: looking up o's own name at pos finds o (its scope has begun there and nothing closer
// shadows it).
func visibleAt(pkg *types.Package, o types.Object, pos token.Pos) bool {
	inner := pkg.Scope().Innermost(pos)
	if inner == nil {
		return false
	}
	_, q := inner.LookupParent(o.Name(), pos)
	return q == o
}
