package ana

import (
	"fmt"
	"go/ast"
	"go/token"
	"go/types"
	"os"
	"strings"
)

// Local closures. A function literal bound once to a local variable that is
// only ever called (`put := func(src []byte) { ... }; put(a); put(b)`) is a
// notational device: its calls are replaced by its body exactly as for new
// package-level helpers. Captured variables are captured by reference, so the
// body placed at the call site reads and writes the same variables, provided
// every free name of the body still denotes the same object there (checked).
// Once no call is left the definition is removed.
//
// Callees - functions or closures - whose body is a single `return <expr>`
// and whose arguments are pure are substituted as expressions, wherever the
// call stands (conditions, operands of && and ||, loop headers).

type closureInfo struct {
	obj     types.Object
	lit     *ast.FuncLit
	def     ast.Stmt
	file    *ast.File
	calls   int        // uses in call position
	markers []ast.Stmt // `_ = f`
	fd      *ast.FuncDecl
}

type calleeRef struct {
	obj     types.Object
	name    string
	fd      *ast.FuncDecl
	file    *ast.File
	sig     *types.Signature
	recv    ast.Expr
	closure *closureInfo
}

func (n *normalizer) closureTable() map[types.Object]*closureInfo {
	if n.closureSet {
		return n.closures
	}
	n.closureSet = true
	n.closures = map[types.Object]*closureInfo{}
	info := n.pkg.TypesInfo
	for _, f := range n.pkg.Syntax {
		for _, d := range f.Decls {
			fd, ok := d.(*ast.FuncDecl)
			if !ok || fd.Body == nil {
				continue
			}
			cands := map[types.Object]*closureInfo{}
			ast.Inspect(fd.Body, func(x ast.Node) bool {
				switch y := x.(type) {
				case *ast.AssignStmt:
					if y.Tok == token.DEFINE && len(y.Lhs) == 1 && len(y.Rhs) == 1 {
						if lit, ok := y.Rhs[0].(*ast.FuncLit); ok {
							if id, ok := y.Lhs[0].(*ast.Ident); ok && id.Name != "_" {
								if o := info.Defs[id]; o != nil {
									cands[o] = &closureInfo{obj: o, lit: lit, def: y, file: f}
								}
							}
						}
					}
				case *ast.DeclStmt:
					if gd, ok := y.Decl.(*ast.GenDecl); ok && gd.Tok == token.VAR && len(gd.Specs) == 1 {
						vs := gd.Specs[0].(*ast.ValueSpec)
						if len(vs.Names) == 1 && len(vs.Values) == 1 && vs.Names[0].Name != "_" {
							if lit, ok := vs.Values[0].(*ast.FuncLit); ok {
								if o := info.Defs[vs.Names[0]]; o != nil {
									cands[o] = &closureInfo{obj: o, lit: lit, def: y, file: f}
								}
							}
						}
					}
				}
				return true
			})
			if len(cands) == 0 {
				continue
			}
			// every use must be a call (or the marker `_ = f`)
			var stack []ast.Node
			ast.Inspect(fd.Body, func(x ast.Node) bool {
				if x == nil {
					stack = stack[:len(stack)-1]
					return true
				}
				stack = append(stack, x)
				id, ok := x.(*ast.Ident)
				if !ok {
					return true
				}
				o := info.Uses[id]
				ci := cands[o]
				if o == nil || ci == nil {
					return true
				}
				var parent, grand ast.Node
				if len(stack) >= 2 {
					parent = stack[len(stack)-2]
				}
				if len(stack) >= 3 {
					grand = stack[len(stack)-3]
				}
				if c, ok := parent.(*ast.CallExpr); ok && c.Fun == ast.Expr(id) {
					switch grand.(type) {
					case *ast.GoStmt, *ast.DeferStmt:
						delete(cands, o) // runs later / elsewhere: stays a function value
					default:
						ci.calls++
					}
					return true
				}
				if as, ok := parent.(*ast.AssignStmt); ok && as.Tok == token.ASSIGN && len(as.Lhs) == 1 && len(as.Rhs) == 1 && as.Rhs[0] == ast.Expr(id) {
					if l, ok := as.Lhs[0].(*ast.Ident); ok && l.Name == "_" {
						ci.markers = append(ci.markers, as)
						return true
					}
				}
				delete(cands, o) // assigned, passed on, compared, address taken, ...
				return true
			})
			for o, ci := range cands {
				ci.fd = &ast.FuncDecl{Name: ast.NewIdent(o.Name()), Type: ci.lit.Type, Body: ci.lit.Body}
				n.closures[o] = ci
			}
		}
	}
	return n.closures
}

// resolveCallee returns the callee of call if it is one whose calls are to be replaced by
// its body: a same-package function that did not exist on the pinned tree, or a local closure.
func (n *normalizer) resolveCallee(call *ast.CallExpr) *calleeRef {
	if os.Getenv("NORM_DEBUG") != "" {
		if id, ok := call.Fun.(*ast.Ident); ok && id.Name == "clamp" {
			fmt.Fprintf(os.Stderr, "resolve clamp: uses=%T table=%d\n", n.pkg.TypesInfo.Uses[id], len(n.closureTable()))
		}
	}
	if id, ok := call.Fun.(*ast.Ident); ok {
		if v, ok := n.pkg.TypesInfo.Uses[id].(*types.Var); ok {
			ci := n.closureTable()[v]
			if ci == nil {
				return nil
			}
			sig, ok := v.Type().Underlying().(*types.Signature)
			if !ok {
				return nil
			}
			return &calleeRef{obj: v, name: "closure " + v.Name(), fd: ci.fd, file: ci.file, sig: sig, closure: ci}
		}
	}
	fn, recv := n.staticCallee(call)
	if fn == nil || fn.Pkg() != n.pkg.Types || knownFuncs[fn.FullName()] {
		return nil
	}
	fd, file := n.calleeDecl(fn)
	if fd == nil {
		return nil
	}
	return &calleeRef{obj: fn, name: fn.FullName(), fd: fd, file: file, sig: fn.Type().(*types.Signature), recv: recv}
}

// sameMeaningAt: every name used in body that is declared outside it denotes the same object at pos.
func (n *normalizer) sameMeaningAt(ref *calleeRef, body ast.Node, at token.Pos) bool {
	info := n.pkg.TypesInfo
	inner := n.pkg.Types.Scope().Innermost(at)
	if inner == nil {
		return false
	}
	ok := true
	ast.Inspect(body, func(x ast.Node) bool {
		id, isId := x.(*ast.Ident)
		if !isId || !ok {
			return ok
		}
		o := info.Uses[id]
		if o == nil || o.Parent() == nil {
			return true // fields, methods, definitions
		}
		if _, isPkg := o.(*types.PkgName); isPkg {
			return true // imports are compared separately
		}
		if o.Pkg() != nil && o.Pkg() != n.pkg.Types {
			return true // reached through a package qualifier
		}
		if ref.fd.Body.Pos() <= o.Pos() && o.Pos() < ref.fd.Body.End() {
			return true // the callee's own local
		}
		if ref.fd.Type.Pos() <= o.Pos() && o.Pos() < ref.fd.Type.End() {
			return true // parameter / result
		}
		if ref.closure == nil && ref.fd.Recv != nil && ref.fd.Recv.Pos() <= o.Pos() && o.Pos() < ref.fd.Recv.End() {
			return true
		}
		if ref.closure == nil && o.Parent() != n.pkg.Types.Scope() && o.Parent() != types.Universe {
			return true
		}
		if _, found := inner.LookupParent(id.Name, at); found != o {
			ok = false
		}
		return ok
	})
	return ok
}

// noteInlined: a closure whose calls disappear must stay "used" until its definition is removed.
func (n *normalizer) noteInlined(ref *calleeRef) {
	ci := ref.closure
	if ci == nil || len(ci.markers) > 0 {
		return
	}
	if n.marked == nil {
		n.marked = map[types.Object]bool{}
		n.extra = map[string][]textEdit{}
	}
	if n.marked[ci.obj] {
		return
	}
	n.marked[ci.obj] = true
	fname := n.fset.Position(ci.file.Pos()).Filename
	end := n.off(ci.def.End())
	n.extra[fname] = append(n.extra[fname], textEdit{end, end, "\n_ = " + ci.obj.Name() + "\n"})
}

// exprInline: the replacement text for a call whose callee is `return <expr>` and whose arguments are pure.
func (n *normalizer) exprInline(call *ast.CallExpr, file *ast.File) (string, bool) {
	info := n.pkg.TypesInfo
	ref := n.resolveCallee(call)
	if ref == nil || ref.fd.Body == nil || len(ref.fd.Body.List) != 1 {
		return "", false
	}
	ret, ok := ref.fd.Body.List[0].(*ast.ReturnStmt)
	if !ok || len(ret.Results) != 1 || ref.sig.Results().Len() != 1 || ref.sig.Variadic() || ref.sig.TypeParams() != nil {
		return "", false
	}
	if !n.inlinable(ref.fd, ref.sig, ref.obj) {
		return "", false
	}
	if len(call.Args) != ref.sig.Params().Len() {
		return "", false
	}
	if !n.sameMeaningAt(ref, ret.Results[0], call.Pos()) {
		return "", false
	}
	// imports of the callee's file must be available under the same names
	if ref.file != file {
		callerImports := map[string]string{}
		for _, im := range file.Imports {
			nm := ""
			if im.Name != nil {
				nm = im.Name.Name
			}
			callerImports[strings.Trim(im.Path.Value, "\"")] = nm
		}
		okImp := true
		ast.Inspect(ret.Results[0], func(x ast.Node) bool {
			if id, ok := x.(*ast.Ident); ok {
				if pn, ok := info.Uses[id].(*types.PkgName); ok {
					nm, has := callerImports[pn.Imported().Path()]
					want := ""
					if pn.Name() != pn.Imported().Name() {
						want = pn.Name()
					}
					if !has || nm != want {
						okImp = false
					}
				}
			}
			return okImp
		})
		if !okImp {
			return "", false
		}
	}
	src := n.src[n.fset.Position(file.Pos()).Filename]
	csrc := n.src[n.fset.Position(ref.file.Pos()).Filename]
	text := func(e ast.Node) string { return string(src[n.off(e.Pos()):n.off(e.End())]) }
	var missing []*types.Package
	q := n.qualifierFor(file, &missing)
	assigned := n.assignedParams(ref.fd)
	declared := n.declaredNames(ref.fd)
	subst := map[types.Object]string{}
	bind := func(o types.Object, arg ast.Expr, t types.Type) bool {
		if o == nil || assigned[o] || !n.pureArg(arg) {
			return false
		}
		if n.hasRealCall(arg) && n.useCount(ref.fd, o) > 1 {
			return false
		}
		for _, nm := range identsOf(arg) {
			if declared[nm] {
				return false
			}
		}
		at := text(arg)
		if _, isLit := arg.(*ast.BasicLit); isLit {
			at = types.TypeString(t, q) + "(" + at + ")"
		} else if _, isId := arg.(*ast.Ident); !isId {
			at = "(" + at + ")"
		}
		subst[o] = at
		return true
	}
	if ref.recv != nil {
		rt := ref.sig.Recv().Type()
		sel := info.Selections[call.Fun.(*ast.SelectorExpr)]
		_, wantPtr := rt.(*types.Pointer)
		_, havePtr := sel.Recv().(*types.Pointer)
		if wantPtr != havePtr || len(ref.fd.Recv.List) != 1 || len(ref.fd.Recv.List[0].Names) != 1 {
			return "", false
		}
		ro := info.Defs[ref.fd.Recv.List[0].Names[0]]
		if !bind(ro, ref.recv, rt) {
			return "", false
		}
	}
	pi := 0
	for _, f := range ref.fd.Type.Params.List {
		if len(f.Names) == 0 {
			return "", false
		}
		for _, nm := range f.Names {
			if !bind(info.Defs[nm], call.Args[pi], ref.sig.Params().At(pi).Type()) {
				return "", false
			}
			pi++
		}
	}
	e := ret.Results[0]
	base := n.off(e.Pos())
	var edits []textEdit
	bad := false
	ast.Inspect(e, func(x ast.Node) bool {
		switch y := x.(type) {
		case *ast.FuncLit:
			bad = true // keep it simple: no literals inside substituted expressions
		case *ast.Ident:
			if o := info.Uses[y]; o != nil {
				if t, ok := subst[o]; ok {
					edits = append(edits, textEdit{n.off(y.Pos()) - base, n.off(y.End()) - base, t})
				}
			}
		}
		return !bad
	})
	if bad {
		return "", false
	}
	body := string(applyEdits(append([]byte{}, csrc[base:n.off(e.End())]...), edits))
	rt := ref.sig.Results().At(0).Type()
	out := "(" + body + ")"
	if tv, ok := info.Types[e]; !ok || !types.Identical(tv.Type, rt) {
		out = types.TypeString(rt, q) + "(" + body + ")"
		if _, isPtr := rt.(*types.Pointer); isPtr {
			out = "(" + types.TypeString(rt, q) + ")(" + body + ")"
		}
	}
	if len(missing) > 0 {
		return "", false
	}
	n.log = append(n.log, fmt.Sprintf("%s: substituted %s", n.fset.Position(call.Pos()), ref.name))
	n.noteInlined(ref)
	return out, true
}

// exprPass: one round of expression substitution and removal of closures without calls.
func (n *normalizer) exprPass() map[string][]byte {
	out := map[string][]byte{}
	// first of all: local structs used field by field only (a round of its own)
	for _, f := range n.pkg.Syntax {
		if ed := n.sroaEdits(f); len(ed) > 0 {
			fname := n.fset.Position(f.Pos()).Filename
			out[fname] = applyEdits(n.src[fname], ed)
		}
	}
	if len(out) > 0 {
		return out
	}
	dead := map[ast.Stmt]bool{}
	for _, ci := range n.closureTable() {
		if ci.calls == 0 {
			dead[ci.def] = true
			for _, m := range ci.markers {
				dead[m] = true
			}
			n.log = append(n.log, fmt.Sprintf("%s: removed closure %s (no calls left)", n.fset.Position(ci.def.Pos()), ci.obj.Name()))
		}
	}
	for _, f := range n.pkg.Syntax {
		fname := n.fset.Position(f.Pos()).Filename
		var edits []textEdit
		for _, d := range f.Decls {
			fd, ok := d.(*ast.FuncDecl)
			if !ok || fd.Body == nil {
				continue
			}
			ast.Inspect(fd.Body, func(x ast.Node) bool {
				if st, ok := x.(ast.Stmt); ok && dead[st] {
					edits = append(edits, textEdit{n.off(st.Pos()), n.off(st.End()), ""})
					return false
				}
				if c, ok := x.(*ast.CallExpr); ok {
					if txt, ok := n.exprInline(c, f); ok {
						edits = append(edits, textEdit{n.off(c.Pos()), n.off(c.End()), txt})
						return false
					}
				}
				return true
			})
		}
		edits = append(edits, n.extra[fname]...)
		if len(edits) > 0 {
			out[fname] = applyEdits(n.src[fname], edits)
		}
	}
	n.extra = nil
	return out
}

// Scalar replacement of local structs. A local variable of struct type whose only uses are
// selections of its direct fields (`cnt.received`, `&v.p` - never the struct as a whole) is a
// notational grouping of independent variables; it is split into one variable per field, so that
// the fields become ordinary SSA values (go/ssa keeps a struct whose fields are addressed in
// memory). sroaEdits returns the edits for one file.
func (n *normalizer) sroaEdits(f *ast.File) []textEdit {
	info := n.pkg.TypesInfo
	var missing []*types.Package
	q := n.qualifierFor(f, &missing)
	src := n.src[n.fset.Position(f.Pos()).Filename]
	text := func(e ast.Node) string { return string(src[n.off(e.Pos()):n.off(e.End())]) }
	var edits []textEdit
	for _, d := range f.Decls {
		fd, ok := d.(*ast.FuncDecl)
		if !ok || fd.Body == nil {
			continue
		}
		type cand struct {
			obj   types.Object
			st    *types.Struct
			decl  ast.Stmt
			inits map[string]string
			bad   bool
			sels  []*ast.SelectorExpr
			extra []textEdit
			nuse  int
			// replacement text of selections that go through an embedded field
			selText map[*ast.SelectorExpr]string
		}
		cands := map[types.Object]*cand{}
		// variables that exist under this name on the pinned tree keep the form the rules know:
		// only the selections-only split applies to them
		pinnedVar := map[string]bool{}
		if fn, ok := info.Defs[fd.Name].(*types.Func); ok {
			for _, e := range knownLocals[fn.FullName()] {
				if e.Kind == "local" {
					pinnedVar[e.Name] = true
				}
			}
		}
		litInits := func(lit *ast.CompositeLit, st *types.Struct) (map[string]string, bool) {
			out := map[string]string{}
			for _, el := range lit.Elts {
				kv, ok := el.(*ast.KeyValueExpr)
				if !ok {
					return nil, false
				}
				k, ok := kv.Key.(*ast.Ident)
				if !ok {
					return nil, false
				}
				out[k.Name] = text(kv.Value)
			}
			return out, true
		}
		ast.Inspect(fd.Body, func(x ast.Node) bool {
			switch y := x.(type) {
			case *ast.DeclStmt:
				gd, ok := y.Decl.(*ast.GenDecl)
				if !ok || gd.Tok != token.VAR || len(gd.Specs) != 1 {
					return true
				}
				vs := gd.Specs[0].(*ast.ValueSpec)
				if len(vs.Names) > 1 && len(vs.Values) == 0 && vs.Type != nil {
					// var a, b T  ->  one declaration per variable (split in a later round)
					if tv, ok := info.Types[vs.Type]; ok {
						if _, isStruct := tv.Type.Underlying().(*types.Struct); isStruct {
							var sb strings.Builder
							for _, nm := range vs.Names {
								fmt.Fprintf(&sb, "var %s %s\n", nm.Name, text(vs.Type))
							}
							edits = append(edits, textEdit{n.off(y.Pos()), n.off(y.End()), sb.String()})
						}
					}
					return true
				}
				if len(vs.Names) != 1 || vs.Names[0].Name == "_" || len(vs.Values) > 1 {
					return true
				}
				o := info.Defs[vs.Names[0]]
				if o == nil {
					return true
				}
				st, ok := o.Type().Underlying().(*types.Struct)
				if !ok {
					return true
				}
				c := &cand{obj: o, st: st, decl: y, inits: map[string]string{}}
				if len(vs.Values) == 1 {
					lit, ok := unparen(vs.Values[0]).(*ast.CompositeLit)
					if !ok {
						return true
					}
					if c.inits, ok = litInits(lit, st); !ok {
						return true
					}
				}
				cands[o] = c
			case *ast.AssignStmt:
				if y.Tok != token.DEFINE || len(y.Lhs) != 1 || len(y.Rhs) != 1 {
					return true
				}
				id, ok := y.Lhs[0].(*ast.Ident)
				lit, ok2 := unparen(y.Rhs[0]).(*ast.CompositeLit)
				if !ok || !ok2 || id.Name == "_" {
					return true
				}
				o := info.Defs[id]
				if o == nil {
					return true
				}
				st, ok := o.Type().Underlying().(*types.Struct)
				if !ok {
					return true
				}
				inits, ok := litInits(lit, st)
				if !ok {
					return true
				}
				cands[o] = &cand{obj: o, st: st, decl: y, inits: inits}
			}
			return true
		})
		if len(cands) == 0 {
			continue
		}
		// uses
		// whole assignments: position i of `.., v, .. = .., T{..} | w, ..` (no multi-value call)
		type wholeAssign struct {
			lhsID *ast.Ident
			rhs   ast.Expr
			lhs   *cand
		}
		var assigns []wholeAssign
		inAssign := map[*ast.Ident]bool{} // identifiers handled by a whole-assignment edit
		candNames := map[string]bool{}
		for o := range cands {
			candNames[o.Name()] = true
		}
		ast.Inspect(fd.Body, func(x ast.Node) bool {
			as, ok := x.(*ast.AssignStmt)
			if !ok || as.Tok != token.ASSIGN || len(as.Lhs) != len(as.Rhs) {
				return true
			}
			for i := range as.Lhs {
				id, ok := as.Lhs[i].(*ast.Ident)
				if !ok {
					continue
				}
				c := cands[info.Uses[id]]
				if c == nil || pinnedVar[id.Name] {
					continue
				}
				switch r := unparen(as.Rhs[i]).(type) {
				case *ast.CompositeLit:
					if tv, ok := info.Types[r]; !ok || !types.Identical(tv.Type, c.obj.Type()) {
						continue
					}
					if _, ok := litInits(r, c.st); !ok {
						continue
					}
					// the literal's values must not mention a variable that is split (the edits would nest)
					mentions := false
					for _, nm := range identsOf(r) {
						if candNames[nm] {
							mentions = true
						}
					}
					if mentions {
						continue
					}
				case *ast.Ident:
					if ro := info.Uses[r]; ro == nil || !types.Identical(ro.Type(), c.obj.Type()) || ro == c.obj {
						continue
					} else if _, isVar := ro.(*types.Var); !isVar {
						continue
					}
					inAssign[r] = true
				default:
					continue
				}
				inAssign[id] = true
				assigns = append(assigns, wholeAssign{id, as.Rhs[i], c})
			}
			return true
		})
		type wholeRead struct {
			id *ast.Ident
			c  *cand
		}
		var reads []wholeRead
		var stack []ast.Node
		ast.Inspect(fd.Body, func(x ast.Node) bool {
			if x == nil {
				stack = stack[:len(stack)-1]
				return true
			}
			stack = append(stack, x)
			id, ok := x.(*ast.Ident)
			if !ok {
				return true
			}
			c := cands[info.Uses[id]]
			if c == nil {
				return true
			}
			if inAssign[id] {
				return true
			}
			// (&x).f - the spelling a substituted pointer receiver leaves behind - is x.f
			if len(stack) >= 3 {
				if ue, ok := stack[len(stack)-2].(*ast.UnaryExpr); ok && ue.Op == token.AND && ue.X == ast.Expr(id) {
					k := len(stack) - 3
					for k >= 0 {
						if _, isP := stack[k].(*ast.ParenExpr); !isP {
							break
						}
						k--
					}
					if k >= 0 {
						if sel, ok := stack[k].(*ast.SelectorExpr); ok && unparen(sel.X) == ast.Expr(ue) {
							if s := info.Selections[sel]; s != nil && s.Kind() == types.FieldVal && len(s.Index()) == 1 {
								c.sels = append(c.sels, sel)
								return true
							}
						}
					}
				}
			}
			if len(stack) >= 2 {
				if sel, ok := stack[len(stack)-2].(*ast.SelectorExpr); ok && sel.X == ast.Expr(id) {
					if s := info.Selections[sel]; s != nil && s.Kind() == types.FieldVal && len(s.Index()) == 1 {
						c.sels = append(c.sels, sel)
						return true
					}
					// a field or method promoted from an embedded struct field: f.Type is f.extHdr.Type
					if s := info.Selections[sel]; s != nil && (s.Kind() == types.FieldVal || s.Kind() == types.MethodVal) && len(s.Index()) >= 2 && !pinnedVar[id.Name] {
						idx := s.Index()
						f0 := c.st.Field(idx[0])
						if _, isStruct := f0.Type().Underlying().(*types.Struct); isStruct && f0.Embedded() {
							txt := c.obj.Name() + "_" + f0.Name()
							t := f0.Type()
							okPath := true
							for _, j := range idx[1 : len(idx)-1] {
								st2, ok := t.Underlying().(*types.Struct)
								if !ok || j >= st2.NumFields() {
									okPath = false
									break
								}
								txt += "." + st2.Field(j).Name()
								t = st2.Field(j).Type()
							}
							if okPath {
								if c.selText == nil {
									c.selText = map[*ast.SelectorExpr]string{}
								}
								c.selText[sel] = txt + "." + sel.Sel.Name
								c.sels = append(c.sels, sel)
								return true
							}
						}
					}
				}
				// the struct read as a whole where only its value matters
				rvalue := false
				switch p := stack[len(stack)-2].(type) {
				case *ast.ReturnStmt:
					rvalue = true
				case *ast.SendStmt:
					rvalue = p.Value == ast.Expr(id)
				case *ast.CallExpr:
					if tv, ok := info.Types[p.Fun]; ok && !tv.IsBuiltin() && tv.IsValue() {
						for _, a := range p.Args {
							if a == ast.Expr(id) {
								rvalue = true
							}
						}
					}
				case *ast.AssignStmt:
					for _, a := range p.Rhs {
						if a == ast.Expr(id) {
							rvalue = true
						}
					}
				case *ast.KeyValueExpr:
					rvalue = p.Value == ast.Expr(id)
				}
				if rvalue && !pinnedVar[id.Name] {
					reads = append(reads, wholeRead{id, c})
					return true
				}
			}
			c.bad = true
			return true
		})
		typeText := func(c *cand) string { return types.TypeString(c.obj.Type(), q) }
		splittable := func(c *cand) bool {
			if c.bad || c.st.NumFields() == 0 || c.st.NumFields() > 16 {
				return false
			}
			for i := 0; i < c.st.NumFields(); i++ {
				fv := c.st.Field(i)
				if fv.Name() == "_" || (!fv.Exported() && fv.Pkg() != n.pkg.Types) {
					return false
				}
				if _, isStruct := fv.Type().Underlying().(*types.Struct); fv.Embedded() && !isStruct {
					return false
				}
			}
			return true
		}
		// a struct that receives a copy of another struct which stays whole (x = y, y not split) is a
		// value copy the rules may want to see as such: it stays whole too
		for changed := true; changed; {
			changed = false
			for _, wa := range assigns {
				if r, ok := unparen(wa.rhs).(*ast.Ident); ok && !wa.lhs.bad {
					if rc := cands[info.Uses[r]]; rc == nil || !splittable(rc) {
						wa.lhs.bad = true
						changed = true
					}
				}
			}
		}
		for _, wa := range assigns {
			c := wa.lhs
			if !splittable(c) {
				// the target stays a struct: a source that is split is read as a whole
				if r, ok := unparen(wa.rhs).(*ast.Ident); ok {
					if rc := cands[info.Uses[r]]; rc != nil {
						reads = append(reads, wholeRead{r, rc})
					}
				}
				continue
			}
			var l, r []string
			switch rhs := unparen(wa.rhs).(type) {
			case *ast.CompositeLit:
				inits, _ := litInits(rhs, c.st)
				for i := 0; i < c.st.NumFields(); i++ {
					fv := c.st.Field(i)
					l = append(l, c.obj.Name()+"_"+fv.Name())
					if v, has := inits[fv.Name()]; has {
						r = append(r, v)
					} else {
						r = append(r, "*new("+types.TypeString(fv.Type(), q)+")")
					}
				}
			case *ast.Ident:
				rc := cands[info.Uses[rhs]]
				for i := 0; i < c.st.NumFields(); i++ {
					fv := c.st.Field(i)
					l = append(l, c.obj.Name()+"_"+fv.Name())
					if rc != nil && splittable(rc) {
						r = append(r, rc.obj.Name()+"_"+fv.Name())
					} else {
						r = append(r, rhs.Name+"."+fv.Name())
					}
				}
			}
			c.extra = append(c.extra,
				textEdit{n.off(wa.lhsID.Pos()), n.off(wa.lhsID.End()), strings.Join(l, ", ")},
				textEdit{n.off(wa.rhs.Pos()), n.off(wa.rhs.End()), strings.Join(r, ", ")})
			c.nuse++
		}
		for _, wr := range reads {
			c := wr.c
			if !splittable(c) {
				continue
			}
			var parts []string
			for i := 0; i < c.st.NumFields(); i++ {
				fv := c.st.Field(i)
				parts = append(parts, fv.Name()+": "+c.obj.Name()+"_"+fv.Name())
			}
			c.extra = append(c.extra, textEdit{n.off(wr.id.Pos()), n.off(wr.id.End()), typeText(c) + "{" + strings.Join(parts, ", ") + "}"})
			c.nuse++
		}
		for _, c := range cands {
			if c.bad || len(c.sels)+c.nuse == 0 || c.st.NumFields() == 0 || c.st.NumFields() > 16 {
				continue
			}
			// embedded fields, blank fields and name clashes are left alone
			okF := true
			var decl strings.Builder
			scope := n.pkg.Types.Scope().Innermost(c.decl.Pos())
			for i := 0; i < c.st.NumFields(); i++ {
				fv := c.st.Field(i)
				nm := c.obj.Name() + "_" + fv.Name()
				if _, isStruct := fv.Type().Underlying().(*types.Struct); fv.Name() == "_" || (fv.Embedded() && !isStruct) {
					okF = false
					break
				}
				if scope != nil {
					if _, found := scope.LookupParent(nm, c.decl.End()); found != nil {
						okF = false
						break
					}
				}
				if init, has := c.inits[fv.Name()]; has {
					fmt.Fprintf(&decl, "var %s %s = %s\n_ = %s\n", nm, types.TypeString(fv.Type(), q), init, nm)
				} else {
					fmt.Fprintf(&decl, "var %s %s\n_ = %s\n", nm, types.TypeString(fv.Type(), q), nm)
				}
			}
			if !okF || len(missing) > 0 {
				continue
			}
			edits = append(edits, textEdit{n.off(c.decl.Pos()), n.off(c.decl.End()), decl.String()})
			for _, sel := range c.sels {
				if txt, has := c.selText[sel]; has {
					edits = append(edits, textEdit{n.off(sel.Pos()), n.off(sel.End()), txt})
					continue
				}
				edits = append(edits, textEdit{n.off(sel.Pos()), n.off(sel.End()), c.obj.Name() + "_" + sel.Sel.Name})
			}
			edits = append(edits, c.extra...)
			n.log = append(n.log, fmt.Sprintf("%s: local struct %s split into its fields", n.fset.Position(c.decl.Pos()), c.obj.Name()))
		}
	}
	return edits
}

func unparen(e ast.Expr) ast.Expr {
	for {
		p, ok := e.(*ast.ParenExpr)
		if !ok {
			return e
		}
		e = p.X
	}
}
