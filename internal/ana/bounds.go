package ana

import (
	"encoding/json"
	"fmt"
	"os"
	"os/exec"
	"path/filepath"
	"regexp"
	"sort"
	"strings"
)

// E-BOUND (DESIGN §2.8): bounds obligations, the compiler's bounds-check
// elimination as first discharger, and a small linear prover over guard facts.

// CompilerResidual runs a compile-only build of the repo packages with the
// compiler's check_bce debug flag and returns the set of positions
// ("file:line:col", file relative to dir) at which a bounds check remains.
// Nothing is executed; cached compilations replay their diagnostics.
func CompilerResidual(dir string, overlay map[string][]byte) (map[string]string, error) {
	args := []string{"build", "-gcflags=" + ModPath + "/...=-d=ssa/check_bce/debug=1"}
	if len(overlay) > 0 {
		// compile the normalised text (see normalize.go) so that positions agree with the analysed program
		tmp, err := os.MkdirTemp("", "scioncheck-overlay")
		if err != nil {
			return nil, err
		}
		defer os.RemoveAll(tmp)
		repl := map[string]string{}
		i := 0
		for name, text := range overlay {
			i++
			f := filepath.Join(tmp, fmt.Sprintf("f%d.go", i))
			if err := os.WriteFile(f, text, 0o644); err != nil {
				return nil, err
			}
			repl[name] = f
		}
		js, _ := json.Marshal(map[string]any{"Replace": repl})
		ov := filepath.Join(tmp, "overlay.json")
		if err := os.WriteFile(ov, js, 0o644); err != nil {
			return nil, err
		}
		args = append(args, "-overlay="+ov)
	}
	args = append(args, "./...")
	cmd := exec.Command("go", args...)
	cmd.Dir = dir
	cmd.Env = append(os.Environ(), "GOOS=linux", "GOARCH=amd64", "GOFLAGS=-mod=mod", "GOPROXY=off", "GOSUMDB=off", "GOTOOLCHAIN=local", "GOWORK=off")
	out, err := cmd.CombinedOutput()
	res := map[string]string{}
	re := regexp.MustCompile(`^(\S+?):(\d+):(\d+): Found (IsInBounds|IsSliceInBounds)`)
	n := 0
	for _, line := range strings.Split(string(out), "\n") {
		m := re.FindStringSubmatch(strings.TrimSpace(line))
		if m == nil {
			continue
		}
		n++
		f := strings.TrimPrefix(m[1], "./")
		res[f+":"+m[2]+":"+m[3]] = m[4]
	}
	if err != nil && n == 0 {
		return nil, fmt.Errorf("go build (check_bce) failed: %v: %s", err, firstLines(string(out), 5))
	}
	if n == 0 {
		return nil, fmt.Errorf("go build (check_bce) printed no residual bounds checks at all (flag ignored or output suppressed)")
	}
	return res, nil
}

func firstLines(s string, n int) string {
	ls := strings.Split(s, "\n")
	if len(ls) > n {
		ls = ls[:n]
	}
	return strings.Join(ls, " | ")
}

// ---- linear terms over integer atoms ------------------------------------------

// ILin is sum(coef*atom) + C over int64.
type ILin struct {
	Coef map[string]int64
	C    int64
}

func newILin() ILin { return ILin{Coef: map[string]int64{}} }

func (l ILin) clone() ILin {
	n := newILin()
	n.C = l.C
	for k, v := range l.Coef {
		n.Coef[k] = v
	}
	return n
}

// Add returns l + s*o.
func (l ILin) Add(o ILin, s int64) ILin { return l.add(o, s) }

func (l ILin) add(o ILin, s int64) ILin {
	n := l.clone()
	n.C += s * o.C
	for k, v := range o.Coef {
		n.Coef[k] += s * v
		if n.Coef[k] == 0 {
			delete(n.Coef, k)
		}
	}
	return n
}

func (l ILin) String() string {
	var ks []string
	for k := range l.Coef {
		ks = append(ks, k)
	}
	sort.Strings(ks)
	var sb strings.Builder
	for _, k := range ks {
		fmt.Fprintf(&sb, "%+d*%s ", l.Coef[k], k)
	}
	fmt.Fprintf(&sb, "%+d", l.C)
	return sb.String()
}
