package ana

import (
	"fmt"
	"go/token"
	"go/types"
	"os"
	"os/exec"
	"regexp"
	"sort"
	"strconv"
	"strings"

	"golang.org/x/tools/go/ssa"
)

// E-BOUND (DESIGN §2.8): bounds obligations, the compiler's bounds-check
// elimination as first discharger, and a small linear prover over guard facts.

// CompilerResidual runs a compile-only build of the repo packages with the
// compiler's check_bce debug flag and returns the set of positions
// ("file:line:col", file relative to dir) at which a bounds check remains.
// Nothing is executed; cached compilations replay their diagnostics.
func CompilerResidual(dir string) (map[string]string, error) {
	cmd := exec.Command("go", "build", "-gcflags="+ModPath+"/...=-d=ssa/check_bce/debug=1", "./...")
	cmd.Dir = dir
	cmd.Env = append(os.Environ(), "GOOS=linux", "GOARCH=amd64", "GOFLAGS=-mod=mod", "GOPROXY=off", "GOSUMDB=off", "GOTOOLCHAIN=local", "GOWORK=off")
	out, err := cmd.CombinedOutput()
	res := map[string]string{}
	re := regexp.MustCompile(`^(\S+?):(\d+):(\d+): Found (IsInBounds|IsSliceInBounds)`)
	n := 0
	for _, line := range strings.Split(string(out), "\n") {
		m := re.FindStringSubmatch(strings.TrimSpace(line))
		if m == nil {
			continue
		}
		n++
		f := strings.TrimPrefix(m[1], "./")
		res[f+":"+m[2]+":"+m[3]] = m[4]
	}
	if err != nil && n == 0 {
		return nil, fmt.Errorf("go build (check_bce) failed: %v: %s", err, firstLines(string(out), 5))
	}
	if n == 0 {
		return nil, fmt.Errorf("go build (check_bce) printed no residual bounds checks at all (flag ignored or output suppressed)")
	}
	return res, nil
}

func firstLines(s string, n int) string {
	ls := strings.Split(s, "\n")
	if len(ls) > n {
		ls = ls[:n]
	}
	return strings.Join(ls, " | ")
}

// ---- linear terms over integer atoms ------------------------------------------

// ILin is sum(coef*atom) + C over int64.
type ILin struct {
	Coef map[string]int64
	C    int64
}

func newILin() ILin { return ILin{Coef: map[string]int64{}} }

func (l ILin) clone() ILin {
	n := newILin()
	n.C = l.C
	for k, v := range l.Coef {
		n.Coef[k] = v
	}
	return n
}

// Add returns l + s*o.
func (l ILin) Add(o ILin, s int64) ILin { return l.add(o, s) }

func (l ILin) add(o ILin, s int64) ILin {
	n := l.clone()
	n.C += s * o.C
	for k, v := range o.Coef {
		n.Coef[k] += s * v
		if n.Coef[k] == 0 {
			delete(n.Coef, k)
		}
	}
	return n
}

func (l ILin) String() string {
	var ks []string
	for k := range l.Coef {
		ks = append(ks, k)
	}
	sort.Strings(ks)
	var sb strings.Builder
	for _, k := range ks {
		fmt.Fprintf(&sb, "%+d*%s ", l.Coef[k], k)
	}
	fmt.Fprintf(&sb, "%+d", l.C)
	return sb.String()
}

// Prover holds the per-function context.
type Prover struct {
	// PhiLower optionally supplies an inductive lower bound for a loop phi.
	PhiLower func(*ssa.Phi) (int64, bool)
	Fn    *ssa.Function
	lo    map[string]int64 // known lower bounds of atoms
	hi    map[string]int64 // known upper bounds
	hasHi map[string]bool
}

func NewProver(fn *ssa.Function) *Prover {
	return &Prover{Fn: fn, lo: map[string]int64{}, hi: map[string]int64{}, hasHi: map[string]bool{}}
}

func (p *Prover) atomOf(v ssa.Value) string {
	if pth := AccessPath(v); pth != "" {
		if _, isCall := v.(*ssa.Call); !isCall {
			if _, isExt := v.(*ssa.Extract); !isExt {
				if _, isPhi := v.(*ssa.Phi); !isPhi {
					return pth
				}
			}
		}
	}
	return "[" + v.Name() + "]"
}

func (p *Prover) setLo(a string, k int64) {
	if cur, ok := p.lo[a]; !ok || k > cur {
		p.lo[a] = k
	}
}

func (p *Prover) setHi(a string, k int64) {
	if !p.hasHi[a] || k < p.hi[a] {
		p.hi[a] = k
		p.hasHi[a] = true
	}
}

func uintBits(t types.Type) int {
	b, ok := t.Underlying().(*types.Basic)
	if !ok {
		return 0
	}
	switch b.Kind() {
	case types.Uint8:
		return 8
	case types.Uint16:
		return 16
	case types.Uint32:
		return 32
	}
	return 0
}

// Int linearises an integer SSA value.
func (p *Prover) Int(v ssa.Value, d int) (ILin, bool) {
	if d > 16 {
		return ILin{}, false
	}
	if k, ok := ConstInt(v); ok {
		if _, isC := StripConv(v).(*ssa.Const); isC {
			l := newILin()
			l.C = k
			return l, true
		}
	}
	switch x := v.(type) {
	case *ssa.Convert:
		// widening of unsigned / int conversions keep the value
		if bits := uintBits(x.X.Type()); bits > 0 {
			in, ok := p.Int(x.X, d+1)
			if ok {
				for a := range in.Coef {
					if len(in.Coef) == 1 && in.Coef[a] == 1 && in.C == 0 {
						p.setLo(a, 0)
						p.setHi(a, int64(1)<<bits-1)
					}
				}
				return in, true
			}
		}
		src, ok1 := x.X.Type().Underlying().(*types.Basic)
		dst, ok2 := x.Type().Underlying().(*types.Basic)
		if ok1 && ok2 && src.Info()&types.IsInteger != 0 && dst.Info()&types.IsInteger != 0 {
			// int <-> int64/uint64 etc.: treat as identity when not narrowing below 32 bits (overflow ignored for lengths)
			if uintBits(x.Type()) == 0 || uintBits(x.Type()) >= 32 {
				return p.Int(x.X, d+1)
			}
		}
	case *ssa.BinOp:
		switch x.Op {
		case token.ADD, token.SUB:
			a, ok1 := p.Int(x.X, d+1)
			b, ok2 := p.Int(x.Y, d+1)
			if ok1 && ok2 {
				s := int64(1)
				if x.Op == token.SUB {
					s = -1
				}
				return a.add(b, s), true
			}
		case token.MUL:
			a, ok1 := p.Int(x.X, d+1)
			b, ok2 := p.Int(x.Y, d+1)
			if ok1 && ok2 {
				if len(b.Coef) == 0 {
					return newILin().add(a, b.C), true
				}
				if len(a.Coef) == 0 {
					return newILin().add(b, a.C), true
				}
			}
		case token.AND:
			// x & k with k >= 0: result in [0, k]
			if k, ok := ConstInt(x.Y); ok && k >= 0 {
				a := p.atomOf(x)
				p.setLo(a, 0)
				p.setHi(a, k)
			}
		case token.REM:
			if k, ok := ConstInt(x.Y); ok && k > 0 && uintBits(x.Type()) > 0 {
				a := p.atomOf(x)
				p.setLo(a, 0)
				p.setHi(a, k-1)
			}
		}
	case *ssa.Call:
		if b, ok := x.Call.Value.(*ssa.Builtin); ok {
			switch b.Name() {
			case "len":
				return p.Len(x.Call.Args[0], d+1)
			case "cap":
				return p.Cap(x.Call.Args[0], d+1)
			case "copy":
				a := p.atomOf(x)
				p.setLo(a, 0)
				l := newILin()
				l.Coef[a] = 1
				return l, true
			case "min":
				// min(a, b) <= each; as atom with no facts
			}
		}
		if CalleeName(&x.Call) == "golang.org/x/sys/unix.CmsgSpace" {
			a := p.atomOf(x)
			p.setLo(a, 0)
			l := newILin()
			l.Coef[a] = 1
			return l, true
		}
	}
	a := p.atomOf(v)
	if bits := uintBits(v.Type()); bits > 0 {
		p.setLo(a, 0)
		p.setHi(a, int64(1)<<bits-1)
	}
	if ph, ok := v.(*ssa.Phi); ok && p.PhiLower != nil {
		if lo, ok := p.PhiLower(ph); ok {
			p.setLo(a, lo)
		}
	}
	l := newILin()
	l.Coef[a] = 1
	return l, true
}

// Len linearises len(v).
func (p *Prover) Len(v ssa.Value, d int) (ILin, bool) {
	if d > 16 {
		return ILin{}, false
	}
	switch x := v.(type) {
	case *ssa.Slice:
		if x.High != nil {
			h, ok1 := p.Int(x.High, d+1)
			l := newILin()
			ok2 := true
			if x.Low != nil {
				l, ok2 = p.Int(x.Low, d+1)
			}
			if ok1 && ok2 {
				return h.add(l, -1), true
			}
		} else {
			base, ok1 := p.Len(x.X, d+1)
			l := newILin()
			ok2 := true
			if x.Low != nil {
				l, ok2 = p.Int(x.Low, d+1)
			}
			if ok1 && ok2 {
				return base.add(l, -1), true
			}
		}
	case *ssa.MakeSlice:
		return p.Int(x.Len, d+1)
	case *ssa.Const:
		l := newILin()
		if x.Value != nil {
			if s, err := strconv.Unquote(x.Value.ExactString()); err == nil {
				l.C = int64(len(s))
			}
		}
		return l, true
	case *ssa.ChangeType:
		return p.Len(x.X, d+1)
	case *ssa.Convert:
		return p.Len(x.X, d+1)
	}
	// pointer to array / array
	t := v.Type()
	if pt, ok := t.Underlying().(*types.Pointer); ok {
		t = pt.Elem()
	}
	if at, ok := t.Underlying().(*types.Array); ok {
		l := newILin()
		l.C = at.Len()
		return l, true
	}
	a := "len(" + p.atomOf(v) + ")"
	p.setLo(a, 0)
	l := newILin()
	l.Coef[a] = 1
	return l, true
}

// Cap linearises cap(v).
func (p *Prover) Cap(v ssa.Value, d int) (ILin, bool) {
	if d > 16 {
		return ILin{}, false
	}
	switch x := v.(type) {
	case *ssa.Slice:
		if x.Max == nil {
			base, ok1 := p.Cap(x.X, d+1)
			l := newILin()
			ok2 := true
			if x.Low != nil {
				l, ok2 = p.Int(x.Low, d+1)
			}
			if ok1 && ok2 {
				return base.add(l, -1), true
			}
		}
	case *ssa.MakeSlice:
		return p.Int(x.Cap, d+1)
	case *ssa.ChangeType:
		return p.Cap(x.X, d+1)
	}
	t := v.Type()
	if pt, ok := t.Underlying().(*types.Pointer); ok {
		t = pt.Elem()
	}
	if at, ok := t.Underlying().(*types.Array); ok {
		l := newILin()
		l.C = at.Len()
		return l, true
	}
	a := "cap(" + p.atomOf(v) + ")"
	p.setLo(a, 0)
	l := newILin()
	l.Coef[a] = 1
	return l, true
}

// GuardFacts collects facts "L >= 0" from If edges that dominate block at,
// and from the function's own earlier bounds operations that dominate at
// (an index/slice operation that did not panic established its bound).
func (p *Prover) GuardFacts(at ssa.Instruction) []ILin {
	var facts []ILin
	blk := at.Block()
	for _, b := range p.Fn.Blocks {
		n := len(b.Instrs)
		if n == 0 {
			continue
		}
		if iff, ok := b.Instrs[n-1].(*ssa.If); ok {
			for si, s := range b.Succs {
				if !(len(s.Preds) == 1 && (s == blk || s.Dominates(blk))) {
					continue
				}
				for _, a := range Implied(iff.Cond, si == 0) {
					bo, ok := a.V.(*ssa.BinOp)
					if !ok {
						continue
					}
					facts = append(facts, p.cmpFacts(bo, a.Holds)...)
				}
			}
		}
	}
	// earlier successful bounds operations in dominating positions
	for _, b := range p.Fn.Blocks {
		if !(b == blk || b.Dominates(blk)) {
			continue
		}
		for _, in := range b.Instrs {
			if in == at {
				break
			}
			if b == blk && indexOf(b, in) >= indexOf(b, at) {
				break
			}
			switch x := in.(type) {
			case *ssa.Call:
				// E-SUM: n, oobn of a datagram read are within the buffers handed in
				switch CalleeName(&x.Call) {
				case "(*net.UDPConn).ReadMsgUDPAddrPort":
					for _, pr := range [][2]int{{0, 1}, {1, 2}} {
						for _, ref := range Referrers(x) {
							if e, ok := ref.(*ssa.Extract); ok && e.Index == pr[0] {
								n, _ := p.Int(e, 0)
								if l, ok := p.Len(x.Call.Args[pr[1]], 0); ok {
									facts = append(facts, l.add(n, -1), n)
								}
							}
						}
					}
				case "(*net.UDPConn).ReadFrom":
					for _, ref := range Referrers(x) {
						if e, ok := ref.(*ssa.Extract); ok && e.Index == 0 {
							n, _ := p.Int(e, 0)
							if l, ok := p.Len(x.Call.Args[1], 0); ok {
								facts = append(facts, l.add(n, -1), n)
							}
						}
					}
				}
			case *ssa.IndexAddr:
				if i, ok := p.Int(x.Index, 0); ok {
					if l, ok := p.Len(x.X, 0); ok {
						f := l.add(i, -1)
						f.C -= 1
						facts = append(facts, f) // len - i - 1 >= 0
					}
				}
			case *ssa.Slice:
				if _, isStr := x.X.Type().Underlying().(*types.Basic); isStr {
					continue
				}
				// lo <= hi (or len) <= cap
				var hiL ILin
				var okH bool
				if x.High != nil {
					hiL, okH = p.Int(x.High, 0)
					if c, ok := p.Cap(x.X, 0); ok && okH {
						facts = append(facts, c.add(hiL, -1)) // cap - hi >= 0
					}
				} else {
					hiL, okH = p.Len(x.X, 0)
				}
				if x.Low != nil && okH {
					if lo, ok := p.Int(x.Low, 0); ok {
						facts = append(facts, hiL.add(lo, -1)) // hi - lo >= 0
						facts = append(facts, lo)              // lo >= 0
					}
				}
			}
		}
	}
	return facts
}

// cmpFacts turns (X op Y) == holds into facts L >= 0.
func (p *Prover) cmpFacts(bo *ssa.BinOp, holds bool) []ILin {
	op := bo.Op
	switch op {
	case token.EQL, token.NEQ, token.LSS, token.LEQ, token.GTR, token.GEQ:
	default:
		return nil
	}
	if !holds {
		op = NegOp(op)
	}
	if _, isInt := bo.X.Type().Underlying().(*types.Basic); !isInt {
		return nil
	}
	if b := bo.X.Type().Underlying().(*types.Basic); b.Info()&types.IsInteger == 0 {
		return nil
	}
	x, ok1 := p.Int(bo.X, 0)
	y, ok2 := p.Int(bo.Y, 0)
	if !ok1 || !ok2 {
		return nil
	}
	d := x.add(y, -1) // x - y
	switch op {
	case token.GEQ:
		return []ILin{d}
	case token.GTR:
		d.C -= 1
		return []ILin{d}
	case token.LEQ:
		return []ILin{newILin().add(d, -1)}
	case token.LSS:
		n := newILin().add(d, -1)
		n.C -= 1
		return []ILin{n}
	case token.EQL:
		return []ILin{d, newILin().add(d, -1)}
	case token.NEQ:
		// x != y with x - y >= 0 known gives x - y - 1 >= 0 (and symmetrically)
		if m, ok := p.minOf(d); ok && m >= 0 {
			n := d.clone()
			n.C -= 1
			return []ILin{n}
		}
		nd := newILin().add(d, -1)
		if m, ok := p.minOf(nd); ok && m >= 0 {
			nd.C -= 1
			return []ILin{nd}
		}
	}
	return nil
}

// Prove tries to show g >= 0 from facts and atom bounds.
func (p *Prover) Prove(g ILin, facts []ILin) bool {
	// intrinsic: cap(x) >= len(x)
	for a := range g.Coef {
		if strings.HasPrefix(a, "cap(") {
			f := newILin()
			f.Coef[a] = 1
			f.Coef["len("+a[4:]] = -1
			p.setLo("len("+a[4:], 0)
			facts = append(facts, f)
		}
	}
	return p.prove(g, facts, 0)
}

func (p *Prover) minOf(g ILin) (int64, bool) {
	m := g.C
	for a, c := range g.Coef {
		if c > 0 {
			lo, ok := p.lo[a]
			if !ok {
				return 0, false
			}
			m += c * lo
		} else if c < 0 {
			if !p.hasHi[a] {
				return 0, false
			}
			m += c * p.hi[a]
		}
	}
	return m, true
}

func (p *Prover) prove(g ILin, facts []ILin, depth int) bool {
	if m, ok := p.minOf(g); ok && m >= 0 {
		return true
	}
	if depth >= 4 {
		return false
	}
	for _, f := range facts {
		// useful only if it shares an atom with opposite need
		share := false
		for a, c := range f.Coef {
			if gc, ok := g.Coef[a]; ok && (gc < 0) == (c < 0) {
				share = true
			}
		}
		if !share {
			continue
		}
		for _, lam := range []int64{1, 2} {
			rest := g.add(f, -lam)
			if p.prove(rest, facts, depth+1) {
				return true
			}
		}
	}
	return false
}
