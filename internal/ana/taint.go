package ana

import (
	"fmt"
	"go/token"
	"go/types"
	"sort"
	"strings"

	"golang.org/x/tools/go/ssa"
)

// E-TAINT (DESIGN §2.3): forward taint from network reads over the SSA of the
// repo packages. Scalars carry one bit; slices/strings two: content and length.

type Taint uint8

const (
	TC Taint = 1 // content / scalar value chosen by the peer
	TL Taint = 2 // length chosen by the peer
)

func (t Taint) String() string {
	switch t {
	case 0:
		return "-"
	case TC:
		return "content"
	case TL:
		return "length"
	}
	return "content+length"
}

// TaintCfg configures sources, sanitisers and the roots.
type TaintCfg struct {
	// CleanResults: repo functions whose results are clean whatever their inputs (sanitisers), with reason.
	CleanResults map[string]string
	// CleanCalls: library calls made inside a named repo function whose results
	// are clean, keyed "caller|callee" (sanitiser at the point of decryption).
	CleanCalls map[string]string
	// CleanCallees: library callee name prefixes whose results are trusted (local services), with reason.
	CleanCallees map[string]string
	// TaintedTypes: named types all of whose fields become tainted at a source (decoded gopacket layers).
	Log func(string)
}

// TaintState is the result of the analysis.
type TaintState struct {
	prog    *Prog
	cfg     TaintCfg
	val     map[ssa.Value]Taint
	loc     map[string]Taint
	prefix  map[string]Taint // type prefixes: every field below is tainted
	ret     map[*ssa.Function][]Taint
	reach   map[*ssa.Function]bool
	order   []*ssa.Function
	changed bool
	impls   map[string][]*ssa.Function // interface method full name -> repo implementations
	// Sources found (for C08.sources)
	Sources []string
	fvAlias map[*ssa.FreeVar]ssa.Value
	cds     map[*ssa.Function]*CtrlDep
	rdefs   map[string]func(ssa.Instruction) []ssa.Value
}

func (s *TaintState) Reachable() []*ssa.Function       { return s.order }
func (s *TaintState) IsReachable(f *ssa.Function) bool { return s.reach[f] }

func (s *TaintState) set(v ssa.Value, t Taint) {
	if t == 0 || v == nil {
		return
	}
	if s.val[v]|t != s.val[v] {
		s.val[v] |= t
		s.changed = true
	}
}

func (s *TaintState) setLoc(k string, t Taint) {
	if t == 0 || k == "" {
		return
	}
	if s.loc[k]|t != s.loc[k] {
		s.loc[k] |= t
		s.changed = true
	}
}

// Of returns the taint of a value.
func (s *TaintState) Of(v ssa.Value) Taint {
	if v == nil {
		return 0
	}
	if _, ok := v.(*ssa.Const); ok {
		return 0
	}
	return s.val[v]
}

func namedOf(t types.Type) string {
	for {
		if p, ok := t.(*types.Pointer); ok {
			t = p.Elem()
			continue
		}
		if p, ok := t.Underlying().(*types.Pointer); ok && t != p {
			_ = p
		}
		break
	}
	if n, ok := t.(*types.Named); ok {
		if n.Obj().Pkg() != nil {
			return n.Obj().Pkg().Path() + "." + n.Obj().Name()
		}
		return n.Obj().Name()
	}
	return ""
}

func allocID(a *ssa.Alloc) string {
	return fmt.Sprintf("A:%s#%s", a.Parent().String(), a.Name())
}

// locKey returns the abstract location an address denotes ("" if unknown).
func (s *TaintState) locKey(addr ssa.Value) string {
	var fields []string
	v := addr
	for i := 0; i < 32; i++ {
		switch x := v.(type) {
		case *ssa.FieldAddr:
			fields = append([]string{fieldName(x.X.Type(), x.Field)}, fields...)
			// if the struct being addressed is a named type, anchor there (type-based)
			if n := namedOf(x.X.Type()); n != "" {
				return "T:" + n + "." + strings.Join(fields, ".")
			}
			v = x.X
		case *ssa.IndexAddr:
			// element of an array/slice: same location as the container
			v = x.X
		case *ssa.Alloc:
			k := allocID(x)
			if len(fields) > 0 {
				k += "." + strings.Join(fields, ".")
			}
			return k
		case *ssa.Global:
			k := "G:" + x.String()
			if len(fields) > 0 {
				k += "." + strings.Join(fields, ".")
			}
			return k
		case *ssa.Parameter:
			k := "P:" + x.Parent().String() + "#" + x.Name()
			if len(fields) > 0 {
				k += "." + strings.Join(fields, ".")
			}
			return k
		case *ssa.FreeVar:
			if a, ok := s.fvAlias[x]; ok {
				v = a
				continue
			}
			return "F:" + x.Parent().String() + "#" + x.Name()
		case *ssa.UnOp:
			if x.Op == token.MUL {
				// address loaded from somewhere: container identity unknown; use the value itself when it is a slice (content of that slice)
				if len(fields) == 0 {
					return s.locKey(x.X)
				}
				return ""
			}
			return ""
		case *ssa.Slice:
			v = x.X
		case *ssa.ChangeType:
			v = x.X
		case *ssa.Phi:
			return ""
		default:
			return ""
		}
	}
	return ""
}

func (s *TaintState) prefixTaint(k string) Taint {
	var t Taint
	for p, pt := range s.prefix {
		if strings.HasPrefix(k, "T:"+p+".") {
			t |= pt
		}
	}
	return t
}

// lengthCarrying: a value of type t has a length (or holds, directly, something that has one).
// Pointers are not followed: what they point to is a location of its own.
func lengthCarrying(t types.Type, d int) bool {
	if d > 4 {
		return true
	}
	switch u := t.Underlying().(type) {
	case *types.Slice, *types.Map, *types.Chan, *types.Interface:
		return true
	case *types.Basic:
		return u.Info()&types.IsString != 0
	case *types.Array:
		return lengthCarrying(u.Elem(), d+1)
	case *types.Struct:
		for i := 0; i < u.NumFields(); i++ {
			if lengthCarrying(u.Field(i).Type(), d+1) {
				return true
			}
		}
	}
	return false
}

// loadTaint: taint of the value read through addr.
func (s *TaintState) loadTaint(addr ssa.Value) Taint {
	var t Taint
	switch x := addr.(type) {
	case *ssa.IndexAddr:
		// element of a container: content taint of the container value; an element that itself has
		// a length (slice, string, map, ... or a struct holding one) has a peer-chosen length too
		el := TC
		if pt, ok := addr.Type().Underlying().(*types.Pointer); ok && lengthCarrying(pt.Elem(), 0) {
			el |= TL
		}
		if s.Of(x.X)&TC != 0 {
			t |= el
		}
		if k := s.locKey(x.X); k != "" {
			if s.loc[k]&TC != 0 {
				t |= el
			}
		}
		// pointer to array (e.g. &buf[i] of *[N]T)
	case *ssa.FieldAddr:
		if s.Of(x.X)&TC != 0 {
			// field of a struct reached through a tainted pointer/element
			t |= TC | TL
		}
	}
	if k := s.locKey(addr); k != "" {
		t |= s.loc[k] | s.prefixTaint(k)
		// loading a whole struct: any tainted field taints the value
		if pt, ok := addr.Type().Underlying().(*types.Pointer); ok {
			if _, isStruct := pt.Elem().Underlying().(*types.Struct); isStruct {
				for lk, lt := range s.loc {
					if strings.HasPrefix(lk, k+".") {
						t |= lt
					}
				}
				if n := namedOf(pt.Elem()); n != "" {
					t |= s.prefix[n]
					for lk, lt := range s.loc {
						if strings.HasPrefix(lk, "T:"+n+".") {
							t |= lt
						}
					}
				}
			}
		}
	}
	return t
}

// BuildTaint runs the analysis from the given roots to a fixpoint.
func BuildTaint(p *Prog, roots []*ssa.Function, cfg TaintCfg) *TaintState {
	s := &TaintState{prog: p, cfg: cfg, val: map[ssa.Value]Taint{}, loc: map[string]Taint{}, prefix: map[string]Taint{},
		ret: map[*ssa.Function][]Taint{}, reach: map[*ssa.Function]bool{}, impls: map[string][]*ssa.Function{}, fvAlias: map[*ssa.FreeVar]ssa.Value{}}
	// interface implementations among repo methods
	for _, f := range p.AllFuncs {
		if f.Signature.Recv() == nil || f.Object() == nil {
			continue
		}
		s.impls[f.Name()] = append(s.impls[f.Name()], f)
	}
	var add func(f *ssa.Function)
	add = func(f *ssa.Function) {
		if f == nil || f.Blocks == nil || s.reach[f] {
			return
		}
		s.reach[f] = true
		s.order = append(s.order, f)
		s.changed = true
	}
	for _, r := range roots {
		add(r)
	}
	srcSeen := map[string]bool{}
	for iter := 0; iter < 60; iter++ {
		s.changed = false
		for i := 0; i < len(s.order); i++ {
			s.flowFunc(s.order[i], add, srcSeen)
		}
		if !s.changed {
			break
		}
	}
	for k := range srcSeen {
		s.Sources = append(s.Sources, k)
	}
	sort.Strings(s.Sources)
	sort.Slice(s.order, func(i, j int) bool { return s.order[i].String() < s.order[j].String() })
	return s
}

// Callees resolves the repo callees of a call (static, closure, or interface by method name + type check).
func (s *TaintState) Callees(c *ssa.CallCommon) []*ssa.Function {
	if c.IsInvoke() {
		var out []*ssa.Function
		for _, f := range s.impls[c.Method.Name()] {
			rt := f.Signature.Recv().Type()
			if types.Implements(rt, c.Value.Type().Underlying().(*types.Interface)) {
				out = append(out, f)
			}
		}
		return out
	}
	if f := c.StaticCallee(); f != nil && f.Blocks != nil {
		return []*ssa.Function{f}
	}
	if mc, ok := c.Value.(*ssa.MakeClosure); ok {
		if f, ok := mc.Fn.(*ssa.Function); ok {
			return []*ssa.Function{f}
		}
	}
	return nil
}

func isPtrToNonStruct(t types.Type) bool {
	p, ok := t.Underlying().(*types.Pointer)
	if !ok {
		return false
	}
	if namedOf(p.Elem()) != "" {
		if _, isStruct := p.Elem().Underlying().(*types.Struct); isStruct {
			return false
		}
	}
	return true
}

func (s *TaintState) flowFunc(f *ssa.Function, add func(*ssa.Function), srcSeen map[string]bool) {
	for _, b := range f.Blocks {
		for _, in := range b.Instrs {
			switch x := in.(type) {
			case *ssa.Phi:
				var t Taint
				for _, e := range x.Edges {
					t |= s.Of(e)
				}
				s.set(x, t)
			case *ssa.BinOp:
				t := s.Of(x.X) | s.Of(x.Y)
				if t != 0 {
					s.set(x, TC)
				}
			case *ssa.UnOp:
				switch x.Op {
				case token.MUL:
					t, done := s.localFieldLoad(f, x)
					if done {
						s.set(x, t)
						continue
					}
					t = s.loadTaint(x.X)
					if ptr := s.Of(x.X); ptr&TC != 0 {
						// dereference of a pointer that itself came from tainted data
						t |= TC | TL
					}
					s.set(x, t)
				case token.ARROW:
					s.set(x, s.Of(x.X))
				default:
					if s.Of(x.X) != 0 {
						s.set(x, TC)
					}
				}
			case *ssa.Convert:
				s.set(x, s.Of(x.X))
			case *ssa.ChangeType:
				s.set(x, s.Of(x.X))
			case *ssa.ChangeInterface:
				s.set(x, s.Of(x.X))
			case *ssa.MakeInterface:
				s.set(x, s.Of(x.X))
			case *ssa.TypeAssert:
				s.set(x, s.Of(x.X))
			case *ssa.Extract:
				if c, ok := x.Tuple.(*ssa.Call); ok {
					s.set(x, s.callResult(c, x.Index))
				} else {
					s.set(x, s.Of(x.Tuple))
				}
			case *ssa.Field:
				s.set(x, s.Of(x.X))
			case *ssa.FieldAddr:
				// address value: tainted if the base pointer is (e.g. element of a tainted slice of pointers)
				if s.Of(x.X)&TC != 0 {
					s.set(x, TC)
				}
			case *ssa.IndexAddr:
				if s.Of(x.X)&TC != 0 {
					s.set(x, TC)
				}
			case *ssa.Index:
				if s.Of(x.X)&TC != 0 {
					s.set(x, TC|TL)
				}
			case *ssa.Lookup:
				// a peer-chosen key selects among values this program stored: the
				// result is tainted only if the container's values are
				if s.Of(x.X)&TC != 0 {
					s.set(x, TC)
				}
				if _, isStr := x.X.Type().Underlying().(*types.Basic); isStr && s.Of(x.Index) != 0 {
					s.set(x, TC)
				}
			case *ssa.Slice:
				t := s.Of(x.X) & TC
				l := s.Of(x.X) & TL
				if x.Low != nil && s.Of(x.Low) != 0 {
					l = TL
				}
				if x.High != nil {
					// explicit upper bound: length is hi - lo
					l = 0
					if s.Of(x.High) != 0 || (x.Low != nil && s.Of(x.Low) != 0) {
						l = TL
					}
				}
				// slicing a pointer-to-array / container held in a tainted location
				if t == 0 {
					if k := s.locKey(x.X); k != "" && s.loc[k]&TC != 0 {
						t = TC
					}
				}
				s.set(x, t|l)
			case *ssa.MakeSlice:
				if s.Of(x.Len) != 0 || s.Of(x.Cap) != 0 {
					s.set(x, TL)
				}
			case *ssa.Store:
				t := s.Of(x.Val)
				if t != 0 {
					lt := t
					if _, isElem := x.Addr.(*ssa.IndexAddr); isElem && !lengthCarrying(x.Val.Type(), 0) {
						// storing an element that has no length of its own does not make any
						// length of the container peer-chosen
						lt &^= TL
					}
					if k := s.locKey(x.Addr); k != "" && lt != 0 {
						s.setLoc(k, lt)
					}
					// element store: the container's content becomes tainted
					if ia, ok := x.Addr.(*ssa.IndexAddr); ok {
						s.set(ia.X, TC)
					}
				}
			case *ssa.MapUpdate:
				if s.Of(x.Value) != 0 {
					s.set(x.Map, TC)
				}
			case *ssa.MakeClosure:
				fn := x.Fn.(*ssa.Function)
				add(fn)
				for i, b := range x.Bindings {
					fv := fn.FreeVars[i]
					s.fvAlias[fv] = b
					s.set(fv, s.Of(b))
				}
			case *ssa.Range:
				s.set(x, s.Of(x.X))
			case *ssa.Next:
				if s.Of(x.Iter) != 0 {
					s.set(x, TC)
				}
			case *ssa.Return:
				rs := s.ret[f]
				if rs == nil {
					rs = make([]Taint, len(x.Results))
					s.ret[f] = rs
				}
				// implicit flow: which return is taken is decided by network data
				var ct Taint
				if s.ctrlTainted(f, b) && s.returnsDiffer(f) {
					ct = TC
				}
				for i, rv := range x.Results {
					t := s.Of(rv) | ct
					if i < len(rs) && rs[i]|t != rs[i] {
						rs[i] |= t
						s.changed = true
					}
				}
			case ssa.CallInstruction:
				s.flowCall(f, x, add, srcSeen)
			}
		}
	}
}

// callResult: taint of result idx of call c (after flowCall has processed it).
func (s *TaintState) callResult(c *ssa.Call, idx int) Taint {
	if t, ok := s.val[tupleKey{c, idx}]; ok {
		return t
	}
	return 0
}

// tupleKey lets per-index results of tuple calls live in the same map.
type tupleKey struct {
	c   *ssa.Call
	idx int
}

func (tupleKey) Name() string                  { return "" }
func (tupleKey) String() string                { return "" }
func (tupleKey) Type() types.Type              { return nil }
func (tupleKey) Parent() *ssa.Function         { return nil }
func (tupleKey) Referrers() *[]ssa.Instruction { return nil }
func (tupleKey) Pos() token.Pos                { return token.NoPos }

func (s *TaintState) setResult(call ssa.CallInstruction, idx int, t Taint) {
	c, ok := call.(*ssa.Call)
	if !ok || t == 0 {
		return
	}
	if c.Call.Signature().Results().Len() <= 1 {
		s.set(c, t)
		return
	}
	k := tupleKey{c, idx}
	if s.val[k]|t != s.val[k] {
		s.val[k] |= t
		s.changed = true
	}
}

func (s *TaintState) anyArgTaint(c *ssa.CallCommon) Taint {
	var t Taint
	for _, a := range c.Args {
		t |= s.Of(a)
		t |= s.pointeeTaint(a)
	}
	if c.IsInvoke() {
		t |= s.Of(c.Value)
	}
	return t
}

// pointeeTaint: taint of what a pointer argument points to (its location, any
// sub-location, and the type-wide prefix for named struct types).
func (s *TaintState) pointeeTaint(a ssa.Value) Taint {
	a = Strip(a)
	if _, ok := a.Type().Underlying().(*types.Pointer); !ok {
		return 0
	}
	var t Taint
	if k := s.locKey(a); k != "" {
		t |= s.loc[k] | s.prefixTaint(k+".")
		for lk, lt := range s.loc {
			if strings.HasPrefix(lk, k+".") {
				t |= lt
			}
		}
	}
	if n := namedOf(a.Type()); n != "" {
		t |= s.prefix[n]
		for lk, lt := range s.loc {
			if strings.HasPrefix(lk, "T:"+n+".") {
				t |= lt
			}
		}
	}
	return t
}

// markPointee taints what an address argument points to.
func (s *TaintState) markPointee(addr ssa.Value, t Taint) {
	addr = Strip(addr)
	if k := s.locKey(addr); k != "" {
		s.setLoc(k, t)
	}
	// pointer to a named struct: all fields
	if n := namedOf(addr.Type()); n != "" {
		if s.prefix[n]|t != s.prefix[n] {
			s.prefix[n] |= t
			s.changed = true
		}
	}
}

// markSliceContent taints the bytes of a slice argument (and where it is stored).
func (s *TaintState) markSliceContent(v ssa.Value, t Taint) {
	s.set(v, t)
	seen := map[ssa.Value]bool{}
	var rec func(v ssa.Value)
	rec = func(v ssa.Value) {
		if seen[v] {
			return
		}
		seen[v] = true
		switch x := v.(type) {
		case *ssa.Slice:
			s.set(x.X, t&TC)
			rec(x.X)
		case *ssa.Phi:
			for _, e := range x.Edges {
				s.set(e, t&TC)
				rec(e)
			}
		case *ssa.UnOp:
			if x.Op == token.MUL {
				if k := s.locKey(x.X); k != "" {
					s.setLoc(k, t&TC)
				}
			}
		case *ssa.MakeSlice:
		}
	}
	rec(v)
}

func (s *TaintState) flowCall(f *ssa.Function, call ssa.CallInstruction, add func(*ssa.Function), srcSeen map[string]bool) {
	c := call.Common()
	name := CalleeName(c)
	pos := s.prog.Pos(call.Pos())
	// ---- sources -------------------------------------------------------
	switch name {
	case "(*net.UDPConn).ReadMsgUDPAddrPort":
		srcSeen["ReadMsgUDPAddrPort@"+FuncName(f)] = true
		s.markSliceContent(c.Args[1], TC)
		s.setResult(call, 0, TC) // n
		// oob (arg 2), oobn, flags: kernel-produced; source address: typed
		_ = pos
		return
	case "(*net.UDPConn).ReadFrom", "(*net.UDPConn).ReadFromUDP", "(*net.UDPConn).ReadFromUDPAddrPort":
		srcSeen[strings.TrimPrefix(name, "(*net.UDPConn).")+"@"+FuncName(f)] = true
		s.markSliceContent(c.Args[1], TC)
		s.setResult(call, 0, TC)
		return
	case "(*github.com/google/gopacket.DecodingLayerParser).DecodeLayers":
		srcSeen["DecodeLayers@"+FuncName(f)] = true
		// the registered layers are found at the NewDecodingLayerParser call; decoded slice pointee
		s.markPointee(c.Args[2], TC|TL)
		if s.Of(c.Args[1]) != 0 {
			s.setResult(call, 0, TC)
		}
		return
	case "github.com/google/gopacket.NewDecodingLayerParser":
		// variadic decoders: a slice of interfaces built from &layer allocs
		for _, a := range c.Args[1:] {
			s.markLayers(a)
		}
		return
	case "encoding/binary.Read":
		srcSeen["binary.Read@"+FuncName(f)] = true
		s.markPointee(c.Args[2], TC|TL)
		// reading into a []byte passed as interface
		s.markSliceContent(Strip(c.Args[2]), TC)
		s.setResult(call, 0, TC)
		return
	case "io.ReadFull", "io.ReadAtLeast", "(*bufio.Reader).Read", "(io.Reader).Read", "(*crypto/tls.Conn).Read":
		srcSeen[name+"@"+FuncName(f)] = true
		s.markSliceContent(c.Args[1], TC)
		s.setResult(call, 0, TC)
		s.setResult(call, 1, TC)
		return
	}
	if strings.HasSuffix(name, "quic-go.Stream).Read") || strings.HasSuffix(name, "quic-go.ReceiveStream).Read") {
		srcSeen["quic.Stream.Read@"+FuncName(f)] = true
		s.markSliceContent(c.Args[0], TC)
		s.setResult(call, 0, TC)
		return
	}
	// ---- builtins ---------------------------------------------------------
	if b, ok := c.Value.(*ssa.Builtin); ok {
		switch b.Name() {
		case "len":
			if s.Of(c.Args[0])&TL != 0 {
				s.setResult(call, 0, TC)
			}
		case "cap":
			// re-slicing from index 0 keeps the capacity: not peer-chosen
		case "copy":
			if s.Of(c.Args[1])&TC != 0 {
				s.markSliceContent(c.Args[0], TC)
			}
			if (s.Of(c.Args[0])|s.Of(c.Args[1]))&TL != 0 {
				s.setResult(call, 0, TC)
			}
		case "append":
			var t Taint
			for _, a := range c.Args {
				t |= s.Of(a)
			}
			// appending elements that are tainted: content
			if len(c.Args) == 2 {
				if sl, ok := c.Args[1].(*ssa.Slice); ok {
					if k := s.locKey(sl.X); k != "" && s.loc[k] != 0 {
						t |= TC
					}
				}
			}
			// an append that runs or not depending on network data makes the length network-chosen
			if in, ok := call.(ssa.Instruction); ok && in.Block() != nil && s.ctrlTainted(f, in.Block()) {
				t |= TL
			}
			s.setResult(call, 0, t)
		case "min", "max":
			var t Taint
			for _, a := range c.Args {
				t |= s.Of(a)
			}
			if t != 0 {
				s.setResult(call, 0, TC)
			}
		}
		return
	}
	// ---- repo callees -------------------------------------------------------
	callees := s.Callees(c)
	if len(callees) > 0 {
		args := c.Args
		if c.IsInvoke() {
			args = append([]ssa.Value{c.Value}, c.Args...)
		}
		for _, cal := range callees {
			add(cal)
			if why, clean := s.cfg.CleanResults[cal.String()]; clean {
				_ = why
			}
			for i, prm := range cal.Params {
				if i >= len(args) {
					break
				}
				s.set(prm, s.Of(args[i]))
				if isPtrToNonStruct(prm.Type()) {
					pk := "P:" + cal.String() + "#" + prm.Name()
					if ak := s.locKey(Strip(args[i])); ak != "" {
						s.setLoc(pk, s.loc[ak])
						s.setLoc(ak, s.loc[pk])
					}
				}
			}
			if _, clean := s.cfg.CleanResults[cal.String()]; clean {
				continue
			}
			for i, rt := range s.ret[cal] {
				s.setResult(call, i, rt)
			}
		}
		return
	}
	// ---- library default ----------------------------------------------------
	if _, clean := s.cfg.CleanCalls[f.String()+"|"+name]; clean {
		return
	}
	for pfx := range s.cfg.CleanCallees {
		if strings.HasPrefix(name, pfx) {
			return
		}
	}
	t := s.anyArgTaint(c)
	if t == 0 {
		return
	}
	n := c.Signature().Results().Len()
	for i := 0; i < n; i++ {
		rt := c.Signature().Results().At(i).Type()
		if isHandleType(rt) {
			continue // opaque library handle (connection, stream, context ...): not data
		}
		switch rt.Underlying().(type) {
		case *types.Slice:
			s.setResult(call, i, TC|TL)
		default:
			if b, ok := rt.Underlying().(*types.Basic); ok && b.Kind() == types.String {
				s.setResult(call, i, TC|TL)
			} else {
				s.setResult(call, i, TC)
			}
		}
	}
	// pointer arguments may be written by the library (e.g. SerializeTo into a buffer): not modelled as taint sinks
}

// markLayers taints the gopacket layer objects registered with a parser.
func (s *TaintState) markLayers(v ssa.Value) {
	sl, ok := v.(*ssa.Slice)
	if !ok {
		if mi, ok := v.(*ssa.MakeInterface); ok {
			s.markPointee(mi.X, TC|TL)
		}
		return
	}
	arr, ok := sl.X.(*ssa.Alloc)
	if !ok {
		return
	}
	for _, ref := range Referrers(arr) {
		ia, ok := ref.(*ssa.IndexAddr)
		if !ok {
			continue
		}
		for _, r2 := range Referrers(ia) {
			if st, ok := r2.(*ssa.Store); ok {
				if mi, ok := st.Val.(*ssa.MakeInterface); ok {
					s.markPointee(mi.X, TC|TL)
				}
			}
		}
	}
}

// LocTaints lists tainted locations (for evidence).
func (s *TaintState) LocTaints() []string {
	var out []string
	for k, t := range s.loc {
		out = append(out, k+"="+t.String())
	}
	for k, t := range s.prefix {
		out = append(out, "T:"+k+".*="+t.String())
	}
	sort.Strings(out)
	return out
}

// DumpFunc lists the tainted values of a function (debugging aid).
func (s *TaintState) DumpFunc(f *ssa.Function) []string {
	var out []string
	for _, b := range f.Blocks {
		for _, in := range b.Instrs {
			if v, ok := in.(ssa.Value); ok && s.Of(v) != 0 {
				out = append(out, fmt.Sprintf("%s = %s  [%s]", v.Name(), in.String(), s.Of(v)))
			}
		}
	}
	for _, p := range f.Params {
		if s.Of(p) != 0 {
			out = append(out, fmt.Sprintf("param %s [%s]", p.Name(), s.Of(p)))
		}
	}
	return out
}

// isHandleType: library object handles whose identity is not peer-chosen data.
func isHandleType(t types.Type) bool {
	n := namedOf(t)
	if n == "" {
		return false
	}
	for _, p := range []string{"github.com/quic-go/quic-go.", "crypto/tls.", "context.", "log/slog.", "bufio.", "sync.", "net.Conn", "net.PacketConn", "net.UDPConn", "net.TCPConn", "net.Listener", "net.ListenConfig",
		"github.com/google/gopacket.DecodingLayerParser", "github.com/google/gopacket.SerializeBuffer", "github.com/scionproto/scion/pkg/daemon.", "crypto/cipher.", "github.com/miscreant/"} {
		if strings.HasPrefix(n, p) {
			return true
		}
	}
	return false
}

// ctrlTainted: block b is (transitively) control dependent on a tainted condition.
func (s *TaintState) ctrlTainted(f *ssa.Function, b *ssa.BasicBlock) bool {
	if s.cds == nil {
		s.cds = map[*ssa.Function]*CtrlDep{}
	}
	cd := s.cds[f]
	if cd == nil {
		cd = ControlDeps(f)
		s.cds[f] = cd
	}
	seen := map[*ssa.BasicBlock]bool{}
	var rec func(b *ssa.BasicBlock) bool
	rec = func(b *ssa.BasicBlock) bool {
		if seen[b] {
			return false
		}
		seen[b] = true
		for _, e := range cd.Direct(b) {
			if iff, ok := e.From.Instrs[len(e.From.Instrs)-1].(*ssa.If); ok && s.Of(iff.Cond) != 0 {
				return true
			}
			if rec(e.From) {
				return true
			}
		}
		return false
	}
	return rec(b)
}

// returnsDiffer: the function has more than one return statement.
func (s *TaintState) returnsDiffer(f *ssa.Function) bool {
	n := 0
	for _, b := range f.Blocks {
		if f.Recover != nil && b == f.Recover {
			continue
		}
		if len(b.Instrs) > 0 {
			if _, ok := b.Instrs[len(b.Instrs)-1].(*ssa.Return); ok {
				n++
			}
		}
	}
	return n > 1
}

// localRoot splits an address into (local alloc, field path) when it is a
// field chain rooted at a local variable of struct type.
func localRoot(addr ssa.Value) (*ssa.Alloc, string) {
	var fields []string
	v := addr
	for i := 0; i < 16; i++ {
		switch x := v.(type) {
		case *ssa.FieldAddr:
			fields = append([]string{fieldName(x.X.Type(), x.Field)}, fields...)
			v = x.X
		case *ssa.Alloc:
			return x, strings.Join(fields, ".")
		default:
			return nil, ""
		}
	}
	return nil, ""
}

// localFieldLoad: flow-sensitive taint of a load from a field of a local struct
// variable (or the variable as a whole): the join over the stores that reach
// the load. Falls back (done=false) when the variable is captured by a closure.
func (s *TaintState) localFieldLoad(f *ssa.Function, ld *ssa.UnOp) (Taint, bool) {
	a, path := localRoot(ld.X)
	if a == nil {
		return 0, false
	}
	if _, isStruct := a.Type().Underlying().(*types.Pointer).Elem().Underlying().(*types.Struct); !isStruct {
		return 0, false
	}
	for _, ref := range Referrers(a) {
		if _, ok := ref.(*ssa.MakeClosure); ok {
			return 0, false
		}
	}
	if s.rdefs == nil {
		s.rdefs = map[string]func(ssa.Instruction) []ssa.Value{}
	}
	key := allocID(a) + "|" + path
	q := s.rdefs[key]
	if q == nil {
		related := func(p2 string) (exact, parent, child bool) {
			if p2 == path {
				return true, false, false
			}
			if p2 == "" || strings.HasPrefix(path, p2+".") {
				return false, true, false
			}
			if path == "" || strings.HasPrefix(p2, path+".") {
				return false, false, true
			}
			return false, false, false
		}
		q = ReachingDefs(f, func(in ssa.Instruction) (DefKind, ssa.Value) {
			switch x := in.(type) {
			case *ssa.Store:
				a2, p2 := localRoot(x.Addr)
				if a2 != a {
					return DefNone, nil
				}
				ex, par, ch := related(p2)
				switch {
				case ex || par:
					return DefStrong, x.Val
				case ch:
					return DefWeak, x.Val
				}
			case ssa.CallInstruction:
				for _, arg := range x.Common().Args {
					a2, p2 := localRoot(Strip(arg))
					if a2 != a {
						continue
					}
					if ex, par, ch := related(p2); ex || par || ch {
						return DefUnknown, nil
					}
				}
			}
			return DefNone, nil
		})
		s.rdefs[key] = q
	}
	var t Taint
	for _, v := range q(ld) {
		switch v {
		case Zero:
		case Unknown:
			t |= s.loadTaint(ld.X)
		default:
			t |= s.Of(v)
		}
	}
	return t, true
}
