package ana

import (
	"fmt"
	"go/constant"
	"go/token"
	"go/types"
	"strings"

	"golang.org/x/tools/go/ssa"
)

// Strip removes value-preserving wrappers (type changes, interface boxing).
func Strip(v ssa.Value) ssa.Value {
	for {
		switch x := v.(type) {
		case *ssa.ChangeType:
			v = x.X
		case *ssa.MakeInterface:
			v = x.X
		case *ssa.ChangeInterface:
			v = x.X
		default:
			return v
		}
	}
}

// StripConv additionally removes numeric conversions.
func StripConv(v ssa.Value) ssa.Value {
	for {
		v = Strip(v)
		if c, ok := v.(*ssa.Convert); ok {
			v = c.X
			continue
		}
		return v
	}
}

// CallOf returns the call that defines v (directly or through Extract) and the
// result index (0 for single-result calls).
func CallOf(v ssa.Value) (*ssa.Call, int) {
	v = Strip(v)
	switch x := v.(type) {
	case *ssa.Call:
		return x, 0
	case *ssa.Extract:
		if c, ok := x.Tuple.(*ssa.Call); ok {
			return c, x.Index
		}
	}
	return nil, -1
}

// LoadOfLocal resolves a load from a local Alloc to the unique store that
// reaches it within the same block (scanning backwards), or through a chain of
// single-predecessor blocks. Returns nil if not resolvable.
func LoadOfLocal(v ssa.Value) ssa.Value {
	u, ok := v.(*ssa.UnOp)
	if !ok || u.Op != token.MUL {
		return nil
	}
	a, ok := u.X.(*ssa.Alloc)
	if !ok {
		return nil
	}
	b := u.Block()
	idx := indexOf(b, u)
	for {
		for i := idx - 1; i >= 0; i-- {
			if st, ok := b.Instrs[i].(*ssa.Store); ok && st.Addr == a {
				return st.Val
			}
			// a call that receives the address may write it
			if c, ok := b.Instrs[i].(ssa.CallInstruction); ok {
				for _, arg := range c.Common().Args {
					if arg == ssa.Value(a) {
						return nil
					}
				}
			}
		}
		if len(b.Preds) != 1 {
			return nil
		}
		b = b.Preds[0]
		idx = len(b.Instrs)
	}
}

func indexOf(b *ssa.BasicBlock, in ssa.Instruction) int {
	for i, x := range b.Instrs {
		if x == in {
			return i
		}
	}
	return -1
}

// Resolve follows Strip and loads of locals.
func Resolve(v ssa.Value) ssa.Value {
	for i := 0; i < 16; i++ {
		v = Strip(v)
		if w := LoadOfLocal(v); w != nil {
			v = w
			continue
		}
		return v
	}
	return v
}

// IsNilConst reports whether v is the nil constant.
func IsNilConst(v ssa.Value) bool {
	c, ok := v.(*ssa.Const)
	return ok && c.Value == nil && !isBasic(c.Type())
}

func isBasic(t types.Type) bool {
	_, ok := t.Underlying().(*types.Basic)
	return ok
}

// ConstInt returns the integer value of a constant.
func ConstInt(v ssa.Value) (int64, bool) {
	c, ok := StripConv(v).(*ssa.Const)
	if !ok || c.Value == nil {
		return 0, false
	}
	if c.Value.Kind() != constant.Int {
		if c.Value.Kind() == constant.Float {
			f, _ := constant.Float64Val(c.Value)
			if f == float64(int64(f)) {
				return int64(f), true
			}
		}
		return 0, false
	}
	i, ok := constant.Int64Val(c.Value)
	if !ok {
		// uint64 beyond int64
		u, ok2 := constant.Uint64Val(c.Value)
		return int64(u), ok2
	}
	return i, true
}

// ConstBool returns the boolean value of a constant.
func ConstBool(v ssa.Value) (bool, bool) {
	c, ok := v.(*ssa.Const)
	if !ok || c.Value == nil || c.Value.Kind() != constant.Bool {
		return false, false
	}
	return constant.BoolVal(c.Value), true
}

// AccessPath renders the canonical access path of an address or loaded value
// rooted at a parameter, free variable, global, or local alloc:
// "c.Auth.Enabled", "tssi.buf[i].rxt", "*rxt". Returns "" if the value is not
// such a path.
func AccessPath(v ssa.Value) string {
	return accessPath(v, 0)
}

func accessPath(v ssa.Value, depth int) string {
	if depth > 24 {
		return ""
	}
	switch x := v.(type) {
	case *ssa.Parameter:
		return x.Name()
	case *ssa.FreeVar:
		return x.Name()
	case *ssa.Global:
		return x.Name()
	case *ssa.Alloc:
		if x.Comment != "" {
			return x.Comment
		}
		return fmt.Sprintf("alloc@%d", x.Pos())
	case *ssa.UnOp:
		if x.Op == token.MUL {
			p := accessPath(x.X, depth+1)
			if p == "" {
				return ""
			}
			switch x.X.(type) {
			case *ssa.FieldAddr, *ssa.IndexAddr, *ssa.Global, *ssa.Alloc:
				return p // load of an addressable location: path of the location
			}
			return "*" + p
		}
	case *ssa.FieldAddr:
		p := accessPath(x.X, depth+1)
		if p == "" {
			return ""
		}
		return p + "." + fieldName(x.X.Type(), x.Field)
	case *ssa.Field:
		p := accessPath(x.X, depth+1)
		if p == "" {
			return ""
		}
		return p + "." + fieldName(x.X.Type(), x.Field)
	case *ssa.IndexAddr:
		p := accessPath(x.X, depth+1)
		if p == "" {
			return ""
		}
		return p + "[" + indexStr(x.Index, depth) + "]"
	case *ssa.Index:
		p := accessPath(x.X, depth+1)
		if p == "" {
			return ""
		}
		return p + "[" + indexStr(x.Index, depth) + "]"
	case *ssa.ChangeType:
		return accessPath(x.X, depth+1)
	case *ssa.TypeAssert:
		return accessPath(x.X, depth+1)
	case *ssa.Phi:
		if x.Comment != "" {
			return x.Comment
		}
	case *ssa.Extract:
		if c, ok := x.Tuple.(*ssa.Call); ok {
			return fmt.Sprintf("%s#%d", Short(CalleeName(c.Common())), x.Index)
		}
		if l, ok := x.Tuple.(*ssa.Lookup); ok {
			return accessPath(l, depth+1) + fmt.Sprintf("#%d", x.Index)
		}
	case *ssa.Lookup:
		p := accessPath(x.X, depth+1)
		if p == "" {
			return ""
		}
		return p + "[" + indexStr(x.Index, depth) + "]"
	case *ssa.Call:
		return Short(CalleeName(x.Common())) + "()"
	}
	return ""
}

func indexStr(v ssa.Value, depth int) string {
	if i, ok := ConstInt(v); ok {
		return fmt.Sprint(i)
	}
	if p := accessPath(StripConv(v), depth+1); p != "" {
		return p
	}
	return v.Name()
}

func fieldName(t types.Type, i int) string {
	if p, ok := t.Underlying().(*types.Pointer); ok {
		t = p.Elem()
	}
	if s, ok := t.Underlying().(*types.Struct); ok && i < s.NumFields() {
		return s.Field(i).Name()
	}
	return fmt.Sprintf("f%d", i)
}

// Cmp is a normalised comparison "X op Y" that holds when Holds is the value of
// the original condition (after stripping negations).
type Cmp struct {
	Op    token.Token
	X, Y  ssa.Value
	Instr *ssa.BinOp
}

// AsCmp decomposes a boolean value into a comparison and a polarity: the
// original value is true iff (X Op Y) == pos.
func AsCmp(v ssa.Value) (c Cmp, pos bool, ok bool) {
	pos = true
	for {
		switch x := v.(type) {
		case *ssa.UnOp:
			if x.Op == token.NOT {
				pos = !pos
				v = x.X
				continue
			}
		case *ssa.BinOp:
			switch x.Op {
			case token.EQL, token.NEQ, token.LSS, token.LEQ, token.GTR, token.GEQ:
				c = Cmp{Op: x.Op, X: x.X, Y: x.Y, Instr: x}
				// canonical form: a constant operand stands on the right; a negation of a
				// comparison of non-float operands is folded into the operator
				if _, xk := c.X.(*ssa.Const); xk {
					if _, yk := c.Y.(*ssa.Const); !yk {
						c = c.Mirror()
					}
				}
				if !pos && !isFloatType(c.X.Type()) {
					c.Op = NegOp(c.Op)
					pos = true
				}
				return c, pos, true
			}
		}
		return Cmp{}, pos, false
	}
}

func isFloatType(t types.Type) bool {
	b, ok := t.Underlying().(*types.Basic)
	return ok && b.Info()&(types.IsFloat|types.IsComplex) != 0
}

// Mirror exchanges the operands: a < b becomes b > a.
func (c Cmp) Mirror() Cmp {
	c.X, c.Y, c.Op = c.Y, c.X, SwapOp(c.Op)
	return c
}

// Orient mirrors the comparison, if necessary, so that its operator is in the family of op
// (GTR, GEQ or LSS, LEQ). Equality tests are returned unchanged.
func (c Cmp) Orient(op token.Token) Cmp {
	gt := func(o token.Token) int {
		switch o {
		case token.GTR, token.GEQ:
			return 1
		case token.LSS, token.LEQ:
			return -1
		}
		return 0
	}
	if gt(op)*gt(c.Op) < 0 {
		return c.Mirror()
	}
	return c
}

// StripNot removes boolean negations: v is true iff (result == pos).
func StripNot(v ssa.Value) (ssa.Value, bool) {
	pos := true
	for {
		if x, ok := v.(*ssa.UnOp); ok && x.Op == token.NOT {
			pos = !pos
			v = x.X
			continue
		}
		return v, pos
	}
}

// NegOp returns the comparison operator that holds when op does not.
func NegOp(op token.Token) token.Token {
	switch op {
	case token.EQL:
		return token.NEQ
	case token.NEQ:
		return token.EQL
	case token.LSS:
		return token.GEQ
	case token.GEQ:
		return token.LSS
	case token.GTR:
		return token.LEQ
	case token.LEQ:
		return token.GTR
	}
	return op
}

// SwapOp returns the operator for swapped operands.
func SwapOp(op token.Token) token.Token {
	switch op {
	case token.LSS:
		return token.GTR
	case token.GTR:
		return token.LSS
	case token.LEQ:
		return token.GEQ
	case token.GEQ:
		return token.LEQ
	}
	return op
}

// CallsIn lists all call instructions (Call, Go, Defer) of a function whose
// callee full name equals name.
func CallsIn(fn *ssa.Function, name string) []ssa.CallInstruction {
	var out []ssa.CallInstruction
	for _, b := range fn.Blocks {
		for _, in := range b.Instrs {
			if c, ok := in.(ssa.CallInstruction); ok {
				if CalleeName(c.Common()) == name {
					out = append(out, c)
				}
			}
		}
	}
	return out
}

// CallsMatching lists call instructions whose callee name satisfies pred.
func CallsMatching(fn *ssa.Function, pred func(string) bool) []ssa.CallInstruction {
	var out []ssa.CallInstruction
	for _, b := range fn.Blocks {
		for _, in := range b.Instrs {
			if c, ok := in.(ssa.CallInstruction); ok {
				if pred(CalleeName(c.Common())) {
					out = append(out, c)
				}
			}
		}
	}
	return out
}

// Instrs iterates over all instructions of a function.
func Instrs(fn *ssa.Function, f func(ssa.Instruction)) {
	for _, b := range fn.Blocks {
		for _, in := range b.Instrs {
			f(in)
		}
	}
}

// ValueString renders a value for reports (name + short description).
func ValueString(v ssa.Value) string {
	if v == nil {
		return "<nil>"
	}
	if p := AccessPath(v); p != "" {
		return p
	}
	s := v.String()
	s = Short(s)
	if len(s) > 80 {
		s = s[:80] + "…"
	}
	return strings.TrimSpace(s)
}

// Referrers returns the referrers of v, or nil.
func Referrers(v ssa.Value) []ssa.Instruction {
	r := v.Referrers()
	if r == nil {
		return nil
	}
	return *r
}

// AsCmpDir is AsCmp followed by Orient(op): mirrored spellings of one comparison give the same result.
func AsCmpDir(v ssa.Value, op token.Token) (c Cmp, pos bool, ok bool) {
	c, pos, ok = AsCmp(v)
	if ok {
		c = c.Orient(op)
	}
	return
}

// IfCmp reads the test of an If as the comparison "X want Y" and returns the successor index on
// which that comparison holds: mirrored (b < a) and negated (!(a <= b), or the branches exchanged)
// spellings of a > b all give (a > b, then-successor). exact is false when a negation of a
// floating-point comparison was folded: the returned comparison then also "holds" on that
// successor for unordered (NaN) operands.
func IfCmp(iff *ssa.If, want token.Token) (c Cmp, succ int, exact bool, ok bool) {
	c, pos, isCmp := AsCmp(iff.Cond)
	if !isCmp {
		return Cmp{}, 0, false, false
	}
	succ = 0
	if !pos {
		succ = 1
	}
	c = c.Orient(want)
	if c.Op == want {
		return c, succ, true, true
	}
	n := c
	n.Op = NegOp(c.Op)
	n = n.Orient(want)
	if n.Op == want {
		return n, 1 - succ, !isFloatType(c.X.Type()), true
	}
	return Cmp{}, 0, false, false
}
