package ana

import (
	"crypto/sha1"
	"encoding/hex"
	"encoding/json"
	"fmt"
	"os"
	"path/filepath"
	"sort"
	"strings"
	"time"
)

// Obligation is one decided instance of a rule.
type Obligation struct {
	Rule   string   `json:"rule"`
	Key    string   `json:"key"` // rule | func | construct descriptor (never a line number)
	Func   string   `json:"func,omitempty"`
	Pos    string   `json:"pos,omitempty"`
	Status string   `json:"status"` // discharged | violated | known | assumed
	Fact   string   `json:"fact,omitempty"`
	What   string   `json:"what,omitempty"`
	Path   []string `json:"witness_path,omitempty"`
}

// Result collects everything one property check decided.
type Result struct {
	Property    string
	Tier        string
	Explanation []string
	NotDecided  []string
	Obls        []*Obligation
	BrokenMsgs  []string
	Floors      map[string][2]int // rule -> {found, floor}
	Tables      map[string]any
	DryRun      bool // decide and print only: no evidence file, no replay files
	Trusted     []string
	Assumptions []string
	FuncsSeen   map[string]bool
	start       time.Time
}

func NewResult(prop, tier string) *Result {
	return &Result{Property: prop, Tier: tier, Floors: map[string][2]int{}, Tables: map[string]any{},
		FuncsSeen: map[string]bool{}, start: time.Now()}
}

func (r *Result) Explain(s string)      { r.Explanation = append(r.Explanation, s) }
func (r *Result) Undecided(s string)    { r.NotDecided = append(r.NotDecided, s) }
func (r *Result) Trust(s string)        { r.Trusted = append(r.Trusted, s) }
func (r *Result) Assume(s string)       { r.Assumptions = append(r.Assumptions, s) }
func (r *Result) Saw(fn string)         { r.FuncsSeen[fn] = true }
func (r *Result) Table(k string, v any) { r.Tables[k] = v }

func mkKey(rule, fn, construct string) string { return rule + " | " + fn + " | " + construct }

// Ok records a discharged obligation.
func (r *Result) Ok(rule, fn, construct, pos, fact string) {
	r.Obls = append(r.Obls, &Obligation{Rule: rule, Key: mkKey(rule, fn, construct), Func: fn, Pos: pos, Status: "discharged", Fact: fact})
}

// Assumed records an obligation that is listed as an assumption (not discharged, not alarmed).
func (r *Result) Assumed(rule, fn, construct, pos, fact string) {
	r.Obls = append(r.Obls, &Obligation{Rule: rule, Key: mkKey(rule, fn, construct), Func: fn, Pos: pos, Status: "assumed", Fact: fact})
}

// Violate records a violated obligation.
func (r *Result) Violate(rule, fn, construct, pos, what string, path ...string) {
	r.Obls = append(r.Obls, &Obligation{Rule: rule, Key: mkKey(rule, fn, construct), Func: fn, Pos: pos, Status: "violated", What: what, Path: path})
}

// Broken records a tool failure (unresolved anchor, floor not reached, undecidable idiom).
func (r *Result) Broken(format string, a ...any) {
	r.BrokenMsgs = append(r.BrokenMsgs, fmt.Sprintf(format, a...))
}

// Floor checks an instance floor: fewer instances than confirmed by hand is a tool failure.
func (r *Result) Floor(rule string, found, floor int) {
	r.Floors[rule] = [2]int{found, floor}
	if found < floor {
		r.Broken("rule %s matched %d instances, floor is %d (a rule that matches nothing passes vacuously)", rule, found, floor)
	}
}

// KnownFinding is an entry of /verif/known_findings.json.
type KnownFinding struct {
	Status        string `json:"status"` // open | fixed
	Property      string `json:"property"`
	Key           string `json:"key,omitempty"`
	What          string `json:"what"`
	Commit        string `json:"commit,omitempty"`
	Demonstration string `json:"demonstration,omitempty"`
}

func LoadKnown(path string) ([]KnownFinding, error) {
	b, err := os.ReadFile(path)
	if err != nil {
		if os.IsNotExist(err) {
			return nil, nil
		}
		return nil, err
	}
	var k []KnownFinding
	if err := json.Unmarshal(b, &k); err != nil {
		return nil, err
	}
	return k, nil
}

// Finish applies known findings, prints the report, writes evidence and replay
// files, and returns the process exit code.
func (r *Result) Finish(verifDir string, seed int64) int {
	known, err := LoadKnown(filepath.Join(verifDir, "known_findings.json"))
	if err != nil {
		r.Broken("cannot read known_findings.json: %v", err)
	}
	openKeys := map[string]KnownFinding{}
	for _, k := range known {
		if k.Status == "open" && k.Property == r.Property {
			openKeys[k.Key] = k
		}
	}
	// deterministic order
	sort.SliceStable(r.Obls, func(i, j int) bool { return r.Obls[i].Key < r.Obls[j].Key })
	// duplicate keys get a numeric suffix so that a second violation of the same
	// construct is distinct from a listed one
	seen := map[string]int{}
	for _, o := range r.Obls {
		seen[o.Key]++
		if seen[o.Key] > 1 {
			o.Key = fmt.Sprintf("%s #%d", o.Key, seen[o.Key])
		}
	}
	nViol, nKnown, nDis, nAss := 0, 0, 0, 0
	perRule := map[string][4]int{}
	var out strings.Builder
	usedKnown := map[string]bool{}
	for _, o := range r.Obls {
		if o.Status == "violated" {
			if k, ok := openKeys[o.Key]; ok {
				o.Status = "known"
				o.Fact = k.What
				usedKnown[o.Key] = true
			}
		}
		c := perRule[o.Rule]
		switch o.Status {
		case "discharged":
			nDis++
			c[0]++
		case "violated":
			nViol++
			c[1]++
		case "known":
			nKnown++
			c[2]++
		case "assumed":
			nAss++
			c[3]++
		}
		perRule[o.Rule] = c
	}
	rules := make([]string, 0, len(perRule))
	for k := range perRule {
		rules = append(rules, k)
	}
	sort.Strings(rules)
	fmt.Fprintf(&out, "scioncheck property=%s tier=%s repo=%s\n", r.Property, r.Tier, RepoDir())
	for _, k := range rules {
		c := perRule[k]
		fl := ""
		if f, ok := r.Floors[k]; ok {
			fl = fmt.Sprintf(" instances=%d floor=%d", f[0], f[1])
		}
		fmt.Fprintf(&out, "  rule %-22s discharged=%d violated=%d known=%d assumed=%d%s\n", k, c[0], c[1], c[2], c[3], fl)
	}
	for k, f := range r.Floors {
		if _, ok := perRule[k]; !ok {
			fmt.Fprintf(&out, "  rule %-22s instances=%d floor=%d\n", k, f[0], f[1])
		}
	}
	repDir := filepath.Join(verifDir, "reports", r.Property)
	if !r.DryRun {
		_ = os.MkdirAll(repDir, 0o755)
	}
	for _, o := range r.Obls {
		switch o.Status {
		case "known":
			fmt.Fprintf(&out, "KNOWN-FINDING: property=%s %s [%s at %s]\n", r.Property, o.Fact, o.Key, o.Pos)
		case "violated":
			h := sha1.Sum([]byte(o.Key))
			name := hex.EncodeToString(h[:6]) + ".json"
			rp := filepath.Join(repDir, name)
			b, _ := json.MarshalIndent(map[string]any{"property": r.Property, "obligation": o}, "", " ")
			if !r.DryRun {
				_ = os.WriteFile(rp, b, 0o644)
			}
			fmt.Fprintf(&out, "VIOLATION property=%s replay=%s\n", r.Property, filepath.Join("reports", r.Property, name))
			fmt.Fprintf(&out, "  rule=%s func=%s at=%s\n  key=%s\n  what=%s\n", o.Rule, o.Func, o.Pos, o.Key, o.What)
			for _, p := range o.Path {
				fmt.Fprintf(&out, "    path: %s\n", p)
			}
		}
	}
	for _, b := range r.BrokenMsgs {
		fmt.Fprintf(&out, "BROKEN: property=%s %s\n", r.Property, b)
	}
	code := 0
	if nViol > 0 {
		code = 1
	}
	if len(r.BrokenMsgs) > 0 {
		// a broken check is not evidence about the property
		if code == 0 {
			code = 2
		}
	}
	fmt.Fprintf(&out, "result property=%s obligations=%d discharged=%d violated=%d known=%d assumed=%d broken=%d exit=%d\n",
		r.Property, len(r.Obls), nDis, nViol, nKnown, nAss, len(r.BrokenMsgs), code)
	fmt.Print(out.String())
	if os.Getenv("SCIONCHECK_LIST") != "" {
		for _, o := range r.Obls {
			fmt.Printf("OBL %s %s @%s :: %s%s\n", o.Status, o.Key, o.Pos, o.Fact, o.What)
		}
	}

	if r.DryRun {
		return code
	}
	// evidence
	samples := []any{}
	perRuleSample := map[string]int{}
	for _, o := range r.Obls {
		if perRuleSample[o.Rule] < 3 || o.Status != "discharged" || r.Tier == "thorough" {
			perRuleSample[o.Rule]++
			samples = append(samples, o)
		}
		if len(samples) >= 80 && r.Tier != "thorough" {
			break // the thorough tier lists every obligation
		}
	}
	funcs := make([]string, 0, len(r.FuncsSeen))
	for f := range r.FuncsSeen {
		funcs = append(funcs, f)
	}
	sort.Strings(funcs)
	floors := map[string]any{}
	for k, f := range r.Floors {
		floors[k] = map[string]int{"found": f[0], "floor": f[1]}
	}
	ruleCounts := map[string]any{}
	for _, k := range rules {
		c := perRule[k]
		ruleCounts[k] = map[string]int{"discharged": c[0], "violated": c[1], "known": c[2], "assumed": c[3]}
	}
	ev := map[string]any{
		"property_id": r.Property,
		"tier":        r.Tier,
		"seed":        seed,
		"level":       "other",
		"coverage": map[string]any{
			"explanation":        strings.Join(r.Explanation, " "),
			"not_decided":        r.NotDecided,
			"obligations":        len(r.Obls),
			"discharged":         nDis,
			"known_findings":     nKnown,
			"assumptions_listed": nAss,
			"rules":              ruleCounts,
			"instance_floors":    floors,
			"functions_analysed": funcs,
			"samples":            samples,
			"tables":             r.Tables,
			"checker_cmd":        fmt.Sprintf("./bin/scioncheck -p %s -tier %s", r.Property, r.Tier),
			"trusted_base":       append([]string{"go/types and golang.org/x/tools/go/ssa v0.50.0 (SSA construction)", "go/packages loading of /repo for linux/amd64, non-test files"}, r.Trusted...),
			"broken":             r.BrokenMsgs,
			"exhaustive":         false,
		},
		"assumptions": r.Assumptions,
		"wall_s":      time.Since(r.start).Seconds(),
		"violations":  nViol,
	}
	nz := func(x []string) []string {
		if x == nil {
			return []string{}
		}
		return x
	}
	ev["assumptions"] = nz(r.Assumptions)
	cov := ev["coverage"].(map[string]any)
	cov["not_decided"] = nz(r.NotDecided)
	cov["broken"] = nz(r.BrokenMsgs)
	_ = os.MkdirAll(filepath.Join(verifDir, "evidence"), 0o755)
	b, _ := json.MarshalIndent(ev, "", " ")
	if err := os.WriteFile(filepath.Join(verifDir, "evidence", r.Property+".json"), b, 0o644); err != nil {
		fmt.Printf("BROKEN: property=%s cannot write evidence: %v\n", r.Property, err)
		if code == 0 {
			code = 2
		}
	}
	return code
}
