package ana

import (
	"fmt"
	"go/token"
	"go/types"
	"sort"
	"strconv"
	"strings"

	"golang.org/x/tools/go/ssa"
)

// E-BOUND, part 2: a linear prover over integer atoms.
//
//   - atoms are SSA registers ("[t5]"), parameters, and heap paths rooted at
//     parameters/globals/registers ("tlv.FlagField"); loads of local allocs and
//     of *param are resolved flow-sensitively through reaching stores;
//   - facts come from dominating branch edges, from earlier index/slice
//     operations that did not panic, from datagram-read results, and from the
//     definitions of values (copy, x&^m, append, min);
//   - a fact that mentions a heap path is only used when no store to one of the
//     path's fields (directly or through a callee) can run between the fact's
//     origin and the use;
//   - goals that mention a phi are split per incoming edge (with the goal itself
//     as induction hypothesis on back edges); results of repo functions are
//     described by summaries proven inside the callee.

// ProverSet shares per-function provers, function summaries and field invariants.
type ProverSet struct {
	Funcs    []*ssa.Function
	PhiLower func(*ssa.Function, *ssa.Phi) (int64, bool)

	provers    map[*ssa.Function]*Prover
	sums       map[*ssa.Function]*FnSummary
	busy       map[*ssa.Function]bool
	mayStore   map[*ssa.Function]map[*types.Var]bool
	fieldLo    map[*types.Var]int // 0 unknown, 1 computing, 2 proven >= 0, 3 not proven
	byName     map[string][]*ssa.Function
	owned      map[[2]*types.Var]int64
	ownedExact map[[2]*types.Var]bool
	// Stats
	NSplit, NSummary, NFieldInv int
}

func NewProverSet(funcs []*ssa.Function) *ProverSet {
	ps := &ProverSet{Funcs: funcs, provers: map[*ssa.Function]*Prover{}, sums: map[*ssa.Function]*FnSummary{},
		busy: map[*ssa.Function]bool{}, fieldLo: map[*types.Var]int{}, byName: map[string][]*ssa.Function{}}
	for _, f := range funcs {
		ps.byName[f.Name()] = append(ps.byName[f.Name()], f)
	}
	return ps
}

func (ps *ProverSet) For(fn *ssa.Function) *Prover {
	if p := ps.provers[fn]; p != nil {
		return p
	}
	p := &Prover{Set: ps, Fn: fn, lo: map[string]int64{}, hi: map[string]int64{}, hasHi: map[string]bool{},
		atoms: map[string]*atomRef{}, rdCache: map[string]func(ssa.Instruction) []ssa.Value{}, seenDef: map[ssa.Value]bool{}}
	ps.provers[fn] = p
	return p
}

type atomKind int

const (
	akInt atomKind = iota
	akLen
	akCap
)

type atomRef struct {
	kind     atomKind
	v        ssa.Value
	fields   []*types.Var // heap fields the path loads through
	imported bool         // imported from a callee: v is only the path's base value
	locals   []localDep   // local locations the path reads
}

// Fact is L >= 0, established at Origin (nil: holds wherever its values are defined).
type Fact struct {
	L      ILin
	Origin ssa.Instruction
}

type condFact struct {
	L       ILin
	call    *ssa.Call
	success bool
	pre     []ILin
}

// Prover holds the per-function context.
type Prover struct {
	Set   *ProverSet
	Fn    *ssa.Function
	lo    map[string]int64
	hi    map[string]int64
	hasHi map[string]bool

	atoms     map[string]*atomRef
	defs      []defFact
	conds     []condFact
	seenDef   map[ssa.Value]bool
	rdCache   map[string]func(ssa.Instruction) []ssa.Value
	reach     [][]bool
	escaped   map[ssa.Value]*escInfo
	holders   map[ssa.Value]map[ssa.Value]bool
	between   map[[2]ssa.Instruction]map[ssa.Instruction]bool
	callCases map[string]*callCase
	spilled   map[*ssa.Alloc]*ssa.Parameter
	regs      map[string]ssa.Value
}

func (p *Prover) setLo(a string, k int64) {
	if cur, ok := p.lo[a]; !ok || k > cur {
		p.lo[a] = k
	}
}

func (p *Prover) setHi(a string, k int64) {
	if !p.hasHi[a] || k < p.hi[a] {
		p.hi[a] = k
		p.hasHi[a] = true
	}
}

func uintBits(t types.Type) int {
	b, ok := t.Underlying().(*types.Basic)
	if !ok {
		return 0
	}
	switch b.Kind() {
	case types.Uint8:
		return 8
	case types.Uint16:
		return 16
	case types.Uint32:
		return 32
	}
	return 0
}

func lin1(a string) ILin {
	l := newILin()
	l.Coef[a] = 1
	return l
}

func linK(k int64) ILin {
	l := newILin()
	l.C = k
	return l
}

// ---- naming -------------------------------------------------------------------

func fieldVar(t types.Type, i int) *types.Var {
	if p, ok := t.Underlying().(*types.Pointer); ok {
		t = p.Elem()
	}
	if s, ok := t.Underlying().(*types.Struct); ok && i < s.NumFields() {
		return s.Field(i)
	}
	return nil
}

// locOf strips a chain of FieldAddr down to its root address and renders the field path.
func locOf(addr ssa.Value) (root ssa.Value, fp string) {
	for {
		fa, ok := addr.(*ssa.FieldAddr)
		if !ok {
			return addr, fp
		}
		fp = "." + fieldName(fa.X.Type(), fa.Field) + fp
		addr = fa.X
	}
}

// escInfo: how the address of a local alloc spreads. derived holds every value
// computed from the address (sub-addresses, slices, interfaces, results of
// calls that received one, locals it was stored into). A call can write the
// local only when one of its operands is derived from the address; when the
// address is stored outside the function's own locals, returned, sent or
// handed to go/defer it is leaked and every non-pure call may write it.
type escInfo struct {
	leaked  bool
	derived map[ssa.Value]bool
}

func (p *Prover) allocEscapes(a ssa.Value) *escInfo {
	if p.escaped == nil {
		p.escaped = map[ssa.Value]*escInfo{}
	}
	if v, ok := p.escaped[a]; ok {
		return v
	}
	info := &escInfo{derived: map[ssa.Value]bool{}}
	p.escaped[a] = info
	var work []ssa.Value
	add := func(v ssa.Value) {
		if v != nil && !info.derived[v] {
			info.derived[v] = true
			work = append(work, v)
		}
	}
	add(a)
	for len(work) > 0 {
		v := work[len(work)-1]
		work = work[:len(work)-1]
		refs := v.Referrers()
		if refs == nil {
			continue
		}
		for _, r := range *refs {
			switch x := r.(type) {
			case *ssa.UnOp:
				if x.Op != token.MUL {
					add(x)
				} else if v != a {
					// load through a derived address that is not the local itself:
					// contents of a holder; pointers inside may alias the local
					if _, isAlloc := v.(*ssa.Alloc); isAlloc {
						add(x)
					}
				}
			case *ssa.Store:
				if x.Val == v {
					root, _ := locOf(x.Addr)
					for {
						if ia, ok := root.(*ssa.IndexAddr); ok {
							root, _ = locOf(ia.X)
							continue
						}
						break
					}
					if ra, ok := root.(*ssa.Alloc); ok {
						add(ra)
					} else {
						info.leaked = true
					}
				}
			case *ssa.FieldAddr, *ssa.IndexAddr, *ssa.Slice, *ssa.ChangeType, *ssa.Convert, *ssa.MakeInterface, *ssa.ChangeInterface, *ssa.Phi, *ssa.TypeAssert, *ssa.Extract, *ssa.MakeClosure:
				add(x.(ssa.Value))
			case *ssa.Call:
				if _, isB := x.Call.Value.(*ssa.Builtin); isB {
					continue
				}
				// results that can hold a pointer
				if hasPointers(x.Type()) {
					add(x)
				}
			case *ssa.Panic:
			case *ssa.DebugRef:
			case *ssa.Field, *ssa.Index, *ssa.Lookup, *ssa.BinOp:
			default:
				info.leaked = true // return, send, go, defer, map update, ...
			}
		}
	}
	return info
}

func hasPointers(t types.Type) bool {
	if types.Identical(t, types.Universe.Lookup("error").Type()) {
		return false // trusted: error values do not alias the caller's locals
	}
	switch u := t.Underlying().(type) {
	case *types.Basic:
		return u.Kind() == types.UnsafePointer
	case *types.Tuple:
		for i := 0; i < u.Len(); i++ {
			if hasPointers(u.At(i).Type()) {
				return true
			}
		}
		return false
	case *types.Array:
		return hasPointers(u.Elem())
	case *types.Struct:
		for i := 0; i < u.NumFields(); i++ {
			if hasPointers(u.Field(i).Type()) {
				return true
			}
		}
		return false
	}
	return true
}

// callMayWriteLocal: the call can write to local a (or a part of it).
func (p *Prover) callMayWriteLocal(in ssa.Instruction, a *ssa.Alloc) bool {
	c, ok := in.(ssa.CallInstruction)
	if !ok {
		return false
	}
	cc := c.Common()
	if _, isB := cc.Value.(*ssa.Builtin); isB {
		return false
	}
	info := p.allocEscapes(a)
	if info.leaked {
		return !pureLibCall(CalleeName(cc))
	}
	if info.derived[cc.Value] {
		return true
	}
	for _, arg := range cc.Args {
		if info.derived[arg] {
			return true
		}
	}
	return false
}

func isBuiltinInstr(in ssa.Instruction) bool {
	c, ok := in.(ssa.CallInstruction)
	if !ok {
		return false
	}
	_, isB := c.Common().Value.(*ssa.Builtin)
	return isB
}

// resolveLoad returns the values that may be loaded by ld when its location is
// a local alloc (possibly a field of it) or the pointee of a pointer parameter.
// ok=false when the location is of another kind or an unknown value may reach.
func (p *Prover) resolveLoad(ld *ssa.UnOp) ([]ssa.Value, bool) {
	root, fp := locOf(ld.X)
	if al, ok := root.(*ssa.Alloc); ok && fp == "" {
		if prm := p.spilledParam(al); prm != nil {
			return []ssa.Value{prm}, true
		}
	}
	var local *ssa.Alloc
	switch r := root.(type) {
	case *ssa.Alloc:
		local = r
	case *ssa.Parameter:
		if fp != "" {
			return nil, false
		}
	default:
		return nil, false
	}
	key := root.Name() + fp
	q := p.rdCache[key]
	if q == nil {
		q = ReachingDefs(p.Fn, func(in ssa.Instruction) (DefKind, ssa.Value) {
			switch x := in.(type) {
			case *ssa.Store:
				r2, fp2 := locOf(x.Addr)
				if r2 != root {
					return DefNone, nil
				}
				if fp2 == fp {
					return DefStrong, x.Val
				}
				if strings.HasPrefix(fp, fp2) || strings.HasPrefix(fp2, fp) {
					return DefUnknown, nil
				}
			case ssa.CallInstruction:
				if local != nil {
					if p.callMayWriteLocal(in, local) {
						return DefUnknown, nil
					}
				} else if !isBuiltinInstr(in) && !pureLibCall(CalleeName(x.Common())) {
					return DefUnknown, nil
				}
			}
			return DefNone, nil
		})
		p.rdCache[key] = q
	}
	vals := q(ld)
	if len(vals) == 0 {
		return nil, false
	}
	if len(vals) > 1 && local != nil {
		// drop definitions that cannot reach the load on any feasible path
		// (path-sensitive search with the function's condition classes)
		isDef := func(in ssa.Instruction) (ssa.Value, bool) {
			if st, ok := in.(*ssa.Store); ok {
				if r2, fp2 := locOf(st.Addr); r2 == root && fp2 == fp {
					return st.Val, true
				}
			}
			return nil, false
		}
		var kept []ssa.Value
		for _, v := range vals {
			if v == Unknown {
				kept = append(kept, v)
				continue
			}
			feasible := false
			target := func(in ssa.Instruction) bool { return in == ssa.Instruction(ld) }
			if v == Zero {
				stop := func(in ssa.Instruction) bool { _, d := isDef(in); return d }
				feasible = Reachable(p.Fn, p.Fn.Blocks[0].Instrs[0], target, stop, nil)
			} else {
				Instrs(p.Fn, func(in ssa.Instruction) {
					if feasible {
						return
					}
					if dv, d := isDef(in); d && dv == v {
						stop := func(in2 ssa.Instruction) bool { _, d2 := isDef(in2); return d2 && in2 != in }
						if Reachable(p.Fn, in, target, stop, nil) {
							feasible = true
						}
					}
				})
			}
			if feasible {
				kept = append(kept, v)
			}
		}
		vals = kept
		if len(vals) == 0 {
			return nil, false
		}
	}
	for _, v := range vals {
		if v == Unknown {
			return nil, false
		}
		if v == Zero {
			if _, isParam := root.(*ssa.Parameter); isParam {
				return nil, false
			}
			// a spilled parameter is stored at entry, so Zero only reaches for real locals
		}
	}
	sort.Slice(vals, func(i, j int) bool { return valName(vals[i]) < valName(vals[j]) })
	return vals, true
}

// spilledParam: al holds a parameter that is stored once at entry and is only
// read afterwards, also by the closures that capture it.
func (p *Prover) spilledParam(al *ssa.Alloc) *ssa.Parameter {
	if p.spilled == nil {
		p.spilled = map[*ssa.Alloc]*ssa.Parameter{}
	}
	if v, ok := p.spilled[al]; ok {
		return v
	}
	p.spilled[al] = nil
	var prm *ssa.Parameter
	ok := true
	var readOnly func(v ssa.Value, top bool)
	readOnly = func(v ssa.Value, top bool) {
		refs := v.Referrers()
		if refs == nil {
			return
		}
		for _, r := range *refs {
			switch x := r.(type) {
			case *ssa.UnOp:
				if x.Op != token.MUL {
					ok = false
				}
			case *ssa.Store:
				if x.Addr == v && top && prm == nil {
					if pv, isP := x.Val.(*ssa.Parameter); isP && x.Block() == p.Fn.Blocks[0] {
						prm = pv
						continue
					}
				}
				ok = false
			case *ssa.MakeClosure:
				cf, isF := x.Fn.(*ssa.Function)
				if !isF {
					ok = false
					continue
				}
				for i, b := range x.Bindings {
					if b == v {
						if i < len(cf.FreeVars) {
							readOnly(cf.FreeVars[i], false)
						} else {
							ok = false
						}
					}
				}
			case *ssa.FieldAddr, *ssa.IndexAddr:
				readOnly(x.(ssa.Value), false)
			case *ssa.DebugRef:
			default:
				ok = false
			}
		}
	}
	readOnly(al, true)
	if ok && prm != nil {
		p.spilled[al] = prm
	}
	return p.spilled[al]
}

// resolveStruct: the load reads field path fp of local struct al, and the
// whole struct was last assigned from the single value returned.
func (p *Prover) resolveStruct(ld *ssa.UnOp, al *ssa.Alloc, fp string) (ssa.Value, bool) {
	key := al.Name() + "\x00struct"
	q := p.rdCache[key]
	if q == nil {
		q = ReachingDefs(p.Fn, func(in ssa.Instruction) (DefKind, ssa.Value) {
			switch x := in.(type) {
			case *ssa.Store:
				r2, fp2 := locOf(x.Addr)
				if r2 != ssa.Value(al) {
					return DefNone, nil
				}
				if fp2 == "" {
					return DefStrong, x.Val
				}
				return DefWeak, Unknown // a field store: handled per query below
			case ssa.CallInstruction:
				if p.callMayWriteLocal(in, al) {
					return DefUnknown, nil
				}
			}
			return DefNone, nil
		})
		p.rdCache[key] = q
	}
	vals := q(ld)
	if len(vals) != 1 || vals[0] == Unknown || vals[0] == Zero {
		return nil, false
	}
	if _, isConst := vals[0].(*ssa.Const); isConst {
		return nil, false
	}
	return vals[0], true
}

// regValue finds the value named "tN" in this function.
func (p *Prover) regValue(name string) ssa.Value {
	if p.regs == nil {
		p.regs = map[string]ssa.Value{}
		Instrs(p.Fn, func(in ssa.Instruction) {
			if v, ok := in.(ssa.Value); ok {
				p.regs[v.Name()] = v
			}
		})
	}
	return p.regs[name]
}

// splitAtomName parses "len([t8].a.b)" into wrapper, register name and suffix.
func splitAtomName(a string) (pre, reg, suffix, post string, ok bool) {
	inner := a
	for _, w := range []string{"len(", "cap("} {
		if strings.HasPrefix(a, w) && strings.HasSuffix(a, ")") {
			inner, pre, post = a[len(w):len(a)-1], w, ")"
		}
	}
	if !strings.HasPrefix(inner, "[") {
		return
	}
	end := strings.IndexByte(inner, ']')
	if end < 0 {
		return
	}
	reg, suffix = inner[1:end], inner[end+1:]
	return pre, reg, suffix, post, true
}

// fieldVarsAlong resolves ".a.b" against struct type t.
func fieldVarsAlong(t types.Type, suffix string) []*types.Var {
	var out []*types.Var
	for _, name := range strings.Split(strings.TrimPrefix(suffix, "."), ".") {
		if i := strings.IndexByte(name, '&'); i >= 0 {
			name = name[:i]
		}
		if pt, ok := t.Underlying().(*types.Pointer); ok {
			t = pt.Elem()
		}
		st, ok := t.Underlying().(*types.Struct)
		if !ok {
			return nil
		}
		found := false
		for i := 0; i < st.NumFields(); i++ {
			if st.Field(i).Name() == name {
				out = append(out, st.Field(i))
				t = st.Field(i).Type()
				found = true
				break
			}
		}
		if !found {
			return nil
		}
	}
	return out
}

// rebase: atom a names a field of a struct value that was copied out of the
// heap by load ld; at that load the field equals the heap location's field.
// Returns the heap atom and the load.
func (p *Prover) rebase(a string) (string, *ssa.UnOp, bool) {
	pre, reg, suffix, post, ok := splitAtomName(a)
	if !ok || suffix == "" || !strings.HasPrefix(suffix, ".") {
		return "", nil, false
	}
	ld, ok := p.regValue(reg).(*ssa.UnOp)
	if !ok || ld.Op != token.MUL {
		return "", nil, false
	}
	if _, isStruct := ld.Type().Underlying().(*types.Struct); !isStruct {
		return "", nil, false
	}
	fa, ok := ld.X.(*ssa.FieldAddr)
	if !ok {
		return "", nil, false
	}
	if root, _ := locOf(fa); root != nil {
		if _, isAlloc := root.(*ssa.Alloc); isAlloc {
			return "", nil, false
		}
	}
	var fields []*types.Var
	var locals []localDep
	base := p.path(fa.X, &fields, &locals, 0) + "." + fieldName(fa.X.Type(), fa.Field)
	if fv := fieldVar(fa.X.Type(), fa.Field); fv != nil {
		fields = append(fields, fv)
	}
	more := fieldVarsAlong(ld.Type(), suffix)
	if more == nil {
		return "", nil, false
	}
	fields = append(fields, more...)
	na := pre + base + suffix + post
	ref := p.atoms[a]
	if p.atoms[na] == nil {
		kind := akInt
		if ref != nil {
			kind = ref.kind
		}
		p.atoms[na] = &atomRef{kind: kind, v: ld.X, fields: fields, locals: locals, imported: true}
		if kind != akInt {
			p.setLo(na, 0)
		}
	}
	return na, ld, true
}

func valName(v ssa.Value) string {
	if v == Zero {
		return "\x00zero"
	}
	return v.Name()
}

// path names a value. heap fields the path loads through are appended to *fields.
// DebugStable prints why facts are dropped.
var DebugStable = false

type localDep struct {
	a  *ssa.Alloc
	fp string
}

func (p *Prover) path(v ssa.Value, fields *[]*types.Var, locals *[]localDep, d int) string {
	if d > 24 {
		return "[" + v.Name() + "]"
	}
	switch x := v.(type) {
	case *ssa.Parameter:
		return x.Name()
	case *ssa.FreeVar:
		return "^" + x.Name()
	case *ssa.Global:
		if x.Pkg != nil {
			return x.Pkg.Pkg.Name() + "." + x.Name()
		}
		return x.Name()
	case *ssa.UnOp:
		if x.Op == token.MUL {
			if vals, ok := p.resolveLoad(x); ok && len(vals) == 1 && vals[0] != Zero {
				return p.path(vals[0], fields, locals, d+1)
			}
			switch a := x.X.(type) {
			case *ssa.FieldAddr:
				root, fp := locOf(a)
				if ra, isAlloc := root.(*ssa.Alloc); isAlloc {
					// a field of a local struct that was last assigned as a whole: field of that value
					if prm := p.spilledParam(ra); prm != nil {
						return prm.Name() + fp
					}
					if sv, ok := p.resolveStruct(x, ra, fp); ok {
						return p.path(sv, fields, locals, d+1) + fp
					}
					// local with several/unknown reaching values: one atom per location,
					// valid between writes (see stable)
					*locals = append(*locals, localDep{ra, fp})
					return "&" + ra.Name() + fp
				}
				if _, isStruct := x.Type().Underlying().(*types.Struct); isStruct {
					// a struct copied out of the heap is a value of its own (see rebase)
					return "[" + x.Name() + "]"
				}
				if fv := fieldVar(a.X.Type(), a.Field); fv != nil {
					*fields = append(*fields, fv)
				}
				return p.path(a.X, fields, locals, d+1) + "." + fieldName(a.X.Type(), a.Field)
			case *ssa.Global:
				return p.path(a, fields, locals, d+1)
			case *ssa.Alloc:
				*locals = append(*locals, localDep{a, ""})
				return "&" + a.Name()
			}
		}
	case *ssa.FieldAddr:
		return p.path(x.X, fields, locals, d+1) + "." + fieldName(x.X.Type(), x.Field)
	case *ssa.Field:
		return p.path(x.X, fields, locals, d+1) + "." + fieldName(x.X.Type(), x.Field)
	case *ssa.ChangeType:
		return p.path(x.X, fields, locals, d+1)
	case *ssa.BinOp:
		// x & k: a pure function of x, named after x so that callee and caller agree
		if x.Op == token.AND {
			if k, ok := ConstInt(x.Y); ok && k >= 0 {
				return p.path(StripConv(x.X), fields, locals, d+1) + "&" + strconv.FormatInt(k, 10)
			}
		}
	case *ssa.Phi:
		// pointer phi with a single non-nil source names that source
		if _, isPtr := x.Type().Underlying().(*types.Pointer); isPtr {
			var src ssa.Value
			n := 0
			for _, e := range x.Edges {
				if IsNilConst(e) || e == ssa.Value(x) {
					continue
				}
				if src == nil || src != e {
					src = e
					n++
				}
			}
			if n == 1 {
				return p.path(src, fields, locals, d+1)
			}
		}
	}
	return "[" + v.Name() + "]"
}

func (p *Prover) atom(kind atomKind, v ssa.Value) string {
	var fields []*types.Var
	var locals []localDep
	s := p.path(v, &fields, &locals, 0)
	switch kind {
	case akLen:
		s = "len(" + s + ")"
	case akCap:
		s = "cap(" + s + ")"
	}
	if p.atoms[s] == nil {
		p.atoms[s] = &atomRef{kind: kind, v: v, fields: fields, locals: locals}
		if kind != akInt {
			p.setLo(s, 0)
		}
		p.applyOwnedLen(s)
		p.applyStructPost(s)
	}
	return s
}

// applyStructPost: atom a is len(r.f) for the struct result r of a repo call
// whose summary bounds that field.
func (p *Prover) applyStructPost(a string) {
	pre, reg, suffix, _, ok := splitAtomName(a)
	if !ok || pre != "len(" || suffix == "" {
		return
	}
	var call *ssa.Call
	idx := 0
	switch x := p.regValue(reg).(type) {
	case *ssa.Call:
		call = x
	case *ssa.Extract:
		call, _ = x.Tuple.(*ssa.Call)
		idx = x.Index
	}
	if call == nil {
		return
	}
	callee := call.Call.StaticCallee()
	if callee == nil || callee.Blocks == nil {
		return
	}
	sum := p.Set.Summary(callee)
	if sum == nil {
		return
	}
	for _, sp := range sum.StructPost {
		if sp.Res == idx && sp.Suffix == suffix {
			l := lin1(a)
			l.C = -sp.Min
			p.conds = append(p.conds, condFact{L: l, call: call, success: sp.Success})
		}
	}
}

// applyOwnedLen: len(X.f1.f2) >= K when f1 is an owner field (see ownedLen).
func (p *Prover) applyOwnedLen(a string) {
	ref := p.atoms[a]
	if ref == nil || ref.kind != akLen || len(ref.fields) < 2 {
		return
	}
	n := len(ref.fields)
	if k, ok := p.Set.ownedLen(ref.fields[n-2], ref.fields[n-1]); ok {
		p.setLo(a, k)
		if p.Set.ownedExact[[2]*types.Var{ref.fields[n-2], ref.fields[n-1]}] {
			p.setHi(a, k)
		}
	}
}

// ---- linearisation ------------------------------------------------------------

// addDef records a fact that follows from the definition of value v. It may
// only be used where v has been computed (v's instruction dominates the use):
// the fact can embed partial operations (the length of a slice expression is
// only meaningful after the slicing did not panic).
func (p *Prover) addDef(v ssa.Value, l ILin) {
	d := defFact{L: l}
	if in, ok := v.(ssa.Instruction); ok {
		d.at = in
	}
	p.defs = append(p.defs, d)
}

type defFact struct {
	L  ILin
	at ssa.Instruction
}

// defsAt: the definitional facts usable at `at`.
func (p *Prover) defsAt(at ssa.Instruction) []Fact {
	var out []Fact
	for _, d := range p.defs {
		if d.at == nil {
			out = append(out, Fact{L: d.L})
			continue
		}
		if at == nil || !instrDominates(d.at, at) {
			continue
		}
		out = append(out, Fact{L: d.L, Origin: d.at})
	}
	return out
}

// instrDominates: a executes before b on every path to b (a != b).
func instrDominates(a, b ssa.Instruction) bool {
	ba, bb := a.Block(), b.Block()
	if ba == nil || bb == nil {
		return false
	}
	if ba == bb {
		return indexOf(ba, a) < indexOf(bb, b)
	}
	return ba.Dominates(bb)
}

// Int linearises an integer SSA value.
func (p *Prover) Int(v ssa.Value, d int) (ILin, bool) {
	if d > 16 {
		return ILin{}, false
	}
	if k, ok := ConstInt(v); ok {
		if _, isC := StripConv(v).(*ssa.Const); isC {
			return linK(k), true
		}
	}
	switch x := v.(type) {
	case *ssa.Convert:
		if bits := uintBits(x.X.Type()); bits > 0 {
			in, ok := p.Int(x.X, d+1)
			if ok {
				for a := range in.Coef {
					if len(in.Coef) == 1 && in.Coef[a] == 1 && in.C == 0 {
						p.setLo(a, 0)
						p.setHi(a, int64(1)<<bits-1)
					}
				}
				return in, true
			}
		}
		src, ok1 := x.X.Type().Underlying().(*types.Basic)
		dst, ok2 := x.Type().Underlying().(*types.Basic)
		if ok1 && ok2 && src.Info()&types.IsInteger != 0 && dst.Info()&types.IsInteger != 0 {
			if uintBits(x.Type()) == 0 {
				return p.Int(x.X, d+1)
			}
			// narrowing to a small unsigned type keeps the value only when it provably fits
			if in, ok := p.Int(x.X, d+1); ok {
				if mn, ok1 := p.minOf(in); ok1 && mn >= 0 {
					if mx, ok2 := p.maxOf(in); ok2 && mx < int64(1)<<uintBits(x.Type()) {
						return in, true
					}
				}
			}
		}
	case *ssa.ChangeType:
		return p.Int(x.X, d+1)
	case *ssa.UnOp:
		if x.Op == token.MUL {
			if vals, ok := p.resolveLoad(x); ok {
				if l, ok := p.sameLin(vals, akInt, d); ok {
					return l, true
				}
			}
		}
	case *ssa.BinOp:
		// arithmetic on small unsigned types wraps: keep it opaque (atom with type range)
		if uintBits(x.Type()) > 0 && (x.Op == token.ADD || x.Op == token.SUB || x.Op == token.MUL) {
			break
		}
		switch x.Op {
		case token.ADD, token.SUB:
			a, ok1 := p.Int(x.X, d+1)
			b, ok2 := p.Int(x.Y, d+1)
			if ok1 && ok2 {
				s := int64(1)
				if x.Op == token.SUB {
					s = -1
				}
				return a.add(b, s), true
			}
		case token.MUL:
			a, ok1 := p.Int(x.X, d+1)
			b, ok2 := p.Int(x.Y, d+1)
			if ok1 && ok2 {
				if len(b.Coef) == 0 {
					return newILin().add(a, b.C), true
				}
				if len(a.Coef) == 0 {
					return newILin().add(b, a.C), true
				}
			}
		case token.AND:
			if k, ok := ConstInt(x.Y); ok {
				a := p.atom(akInt, x)
				if k >= 0 {
					p.setLo(a, 0)
					p.setHi(a, k)
				} else if m := -k - 1; m&(m+1) == 0 && !p.seenDef[x] {
					// x & ^m with m = 2^j-1: x-m <= r <= x, and r >= 0 when x >= 0
					p.seenDef[x] = true
					if in, ok := p.Int(x.X, d+1); ok {
						r := lin1(a)
						p.addDef(x, in.add(r, -1))
						f := r.add(in, -1)
						f.C += m
						p.addDef(x, f)
						if mn, ok := p.minOf(in); ok && mn >= 0 {
							p.setLo(a, 0)
						}
					}
				}
				return lin1(a), true
			}
		case token.AND_NOT:
			if m, ok := ConstInt(x.Y); ok && m >= 0 && m&(m+1) == 0 {
				a := p.atom(akInt, x)
				if !p.seenDef[x] {
					p.seenDef[x] = true
					if in, ok := p.Int(x.X, d+1); ok {
						r := lin1(a)
						p.addDef(x, in.add(r, -1))
						f := r.add(in, -1)
						f.C += m
						p.addDef(x, f)
						if mn, ok := p.minOf(in); ok && mn >= 0 {
							p.setLo(a, 0)
						}
					}
				}
				return lin1(a), true
			}
		case token.REM:
			if k, ok := ConstInt(x.Y); ok && k > 0 {
				a := p.atom(akInt, x)
				if uintBits(x.Type()) > 0 {
					p.setLo(a, 0)
					p.setHi(a, k-1)
				} else {
					p.setLo(a, -(k - 1))
					p.setHi(a, k-1)
				}
				return lin1(a), true
			}
		case token.SHR:
			if k, ok := ConstInt(x.Y); ok && k >= 0 && k < 62 {
				a := p.atom(akInt, x)
				if in, ok := p.Int(x.X, d+1); ok {
					if mn, ok := p.minOf(in); ok && mn >= 0 {
						p.setLo(a, 0)
						if mx, ok := p.maxOf(in); ok {
							p.setHi(a, mx>>uint(k))
						}
						p.floorDefs(x, a, in, int64(1)<<uint(k))
					}
				}
				return lin1(a), true
			}
		case token.QUO:
			// x / K for K > 0 and x >= 0: K*q <= x <= K*q + K - 1
			if k, ok := ConstInt(x.Y); ok && k > 0 && uintBits(x.Type()) == 0 {
				a := p.atom(akInt, x)
				if in, ok := p.Int(x.X, d+1); ok {
					if mn, ok := p.minOf(in); ok && mn >= 0 {
						p.setLo(a, mn/k)
						if mx, ok := p.maxOf(in); ok {
							p.setHi(a, mx/k)
						}
						p.floorDefs(x, a, in, k)
					}
				}
				return lin1(a), true
			}
		case token.SHL:
			// x << k = x * 2^k when the product provably fits
			if k, ok := ConstInt(x.Y); ok && k >= 0 && k < 62 && uintBits(x.Type()) == 0 {
				if in, ok := p.Int(x.X, d+1); ok {
					mn, ok1 := p.minOf(in)
					mx, ok2 := p.maxOf(in)
					if ok1 && ok2 && mn >= 0 && mx < int64(1)<<uint(62-k) {
						return newILin().add(in, int64(1)<<uint(k)), true
					}
				}
			}
		}
	case *ssa.Call:
		if b, ok := x.Call.Value.(*ssa.Builtin); ok {
			switch b.Name() {
			case "len":
				return p.Len(x.Call.Args[0], d+1)
			case "cap":
				return p.Cap(x.Call.Args[0], d+1)
			case "copy":
				a := p.atom(akInt, x)
				p.setLo(a, 0)
				if !p.seenDef[x] {
					p.seenDef[x] = true
					r := lin1(a)
					if dl, ok := p.Len(x.Call.Args[0], d+1); ok {
						p.addDef(x, dl.add(r, -1))
					}
					if sl, ok := p.Len(x.Call.Args[1], d+1); ok {
						p.addDef(x, sl.add(r, -1))
					}
				}
				return lin1(a), true
			case "min":
				a := p.atom(akInt, x)
				if !p.seenDef[x] {
					p.seenDef[x] = true
					r := lin1(a)
					allLo, have := int64(0), false
					for _, arg := range x.Call.Args {
						if al, ok := p.Int(arg, d+1); ok {
							p.addDef(x, al.add(r, -1))
							if mn, ok := p.minOf(al); ok {
								if !have || mn < allLo {
									allLo = mn
								}
								have = true
								continue
							}
						}
						have = false
						break
					}
					if have {
						p.setLo(a, allLo)
					}
				}
				return lin1(a), true
			}
		}
		if CalleeName(&x.Call) == "golang.org/x/sys/unix.CmsgSpace" {
			// trusted summary (linux/amd64): CmsgSpace(n) = 16 + align8(n)
			if in, ok := p.Int(x.Call.Args[0], d+1); ok {
				if len(in.Coef) == 0 && in.C >= 0 {
					return linK(16 + (in.C+7)&^7), true
				}
				a := p.atom(akInt, x)
				p.setLo(a, 16)
				if !p.seenDef[x] {
					p.seenDef[x] = true
					if mn, ok := p.minOf(in); ok && mn >= 0 {
						r := lin1(a)
						lo := r.add(in, -1)
						lo.C -= 16
						p.addDef(x, lo) // r - n - 16 >= 0
						hi := in.add(r, -1)
						hi.C += 23
						p.addDef(x, hi) // n + 23 - r >= 0
					}
				}
				return lin1(a), true
			}
			a := p.atom(akInt, x)
			p.setLo(a, 16)
			return lin1(a), true
		}
		if l, ok := p.callResult(x, 0, x, d); ok {
			return l, true
		}
	case *ssa.Extract:
		if c, ok := x.Tuple.(*ssa.Call); ok {
			if l, ok := p.callResult(c, x.Index, x, d); ok {
				return l, true
			}
		}
	}
	a := p.atom(akInt, v)
	if bits := uintBits(v.Type()); bits > 0 {
		p.setLo(a, 0)
		p.setHi(a, int64(1)<<bits-1)
	} else if b, ok := v.Type().Underlying().(*types.Basic); ok && b.Info()&types.IsUnsigned != 0 {
		p.setLo(a, 0)
	}
	if ph, ok := v.(*ssa.Phi); ok && p.Set.PhiLower != nil && !p.seenDef[v] {
		p.seenDef[v] = true
		if lo, ok := p.Set.PhiLower(p.Fn, ph); ok {
			p.setLo(a, lo)
		}
	}
	// unexported int field whose every store is provably non-negative
	if ref := p.atoms[a]; ref != nil && len(ref.fields) > 0 && !p.seenDef[v] {
		p.seenDef[v] = true
		if ld, ok := v.(*ssa.UnOp); ok && ld.Op == token.MUL {
			if fa, ok := ld.X.(*ssa.FieldAddr); ok {
				if fv := fieldVar(fa.X.Type(), fa.Field); fv != nil && p.Set.fieldNonNeg(fv) {
					p.setLo(a, 0)
				}
			}
		}
	}
	return lin1(a), true
}

// floorDefs records K*a <= in <= K*a + K - 1 for a = floor(in / K), in >= 0.
func (p *Prover) floorDefs(v ssa.Value, a string, in ILin, k int64) {
	if p.seenDef[v] {
		return
	}
	p.seenDef[v] = true
	r := newILin().add(lin1(a), k) // K*a
	p.addDef(v, in.add(r, -1))     // in - K*a >= 0
	up := r.add(in, -1)
	up.C += k - 1
	p.addDef(v, up) // K*a + K - 1 - in >= 0
}

// SetRange fixes trusted bounds of an integer value (e.g. the documented range
// of a library result) before it is used in linearisations.
func (p *Prover) SetRange(v ssa.Value, lo, hi int64, hasHi bool) string {
	a := p.atom(akInt, v)
	p.setLo(a, lo)
	if hasHi {
		p.setHi(a, hi)
	}
	return a
}

// DefFacts returns every definitional fact recorded so far (diagnostics and
// cross-function compositions; the caller is responsible for where they hold).
func (p *Prover) DefFacts() []ILin {
	var out []ILin
	for _, d := range p.defs {
		out = append(out, d.L)
	}
	return out
}

// BoundFacts renders the known bounds of the atoms of l as facts.
func (p *Prover) BoundFacts(ls ...ILin) []ILin {
	seen := map[string]bool{}
	var out []ILin
	for _, l := range ls {
		for a := range l.Coef {
			if seen[a] {
				continue
			}
			seen[a] = true
			if lo, ok := p.lo[a]; ok {
				f := lin1(a)
				f.C = -lo
				out = append(out, f)
			}
			if p.hasHi[a] {
				f := newILin()
				f.Coef[a] = -1
				f.C = p.hi[a]
				out = append(out, f)
			}
		}
	}
	return out
}

// Rename prefixes every atom of l.
func (l ILin) Rename(prefix string) ILin {
	out := newILin()
	out.C = l.C
	for a, c := range l.Coef {
		out.Coef[prefix+a] = c
	}
	return out
}

// ProveLinear decides facts => g >= 0 for integer-valued terms by refuting
// facts /\ g <= -1 over the rationals (Fourier-Motzkin). No prover state is used.
func ProveLinear(g ILin, facts []ILin) bool {
	var rows []lpRow
	for _, f := range facts {
		rows = append(rows, lpFromILin(f))
	}
	ng := newILin().add(g, -1)
	ng.C -= 1
	rows = append(rows, lpFromILin(ng))
	inf, ok := lpInfeasible(rows)
	return ok && inf
}

// NewLin builds a linear term from a constant and (atom, coefficient) pairs.
func NewLin(c int64, terms map[string]int64) ILin {
	l := newILin()
	l.C = c
	for a, k := range terms {
		if k != 0 {
			l.Coef[a] = k
		}
	}
	return l
}

// sameLin linearises all values and returns the common result when they agree.
func (p *Prover) sameLin(vals []ssa.Value, kind atomKind, d int) (ILin, bool) {
	var out ILin
	for i, v := range vals {
		var l ILin
		var ok bool
		if v == Zero {
			l, ok = linK(0), true
		} else {
			switch kind {
			case akInt:
				l, ok = p.Int(v, d+1)
			case akLen:
				l, ok = p.Len(v, d+1)
			case akCap:
				l, ok = p.Cap(v, d+1)
			}
		}
		if !ok {
			return ILin{}, false
		}
		if i == 0 {
			out = l
		} else if out.String() != l.String() {
			return ILin{}, false
		}
	}
	return out, len(vals) > 0
}

// Len linearises len(v).
func (p *Prover) Len(v ssa.Value, d int) (ILin, bool) {
	if d > 16 {
		return ILin{}, false
	}
	switch x := v.(type) {
	case *ssa.Slice:
		if x.High != nil {
			h, ok1 := p.Int(x.High, d+1)
			l := newILin()
			ok2 := true
			if x.Low != nil {
				l, ok2 = p.Int(x.Low, d+1)
			}
			if ok1 && ok2 {
				return h.add(l, -1), true
			}
		} else {
			base, ok1 := p.Len(x.X, d+1)
			l := newILin()
			ok2 := true
			if x.Low != nil {
				l, ok2 = p.Int(x.Low, d+1)
			}
			if ok1 && ok2 {
				return base.add(l, -1), true
			}
		}
	case *ssa.MakeSlice:
		return p.Int(x.Len, d+1)
	case *ssa.Const:
		l := newILin()
		if x.Value != nil {
			if s, err := strconv.Unquote(x.Value.ExactString()); err == nil {
				l.C = int64(len(s))
			}
		}
		return l, true
	case *ssa.ChangeType:
		return p.Len(x.X, d+1)
	case *ssa.Convert:
		return p.Len(x.X, d+1)
	case *ssa.UnOp:
		if x.Op == token.MUL {
			if vals, ok := p.resolveLoad(x); ok {
				if l, ok := p.sameLin(vals, akLen, d); ok {
					return l, true
				}
			}
		}
	case *ssa.Call:
		if b, ok := x.Call.Value.(*ssa.Builtin); ok && b.Name() == "append" && len(x.Call.Args) == 2 {
			// len(append(s, t...)) = len(s) + len(t)
			if _, isSlice := x.Call.Args[1].Type().Underlying().(*types.Slice); isSlice {
				a, ok1 := p.Len(x.Call.Args[0], d+1)
				b, ok2 := p.Len(x.Call.Args[1], d+1)
				if ok1 && ok2 {
					return a.add(b, 1), true
				}
			}
		}
	}
	t := v.Type()
	if pt, ok := t.Underlying().(*types.Pointer); ok {
		t = pt.Elem()
	}
	if at, ok := t.Underlying().(*types.Array); ok {
		return linK(at.Len()), true
	}
	return lin1(p.atom(akLen, v)), true
}

// Cap linearises cap(v).
func (p *Prover) Cap(v ssa.Value, d int) (ILin, bool) {
	if d > 16 {
		return ILin{}, false
	}
	switch x := v.(type) {
	case *ssa.Slice:
		if x.Max == nil {
			base, ok1 := p.Cap(x.X, d+1)
			l := newILin()
			ok2 := true
			if x.Low != nil {
				l, ok2 = p.Int(x.Low, d+1)
			}
			if ok1 && ok2 {
				return base.add(l, -1), true
			}
		}
	case *ssa.MakeSlice:
		return p.Int(x.Cap, d+1)
	case *ssa.ChangeType:
		return p.Cap(x.X, d+1)
	case *ssa.UnOp:
		if x.Op == token.MUL {
			if vals, ok := p.resolveLoad(x); ok {
				if l, ok := p.sameLin(vals, akCap, d); ok {
					return l, true
				}
			}
		}
	case *ssa.Call:
		if b, ok := x.Call.Value.(*ssa.Builtin); ok && b.Name() == "append" {
			// cap(append(s, ...)) >= cap(s)
			a := p.atom(akCap, v)
			if !p.seenDef[v] {
				p.seenDef[v] = true
				if c, ok := p.Cap(x.Call.Args[0], d+1); ok {
					p.addDef(v, lin1(a).add(c, -1))
				}
			}
			return lin1(a), true
		}
	}
	t := v.Type()
	if pt, ok := t.Underlying().(*types.Pointer); ok {
		t = pt.Elem()
	}
	if at, ok := t.Underlying().(*types.Array); ok {
		return linK(at.Len()), true
	}
	a := p.atom(akCap, v)
	// intrinsic: cap(x) >= len(x)
	if !p.seenDef[v] {
		p.seenDef[v] = true
		if l, ok := p.Len(v, d+1); ok {
			p.addDef(v, lin1(a).add(l, -1))
		}
	}
	return lin1(a), true
}

// ---- facts --------------------------------------------------------------------

func lastIfOf(b *ssa.BasicBlock) *ssa.If {
	if n := len(b.Instrs); n > 0 {
		if iff, ok := b.Instrs[n-1].(*ssa.If); ok {
			return iff
		}
	}
	return nil
}

// edgeFacts: the facts implied by taking the edge from b to its succ number si.
func (p *Prover) edgeFacts(b *ssa.BasicBlock, si int) []Fact {
	iff := lastIfOf(b)
	if iff == nil {
		return nil
	}
	var out []Fact
	for _, a := range Implied(iff.Cond, si == 0) {
		bo, ok := a.V.(*ssa.BinOp)
		if !ok {
			continue
		}
		for _, l := range p.cmpFacts(bo, a.Holds) {
			out = append(out, Fact{L: l, Origin: iff})
		}
		// err == nil for the error of a repo call: its success postconditions
		if (bo.Op == token.EQL || bo.Op == token.NEQ) && (bo.Op == token.EQL) == a.Holds {
			ev := bo.X
			if IsNilConst(ev) {
				ev = bo.Y
			} else if !IsNilConst(bo.Y) {
				continue
			}
			if u := UniqueReaching(p.Fn, ev); u != nil {
				ev = u
			}
			var call *ssa.Call
			switch x := ev.(type) {
			case *ssa.Call:
				call = x
			case *ssa.Extract:
				call, _ = x.Tuple.(*ssa.Call)
			}
			if call != nil {
				out = append(out, p.successFacts(call)...)
				for _, cf := range p.conds {
					if cf.call == call && cf.success && len(cf.pre) == 0 {
						out = append(out, Fact{L: cf.L, Origin: call})
					}
				}
			}
		}
	}
	return out
}

// successFacts: the heap postconditions of a repo call that returned a nil error.
func (p *Prover) successFacts(x *ssa.Call) []Fact {
	callee := x.Call.StaticCallee()
	if callee == nil || callee.Blocks == nil {
		return nil
	}
	sum := p.Set.Summary(callee)
	if sum == nil {
		return nil
	}
	var out []Fact
	for _, hp := range sum.HeapPost {
		if l, ok := p.argLin(hp, callee, x.Call.Args, "", 0); ok {
			out = append(out, Fact{L: l, Origin: x})
		}
	}
	return out
}

// rawFacts collects facts from dominating branch edges and from earlier
// operations in dominating positions.
func (p *Prover) rawFacts(at ssa.Instruction) []Fact {
	var facts []Fact
	blk := at.Block()
	for _, b := range p.Fn.Blocks {
		if lastIfOf(b) == nil {
			continue
		}
		for si, s := range b.Succs {
			if !(len(s.Preds) == 1 && (s == blk || s.Dominates(blk))) {
				continue
			}
			facts = append(facts, p.edgeFacts(b, si)...)
		}
	}
	for _, b := range p.Fn.Blocks {
		if !(b == blk || b.Dominates(blk)) {
			continue
		}
		for _, in := range b.Instrs {
			if in == at {
				break
			}
			add := func(l ILin) { facts = append(facts, Fact{L: l, Origin: in}) }
			switch x := in.(type) {
			case *ssa.Call:
				// E-SUM: n, oobn of a datagram read are within the buffers handed in
				switch CalleeName(&x.Call) {
				case "(*net.UDPConn).ReadMsgUDPAddrPort":
					for _, pr := range [][2]int{{0, 1}, {1, 2}} {
						for _, ref := range Referrers(x) {
							if e, ok := ref.(*ssa.Extract); ok && e.Index == pr[0] {
								n, _ := p.Int(e, 0)
								if l, ok := p.Len(x.Call.Args[pr[1]], 0); ok {
									add(l.add(n, -1))
									add(n)
								}
							}
						}
					}
				default:
					var ev ssa.Value = p.errExtract(x)
					if ev == nil && x.Call.Signature().Results().Len() == 1 {
						ev = x
					}
					if ev == nil || !provenNil(ev, blk) {
						break
					}
					facts = append(facts, p.successFacts(x)...)
				case "(*net.UDPConn).ReadFrom":
					for _, ref := range Referrers(x) {
						if e, ok := ref.(*ssa.Extract); ok && e.Index == 0 {
							n, _ := p.Int(e, 0)
							if l, ok := p.Len(x.Call.Args[1], 0); ok {
								add(l.add(n, -1))
								add(n)
							}
						}
					}
				}
			case *ssa.IndexAddr:
				if i, ok := p.Int(x.Index, 0); ok {
					if l, ok := p.Len(x.X, 0); ok {
						f := l.add(i, -1)
						f.C -= 1
						add(f)
					}
				}
			case *ssa.Slice:
				if _, isStr := x.X.Type().Underlying().(*types.Basic); isStr {
					continue
				}
				var hiL ILin
				var okH bool
				if x.High != nil {
					hiL, okH = p.Int(x.High, 0)
					if c, ok := p.Cap(x.X, 0); ok && okH {
						add(c.add(hiL, -1))
					}
				} else {
					hiL, okH = p.Len(x.X, 0)
				}
				if x.Low != nil && okH {
					if lo, ok := p.Int(x.Low, 0); ok {
						add(hiL.add(lo, -1))
						add(lo)
					}
				}
			}
		}
	}
	return facts
}

// GuardFacts returns the usable facts at `at` (stability-filtered), including
// definitional facts.
func (p *Prover) GuardFacts(at ssa.Instruction) []ILin {
	fs := p.rawFacts(at)
	fs = append(fs, p.defsAt(at)...)
	return p.usable(fs, at)
}

func (p *Prover) usable(fs []Fact, at ssa.Instruction) []ILin {
	var out []ILin
	for _, f := range fs {
		if f.Origin == nil || p.stable(f, at) {
			out = append(out, f.L)
		}
	}
	return out
}

// ---- heap stability -----------------------------------------------------------

var pureLibPrefixes = []string{"log/slog", "(*log/slog", "(log/slog", "time.", "(time.", "(*time.", "errors.", "fmt.", "encoding/binary", "(encoding/binary", "bytes.", "crypto/subtle.", "math.", "strings.", "strconv.", "(context.", "context.", "(*sync/atomic", "sync/atomic.", "(net/netip", "net/netip.", "(github.com/prometheus/client_golang/prometheus.Counter)", "(github.com/prometheus/client_golang/prometheus.Gauge)", "crypto/rand.", "(hash", "(crypto/cipher", "(*github.com/miscreant", "github.com/miscreant", "golang.org/x/sys/unix.Cmsg", "github.com/scionproto/scion/pkg/spao.ComputeAuthCMAC"}

func pureLibCall(name string) bool {
	for _, pre := range pureLibPrefixes {
		if strings.HasPrefix(name, pre) {
			return true
		}
	}
	return false
}

func isRepoField(fv *types.Var) bool {
	return fv.Pkg() != nil && strings.HasPrefix(fv.Pkg().Path(), ModPath)
}

// mayStoreOf: the struct fields fn may store to, directly or through callees with bodies.
func (ps *ProverSet) mayStoreOf(fn *ssa.Function) map[*types.Var]bool {
	if ps.mayStore == nil {
		ps.mayStore = map[*ssa.Function]map[*types.Var]bool{}
		direct := map[*ssa.Function]map[*types.Var]bool{}
		callees := map[*ssa.Function][]*ssa.Function{}
		libcall := map[*ssa.Function]bool{}
		for _, f := range ps.Funcs {
			d := map[*types.Var]bool{}
			Instrs(f, func(in ssa.Instruction) {
				switch x := in.(type) {
				case *ssa.Store:
					if fa, ok := x.Addr.(*ssa.FieldAddr); ok {
						if fv := fieldVar(fa.X.Type(), fa.Field); fv != nil && !ps.selfRestore(f, x) {
							d[fv] = true
						}
					}
				case *ssa.MakeClosure:
					if cf, ok := x.Fn.(*ssa.Function); ok {
						callees[f] = append(callees[f], cf)
					}
				case ssa.CallInstruction:
					c := x.Common()
					if sc := c.StaticCallee(); sc != nil {
						if sc.Blocks != nil {
							callees[f] = append(callees[f], sc)
						} else if !pureLibCall(CalleeName(c)) {
							libcall[f] = true
						}
					} else if c.IsInvoke() {
						for _, m := range ps.byName[c.Method.Name()] {
							callees[f] = append(callees[f], m)
						}
						if !pureLibCall(CalleeName(c)) {
							libcall[f] = true
						}
					} else if _, isB := c.Value.(*ssa.Builtin); !isB {
						libcall[f] = true
					}
				}
			})
			direct[f] = d
		}
		for _, f := range ps.Funcs {
			s := map[*types.Var]bool{}
			seen := map[*ssa.Function]bool{}
			var rec func(g *ssa.Function)
			rec = func(g *ssa.Function) {
				if seen[g] {
					return
				}
				seen[g] = true
				for k := range direct[g] {
					s[k] = true
				}
				if libcall[g] {
					s[nil] = true // marker: may run library code that writes library-declared fields
				}
				for _, c := range callees[g] {
					rec(c)
				}
			}
			rec(f)
			ps.mayStore[f] = s
		}
	}
	return ps.mayStore[fn]
}

// holdersOf: the values through which code can reach the object the path is
// rooted at: everything derived from the root pointer, and everything derived
// from the operands of the call that produced it.
func (p *Prover) holdersOf(root ssa.Value) map[ssa.Value]bool {
	if p.holders == nil {
		p.holders = map[ssa.Value]map[ssa.Value]bool{}
	}
	if h, ok := p.holders[root]; ok {
		return h
	}
	h := map[ssa.Value]bool{}
	p.holders[root] = h
	addAll := func(v ssa.Value) {
		for k := range p.allocEscapes(v).derived {
			h[k] = true
		}
	}
	addAll(root)
	var call *ssa.Call
	switch x := root.(type) {
	case *ssa.Call:
		call = x
	case *ssa.Extract:
		call, _ = x.Tuple.(*ssa.Call)
	}
	if call != nil {
		ops := append([]ssa.Value{}, call.Call.Args...)
		if call.Call.IsInvoke() {
			ops = append(ops, call.Call.Value)
		}
		for _, op := range ops {
			if hasPointers(op.Type()) {
				addAll(rootValue(op))
			}
		}
	}
	return h
}

// selfRestore: st writes back to x.f the value loaded from the same x.f, and is
// the only store to that field in fn (the field keeps its value).
func (ps *ProverSet) selfRestore(fn *ssa.Function, st *ssa.Store) bool {
	fa, ok := st.Addr.(*ssa.FieldAddr)
	if !ok {
		return false
	}
	ld, ok := st.Val.(*ssa.UnOp)
	if !ok || ld.Op != token.MUL {
		return false
	}
	fa2, ok := ld.X.(*ssa.FieldAddr)
	if !ok || fa2.Field != fa.Field || fieldVar(fa2.X.Type(), fa2.Field) != fieldVar(fa.X.Type(), fa.Field) {
		return false
	}
	pf := ps.For(fn)
	var f1, f2 []*types.Var
	var l1, l2 []localDep
	if pf.path(fa.X, &f1, &l1, 0) != pf.path(fa2.X, &f2, &l2, 0) {
		return false
	}
	fv := fieldVar(fa.X.Type(), fa.Field)
	n := 0
	Instrs(fn, func(in ssa.Instruction) {
		if s2, ok := in.(*ssa.Store); ok {
			if fa3, ok := s2.Addr.(*ssa.FieldAddr); ok && fieldVar(fa3.X.Type(), fa3.Field) == fv {
				n++
			}
		}
	})
	return n == 1
}

// kills: instruction in may change the heap field fv of an object reachable
// through holders. Repo-declared fields are written only by repo code (looked
// up in the callees' may-store sets); library-declared fields may also be
// written by library code, but only code that is handed a holder.
func (p *Prover) kills(in ssa.Instruction, fv *types.Var, holders map[ssa.Value]bool) bool {
	switch x := in.(type) {
	case *ssa.Store:
		if fa, ok := x.Addr.(*ssa.FieldAddr); ok {
			return fieldVar(fa.X.Type(), fa.Field) == fv && !p.Set.selfRestore(p.Fn, x)
		}
		if pt, ok := x.Addr.Type().Underlying().(*types.Pointer); ok {
			if st, ok := pt.Elem().Underlying().(*types.Struct); ok {
				for i := 0; i < st.NumFields(); i++ {
					if st.Field(i) == fv {
						return true
					}
				}
			}
		}
		return false
	case ssa.CallInstruction:
		c := x.Common()
		if _, isB := c.Value.(*ssa.Builtin); isB {
			return false
		}
		handed := holders[c.Value]
		for _, a := range c.Args {
			if holders[a] {
				handed = true
			}
		}
		lib := func() bool { return handed && !isRepoField(fv) && !pureLibCall(CalleeName(c)) }
		if sc := c.StaticCallee(); sc != nil {
			if sc.Blocks == nil {
				return lib()
			}
			ms := p.Set.mayStoreOf(sc)
			return ms[fv] || (handed && ms[nil] && !isRepoField(fv))
		}
		if c.IsInvoke() {
			for _, m := range p.Set.byName[c.Method.Name()] {
				ms := p.Set.mayStoreOf(m)
				if ms[fv] || (handed && ms[nil] && !isRepoField(fv)) {
					return true
				}
			}
			return lib()
		}
		// dynamic call of a function value
		return handed || isRepoField(fv)
	}
	return false
}

func (p *Prover) blockReach() [][]bool {
	if p.reach != nil {
		return p.reach
	}
	n := len(p.Fn.Blocks)
	r := make([][]bool, n)
	for i := range r {
		r[i] = make([]bool, n)
		// r[i][j]: j reachable from i by at least one edge
		var stack []*ssa.BasicBlock
		stack = append(stack, p.Fn.Blocks[i].Succs...)
		for len(stack) > 0 {
			b := stack[len(stack)-1]
			stack = stack[:len(stack)-1]
			if r[i][b.Index] {
				continue
			}
			r[i][b.Index] = true
			stack = append(stack, b.Succs...)
		}
	}
	p.reach = r
	return r
}

// after: instruction b can execute after instruction a.
func (p *Prover) after(a, b ssa.Instruction) bool {
	ba, bb := a.Block(), b.Block()
	if ba == bb && indexOf(ba, a) < indexOf(bb, b) {
		return true
	}
	return p.blockReach()[ba.Index][bb.Index]
}

// betweenSet: the instructions that can execute after origin and before at
// on a path that does not pass through origin again.
func (p *Prover) betweenSet(origin, at ssa.Instruction) map[ssa.Instruction]bool {
	if p.between == nil {
		p.between = map[[2]ssa.Instruction]map[ssa.Instruction]bool{}
	}
	key := [2]ssa.Instruction{origin, at}
	if s, ok := p.between[key]; ok {
		return s
	}
	// forward from origin, not crossing origin
	fwd := map[ssa.Instruction]bool{}
	var scan func(b *ssa.BasicBlock, from int, seen map[*ssa.BasicBlock]bool)
	scan = func(b *ssa.BasicBlock, from int, seen map[*ssa.BasicBlock]bool) {
		for i := from; i < len(b.Instrs); i++ {
			in := b.Instrs[i]
			if in == origin {
				return
			}
			fwd[in] = true
		}
		for _, s := range b.Succs {
			if !seen[s] {
				seen[s] = true
				scan(s, 0, seen)
			}
		}
	}
	ob := origin.Block()
	scan(ob, indexOf(ob, origin)+1, map[*ssa.BasicBlock]bool{})
	// backward from at, not crossing origin
	bwd := map[ssa.Instruction]bool{}
	var back func(b *ssa.BasicBlock, from int, seen map[*ssa.BasicBlock]bool)
	back = func(b *ssa.BasicBlock, from int, seen map[*ssa.BasicBlock]bool) {
		for i := from; i >= 0; i-- {
			in := b.Instrs[i]
			if in == origin {
				return
			}
			bwd[in] = true
		}
		for _, pr := range b.Preds {
			if !seen[pr] {
				seen[pr] = true
				back(pr, len(pr.Instrs)-1, seen)
			}
		}
	}
	ab := at.Block()
	back(ab, indexOf(ab, at)-1, map[*ssa.BasicBlock]bool{})
	res := map[ssa.Instruction]bool{}
	for in := range fwd {
		if bwd[in] {
			res[in] = true
		}
	}
	p.between[key] = res
	return res
}

func (p *Prover) stable(f Fact, at ssa.Instruction) bool {
	return p.stableOver(f, func() map[ssa.Instruction]bool { return p.betweenSet(f.Origin, at) })
}

// stableInBlock: nothing the term mentions can change between the start of at's block and at.
func (p *Prover) stableInBlock(l ILin, at ssa.Instruction) bool {
	return p.stableOver(Fact{L: l}, func() map[ssa.Instruction]bool {
		set := map[ssa.Instruction]bool{}
		for _, in := range at.Block().Instrs {
			if in == at {
				break
			}
			set[in] = true
		}
		return set
	})
}

func (p *Prover) stableOver(f Fact, between func() map[ssa.Instruction]bool) bool {
	var bs map[ssa.Instruction]bool
	for a := range f.L.Coef {
		ref := p.atoms[a]
		if ref == nil || (len(ref.fields) == 0 && len(ref.locals) == 0) {
			continue
		}
		if bs == nil {
			bs = between()
		}
		var holders map[ssa.Value]bool
		if len(ref.fields) > 0 {
			holders = p.holdersOf(rootValue(ref.v))
		}
		for in := range bs {
			switch x := in.(type) {
			case *ssa.Store:
				for _, fv := range ref.fields {
					if p.kills(in, fv, holders) {
						return false
					}
				}
				r2, fp2 := locOf(x.Addr)
				for _, ld := range ref.locals {
					if r2 == ssa.Value(ld.a) && (strings.HasPrefix(ld.fp, fp2) || strings.HasPrefix(fp2, ld.fp)) {
						return false
					}
				}
			case ssa.CallInstruction:
				for _, fv := range ref.fields {
					if p.kills(in, fv, holders) {
						if DebugStable {
							fmt.Printf("UNSTABLE %s: %s killed by %v (heap field %s)\n", a, f.L.String(), in, fv.Name())
						}
						return false
					}
				}
				for _, ld := range ref.locals {
					if p.callMayWriteLocal(in, ld.a) {
						if DebugStable {
							fmt.Printf("UNSTABLE %s: %s killed by %v (leaked=%v)\n", a, f.L.String(), in, p.allocEscapes(ld.a).leaked)
						}
						return false
					}
				}
			}
		}
	}
	return true
}

// ---- comparison facts ----------------------------------------------------------

func (p *Prover) cmpFacts(bo *ssa.BinOp, holds bool) []ILin {
	op := bo.Op
	switch op {
	case token.EQL, token.NEQ, token.LSS, token.LEQ, token.GTR, token.GEQ:
	default:
		return nil
	}
	if !holds {
		op = NegOp(op)
	}
	b, isBasic := bo.X.Type().Underlying().(*types.Basic)
	if !isBasic || b.Info()&types.IsInteger == 0 {
		return nil
	}
	x, ok1 := p.Int(bo.X, 0)
	y, ok2 := p.Int(bo.Y, 0)
	if !ok1 || !ok2 {
		return nil
	}
	d := x.add(y, -1) // x - y
	switch op {
	case token.GEQ:
		return []ILin{d}
	case token.GTR:
		d.C -= 1
		return []ILin{d}
	case token.LEQ:
		return []ILin{newILin().add(d, -1)}
	case token.LSS:
		n := newILin().add(d, -1)
		n.C -= 1
		return []ILin{n}
	case token.EQL:
		return []ILin{d, newILin().add(d, -1)}
	case token.NEQ:
		if m, ok := p.minOf(d); ok && m >= 0 {
			n := d.clone()
			n.C -= 1
			return []ILin{n}
		}
		nd := newILin().add(d, -1)
		if m, ok := p.minOf(nd); ok && m >= 0 {
			nd.C -= 1
			return []ILin{nd}
		}
	}
	return nil
}

// ---- proving -------------------------------------------------------------------

func (p *Prover) minOf(g ILin) (int64, bool) {
	m := g.C
	for a, c := range g.Coef {
		if c > 0 {
			lo, ok := p.lo[a]
			if !ok {
				return 0, false
			}
			m += c * lo
		} else if c < 0 {
			if !p.hasHi[a] {
				return 0, false
			}
			m += c * p.hi[a]
		}
	}
	return m, true
}

func (p *Prover) maxOf(g ILin) (int64, bool) {
	m, ok := p.minOf(newILin().add(g, -1))
	return -m, ok
}

// Prove tries to show g >= 0 from the given facts, the definitional facts and atom bounds.
func (p *Prover) Prove(g ILin, facts []ILin) bool {
	all := append([]ILin{}, facts...)
	for _, d := range p.defs {
		if d.at == nil {
			all = append(all, d.L)
		}
	}
	memo := map[string]bool{}
	if p.prove(g, all, 0, memo) {
		return true
	}
	// complete (rational) procedure for small systems
	return p.lpProve(g, all)
}

func (p *Prover) prove(g ILin, facts []ILin, depth int, memo map[string]bool) bool {
	if m, ok := p.minOf(g); ok && m >= 0 {
		return true
	}
	if depth >= 5 {
		return false
	}
	key := strconv.Itoa(depth) + "|" + g.String()
	if v, ok := memo[key]; ok {
		return v
	}
	memo[key] = false
	for _, f := range facts {
		share := false
		for a, c := range f.Coef {
			if gc, ok := g.Coef[a]; ok && (gc < 0) == (c < 0) {
				share = true
			}
		}
		if !share {
			continue
		}
		for _, lam := range []int64{1, 2} {
			rest := g.add(f, -lam)
			if p.prove(rest, facts, depth+1, memo) {
				memo[key] = true
				return true
			}
		}
	}
	return false
}

// ProveAt shows g >= 0 at instruction `at`, using guard facts, function
// summaries of called repo functions, and case splits over phis.
func (p *Prover) ProveAt(g ILin, at ssa.Instruction) bool {
	return p.proveAt(g, at, nil, true, 0)
}

// ProveAtWith is ProveAt with extra hypotheses (facts in this function's atoms).
func (p *Prover) ProveAtWith(g ILin, at ssa.Instruction, hyp []ILin) bool {
	return p.proveAt(g, at, hyp, true, 0)
}

func (p *Prover) proveAt(g ILin, at ssa.Instruction, hyp []ILin, useAt bool, depth int) bool {
	var facts []ILin
	if useAt {
		facts = p.GuardFacts(at)
	}
	facts = append(facts, hyp...)
	return p.proveFrom(g, facts, at, hyp, depth)
}

func (p *Prover) proveFrom(g ILin, facts []ILin, at ssa.Instruction, hyp []ILin, depth int) bool {
	if p.Prove(g, facts) {
		return true
	}
	if depth >= 4 {
		return false
	}
	// summary facts of repo calls whose results occur in the goal or the facts
	if extra := p.condFactsFor(g, facts, at, hyp, depth); len(extra) > 0 {
		facts = append(append([]ILin{}, facts...), extra...)
		if p.Prove(g, facts) {
			p.Set.NSummary++
			return true
		}
	}
	// case split over a phi in the goal
	var names []string
	for a := range g.Coef {
		names = append(names, a)
	}
	sort.Strings(names)
	for _, a := range names {
		ref := p.atoms[a]
		if ref == nil {
			continue
		}
		ph, ok := ref.v.(*ssa.Phi)
		if !ok {
			continue
		}
		if p.splitPhi(g, a, ref.kind, ph, facts, hyp, depth) {
			p.Set.NSplit++
			return true
		}
	}
	// case split over the result of a repo call that occurs in the goal or the facts
	seen := map[string]bool{}
	var cands []string
	note := func(l ILin) {
		for a := range l.Coef {
			if !seen[a] {
				seen[a] = true
				if p.callCases[a] != nil {
					cands = append(cands, a)
				}
			}
		}
	}
	note(g)
	for _, f := range facts {
		note(f)
	}
	sort.Strings(cands)
	for _, a := range cands {
		if p.splitCall(g, a, facts, at, hyp, depth) {
			p.Set.NSplit++
			return true
		}
	}
	// a field of a struct copied out of the heap: prove the goal where the copy was made
	for _, a := range names {
		ha, ld, ok := p.rebase(a)
		if !ok || depth >= 3 {
			continue
		}
		fine := true
		for other := range g.Coef {
			if other == a {
				continue
			}
			ref := p.atoms[other]
			if ref == nil {
				continue
			}
			if in, isIn := rootValue(ref.v).(ssa.Instruction); isIn {
				if !(in.Block() == ld.Block() && indexOf(in.Block(), in) < indexOf(ld.Block(), ld)) && !(in.Block() != ld.Block() && in.Block().Dominates(ld.Block())) {
					fine = false
				}
			}
		}
		if !fine {
			continue
		}
		sub := g.clone()
		c := sub.Coef[a]
		delete(sub.Coef, a)
		sub = sub.add(lin1(ha), c)
		if p.proveAt(sub, ld, hyp, true, depth+1) {
			p.Set.NSplit++
			return true
		}
	}
	// case split over the predecessors of a merge block: the goal held when the
	// merge was entered and nothing it mentions changed since
	if b := at.Block(); len(b.Preds) >= 2 && depth < 3 {
		ok := true
		if DebugStable {
			fmt.Printf("MERGE-SPLIT %s at %v goal %s\n", p.Fn.Name(), at, g.String())
		}
		for a := range g.Coef {
			ref := p.atoms[a]
			if ref == nil {
				continue
			}
			if in, isIn := rootValue(ref.v).(ssa.Instruction); isIn && in.Block() == b {
				ok = false
			}
		}
		for i := 0; ok && i < len(b.Preds); i++ {
			pred := b.Preds[i]
			term := pred.Instrs[len(pred.Instrs)-1]
			if !p.stableInBlock(g, at) {
				ok = false
				break
			}
			fs := p.GuardFacts(term)
			cnt := 0
			for _, s2 := range pred.Succs {
				if s2 == b {
					cnt++
				}
			}
			if cnt == 1 {
				for si, sb := range pred.Succs {
					if sb == b {
						fs = append(fs, p.usable(p.edgeFacts(pred, si), term)...)
					}
				}
			}
			fs = append(fs, hyp...)
			if !p.proveFrom(g, fs, term, hyp, depth+1) {
				if DebugStable {
					fmt.Printf("  pred %d fails; facts:\n", pred.Index)
					for _, f := range fs {
						fmt.Printf("    %s\n", f.String())
					}
				}
				ok = false
			}
		}
		if ok {
			p.Set.NSplit++
			return true
		}
	}
	return false
}

type callCase struct {
	call  *ssa.Call
	cases []RetCase // already in this function's atoms
}

// splitCall proves g under each possible value of call result atom a; a case
// whose selecting conditions contradict the facts at `at` is skipped.
func (p *Prover) splitCall(g ILin, a string, facts []ILin, at ssa.Instruction, hyp []ILin, depth int) bool {
	cc := p.callCases[a]
	for _, cs := range cc.cases {
		refuted := false
		var gs []ILin
		for _, gd := range cs.Guards {
			// the guard was evaluated at the call; it must still describe the state at `at`
			if !p.stable(Fact{L: gd, Origin: cc.call}, at) {
				continue
			}
			neg := newILin().add(gd, -1)
			neg.C -= 1
			if p.Prove(neg, facts) {
				refuted = true
				break
			}
			gs = append(gs, gd)
		}
		if refuted {
			continue
		}
		r := lin1(a)
		fs := append(append([]ILin{}, facts...), gs...)
		fs = append(fs, r.add(cs.Val, -1), cs.Val.add(r, -1))
		if !p.Prove(g, fs) {
			return false
		}
	}
	return true
}

func (p *Prover) invariantFor(a string, ph *ssa.Phi) bool {
	ref := p.atoms[a]
	if ref == nil {
		return false
	}
	switch x := rootValue(ref.v).(type) {
	case *ssa.Parameter, *ssa.Const, *ssa.Global, *ssa.FreeVar:
		return true
	case ssa.Instruction:
		b := x.Block()
		return b != ph.Block() && b.Dominates(ph.Block())
	}
	return false
}

func (p *Prover) splitPhi(g ILin, a string, kind atomKind, ph *ssa.Phi, facts []ILin, hyp []ILin, depth int) bool {
	coef := g.Coef[a]
	rest := g.clone()
	delete(rest.Coef, a)
	for i, e := range ph.Edges {
		pred := ph.Block().Preds[i]
		var el ILin
		var ok bool
		switch kind {
		case akInt:
			el, ok = p.Int(e, 0)
		case akLen:
			el, ok = p.Len(e, 0)
		case akCap:
			el, ok = p.Cap(e, 0)
		}
		if !ok {
			return false
		}
		if _, self := el.Coef[a]; self && len(el.Coef) == 1 && el.C == 0 {
			continue // the phi itself
		}
		sub := rest.add(el, coef)
		term := pred.Instrs[len(pred.Instrs)-1]
		// the edge's own branch fact
		var edge []ILin
		for si, s := range pred.Succs {
			if s == ph.Block() {
				// only when this is the unique edge from pred to the phi block
				cnt := 0
				for _, s2 := range pred.Succs {
					if s2 == s {
						cnt++
					}
				}
				if cnt == 1 {
					edge = p.usable(p.edgeFacts(pred, si), term)
				}
			}
		}
		back := ph.Block().Dominates(pred)
		if back {
			for other := range rest.Coef {
				if !p.invariantFor(other, ph) {
					return false
				}
			}
			h := append(append([]ILin{}, hyp...), g)
			fs := append(p.GuardFacts(term), edge...)
			fs = append(fs, h...)
			if !p.proveFrom(sub, fs, term, h, depth+1) {
				return false
			}
		} else {
			fs := append(append([]ILin{}, facts...), p.GuardFacts(term)...)
			fs = append(fs, edge...)
			if !p.proveFrom(sub, fs, term, hyp, depth+1) {
				return false
			}
		}
	}
	return true
}

// ---- function summaries ---------------------------------------------------------

// PostFact: L >= 0 over the atoms "ret" and the callee's parameter atoms.
type PostFact struct {
	Res     int
	L       ILin
	Success bool   // holds only on returns whose error result is nil
	Pre     []ILin // assumed non-negative parameters (callee atoms)
}

// FnSummary describes integer results of a repo function.
type FnSummary struct {
	Exact      map[int]ILin // result index -> the same linear expression over parameter atoms at every return
	Post       []PostFact
	StructPost []StructPost
	HeapPost   []ILin            // facts over parameter-rooted heap paths that hold at every return with a nil error
	Cases      map[int][]RetCase // result index -> the values the result can take, each with the conditions under which it is chosen
}

// StructPost: len(result.Suffix) >= Min at every return (with a nil error when Success).
type StructPost struct {
	Res     int
	Suffix  string
	Min     int64
	Success bool
}

// RetCase: under Guards (facts over parameter-rooted atoms that hold whenever
// this case is taken) the result equals Val (over parameter atoms).
type RetCase struct {
	Val    ILin
	Guards []ILin
}

func isIntType(t types.Type) bool {
	b, ok := t.Underlying().(*types.Basic)
	return ok && b.Info()&types.IsInteger != 0
}

func returnsOf(fn *ssa.Function) []*ssa.Return {
	var out []*ssa.Return
	dead := DeadBlocks(fn)
	for _, b := range fn.Blocks {
		if fn.Recover != nil && b == fn.Recover {
			continue
		}
		if dead[b] {
			continue
		}
		if n := len(b.Instrs); n > 0 {
			if r, ok := b.Instrs[n-1].(*ssa.Return); ok {
				out = append(out, r)
			}
		}
	}
	return out
}

// paramAtomsOnly: every atom of l is a parameter, len(parameter) or cap(parameter).
func paramAtomsOnly(l ILin, fn *ssa.Function) bool {
	for a := range l.Coef {
		ok := false
		for _, prm := range fn.Params {
			if a == prm.Name() || a == "len("+prm.Name()+")" || a == "cap("+prm.Name()+")" {
				ok = true
			}
		}
		if !ok {
			return false
		}
	}
	return true
}

// Summary computes (once) the summary of fn.
func (ps *ProverSet) Summary(fn *ssa.Function) *FnSummary {
	if s, ok := ps.sums[fn]; ok {
		return s
	}
	if fn.Blocks == nil || ps.busy[fn] {
		return nil
	}
	ps.busy[fn] = true
	defer func() { ps.busy[fn] = false }()
	sum := &FnSummary{Exact: map[int]ILin{}}
	pf := ps.For(fn)
	rets := returnsOf(fn)
	class := map[*ssa.Return]string{}
	for _, ri := range ClassifyReturns(fn) {
		class[ri.Ret] = ri.Class
	}
	res := fn.Signature.Results()
	var intParams, sliceParams []*ssa.Parameter
	for _, prm := range fn.Params {
		if isIntType(prm.Type()) {
			intParams = append(intParams, prm)
		} else if _, ok := prm.Type().Underlying().(*types.Slice); ok {
			sliceParams = append(sliceParams, prm)
		}
	}
	var pre []ILin
	for _, ip := range intParams {
		if uintBits(ip.Type()) == 0 {
			pre = append(pre, lin1(ip.Name()))
		}
	}
	for i := 0; i < res.Len() && len(rets) > 0; i++ {
		if !isIntType(res.At(i).Type()) {
			continue
		}
		ls := make([]ILin, len(rets))
		okAll := true
		for k, r := range rets {
			l, ok := pf.Int(r.Results[i], 0)
			if !ok {
				okAll = false
				break
			}
			ls[k] = l
		}
		if !okAll {
			continue
		}
		same := true
		for k := range ls {
			if ls[k].String() != ls[0].String() {
				same = false
			}
		}
		if same && paramAtomsOnly(ls[0], fn) {
			sum.Exact[i] = ls[0]
			continue
		}
		if cs := pf.retCases(rets, i); len(cs) > 1 {
			if sum.Cases == nil {
				sum.Cases = map[int][]RetCase{}
			}
			sum.Cases[i] = cs
		}
		var templates []ILin
		templates = append(templates, lin1("ret"))
		for _, ip := range intParams {
			templates = append(templates, lin1("ret").add(lin1(ip.Name()), -1))
		}
		for _, sp := range sliceParams {
			templates = append(templates, lin1("len("+sp.Name()+")").add(lin1("ret"), -1))
		}
		// constant bounds
		for _, t := range templates {
			for _, successOnly := range []bool{false, true} {
				if successOnly && len(class) == 0 {
					continue
				}
				needPre := false
				ok := true
				n := 0
				for k, r := range rets {
					if successOnly && class[r] == "failure" {
						continue
					}
					n++
					goal := newILin()
					goal.C = t.C
					for a, c := range t.Coef {
						if a == "ret" {
							goal = goal.add(ls[k], c)
						} else {
							goal = goal.add(lin1(a), c)
						}
					}
					if pf.proveAt(goal, r, nil, true, 1) {
						continue
					}
					if len(pre) > 0 && pf.proveAt(goal, r, pre, true, 1) {
						needPre = true
						continue
					}
					ok = false
					break
				}
				if ok && n > 0 {
					pfact := PostFact{Res: i, L: t, Success: successOnly}
					if needPre {
						pfact.Pre = pre
					}
					sum.Post = append(sum.Post, pfact)
					break
				}
			}
		}
	}
	// slice fields of struct results
	for i := 0; i < res.Len() && len(rets) > 0; i++ {
		st, ok := res.At(i).Type().Underlying().(*types.Struct)
		if !ok {
			continue
		}
		for j := 0; j < st.NumFields(); j++ {
			if _, isSlice := st.Field(j).Type().Underlying().(*types.Slice); !isSlice {
				continue
			}
			suffix := "." + st.Field(j).Name()
			okAll, n := true, 0
			for _, r := range rets {
				if class[r] == "failure" {
					continue
				}
				n++
				v := r.Results[i]
				if _, isC := v.(*ssa.Const); isC {
					okAll = false
					break
				}
				var fs []*types.Var
				var ls []localDep
				name := "len(" + pf.path(v, &fs, &ls, 0) + suffix + ")"
				if pf.atoms[name] == nil {
					pf.atoms[name] = &atomRef{kind: akLen, v: v, fields: fs, locals: ls, imported: true}
					pf.setLo(name, 0)
				}
				goal := lin1(name)
				goal.C = -1
				if !pf.proveAt(goal, r, nil, true, 1) {
					okAll = false
					break
				}
			}
			if okAll && n > 0 {
				sum.StructPost = append(sum.StructPost, StructPost{Res: i, Suffix: suffix, Min: 1, Success: len(class) > 0})
			}
		}
	}
	// heap postconditions on success
	if len(class) > 0 {
		var succ []*ssa.Return
		for _, r := range rets {
			if class[r] != "failure" {
				succ = append(succ, r)
			}
		}
		if len(succ) > 0 {
			seenC := map[string]bool{}
			for _, cand := range pf.GuardFacts(succ[0]) {
				if len(cand.Coef) == 0 || !pf.paramRooted(cand) || seenC[cand.String()] {
					continue
				}
				seenC[cand.String()] = true
				heap := false
				for a := range cand.Coef {
					if pf.HasFields(a) {
						heap = true
					}
				}
				if !heap {
					continue
				}
				all := true
				for _, r := range succ[1:] {
					if !pf.proveAt(cand, r, nil, true, 2) {
						all = false
						break
					}
				}
				if all {
					sum.HeapPost = append(sum.HeapPost, cand)
				}
			}
		}
	}
	ps.sums[fn] = sum
	return sum
}

// paramRooted: every atom of l is a parameter atom or a heap path rooted at a parameter.
func (p *Prover) paramRooted(l ILin) bool {
	for a := range l.Coef {
		inner := a
		for _, w := range []string{"len(", "cap("} {
			if strings.HasPrefix(a, w) && strings.HasSuffix(a, ")") {
				inner = a[len(w) : len(a)-1]
			}
		}
		root := inner
		if i := strings.IndexAny(inner, ".&"); i > 0 {
			root = inner[:i]
		}
		ok := false
		for _, prm := range p.Fn.Params {
			if prm.Name() == root {
				ok = true
			}
		}
		if !ok {
			return false
		}
		if ref := p.atoms[a]; ref != nil && len(ref.locals) > 0 {
			return false
		}
	}
	return true
}

// retCases enumerates the values of result i over all returns and, for a
// returned phi, over its incoming edges, with the branch facts that select each.
func (p *Prover) retCases(rets []*ssa.Return, i int) []RetCase {
	var out []RetCase
	add := func(v ssa.Value, at ssa.Instruction, extra []ILin) bool {
		l, ok := p.Int(v, 0)
		if !ok || !paramAtomsOnly(l, p.Fn) {
			return false
		}
		var gs []ILin
		for _, g := range append(p.usable(p.rawFacts(at), at), extra...) {
			if len(g.Coef) > 0 && p.paramRooted(g) {
				gs = append(gs, g)
			}
		}
		out = append(out, RetCase{Val: l, Guards: gs})
		return true
	}
	for _, r := range rets {
		v := r.Results[i]
		if ph, ok := v.(*ssa.Phi); ok && ph.Block() == r.Block() {
			for ei, e := range ph.Edges {
				pred := ph.Block().Preds[ei]
				term := pred.Instrs[len(pred.Instrs)-1]
				var edge []ILin
				for si, sb := range pred.Succs {
					if sb == ph.Block() {
						cnt := 0
						for _, s2 := range pred.Succs {
							if s2 == sb {
								cnt++
							}
						}
						if cnt == 1 {
							edge = p.usable(p.edgeFacts(pred, si), term)
						}
					}
				}
				if !add(e, term, edge) {
					return nil
				}
			}
			continue
		}
		if !add(v, r, nil) {
			return nil
		}
	}
	if len(out) > 8 {
		return nil
	}
	return out
}

// argLin substitutes the callee's parameter atoms in l by the call's arguments
// (linearised in the caller p). ret is the caller atom for the result.
func (p *Prover) argLin(l ILin, callee *ssa.Function, args []ssa.Value, ret string, d int) (ILin, bool) {
	out := linK(l.C)
	for a, c := range l.Coef {
		if a == "ret" {
			out = out.add(lin1(ret), c)
			continue
		}
		found := false
		if na, ok := p.importPathAtom(a, callee, args); ok {
			out = out.add(lin1(na), c)
			continue
		}
		for i, prm := range callee.Params {
			if i >= len(args) {
				break
			}
			var t ILin
			var ok bool
			switch a {
			case prm.Name():
				t, ok = p.Int(args[i], d+1)
			case "len(" + prm.Name() + ")":
				t, ok = p.Len(args[i], d+1)
			case "cap(" + prm.Name() + ")":
				t, ok = p.Cap(args[i], d+1)
			default:
				continue
			}
			if !ok {
				return out, false
			}
			out = out.add(t, c)
			found = true
			break
		}
		if !found {
			return out, false
		}
	}
	return out, true
}

// ArgLin rewrites a linear term over the callee's parameter atoms (including
// heap paths rooted at parameters) into this function's atoms at a call.
func (p *Prover) ArgLin(l ILin, callee *ssa.Function, args []ssa.Value) (ILin, bool) {
	return p.argLin(l, callee, args, "", 0)
}

// importPathAtom maps a callee heap-path atom rooted at a parameter
// ("len(authOpt.OptData)") to the caller's atom for the same location.
func (p *Prover) importPathAtom(a string, callee *ssa.Function, args []ssa.Value) (string, bool) {
	inner, pre, suf := a, "", ""
	for _, w := range []string{"len(", "cap("} {
		if strings.HasPrefix(a, w) && strings.HasSuffix(a, ")") {
			inner, pre, suf = a[len(w):len(a)-1], w, ")"
		}
	}
	dot := strings.IndexByte(inner, '.')
	if dot <= 0 {
		return "", false
	}
	root, rest := inner[:dot], inner[dot:]
	cref := p.Set.For(callee).atoms[a]
	if cref == nil {
		return "", false
	}
	for i, prm := range callee.Params {
		if prm.Name() != root || i >= len(args) {
			continue
		}
		var fields []*types.Var
		var locals []localDep
		base := p.path(args[i], &fields, &locals, 0)
		na := pre + base + rest + suf
		if p.atoms[na] == nil {
			p.atoms[na] = &atomRef{kind: cref.kind, v: args[i], fields: append(fields, cref.fields...), locals: locals, imported: true}
		}
		p.applyOwnedLen(na)
		p.applyStructPost(na)
		cp := p.Set.For(callee)
		if lo, ok := cp.lo[a]; ok {
			p.setLo(na, lo)
		}
		if cp.hasHi[a] {
			p.setHi(na, cp.hi[a])
		}
		return na, true
	}
	return "", false
}

// RootOf returns the SSA value at the root of an atom's path (a parameter,
// global, or the register the path starts from).
func (p *Prover) RootOf(a string) ssa.Value {
	ref := p.atoms[a]
	if ref == nil {
		return nil
	}
	return rootValue(ref.v)
}

func rootValue(root ssa.Value) ssa.Value {
	for i := 0; i < 24; i++ {
		switch x := root.(type) {
		case *ssa.UnOp:
			if x.Op == token.MUL {
				root = x.X
				continue
			}
		case *ssa.FieldAddr:
			root = x.X
			continue
		case *ssa.Field:
			root = x.X
			continue
		case *ssa.ChangeType:
			root = x.X
			continue
		case *ssa.Phi:
			if _, isPtr := x.Type().Underlying().(*types.Pointer); isPtr {
				var src ssa.Value
				n := 0
				for _, e := range x.Edges {
					if IsNilConst(e) || e == ssa.Value(x) {
						continue
					}
					if src == nil || src != e {
						src = e
						n++
					}
				}
				if n == 1 {
					root = src
					continue
				}
			}
		}
		break
	}
	return root
}

// HasFields reports whether atom a is a heap path (loads through struct fields).
func (p *Prover) HasFields(a string) bool {
	ref := p.atoms[a]
	return ref != nil && len(ref.fields) > 0
}

// StableBetween: no store to the heap fields of the atoms of l can run between origin and at.
func (p *Prover) StableBetween(l ILin, origin, at ssa.Instruction) bool {
	return p.stable(Fact{L: l, Origin: origin}, at)
}

// OppositeEdgeFacts: the facts that hold when the branch at the end of b does
// NOT take successor si (nil when the condition is not a single integer comparison).
func (p *Prover) OppositeEdgeFacts(b *ssa.BasicBlock, si int) []ILin {
	iff := lastIfOf(b)
	if iff == nil || len(b.Succs) != 2 {
		return nil
	}
	cond, pos := StripNot(iff.Cond)
	neg := !pos
	bo, ok := cond.(*ssa.BinOp)
	if !ok {
		return nil
	}
	// taking succ si means cond == (si == 0) (xor neg); the opposite edge has the other value
	holds := !(si == 0)
	if neg {
		holds = !holds
	}
	return p.cmpFacts(bo, holds)
}

// EdgeProves: the facts of taking edge (b, si) alone establish g >= 0.
func (p *Prover) EdgeProves(b *ssa.BasicBlock, si int, g ILin) bool {
	fs := p.edgeFacts(b, si)
	if len(fs) == 0 {
		return false
	}
	var ls []ILin
	for _, f := range fs {
		ls = append(ls, f.L)
	}
	ls = append(ls, p.usable(p.defsAt(lastIfOf(b)), lastIfOf(b))...)
	return p.Prove(g, ls)
}

// callResult linearises result idx of a call to a repo function through its summary.
func (p *Prover) callResult(c *ssa.Call, idx int, v ssa.Value, d int) (ILin, bool) {
	callee := c.Call.StaticCallee()
	if callee == nil || callee.Blocks == nil || !isIntType(v.Type()) {
		return ILin{}, false
	}
	sum := p.Set.Summary(callee)
	if sum == nil {
		return ILin{}, false
	}
	if ex, ok := sum.Exact[idx]; ok {
		if l, ok := p.argLin(ex, callee, c.Call.Args, "", d); ok {
			return l, true
		}
	}
	a := p.atom(akInt, v)
	if !p.seenDef[v] {
		p.seenDef[v] = true
		if cs := sum.Cases[idx]; len(cs) > 0 {
			var mine []RetCase
			okAll := true
			for _, c0 := range cs {
				val, ok := p.argLin(c0.Val, callee, c.Call.Args, a, d)
				if !ok {
					okAll = false
					break
				}
				rc := RetCase{Val: val}
				for _, g0 := range c0.Guards {
					if gl, ok := p.argLin(g0, callee, c.Call.Args, a, d); ok {
						rc.Guards = append(rc.Guards, gl)
					}
				}
				mine = append(mine, rc)
			}
			if okAll {
				if p.callCases == nil {
					p.callCases = map[string]*callCase{}
				}
				p.callCases[a] = &callCase{call: c, cases: mine}
			}
		}
		for _, pf := range sum.Post {
			if pf.Res != idx {
				continue
			}
			l, ok := p.argLin(pf.L, callee, c.Call.Args, a, d)
			if !ok {
				continue
			}
			cf := condFact{L: l, call: c, success: pf.Success}
			bad := false
			for _, pr := range pf.Pre {
				pl, ok := p.argLin(pr, callee, c.Call.Args, a, d)
				if !ok {
					bad = true
					break
				}
				cf.pre = append(cf.pre, pl)
			}
			if !bad {
				p.conds = append(p.conds, cf)
			}
		}
	}
	return lin1(a), true
}

func (p *Prover) errExtract(c *ssa.Call) ssa.Value {
	res := c.Call.Signature().Results()
	if res.Len() < 2 {
		return nil
	}
	for _, r := range Referrers(c) {
		if e, ok := r.(*ssa.Extract); ok && e.Index == res.Len()-1 {
			return e
		}
	}
	return nil
}

// condFactsFor returns the summary facts applicable at `at`.
func (p *Prover) condFactsFor(g ILin, facts []ILin, at ssa.Instruction, hyp []ILin, depth int) []ILin {
	var out []ILin
	for _, cf := range p.conds {
		if !instrDominates(cf.call, at) {
			continue // a postcondition of a call that has not returned yet
		}
		if cf.success {
			ev := p.errExtract(cf.call)
			if ev == nil || !provenNil(ev, at.Block()) {
				continue
			}
		}
		ok := true
		for _, pr := range cf.pre {
			if !p.proveAt(pr, cf.call, hyp, true, depth+1) {
				ok = false
				break
			}
		}
		if ok {
			out = append(out, cf.L)
		}
	}
	return out
}

// ---- field invariants ------------------------------------------------------------

// fieldNonNeg: fv is an unexported integer field of a repo struct, and every
// store to it anywhere in the program stores a provably non-negative value
// (the zero value and struct copies preserve the invariant).
func (ps *ProverSet) fieldNonNeg(fv *types.Var) bool {
	switch ps.fieldLo[fv] {
	case 2:
		return true
	case 1, 3:
		return false
	}
	if fv.Exported() || !isRepoField(fv) || !isIntType(fv.Type()) {
		ps.fieldLo[fv] = 3
		return false
	}
	ps.fieldLo[fv] = 1
	ok := true
	n := 0
	for _, f := range ps.Funcs {
		if !ok {
			break
		}
		Instrs(f, func(in ssa.Instruction) {
			st, isSt := in.(*ssa.Store)
			if !isSt || !ok {
				return
			}
			fa, isFA := st.Addr.(*ssa.FieldAddr)
			if !isFA || fieldVar(fa.X.Type(), fa.Field) != fv {
				return
			}
			n++
			pf := ps.For(f)
			l, lok := pf.Int(st.Val, 0)
			if !lok || !pf.ProveAt(l, st) {
				ok = false
			}
		})
	}
	if ok {
		ps.fieldLo[fv] = 2
		ps.NFieldInv++
	} else {
		ps.fieldLo[fv] = 3
	}
	return ok
}

// ownedLen: f1 is an unexported pointer field of a repo struct that only ever
// receives freshly allocated objects whose slice field f2 is initialised right
// away to make([]T, K); every other store to f2 in the repo either targets an
// object allocated in the storing function that is not handed to an f1 field,
// or re-stores the object's own slice. Library code that is handed the object
// is trusted not to shorten f2. Then len(x.f1.f2) >= K wherever x.f1 != nil.
func (ps *ProverSet) ownedLen(f1, f2 *types.Var) (int64, bool) {
	key := [2]*types.Var{f1, f2}
	if ps.owned == nil {
		ps.owned = map[[2]*types.Var]int64{}
	}
	if k, ok := ps.owned[key]; ok {
		return k, k >= 0
	}
	ps.owned[key] = -1
	if f1.Exported() || !isRepoField(f1) {
		return 0, false
	}
	if _, isPtr := f1.Type().Underlying().(*types.Pointer); !isPtr {
		return 0, false
	}
	best := int64(-1)
	most := int64(-1)
	ok := true
	for _, fn := range ps.Funcs {
		if !ok {
			break
		}
		pf := ps.For(fn)
		for _, b := range fn.Blocks {
			for i, in := range b.Instrs {
				st, isSt := in.(*ssa.Store)
				if !isSt {
					continue
				}
				fa, isFA := st.Addr.(*ssa.FieldAddr)
				if !isFA {
					continue
				}
				switch fieldVar(fa.X.Type(), fa.Field) {
				case f1:
					if IsNilConst(st.Val) {
						continue
					}
					al, isAlloc := st.Val.(*ssa.Alloc)
					if !isAlloc {
						ok = false
						continue
					}
					var fs []*types.Var
					var ls []localDep
					ownerPath := pf.path(fa, &fs, &ls, 0)
					found := false
					for _, in2 := range b.Instrs[i+1:] {
						if c, isCall := in2.(ssa.CallInstruction); isCall {
							if _, isB := c.Common().Value.(*ssa.Builtin); !isB {
								break
							}
						}
						st2, isSt2 := in2.(*ssa.Store)
						if !isSt2 {
							continue
						}
						fa2, isFA2 := st2.Addr.(*ssa.FieldAddr)
						if !isFA2 || fieldVar(fa2.X.Type(), fa2.Field) != f2 {
							continue
						}
						var fs2 []*types.Var
						var ls2 []localDep
						if fa2.X != ssa.Value(al) && pf.path(fa2.X, &fs2, &ls2, 0) != ownerPath {
							continue
						}
						kl, lok := pf.Len(st2.Val, 0)
						if !lok || len(kl.Coef) != 0 {
							break
						}
						k := kl.C
						if best < 0 || k < best {
							best = k
						}
						if k > most {
							most = k
						}
						found = true
						break
					}
					if !found {
						ok = false
					}
				case f2:
					root := rootValue(fa.X)
					if al, isAlloc := root.(*ssa.Alloc); isAlloc {
						if pt, isPtr := al.Type().Underlying().(*types.Pointer); isPtr {
							if st, isStruct := pt.Elem().Underlying().(*types.Struct); isStruct {
								owns := false
								for j := 0; j < st.NumFields(); j++ {
									if st.Field(j) == f2 {
										owns = true
									}
								}
								handed := false
								for _, r := range Referrers(al) {
									if s2, isS := r.(*ssa.Store); isS && s2.Val == ssa.Value(al) {
										if fa3, isF := s2.Addr.(*ssa.FieldAddr); isF && fieldVar(fa3.X.Type(), fa3.Field) == f1 {
											handed = true
										}
									}
								}
								if owns && !handed {
									continue // an object of this function's own, never given to an f1 field
								}
								if owns && handed {
									continue // initialisation, checked at the f1 store
								}
							}
						}
					}
					// initialisation through the owner path right after the f1 store is checked there
					if kl, lok := pf.Len(st.Val, 0); lok && len(kl.Coef) == 0 {
						var fs []*types.Var
						var ls []localDep
						bp := pf.path(fa.X, &fs, &ls, 0)
						if len(fs) > 0 && fs[len(fs)-1] == f1 {
							_ = bp
							continue
						}
					}
					// re-store of the object's own slice
					l, lok := pf.Len(st.Val, 0)
					var fs []*types.Var
					var ls []localDep
					self := "len(" + pf.path(fa.X, &fs, &ls, 0) + "." + f2.Name() + ")"
					if lok && l.C == 0 && len(l.Coef) == 1 && l.Coef[self] == 1 {
						continue
					}
					ok = false
				}
			}
		}
	}
	if !ok || best < 0 {
		return 0, false
	}
	ps.owned[key] = best
	if ps.ownedExact == nil {
		ps.ownedExact = map[[2]*types.Var]bool{}
	}
	ps.ownedExact[key] = best == most
	ps.NFieldInv++
	return best, true
}

// Describe renders the prover's view of an atom (for diagnostics).
func (p *Prover) Describe(a string) string {
	lo, hasLo := p.lo[a]
	s := a
	if hasLo {
		s += fmt.Sprintf(" >= %d", lo)
	}
	if p.hasHi[a] {
		s += fmt.Sprintf(" <= %d", p.hi[a])
	}
	return s
}

// DumpSummary renders a function summary (diagnostics).
func (ps *ProverSet) DumpSummary(fn *ssa.Function) string {
	s := ps.Summary(fn)
	if s == nil {
		return "<nil>"
	}
	var sb strings.Builder
	for i, e := range s.Exact {
		fmt.Fprintf(&sb, "exact[%d]=%s; ", i, e.String())
	}
	for _, p := range s.Post {
		fmt.Fprintf(&sb, "post[%d] %s success=%v pre=%d; ", p.Res, p.L.String(), p.Success, len(p.Pre))
	}
	for _, h := range s.HeapPost {
		fmt.Fprintf(&sb, "heap %s; ", h.String())
	}
	for _, sp := range s.StructPost {
		fmt.Fprintf(&sb, "struct[%d]%s>=%d success=%v; ", sp.Res, sp.Suffix, sp.Min, sp.Success)
	}
	for i, cs := range s.Cases {
		fmt.Fprintf(&sb, "cases[%d]=%d; ", i, len(cs))
	}
	return sb.String()
}

// InstrDominates: a executes before b on every path to b (a != b).
func InstrDominates(a, b ssa.Instruction) bool { return instrDominates(a, b) }
