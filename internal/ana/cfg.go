package ana

import (
	"fmt"
	"go/constant"
	"go/token"
	"go/types"
	"sort"
	"strings"

	"golang.org/x/tools/go/ssa"
)

// Edge identifies the Succ-th outgoing edge of block From.
type Edge struct {
	From *ssa.BasicBlock
	Succ int
}

func (e Edge) To() *ssa.BasicBlock { return e.From.Succs[e.Succ] }

// Search is a path query over the SSA control-flow graph of one function with
// a small amount of path sensitivity (E-CFG, DESIGN §2.1):
//   - phi nodes that receive constants remember the constant along the path
//     (this makes the `&&` / `||` lowering and boolean flags such as
//     `authenticated`, `addedCookie`, `interleavedResp` precise);
//   - loads of the same never-stored field path ("condition classes", e.g.
//     c.Auth.Enabled) take the same branch everywhere along a path.
type Search struct {
	Fn *ssa.Function
	// Cut reports edges that must not be taken (accept edges of the gate under test).
	Cut func(e Edge) bool
	// Stop reports instructions at which a path ends without reaching the target
	// (barriers, e.g. the next read of the loop).
	Stop func(in ssa.Instruction) bool
	// Target reports the instructions the query tries to reach.
	Target func(in ssa.Instruction) bool
	// TargetEdge / StopEdge: as Target / Stop, for control-flow edges (e.g. the edge on which a
	// phi takes a particular value).
	TargetEdge func(e Edge) bool
	StopEdge   func(e Edge) bool
	// Assume holds initial facts (condition-class key or phi) for the start state.
	Assume map[string]string
	// NoFacts disables path sensitivity.
	NoFacts bool
	// Via, when set, arms the query only after an edge satisfying it has been
	// taken: Target, Stop and Cut are ignored before that. The search then
	// starts at the function entry (or start) and carries the facts learned on
	// the way to the Via edge.
	Via func(e Edge) bool
	// ArmAt, when set, arms the query when this instruction has been executed (the search then
	// starts at the function entry and carries the facts learned on the way, also around loops).
	ArmAt ssa.Instruction

	classes map[string]bool // access paths that are condition classes in Fn
	prog    *Prog
	relCmp  map[string]bool   // comparison keys tested more than once in Fn
	relPhi  map[*ssa.Phi]bool // phis whose value can decide a later branch

	viaFallback bool
	startBlock  *ssa.BasicBlock // runAt: start at the head of this block
}

// computeRelevance restricts the facts a path carries to those that can decide
// a later branch: comparisons whose canonical form occurs at least twice among
// branch conditions / boolean phi inputs, and phis that (transitively) feed a
// branch condition. This keeps the state space small.
func (s *Search) computeRelevance() {
	s.relCmp = map[string]bool{}
	s.relPhi = map[*ssa.Phi]bool{}
	count := map[string]int{}
	var noteCond func(v ssa.Value, d int)
	noteCond = func(v ssa.Value, d int) {
		if d > 8 {
			return
		}
		switch x := v.(type) {
		case *ssa.UnOp:
			if x.Op == token.NOT {
				noteCond(x.X, d+1)
			}
		case *ssa.BinOp:
			if k, _ := cmpKey(x); k != "" {
				count[k]++
			}
			if p, ok := x.X.(*ssa.Phi); ok {
				if _, isC := symConstAny(x.Y); isC {
					s.markPhi(p, 0)
				}
			}
			if p, ok := x.Y.(*ssa.Phi); ok {
				if _, isC := symConstAny(x.X); isC {
					s.markPhi(p, 0)
				}
			}
		case *ssa.Phi:
			s.markPhi(x, 0)
		}
	}
	for _, b := range s.Fn.Blocks {
		for _, in := range b.Instrs {
			switch x := in.(type) {
			case *ssa.If:
				noteCond(x.Cond, 0)
			}
		}
	}
	// boolean phi inputs that are comparisons count as occurrences too
	for p := range s.relPhi {
		for _, e := range p.Edges {
			noteCond(e, 1)
		}
	}
	for k, n := range count {
		if n >= 2 {
			s.relCmp[k] = true
		}
	}
}

func (s *Search) markPhi(p *ssa.Phi, d int) {
	if s.relPhi[p] || d > 8 {
		return
	}
	s.relPhi[p] = true
	for _, e := range p.Edges {
		if q, ok := e.(*ssa.Phi); ok {
			s.markPhi(q, d+1)
		}
		if u, ok := e.(*ssa.UnOp); ok && u.Op == token.NOT {
			if q, ok := u.X.(*ssa.Phi); ok {
				s.markPhi(q, d+1)
			}
		}
	}
}

type state struct {
	b     *ssa.BasicBlock
	idx   int
	facts map[string]string
	prev  *state
	armed bool
}

func factsKey(f map[string]string) string {
	if len(f) == 0 {
		return ""
	}
	ks := make([]string, 0, len(f))
	for k := range f {
		ks = append(ks, k)
	}
	sort.Strings(ks)
	var sb strings.Builder
	for _, k := range ks {
		sb.WriteString(k)
		sb.WriteByte('=')
		sb.WriteString(f[k])
		sb.WriteByte(';')
	}
	return sb.String()
}

func phiKey(p *ssa.Phi) string { return fmt.Sprintf("phi:%s@%d", p.Name(), p.Block().Index) }

func constStr(c *ssa.Const) string {
	if c.Value == nil {
		return "nil"
	}
	return c.Value.ExactString()
}

// symConst: values that compare like constants on a path: nil, boolean and integer constants, and
// loads of sentinel error variables (unexported package-level variables of type error that are
// stored only by their package's initialiser).
func symConst(v ssa.Value) (string, bool) {
	switch x := v.(type) {
	case *ssa.Const:
		if x.Value == nil || x.Value.Kind() == constant.Bool || x.Value.Kind() == constant.Int {
			return constStr(x), true
		}
	case *ssa.UnOp:
		if g, ok := x.X.(*ssa.Global); ok && x.Op == token.MUL && isSentinel(g) {
			return "sentinel:" + g.Pkg.Pkg.Path() + "." + g.Name(), true
		}
	}
	return "", false
}

// symConstAny: as symConst, and any other constant by its exact value.
func symConstAny(v ssa.Value) (string, bool) {
	if s, ok := symConst(v); ok {
		return s, true
	}
	if c, ok := v.(*ssa.Const); ok {
		return constStr(c), true
	}
	return "", false
}

var sentinelMemo = map[*ssa.Global]bool{}

func isSentinel(g *ssa.Global) bool {
	if v, ok := sentinelMemo[g]; ok {
		return v
	}
	res := false
	defer func() { sentinelMemo[g] = res }()
	pt, ok := g.Type().(*types.Pointer)
	if !ok || pt.Elem().String() != "error" || g.Pkg == nil || token.IsExported(g.Name()) {
		return false
	}
	var fns []*ssa.Function
	var add func(f *ssa.Function)
	add = func(f *ssa.Function) {
		fns = append(fns, f)
		for _, a := range f.AnonFuncs {
			add(a)
		}
	}
	for _, m := range g.Pkg.Members {
		switch y := m.(type) {
		case *ssa.Function:
			add(y)
		case *ssa.Type:
			for _, t := range []types.Type{y.Type(), types.NewPointer(y.Type())} {
				ms := g.Pkg.Prog.MethodSets.MethodSet(t)
				for i := 0; i < ms.Len(); i++ {
					if f := g.Pkg.Prog.MethodValue(ms.At(i)); f != nil && f.Pkg == g.Pkg {
						add(f)
					}
				}
			}
		}
	}
	stores := 0
	for _, f := range fns {
		for _, b := range f.Blocks {
			for _, in := range b.Instrs {
				for _, op := range in.Operands(nil) {
					if op == nil || *op != ssa.Value(g) {
						continue
					}
					switch y := in.(type) {
					case *ssa.Store:
						if y.Addr == ssa.Value(g) && f.Name() == "init" && f.Parent() == nil {
							stores++
							continue
						}
						return false
					case *ssa.UnOp:
						if y.Op == token.MUL {
							continue
						}
						return false
					default:
						return false // address escapes
					}
				}
			}
		}
	}
	res = stores == 1
	return res
}

// condClasses computes the field paths of Fn that are only loaded, never
// stored, in Fn (and whose root is a parameter or free variable).
func condClasses(fn *ssa.Function) map[string]bool {
	stored := map[string]bool{}
	loaded := map[string]bool{}
	Instrs(fn, func(in ssa.Instruction) {
		switch x := in.(type) {
		case *ssa.Store:
			if fa, ok := x.Addr.(*ssa.FieldAddr); ok {
				if p := AccessPath(fa); p != "" {
					stored[p] = true
				}
			}
		case *ssa.UnOp:
			if x.Op == token.MUL {
				if fa, ok := x.X.(*ssa.FieldAddr); ok {
					if rootIsParam(fa) {
						if p := AccessPath(fa); p != "" {
							loaded[p] = true
						}
					}
				}
			}
		}
	})
	out := map[string]bool{}
	for p := range loaded {
		ok := true
		for s := range stored {
			if s == p || strings.HasPrefix(p, s+".") || strings.HasPrefix(s, p+".") {
				ok = false
			}
		}
		if ok {
			out[p] = true
		}
	}
	return out
}

func rootIsParam(v ssa.Value) bool {
	for i := 0; i < 24; i++ {
		switch x := v.(type) {
		case *ssa.FieldAddr:
			v = x.X
		case *ssa.UnOp:
			v = x.X
		case *ssa.Parameter, *ssa.FreeVar:
			return true
		case *ssa.Alloc:
			// a parameter spilled to the heap because a closure captures it:
			// exactly one store, of the parameter itself
			n, ok := 0, false
			for _, ref := range Referrers(x) {
				if st, isSt := ref.(*ssa.Store); isSt && st.Addr == ssa.Value(x) {
					n++
					_, ok = st.Val.(*ssa.Parameter)
				}
			}
			return n == 1 && ok
		default:
			return false
		}
	}
	return false
}

// classKey returns the condition-class key of a loaded value, or "".
func (s *Search) classKey(v ssa.Value) string {
	u, ok := v.(*ssa.UnOp)
	if !ok || u.Op != token.MUL {
		return ""
	}
	fa, ok := u.X.(*ssa.FieldAddr)
	if !ok {
		return ""
	}
	p := AccessPath(fa)
	if p != "" && s.classes[p] {
		return "fld:" + p
	}
	return ""
}

// canonOperand renders an operand of a comparison so that two evaluations of
// the same expression (same SSA values, or loads of the same field of the same
// base value) get the same text. Every SSA value name is wrapped in [] so that
// facts can be invalidated when the value is redefined along a path.
func canonOperand(v ssa.Value) string {
	switch x := v.(type) {
	case *ssa.Const:
		return "k:" + constStr(x)
	case *ssa.Parameter:
		return "p:" + x.Name()
	case *ssa.UnOp:
		if x.Op == token.MUL {
			switch a := x.X.(type) {
			case *ssa.FieldAddr:
				base := canonOperand(a.X)
				if base == "" {
					return ""
				}
				return "ld(" + base + "." + fieldName(a.X.Type(), a.Field) + ")"
			case *ssa.Parameter:
				return "ld(p:" + a.Name() + ".*)"
			}
		}
		return ""
	case *ssa.Convert:
		return canonOperand(x.X)
	case *ssa.ChangeType:
		return canonOperand(x.X)
	}
	if v.Name() != "" {
		return "[" + v.Name() + "]"
	}
	return ""
}

// cmpKey returns the canonical fact key of a comparison and whether the
// comparison's truth equals the fact's truth (pos) or its negation.
func cmpKey(b *ssa.BinOp) (key string, pos bool) {
	x, y := canonOperand(b.X), canonOperand(b.Y)
	if x == "" || y == "" {
		return "", false
	}
	op := b.Op
	pos = true
	switch op {
	case token.NEQ:
		op, pos = token.EQL, false
	case token.GEQ:
		op, pos = token.LSS, false
	case token.LEQ:
		op, pos = token.GTR, false
	case token.EQL, token.LSS, token.GTR:
	default:
		return "", false
	}
	if op == token.EQL && y < x {
		x, y = y, x
	}
	return "cmp:" + op.String() + "(" + x + "," + y + ")", pos
}

// invalidate drops comparison facts that mention a redefined value or a
// possibly overwritten field.
func invalidate(facts map[string]string, in ssa.Instruction) map[string]string {
	var drop func(k string) bool
	switch x := in.(type) {
	case *ssa.Store:
		fld := ""
		if fa, ok := x.Addr.(*ssa.FieldAddr); ok {
			fld = "." + fieldName(fa.X.Type(), fa.Field) + ")"
		} else if _, ok := x.Addr.(*ssa.Parameter); ok {
			fld = ".*)"
		} else {
			return facts
		}
		drop = func(k string) bool { return strings.Contains(k, fld) }
	case ssa.CallInstruction:
		name := ""
		if v, ok := in.(ssa.Value); ok {
			name = "[" + v.Name() + "]"
		}
		drop = func(k string) bool { return strings.Contains(k, "ld(") || (name != "" && strings.Contains(k, name)) }
	default:
		v, ok := in.(ssa.Value)
		if !ok || v.Name() == "" {
			return facts
		}
		name := "[" + v.Name() + "]"
		drop = func(k string) bool { return strings.Contains(k, name) }
	}
	var nf map[string]string
	for k := range facts {
		if strings.HasPrefix(k, "cmp:") && drop(k) {
			if nf == nil {
				nf = copyFacts(facts)
			}
			delete(nf, k)
		}
	}
	if nf != nil {
		return nf
	}
	return facts
}

// eval evaluates a boolean condition under the facts of a path.
func (s *Search) eval(v ssa.Value, facts map[string]string) (val, known bool) {
	if b, ok := ConstBool(v); ok {
		return b, true
	}
	switch x := v.(type) {
	case *ssa.UnOp:
		if x.Op == token.NOT {
			b, k := s.eval(x.X, facts)
			return !b, k
		}
		if k := s.classKey(x); k != "" {
			if f, ok := facts[k]; ok {
				return f == "true", true
			}
		}
	case *ssa.Phi:
		if f, ok := facts[phiKey(x)]; ok && (f == "true" || f == "false") {
			return f == "true", true
		}
	case *ssa.BinOp:
		if k, pos := cmpKey(x); k != "" {
			if f, ok := facts[k]; ok {
				return (f == "true") == pos, true
			}
		}
		if x.Op == token.EQL || x.Op == token.NEQ {
			// two constants (e.g. an error variable that is nil on every path to the test)
			if cl, ok := x.X.(*ssa.Const); ok {
				if cr, ok := x.Y.(*ssa.Const); ok && types.Identical(cl.Type(), cr.Type()) {
					eq := constStr(cl) == constStr(cr)
					return eq == (x.Op == token.EQL), true
				}
			}
			l, r := x.X, x.Y
			if _, ok := symConstAny(l); ok {
				l, r = r, l
			}
			if cs, ok := symConstAny(r); ok {
				var fv string
				var have bool
				if p, ok := l.(*ssa.Phi); ok {
					fv, have = facts[phiKey(p)]
				} else if k := s.classKey(l); k != "" {
					fv, have = facts[k]
				}
				if have && !strings.HasPrefix(fv, "!") {
					eq := fv == cs
					if x.Op == token.NEQ {
						eq = !eq
					}
					return eq, true
				}
				if have && strings.HasPrefix(fv, "!") && fv[1:] == cs {
					// known to differ from c
					return x.Op == token.NEQ, true
				}
			}
		}
	}
	return false, false
}

// learn records what taking an edge with cond == val teaches.
func (s *Search) learn(v ssa.Value, val bool, facts map[string]string) {
	switch x := v.(type) {
	case *ssa.UnOp:
		if x.Op == token.NOT {
			s.learn(x.X, !val, facts)
			return
		}
		if k := s.classKey(x); k != "" {
			facts[k] = fmt.Sprint(val)
		}
	case *ssa.Phi:
		if s.relPhi[x] {
			facts[phiKey(x)] = fmt.Sprint(val)
		}
	case *ssa.BinOp:
		if k, pos := cmpKey(x); k != "" && s.relCmp[k] {
			facts[k] = fmt.Sprint(val == pos)
		}
		if x.Op == token.EQL || x.Op == token.NEQ {
			l, r := x.X, x.Y
			if _, ok := symConstAny(l); ok {
				l, r = r, l
			}
			if cs, ok := symConstAny(r); ok {
				eq := val == (x.Op == token.EQL)
				var key string
				if p, ok := l.(*ssa.Phi); ok {
					key = phiKey(p)
				} else if k := s.classKey(l); k != "" {
					key = k
				}
				if key != "" {
					if eq {
						facts[key] = cs
					} else if _, have := facts[key]; !have {
						facts[key] = "!" + cs
					}
				}
			}
		}
	}
}

func copyFacts(f map[string]string) map[string]string {
	n := make(map[string]string, len(f)+2)
	for k, v := range f {
		n[k] = v
	}
	return n
}

// enter computes the facts after entering block to from block from.
func (s *Search) enter(from, to *ssa.BasicBlock, facts map[string]string) map[string]string {
	pi := -1
	for i, p := range to.Preds {
		if p == from {
			pi = i
			break
		}
	}
	if pi < 0 {
		return facts
	}
	nf := facts
	copied := false
	set := func(k, v string, del bool) {
		if !copied {
			nf = copyFacts(facts)
			copied = true
		}
		if del {
			delete(nf, k)
		} else {
			nf[k] = v
		}
	}
	for _, in := range to.Instrs {
		p, ok := in.(*ssa.Phi)
		if !ok {
			break
		}
		inc := p.Edges[pi]
		k := phiKey(p)
		if !s.relPhi[p] {
			continue
		}
		if _, isConst := symConstAny(inc); !isConst {
			if _, isPhi := inc.(*ssa.Phi); !isPhi {
				// a boolean input whose value is known on this path (e.g. a comparison just branched on)
				if bv, known := s.eval(inc, facts); known {
					set(k, fmt.Sprint(bv), false)
					continue
				}
			}
		}
		if sc, ok := symConst(inc); ok {
			set(k, sc, false)
			continue
		}
		switch y := inc.(type) {
		case *ssa.Phi:
			if f, ok := facts[phiKey(y)]; ok {
				set(k, f, false)
				continue
			}
		}
		if _, ok := facts[k]; ok {
			set(k, "", true)
		}
	}
	return nf
}

// Run searches from just after instruction start (or from the function entry
// if start is nil). It returns whether a target is reachable and a witness.
func (s *Search) Run(start ssa.Instruction) (bool, []string) {
	if s.classes == nil && !s.NoFacts {
		s.classes = condClasses(s.Fn)
	}
	if s.relCmp == nil {
		s.computeRelevance()
	}
	var st *state
	init := map[string]string{}
	for k, v := range s.Assume {
		init[k] = v
	}
	if s.startBlock != nil {
		st = &state{b: s.startBlock, idx: 0, facts: init}
	} else if start == nil {
		st = &state{b: s.Fn.Blocks[0], idx: 0, facts: init}
	} else {
		st = &state{b: start.Block(), idx: indexOf(start.Block(), start) + 1, facts: init}
	}
	st.armed = s.Via == nil && s.ArmAt == nil
	visited := map[string]bool{}
	seenAt := map[int][]map[string]string{}
	queue := []*state{st}
	steps := 0
	for len(queue) > 0 {
		cur := queue[0]
		queue = queue[1:]
		steps++
		if steps > 400000 {
			if s.Via != nil && !s.viaFallback {
				// too many combinations of facts in front of the Via edge: start at the Via edges
				// themselves with what the edge alone teaches (fewer facts, hence more paths: sound)
				return s.runFromVia()
			}
			return true, []string{"search budget exhausted (treated as reachable)"}
		}
		b := cur.b
		stopped := false
		for i := cur.idx; i < len(b.Instrs); i++ {
			in := b.Instrs[i]
			if s.ArmAt != nil && in == s.ArmAt {
				if !cur.armed {
					c2 := *cur
					c2.armed = true
					cur = &c2
				}
				continue
			}
			if cur.armed && s.Target != nil && s.Target(in) {
				return true, s.witness(cur, in)
			}
			if cur.armed && s.Stop != nil && s.Stop(in) {
				stopped = true
				break
			}
			if !s.NoFacts && len(cur.facts) > 0 {
				cur.facts = invalidate(cur.facts, in)
			}
		}
		if stopped {
			continue
		}
		var cond ssa.Value
		if n := len(b.Instrs); n > 0 {
			if iff, ok := b.Instrs[n-1].(*ssa.If); ok {
				cond = iff.Cond
			}
		}
		for si, succ := range b.Succs {
			e := Edge{b, si}
			if cur.armed && s.Cut != nil && s.Cut(e) {
				continue
			}
			if cur.armed && s.TargetEdge != nil && s.TargetEdge(e) {
				return true, s.witness(cur, nil)
			}
			if cur.armed && s.StopEdge != nil && s.StopEdge(e) {
				continue
			}
			armed := cur.armed || (s.Via != nil && s.Via(e))
			facts := cur.facts
			if cond != nil && !s.NoFacts {
				want := si == 0
				if v, known := s.eval(cond, facts); known && v != want {
					continue
				}
				facts = copyFacts(facts)
				s.learn(cond, want, facts)
			}
			if !s.NoFacts {
				facts = s.enter(b, succ, facts)
			}
			key := fmt.Sprintf("%d|%v|%s", succ.Index, armed, factsKey(facts))
			if visited[key] {
				continue
			}
			visited[key] = true
			// subsumption: a state already queued for this block with a subset of these facts
			// explores a superset of the paths this one would
			bk := succ.Index * 2
			if armed {
				bk++
			}
			if subsumed(seenAt[bk], facts) {
				continue
			}
			if len(seenAt[bk]) < 4096 {
				seenAt[bk] = append(seenAt[bk], facts)
			}
			queue = append(queue, &state{b: succ, idx: 0, facts: facts, prev: cur, armed: armed})
		}
	}
	return false, nil
}

// subsumed reports whether one of the fact sets in seen is a subset of facts.
func subsumed(seen []map[string]string, facts map[string]string) bool {
next:
	for _, f := range seen {
		if len(f) > len(facts) {
			continue
		}
		for k, v := range f {
			if facts[k] != v {
				continue next
			}
		}
		return true
	}
	return false
}

// RunAtEdge searches from the head of the edge's target block, with the facts the edge itself
// teaches (its branch condition, the values merges take on it).
func (s *Search) RunAtEdge(e Edge) (bool, []string) {
	if s.classes == nil && !s.NoFacts {
		s.classes = condClasses(s.Fn)
	}
	if s.relCmp == nil {
		s.computeRelevance()
	}
	facts := map[string]string{}
	for k, v := range s.Assume {
		facts[k] = v
	}
	if n := len(e.From.Instrs); n > 0 && !s.NoFacts {
		if iff, ok := e.From.Instrs[n-1].(*ssa.If); ok {
			s.learn(iff.Cond, e.Succ == 0, facts)
		}
		facts = s.enter(e.From, e.To(), facts)
	}
	return s.runAt(e.To(), facts)
}

func (s *Search) runAt(b *ssa.BasicBlock, facts map[string]string) (bool, []string) {
	s.startBlock = b
	s.Assume = facts
	if s.relCmp == nil {
		s.computeRelevance()
	}
	return s.Run(nil)
}

// runFromVia runs the query from every edge that satisfies Via.
func (s *Search) runFromVia() (bool, []string) {
	for _, b := range s.Fn.Blocks {
		for si, succ := range b.Succs {
			e := Edge{b, si}
			if !s.Via(e) {
				continue
			}
			s2 := *s
			s2.Via = nil
			s2.viaFallback = true
			facts := map[string]string{}
			for k, v := range s.Assume {
				facts[k] = v
			}
			if n := len(b.Instrs); n > 0 && !s.NoFacts {
				if iff, ok := b.Instrs[n-1].(*ssa.If); ok {
					s2.learn(iff.Cond, si == 0, facts)
				}
			}
			s2.Assume = facts
			var first ssa.Instruction
			// Run starts after the given instruction: start "before" the first instruction of succ
			if found, w := s2.runAt(succ, facts); found {
				return true, w
			}
			_ = first
		}
	}
	return false, nil
}

func (s *Search) witness(st *state, at ssa.Instruction) []string {
	var rev []string
	pos := func(b *ssa.BasicBlock) string {
		for _, in := range b.Instrs {
			if in.Pos().IsValid() {
				ps := s.Fn.Prog.Fset.Position(in.Pos())
				return fmt.Sprintf("b%d(L%d)", b.Index, ps.Line)
			}
		}
		return fmt.Sprintf("b%d", b.Index)
	}
	for c := st; c != nil; c = c.prev {
		rev = append(rev, pos(c.b))
	}
	out := make([]string, 0, len(rev)+1)
	for i := len(rev) - 1; i >= 0; i-- {
		out = append(out, rev[i])
	}
	// compress
	if len(out) > 40 {
		out = append(out[:20], append([]string{"…"}, out[len(out)-19:]...)...)
	}
	if at != nil && at.Pos().IsValid() {
		ps := s.Fn.Prog.Fset.Position(at.Pos())
		out = append(out, fmt.Sprintf("-> target at L%d", ps.Line))
	}
	return []string{strings.Join(out, " ")}
}

// IfEdges calls f for every If instruction of fn with its condition.
func IfEdges(fn *ssa.Function, f func(iff *ssa.If, b *ssa.BasicBlock)) {
	for _, b := range fn.Blocks {
		if n := len(b.Instrs); n > 0 {
			if iff, ok := b.Instrs[n-1].(*ssa.If); ok {
				f(iff, b)
			}
		}
	}
}

// EdgeSet is a set of edges.
type EdgeSet map[Edge]bool

func (s EdgeSet) Has(e Edge) bool { return s[e] }

// Gate describes the accept edges of a logical test.
type Gate struct {
	Name   string
	Accept EdgeSet // edges on which the test is known to have passed
	Sites  []string
	// PassThrough: return instructions whose success implies the test passed
	PassThrough map[ssa.Instruction]bool
}

// Atom is an indivisible boolean value (comparison, call result, flag) together
// with the truth value it is known to have.
type Atom struct {
	V     ssa.Value
	Holds bool
}

// boolPhiShape recognises the lowering of `a && b` / `a || b` (and the
// equivalent `x := false; if a { x = b }`): a bool phi all of whose incoming
// values but one are the same constant k. It returns the non-constant edge
// index, k, and the conditions of the constant predecessors that are known
// (with polarity) when the phi's value is !k.
func boolPhiShape(ph *ssa.Phi) (rest int, k bool, ok bool) {
	rest = -1
	first := true
	for i, e := range ph.Edges {
		if b, isC := ConstBool(e); isC {
			if first {
				k = b
				first = false
			} else if b != k {
				return -1, false, false
			}
			continue
		}
		if rest >= 0 {
			return -1, false, false
		}
		rest = i
	}
	if rest < 0 || first {
		return -1, false, false
	}
	return rest, k, true
}

// Implied lists the atoms that necessarily have a known truth value when the
// boolean value v equals val (conjunctive consequences only).
func Implied(v ssa.Value, val bool) []Atom {
	out := impliedShape(v, val)
	// the truth table of the condition sees through any nesting of !, &&, || and boolean
	// temporaries (results of inlined helpers); its consequences are added to the shape-based ones
	if more, ok := impliedByTable(v, val); ok {
		have := map[Atom]bool{}
		for _, a := range out {
			have[a] = true
		}
		for _, a := range more {
			if !have[a] {
				have[a] = true
				out = append(out, a)
			}
		}
	}
	return out
}

func impliedShape(v ssa.Value, val bool) []Atom {
	var out []Atom
	seen := map[ssa.Value]bool{}
	var rec func(v ssa.Value, val bool, d int)
	rec = func(v ssa.Value, val bool, d int) {
		if d > 12 {
			return
		}
		if u, ok := v.(*ssa.UnOp); ok && u.Op == token.NOT {
			rec(u.X, !val, d+1)
			return
		}
		if ph, ok := v.(*ssa.Phi); ok {
			if seen[ph] {
				return
			}
			seen[ph] = true
			out = append(out, Atom{ph, val})
			rest, k, ok := boolPhiShape(ph)
			if ok && val != k {
				// the value came through the non-constant edge
				rec(ph.Edges[rest], val, d+1)
				pe := ph.Block().Preds[rest]
				for i, p := range ph.Block().Preds {
					if i == rest {
						continue
					}
					n := len(p.Instrs)
					if n == 0 {
						continue
					}
					iff, isIf := p.Instrs[n-1].(*ssa.If)
					if !isIf || !p.Dominates(pe) {
						continue
					}
					// the edge p -> phi block was NOT taken
					if p.Succs[0] == ph.Block() && p.Succs[1] != ph.Block() {
						rec(iff.Cond, false, d+1)
					} else if p.Succs[1] == ph.Block() && p.Succs[0] != ph.Block() {
						rec(iff.Cond, true, d+1)
					}
				}
			}
			return
		}
		out = append(out, Atom{v, val})
	}
	rec(v, val, 0)
	return out
}

// FindGate scans fn for If edges on which an atom matched by m is known to
// have its accepting truth value. m receives an atom as a comparison (isCmp) or
// as a bare boolean value and returns whether it matches and whether ACCEPT
// means "the comparison/value holds".
func FindGate(p *Prog, fn *ssa.Function, name string, m func(c Cmp, isCmp bool, v ssa.Value) (match, acceptWhenHolds bool)) *Gate {
	g := &Gate{Name: name, Accept: EdgeSet{}}
	siteSeen := map[string]bool{}
	IfEdges(fn, func(iff *ssa.If, b *ssa.BasicBlock) {
		for si, val := range []bool{true, false} {
			for _, a := range Implied(iff.Cond, val) {
				var c Cmp
				isCmp := false
				if bo, ok := a.V.(*ssa.BinOp); ok {
					switch bo.Op {
					case token.EQL, token.NEQ, token.LSS, token.LEQ, token.GTR, token.GEQ:
						c = Cmp{Op: bo.Op, X: bo.X, Y: bo.Y, Instr: bo}
						if _, xk := c.X.(*ssa.Const); xk {
							if _, yk := c.Y.(*ssa.Const); !yk {
								c = c.Mirror() // a constant operand stands on the right
							}
						}
						isCmp = true
					}
				}
				match, acceptHolds := m(c, isCmp, a.V)
				if !match && isCmp && (c.Op == token.EQL || c.Op == token.NEQ) {
					// == and != are symmetric: the operands may be written in either order
					match, acceptHolds = m(c.Mirror(), isCmp, a.V)
				}
				if !match || a.Holds != acceptHolds {
					continue
				}
				g.Accept[Edge{b, si}] = true
				s := p.Pos(a.V.Pos())
				if a.V.Pos() == token.NoPos {
					s = p.Pos(iff.Cond.Pos())
				}
				if !siteSeen[s] {
					siteSeen[s] = true
					g.Sites = append(g.Sites, s)
				}
			}
		}
	})
	sort.Strings(g.Sites)
	return g
}

// ErrNilGate: the accept edge of `callee(...) == nil` tests (error results).
// A return statement that hands the callee's error on unchanged
// (`return callee(...)`) is a pass-through: succeeding there means the callee
// returned nil, so such a return never counts as reached without the test.
func ErrNilGate(p *Prog, fn *ssa.Function, callee string) *Gate {
	g := errNilGate(p, fn, callee)
	g.PassThrough = map[ssa.Instruction]bool{}
	res := fn.Signature.Results()
	if res.Len() > 0 {
		ei := res.Len() - 1
		Instrs(fn, func(in ssa.Instruction) {
			ret, ok := in.(*ssa.Return)
			if !ok || len(ret.Results) <= ei {
				return
			}
			v := Resolve(ret.Results[ei])
			if u := UniqueReaching(fn, v); u != nil {
				v = u
			}
			call, idx := CallOf(v)
			if call == nil || CalleeName(call.Common()) != callee {
				return
			}
			if idx == call.Common().Signature().Results().Len()-1 || call.Common().Signature().Results().Len() == 1 {
				g.PassThrough[in] = true
				if len(g.Accept) == 0 {
					// the only test is the caller's own test of this function's result
					g.Sites = append(g.Sites, p.Pos(in.Pos())+"(pass-through)")
				}
			}
		})
	}
	return g
}

func errNilGate(p *Prog, fn *ssa.Function, callee string) *Gate {
	return FindGate(p, fn, "err==nil:"+Short(callee), func(c Cmp, isCmp bool, _ ssa.Value) (bool, bool) {
		if !isCmp || (c.Op != token.EQL && c.Op != token.NEQ) {
			return false, false
		}
		x, y := c.X, c.Y
		if IsNilConst(x) {
			x, y = y, x
		}
		if !IsNilConst(y) {
			return false, false
		}
		call, _ := CallOf(Resolve(x))
		if call == nil || CalleeName(call.Common()) != callee {
			return false, false
		}
		return true, c.Op == token.EQL
	})
}

// BoolResultGate: the accept edge of a boolean result (`v, ok := f()`; `if ok`).
func BoolResultGate(p *Prog, fn *ssa.Function, callee string, idx int, acceptTrue bool) *Gate {
	return FindGate(p, fn, "ok:"+Short(callee), func(c Cmp, isCmp bool, v ssa.Value) (bool, bool) {
		if isCmp {
			return false, false
		}
		call, i := CallOf(Resolve(v))
		if call == nil || CalleeName(call.Common()) != callee || i != idx {
			return false, false
		}
		return true, acceptTrue
	})
}

// CallCmpGate: `callee(...) op const` with accept when comparison with acceptOp const holds.
func CallCmpGate(p *Prog, fn *ssa.Function, callee string, acceptEq bool, k int64) *Gate {
	return FindGate(p, fn, "cmp:"+Short(callee), func(c Cmp, isCmp bool, _ ssa.Value) (bool, bool) {
		if !isCmp || (c.Op != token.EQL && c.Op != token.NEQ) {
			return false, false
		}
		x, y := c.X, c.Y
		if _, ok := ConstInt(x); ok {
			x, y = y, x
		}
		kk, ok := ConstInt(y)
		if !ok || kk != k {
			return false, false
		}
		call, _ := CallOf(Resolve(StripConv(x)))
		if call == nil || CalleeName(call.Common()) != callee {
			return false, false
		}
		return true, (c.Op == token.EQL) == acceptEq
	})
}

// Union merges gates into one disjunctive cut.
func Union(name string, gs ...*Gate) *Gate {
	g := &Gate{Name: name, Accept: EdgeSet{}, PassThrough: map[ssa.Instruction]bool{}}
	for _, x := range gs {
		for k := range x.PassThrough {
			g.PassThrough[k] = true
		}
		for e := range x.Accept {
			g.Accept[e] = true
		}
		g.Sites = append(g.Sites, x.Sites...)
	}
	return g
}

// MustPass checks that every path from start (nil = entry) to a target
// instruction passes an accept edge of g, never crossing a stop instruction.
// It returns ok=false and a witness if some path avoids the gate.
func MustPass(fn *ssa.Function, start ssa.Instruction, g *Gate, target, stop func(ssa.Instruction) bool, assume map[string]string) (ok bool, witness []string) {
	if len(g.PassThrough) > 0 {
		inner := target
		target = func(in ssa.Instruction) bool { return inner(in) && !g.PassThrough[in] }
	}
	s := &Search{Fn: fn, Cut: func(e Edge) bool { return g.Accept[e] }, Stop: stop, Target: target, Assume: assume}
	found, w := s.Run(start)
	if found && start != nil {
		// second opinion with the facts that hold when start is reached (state that is reset in
		// front of start, e.g. a flag hoisted out of a receive loop): explore from the function
		// entry, count only what happens after start has been executed
		s2 := &Search{Fn: fn, Cut: s.Cut, Stop: stop, Target: target, Assume: assume, ArmAt: start}
		if found2, _ := s2.Run(nil); !found2 {
			return true, nil
		}
	}
	return !found, w
}

// Reachable reports whether target is reachable from start at all (sanity for gates).
func Reachable(fn *ssa.Function, start ssa.Instruction, target, stop func(ssa.Instruction) bool, assume map[string]string) bool {
	s := &Search{Fn: fn, Stop: stop, Target: target, Assume: assume}
	found, _ := s.Run(start)
	return found
}

// IsCallTo builds an instruction predicate for calls to a callee.
func IsCallTo(name string) func(ssa.Instruction) bool {
	return func(in ssa.Instruction) bool {
		c, ok := in.(ssa.CallInstruction)
		return ok && CalleeName(c.Common()) == name
	}
}

// ClassFact builds an Assume entry for a condition class.
func ClassFact(path string, val bool) (string, string) {
	return "fld:" + path, fmt.Sprint(val)
}

// constCondValue: the value of a branch condition that compares two constants (after
// normalisation an error variable can be the constant nil on every path to its test).
func constCondValue(v ssa.Value) (val, known bool) {
	pos := true
	for {
		if u, ok := v.(*ssa.UnOp); ok && u.Op == token.NOT {
			pos = !pos
			v = u.X
			continue
		}
		break
	}
	if b, ok := ConstBool(v); ok {
		return b == pos, true
	}
	if x, ok := v.(*ssa.BinOp); ok && (x.Op == token.EQL || x.Op == token.NEQ) {
		if cl, ok := x.X.(*ssa.Const); ok {
			if cr, ok := x.Y.(*ssa.Const); ok && types.Identical(cl.Type(), cr.Type()) {
				eq := constStr(cl) == constStr(cr)
				return (eq == (x.Op == token.EQL)) == pos, true
			}
		}
	}
	return false, false
}

var deadCache = map[*ssa.Function]map[*ssa.BasicBlock]bool{}

// DeadBlocks: the blocks of fn that cannot be reached once branches on constant conditions are
// folded.
func DeadBlocks(fn *ssa.Function) map[*ssa.BasicBlock]bool {
	if d, ok := deadCache[fn]; ok {
		return d
	}
	live := map[*ssa.BasicBlock]bool{}
	var walk func(b *ssa.BasicBlock)
	walk = func(b *ssa.BasicBlock) {
		if live[b] {
			return
		}
		live[b] = true
		if n := len(b.Instrs); n > 0 {
			if iff, ok := b.Instrs[n-1].(*ssa.If); ok {
				if v, known := constCondValue(iff.Cond); known {
					if v {
						walk(b.Succs[0])
					} else {
						walk(b.Succs[1])
					}
					return
				}
			}
		}
		for _, s := range b.Succs {
			walk(s)
		}
	}
	if len(fn.Blocks) > 0 {
		walk(fn.Blocks[0])
		if fn.Recover != nil {
			walk(fn.Recover)
		}
	}
	dead := map[*ssa.BasicBlock]bool{}
	for _, b := range fn.Blocks {
		if !live[b] {
			dead[b] = true
		}
	}
	deadCache[fn] = dead
	return dead
}
