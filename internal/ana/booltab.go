package ana

import (
	"go/token"
	"go/types"

	"golang.org/x/tools/go/ssa"
)

// Boolean structure by truth table. A boolean SSA value built from
// comparisons and other opaque booleans with !, && and || (which go/ssa lowers
// to branches and phis) is read back as a function of its atoms by following
// the branches for every assignment of the atoms. Questions such as "when this
// condition is false, is the last layer UDP or SCMP?" are then decided by
// enumeration, whatever way the condition was spelled (De Morgan forms,
// operand order, negated flags, early exits).

// BoolAtom is an opaque boolean: a comparison in canonical orientation or any other value.
type BoolAtom struct {
	V     ssa.Value // the value as it occurs (first occurrence)
	Cmp   Cmp       // canonical comparison (IsCmp)
	IsCmp bool
	Occ   []BoolOcc // every SSA value that is this atom or its negation
}

// BoolOcc: an occurrence of an atom; the value is true iff the atom has the value Pol.
type BoolOcc struct {
	V   ssa.Value
	Pol bool
}

type BoolFn struct {
	Atoms []BoolAtom
	Table []bool // value for each assignment (bit i = atom i)
}

type boolAtomKey struct {
	op   token.Token
	x, y ssa.Value
	v    ssa.Value
}

type boolEval struct {
	atoms []BoolAtom
	index map[boolAtomKey]int
	phis  []*ssa.Phi
	fail  bool
}

func (be *boolEval) occur(i int, v ssa.Value, pol bool) {
	for _, o := range be.atoms[i].Occ {
		if o.V == v {
			return
		}
	}
	be.atoms[i].Occ = append(be.atoms[i].Occ, BoolOcc{v, pol})
}

// canonAtom maps a comparison to (atom key, polarity): mirrored and - for non-float
// operands - negated spellings share one atom.
func canonAtom(c Cmp) (boolAtomKey, Cmp, bool) {
	if isFloatType(c.X.Type()) {
		switch c.Op {
		case token.GTR, token.GEQ:
			c = c.Mirror()
		}
		return boolAtomKey{op: c.Op, x: c.X, y: c.Y}, c, true
	}
	pol := true
	switch c.Op {
	case token.NEQ:
		c.Op, pol = token.EQL, false
	case token.GEQ: // x >= y  ==  !(x < y)
		c.Op, pol = token.LSS, false
	case token.GTR: // x > y  ==  y < x
		c = c.Mirror()
	case token.LEQ: // x <= y  ==  !(y < x)
		c = c.Mirror()
		c.Op, pol = token.LSS, false
	}
	if c.Op == token.EQL {
		// operand order is irrelevant; a constant stands on the right, otherwise order by name
		_, xk := c.X.(*ssa.Const)
		_, yk := c.Y.(*ssa.Const)
		if (xk && !yk) || (xk == yk && c.X.Name() > c.Y.Name()) {
			c.X, c.Y = c.Y, c.X
		}
	}
	return boolAtomKey{op: c.Op, x: c.X, y: c.Y}, c, pol
}

func (be *boolEval) atom(v ssa.Value) (int, bool) {
	if bo, ok := v.(*ssa.BinOp); ok {
		switch bo.Op {
		case token.EQL, token.NEQ, token.LSS, token.LEQ, token.GTR, token.GEQ:
			k, c, pol := canonAtom(Cmp{Op: bo.Op, X: bo.X, Y: bo.Y, Instr: bo})
			i, has := be.index[k]
			if !has {
				i = len(be.atoms)
				be.index[k] = i
				be.atoms = append(be.atoms, BoolAtom{V: v, Cmp: c, IsCmp: true})
			}
			be.occur(i, v, pol)
			return i, pol
		}
	}
	k := boolAtomKey{v: v}
	i, has := be.index[k]
	if !has {
		i = len(be.atoms)
		be.index[k] = i
		be.atoms = append(be.atoms, BoolAtom{V: v})
	}
	be.occur(i, v, true)
	return i, true
}

// collect registers the atoms of v.
func (be *boolEval) collect(v ssa.Value, seen map[ssa.Value]bool, d int) {
	if d > 24 || seen[v] {
		return
	}
	seen[v] = true
	switch x := v.(type) {
	case *ssa.Const:
		return
	case *ssa.UnOp:
		if x.Op == token.NOT {
			be.collect(x.X, seen, d+1)
			return
		}
	case *ssa.Phi:
		if isBool(x) {
			be.phis = append(be.phis, x)
			for _, e := range x.Edges {
				be.collect(e, seen, d+1)
			}
			for _, b := range boolRegion(x) {
				if n := len(b.Instrs); n > 0 {
					if iff, ok := b.Instrs[n-1].(*ssa.If); ok {
						be.collect(iff.Cond, seen, d+1)
					}
				}
			}
			return
		}
	}
	be.atom(v)
}

// boolRegion: the blocks between the immediate dominator of the phi's block and the phi's block.
func boolRegion(ph *ssa.Phi) []*ssa.BasicBlock {
	d := ph.Block()
	e := d.Idom()
	if e == nil {
		return nil
	}
	var out []*ssa.BasicBlock
	seen := map[*ssa.BasicBlock]bool{d: true}
	var walk func(b *ssa.BasicBlock)
	walk = func(b *ssa.BasicBlock) {
		if seen[b] || len(out) > 64 {
			return
		}
		seen[b] = true
		out = append(out, b)
		for _, s := range b.Succs {
			if e.Dominates(s) {
				walk(s)
			}
		}
	}
	walk(e)
	return out
}

func (be *boolEval) eval(v ssa.Value, assign uint, d int) bool {
	if d > 48 {
		be.fail = true
		return false
	}
	switch x := v.(type) {
	case *ssa.Const:
		b, ok := ConstBool(x)
		if !ok {
			be.fail = true
		}
		return b
	case *ssa.UnOp:
		if x.Op == token.NOT {
			return !be.eval(x.X, assign, d+1)
		}
	case *ssa.Phi:
		if isBool(x) {
			e, ok := be.pickEdge(x, assign, d)
			if !ok {
				be.fail = true
				return false
			}
			return be.eval(e, assign, d+1)
		}
	}
	i, pol := be.atom(v)
	if i >= 16 {
		be.fail = true
		return false
	}
	return (assign>>uint(i)&1 == 1) == pol
}

func isBool(v ssa.Value) bool {
	b, ok := v.Type().Underlying().(*types.Basic)
	return ok && b.Info()&types.IsBoolean != 0
}

// BoolFunc reads v as a function of its atoms; nil if the structure is not understood
// (loops, more than 12 atoms).
func BoolFunc(v ssa.Value) *BoolFn {
	be := &boolEval{index: map[boolAtomKey]int{}}
	be.collect(v, map[ssa.Value]bool{}, 0)
	if len(be.atoms) > 12 {
		return nil
	}
	n := len(be.atoms)
	f := &BoolFn{Table: make([]bool, 1<<uint(n))}
	for a := uint(0); a < 1<<uint(n); a++ {
		f.Table[a] = be.eval(v, a, 0)
		if be.fail || len(be.atoms) != n {
			return nil
		}
	}
	f.Atoms = be.atoms
	return f
}

// ImpliesAny: whenever the function has value val, at least one of the atoms selected by m has
// its accepting truth value. m is called as in FindGate. At least one atom must be selected.
func (f *BoolFn) ImpliesAny(val bool, m func(c Cmp, isCmp bool, v ssa.Value) (match, acceptWhenHolds bool)) bool {
	type sel struct {
		i    int
		want bool
	}
	var sels []sel
	for i, a := range f.Atoms {
		match, acc := m(a.Cmp, a.IsCmp, a.V)
		if !match && a.IsCmp && a.Cmp.Op == token.EQL {
			match, acc = m(a.Cmp.Mirror(), true, a.V)
		}
		if match {
			sels = append(sels, sel{i, acc})
		}
	}
	if len(sels) == 0 {
		return false
	}
	some := false
	for a := range f.Table {
		if f.Table[a] != val {
			continue
		}
		some = true
		ok := false
		for _, s := range sels {
			if (uint(a)>>uint(s.i)&1 == 1) == s.want {
				ok = true
				break
			}
		}
		if !ok {
			return false
		}
	}
	return some
}

// FindGateAny: the edges of fn on which the disjunction of the atoms selected by m is known
// to hold (each with its accepting truth value).
func FindGateAny(p *Prog, fn *ssa.Function, name string, m func(c Cmp, isCmp bool, v ssa.Value) (match, acceptWhenHolds bool)) *Gate {
	g := &Gate{Name: name, Accept: EdgeSet{}}
	IfEdges(fn, func(iff *ssa.If, b *ssa.BasicBlock) {
		f := BoolFunc(iff.Cond)
		if f == nil {
			return
		}
		for si, val := range []bool{true, false} {
			if f.ImpliesAny(val, m) {
				g.Accept[Edge{b, si}] = true
				g.Sites = append(g.Sites, p.Pos(iff.Cond.Pos()))
			}
		}
	})
	return g
}

// impliedByTable: the atoms (every occurrence) and boolean merges that have one and the same truth
// value under every assignment for which v == val. ok is false when v is outside the domain.
func impliedByTable(v ssa.Value, val bool) (out []Atom, ok bool) {
	be := &boolEval{index: map[boolAtomKey]int{}}
	be.collect(v, map[ssa.Value]bool{}, 0)
	n := len(be.atoms)
	if n == 0 || n > 12 {
		return nil, false
	}
	type tv struct{ t, f bool }
	atomSeen := make([]tv, n)
	phiSeen := make([]tv, len(be.phis))
	any := false
	for a := uint(0); a < 1<<uint(n); a++ {
		r := be.eval(v, a, 0)
		if be.fail || len(be.atoms) != n {
			return nil, false
		}
		if r != val {
			continue
		}
		any = true
		for i := 0; i < n; i++ {
			if a>>uint(i)&1 == 1 {
				atomSeen[i].t = true
			} else {
				atomSeen[i].f = true
			}
		}
		for i, ph := range be.phis {
			pv := be.eval(ph, a, 0)
			if be.fail {
				return nil, false
			}
			if pv {
				phiSeen[i].t = true
			} else {
				phiSeen[i].f = true
			}
		}
	}
	if !any {
		return nil, true // v never has this value: nothing to learn (the edge is dead)
	}
	for i := 0; i < n; i++ {
		if atomSeen[i].t == atomSeen[i].f {
			continue
		}
		for _, o := range be.atoms[i].Occ {
			out = append(out, Atom{o.V, atomSeen[i].t == o.Pol})
		}
	}
	for i, ph := range be.phis {
		if phiSeen[i].t != phiSeen[i].f {
			out = append(out, Atom{ph, phiSeen[i].t})
		}
	}
	return out, true
}

// AtomMatcher selects atoms (comparisons in canonical form, other boolean values, boolean merges)
// and says which truth value of the selected value is the accepting one.
type AtomMatcher func(c Cmp, isCmp bool, v ssa.Value) (match, acceptWhenHolds bool)

// FindGateDNF: the edges of fn on which a disjunction of conjunctions is known to hold: for every
// assignment of the tested condition's atoms that takes the edge, some term has all its matchers
// satisfied (each by an atom, or a boolean merge, with its accepting value). This reads, e.g.,
// `ok := (flag && a == b) || a == c; if !ok { reject }` as the test it is.
func FindGateDNF(p *Prog, fn *ssa.Function, name string, terms [][]AtomMatcher) *Gate {
	g := &Gate{Name: name, Accept: EdgeSet{}}
	IfEdges(fn, func(iff *ssa.If, b *ssa.BasicBlock) {
		be := &boolEval{index: map[boolAtomKey]int{}}
		be.collect(iff.Cond, map[ssa.Value]bool{}, 0)
		n := len(be.atoms)
		if n == 0 || n > 12 {
			return
		}
		type sel struct {
			atom, phi int
			want      bool
		}
		// per term, per matcher: the selected atoms / merges
		selT := make([][][]sel, len(terms))
		usable := false
		for ti, term := range terms {
			selT[ti] = make([][]sel, len(term))
			okTerm := true
			for mi, m := range term {
				for i, a := range be.atoms {
					match, acc := m(a.Cmp, a.IsCmp, a.V)
					if !match && a.IsCmp && a.Cmp.Op == token.EQL {
						match, acc = m(a.Cmp.Mirror(), true, a.V)
					}
					if match {
						selT[ti][mi] = append(selT[ti][mi], sel{atom: i, phi: -1, want: acc})
					}
				}
				for i, ph := range be.phis {
					if match, acc := m(Cmp{}, false, ph); match {
						selT[ti][mi] = append(selT[ti][mi], sel{atom: -1, phi: i, want: acc})
					}
				}
				if len(selT[ti][mi]) == 0 {
					okTerm = false
				}
			}
			if okTerm {
				usable = true
			} else {
				selT[ti] = nil
			}
		}
		if !usable {
			return
		}
		for si, val := range []bool{true, false} {
			holds, some := true, false
			for a := uint(0); a < 1<<uint(n) && holds; a++ {
				r := be.eval(iff.Cond, a, 0)
				if be.fail || len(be.atoms) != n {
					return
				}
				if r != val {
					continue
				}
				some = true
				sat := false
				for ti := range terms {
					if selT[ti] == nil {
						continue
					}
					all := true
					for _, alts := range selT[ti] {
						one := false
						for _, s := range alts {
							var v bool
							if s.atom >= 0 {
								v = a>>uint(s.atom)&1 == 1
							} else {
								v = be.eval(be.phis[s.phi], a, 0)
							}
							if v == s.want {
								one = true
								break
							}
						}
						if !one {
							all = false
							break
						}
					}
					if all {
						sat = true
						break
					}
				}
				if !sat {
					holds = false
				}
			}
			if holds && some {
				g.Accept[Edge{b, si}] = true
				g.Sites = append(g.Sites, p.Pos(iff.Cond.Pos()))
			}
		}
	})
	return g
}

// pickEdge: the input a merge takes under an assignment of the atoms, found by following the
// branches from the immediate dominator of the merge's block. Merges at loop headers (values
// carried around a loop) are outside the domain.
func (be *boolEval) pickEdge(x *ssa.Phi, assign uint, d int) (ssa.Value, bool) {
	blk := x.Block()
	for _, p := range blk.Preds {
		if blk.Dominates(p) {
			return nil, false
		}
	}
	cur := blk.Idom()
	if cur == nil {
		return nil, false
	}
	var prev *ssa.BasicBlock
	for steps := 0; steps < 64; steps++ {
		if cur == blk {
			for i, p := range blk.Preds {
				if p == prev {
					return x.Edges[i], true
				}
			}
			return nil, false
		}
		n := len(cur.Instrs)
		if n == 0 {
			return nil, false
		}
		switch t := cur.Instrs[n-1].(type) {
		case *ssa.If:
			prev = cur
			v := be.eval(t.Cond, assign, d+1)
			if be.fail {
				return nil, false
			}
			if v {
				cur = cur.Succs[0]
			} else {
				cur = cur.Succs[1]
			}
			continue
		case *ssa.Jump:
			prev = cur
			cur = cur.Succs[0]
			continue
		}
		return nil, false
	}
	return nil, false
}

// ValEval reads values that are selected by branches (merges of merges) as a function of the
// branch conditions' atoms: for every assignment of the atoms, Leaf returns the input that
// reaches the value.
type ValEval struct {
	be      *boolEval
	through func(c *ssa.Call) bool
}

// NewValEval collects the atoms that decide the roots. through selects calls whose arguments are
// to be followed as well (e.g. a midpoint of two selected values).
func NewValEval(through func(c *ssa.Call) bool, roots ...ssa.Value) *ValEval {
	ve := &ValEval{be: &boolEval{index: map[boolAtomKey]int{}}, through: through}
	seen := map[ssa.Value]bool{}
	bseen := map[ssa.Value]bool{}
	var walk func(v ssa.Value, d int)
	walk = func(v ssa.Value, d int) {
		if d > 24 || seen[v] {
			return
		}
		seen[v] = true
		switch x := v.(type) {
		case *ssa.Phi:
			if isBool(x) {
				ve.be.collect(x, bseen, 0)
				return
			}
			for _, e := range x.Edges {
				walk(e, d+1)
			}
			for _, b := range boolRegion(x) {
				if n := len(b.Instrs); n > 0 {
					if iff, ok := b.Instrs[n-1].(*ssa.If); ok {
						ve.be.collect(iff.Cond, bseen, 0)
					}
				}
			}
		case *ssa.Call:
			if through != nil && through(x) {
				for _, a := range x.Call.Args {
					walk(a, d+1)
				}
			}
		}
	}
	for _, r := range roots {
		walk(r, 0)
	}
	return ve
}

func (ve *ValEval) Atoms() []BoolAtom { return ve.be.atoms }

// Leaf: the non-merge value that reaches v under the assignment.
func (ve *ValEval) Leaf(v ssa.Value, assign uint) (ssa.Value, bool) {
	n := len(ve.be.atoms)
	for i := 0; i < 32; i++ {
		ph, ok := v.(*ssa.Phi)
		if !ok || isBool(ph) {
			return v, true
		}
		e, ok := ve.be.pickEdge(ph, assign, 0)
		if !ok || ve.be.fail || len(ve.be.atoms) != n {
			return nil, false
		}
		v = e
	}
	return nil, false
}
