module verif

go 1.26.8

require golang.org/x/tools v0.50.0

require (
	golang.org/x/mod v0.41.0 // indirect
	golang.org/x/sync v0.23.0 // indirect
)
