#!/usr/bin/env python3
import json,sys,glob,jsonschema
man=json.load(open('/verif/MANIFEST.json'))
jsonschema.validate(man, json.load(open('/root/.vp/MANIFEST.schema.json')))
es=json.load(open('/root/.vp/EVIDENCE.schema.json'))
for c in man['checks']:
    f=c['evidence_file']
    try:
        jsonschema.validate(json.load(open(f)), es)
    except Exception as e:
        print('INVALID',f,str(e)[:200]); sys.exit(1)
print('manifest + %d evidence files valid'%len(man['checks']))
