#!/bin/bash
# usage: dev_refactor.sh <patch.diff> <Cxx>...  -- development aid: applies a patch to a scratch worktree
# (/var/tmp/devrepo, created on demand) and runs the given checks with bin/scioncheck-dev against it.
cd /verif && . ./env.sh
D=${DEVREPO:-/var/tmp/devrepo}
[ -d $D ] || git -C /repo worktree add --detach $D HEAD >/dev/null 2>&1
git -C $D checkout -q -- . ; git -C $D clean -fdq
patch=$1; shift
git -C $D apply $patch || exit 3
for p in "$@"; do
  SCIONCHECK_REPO=$D ${DEVBIN:-./bin/scioncheck-dev} -p $p 2>&1 | grep -E "^  key=|^result|^BROKEN|^    " | head -${LINES_MAX:-12}
done
git -C $D checkout -q -- . ; git -C $D clean -fdq
