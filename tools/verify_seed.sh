#!/bin/bash
# usage: verify_seed.sh <mutdir (contains patch.diff, demo/, meta.json)> <dest id e.g. C05-a1>
# Confirms in a scratch worktree of /repo HEAD: demo passes on clean tree; with patch: builds,
# existing suite passes, demo fails. On success copies to /verif/seeded/<dest>/ with results in meta.json.
set -u
src=$1; dest=$2
. /verif/env.sh
wt=/var/tmp/seedwt-$dest
rm -rf $wt; git -C /repo worktree prune
git -C /repo worktree add -q $wt HEAD || exit 9
res() { echo "$dest: $1"; }
cleanup() { git -C /repo worktree remove --force $wt 2>/dev/null; rm -rf $wt; }
cd $wt
if ! git apply --check $src/patch.diff 2>/dev/null; then res "PATCH-NO-APPLY"; cleanup; exit 1; fi
python3 - "$src" "$wt" <<'PY'
import json,sys,shutil,os
src,wt=sys.argv[1],sys.argv[2]
m=json.load(open(src+'/meta.json'))
for f,rel in m['demo_files'].items():
    os.makedirs(os.path.dirname(os.path.join(wt,rel)) or '.',exist_ok=True)
    shutil.copy(os.path.join(src,'demo',f),os.path.join(wt,rel))
open('/tmp/.democmd-'+os.path.basename(wt),'w').write(m['demo_cmd'])
PY
democmd=$(cat /tmp/.democmd-$(basename $wt)); rm -f /tmp/.democmd-$(basename $wt)
log=/var/tmp/seedlog-$dest.txt; : > $log
( eval "timeout 900 $democmd" ) >>$log 2>&1; clean_demo=$?
git apply $src/patch.diff
( go build ./... && go test -vet=off -count=1 -run '^$' ./... ) >>$log 2>&1; build=$?
# existing suite without the demo files
python3 - "$src" "$wt" <<'PY'
import json,sys,os
src,wt=sys.argv[1],sys.argv[2]
m=json.load(open(src+'/meta.json'))
for f,rel in m['demo_files'].items():
    os.rename(os.path.join(wt,rel),os.path.join(wt,rel)+'.off')
PY
( timeout 1500 go test -vet=off -count=1 -timeout 25m ./... ) >>$log 2>&1; suite=$?
python3 - "$src" "$wt" <<'PY'
import json,sys,os
src,wt=sys.argv[1],sys.argv[2]
m=json.load(open(src+'/meta.json'))
for f,rel in m['demo_files'].items():
    os.rename(os.path.join(wt,rel)+'.off',os.path.join(wt,rel))
PY
( eval "timeout 900 $democmd" ) >>$log 2>&1; patched_demo=$?
cleanup; cd /
status="clean_demo=$clean_demo build=$build suite=$suite patched_demo=$patched_demo"
if [ $clean_demo -eq 0 ] && [ $build -eq 0 ] && [ $suite -eq 0 ] && [ $patched_demo -ne 0 ]; then
  mkdir -p /verif/seeded/$dest
  cp $src/patch.diff /verif/seeded/$dest/; rm -rf /verif/seeded/$dest/demo; cp -r $src/demo /verif/seeded/$dest/demo
  python3 - "$src" "$dest" "$status" "$(git -C /repo rev-parse --short HEAD)" <<'PY'
import json,sys
src,dest,status,head=sys.argv[1:5]
m=json.load(open(src+'/meta.json'))
m['confirmed']={'by':'tools/verify_seed.sh in a scratch worktree of /repo at '+head,'result':status,
  'ran':['demo on clean tree (pass)','git apply patch.diff','go build ./... && go test -run ^$ ./... (pass)','go test -vet=off -count=1 ./... without demo (pass)','demo with patch (fail)']}
m['origin']='independent sub-agent given only the property text and a scratch worktree'
json.dump(m,open('/verif/seeded/'+dest+'/meta.json','w'),indent=1)
PY
  res "CONFIRMED $status"
else
  res "REJECTED $status (log $log)"
fi
