#!/bin/bash
# usage: run_seeded.sh [id-prefix]   -- applies every /verif/seeded/<id>/patch.diff to /repo in turn,
# runs the quick check of the property it breaks (if claimed), reverts. Prints a detection matrix.
cd /verif && . ./env.sh
go build -o bin/scioncheck ./cmd/scioncheck || exit 2
claimed=$(python3 -c "import json;print(' '.join(c['property_id'] for c in json.load(open('MANIFEST.json'))['checks']))")
for d in /verif/seeded/${1:-}*/; do
  id=$(basename $d); prop=${id%%-*}
  if ! git -C /repo diff --quiet; then echo "REPO DIRTY"; exit 3; fi
  if ! git -C /repo apply --check $d/patch.diff 2>/dev/null; then echo "$id NOAPPLY"; continue; fi
  if ! echo " $claimed ${EXTRA:-}" | grep -q " $prop"; then echo "$id unclaimed"; continue; fi
  git -C /repo apply $d/patch.diff
  out=$(./bin/scioncheck -p $prop 2>&1); code=$?
  git -C /repo checkout -- .
  nv=$(echo "$out" | grep -c '^VIOLATION'); nb=$(echo "$out" | grep -c '^BROKEN')
  keys=$(echo "$out" | grep '^  key=' | sed 's/^  key=[^|]*| //' | head -3 | tr '\n' ';')
  if [ $code -eq 1 ]; then echo "$id DETECTED violations=$nv broken=$nb :: $keys"; else echo "$id MISSED exit=$code broken=$nb"; fi
done
./bin/scioncheck -p C05 >/dev/null  # leave evidence of unchanged tree for last-run property
