#!/bin/bash
# usage: run_rename_test.sh  -- renames every local variable, parameter, named result and receiver of
# /repo's non-test sources (bin/renamelocals), checks that the module still builds, runs all 20 checks
# and restores the tree. Behaviour is unchanged, so every check must stay quiet.
cd /verif && . ./env.sh
go build -o bin/scioncheck ./cmd/scioncheck && go build -o bin/renamelocals ./cmd/renamelocals || exit 2
if ! git -C /repo diff --quiet; then echo "REPO DIRTY"; exit 3; fi
(cd /repo && /verif/bin/renamelocals >/dev/null && go build ./...) || { git -C /repo checkout -- .; echo "rename broke the build"; exit 2; }
tmp=$(mktemp -d /var/tmp/rn.XXXX)
for p in C01 C02 C03 C04 C05 C06 C07 C08 C09 C10 C11 C12 C13 C14 C15 C16 C17 C18 C19 C20; do ( ./bin/scioncheck -p $p > $tmp/$p.out 2>&1; echo $? > $tmp/$p.code ) & done; wait
git -C /repo checkout -- .
bad=0
for p in C01 C02 C03 C04 C05 C06 C07 C08 C09 C10 C11 C12 C13 C14 C15 C16 C17 C18 C19 C20; do
  c=$(cat $tmp/$p.code); if [ "$c" != "0" ]; then bad=1; echo "$p ALARM exit=$c :: $(grep -E '^  key=|^BROKEN' $tmp/$p.out | head -2 | tr '\n' ';')"; fi
done
rm -rf $tmp
[ $bad -eq 0 ] && echo "all 20 checks quiet on the renamed tree"
