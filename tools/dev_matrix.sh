#!/bin/bash
# usage: dev_matrix.sh <dir-prefix> <label-suffix>  e.g. dev_matrix.sh /tmp/ref2- r2  -- runs dev_all.sh on <prefix>Cxx/m{1,2,3}/patch.diff
pre=$1; suf=$2
for p in 01 02 03 04 05 06 07 08 09 10 11 12 13 14 15 16 17 18 19 20; do for m in 1 2 3; do
  f=${pre}C$p/m$m/patch.diff
  [ -f $f ] || continue
  out=$(LINES_MAX=4 /verif/tools/dev_all.sh $f 2>&1 | grep -v "^WARNING\|^done")
  if [ -z "$out" ]; then echo "C$p-$suf$m quiet"; else echo "C$p-$suf$m ALARM"; echo "$out" | sed 's/^/   /'; fi
done; done
