#!/bin/bash
# usage: try_mutant.sh <patch.diff> <property> [more properties]
# applies the patch to /repo, runs the quick checks, reverts. Prints exit codes.
set -u
patch=$1; shift
cd /verif && . ./env.sh
if ! git -C /repo apply --check "$patch" 2>/dev/null; then echo "PATCH DOES NOT APPLY: $patch"; exit 3; fi
git -C /repo apply "$patch"
for p in "$@"; do
  out=$(./bin/scioncheck -p "$p" 2>&1); code=$?
  echo "== $p exit=$code"
  echo "$out" | grep -E "^VIOLATION|^BROKEN|^  what=|^  key=" | head -${LINES_MAX:-12}
done
git -C /repo checkout -- . 
git -C /repo status --short | grep -v '^??' || true
