#!/bin/bash
# usage: revert_fix_test.sh  -- for every `fix:` commit of /repo, reverse-applies its diff to the
# working tree (when it still applies), runs the property check that first reported the defect
# (property from known_findings.json), and restores the tree. A reverted repair must be reported again.
cd /verif && . ./env.sh
go build -o bin/scioncheck ./cmd/scioncheck || exit 2
python3 - <<'PY' > /var/tmp/fixlist.txt
import json
for e in json.load(open('/verif/known_findings.json')):
    if e['status']=='fixed': print(e['commit'], e['property'])
PY
while read c prop; do
  if ! git -C /repo diff --quiet; then echo "REPO DIRTY"; exit 3; fi
  git -C /repo show $c > /var/tmp/fix-$c.diff
  if ! git -C /repo apply -R --check /var/tmp/fix-$c.diff 2>/dev/null; then echo "$c $prop REVERT-NOAPPLY"; rm -f /var/tmp/fix-$c.diff; continue; fi
  git -C /repo apply -R /var/tmp/fix-$c.diff
  if ! (cd /repo && go build ./... 2>/dev/null); then echo "$c $prop REVERT-NOBUILD"; git -C /repo checkout -- .; rm -f /var/tmp/fix-$c.diff; continue; fi
  out=$(./bin/scioncheck -p $prop 2>&1); code=$?
  git -C /repo checkout -- .; rm -f /var/tmp/fix-$c.diff
  keys=$(echo "$out" | grep '^  key=' | sed 's/^  key=[^|]*| //' | head -2 | tr '\n' ';')
  if [ $code -eq 1 ]; then echo "$c $prop REPORTED-AGAIN :: $keys"; else echo "$c $prop MISSED exit=$code"; fi
done < /var/tmp/fixlist.txt
rm -f /var/tmp/fixlist.txt
