#!/bin/bash
# usage: dev_all.sh [patch]  -- runs all 20 checks with bin/scioncheck-dev against the scratch worktree /var/tmp/devrepo
cd /verif && . ./env.sh
D=${DEVREPO:-/var/tmp/devrepo}
[ -d $D ] || git -C /repo worktree add --detach $D HEAD >/dev/null 2>&1
git -C $D checkout -q -- . ; git -C $D clean -fdq
[ -n "$1" ] && { git -C $D apply $1 || exit 3; }
tmp=$(mktemp -d /var/tmp/devall.XXXX)
for p in C01 C02 C03 C04 C05 C06 C07 C08 C09 C10 C11 C12 C13 C14 C15 C16 C17 C18 C19 C20; do
  ( SCIONCHECK_REPO=$D VERIF_EVIDENCE_DIR=$tmp ${DEVBIN:-./bin/scioncheck-dev} -p $p > $tmp/$p.out 2>&1; echo $? > $tmp/$p.code ) &
done
wait
for p in C01 C02 C03 C04 C05 C06 C07 C08 C09 C10 C11 C12 C13 C14 C15 C16 C17 C18 C19 C20; do
  c=$(cat $tmp/$p.code)
  if [ "$c" != "0" ]; then echo "$p exit=$c"; grep -E '^  key=|^BROKEN' $tmp/$p.out | head -${LINES_MAX:-6}; fi
done
echo done
rm -rf $tmp
git -C $D checkout -q -- . ; git -C $D clean -fdq
