#!/bin/bash
# usage: dev_targeted.sh <out> -- development aid: runs only the rules touched in this round (C05/C11/C14 on
# patches touching net/nts/nts.go, C08 on patches touching core/server or core/client receive loops) over
# all refactoring patches under /tmp/ref*-Cxx/mN.
cd /verif && . ./env.sh
out=$1
: > $out
for f in /tmp/ref*-C*/m*/patch.diff; do
  props=""
  grep -q "^+++ b/net/nts/nts.go" $f && props="C05 C11 C14"
  grep -qE "^\+\+\+ b/core/(server|client)/" $f && props="$props C08"
  [ -z "$props" ] && continue
  res=$(DEVBIN=${DEVBIN:-./bin/scioncheck-dev} LINES_MAX=6 tools/dev_refactor.sh $f $props 2>&1 | grep -E "key=|BROKEN|exit=[23]")
  if [ -z "$res" ]; then echo "$f quiet [$props]" >> $out; else echo "$f ALARM [$props]" >> $out; echo "$res" | sed 's/^/    /' >> $out; fi
done
echo finished >> $out
