#!/bin/bash
# usage: dev_seeds.sh <out> [id-glob]  -- development aid: applies every seeded/<id>/patch.diff to a scratch worktree
# (3 workers, /var/tmp/seedrepo1..3) and runs the check of the property it breaks with DEVBIN. Never touches /repo's tree.
cd /verif && . ./env.sh
out=$1; glob=${2:-C*}
: > $out
worker() {
  w=$1; shift
  D=/var/tmp/seedrepo$w
  [ -d $D ] || git -C /repo worktree add --detach $D HEAD >/dev/null 2>&1
  for d in "$@"; do
    id=$(basename $d); prop=${id%%-*}
    git -C $D checkout -q -- . ; git -C $D clean -fdq
    if ! git -C $D apply $d/patch.diff 2>/dev/null; then echo "$id|NOAPPLY|" >> $out; continue; fi
    o=$(SCIONCHECK_REPO=$D VERIF_EVIDENCE_DIR=/var/tmp/seedev$w ${DEVBIN:-./bin/scioncheck-s} -p $prop 2>&1); code=$?
    keys=$(echo "$o" | grep '^  key=' | sed 's/^  key=//; s/ | [^|]* | /\//' | head -4 | tr '\n' ';')
    echo "$id|exit=$code|$keys" >> $out
  done
  git -C $D checkout -q -- . ; git -C $D clean -fdq
}
mkdir -p /var/tmp/seedev1 /var/tmp/seedev2 /var/tmp/seedev3
all=(/verif/seeded/$glob/)
n=${#all[@]}
a=(); b=(); c=()
for i in "${!all[@]}"; do case $((i%3)) in 0) a+=("${all[$i]}");; 1) b+=("${all[$i]}");; 2) c+=("${all[$i]}");; esac; done
worker 1 "${a[@]}" & worker 2 "${b[@]}" & worker 3 "${c[@]}" &
wait
sort $out -o $out
echo finished >> $out
