#!/bin/bash
# usage: run_refactor.sh <patch.diff> [label]  -- applies a behaviour-preserving refactoring to /repo,
# checks that it builds, runs all 20 property checks in parallel, reverts. Any VIOLATION/BROKEN is a
# false alarm candidate (to be confirmed by reading the patch).
cd /verif && . ./env.sh
patch=$1; label=${2:-$(basename $(dirname $patch))}
if ! git -C /repo diff --quiet; then echo "REPO DIRTY"; exit 3; fi
if ! git -C /repo apply --check $patch 2>/dev/null; then echo "$label NOAPPLY"; exit 0; fi
git -C /repo apply $patch
if ! (cd /repo && go build ./... 2>/dev/null); then echo "$label NOBUILD"; git -C /repo checkout -- .; git -C /repo clean -fdq -e testnet; exit 0; fi
tmp=$(mktemp -d /var/tmp/refrun.XXXX)
for p in C01 C02 C03 C04 C05 C06 C07 C08 C09 C10 C11 C12 C13 C14 C15 C16 C17 C18 C19 C20; do
  ( ./bin/scioncheck -p $p > $tmp/$p.out 2>&1; echo $? > $tmp/$p.code ) &
done
wait
git -C /repo checkout -- .; git -C /repo clean -fdq -e testnet >/dev/null 2>&1
bad=""
for p in C01 C02 C03 C04 C05 C06 C07 C08 C09 C10 C11 C12 C13 C14 C15 C16 C17 C18 C19 C20; do
  c=$(cat $tmp/$p.code)
  if [ "$c" != "0" ]; then
    keys=$(grep -E '^  key=|^BROKEN' $tmp/$p.out | sed 's/^  key=[^|]*| //' | head -3 | tr '\n' ';')
    bad="$bad\n   $p exit=$c :: $keys"
  fi
done
rm -rf $tmp
if [ -z "$bad" ]; then echo "$label quiet"; else echo -e "$label ALARM$bad"; fi
