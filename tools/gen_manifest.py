#!/usr/bin/env python3
"""Generates /verif/MANIFEST.json from the table below (single source of truth)."""
import json, os
ENV = "export PATH=/opt/veriftools/go1.26.8/bin:$PATH GOTOOLCHAIN=local GOFLAGS=-mod=mod GOPROXY=off GOSUMDB=off; unset GOWORK; "
RUN = ENV + "test -x bin/scioncheck || go build -o bin/scioncheck ./cmd/scioncheck; ./bin/scioncheck -p {id} -tier {tier}"
NOTE = ("Trusted base: go/types + golang.org/x/tools v0.50.0 go/ssa construction, go/packages loading of /repo (linux/amd64, non-test files), "
        "the frozen library summary rows listed in the evidence. Decides the listed structural clauses only, not the behaviour; see DESIGN.md section for what is not decided.")
CHECKS = {
 "C05": dict(tech="static analysis: SSA CFG must-pass-through path queries (constant-phi / condition-class path sensitivity) + exact truth-table abstract interpretation of the header predicates",
   text="Structural necessary condition, decided exactly for its clause: every return of both NTP client receive functions that can carry a nil error lies behind the datagram read and behind the accept edge of every acceptance test (source, decode, NTS id+AEAD when enabled, origin echo, metadata, timestamps; SCION: layer/type/length/IA/host); ValidateResponseMetadata equals the stated predicate on all 65536 (first byte, stratum) pairs; ProcessResponse stores cookies only after id match and authentication. Behaviour on concrete datagrams is not executed.",
   ref="DESIGN.md §4 C05"),
 "C09": dict(tech="static analysis: SSA CFG must-pass-through path queries + exact truth-table abstract interpretation of ValidateRequest / SetVersion / SetMode over all first bytes",
   text="Structural necessary conditions decided exactly for their clause: in both NTP listeners every path from the datagram read to the reply write passes decode, ValidateRequest and (unless len(payload)<=48) the six NTS tests; one write per read; reply to the read's source; reply bytes are the encoded handleRequest response; ValidateRequest equals the stated first-byte set on all 256 values; reply first byte (VN 4, mode 4) is disjoint from it; DecodePacket rejects <48 bytes. No datagram is executed.",
   ref="DESIGN.md §4 C09"),
 "C07": dict(tech="static analysis: lockset over package-level state, guarded-growth must-pass path queries, heap/map pairing and ordering rules on SSA",
   text="Structural necessary conditions decided exactly for their clause: every accessor of the timestamp store holds tssMu from before its first access to function exit (no early unlock, goroutine, channel op, pointer escape; heap methods only via container/heap inside holders) - hence race freedom and one critical section per operation; map inserts only where len(tss)!=2^20 or after a delete, per-client count grows only where len!=8, eviction only under full && !min.After(rxt) with delete of the popped key; insert<->Push, delete<->Pop/Remove, qval store->heap.Fix, rank decision on the pre-update buffer, Swap/Push/Pop/Less back-pointers and order. Heap order over histories is not decided.",
   ref="DESIGN.md §4 C07"),
 "C14": dict(tech="static analysis: writer/reader table extraction and comparison for fixed-layout codecs on SSA, decoder-totality path queries, truth tables for the LVM accessors, tag/arm agreement rules, full-read rule",
   text="Decided exactly for the fixed layouts (NTP header, CSPTP message, request/response TLVs, 48-bit timestamp): encoder and decoder byte<->(field,shift) relations are equal, each field byte once, offsets cover the declared length once, decoder assigns every field on every success path - which is round-trip/re-encode equality for these codecs; LVM accessors verified on all 256x256 cases; NTS extension type written == type accepted per kind, pairwise distinct, dispatch by kind, 4-byte padding; cookie TLV tag sets equal; NTS-KE record arms, nil only at end-of-message, stream consumed only by full reads. Variable-length fields for all lengths are not decided.",
   ref="DESIGN.md §4 C14"),
 "C20": dict(tech="static analysis: must-pass path queries over success returns (ALPN, record, exporter, cookie and algorithm gates), ordering rule for the critical bit, who-may-call and constant-argument rules for the TLS exporter, store-before-use and reset-on-failure path rules on SSA",
   text="Structural necessary conditions decided exactly for their clause: ALPN gate and offer; exchangeKeys succeeds only through all five success conditions per transport; ReadData: nil only at end-of-message, error record always fails, unknown record fails iff the critical bit (read before masking) was set, non-critical unknown consumed by a full BodyLen read; single key derivation with RFC 8915 constants given as fresh constant arrays, on the session the records were exchanged on; dial defaults replace f.data before records are read; every failed exchange clears f.data; re-key only when the pool is empty; clients address the fetched server/port; server message kinds, 8 cookies under provider.Current() carrying the exported keys in their own direction. TLS and exporter values themselves are trusted.",
   ref="DESIGN.md §4 C20"),
 "C16": dict(tech="static analysis: blocking-operation audit, select-arm path queries, send/receive counting rules and guard must-pass queries on SSA",
   text="Structural necessary conditions decided exactly for their clause: the collector's only blocking operation is one select with a <-ctx.Done() arm that leaves the loop, reference clocks are queried only from spawned goroutines, the round's context is WithTimeout(cfg.SyncTimeout); ms[j]=m only under m.Error==nil && j!=len(ms) with j++ and j returned; every received result is counted exactly once, every worker sends exactly once and never closes, one worker per clock, the drain receives len(ms)-i times and is started on every exit; CAS 0->1 guard with panicking failure arm and deferred 1->0. Scheduling and real time are not decided.",
   ref="DESIGN.md §4 C16"),
 "C06": dict(tech="static analysis: provenance of response/store fields, armed path queries (collision -> bump -> full rescan), recompute-after-store freshness rule, test-and-repair must-pass rules, listener pairing on SSA",
   text="Structural necessary conditions decided exactly for their clause: reply field provenance in basic and interleaved arms and the arm's guard; a collision with a stored receive timestamp reaches the reply/store only through the +1 bump and a complete rescan from index 0; 64-bit forms are recomputed after every store to *rxt/*txt before use; rx<tx test-and-repair after each bump and before updateTXTimestamp touches the store; kernel transmit time replaces the stored one only when different, otherwise the exchange is removed; all item accesses rooted at tss[clientID]; listeners hand the same client id and receive time to both calls, id from the datagram source, kernel tx time iff read ok with expected id. Behaviour over histories is not decided.",
   ref="DESIGN.md §4 C06"),
 "C12": dict(tech="static analysis: lockset over struct fields, must-pass validity/renewal gates, who-may-store rule for key identifiers, provenance of the validity window on SSA",
   text="Structural necessary conditions decided exactly for their clause: every accessor of keys/currentID/generatedAt holds p.mu (or is generateNext called only under the lock / the constructor on a fresh object); ids only by +1 behind the overflow panic, one insert under the new id; Get returns a key only through map hit and IsValidAt(time.Now()); IsValidAt == !Before(NotBefore)&&!After(NotAfter); Current returns without generating only through valid-now and generated-within-24h and returns keys[currentID] read afterwards; generateNext stamps generatedAt=NotBefore=time.Now(), NotAfter=+72h, retires only expired keys; constants 24h/72h. The day arithmetic and wall-clock steps are not decided.",
   ref="DESIGN.md §4 C12"),
 "C10": dict(tech="static analysis: associated-data coverage rules (seal/open argument provenance, cursor arithmetic, stop-at-authenticator path query), key-direction table, must-pass gates in both listeners, seal/open sibling agreement, constant-argument rule for the TLS exporter on SSA",
   text="Structural necessary conditions decided exactly for their clause: pack seals over buf[:pos] before writing its header at pos, DecodePacket records that position and reads no extension after the authenticator, authenticate opens the packet's own nonce/ciphertext over b[:Auth.pos]; request/response keys per direction on client, server and key-exchange server, exporter contexts fresh constants ending 0x00/0x01; cookie keys, new cookies and the response exist only behind ProcessRequest==nil on the cookie opened under provider.Get(cookie.ID); all AEADs AES-CMAC-SIV/16, cookie AD nil on both sides, Decrypt returns only via Open==nil and Decode==nil. AEAD security is trusted.",
   ref="DESIGN.md §4 C10"),
 "C11": dict(tech="static analysis: tag agreement, pop-on-every-success-path and request-from-this-fetch provenance rules, loop-bound recognition for placeholder and issue counts, fresh-allocation (no aliasing) rule for issued cookies, who-may-call rule for StoreCookie on SSA",
   text="Structural necessary conditions decided exactly for their clause: extension kinds typed as themselves; FetchData pops exactly the first cookie on every success path and returns the pre-pop copy; the request uses only Cookie[0], one cookie field, placeholders for i from len(cookies) to 8; clients build the request from this invocation's fetch outside any retry loop; servers issue len(Cookies)+len(Placeholders) cookies, each the freshly allocated Encode() of the session cookie sealed under provider.Current(); cookies stored only by ProcessResponse after authentication. Pool bounds over histories and the 1024-byte size budget are run-time arithmetic and are not decided (see DESIGN §5 for the known overflow at pool level 1).",
   ref="DESIGN.md §4 C11"),
 "C13": dict(tech="static analysis: MAC must-pass gates (armed path queries from the verifying CMAC call), MAC-input and key provenance, cache-hit gates, header-frozen-after-MAC ordering rule, swap-pair recognition and forwarding gates on SSA",
   text="Structural necessary conditions decided exactly for their clause: with a key and a matching authenticator the reply write (server) / success return (client) is reachable only through ConstantTimeCompare(option MAC, computed MAC) != 0, the MAC covering the decoded SCION layer and the received UDP datagram under the host-host key for this packet's source and addressed host; cached AS-level keys reused only on protocol/AS/host/epoch match; authenticated requests get PreparePacketAuthOpt(SPIServer)+CMAC under the verified key+serialised option, and no covered header field is changed after a MAC was computed; SPIs differ in the direction bit only; both reply arms swap IA/type/address (and ports), reverse the path, echo SCMP payload, go to the previous hop; forwarding only from the end-host port to other ports, unmodified. CMAC/DRKey internals are trusted.",
   ref="DESIGN.md §4 C13"),
 "C01": dict(tech="static analysis: linear-normal-form guard matching with must-pass queries, once-per-cycle path rules, clamp/midpoint recogniser over the phi tree of the actuated value, channel/source pairing on SSA",
   text="Structural necessary conditions decided exactly for their clause: the five start-up conditions (canonical linear form) lie on every path to the actuation and their failure panics; one adj.Do and one clk.Sleep(SyncInterval) per loop cycle; the actuated value is on every arm 0, clamp(ref, RCI*float64(Drift(SI))), clamp(peer, PCI*float64(Drift(SI))) under the peer flag set only beyond the cutoff, or their Midpoint, never a value carried over from an earlier round; ref/peer values come from their own rounds. Float rounding, FTM values and int64 extremes are not decided.",
   ref="DESIGN.md §4 C01"),
 "C19": dict(tech="static analysis: who-may-call rules, must-pass guard queries for Step/Adjust, sign-inversion parity of the step argument, reset-before-dispatch path rule, two-sided clamp recogniser on SSA",
   text="Structural necessary conditions decided exactly for their clause: the only Step call is in Pll.Do behind mode==1, mdt>2s, weight>3, |offset|>1ms, steps by the caller's offset (even inversion parity) and is followed by t0<-now and mode++; every path to the mode dispatch has epoch==clk.Epoch() or passed mode<-0 (epoch recorded); the only Adjust call gets Duration(p) with p = 0 outside tracking and two-sidedly clamped to +-ceil(dt)*500e-6 in tracking, and is reachable only through d > 0. Integrator finiteness and gains are not decided.",
   ref="DESIGN.md §4 C19"),
 "C02": dict(tech="static analysis: sort-before-read path rule, effect rule (no stores through the slice), canonical index expressions with opaque integer division, midpoint form recogniser, result-construction provenance on SSA",
   text="Structural premises of the containment lemma decided exactly: all element reads behind slices.Sort/SortFunc (comparator = cmp.Compare on Offset only); no writes through the slice; indices (n-1)/3 and n-1-(n-1)/3 (FTM), n/2 and n/2-1 with n%2 split (median); n==0 panics; Midpoint = x+(y-x)/2; measurement results built from Offset/Timestamp of the selected elements only (Error nil), timestamp = earlier+(later-earlier)/2. The lemma itself is mathematics stated in DESIGN.md, not re-derived.",
   ref="DESIGN.md §4 C02"),
 "C17": dict(tech="static analysis: written-field set vs. Reset assignments (reset completeness), epoch-test-before-state-read path rule, alias classification of sort arguments and window writes on SSA",
   text="History-independence and window-integrity clauses decided exactly: every field any method writes is assigned a history-independent value by Reset (scratch buffer exempt because it is fully overwritten before use, which is checked); in NtimedFilter.Do all reads of learned state are behind epoch==timebase.Epoch() or Reset(); the lucky-packet window is modified only by the one-slot shift when full and the append, sorting acts on the scratch copy only, selection is sort by delay, keep pick, sort by offset. The numeric selection rule and Ntimed arithmetic are not decided.",
   ref="DESIGN.md §4 C17"),
 "C18": dict(tech="static analysis: interval abstract interpretation over SSA integer operations (TimevalFromNsec), paired-store rule, codec table for the 48-bit timestamp, linear-form / single-division recognisers for the CSPTP formulas, constant agreement for ppm scaling",
   text="Finite/structural clauses decided exactly: Usec in [0,10^9) for every int64 input (sound intervals) with the -1/+10^9 fix-up paired on one edge over quotient/remainder by 10^9; 48-bit timestamp packing agrees both ways with range guards; ClockOffset/MeanPathDelay are a single division by two of the right integer combination, C2S/S2C delays their linear forms, correction fields >>16; one 65536e6 factor both ways; Drift = Duration(d.Seconds()*drift). The relational identity sec*1e9+usec==n and float rounding are not decided.",
   ref="DESIGN.md §4 C18"),
 "C15": dict(tech="static analysis: provenance of the fingerprint comparison, removal-idiom recogniser, armed reset path queries, argument provenance for crypto.Sample, reservoir-shape recogniser, error gates on SSA",
   text="Narrow structural clauses decided exactly: previous path matched against the fingerprint of the candidate currently at ps[j]; a match swap-removes that element, assigns it, ends the search; a client left without path passes ResetInterleavedMode and Filter.Reset (unless nil); Sample(k = clients without path, n = remaining candidates, overwrite callback) and Sample itself has the reservoir shape with k capped at n and errors propagated; Sample error and nsps+n==0 (errNoPath) stop the round; worker i gets client i and path i; result = FaultTolerantMidpoint of the collected slice. Distinctness/uniformity as value or probability properties are not decided.",
   ref="DESIGN.md §4 C15"),
 "C03": dict(tech="static analysis: provenance table (backward slices to tagged sources) for the four timestamps at their four use sites, written-only-after-acceptance must-pass rule for the remembered triple, request-copy and guard recognition, fresh-socket rule on SSA",
   text="The clause 'all four timestamps belong to one exchange' decided exactly as a provenance table both clients must match: same (t0..t3) at validation, offset, delay and filter; basic arm = this request's kernel/soft tx time, this response's fields, this datagram's kernel/soft rx time; interleaved arm = remembered triple (or the interleaved request's copies) and this response's transmit field; one era reference taken before the send; the triple is written once, only behind ValidateResponseTimestamps==nil, from this exchange's values; interleaved request copies the triple under mode/reference/age guard; own port-0 socket per exchange. The half-RTT bound and histories are not decided.",
   ref="DESIGN.md §4 C03"),
 "C08": dict(tech="static analysis: interprocedural taint (content/length) from the datagram and stream reads, control-dependence rule for fatal sinks, bounds obligations discharged by the compiler's bounds-check elimination and a linear prover (guard facts, reaching stores, phi/merge/call case splits, callee summaries, field invariants, caller lifting), cursor-progress rule, listener-read rule on SSA",
   text="Structural necessary conditions decided exactly for their clause, over the 14 receive loops/clients and everything reachable from them with network-derived data: (fatal) no panic / os.Exit / log-fatal is control dependent on a condition over network data, except behind library errors listed as assumed-infallible with a reason; (bounds) every index, slice, fixed-width read, unsafe.Pointer access and AEAD nonce length on network-sized data is in range - proved by the Go compiler's own bounds-check elimination or by the prover from dominating guards, or at every call site; (progress) every loop over network bytes advances its cursor by >= 1; (listener) the SCION PacketConn read used by the QUIC listener returns an error only for socket errors; (sources) the set of network reads is as inventoried. Panics inside library code (gopacket/slayers, quic-go, crypto/tls, miscreant other than nonce length) and resource exhaustion are not decided.",
   ref="DESIGN.md §4 C08"),
 "C04": dict(tech="static analysis: linear-inequality invariants over all paths of the two conversion functions (exact floor inequalities for integer division, shifts and constant multiplications; per-edge case split at merges; goals decided by Fourier-Motzkin refutation inside the analyzer), linear-form congruence check, cross-function composition of the sub-second conversions",
   text="Decided as linear invariants, for all values at once, no value computed: for every reference from 1970 on the second count handed to time.Unix by TimeFromTime64 lies in [tref-2^31, tref+2^31) on every path and is epoch + k*2^32 + Seconds (the unique representative within half an era, on both sides of an era boundary); Time64FromTime stores uint32(t.Unix()-epoch); the fraction floor(n*2^32/10^9) fits 32 bits for all n in [0,10^9); composed with the backward conversion n-1 <= n' <= n for all n (never later, at most 1 ns earlier). Order preservation is not decided as such (it follows from the monotone floor functions); the single point t-reference = +2^31 s and references before 1970 are outside the claim.",
   ref="DESIGN.md §A.7"),
}
NA = {
}
def main():
    here = os.path.dirname(os.path.dirname(os.path.abspath(__file__)))
    props = [json.loads(l)["id"] for l in open(os.path.join(here, "properties.jsonl"))]
    checks = []
    for pid in props:
        if pid not in CHECKS: continue
        c = CHECKS[pid]
        checks.append({
            "property_id": pid,
            "quick_cmd": RUN.format(id=pid, tier="quick"),
            "thorough_cmd": RUN.format(id=pid, tier="thorough"),
            "evidence_file": f"/verif/evidence/{pid}.json",
            "replay_cmd_template": "cat {path}",
            "engine": "scioncheck",
            "level_claimed": {"category": "other", "text": c["text"], "design_ref": c["ref"]},
            "level_note": NOTE,
            "technique": c["tech"],
        })
    na = []
    for pid in props:
        if pid in CHECKS: continue
        reason = NA.get(pid, "check not yet implemented and validated both ways (silent on the repaired tree, firing on seeded mutations); not claimed until it is - see DESIGN.md §7")
        na.append({"property_id": pid, "reason": reason})
    man = {
        "version": 1,
        "setup_cmd": ENV + "cd /verif && go build -o bin/scioncheck ./cmd/scioncheck && (cd /repo && go build ./... >/dev/null 2>&1 || true)",
        "hooks": {
            "guard": "verif",
            "enable": "no hooks: the checker analyses /repo's source as it is; the build tag `verif` is reserved and unused",
            "baseline_off_cmd": "for m in $(cat /w/out/gomods.txt); do MF=$(cd /repo/$m && . /w/out/goenv.sh && gomodflag); (cd /repo/$m && go test $MF -json -vet=off -count=1 -timeout 25m ./...); done",
            "source_commits": [],
            "add_only": True,
        },
        "engines": [{"name": "scioncheck", "path": "/verif/cmd/scioncheck", "serves_properties": sorted(CHECKS), "kind_free_text": "repository-specific static analyzer over go/packages + go/ssa: CFG path queries, provenance, truth tables, codec tables, lockset"}],
        "checks": checks,
        "notes": "All checks are static analyses of /repo's current working tree (no execution of scion-time code, no solver). Exit 0 = all obligations discharged (or only listed known findings), 1 = VIOLATION, 2 = BROKEN (tool failure; not evidence about the property). Known findings: /verif/known_findings.json. fix: commits in /repo are unguarded repairs of genuine defects.",
        "not_applicable": na,
    }
    json.dump(man, open(os.path.join(here, "MANIFEST.json"), "w"), indent=1)
    print("checks:", [c["property_id"] for c in checks], "na:", len(na))
if __name__ == "__main__":
    main()
