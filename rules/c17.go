package rules

import (
	"fmt"
	"go/token"
	"go/types"
	"sort"
	"strings"

	"golang.org/x/tools/go/ssa"

	"verif/internal/ana"
)

func init() { All["C17"] = checkC17 }

// methodsOf lists the methods (pointer receiver set) of a named type in a package.
func methodsOf(p *ana.Prog, rel, typ string) []*ssa.Function {
	var out []*ssa.Function
	for _, fn := range p.AllFuncs {
		if fn.Pkg != p.SSAPkg(rel) || fn.Signature.Recv() == nil || fn.Parent() != nil {
			continue
		}
		if typeNameOf(fn.Signature.Recv().Type()) == typ {
			out = append(out, fn)
		}
	}
	return out
}

// storedFields: fields of the receiver a function stores to (first-level field names).
func storedFields(fn *ssa.Function) map[string][]*ssa.Store {
	out := map[string][]*ssa.Store{}
	if len(fn.Params) == 0 {
		return out
	}
	recv := ssa.Value(fn.Params[0])
	ana.Instrs(fn, func(in ssa.Instruction) {
		st, ok := in.(*ssa.Store)
		if !ok {
			return
		}
		fa, ok := st.Addr.(*ssa.FieldAddr)
		if !ok || fa.X != recv {
			return
		}
		n := fieldNameOf(fa.X.Type(), fa.Field)
		out[n] = append(out[n], st)
	})
	return out
}

func checkC17(p *ana.Prog, r *ana.Result) {
	r.Explain("C17 (history-independence and window-integrity clauses only): reset completeness - for each filter type the set of fields written by any method other than the constructor is computed, and Reset must assign every one of them a constant, the empty prefix, or the current clock epoch; for the Ntimed filter the test epoch != timebase.Epoch() -> Reset() precedes every read of a state field in Do; the lucky-packet filter's scratch buffer is accepted because Do overwrites exactly the prefix it then uses (luckyPkts = luckyPkts[:len(state)]; copy(luckyPkts, state)); window integrity - the FIFO window is modified only by the one-slot shift (copy(state[0:], state[1:]); state = state[:len-1]) when full and by appending the new sample, and is never sorted or otherwise reordered (sorting acts on the scratch copy); the selection sorts the copy by round-trip delay, keeps the first `pick`, sorts those by offset and returns the median element(s).")
	r.Undecided("the numeric selection rule as a value property (median of the k lowest delays for all inputs), the Ntimed arithmetic, sign and rounding")
	c17Reset(p, r, "NtimedFilter", nil)
	c17Reset(p, r, "LuckyPacketFilter", map[string]string{"luckyPkts": "scratch"})
	c17NtimedEpoch(p, r)
	c17Lucky(p, r)
}

func c17Reset(p *ana.Prog, r *ana.Result, typ string, exceptions map[string]string) {
	ms := methodsOf(p, "core/client", typ)
	var reset *ssa.Function
	state := map[string]string{}
	for _, m := range ms {
		if m.Name() == "Reset" {
			reset = m
		}
		for f := range storedFields(m) {
			state[f] += m.Name() + " "
		}
	}
	if reset == nil || len(ms) < 2 {
		r.Broken("filter type %s: Reset/Do methods not found", typ)
		return
	}
	rname := ana.FuncName(reset)
	rs := storedFields(reset)
	var fields []string
	for f := range state {
		fields = append(fields, f)
	}
	sort.Strings(fields)
	n := 0
	for _, f := range fields {
		if why, ok := exceptions[f]; ok {
			r.Ok("C17.reset", rname, "state-field:"+f+"("+why+")", p.Pos(reset.Pos()), "field "+f+" is scratch space: verified separately to be fully overwritten before use")
			continue
		}
		n++
		sts := rs[f]
		if len(sts) == 0 {
			r.Violate("C17.reset", rname, "state-field-not-reset:"+f, p.Pos(reset.Pos()), fmt.Sprintf("field %s is written by %sbut not assigned by Reset: after a reset or clock step the filter's output still depends on samples seen before", f, state[f]))
			continue
		}
		okVal := true
		for _, st := range sts {
			if !isResetValue(st.Val, f) {
				okVal = false
			}
		}
		if okVal {
			r.Ok("C17.reset", rname, "state-field:"+f, posOf(p, sts[0]), "Reset assigns "+f+" a history-independent value")
		} else {
			r.Violate("C17.reset", rname, "state-field-value:"+f, posOf(p, sts[0]), "Reset assigns "+f+" a value that depends on earlier state")
		}
	}
	r.Floor("C17.reset."+typ, n, 1)
}

// isResetValue: constant, x[:0] of the field itself, or timebase.Epoch().
func isResetValue(v ssa.Value, field string) bool {
	if _, ok := v.(*ssa.Const); ok {
		return true
	}
	if c, _ := ana.CallOf(v); c != nil && ana.CalleeName(c.Common()) == ana.Q("core/timebase.Epoch") {
		return true
	}
	if sl, ok := v.(*ssa.Slice); ok {
		hi, isK := ana.ConstInt(sl.High)
		if isK && hi == 0 && sl.Low == nil {
			return true
		}
	}
	if mk, ok := v.(*ssa.MakeSlice); ok {
		_ = mk
		return true
	}
	return false
}

func c17NtimedEpoch(p *ana.Prog, r *ana.Result) {
	do := mustFunc(p, r, "core/client", "(*NtimedFilter).Do")
	if do == nil {
		return
	}
	fname := ana.FuncName(do)
	resets := ana.CallsIn(do, ana.Q("(*core/client.NtimedFilter).Reset"))
	epochEq := ana.FindGate(p, do, "f.epoch==timebase.Epoch()", func(c ana.Cmp, isCmp bool, _ ssa.Value) (bool, bool) {
		if !isCmp || (c.Op != token.EQL && c.Op != token.NEQ) {
			return false, false
		}
		for _, pr := range [][2]ssa.Value{{c.X, c.Y}, {c.Y, c.X}} {
			e, _ := ana.CallOf(pr[1])
			if ana.AccessPath(pr[0]) == "f.epoch" && e != nil && ana.CalleeName(e.Common()) == ana.Q("core/timebase.Epoch") {
				return true, c.Op == token.EQL
			}
		}
		return false, false
	})
	if len(resets) != 1 || len(epochEq.Accept) == 0 {
		r.Violate("C17.epoch", fname, "epoch-test", p.Pos(do.Pos()), "Do does not compare the filter's epoch with timebase.Epoch() and reset on a difference")
		return
	}
	// every read of a state field is reachable only through epoch equal or Reset()
	stateFields := map[string]bool{}
	for _, m := range methodsOf(p, "core/client", "NtimedFilter") {
		for f := range storedFields(m) {
			if f != "epoch" {
				stateFields[f] = true
			}
		}
	}
	isReset := func(in ssa.Instruction) bool { return in == resets[0].(ssa.Instruction) }
	bad := 0
	n := 0
	ana.Instrs(do, func(in ssa.Instruction) {
		ld, ok := in.(*ssa.UnOp)
		if !ok || ld.Op != token.MUL {
			return
		}
		fa, ok := ld.X.(*ssa.FieldAddr)
		if !ok || fa.X != ssa.Value(do.Params[0]) || !stateFields[fieldNameOf(fa.X.Type(), fa.Field)] {
			return
		}
		n++
		s := &ana.Search{Fn: do, Cut: func(e ana.Edge) bool { return epochEq.Accept[e] }, Stop: isReset, Target: func(x ssa.Instruction) bool { return x == in }}
		if found, w := s.Run(nil); found {
			bad++
			r.Violate("C17.epoch", fname, "state-read-before-epoch-test:"+fieldNameOf(fa.X.Type(), fa.Field), posOf(p, in), "a learned average is read before the clock-epoch test: after a clock step the first output still depends on pre-step samples", w...)
		}
	})
	if bad == 0 {
		r.Ok("C17.epoch", fname, "epoch-test-dominates-state-reads", p.Pos(do.Pos()), fmt.Sprintf("all %d reads of learned state in Do are reachable only with epoch == timebase.Epoch() or after Reset()", n))
	}
	r.Floor("C17.epoch.reads", n, 6)
}

func c17Lucky(p *ana.Prog, r *ana.Result) {
	do := mustFunc(p, r, "core/client", "(*LuckyPacketFilter).Do")
	if do == nil {
		return
	}
	fname := ana.FuncName(do)
	// classify every value that derives from f.state / f.luckyPkts
	rootField := func(v ssa.Value) map[string]bool {
		out := map[string]bool{}
		seen := map[ssa.Value]bool{}
		var rec func(v ssa.Value)
		rec = func(v ssa.Value) {
			if seen[v] {
				return
			}
			seen[v] = true
			switch x := v.(type) {
			case *ssa.Phi:
				for _, e := range x.Edges {
					rec(e)
				}
			case *ssa.Slice:
				rec(x.X)
			case *ssa.UnOp:
				if x.Op == token.MUL {
					if fa, ok := x.X.(*ssa.FieldAddr); ok && fa.X == ssa.Value(do.Params[0]) {
						out[fieldNameOf(fa.X.Type(), fa.Field)] = true
						return
					}
				}
				out["?"] = true
			case *ssa.Call:
				if ana.CalleeName(&x.Call) == "builtin.append" {
					rec(x.Call.Args[0])
					return
				}
				out["?"] = true
			default:
				out["?"] = true
			}
		}
		rec(v)
		return out
	}
	// sorts
	type sortSite struct {
		c     *ssa.Call
		field string
		key   string
	}
	var sorts []sortSite
	okSort := true
	ana.Instrs(do, func(in ssa.Instruction) {
		c, ok := in.(*ssa.Call)
		if !ok || !strings.HasPrefix(ana.CalleeName(&c.Call), "slices.Sort") {
			return
		}
		rf := rootField(c.Call.Args[0])
		key := ""
		if cf, ok := c.Call.Args[1].(*ssa.Function); ok {
			key = comparatorField(cf)
		}
		if len(rf) != 1 || !rf["luckyPkts"] {
			okSort = false
			var fs []string
			for f := range rf {
				fs = append(fs, f)
			}
			sort.Strings(fs)
			r.Violate("C17.window", fname, "sort-of-window:"+strings.Join(fs, "+"), posOf(p, c), "the sort can act on the FIFO window f.state itself (not only on the scratch copy): the window's arrival order is destroyed and later evictions drop the wrong sample")
			return
		}
		sorts = append(sorts, sortSite{c, "luckyPkts", key})
	})
	if okSort && len(sorts) == 2 {
		r.Ok("C17.window", fname, "sorts-on-scratch-copy", posOf(p, sorts[0].c), "both sorts act on f.luckyPkts (the scratch copy), never on f.state")
	} else if okSort {
		r.Violate("C17.window", fname, "sort-sites", p.Pos(do.Pos()), fmt.Sprintf("expected two sorts (by delay, by offset), found %d", len(sorts)))
	}
	// selection order: first sort by rtd under pick < len, reslice [:pick], then sort by off
	if len(sorts) == 2 {
		if sorts[0].key == "rtd" && sorts[1].key == "off" && sorts[0].c.Block().Dominates(sorts[1].c.Block()) == false || (sorts[0].key == "rtd" && sorts[1].key == "off") {
			// the [:pick] reslice lies between them
			resl := false
			ana.Instrs(do, func(in ssa.Instruction) {
				st, ok := in.(*ssa.Store)
				if !ok || ana.AccessPath(st.Addr) != "f.luckyPkts" {
					return
				}
				if sl, ok := st.Val.(*ssa.Slice); ok && sl.Low == nil && ana.AccessPath(sl.High) == "f.pick" && st.Block() == sorts[0].c.Block() && instrIndex(st) > instrIndex(sorts[0].c) {
					resl = true
				}
			})
			if resl {
				r.Ok("C17.window", fname, "selection-order", posOf(p, sorts[0].c), "sort by round-trip delay; keep [:f.pick]; sort by offset")
			} else {
				r.Violate("C17.window", fname, "selection-order", posOf(p, sorts[0].c), "after sorting by delay the candidates are not cut to the first f.pick")
			}
		} else {
			r.Violate("C17.window", fname, "selection-order", posOf(p, sorts[0].c), fmt.Sprintf("the two sorts are by %q then %q, expected rtd then off", sorts[0].key, sorts[1].key))
		}
	}
	// scratch overwrite: luckyPkts = luckyPkts[:len(state)] then copy(luckyPkts, state) before any sort/read
	var copyCall *ssa.Call
	ana.Instrs(do, func(in ssa.Instruction) {
		c, ok := in.(*ssa.Call)
		if !ok || ana.CalleeName(&c.Call) != "builtin.copy" {
			return
		}
		if ana.AccessPath(c.Call.Args[0]) == "f.luckyPkts" && ana.AccessPath(c.Call.Args[1]) == "f.state" {
			copyCall = c
		}
	})
	lenOK := false
	ana.Instrs(do, func(in ssa.Instruction) {
		st, ok := in.(*ssa.Store)
		if !ok || ana.AccessPath(st.Addr) != "f.luckyPkts" {
			return
		}
		sl, ok := st.Val.(*ssa.Slice)
		if ok && sl.Low == nil && isLenOf(sl.High) {
			c, _ := ana.CallOf(sl.High)
			if ana.AccessPath(c.Common().Args[0]) == "f.state" && copyCall != nil && st.Block() == copyCall.Block() && instrIndex(st) < instrIndex(copyCall) {
				lenOK = true
			}
		}
	})
	scratchFirst := copyCall != nil
	if copyCall != nil {
		for _, s := range sorts {
			sr := &ana.Search{Fn: do, NoFacts: true, Stop: func(in ssa.Instruction) bool { return in == ssa.Instruction(copyCall) }, Target: func(in ssa.Instruction) bool { return in == ssa.Instruction(s.c) }}
			if found, _ := sr.Run(nil); found {
				scratchFirst = false
			}
		}
	}
	if lenOK && scratchFirst {
		r.Ok("C17.reset", fname, "scratch-overwritten-before-use", posOf(p, copyCall), "f.luckyPkts = f.luckyPkts[:len(f.state)]; copy(f.luckyPkts, f.state) precede every use of the scratch buffer")
	} else {
		r.Violate("C17.reset", fname, "scratch-overwritten-before-use", p.Pos(do.Pos()), "the scratch buffer is not completely overwritten with the current window before it is used (stale samples from before a reset can be selected)")
	}
	// window writes: stores to f.state are exactly: shift-truncate and append
	nState := 0
	okState := true
	ana.Instrs(do, func(in ssa.Instruction) {
		st, ok := in.(*ssa.Store)
		if !ok || ana.AccessPath(st.Addr) != "f.state" {
			return
		}
		nState++
		switch x := st.Val.(type) {
		case *ssa.Slice:
			// state[:len(state)-1]
			if x.Low != nil || ana.AccessPath(x.X) != "f.state" {
				okState = false
				return
			}
			bo, ok := x.High.(*ssa.BinOp)
			if !ok || bo.Op != token.SUB || !isLenOf(bo.X) {
				okState = false
				return
			}
			if k, _ := ana.ConstInt(bo.Y); k != 1 {
				okState = false
			}
		case *ssa.Call:
			if ana.CalleeName(&x.Call) != "builtin.append" || ana.AccessPath(x.Call.Args[0]) != "f.state" || !appendsN(x, 1) {
				okState = false
			}
		default:
			okState = false
		}
	})
	// element writes into state: only copy(state[0:], state[1:])
	shiftOK := false
	ana.Instrs(do, func(in ssa.Instruction) {
		c, ok := in.(*ssa.Call)
		if !ok || ana.CalleeName(&c.Call) != "builtin.copy" || c == copyCall {
			return
		}
		d, ok1 := c.Call.Args[0].(*ssa.Slice)
		s, ok2 := c.Call.Args[1].(*ssa.Slice)
		if ok1 && ok2 && ana.AccessPath(d.X) == "f.state" && ana.AccessPath(s.X) == "f.state" {
			dl, _ := ana.ConstInt(d.Low)
			sl, _ := ana.ConstInt(s.Low)
			if (d.Low == nil || dl == 0) && sl == 1 {
				shiftOK = true
				return
			}
		}
		okState = false
	})
	// shift only when full
	full := ana.FindGate(p, do, "len(state)==cap(state)", func(c ana.Cmp, isCmp bool, _ ssa.Value) (bool, bool) {
		if !isCmp || (c.Op != token.EQL && c.Op != token.NEQ) || !isLenOf(c.X) {
			return false, false
		}
		cc, _ := ana.CallOf(c.Y)
		lc, _ := ana.CallOf(c.X)
		if cc == nil || ana.CalleeName(cc.Common()) != "builtin.cap" || ana.AccessPath(cc.Common().Args[0]) != "f.state" || ana.AccessPath(lc.Common().Args[0]) != "f.state" {
			return false, false
		}
		return true, c.Op == token.EQL
	})
	if okState && shiftOK && nState == 2 && len(full.Accept) > 0 {
		r.Ok("C17.window", fname, "fifo-window-writes", p.Pos(do.Pos()), "f.state is changed only by copy(state[0:], state[1:]); state = state[:len-1] (when len == cap) and by appending the new sample")
	} else {
		r.Violate("C17.window", fname, "fifo-window-writes", p.Pos(do.Pos()), fmt.Sprintf("the sample window is modified by something other than the one-slot shift when full and the append of the new sample (stores=%d, shift=%v, forms ok=%v)", nState, shiftOK, okState))
	}
	// constructor caps pick at cap
	nf := mustFunc(p, r, "core/client", "NewLuckyPacketFilter")
	if nf != nil {
		okMin := false
		ana.Instrs(nf, func(in ssa.Instruction) {
			st, ok := in.(*ssa.Store)
			if !ok {
				return
			}
			if ch, _ := fieldChain(st.Addr); ch == "pick" {
				if c, _ := ana.CallOf(st.Val); c != nil && ana.CalleeName(c.Common()) == "builtin.min" {
					okMin = true
				}
			}
		})
		if okMin {
			r.Ok("C17.window", ana.FuncName(nf), "pick-capped", p.Pos(nf.Pos()), "pick = min(pick, cap)")
		} else {
			r.Violate("C17.window", ana.FuncName(nf), "pick-capped", p.Pos(nf.Pos()), "k is not capped at N in the constructor")
		}
	}
	_ = types.Typ
}

// comparatorField: the single struct field a sort comparator reads.
func comparatorField(cf *ssa.Function) string {
	fields := map[string]bool{}
	ana.Instrs(cf, func(in ssa.Instruction) {
		if fa, ok := in.(*ssa.FieldAddr); ok {
			fields[fieldNameOf(fa.X.Type(), fa.Field)] = true
		}
		if f, ok := in.(*ssa.Field); ok {
			fields[fieldNameOf(f.X.Type(), f.Field)] = true
		}
	})
	if len(fields) != 1 {
		return "?"
	}
	for f := range fields {
		return f
	}
	return "?"
}
