package rules

import (
	"fmt"
	"go/constant"
	"go/token"
	"go/types"
	"os"
	"sort"
	"strings"

	"golang.org/x/tools/go/ssa"

	"verif/internal/ana"
)

func init() { All["C17"] = checkC17 }

// methodsOf lists the methods (pointer receiver set) of a named type in a package.
func methodsOf(p *ana.Prog, rel, typ string) []*ssa.Function {
	var out []*ssa.Function
	for _, fn := range p.AllFuncs {
		if fn.Pkg != p.SSAPkg(rel) || fn.Signature.Recv() == nil || fn.Parent() != nil {
			continue
		}
		if typeNameOf(fn.Signature.Recv().Type()) == typ {
			out = append(out, fn)
		}
	}
	return out
}

// fieldStore is an assignment to one field of the receiver: a store to the field, or the
// field's part of an assignment of the whole struct (*f = T{...}); At is the instruction.
type fieldStore struct {
	Val ssa.Value
	At  *ssa.Store
}

// storedFields: fields of the receiver a function assigns (first-level field names). A
// whole-struct assignment from a composite literal assigns every field: the listed value, or
// zero. A field given its own current value (log: f.log) is not an assignment.
func storedFields(fn *ssa.Function) map[string][]fieldStore {
	out := map[string][]fieldStore{}
	if len(fn.Params) == 0 {
		return out
	}
	recv := ssa.Value(fn.Params[0])
	ana.Instrs(fn, func(in ssa.Instruction) {
		st, ok := in.(*ssa.Store)
		if !ok {
			return
		}
		if st.Addr == recv {
			pt, ok := recv.Type().Underlying().(*types.Pointer)
			if !ok {
				return
			}
			stt, ok := pt.Elem().Underlying().(*types.Struct)
			if !ok {
				return
			}
			vals := map[string]ssa.Value{}
			known := false
			if c, isC := st.Val.(*ssa.Const); isC && c.Value == nil {
				known = true
			} else if m := structLit(st.Val); m != nil {
				vals, known = m, true
			}
			for i := 0; i < stt.NumFields(); i++ {
				f := stt.Field(i)
				v, has := vals[f.Name()]
				if !known {
					out[f.Name()] = append(out[f.Name()], fieldStore{st.Val, st}) // opaque value
					continue
				}
				if !has {
					v = ssa.NewConst(nil, f.Type()) // zero
					if b, isB := f.Type().Underlying().(*types.Basic); isB && b.Info()&types.IsNumeric != 0 {
						v = ssa.NewConst(constant.MakeInt64(0), f.Type())
						if b.Info()&types.IsFloat != 0 {
							v = ssa.NewConst(constant.MakeFloat64(0), f.Type())
						}
					}
				} else if ld, isLd := v.(*ssa.UnOp); isLd && ld.Op == token.MUL {
					if fa, isFA := ld.X.(*ssa.FieldAddr); isFA && fa.X == recv && fa.Field == i {
						continue // keeps its value
					}
				}
				out[f.Name()] = append(out[f.Name()], fieldStore{v, st})
			}
			return
		}
		fa, ok := st.Addr.(*ssa.FieldAddr)
		if !ok || fa.X != recv {
			return
		}
		n := fieldNameOf(fa.X.Type(), fa.Field)
		out[n] = append(out[n], fieldStore{st.Val, st})
	})
	return out
}

func checkC17(p *ana.Prog, r *ana.Result) {
	r.Explain("C17 (history-independence and window-integrity clauses only): reset completeness - for each filter type the set of fields written by any method other than the constructor is computed, and Reset must assign every one of them a constant, the empty prefix, or the current clock epoch; for the Ntimed filter the test epoch != timebase.Epoch() -> Reset() precedes every read of a state field in Do; the lucky-packet filter's scratch buffer is accepted because Do overwrites exactly the prefix it then uses (luckyPkts = luckyPkts[:len(state)]; copy(luckyPkts, state)); window integrity - the FIFO window is modified only by the one-slot shift (copy(state[0:], state[1:]); state = state[:len-1]) when full and by appending the new sample, and is never sorted or otherwise reordered (sorting acts on the scratch copy); the selection sorts the copy by round-trip delay, keeps the first `pick`, sorts those by offset and returns the median element(s).")
	r.Undecided("the numeric selection rule as a value property (median of the k lowest delays for all inputs), the Ntimed arithmetic, sign and rounding")
	c17Reset(p, r, "NtimedFilter", nil)
	c17Reset(p, r, "LuckyPacketFilter", map[string]string{"luckyPkts": "scratch"})
	c17NtimedEpoch(p, r)
	c17NtimedRaw(p, r)
	c17Lucky(p, r)
}

func c17Reset(p *ana.Prog, r *ana.Result, typ string, exceptions map[string]string) {
	ms := methodsOf(p, "core/client", typ)
	var reset *ssa.Function
	state := map[string]string{}
	for _, m := range ms {
		if m.Name() == "Reset" {
			reset = m
		}
		for f := range storedFields(m) {
			state[f] += m.Name() + " "
		}
	}
	if reset == nil || len(ms) < 2 {
		r.Broken("filter type %s: Reset/Do methods not found", typ)
		return
	}
	rname := ana.FuncName(reset)
	rs := storedFields(reset)
	var fields []string
	for f := range state {
		fields = append(fields, f)
	}
	sort.Strings(fields)
	n := 0
	for _, f := range fields {
		if why, ok := exceptions[f]; ok {
			r.Ok("C17.reset", rname, "state-field:"+f+"("+why+")", p.Pos(reset.Pos()), "field "+f+" is scratch space: verified separately to be fully overwritten before use")
			continue
		}
		n++
		sts := rs[f]
		if len(sts) == 0 {
			r.Violate("C17.reset", rname, "state-field-not-reset:"+f, p.Pos(reset.Pos()), fmt.Sprintf("field %s is written by %sbut not assigned by Reset: after a reset or clock step the filter's output still depends on samples seen before", f, state[f]))
			continue
		}
		okVal := true
		for _, st := range sts {
			if !isResetValue(st.Val, f) {
				okVal = false
			}
		}
		if okVal {
			r.Ok("C17.reset", rname, "state-field:"+f, posOf(p, sts[0].At), "Reset assigns "+f+" a history-independent value")
		} else {
			r.Violate("C17.reset", rname, "state-field-value:"+f, posOf(p, sts[0].At), "Reset assigns "+f+" a value that depends on earlier state")
		}
	}
	r.Floor("C17.reset."+typ, n, 1)
}

// isResetValue: constant, x[:0] of the field itself, or timebase.Epoch().
func isResetValue(v ssa.Value, field string) bool {
	if _, ok := v.(*ssa.Const); ok {
		return true
	}
	if c, _ := ana.CallOf(v); c != nil && ana.CalleeName(c.Common()) == ana.Q("core/timebase.Epoch") {
		return true
	}
	if sl, ok := v.(*ssa.Slice); ok {
		hi, isK := ana.ConstInt(sl.High)
		if isK && hi == 0 && sl.Low == nil {
			return true
		}
	}
	if mk, ok := v.(*ssa.MakeSlice); ok {
		_ = mk
		return true
	}
	return false
}

func c17NtimedEpoch(p *ana.Prog, r *ana.Result) {
	do := mustFunc(p, r, "core/client", "(*NtimedFilter).Do")
	if do == nil {
		return
	}
	fname := ana.FuncName(do)
	resets := ana.CallsIn(do, ana.Q("(*core/client.NtimedFilter).Reset"))
	epochEq := ana.FindGate(p, do, "f.epoch==timebase.Epoch()", func(c ana.Cmp, isCmp bool, _ ssa.Value) (bool, bool) {
		if !isCmp || (c.Op != token.EQL && c.Op != token.NEQ) {
			return false, false
		}
		for _, pr := range [][2]ssa.Value{{c.X, c.Y}, {c.Y, c.X}} {
			e, _ := ana.CallOf(pr[1])
			if ana.AccessPath(pr[0]) == "f.epoch" && e != nil && ana.CalleeName(e.Common()) == ana.Q("core/timebase.Epoch") {
				return true, c.Op == token.EQL
			}
		}
		return false, false
	})
	if len(resets) != 1 || len(epochEq.Accept) == 0 {
		r.Violate("C17.epoch", fname, "epoch-test", p.Pos(do.Pos()), "Do does not compare the filter's epoch with timebase.Epoch() and reset on a difference")
		return
	}
	// every read of a state field is reachable only through epoch equal or Reset()
	stateFields := map[string]bool{}
	for _, m := range methodsOf(p, "core/client", "NtimedFilter") {
		for f := range storedFields(m) {
			if f != "epoch" {
				stateFields[f] = true
			}
		}
	}
	isReset := func(in ssa.Instruction) bool { return in == resets[0].(ssa.Instruction) }
	bad := 0
	n := 0
	ana.Instrs(do, func(in ssa.Instruction) {
		ld, ok := in.(*ssa.UnOp)
		if !ok || ld.Op != token.MUL {
			return
		}
		fa, ok := ld.X.(*ssa.FieldAddr)
		if !ok || fa.X != ssa.Value(do.Params[0]) || !stateFields[fieldNameOf(fa.X.Type(), fa.Field)] {
			return
		}
		n++
		s := &ana.Search{Fn: do, Cut: func(e ana.Edge) bool { return epochEq.Accept[e] }, Stop: isReset, Target: func(x ssa.Instruction) bool { return x == in }}
		if found, w := s.Run(nil); found {
			bad++
			r.Violate("C17.epoch", fname, "state-read-before-epoch-test:"+fieldNameOf(fa.X.Type(), fa.Field), posOf(p, in), "a learned average is read before the clock-epoch test: after a clock step the first output still depends on pre-step samples", w...)
		}
	})
	if bad == 0 {
		r.Ok("C17.epoch", fname, "epoch-test-dominates-state-reads", p.Pos(do.Pos()), fmt.Sprintf("all %d reads of learned state in Do are reachable only with epoch == timebase.Epoch() or after Reset()", n))
	}
	r.Floor("C17.epoch.reads", n, 6)
}

func c17Lucky(p *ana.Prog, r *ana.Result) {
	do := mustFunc(p, r, "core/client", "(*LuckyPacketFilter).Do")
	if do == nil {
		return
	}
	fname := ana.FuncName(do)
	// classify every value that derives from f.state / f.luckyPkts
	rootField := func(v ssa.Value) map[string]bool {
		out := map[string]bool{}
		seen := map[ssa.Value]bool{}
		var rec func(v ssa.Value)
		rec = func(v ssa.Value) {
			if seen[v] {
				return
			}
			seen[v] = true
			switch x := v.(type) {
			case *ssa.Phi:
				for _, e := range x.Edges {
					rec(e)
				}
			case *ssa.Slice:
				rec(x.X)
			case *ssa.UnOp:
				if x.Op == token.MUL {
					if fa, ok := x.X.(*ssa.FieldAddr); ok && fa.X == ssa.Value(do.Params[0]) {
						out[fieldNameOf(fa.X.Type(), fa.Field)] = true
						return
					}
				}
				out["?"] = true
			case *ssa.Call:
				if ana.CalleeName(&x.Call) == "builtin.append" {
					rec(x.Call.Args[0])
					return
				}
				out["?"] = true
			default:
				out["?"] = true
			}
		}
		rec(v)
		return out
	}
	// sorts
	type sortSite struct {
		c     *ssa.Call
		field string
		key   string
	}
	var sorts []sortSite
	okSort := true
	ana.Instrs(do, func(in ssa.Instruction) {
		c, ok := in.(*ssa.Call)
		if !ok || !strings.HasPrefix(ana.CalleeName(&c.Call), "slices.Sort") {
			return
		}
		rf := rootField(c.Call.Args[0])
		key := ""
		if cf, ok := c.Call.Args[1].(*ssa.Function); ok {
			key = comparatorField(cf)
		}
		if len(rf) != 1 || !rf["luckyPkts"] {
			okSort = false
			var fs []string
			for f := range rf {
				fs = append(fs, f)
			}
			sort.Strings(fs)
			r.Violate("C17.window", fname, "sort-of-window:"+strings.Join(fs, "+"), posOf(p, c), "the sort can act on the FIFO window f.state itself (not only on the scratch copy): the window's arrival order is destroyed and later evictions drop the wrong sample")
			return
		}
		sorts = append(sorts, sortSite{c, "luckyPkts", key})
	})
	if okSort && len(sorts) == 2 {
		r.Ok("C17.window", fname, "sorts-on-scratch-copy", posOf(p, sorts[0].c), "both sorts act on f.luckyPkts (the scratch copy), never on f.state")
	} else if okSort {
		r.Violate("C17.window", fname, "sort-sites", p.Pos(do.Pos()), fmt.Sprintf("expected two sorts (by delay, by offset), found %d", len(sorts)))
	}
	// selection order: first sort by rtd under pick < len, reslice [:pick], then sort by off
	if len(sorts) == 2 {
		// execution order, not block numbering: the first is the one from which the other is reached
		reach := func(a, b *ssa.Call) bool {
			s := &ana.Search{Fn: do, NoFacts: true, Target: func(in ssa.Instruction) bool { return in == ssa.Instruction(b) }}
			found, _ := s.Run(a)
			return found
		}
		if reach(sorts[1].c, sorts[0].c) && !reach(sorts[0].c, sorts[1].c) {
			sorts[0], sorts[1] = sorts[1], sorts[0]
		}
		if sorts[0].key == "rtd" && sorts[1].key == "off" && sorts[0].c.Block().Dominates(sorts[1].c.Block()) == false || (sorts[0].key == "rtd" && sorts[1].key == "off") {
			// the [:pick] reslice lies between them
			resl := false
			ana.Instrs(do, func(in ssa.Instruction) {
				st, ok := in.(*ssa.Store)
				if !ok || ana.AccessPath(st.Addr) != "f.luckyPkts" {
					return
				}
				if sl, ok := st.Val.(*ssa.Slice); ok && sl.Low == nil && ana.AccessPath(sl.High) == "f.pick" && st.Block() == sorts[0].c.Block() && instrIndex(st) > instrIndex(sorts[0].c) {
					resl = true
				}
			})
			if resl {
				r.Ok("C17.window", fname, "selection-order", posOf(p, sorts[0].c), "sort by round-trip delay; keep [:f.pick]; sort by offset")
			} else {
				r.Violate("C17.window", fname, "selection-order", posOf(p, sorts[0].c), "after sorting by delay the candidates are not cut to the first f.pick")
			}
		} else {
			r.Violate("C17.window", fname, "selection-order", posOf(p, sorts[0].c), fmt.Sprintf("the two sorts are by %q then %q, expected rtd then off", sorts[0].key, sorts[1].key))
		}
	}
	// scratch overwrite: luckyPkts = luckyPkts[:len(state)] then copy(luckyPkts, state) before any sort/read
	var copyCall *ssa.Call
	ana.Instrs(do, func(in ssa.Instruction) {
		c, ok := in.(*ssa.Call)
		if !ok || ana.CalleeName(&c.Call) != "builtin.copy" {
			return
		}
		if ana.AccessPath(c.Call.Args[0]) == "f.luckyPkts" && ana.AccessPath(c.Call.Args[1]) == "f.state" {
			copyCall = c
		}
	})
	lenOK := false
	ana.Instrs(do, func(in ssa.Instruction) {
		st, ok := in.(*ssa.Store)
		if !ok || ana.AccessPath(st.Addr) != "f.luckyPkts" {
			return
		}
		sl, ok := st.Val.(*ssa.Slice)
		if ok && sl.Low == nil && isLenOf(sl.High) {
			c, _ := ana.CallOf(sl.High)
			if ana.AccessPath(c.Common().Args[0]) == "f.state" && copyCall != nil && st.Block() == copyCall.Block() && instrIndex(st) < instrIndex(copyCall) {
				lenOK = true
			}
		}
	})
	scratchFirst := copyCall != nil
	if copyCall != nil {
		for _, s := range sorts {
			sr := &ana.Search{Fn: do, NoFacts: true, Stop: func(in ssa.Instruction) bool { return in == ssa.Instruction(copyCall) }, Target: func(in ssa.Instruction) bool { return in == ssa.Instruction(s.c) }}
			if found, _ := sr.Run(nil); found {
				scratchFirst = false
			}
		}
	}
	if lenOK && scratchFirst {
		r.Ok("C17.reset", fname, "scratch-overwritten-before-use", posOf(p, copyCall), "f.luckyPkts = f.luckyPkts[:len(f.state)]; copy(f.luckyPkts, f.state) precede every use of the scratch buffer")
	} else {
		r.Violate("C17.reset", fname, "scratch-overwritten-before-use", p.Pos(do.Pos()), "the scratch buffer is not completely overwritten with the current window before it is used (stale samples from before a reset can be selected)")
	}
	// window writes: stores to f.state are exactly: shift-truncate and append
	nState := 0
	okState := true
	ana.Instrs(do, func(in ssa.Instruction) {
		st, ok := in.(*ssa.Store)
		if !ok || ana.AccessPath(st.Addr) != "f.state" {
			return
		}
		nState++
		switch x := st.Val.(type) {
		case *ssa.Slice:
			// state[:len(state)-1]
			if x.Low != nil || ana.AccessPath(x.X) != "f.state" {
				okState = false
				return
			}
			bo, ok := x.High.(*ssa.BinOp)
			if !ok || bo.Op != token.SUB || !isLenOf(bo.X) {
				okState = false
				return
			}
			if k, _ := ana.ConstInt(bo.Y); k != 1 {
				okState = false
			}
		case *ssa.Call:
			if ana.CalleeName(&x.Call) != "builtin.append" || ana.AccessPath(x.Call.Args[0]) != "f.state" || !appendsN(x, 1) {
				okState = false
			}
		default:
			okState = false
		}
	})
	// element writes into state: only copy(state[0:], state[1:])
	shiftOK := false
	ana.Instrs(do, func(in ssa.Instruction) {
		c, ok := in.(*ssa.Call)
		if !ok || ana.CalleeName(&c.Call) != "builtin.copy" || c == copyCall {
			return
		}
		d, ok1 := c.Call.Args[0].(*ssa.Slice)
		s, ok2 := c.Call.Args[1].(*ssa.Slice)
		if ok1 && ok2 && ana.AccessPath(d.X) == "f.state" && ana.AccessPath(s.X) == "f.state" {
			dl, _ := ana.ConstInt(d.Low)
			sl, _ := ana.ConstInt(s.Low)
			if (d.Low == nil || dl == 0) && sl == 1 {
				shiftOK = true
				return
			}
		}
		okState = false
	})
	// the same shift written as a loop: for i := 1; i < len; i++ { state[i-1] = state[i] }
	ana.Instrs(do, func(in ssa.Instruction) {
		st, ok := in.(*ssa.Store)
		if !ok {
			return
		}
		ia, ok := st.Addr.(*ssa.IndexAddr)
		if !ok || ana.AccessPath(ia.X) != "f.state" {
			return
		}
		good := false
		if sub, ok := ia.Index.(*ssa.BinOp); ok && sub.Op == token.SUB {
			if k, _ := ana.ConstInt(sub.Y); k == 1 {
				if ph, ok := sub.X.(*ssa.Phi); ok {
					from1 := false
					for _, e := range ph.Edges {
						if k, ok := ana.ConstInt(e); ok && k == 1 {
							from1 = true
						}
					}
					if ld, ok := st.Val.(*ssa.UnOp); ok && from1 {
						if ia2, ok := ld.X.(*ssa.IndexAddr); ok && ia2.Index == ssa.Value(ph) && ana.AccessPath(ia2.X) == "f.state" {
							good = true
						}
					}
				}
			}
		}
		if good {
			shiftOK = true
		} else {
			okState = false
		}
	})
	// shift only when full
	full := ana.FindGate(p, do, "len(state)==cap(state)", func(c ana.Cmp, isCmp bool, _ ssa.Value) (bool, bool) {
		if !isCmp || (c.Op != token.EQL && c.Op != token.NEQ) || !isLenOf(c.X) {
			return false, false
		}
		cc, _ := ana.CallOf(c.Y)
		lc, _ := ana.CallOf(c.X)
		if cc == nil || ana.CalleeName(cc.Common()) != "builtin.cap" || ana.AccessPath(cc.Common().Args[0]) != "f.state" || ana.AccessPath(lc.Common().Args[0]) != "f.state" {
			return false, false
		}
		return true, c.Op == token.EQL
	})
	if okState && shiftOK && nState == 2 && len(full.Accept) > 0 {
		r.Ok("C17.window", fname, "fifo-window-writes", p.Pos(do.Pos()), "f.state is changed only by copy(state[0:], state[1:]); state = state[:len-1] (when len == cap) and by appending the new sample")
	} else {
		r.Violate("C17.window", fname, "fifo-window-writes", p.Pos(do.Pos()), fmt.Sprintf("the sample window is modified by something other than the one-slot shift when full and the append of the new sample (stores=%d, shift=%v, forms ok=%v)", nState, shiftOK, okState))
	}
	// constructor caps pick at cap
	nf := mustFunc(p, r, "core/client", "NewLuckyPacketFilter")
	if nf != nil {
		okMin := false
		ana.Instrs(nf, func(in ssa.Instruction) {
			st, ok := in.(*ssa.Store)
			if !ok {
				return
			}
			if ch, _ := fieldChain(st.Addr); ch == "pick" {
				if c, _ := ana.CallOf(st.Val); c != nil && ana.CalleeName(c.Common()) == "builtin.min" {
					okMin = true
				}
			}
		})
		if okMin {
			r.Ok("C17.window", ana.FuncName(nf), "pick-capped", p.Pos(nf.Pos()), "pick = min(pick, cap)")
		} else {
			r.Violate("C17.window", ana.FuncName(nf), "pick-capped", p.Pos(nf.Pos()), "k is not capped at N in the constructor")
		}
	}
	_ = types.Typ
}

// comparatorField: the single struct field a sort comparator reads.
func comparatorField(cf *ssa.Function) string {
	fields := map[string]bool{}
	ana.Instrs(cf, func(in ssa.Instruction) {
		if fa, ok := in.(*ssa.FieldAddr); ok {
			fields[fieldNameOf(fa.X.Type(), fa.Field)] = true
		}
		if f, ok := in.(*ssa.Field); ok {
			fields[fieldNameOf(f.X.Type(), f.Field)] = true
		}
	})
	if len(fields) != 1 {
		return "?"
	}
	for f := range fields {
		return f
	}
	return "?"
}

// c17NtimedRaw: the clause "raw offset (correct sign) while fewer than four
// samples have been seen since the last reset and whenever the sample lies
// within the learned bounds" over the sample counter's finite domain.
func c17NtimedRaw(p *ana.Prog, r *ana.Result) {
	do := mustFunc(p, r, "core/client", "(*NtimedFilter).Do")
	comb := mustFunc(p, r, "core/client", "combine")
	if do == nil || comb == nil {
		return
	}
	fname := ana.FuncName(do)
	isNavgLoad := func(v ssa.Value) bool {
		u, ok := v.(*ssa.UnOp)
		if !ok || u.Op != token.MUL {
			return false
		}
		fa, ok := u.X.(*ssa.FieldAddr)
		return ok && fa.X == ssa.Value(do.Params[0]) && fieldNameOf(fa.X.Type(), fa.Field) == "navg"
	}
	// (1) the raw value and its sign: mid = (cTx.Sub(sRx).Seconds() + cRx.Sub(sTx).Seconds()) / 2
	secondsOfSub := func(v ssa.Value, a, b int) bool {
		c, _ := ana.CallOf(v)
		if c == nil || ana.CalleeName(c.Common()) != "(time.Duration).Seconds" {
			return false
		}
		s, _ := ana.CallOf(c.Common().Args[0])
		if s == nil || ana.CalleeName(s.Common()) != "(time.Time).Sub" {
			return false
		}
		return s.Common().Args[0] == ssa.Value(do.Params[a]) && s.Common().Args[1] == ssa.Value(do.Params[b])
	}
	var raw, lo, hi ssa.Value
	rawSet := map[ssa.Value]bool{} // every place the same raw expression is written out
	ana.Instrs(do, func(in ssa.Instruction) {
		bo, ok := in.(*ssa.BinOp)
		if !ok || bo.Op != token.QUO {
			return
		}
		if k, ok := constFloatOf(bo.Y); !ok || k != 2 {
			return
		}
		sum, ok := bo.X.(*ssa.BinOp)
		if !ok || sum.Op != token.ADD {
			return
		}
		// params: 0 f, 1 cTxTime, 2 sRxTime, 3 sTxTime, 4 cRxTime
		if secondsOfSub(sum.X, 1, 2) && secondsOfSub(sum.Y, 4, 3) {
			raw, lo, hi = bo, sum.X, sum.Y
			rawSet[bo] = true
		} else if secondsOfSub(sum.Y, 1, 2) && secondsOfSub(sum.X, 4, 3) {
			raw, lo, hi = bo, sum.Y, sum.X
			rawSet[bo] = true
		}
	})
	if raw == nil {
		r.Violate("C17.ntimed", fname, "raw-offset-form", p.Pos(do.Pos()), "the raw value (cTx-sRx + cRx-sTx)/2 is not computed from the four timestamps in these roles (sign or pairing of the raw offset changed)")
		return
	}
	// result = Inv(combine(_, Duration(mid), _, _)#0), combine returns its mid parameter
	cs := ana.CallsIn(do, ana.Q("core/client.combine"))
	okOut := false
	var mid ssa.Value
	if len(cs) == 1 {
		if dc, _ := ana.CallOf(cs[0].Common().Args[1]); dc != nil && ana.CalleeName(dc.Common()) == ana.Q("base/timemath.Duration") {
			mid = dc.Common().Args[0]
		}
		combOK := true
		for _, ret := range combReturns(comb) {
			if ret.Results[0] != ssa.Value(comb.Params[1]) {
				combOK = false
			}
		}
		for _, ret := range combReturns(do) {
			if ic, _ := ana.CallOf(ret.Results[0]); ic != nil && ana.CalleeName(ic.Common()) == ana.Q("base/timemath.Inv") {
				if e, ok := ic.Common().Args[0].(*ssa.Extract); ok && e.Index == 0 && e.Tuple == cs[0].Value() && combOK {
					okOut = true
				}
			}
		}
	}
	if okOut && mid != nil {
		r.Ok("C17.ntimed", fname, "raw-offset-form", posOf(p, cs[0]), "Do returns Inv(mid) where combine hands mid through unchanged and the raw mid is ((cTx-sRx)+(cRx-sTx))/2")
	} else {
		r.Violate("C17.ntimed", fname, "raw-offset-form", p.Pos(do.Pos()), "the returned offset is not Inv(combine(..., mid, ...)) with combine returning mid unchanged")
		return
	}
	// (2) the sample counter: Reset stores 0; Do stores navg+1 once, under navg < C (C >= 4), before any arm test
	var incr *ssa.Store
	nStores := 0
	for _, m := range methodsOf(p, "core/client", "NtimedFilter") {
		for f, sts := range storedFields(m) {
			if f != "navg" {
				continue
			}
			for _, st := range sts {
				if m.Name() == "Reset" {
					if k, ok := constFloatOf(st.Val); !ok || k != 0 {
						r.Violate("C17.ntimed", ana.FuncName(m), "counter-reset-to-zero", posOf(p, st.At), "Reset does not set the sample counter to 0")
					}
					continue
				}
				nStores++
				if m == do {
					incr = st.At
				}
			}
		}
	}
	counterOK := false
	// the incremented value: stored directly under the guard, or merged with the unchanged count
	// (n := navg; if n < C { n++ }; ...; navg = n)
	incVal := ssa.Value(nil)
	var incAt *ssa.BasicBlock
	if incr != nil && nStores == 1 {
		incVal, incAt = incr.Val, incr.Block()
		if ph, ok := incr.Val.(*ssa.Phi); ok && len(ph.Edges) == 2 {
			for i, e := range ph.Edges {
				other := ph.Edges[1-i]
				if bo, ok := e.(*ssa.BinOp); ok && bo.Op == token.ADD && bo.X == other && isNavgLoad(other) {
					incVal, incAt = bo, bo.Block()
				}
			}
		}
	}
	if incr != nil && nStores == 1 {
		if bo, ok := incVal.(*ssa.BinOp); ok && bo.Op == token.ADD && isNavgLoad(bo.X) {
			if k, ok := constFloatOf(bo.Y); ok && k == 1 {
				// guard navg < C with C >= 4 (or none)
				for _, e := range ana.ControlDeps(do).Direct(incAt) {
					if iff, ok := e.From.Instrs[len(e.From.Instrs)-1].(*ssa.If); ok {
						if c, pos, ok := ana.AsCmpDir(iff.Cond, token.LSS); ok && pos && c.Op == token.LSS && isNavgLoad(c.X) && e.Succ == 0 {
							if lim, ok := constFloatOf(c.Y); ok && lim >= 4 {
								counterOK = true
							}
						}
					}
				}
			}
		}
	}
	if counterOK {
		r.Ok("C17.ntimed", fname, "sample-counter", posOf(p, incr), "the sample counter is 0 after Reset and grows by exactly 1 per sample while below a limit >= 4")
	} else {
		r.Violate("C17.ntimed", fname, "sample-counter", p.Pos(do.Pos()), "the sample counter is not (0 at reset, +1 per sample up to a limit >= 4): 'fewer than four samples' cannot be decided from it")
		return
	}
	// (3) every arm that replaces mid by something else than the raw value is entered only with
	// counter > 3 (i.e. from the fourth sample on) and with the sample outside a learned bound
	ph, ok := mid.(*ssa.Phi)
	if !ok {
		if rawSet[mid] {
			r.Ok("C17.ntimed", fname, "non-raw-arms", posOf(p, cs[0]), "mid is always the raw value")
		} else {
			r.Violate("C17.ntimed", fname, "non-raw-arms", posOf(p, cs[0]), "UNDECIDED: mid is neither the raw value nor a merge of arms")
		}
		return
	}
	domTrue := func(b *ssa.BasicBlock, match func(c ana.Cmp) bool) bool {
		for _, g := range do.Blocks {
			iff := (*ssa.If)(nil)
			if n := len(g.Instrs); n > 0 {
				iff, _ = g.Instrs[n-1].(*ssa.If)
			}
			if iff == nil {
				continue
			}
			c, pos, ok := ana.AsCmpDir(iff.Cond, token.GTR)
			if !ok || !pos || !match(c) {
				continue
			}
			s := g.Succs[0]
			if len(s.Preds) == 1 && (s == b || s.Dominates(b)) {
				// the counter must have been incremented before this test (or the test reads the
				// incremented value that is stored as the new count)
				if !isNavgLoad(c.X) || c.X == incr.Val || incr.Block().Dominates(g) || postDominatedBy(incr.Block(), g) {
					return true
				}
			}
		}
		return false
	}
	nArms := 0
	for i, e := range ph.Edges {
		if rawSet[e] {
			continue
		}
		nArms++
		b := ph.Block().Preds[i]
		fourth := domTrue(b, func(c ana.Cmp) bool {
			k, ok := constFloatOf(c.Y)
			return ok && (isNavgLoad(c.X) || c.X == incr.Val) && ((c.Op == token.GTR && k >= 3) || (c.Op == token.GEQ && k > 3))
		})
		outside := domTrue(b, func(c ana.Cmp) bool {
			// oriented as X > Y: limit > lo (sample below its learned bound) or hi > limit
			return c.Op == token.GTR && (c.Y == lo || c.X == hi)
		})
		key := fmt.Sprintf("non-raw-arm:%d", nArms)
		if os.Getenv("C17_DEBUG") != "" {
			fmt.Fprintf(os.Stderr, "arm %d block %d fourth=%v outside=%v incr.Val=%s\n", nArms, b.Index, fourth, outside, incr.Val.Name())
		}
		switch {
		case fourth && outside:
			r.Ok("C17.ntimed", fname, key, p.Pos(e.Pos()), "this arm replaces the raw value only from the fourth sample since reset on and only for a sample outside a learned bound")
		case !fourth:
			r.Violate("C17.ntimed", fname, key, p.Pos(e.Pos()), "an arm that replaces the raw offset can be taken while the sample counter is <= 3: one of the first three samples since a reset is not returned raw")
		default:
			r.Violate("C17.ntimed", fname, key, p.Pos(e.Pos()), "an arm that replaces the raw offset can be taken for a sample that lies within both learned bounds")
		}
	}
	r.Floor("C17.ntimed.non-raw-arms", nArms, 2)
}

func combReturns(fn *ssa.Function) []*ssa.Return {
	var out []*ssa.Return
	ana.Instrs(fn, func(in ssa.Instruction) {
		if ret, ok := in.(*ssa.Return); ok {
			out = append(out, ret)
		}
	})
	return out
}

// postDominatedBy: every path from a's idom-parent region reaches g only after a or bypassing a
// through a's own guard; used for the counter increment, whose block is conditional
// (navg < limit) - accepted when the guard block of a dominates g.
func postDominatedBy(a, g *ssa.BasicBlock) bool {
	if id := a.Idom(); id != nil {
		return id.Dominates(g) && g != id
	}
	return false
}
