package rules

import (
	"go/token"
	"go/types"
	"strings"

	"golang.org/x/tools/go/ssa"

	"verif/internal/ana"
)

// Constant byte buffers built by straight-line code. evalBytesAt interprets, in execution order,
// the instructions that dominate the call `at` and touch byte arrays: allocation (make with
// constant length and capacity, array literals), constant stores, re-slicing with constant
// bounds, binary.BigEndian.PutUint16/32/64 of constants and append - with Go's aliasing rule for
// append (the elements are written into the spare capacity of the first operand's array when
// they fit, otherwise a new array is allocated). It returns the bytes that the slice `arg` holds
// when `at` executes. Anything it does not model (loops, writes on other paths, unknown calls
// that receive a tracked slice, non-constant data) makes the result undecided.
type byteArr struct {
	b []int64 // -1 = unknown
}

type byteSlice struct {
	arr           *byteArr
	off, len, cap int
	capKnown      bool
}

type byteElem struct {
	arr *byteArr
	idx int
}

func evalBytesAt(fn *ssa.Function, at ssa.CallInstruction, arg ssa.Value) ([]int64, bool) {
	atI := at.(ssa.Instruction)
	// blocks on the dominator chain of the call, entry first
	var chain []*ssa.BasicBlock
	for b := atI.Block(); b != nil; b = b.Idom() {
		chain = append([]*ssa.BasicBlock{b}, chain...)
	}
	onChain := map[*ssa.BasicBlock]bool{}
	for _, b := range chain {
		onChain[b] = true
	}
	arrays := map[ssa.Value]*byteArr{}   // pointer-to-array values
	slices := map[ssa.Value]*byteSlice{} // slice values
	elems := map[ssa.Value]*byteElem{}   // element addresses
	tracked := func(v ssa.Value) bool {
		_, a := arrays[v]
		_, s := slices[v]
		_, e := elems[v]
		return a || s || e
	}
	isByteArray := func(t types.Type) (int, bool) {
		p, ok := t.Underlying().(*types.Pointer)
		if !ok {
			return 0, false
		}
		a, ok := p.Elem().Underlying().(*types.Array)
		if !ok {
			return 0, false
		}
		b, ok := a.Elem().Underlying().(*types.Basic)
		if !ok || b.Kind() != types.Uint8 {
			return 0, false
		}
		return int(a.Len()), true
	}
	zeros := func(n int) *byteArr {
		return &byteArr{b: make([]int64, n)}
	}
	forget := func(a *byteArr) {
		for i := range a.b {
			a.b[i] = -1
		}
	}
	ints := map[ssa.Value]int{} // len/cap of tracked slices
	constInt := func(v ssa.Value, def int) (int, bool) {
		if v == nil {
			return def, true
		}
		if k, ok := ints[v]; ok {
			return k, true
		}
		k, ok := ana.ConstInt(v)
		return int(k), ok
	}
	for _, b := range chain {
		for _, in := range b.Instrs {
			if in == atI {
				s, ok := slices[arg]
				if !ok {
					return nil, false
				}
				out := make([]int64, s.len)
				for i := 0; i < s.len; i++ {
					v := s.arr.b[s.off+i]
					if v < 0 {
						return nil, false
					}
					out[i] = v
				}
				// nothing off the chain may touch what we tracked
				for _, ob := range fn.Blocks {
					if onChain[ob] {
						continue
					}
					for _, oi := range ob.Instrs {
						for _, op := range oi.Operands(nil) {
							if op != nil && *op != nil && tracked(*op) {
								if ob.Dominates(atI.Block()) || reaches(ob, atI.Block()) {
									return nil, false
								}
							}
						}
					}
				}
				return out, true
			}
			switch x := in.(type) {
			case *ssa.Alloc:
				if n, ok := isByteArray(x.Type()); ok {
					arrays[x] = zeros(n)
				}
			case *ssa.MakeSlice:
				if e, ok := x.Type().Underlying().(*types.Slice); ok {
					if bt, ok := e.Elem().Underlying().(*types.Basic); ok && bt.Kind() == types.Uint8 {
						l, ok1 := constInt(x.Len, 0)
						c, ok2 := constInt(x.Cap, l)
						if ok1 && ok2 && l >= 0 && c >= l && c <= 4096 {
							slices[x] = &byteSlice{arr: zeros(c), off: 0, len: l, cap: c, capKnown: true}
						}
					}
				}
			case *ssa.IndexAddr:
				i, okI := constInt(x.Index, 0)
				if a, ok := arrays[x.X]; ok {
					if okI && i >= 0 && i < len(a.b) {
						elems[x] = &byteElem{a, i}
					} else {
						forget(a)
					}
				} else if s, ok := slices[x.X]; ok {
					if okI && i >= 0 && i < s.len {
						elems[x] = &byteElem{s.arr, s.off + i}
					} else {
						forget(s.arr)
					}
				}
			case *ssa.Store:
				if e, ok := elems[x.Addr]; ok {
					if k, isK := ana.ConstInt(x.Val); isK {
						e.arr.b[e.idx] = k & 0xff
					} else {
						e.arr.b[e.idx] = -1
					}
				} else if tracked(x.Val) {
					return nil, false // a tracked slice escapes into memory
				}
			case *ssa.Slice:
				lo, ok1 := constInt(x.Low, 0)
				if a, ok := arrays[x.X]; ok {
					hi, ok2 := constInt(x.High, len(a.b))
					mx, ok3 := constInt(x.Max, len(a.b))
					if ok1 && ok2 && ok3 && 0 <= lo && lo <= hi && hi <= mx && mx <= len(a.b) {
						slices[x] = &byteSlice{arr: a, off: lo, len: hi - lo, cap: mx - lo, capKnown: true}
					} else {
						forget(a)
					}
				} else if s, ok := slices[x.X]; ok {
					hi, ok2 := constInt(x.High, s.len)
					mx, ok3 := constInt(x.Max, s.cap)
					if ok1 && ok2 && ok3 && s.capKnown && 0 <= lo && lo <= hi && hi <= mx && mx <= s.cap {
						slices[x] = &byteSlice{arr: s.arr, off: s.off + lo, len: hi - lo, cap: mx - lo, capKnown: true}
					} else {
						forget(s.arr)
					}
				}
			case *ssa.ChangeType:
				if s, ok := slices[x.X]; ok {
					slices[x] = s
				}
			case ssa.CallInstruction:
				cc := x.Common()
				name := ana.CalleeName(cc)
				switch {
				case name == "builtin.append" && len(cc.Args) == 2:
					s, ok1 := slices[cc.Args[0]]
					t, ok2 := slices[cc.Args[1]]
					if !ok1 && !ok2 {
						break
					}
					v, isVal := x.(ssa.Value)
					if !ok1 || !ok2 || !isVal || !s.capKnown {
						if ok1 {
							forget(s.arr)
						}
						break
					}
					if s.len+t.len <= s.cap {
						// fits: written into the first operand's array (visible through every alias)
						for i := 0; i < t.len; i++ {
							s.arr.b[s.off+s.len+i] = t.arr.b[t.off+i]
						}
						slices[v] = &byteSlice{arr: s.arr, off: s.off, len: s.len + t.len, cap: s.cap, capKnown: true}
					} else {
						na := &byteArr{b: make([]int64, s.len+t.len)}
						copy(na.b, s.arr.b[s.off:s.off+s.len])
						copy(na.b[s.len:], t.arr.b[t.off:t.off+t.len])
						// the capacity the runtime chooses is not known
						slices[v] = &byteSlice{arr: na, off: 0, len: s.len + t.len, cap: s.len + t.len, capKnown: false}
					}
				case name == "(encoding/binary.bigEndian).PutUint16" || name == "(encoding/binary.bigEndian).PutUint32" || name == "(encoding/binary.bigEndian).PutUint64":
					args := cc.Args
					if len(args) == 3 {
						args = args[1:]
					}
					if len(args) != 2 {
						break
					}
					s, ok := slices[args[0]]
					if !ok {
						break
					}
					w := map[string]int{"6": 2, "2": 4, "4": 8}[name[len(name)-1:]]
					k, isK := ana.ConstInt(args[1])
					if !isK || w == 0 || s.len < w {
						forget(s.arr)
						break
					}
					for i := 0; i < w; i++ {
						s.arr.b[s.off+i] = (k >> (8 * uint(w-1-i))) & 0xff
					}
				case strings.HasPrefix(name, "(encoding/binary.bigEndian).AppendUint"):
					// append(b, big-endian bytes of a constant): same aliasing rule as append
					args := cc.Args
					if len(args) == 3 {
						args = args[1:]
					}
					v, isVal := x.(ssa.Value)
					if len(args) != 2 || !isVal {
						break
					}
					s, ok := slices[args[0]]
					if !ok {
						break
					}
					w := map[string]int{"6": 2, "2": 4, "4": 8}[name[len(name)-1:]]
					k, isK := ana.ConstInt(args[1])
					if !isK || w == 0 || !s.capKnown {
						forget(s.arr)
						break
					}
					bs := make([]int64, w)
					for i := 0; i < w; i++ {
						bs[i] = (k >> (8 * uint(w-1-i))) & 0xff
					}
					if s.len+w <= s.cap {
						copy(s.arr.b[s.off+s.len:], bs)
						slices[v] = &byteSlice{arr: s.arr, off: s.off, len: s.len + w, cap: s.cap, capKnown: true}
					} else {
						na := &byteArr{b: make([]int64, s.len+w)}
						copy(na.b, s.arr.b[s.off:s.off+s.len])
						copy(na.b[s.len:], bs)
						slices[v] = &byteSlice{arr: na, off: 0, len: s.len + w, cap: s.len + w, capKnown: false}
					}
				case name == "builtin.len" || name == "builtin.cap":
					if v, isVal := x.(ssa.Value); isVal && len(cc.Args) == 1 {
						if s, ok := slices[cc.Args[0]]; ok {
							if name == "builtin.len" {
								ints[v] = s.len
							} else if s.capKnown {
								ints[v] = s.cap
							}
						}
					}
				case name == "(*crypto/tls.ConnectionState).ExportKeyingMaterial":
					// read-only users of a buffer
				default:
					// an unknown callee that receives a tracked buffer may write it
					for _, a := range cc.Args {
						if s, ok := slices[a]; ok {
							forget(s.arr)
						}
						if a2, ok := arrays[a]; ok {
							forget(a2)
						}
					}
				}
			}
		}
	}
	return nil, false
}

// reaches: block a can reach block b.
func reaches(a, b *ssa.BasicBlock) bool {
	seen := map[*ssa.BasicBlock]bool{}
	var walk func(x *ssa.BasicBlock) bool
	walk = func(x *ssa.BasicBlock) bool {
		if x == b {
			return true
		}
		if seen[x] {
			return false
		}
		seen[x] = true
		for _, s := range x.Succs {
			if walk(s) {
				return true
			}
		}
		return false
	}
	return walk(a)
}

var _ = token.ADD
