package rules

import (
	"fmt"
	"go/token"
	"strings"

	"golang.org/x/tools/go/ssa"

	"verif/internal/ana"
)

func init() { All["C09"] = checkC09 }

// lenGT48Gate returns the edges on which `len(payload) <= 48` is established,
// i.e. the reject side of `len(payload) > ntp.PacketLen` (constant must be 48).
func lenLE48Gate(p *ana.Prog, fn *ssa.Function, isPayload func(ssa.Value) bool) *ana.Gate {
	return ana.FindGate(p, fn, "len(payload)<=48", func(c ana.Cmp, isCmp bool, _ ssa.Value) (bool, bool) {
		if !isCmp {
			return false, false
		}
		x, y, op := c.X, c.Y, c.Op
		if _, ok := ana.ConstInt(x); ok {
			x, y, op = y, x, ana.SwapOp(op)
		}
		k, ok := ana.ConstInt(y)
		if !ok || !isLenOf(x) {
			return false, false
		}
		call, _ := ana.CallOf(ana.StripConv(x))
		if !isPayload(call.Common().Args[0]) {
			return false, false
		}
		switch {
		case op == token.GTR && k == 48, op == token.GEQ && k == 49:
			return true, false // accept (= no extension bytes) when the comparison does NOT hold
		case op == token.LEQ && k == 48, op == token.LSS && k == 49, op == token.EQL && k == 48:
			return true, true
		}
		return false, false
	})
}

type serverSpec struct {
	fn       string
	scion    bool
	payload  func(ssa.Value) bool
	minGates int
}

func checkC09(p *ana.Prog, r *ana.Result) {
	r.Explain("C09 (structural necessary conditions): in runIPServer and in the NTP arm of runSCIONServer every path from the datagram read to the NTP reply write passes ntp.DecodePacket==nil and ntp.ValidateRequest==nil, and either `len(payload) <= 48` or all six NTS tests (nts.DecodePacket, FirstCookie, cookie Decode, provider.Get ok, Decrypt, ProcessRequest); no path executes two reply writes for one read; the reply goes to the address returned by this read (over SCION: SrcIA/DstIA, address types, raw addresses and UDP ports exchanged and the path reversed before the write to the previous hop) and is the buffer ntp.EncodePacket filled from the packet handleRequest built. ValidateRequest is decided exactly on all 256 first bytes (truth table) against the stated set; the reply's first byte after SetVersion/SetMode is computed for all 256 prior values and is disjoint from the accepted request set (anti-reflection); ntp.DecodePacket rejects len<48 on every path. Per-datagram state: nts.DecodePacket appends to the Packet it is given, so from every place that may leave cookies or placeholders in that Packet every path to the next DecodePacket call re-creates the variable, stores an empty value (zero Packet, nil or zero-length slice) or tests that the field is empty - otherwise fields of an earlier (even rejected) datagram would decide whether this one is answered. Drops (IP listener): every branch between the read and the reply one side of which can no longer reach the reply tests only results of the known calls (read, decode, validate, the six NTS steps, sealing, encode, write) - a datagram is not dropped for any other reason.")
	r.Undecided("kernel delivery; NTS cryptographic validity (C10); values inside the reply other than LVM/stratum (C06)")
	c09Server(p, r, "runIPServer", false)
	c09Server(p, r, "runSCIONServer", true)
	c09Tables(p, r)
	c09DecodeLen(p, r)
	n := 0
	for _, o := range r.Obls {
		if o.Rule == "C09.gate" {
			n++
		}
	}
	r.Floor("C09.gate", n, 20)
}

func c09Server(p *ana.Prog, r *ana.Result, name string, scion bool) {
	fn := mustFunc(p, r, "core/server", name)
	if fn == nil {
		return
	}
	fname := ana.FuncName(fn)
	rd := readSite(r, fn)
	if rd == nil {
		return
	}
	c09NTSState(p, r, "C09.nts-state", fn, rd)
	hr := ana.CallsIn(fn, ana.Q("core/server.handleRequest"))
	if len(hr) != 1 {
		r.Violate("C09.gate", fname, "handleRequest-call", p.Pos(fn.Pos()), fmt.Sprintf("expected exactly one handleRequest call, found %d", len(hr)))
		return
	}
	hrCall := hr[0].(*ssa.Call)
	writes := ana.CallsIn(fn, fnWriteMsg)
	// NTP reply writes: reachable from handleRequest without passing the read
	isRead := func(in ssa.Instruction) bool { return in == ssa.Instruction(rd) }
	var ntpWrites []ssa.CallInstruction
	for _, w := range writes {
		w := w
		if ana.Reachable(fn, hrCall, func(in ssa.Instruction) bool { return in == w.(ssa.Instruction) }, isRead, nil) {
			ntpWrites = append(ntpWrites, w)
		}
	}
	wantWrites := 1
	if len(ntpWrites) != wantWrites {
		r.Violate("C09.once", fname, "ntp-reply-write-sites", p.Pos(fn.Pos()), fmt.Sprintf("expected exactly %d reply write after handleRequest, found %d", wantWrites, len(ntpWrites)))
		if len(ntpWrites) == 0 {
			return
		}
	}
	isReply := func(in ssa.Instruction) bool {
		for _, w := range ntpWrites {
			if in == w.(ssa.Instruction) {
				return true
			}
		}
		return false
	}
	if scion {
		// the reply goes back to the sender: addresses exchanged, path reversed (rule shared with C13)
		n0 := len(r.Obls)
		c13Swaps(p, r, fn, rd, ntpWrites[0])
		kept := r.Obls[:n0]
		for _, o := range r.Obls[n0:] {
			if o.Rule == "C13.swap" && strings.Contains(o.Key, "ntp-reply") {
				o.Rule = "C09.swap"
				o.Key = strings.Replace(o.Key, "C13.swap", "C09.swap", 1)
				kept = append(kept, o)
			}
		}
		r.Obls = kept
	}
	isAnyWrite := func(in ssa.Instruction) bool {
		c, ok := in.(ssa.CallInstruction)
		return ok && ana.CalleeName(c.Common()) == fnWriteMsg
	}
	// every reply write is preceded by handleRequest in the same iteration
	{
		s := &ana.Search{Fn: fn, Stop: func(in ssa.Instruction) bool { return in == ssa.Instruction(hrCall) || isRead(in) }, Target: isReply}
		if found, w := s.Run(rd); found {
			r.Violate("C09.gate", fname, "reply-without-handleRequest", p.Pos(ntpWrites[0].Pos()), "the reply write is reachable from the read without handleRequest", w...)
		} else {
			r.Ok("C09.gate", fname, "reply-without-handleRequest", p.Pos(ntpWrites[0].Pos()), "the reply write is reachable from the read only through handleRequest")
		}
	}
	payloadPath := "buf"
	isPayload := func(v ssa.Value) bool {
		pth := ana.AccessPath(v)
		if scion {
			return strings.HasPrefix(pth, "udpLayer.") && strings.HasSuffix(pth, ".Payload")
		}
		if pth == "buf" {
			return true
		}
		u := ana.UniqueReaching(fn, v)
		if sl, ok := u.(*ssa.Slice); ok {
			return sl.High == ssa.Value(extractOf(rd, 0))
		}
		return false
	}
	if scion {
		payloadPath = "udpLayer.Payload"
	}
	if !scion {
		c09Drops(p, r, fn, rd, isReply, isPayload)
	}
	errRead := extractOf(rd, 4)
	flags := extractOf(rd, 2)
	if errRead == nil || flags == nil {
		r.Broken("%s: read results not extracted", fname)
		return
	}
	lenLE := lenLE48Gate(p, fn, isPayload)
	if len(lenLE.Accept) == 0 {
		r.Violate("C09.gate", fname, "gate-missing:len(payload)>48", p.Pos(fn.Pos()), "no test `len("+payloadPath+") > 48` (ntp.PacketLen) found: whether a payload carries extension bytes is not decided at 48 bytes")
	}
	nts := func(name string, g *ana.Gate) gateSpec {
		return gateSpec{name: "[len>48] " + name, gate: ana.Union(name, lenLE, g), min: len(lenLE.Accept) + 1}
	}
	gates := []gateSpec{
		{name: "read-error-nil", gate: ana.ErrNilGate(p, fn, fnReadMsg)},
		{name: "flags==0", gate: cmpValueConstGate(p, fn, "flags==0", func(v ssa.Value) bool { return v == ssa.Value(flags) }, 0, true)},
		{name: "ntp.DecodePacket==nil", gate: ana.ErrNilGate(p, fn, ana.Q("net/ntp.DecodePacket"))},
		{name: "ntp.ValidateRequest==nil", gate: ana.ErrNilGate(p, fn, ana.Q("net/ntp.ValidateRequest"))},
		nts("nts.DecodePacket==nil", ana.ErrNilGate(p, fn, ana.Q("net/nts.DecodePacket"))),
		nts("FirstCookie==nil", ana.ErrNilGate(p, fn, ana.Q("(*net/nts.Packet).FirstCookie"))),
		nts("cookie.Decode==nil", ana.ErrNilGate(p, fn, ana.Q("(*net/ntske.EncryptedServerCookie).Decode"))),
		nts("provider.Get-ok", ana.BoolResultGate(p, fn, ana.Q("(*net/ntske.Provider).Get"), 1, true)),
		nts("cookie.Decrypt==nil", ana.ErrNilGate(p, fn, ana.Q("(*net/ntske.EncryptedServerCookie).Decrypt"))),
		nts("nts.ProcessRequest==nil", ana.ErrNilGate(p, fn, ana.Q("net/nts.ProcessRequest"))),
	}
	if scion {
		gates = append(gates, gateSpec{name: "DecodeLayers==nil", gate: ana.ErrNilGate(p, fn, fnDecLayers)})
		gates = append(gates, c09ScionGates(p, r, fn)...)
	}
	checkGates(p, r, "C09.gate", fn, rd, isReply, isRead, "ntp-reply-write", gates)

	// decoders / validators are applied to this datagram's payload and to the decoded packet
	reqRoot := ntpCallArgRoot(r, fn, ana.Q("net/ntp.DecodePacket"), 0, 0)
	for _, spec := range []struct {
		callee string
		arg    int
	}{{"net/ntp.DecodePacket", 1}, {"net/nts.DecodePacket", 1}, {"net/nts.ProcessRequest", 0}} {
		for _, c := range ana.CallsIn(fn, ana.Q(spec.callee)) {
			if isPayload(c.Common().Args[spec.arg]) {
				r.Ok("C09.gate", fname, "payload-arg:"+spec.callee, p.Pos(c.Pos()), spec.callee+" reads this datagram's payload ("+payloadPath+")")
			} else {
				r.Violate("C09.gate", fname, "payload-arg:"+spec.callee, p.Pos(c.Pos()), spec.callee+" is not applied to this datagram's payload ("+payloadPath+")")
			}
		}
	}
	for _, c := range ana.CallsIn(fn, ana.Q("net/ntp.ValidateRequest")) {
		if rootAlloc(c.Common().Args[0]) == reqRoot && rootAlloc(hrCall.Call.Args[1]) == reqRoot {
			r.Ok("C09.gate", fname, "validated-request-is-decoded-request", p.Pos(c.Pos()), "ValidateRequest and handleRequest receive the packet ntp.DecodePacket filled")
		} else {
			r.Violate("C09.gate", fname, "validated-request-is-decoded-request", p.Pos(c.Pos()), "ValidateRequest/handleRequest do not receive the packet decoded from this datagram")
		}
	}

	// C09.once: no second write on the socket in one iteration
	for _, w := range writes {
		w := w
		s := &ana.Search{Fn: fn, Stop: isRead, Target: isAnyWrite}
		if found, wit := s.Run(w.(ssa.Instruction)); found {
			r.Violate("C09.once", fname, "second-write:"+ana.AccessPath(w.Common().Args[2]), p.Pos(w.Pos()), "a second datagram can be written in the same loop iteration (more than one reply per request)", wit...)
		} else {
			r.Ok("C09.once", fname, "single-write:"+writeDesc(w), p.Pos(w.Pos()), "no other write is reachable from this write before the next read")
		}
	}
	// destination = source of this read
	src := extractOf(rd, 3)
	for _, w := range ntpWrites {
		if w.Common().Args[2] == ssa.Value(src) {
			r.Ok("C09.once", fname, "reply-destination", p.Pos(w.Pos()), "the reply is written to the address/port returned by this iteration's read")
		} else {
			r.Violate("C09.once", fname, "reply-destination", p.Pos(w.Pos()), "the reply is not written to the address returned by this iteration's read")
		}
	}
	// reply content: EncodePacket(&payload, &resp) with resp = handleRequest's response
	enc := ana.CallsIn(fn, ana.Q("net/ntp.EncodePacket"))
	if len(enc) != 1 {
		r.Violate("C09.resp", fname, "encode-site", p.Pos(fn.Pos()), fmt.Sprintf("expected one ntp.EncodePacket call, found %d", len(enc)))
	} else {
		respRoot := rootAlloc(hrCall.Call.Args[4])
		okResp := rootAlloc(enc[0].Common().Args[1]) == respRoot
		// EncodePacket must lie between handleRequest and the write
		s := &ana.Search{Fn: fn, Stop: func(in ssa.Instruction) bool { return in == enc[0].(ssa.Instruction) || isRead(in) }, Target: isReply}
		found, wit := s.Run(hrCall)
		if okResp && !found {
			r.Ok("C09.resp", fname, "reply-is-encoded-response", p.Pos(enc[0].Pos()), "every path from handleRequest to the reply write passes ntp.EncodePacket of the response handleRequest filled")
		} else {
			r.Violate("C09.resp", fname, "reply-is-encoded-response", p.Pos(enc[0].Pos()), "the reply write can be reached without encoding the response built by handleRequest", wit...)
		}
	}
}

func writeDesc(w ssa.CallInstruction) string {
	d := ana.AccessPath(w.Common().Args[2])
	if d == "" {
		d = w.Common().Args[2].Name()
	}
	return "to:" + d
}

func c09ScionGates(p *ana.Prog, r *ana.Result, fn *ssa.Function) []gateSpec {
	gs := c05ScionGates0(p, r, fn)
	// udp.DstPort == localHostPort
	gs = append(gs, gateSpec{name: "udp.DstPort==localHostPort", gate: ana.FindGate(p, fn, "dstport", func(c ana.Cmp, isCmp bool, _ ssa.Value) (bool, bool) {
		if !isCmp || (c.Op != token.EQL && c.Op != token.NEQ) {
			return false, false
		}
		for _, pr := range [][2]ssa.Value{{c.X, c.Y}, {c.Y, c.X}} {
			if strings.HasSuffix(ana.AccessPath(ana.StripConv(pr[0])), "udpLayer.DstPort") && ana.AccessPath(ana.StripConv(pr[1])) == "localHostPort" {
				return true, c.Op == token.EQL
			}
		}
		return false, false
	})})
	gs = append(gs, gateSpec{name: "localHostPort!=EndhostPort", gate: ana.FindGate(p, fn, "hostport", func(c ana.Cmp, isCmp bool, _ ssa.Value) (bool, bool) {
		if !isCmp || (c.Op != token.EQL && c.Op != token.NEQ) {
			return false, false
		}
		for _, pr := range [][2]ssa.Value{{c.X, c.Y}, {c.Y, c.X}} {
			if k, ok := ana.ConstInt(pr[1]); ok && k == 30041 && ana.AccessPath(ana.StripConv(pr[0])) == "localHostPort" {
				return true, c.Op == token.NEQ
			}
		}
		return false, false
	})})
	return gs
}

// c05ScionGates0: the layer/type/length gates shared by SCION client and server
// (without the client-only address gates).
func c05ScionGates0(p *ana.Prog, r *ana.Result, fn *ssa.Function) []gateSpec {
	all := c05ScionGates(p, r, fn)
	var out []gateSpec
	for _, g := range all {
		if strings.Contains(g.name, "IA") || strings.Contains(g.name, "compareIPs") {
			continue
		}
		out = append(out, g)
	}
	return out
}

func c09Tables(p *ana.Prog, r *ana.Result) {
	fn := mustFunc(p, r, "net/ntp", "ValidateRequest")
	if fn == nil {
		return
	}
	fname := ana.FuncName(fn)
	res := ana.RunTable(fn, []ana.TableInput{{Path: "req.LVM", Values: ana.Range(0, 255)}})
	if res.Err != nil {
		r.Violate("C09.req", fname, "undecided", p.Pos(fn.Pos()), "UNDECIDED: ValidateRequest is outside the truth-table domain: "+res.Err.Error())
		return
	}
	accepted := map[int64]bool{}
	bad := 0
	first := ""
	for i := 0; i < res.N; i++ {
		b := res.Point(i)[0]
		li, vn, mode := lvmFields(b)
		want := (li == 0 || li == 3) && ((vn >= 2 && vn <= 4 && mode == 3) || (vn == 1 && mode == 0))
		got := res.Returns[0][i] == 0 && !res.Panics[i]
		if got {
			accepted[b] = true
		}
		if got != want {
			bad++
			if first == "" {
				first = fmt.Sprintf("first byte 0x%02x (LI=%d VN=%d mode=%d): accepted=%v, property says %v", b, li, vn, mode, got, want)
			}
		}
	}
	if bad == 0 {
		r.Ok("C09.req", fname, "truth-table", p.Pos(fn.Pos()), fmt.Sprintf("over all 256 first bytes ValidateRequest returns nil exactly for LI in {0,3} x ({VN 2..4, mode 3} u {VN 1, mode 0}) = %d values", len(accepted)))
	} else {
		r.Violate("C09.req", fname, "truth-table", p.Pos(fn.Pos()), fmt.Sprintf("ValidateRequest disagrees with the property on %d of 256 first bytes; e.g. %s", bad, first))
	}
	var acc []string
	for b := int64(0); b < 256; b++ {
		if accepted[b] {
			acc = append(acc, fmt.Sprintf("0x%02x", b))
		}
	}
	r.Table("ValidateRequest_accepted_first_bytes", acc)

	// response first byte: SetVersion(4) then SetMode(4) from any LVM
	sv := mustFunc(p, r, "net/ntp", "(*Packet).SetVersion")
	sm := mustFunc(p, r, "net/ntp", "(*Packet).SetMode")
	hr := mustFunc(p, r, "core/server", "handleRequest")
	if sv == nil || sm == nil || hr == nil {
		return
	}
	// constants passed by handleRequest
	var vArg, mArg int64 = -1, -1
	nSV, nSM := 0, 0
	var lvmStores, stratumOK int
	ana.Instrs(hr, func(in ssa.Instruction) {
		switch x := in.(type) {
		case *ssa.Call:
			switch ana.CalleeName(&x.Call) {
			case ana.Q("(*net/ntp.Packet).SetVersion"):
				if ana.AccessPath(x.Call.Args[0]) == "resp" {
					nSV++
					if k, ok := ana.ConstInt(x.Call.Args[1]); ok {
						vArg = k
					}
				}
			case ana.Q("(*net/ntp.Packet).SetMode"):
				if ana.AccessPath(x.Call.Args[0]) == "resp" {
					nSM++
					if k, ok := ana.ConstInt(x.Call.Args[1]); ok {
						mArg = k
					}
				}
			case ana.Q("(*net/ntp.Packet).SetLeapIndicator"):
			}
		case *ssa.Store:
			switch ana.AccessPath(x.Addr) {
			case "resp.LVM":
				lvmStores++
			case "resp.Stratum":
				if k, ok := ana.ConstInt(x.Val); ok && k == 1 {
					stratumOK++
				} else {
					stratumOK = -100
				}
			}
		}
	})
	hname := ana.FuncName(hr)
	if nSV != 1 || nSM != 1 || vArg != 4 || mArg != 4 || lvmStores != 0 {
		r.Violate("C09.resp", hname, "reply-version-mode", p.Pos(hr.Pos()), fmt.Sprintf("handleRequest must set version 4 and mode 4 on the response exactly once each and not write LVM otherwise (SetVersion x%d arg %d, SetMode x%d arg %d, direct LVM stores %d)", nSV, vArg, nSM, mArg, lvmStores))
		return
	}
	if stratumOK != 1 {
		r.Violate("C09.resp", hname, "reply-stratum", p.Pos(hr.Pos()), "handleRequest does not store the constant stratum 1 exactly once")
	} else {
		r.Ok("C09.resp", hname, "reply-stratum", p.Pos(hr.Pos()), "resp.Stratum <- 1 (only store)")
	}
	t1 := ana.RunTable(sv, []ana.TableInput{{Path: "p.LVM", Values: ana.Range(0, 255)}, {Path: "v", Values: []int64{vArg}}})
	if t1.Err != nil {
		r.Violate("C09.resp", ana.FuncName(sv), "undecided", p.Pos(sv.Pos()), "UNDECIDED: "+t1.Err.Error())
		return
	}
	after1 := map[int64]bool{}
	for i := 0; i < t1.N; i++ {
		if !t1.Panics[i] {
			after1[t1.FinalFields["p.LVM"][i]] = true
		}
	}
	var vals []int64
	for b := range after1 {
		vals = append(vals, b)
	}
	t2 := ana.RunTable(sm, []ana.TableInput{{Path: "p.LVM", Values: sortedI64(vals)}, {Path: "m", Values: []int64{mArg}}})
	if t2.Err != nil {
		r.Violate("C09.resp", ana.FuncName(sm), "undecided", p.Pos(sm.Pos()), "UNDECIDED: "+t2.Err.Error())
		return
	}
	replyBytes := map[int64]bool{}
	allV4M4 := true
	for i := 0; i < t2.N; i++ {
		if t2.Panics[i] {
			continue
		}
		b := t2.FinalFields["p.LVM"][i]
		replyBytes[b] = true
		_, vn, mode := lvmFields(b)
		if vn != 4 || mode != 4 {
			allV4M4 = false
		}
	}
	overlap := 0
	for b := range replyBytes {
		if accepted[b] {
			overlap++
		}
	}
	if allV4M4 && overlap == 0 && len(replyBytes) > 0 {
		r.Ok("C09.resp", hname, "reply-first-byte", p.Pos(hr.Pos()), fmt.Sprintf("for all 256 initial LVM values the reply's first byte after SetVersion(4);SetMode(4) has VN 4 and mode 4 (%d possible bytes), none of which ValidateRequest accepts (anti-reflection)", len(replyBytes)))
	} else {
		r.Violate("C09.resp", hname, "reply-first-byte", p.Pos(hr.Pos()), fmt.Sprintf("reply first byte is not always version 4 / mode 4, or %d reply byte values are accepted as requests (two servers could answer each other)", overlap))
	}
}

func sortedI64(v []int64) []int64 {
	for i := 1; i < len(v); i++ {
		for j := i; j > 0 && v[j] < v[j-1]; j-- {
			v[j], v[j-1] = v[j-1], v[j]
		}
	}
	return v
}

// c09DecodeLen: ntp.DecodePacket returns nil only if len(b) >= 48.
func c09DecodeLen(p *ana.Prog, r *ana.Result) {
	fn := mustFunc(p, r, "net/ntp", "DecodePacket")
	if fn == nil {
		return
	}
	rets := ana.ClassifyReturns(fn)
	g := ana.FindGate(p, fn, "len(b)>=48", func(c ana.Cmp, isCmp bool, _ ssa.Value) (bool, bool) {
		if !isCmp || !isLenOf(c.X) {
			return false, false
		}
		call, _ := ana.CallOf(c.X)
		if ana.AccessPath(call.Common().Args[0]) != "b" {
			return false, false
		}
		k, ok := ana.ConstInt(c.Y)
		if !ok {
			return false, false
		}
		switch {
		case c.Op == token.LSS && k == 48, c.Op == token.LEQ && k == 47:
			return true, false
		case c.Op == token.GEQ && k == 48, c.Op == token.GTR && k == 47:
			return true, true
		}
		return false, false
	})
	checkGates(p, r, "C09.req", fn, nil, isSuccessTarget(rets), nil, "success-return", []gateSpec{{name: "len(b)>=48", gate: g}})
}
