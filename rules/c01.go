package rules

import (
	"fmt"
	"go/token"
	"go/types"
	"strings"

	"golang.org/x/tools/go/ssa"

	"verif/internal/ana"
)

func init() { All["C01"] = checkC01 }

// canonGate: edges on which the comparison with canonical form want holds.
func canonGate(p *ana.Prog, fn *ssa.Function, want string) *ana.Gate {
	return ana.FindGate(p, fn, want, func(c ana.Cmp, isCmp bool, _ ssa.Value) (bool, bool) {
		if !isCmp {
			return false, false
		}
		// the rational normal form only stands for the Go comparison when its integer
		// arithmetic cannot wrap around (2*x > y is not x > y/2 for x >= 2^62)
		if ana.LinearMayWrap(c.X) || ana.LinearMayWrap(c.Y) {
			return false, false
		}
		if s, ok := ana.CanonCmp(c, true); ok && s == want {
			return true, true
		}
		if s, ok := ana.CanonCmp(c, false); ok && s == want {
			return true, false
		}
		return false, false
	})
}

// clampOf recognises a value bounded by M through the clamp idiom: a merge every input of which is
// either the clamp expression Duration(float64(Sgn(x)) * M) (bounded whatever the path) or x itself
// arriving on an edge that is only taken when float64(x.Abs()) > M is false - however the merge is
// laid out (two-way, through extra jump blocks of an inlined helper with early returns, nested).
// Returns x and M.
func clampOf(v ssa.Value) (x, m ssa.Value, ok bool) {
	ph, isPhi := v.(*ssa.Phi)
	if !isPhi {
		return nil, nil, false
	}
	// x and M from a clamp expression among the (nested) inputs
	var raw, mm ssa.Value
	seen := map[*ssa.Phi]bool{}
	var find func(q *ssa.Phi)
	find = func(q *ssa.Phi) {
		if seen[q] {
			return
		}
		seen[q] = true
		for _, e := range q.Edges {
			if a, b, ok := clampExprOf(e); ok && raw == nil {
				raw, mm = a, b
			}
			if n, ok := e.(*ssa.Phi); ok {
				find(n)
			}
		}
	}
	find(ph)
	if raw == nil {
		return nil, nil, false
	}
	notExceedingEdge := func(pred, to *ssa.BasicBlock) bool {
		// pred ends with the test and `to` is its not-exceeding successor, or pred lies behind that successor
		if iff, isIf := pred.Instrs[len(pred.Instrs)-1].(*ssa.If); isIf {
			if c, succ, _, isCmp := ana.IfCmp(iff, token.GTR); isCmp && c.Y == mm && pred.Succs[1-succ] == to && pred.Succs[succ] != to {
				if ab, _ := ana.CallOf(ana.StripConv(c.X)); ab != nil && ana.CalleeName(ab.Common()) == "(time.Duration).Abs" && ab.Common().Args[0] == raw {
					return true
				}
			}
		}
		return withinMax(raw, mm, pred)
	}
	checked := map[*ssa.Phi]bool{}
	var check func(q *ssa.Phi) bool
	check = func(q *ssa.Phi) bool {
		if checked[q] {
			return true
		}
		checked[q] = true
		for i, e := range q.Edges {
			if a, b, ok := clampExprOf(e); ok && a == raw && b == mm {
				continue
			}
			if e == raw {
				if !notExceedingEdge(q.Block().Preds[i], q.Block()) {
					return false
				}
				continue
			}
			if n, ok := e.(*ssa.Phi); ok && n != q && check(n) {
				continue
			}
			return false
		}
		return true
	}
	if !check(ph) {
		return nil, nil, false
	}
	return raw, mm, true
}

// maxCorrOf: M = cfg.<impact> * float64(clk.Drift(cfg.SyncInterval)); returns the impact field name.
func maxCorrOf(m ssa.Value) (string, bool) {
	mul, ok := m.(*ssa.BinOp)
	if !ok || mul.Op != token.MUL {
		return "", false
	}
	for _, pr := range [][2]ssa.Value{{mul.X, mul.Y}, {mul.Y, mul.X}} {
		f := ana.AccessPath(pr[0])
		if !strings.HasPrefix(f, "cfg.") {
			continue
		}
		c, _ := ana.CallOf(ana.StripConv(pr[1]))
		if c == nil || ana.CalleeName(c.Common()) != ana.Q("(base/timebase.SystemClock).Drift") {
			continue
		}
		if pr, ok := c.Common().Value.(*ssa.Parameter); !ok || pr.Name() != "clk" {
			continue
		}
		if ana.AccessPath(c.Common().Args[0]) != "cfg.SyncInterval" {
			continue
		}
		return strings.TrimPrefix(f, "cfg."), true
	}
	return "", false
}

func checkC01(p *ana.Prog, r *ana.Result) {
	r.Explain("C01 (structural necessary conditions) in sync.Run: start-up refusal - every path to the first actuation passes the canonical (linear normal form) conditions ReferenceClockImpact > 1, PeerClockImpact > 1, PeerClockImpact - ReferenceClockImpact - 1 > 0, SyncInterval > 0, SyncInterval - 2*SyncTimeout >= 0, each failing into panic; once per round - the loop body contains exactly one Adjustment.Do and one SystemClock.Sleep(cfg.SyncInterval) and every cycle passes both; bounded actuation (decided by enumeration: the value handed to Do is followed back through every merge under each assignment of the branch conditions that select it; a recogniser of the clamp/flag shapes is the fallback for values carried around the loop) - the value handed to Do is, under every assignment, the constant 0, the reference offset clamped to +-ReferenceClockImpact*float64(clk.Drift(SyncInterval)), the peer offset clamped to +-PeerClockImpact*float64(clk.Drift(SyncInterval)) on an arm that is only entered when the peer flag is set, that flag being set only under |peer| > cfg.PeerClockCutoff, or timemath.Midpoint of those two; nothing is carried over from a previous round; the reference value comes from the reference-clock round and the peer value from the peer round (disjoint clients, slices, channels).")
	r.Undecided("float rounding inside the clamp, the numeric value of the fault-tolerant midpoint (C02), Drift's arithmetic, int64 extremes (Duration.Abs of MinInt64 saturates by library contract)")
	fn := mustFunc(p, r, "core/sync", "Run")
	if fn == nil {
		return
	}
	fname := ana.FuncName(fn)
	dos := ana.CallsIn(fn, ana.Q("(core/sync/adjustments.Adjustment).Do"))
	sleeps := ana.CallsIn(fn, ana.Q("(base/timebase.SystemClock).Sleep"))
	nAll := 0
	for _, f := range p.AllFuncs {
		if f.Pkg == fn.Pkg {
			nAll += len(ana.CallsIn(f, ana.Q("(core/sync/adjustments.Adjustment).Do")))
		}
	}
	if len(dos) != 1 || nAll != 1 {
		r.Violate("C01.once", fname, "one-actuation-site", p.Pos(fn.Pos()), fmt.Sprintf("expected exactly one Adjustment.Do call in package sync (in Run), found %d in Run / %d in the package", len(dos), nAll))
		return
	}
	do := dos[0].(*ssa.Call)
	isDo := func(in ssa.Instruction) bool { return in == ssa.Instruction(do) }
	// guards
	guards := []string{
		"+1*cfg.ReferenceClockImpact -1 > 0",
		"+1*cfg.PeerClockImpact -1 > 0",
		"+1*cfg.PeerClockImpact -1*cfg.ReferenceClockImpact -1 > 0",
		"+1*cfg.SyncInterval +0 > 0",
		"+1*cfg.SyncInterval -2*cfg.SyncTimeout +0 >= 0",
	}
	for _, g := range guards {
		gate := canonGate(p, fn, g)
		if len(gate.Accept) == 0 {
			r.Violate("C01.guards", fname, "guard-missing:"+g, p.Pos(fn.Pos()), "start-up does not test "+g+" (a setting that voids the bound is accepted)")
			continue
		}
		// reject edge must end in panic
		okPanic := true
		for e := range gate.Accept {
			rej := e.From.Succs[1-e.Succ]
			if !leadsOnlyToPanic(rej) {
				okPanic = false
			}
		}
		if ok, w := ana.MustPass(fn, nil, gate, isDo, nil, nil); ok && okPanic {
			r.Ok("C01.guards", fname, "guard:"+g, strings.Join(gate.Sites, ","), "every path to the actuation passes "+g+"; the opposite outcome panics")
		} else {
			r.Violate("C01.guards", fname, "guard:"+g, strings.Join(gate.Sites, ","), fmt.Sprintf("the clock can be adjusted although %s does not hold (setting not refused at start-up; reject arm panics=%v)", g, okPanic), w...)
		}
	}
	// once per round
	if len(sleeps) != 1 || ana.AccessPath(sleeps[0].Common().Args[0]) != "cfg.SyncInterval" {
		r.Violate("C01.once", fname, "one-sleep-site", p.Pos(fn.Pos()), fmt.Sprintf("expected exactly one clk.Sleep(cfg.SyncInterval), found %d", len(sleeps)))
	} else {
		sl := sleeps[0].(ssa.Instruction)
		// Do -> Do only through Sleep; Sleep -> Sleep only through Do; Do in a loop
		s1 := &ana.Search{Fn: fn, NoFacts: true, Stop: func(in ssa.Instruction) bool { return in == sl }, Target: isDo}
		f1, _ := s1.Run(do)
		s2 := &ana.Search{Fn: fn, NoFacts: true, Stop: isDo, Target: func(in ssa.Instruction) bool { return in == sl }}
		f2, _ := s2.Run(sl)
		if !f1 && !f2 && inLoop(fn, do) {
			r.Ok("C01.once", fname, "one-actuation-per-round", posOf(p, do), "each loop cycle passes exactly one adj.Do and one clk.Sleep(cfg.SyncInterval)")
		} else {
			r.Violate("C01.once", fname, "one-actuation-per-round", posOf(p, do), "a round can actuate the clock more than once or without sleeping the sync interval")
		}
	}
	// bounded actuation
	c01Bounded(p, r, fn, do)
}

func leadsOnlyToPanic(b *ssa.BasicBlock) bool {
	seen := map[*ssa.BasicBlock]bool{}
	var rec func(b *ssa.BasicBlock) bool
	rec = func(b *ssa.BasicBlock) bool {
		if seen[b] {
			return true
		}
		seen[b] = true
		if len(b.Instrs) == 0 {
			return false
		}
		switch b.Instrs[len(b.Instrs)-1].(type) {
		case *ssa.Panic:
			return true
		case *ssa.Return:
			return false
		}
		if len(b.Succs) == 0 {
			return false
		}
		for _, s := range b.Succs {
			if !rec(s) {
				return false
			}
		}
		return true
	}
	return rec(b)
}

// c01ByTable decides the actuated value by enumeration: the value handed to adj.Do is followed
// back through every merge, for every assignment of the branch conditions that select it. Under
// each assignment the value that arrives must be 0, a reference offset bounded by RCI*drift (the
// clamp expression, or the raw offset with |raw| > M false), a peer offset bounded by PCI*drift
// that is beyond the cutoff (|raw| > cfg.PeerClockCutoff true), or the Midpoint of such a
// reference and such a peer value. How the selection is spelled (flags, helper results, nesting)
// is irrelevant. ok=false means the structure is outside the domain (loop-carried values, too
// many conditions) or some assignment lets another value through (detail says which).
func c01ByTable(fn *ssa.Function, corr ssa.Value) (ok bool, refRaw, peerRaw ssa.Value, nAssign int, detail string) {
	isMid := func(c *ssa.Call) bool { return ana.CalleeName(&c.Call) == ana.Q("base/timemath.Midpoint") }
	ve := ana.NewValEval(isMid, corr)
	atoms := ve.Atoms()
	if len(atoms) == 0 || len(atoms) > 12 {
		return false, nil, nil, 0, fmt.Sprintf("%d branch conditions select the value", len(atoms))
	}
	absOf := func(v ssa.Value) ssa.Value {
		if c, _ := ana.CallOf(ana.StripConv(v)); c != nil && ana.CalleeName(c.Common()) == "(time.Duration).Abs" {
			return c.Common().Args[0]
		}
		return nil
	}
	// exceeds(raw, assign): some test of |raw| against a bound M; returns M's impact field and whether the test says "exceeds"
	type verdict struct {
		imp     string
		exceeds bool
	}
	tests := func(raw ssa.Value, assign uint) (out []verdict, beyondCutoff, cutoffKnown bool) {
		for i, a := range atoms {
			if !a.IsCmp {
				continue
			}
			val := assign>>uint(i)&1 == 1
			c := a.Cmp
			switch {
			case c.Op == token.LSS && absOf(c.Y) == raw: // M < |raw|
				if imp, okM := maxCorrOf(c.X); okM {
					out = append(out, verdict{imp, val})
				} else if ana.AccessPath(c.X) == "cfg.PeerClockCutoff" {
					beyondCutoff, cutoffKnown = val, true
				}
			case c.Op == token.LEQ && absOf(c.X) == raw: // |raw| <= M
				if imp, okM := maxCorrOf(c.Y); okM {
					out = append(out, verdict{imp, !val})
				}
			}
		}
		return
	}
	var bounded func(v ssa.Value, assign uint) (kind string, raw ssa.Value, why string)
	bounded = func(v ssa.Value, assign uint) (string, ssa.Value, string) {
		raw := v
		imp := ""
		if x, m, isClamp := clampExprOf(v); isClamp {
			i2, okM := maxCorrOf(m)
			if !okM {
				return "", nil, "clamp to a bound that is not impact*drift"
			}
			raw, imp = x, i2
		}
		vs, beyond, known := tests(raw, assign)
		if imp == "" {
			for _, t := range vs {
				if !t.exceeds {
					imp = t.imp
				}
			}
			if imp == "" {
				return "", nil, "unclamped offset " + ana.ValueString(v) + " without |offset| > bound being false"
			}
		}
		switch imp {
		case "ReferenceClockImpact":
			return "ref", raw, ""
		case "PeerClockImpact":
			if !known || !beyond {
				return "", nil, "peer offset used although |offset| > cfg.PeerClockCutoff is not established"
			}
			return "peer", raw, ""
		}
		return "", nil, "bound with unknown impact factor"
	}
	n := 0
	for a := uint(0); a < 1<<uint(len(atoms)); a++ {
		lf, okL := ve.Leaf(corr, a)
		if !okL {
			return false, nil, nil, 0, "the value is carried around the loop or selected by a structure outside the domain"
		}
		n++
		if isZeroConst(lf) {
			continue
		}
		if c, isCall := lf.(*ssa.Call); isCall && isMid(c) {
			la, ok1 := ve.Leaf(c.Call.Args[0], a)
			lb, ok2 := ve.Leaf(c.Call.Args[1], a)
			if !ok1 || !ok2 {
				return false, nil, nil, 0, "midpoint operand outside the domain"
			}
			k1, r1, w1 := bounded(la, a)
			k2, r2, w2 := bounded(lb, a)
			if k1 == "" || k2 == "" || k1 == k2 {
				return false, nil, nil, 0, "midpoint of " + w1 + " / " + w2
			}
			if k1 == "ref" {
				refRaw, peerRaw = r1, r2
			} else {
				refRaw, peerRaw = r2, r1
			}
			continue
		}
		k, raw, why := bounded(lf, a)
		switch k {
		case "ref":
			refRaw = raw
		case "peer":
			peerRaw = raw
		default:
			return false, nil, nil, 0, why
		}
	}
	if refRaw == nil || peerRaw == nil {
		return false, nil, nil, 0, "reference and peer contributions not both found"
	}
	return true, refRaw, peerRaw, n, ""
}

func c01Bounded(p *ana.Prog, r *ana.Result, fn *ssa.Function, do *ssa.Call) {
	fname := ana.FuncName(fn)
	corr := do.Call.Args[0]
	if okT, refRaw, peerRaw, n, _ := c01ByTable(fn, corr); okT {
		r.Ok("C01.clamp", fname, "actuated-value-bounded", posOf(p, do), fmt.Sprintf("under each of the %d assignments of the conditions that select it, the actuated value is 0, an offset bounded by RCI*drift, an offset bounded by PCI*drift that lies beyond the cutoff, or the Midpoint of the two", n))
		r.Ok("C01.cutoff", fname, "peer-flag-under-cutoff", posOf(p, do), "a peer offset reaches the actuation only where |peer offset| > cfg.PeerClockCutoff holds")
		r.Floor("C01.clamp.arms", 4, 4)
		c01Channels(p, r, fn, refRaw, "refClks", peerRaw, "peerClks")
		return
	}
	ph, ok := corr.(*ssa.Phi)
	if !ok {
		r.Violate("C01.clamp", fname, "actuated-value-form", posOf(p, do), "UNDECIDED: the value handed to adj.Do is not a merge of the switch arms")
		return
	}
	type leaf struct {
		v    ssa.Value
		pred *ssa.BasicBlock
	}
	var leaves []leaf
	seen := map[*ssa.Phi]bool{}
	cyc := false
	var walk func(ph *ssa.Phi)
	walk = func(ph *ssa.Phi) {
		if seen[ph] {
			cyc = true
			return
		}
		seen[ph] = true
		for i, e := range ph.Edges {
			if q, ok := e.(*ssa.Phi); ok && q.Comment == ph.Comment && q != ph {
				if _, _, isClamp := clampOf(q); !isClamp && !isPeerPhi(q) {
					walk(q)
					continue
				}
			}
			leaves = append(leaves, leaf{e, ph.Block().Preds[i]})
		}
	}
	walk(ph)
	var refRaw, peerRaw ssa.Value
	var refPhi, peerPhi ssa.Value
	bad := 0
	for _, lf := range leaves {
		switch {
		case isZeroConst(lf.v):
			continue
		default:
			if x, m, ok := clampOf(lf.v); ok {
				imp, okM := maxCorrOf(m)
				if okM && imp == "ReferenceClockImpact" {
					refRaw, refPhi = x, lf.v
					continue
				}
				_ = imp
			}
			if raw, flag, ok := peerBounded(lf.v); ok {
				if !flagTrueDominates(flag, lf.pred) {
					bad++
					r.Violate("C01.clamp", fname, "peer-arm-without-flag", posOf(p, do), "the peer correction is used on an arm that is not guarded by the peer flag (a peer offset within the cutoff, unclamped, could be applied)")
					continue
				}
				peerRaw, peerPhi = raw, lf.v
				c01PeerFlag(p, r, fn, flag, raw)
				continue
			}
			if c, _ := ana.CallOf(lf.v); c != nil && ana.CalleeName(c.Common()) == ana.Q("base/timemath.Midpoint") {
				a, b := c.Common().Args[0], c.Common().Args[1]
				xa, ma, oka := clampOf(a)
				rawb, flagb, okb := peerBounded(b)
				impa, okMa := "", false
				if oka {
					impa, okMa = maxCorrOf(ma)
				}
				if oka && okMa && impa == "ReferenceClockImpact" && okb && flagTrueDominates(flagb, lf.pred) {
					refRaw, refPhi = xa, a
					peerRaw, peerPhi = rawb, b
					continue
				}
			}
			bad++
			desc := ana.ValueString(lf.v)
			if q, isPhi := lf.v.(*ssa.Phi); isPhi && q.Block().Dominates(do.Block()) && inLoopHeader(q) {
				desc = "the value of `" + q.Comment + "` carried over from the previous round"
			}
			r.Violate("C01.clamp", fname, "unbounded-arm:"+shortDesc(lf.v), posOf(p, do), "adj.Do can receive "+desc+", which is neither 0, the clamped reference offset, the clamped and cutoff-tested peer offset, nor the midpoint of the two")
		}
	}
	if cyc {
		bad++
		r.Violate("C01.clamp", fname, "carried-over-correction", posOf(p, do), "the correction variable is live across loop iterations: a round in which neither source contributes re-applies the previous round's correction")
	}
	if bad == 0 && refPhi != nil && peerPhi != nil {
		r.Ok("C01.clamp", fname, "actuated-value-bounded", posOf(p, do), fmt.Sprintf("all %d arms of the actuated value are 0, clamp(ref, RCI*drift), clamp(peer, PCI*drift) under the peer flag, or Midpoint of the two", len(leaves)))
	} else if bad == 0 {
		r.Violate("C01.clamp", fname, "actuated-value-arms", posOf(p, do), "the reference-clock and peer contributions were not both found among the arms of the actuated value")
	}
	r.Floor("C01.clamp.arms", len(leaves), 4)
	// channel pairing: raw ref value is received from the channel fed by the reference round, raw peer from the peer round
	if refRaw != nil && peerRaw != nil {
		c01Channels(p, r, fn, refRaw, "refClks", peerRaw, "peerClks")
	}
}

func inLoopHeader(q *ssa.Phi) bool {
	// a phi one of whose incoming edges comes from a block it dominates (back edge)
	for _, pr := range q.Block().Preds {
		if q.Block().Dominates(pr) {
			return true
		}
	}
	return false
}

func shortDesc(v ssa.Value) string {
	if ph, ok := v.(*ssa.Phi); ok && ph.Comment != "" {
		return ph.Comment
	}
	if c, _ := ana.CallOf(v); c != nil {
		return ana.Short(ana.CalleeName(c.Common()))
	}
	if _, ok := v.(*ssa.UnOp); ok {
		return "received-value"
	}
	return "value"
}

func isZeroConst(v ssa.Value) bool {
	k, ok := ana.ConstInt(v)
	return ok && k == 0
}

func isPeerPhi(q *ssa.Phi) bool {
	_, _, ok := peerBounded(q)
	return ok
}

// clampExprOf: v = Duration(float64(Sgn(x)) * M); returns x and M.
func clampExprOf(v ssa.Value) (x, m ssa.Value, ok bool) {
	mul, isMul := ana.StripConv(v).(*ssa.BinOp)
	if !isMul || mul.Op != token.MUL {
		return nil, nil, false
	}
	for _, pr := range [][2]ssa.Value{{mul.X, mul.Y}, {mul.Y, mul.X}} {
		if c, _ := ana.CallOf(ana.StripConv(pr[0])); c != nil && ana.CalleeName(c.Common()) == ana.Q("base/timemath.Sgn") {
			return c.Common().Args[0], pr[1], true
		}
	}
	return nil, nil, false
}

// withinMax: block b is reachable only through the false edge of float64(raw.Abs()) > m.
func withinMax(raw, m ssa.Value, b *ssa.BasicBlock) bool {
	for _, d := range b.Parent().Blocks {
		n := len(d.Instrs)
		if n == 0 {
			continue
		}
		iff, ok := d.Instrs[n-1].(*ssa.If)
		if !ok {
			continue
		}
		c, succ, _, isCmp := ana.IfCmp(iff, token.GTR)
		if !isCmp || c.Y != m {
			continue
		}
		ab, _ := ana.CallOf(ana.StripConv(c.X))
		if ab == nil || ana.CalleeName(ab.Common()) != "(time.Duration).Abs" || ab.Common().Args[0] != raw {
			continue
		}
		// the not-exceeding successor is entered only from the test and leads to (or is) b
		ne := d.Succs[1-succ]
		if len(ne.Preds) == 1 && d.Succs[succ] != ne && (ne == b || ne.Dominates(b)) {
			return true
		}
	}
	return false
}

// peerBounded recognises the peer correction: phi[raw (flag=false), clamp(raw, PCI*drift) (flag=...)]
// with a sibling flag phi in the same block that is constant false on the raw edge. The clamp may be
// a nested two-way merge or merged directly into the same phi (k-way form):
// every incoming value is raw or the clamp expression of raw; wherever the flag is not the constant
// false, the value is the clamp expression, a clamp merge, or raw on the not-exceeding edge of the test.
func peerBounded(v ssa.Value) (raw ssa.Value, flag *ssa.Phi, ok bool) {
	ph, isPhi := v.(*ssa.Phi)
	if !isPhi || len(ph.Edges) < 2 {
		return nil, nil, false
	}
	if len(ph.Edges) == 2 {
		if r0, q, ok := peerBounded2(ph); ok {
			return r0, q, true
		}
	}
	// k-way: find raw and M from a clamp-expression edge
	var m ssa.Value
	for _, e := range ph.Edges {
		if x, mm, ok := clampExprOf(e); ok {
			raw, m = x, mm
		}
	}
	if raw == nil {
		return nil, nil, false
	}
	if imp, okM := maxCorrOf(m); !okM || imp != "PeerClockImpact" {
		return nil, nil, false
	}
	for _, in := range ph.Block().Instrs {
		q, isQ := in.(*ssa.Phi)
		if !isQ || q == ph || len(q.Edges) != len(ph.Edges) {
			continue
		}
		if bt, isB := q.Type().Underlying().(*types.Basic); !isB || bt.Kind() != types.Bool {
			continue
		}
		good, sawFalse, sawFlag := true, false, false
		for i, e := range ph.Edges {
			fb, isC := ana.ConstBool(q.Edges[i])
			if isC && !fb {
				sawFalse = true
				if e != raw {
					if x, _, ok := clampExprOf(e); !ok || x != raw {
						good = false
					}
				}
				continue
			}
			if isC && fb {
				good = false // flag set unconditionally
				continue
			}
			sawFlag = true
			if x, mm, ok := clampExprOf(e); ok && x == raw && mm == m {
				// the clamp expression is only taken where the test exceeded; fine either way (bounded)
				continue
			}
			if e == raw {
				pred := ph.Block().Preds[i]
				// raw on this edge must be within the bound: pred ends with the test and this is its false edge, or pred is dominated by the false edge
				okEdge := false
				if iff, isIf := pred.Instrs[len(pred.Instrs)-1].(*ssa.If); isIf {
					c, succ, _, isCmp := ana.IfCmp(iff, token.GTR)
					if isCmp && c.Y == m && pred.Succs[1-succ] == ph.Block() {
						if ab, _ := ana.CallOf(ana.StripConv(c.X)); ab != nil && ana.CalleeName(ab.Common()) == "(time.Duration).Abs" && ab.Common().Args[0] == raw {
							okEdge = true
						}
					}
				}
				if !okEdge && withinMax(raw, m, pred) {
					okEdge = true
				}
				if !okEdge {
					good = false
				}
				continue
			}
			if x, mm, ok := clampOf(e); ok && x == raw && mm == m {
				continue
			}
			good = false
		}
		if good && sawFalse && sawFlag {
			return raw, q, true
		}
	}
	return nil, nil, false
}

func peerBounded2(ph *ssa.Phi) (raw ssa.Value, flag *ssa.Phi, ok bool) {
	for i := 0; i < 2; i++ {
		r0, cl := ph.Edges[i], ph.Edges[1-i]
		x, m, isClamp := clampOf(cl)
		if !isClamp || x != r0 {
			continue
		}
		imp, okM := maxCorrOf(m)
		if !okM || imp != "PeerClockImpact" {
			continue
		}
		// sibling flag
		for _, in := range ph.Block().Instrs {
			q, isQ := in.(*ssa.Phi)
			if !isQ || q == ph {
				continue
			}
			if b, isC := ana.ConstBool(q.Edges[i]); isC && !b {
				if _, isC2 := ana.ConstBool(q.Edges[1-i]); !isC2 {
					return r0, q, true
				}
			}
		}
	}
	return nil, nil, false
}

// flagTrueDominates: block b is reachable only through an If on flag taking its true edge.
func flagTrueDominates(flag *ssa.Phi, b *ssa.BasicBlock) bool {
	fn := b.Parent()
	for _, d := range fn.Blocks {
		n := len(d.Instrs)
		if n == 0 {
			continue
		}
		iff, ok := d.Instrs[n-1].(*ssa.If)
		if !ok {
			continue
		}
		v, pos := ana.StripNot(iff.Cond)
		if v != ssa.Value(flag) {
			continue
		}
		idx := 1
		if pos {
			idx = 0
		}
		s := d.Succs[idx]
		if len(s.Preds) == 1 && (s == b || s.Dominates(b)) {
			return true
		}
	}
	return false
}

// c01PeerFlag: the flag's non-false input is computed under |raw| > cfg.PeerClockCutoff.
func c01PeerFlag(p *ana.Prog, r *ana.Result, fn *ssa.Function, flag *ssa.Phi, raw ssa.Value) {
	fname := ana.FuncName(fn)
	for _, o := range r.Obls {
		if o.Rule == "C01.cutoff" {
			return
		}
	}
	ok := false
	for i, e := range flag.Edges {
		if _, isC := ana.ConstBool(e); isC {
			continue
		}
		pred := flag.Block().Preds[i]
		// dominated by the true edge of Abs(raw) > cfg.PeerClockCutoff
		for _, d := range fn.Blocks {
			n := len(d.Instrs)
			if n == 0 {
				continue
			}
			iff, isIf := d.Instrs[n-1].(*ssa.If)
			if !isIf {
				continue
			}
			c, succ, _, isCmp := ana.IfCmp(iff, token.GTR)
			if !isCmp {
				continue
			}
			ab, _ := ana.CallOf(c.X)
			if ab == nil || ana.CalleeName(ab.Common()) != "(time.Duration).Abs" || ab.Common().Args[0] != raw {
				continue
			}
			if ana.AccessPath(c.Y) != "cfg.PeerClockCutoff" {
				continue
			}
			s := d.Succs[succ]
			if len(s.Preds) == 1 && (s == pred || s.Dominates(pred)) {
				ok = true
			}
		}
	}
	if ok {
		r.Ok("C01.cutoff", fname, "peer-flag-under-cutoff", posOf(p, flag), "the peer flag can be set only where |peer offset| > cfg.PeerClockCutoff (within the cutoff the peer contributes nothing)")
	} else {
		r.Violate("C01.cutoff", fname, "peer-flag-under-cutoff", posOf(p, flag), "the peer contribution is not conditioned on |peer offset| > cfg.PeerClockCutoff")
	}
}

// c01Channels: each raw offset is received from a channel whose only sender
// measures the matching clock list.
func c01Channels(p *ana.Prog, r *ana.Result, fn *ssa.Function, refRaw ssa.Value, refList string, peerRaw ssa.Value, peerList string) {
	fname := ana.FuncName(fn)
	// the channel a received value comes from: the variable holding it (when closures capture it) or
	// the channel value itself
	chanOf := func(v ssa.Value) ssa.Value {
		u, ok := v.(*ssa.UnOp)
		if !ok || u.Op != token.ARROW {
			return nil
		}
		if ld, ok := u.X.(*ssa.UnOp); ok && ld.Op == token.MUL {
			if a, ok := ld.X.(*ssa.Alloc); ok {
				return a
			}
			return nil
		}
		if mk, ok := u.X.(*ssa.MakeChan); ok {
			return mk
		}
		return nil
	}
	check := func(raw ssa.Value, list, who string) {
		ch := chanOf(raw)
		if ch == nil {
			r.Violate("C01.source", fname, "source:"+who, p.Pos(fn.Pos()), "UNDECIDED: the "+who+" offset is not received from a local channel")
			return
		}
		// every goroutine started here that sends on ch: the channel is captured by the goroutine's
		// closure or handed to it as an argument; so is the clock list it measures
		okSend := false
		nSend := 0
		for _, gin := range allInstrs(fn) {
			g, isGo := gin.(*ssa.Go)
			if !isGo {
				continue
			}
			var af *ssa.Function
			var binds []ssa.Value
			switch x := g.Call.Value.(type) {
			case *ssa.MakeClosure:
				af, _ = x.Fn.(*ssa.Function)
				binds = x.Bindings
			case *ssa.Function:
				af = x
			}
			if af == nil || af.Blocks == nil {
				continue
			}
			// resolve a value of the goroutine's function to the value it has at the go statement
			outer := func(v ssa.Value) ssa.Value {
				if ld, ok := v.(*ssa.UnOp); ok && ld.Op == token.MUL {
					if fv, ok := ld.X.(*ssa.FreeVar); ok {
						for bi, f := range af.FreeVars {
							if f == fv && bi < len(binds) {
								return binds[bi] // the captured variable (its address)
							}
						}
					}
				}
				if prm, ok := v.(*ssa.Parameter); ok {
					for pi, q := range af.Params {
						if q == prm && pi < len(g.Call.Args) {
							return g.Call.Args[pi]
						}
					}
				}
				return nil
			}
			isCh := func(v ssa.Value) bool {
				o := outer(v)
				if o == nil {
					return false
				}
				if ct, ok := o.(*ssa.ChangeType); ok {
					o = ct.X // chan T handed over as chan<- T
				}
				if o == ch {
					return true // captured variable, or the channel value passed as it is
				}
				ld, ok := o.(*ssa.UnOp)
				return ok && ld.Op == token.MUL && ld.X == ch // passed: the variable's current value
			}
			listOf := func(v ssa.Value) string {
				if o := outer(v); o != nil {
					if a, isAlloc := o.(*ssa.Alloc); isAlloc {
						return a.Comment
					}
					if ph, isPhi := o.(*ssa.Phi); isPhi && ph.Comment != "" {
						return ph.Comment // the list variable after an optional append
					}
					return ana.AccessPath(o)
				}
				return ana.AccessPath(v)
			}
			ana.Instrs(af, func(in ssa.Instruction) {
				snd, isS := in.(*ssa.Send)
				if !isS || !isCh(snd.Chan) {
					return
				}
				nSend++
				// value: 0, or measureOffsetToRefClks(...)#1 over the clock list `list`
				good := true
				any := false
				var walk func(v ssa.Value)
				walk = func(v ssa.Value) {
					if isZeroConst(v) {
						return
					}
					if ph, isP := v.(*ssa.Phi); isP {
						for _, e := range ph.Edges {
							walk(e)
						}
						return
					}
					c, idx := ana.CallOf(v)
					if c == nil || ana.CalleeName(c.Common()) != ana.Q("core/sync.measureOffsetToRefClks") || idx != 1 {
						good = false
						return
					}
					tmo := c.Common().Args[3]
					if o := outer(tmo); o != nil {
						tmo = o // the timeout handed to a named worker at the go statement
					}
					if !strings.HasSuffix(listOf(c.Common().Args[1]), list) || !strings.HasSuffix(ana.AccessPath(tmo), "cfg.SyncTimeout") {
						good = false
						return
					}
					any = true
				}
				walk(snd.X)
				if good && any {
					okSend = true
				} else if isZeroConst(snd.X) {
					nSend-- // `ch <- 0` on the empty-list path of the same goroutine
				}
			})
		}
		if okSend && nSend == 1 {
			r.Ok("C01.source", fname, "source:"+who, p.Pos(fn.Pos()), "the "+who+" offset is received from the channel fed by measureOffsetToRefClks(..., "+list+", ..., cfg.SyncTimeout) (or 0 when the list is empty)")
		} else {
			r.Violate("C01.source", fname, "source:"+who, p.Pos(fn.Pos()), "the "+who+" contribution (clamped with the "+who+" impact factor) does not come from the round over "+list)
		}
	}
	check(refRaw, refList, "reference")
	check(peerRaw, peerList, "peer")
	if chanOf(refRaw) != nil && chanOf(refRaw) == chanOf(peerRaw) {
		r.Violate("C01.source", fname, "distinct-channels", p.Pos(fn.Pos()), "reference and peer offsets are received from the same channel")
	}
}

func allInstrs(fn *ssa.Function) []ssa.Instruction {
	var out []ssa.Instruction
	ana.Instrs(fn, func(in ssa.Instruction) { out = append(out, in) })
	return out
}
