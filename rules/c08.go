package rules

import (
	"fmt"
	"go/token"
	"go/types"
	"os"
	"sort"
	"strings"

	"golang.org/x/tools/go/ssa"

	"verif/internal/ana"
)

func init() { All["C08"] = checkC08 }

// ---- E-SUM: frozen library summary rows (DESIGN §2.9) ------------------------

// assumedInfallible: library calls whose error is not reachable for values this
// process built or already decoded, or whose reachability is not decided. A
// fatal sink guarded only by them is listed as an assumption.
var assumedInfallible = map[string]string{
	"(github.com/google/gopacket.Payload).SerializeTo":                    "appends bytes to the serialize buffer; fails only on buffer growth errors",
	"(*github.com/scionproto/scion/pkg/slayers.SCION).SerializeTo":        "serialises a header this process decoded/built; fails for inconsistent address lengths or path serialisation (excluded by a successful decode)",
	"(*github.com/scionproto/scion/pkg/slayers.UDP).SerializeTo":          "fixed 8-byte header",
	"(*github.com/scionproto/scion/pkg/slayers.SCMP).SerializeTo":         "fixed header + checksum over a set network layer",
	"(*github.com/scionproto/scion/pkg/slayers.EndToEndExtn).SerializeTo": "options built by this process / decoded before",
	"(github.com/google/gopacket.SerializeBuffer).Clear":                  "resets the buffer; the gopacket implementation always returns nil",
	"github.com/scionproto/scion/pkg/spao.ComputeAuthCMAC":                "fails only for header > 1020 B, unaligned header or unknown path type - all excluded by a successful DecodeLayers (mac.go:116-188)",
	"example.com/scion-time/net/scion.DeriveHostHostKey":                  "host string is netip.Addr.String() of a 4/16-byte address, always accepted by addr.ParseHost (generic.go:75)",
	"(*github.com/scionproto/scion/pkg/slayers.SCION).SetSrcAddr":         "IP host addresses are always accepted",
	"(*github.com/scionproto/scion/pkg/slayers.SCION).SetDstAddr":         "IP host addresses are always accepted",
	"(github.com/scionproto/scion/pkg/slayers/path.Path).SerializeTo":     "buffer sized with Path.Len() of the same decoded path",
	"(github.com/scionproto/scion/pkg/snet.DataplanePath).SetPath":        "path object obtained from the local daemon / constructed locally",
}

// interpretClass: library operations that can fail because of what the peer
// sent; each row names a concrete failing input.
var interpretClass = map[string]string{
	"net/netip.AddrFromSlice":                                             "ok=false unless len is 4 or 16: a SCION header with address type length 8 or 12 decodes fine and fails here",
	"(github.com/scionproto/scion/pkg/slayers/path.Path).Reverse":         "errors on an empty decoded SCION path and on a one-hop path with SecondHop.ConsIngress == 0",
	"(github.com/scionproto/scion/pkg/snet.DefaultReplyPather).ReplyPath": "same as Reverse, plus unknown path type",
	"net.ParseIP": "returns nil for host names (RFC 8915 allows a name in the NTPv4 Server record)",
}

// fatalCallees: calls that terminate the process.
func isFatalCall(name string) bool {
	switch name {
	case "os.Exit", "log.Fatal", "log.Fatalf", "log.Fatalln", "log.Panic", "log.Panicf":
		return true
	}
	return strings.HasPrefix(name, ana.ModPath+"/base/logbase.Fatal") || name == ana.ModPath+"/base/logbase.logFatal"
}

var c08Roots = [][2]string{
	{"core/server", "runIPServer"},
	{"core/server", "runSCIONServer"},
	{"core/server", "runCSPTPServerIP"},
	{"core/server", "handleKeyExchangeTLS"},
	{"core/server", "handleKeyExchangeQUIC"},
	{"net/scion", "(*baseConn).readPkt"},
	{"net/scion", "(*serverConn).ReadFrom"},
	{"net/scion", "(*clientConn).ReadFrom"},
	{"core/client", "(*IPClient).measureClockOffsetIP"},
	{"core/client", "(*SCIONClient).measureClockOffsetSCION"},
	{"core/client", "(*CSPTPClientIP).MeasureClockOffset"},
	{"net/ntske", "ReadData"},
	{"net/ntske", "exchangeDataTLS"},
	{"net/ntske", "exchangeDataQUIC"},
}

func c08Taint(p *ana.Prog, r *ana.Result) *ana.TaintState {
	var roots []*ssa.Function
	for _, rt := range c08Roots {
		if f := mustFunc(p, r, rt[0], rt[1]); f != nil {
			roots = append(roots, f)
		}
	}
	cfg := ana.TaintCfg{
		CleanResults: map[string]string{},
		CleanCallees: map[string]string{
			"(github.com/scionproto/scion/pkg/daemon.Connector).": "answers of the local SCION daemon (paths, DRKeys) are local trusted input, not network input of this process",
		},
		CleanCalls: map[string]string{
			"(*" + ana.ModPath + "/net/ntske.EncryptedServerCookie).Decrypt|(crypto/cipher.AEAD).Open": "cookie plaintext was sealed under a key only this server (and its key-exchange server) holds: its shape is this program's own output",
		}}
	return ana.BuildTaint(p, roots, cfg)
}

func checkC08(p *ana.Prog, r *ana.Result) {
	r.Explain("C08 (structural necessary conditions) over all code reachable from the 14 network roots (listener loops, key-exchange handlers, the QUIC packet connections and the three clients), using a forward taint analysis from the network reads (content and length bits, field-based locations, interprocedural to a fixpoint): fatal - no panic / os.Exit / logbase.Fatal is directly control dependent on a condition computed from network data, on the result of a library operation that interprets network data and can fail for it, or on a library result not in the reviewed summary table; pre/bounds - every index, slice and length-precondition obligation on data whose length or index is peer-chosen is discharged by the compiler's bounds-check elimination or by the difference-bound prover from dominating guards; progress - every loop whose cursor walks peer-supplied bytes advances by at least one per iteration; cmsg - the kernel control-message parser is fed only with control data of a receive call; sources - the set of network read call sites found by type equals the modelled set; the PacketConn handed to quic-go never returns a content-dependent error (quic-go closes the transport on any non-temporary ReadFrom error). recv-buffer - at every datagram read inside a loop both buffer arguments have full capacity on every path (a buffer left cut to the previous datagram truncates the next one for ever); accept - the accept loops contain no blocking channel operation.")
	r.Undecided("errors assumed infallible (listed as assumptions), panics inside third-party decoders (gopacket, slayers, quic-go, crypto/tls), nil-interface calls (daemon connector), memory exhaustion, slow-loris on the key-exchange handlers, that the next well-formed request is answered beyond the absence of fatal sinks and stalled loops")
	for _, row := range [][2]map[string]string{{assumedInfallible, interpretClass}} {
		for k, v := range row[0] {
			r.Trust("assumed-infallible: " + ana.Short(k) + " - " + v)
		}
		for k, v := range row[1] {
			r.Trust("interpret-class: " + ana.Short(k) + " - " + v)
		}
	}
	ts := c08Taint(p, r)
	if os.Getenv("C08_LOCS") != "" {
		for _, l := range ts.LocTaints() {
			fmt.Println("LOC", l)
		}
	}
	if d := os.Getenv("C08_DUMP"); d != "" {
		for _, f := range ts.Reachable() {
			if strings.Contains(ana.FuncName(f), d) {
				fmt.Println("== taint in", ana.FuncName(f))
				for _, l := range ts.DumpFunc(f) {
					fmt.Println("   ", l)
				}
			}
		}
	}
	for _, f := range ts.Reachable() {
		r.Saw(ana.FuncName(f))
	}
	r.Floor("C08.reachable-functions", len(ts.Reachable()), 100)
	pset := ana.NewProverSet(p.AllFuncs)
	pset.PhiLower = phiLowerBound
	ana.DebugStable = os.Getenv("C08_STABLE") != ""
	c08Sources(p, r, ts)
	c08Fatal(p, r, ts, pset)
	c08PacketConn(p, r, ts)
	c08Accept(p, r)
	c08RecvBuffer(p, r)
	c08Cmsg(p, r, ts)
	c08Progress(p, r, ts, pset)
	c08Bounds(p, r, ts, pset)
}

// ---- C08.sources ------------------------------------------------------------

func c08Sources(p *ana.Prog, r *ana.Result, ts *ana.TaintState) {
	// every call in a reachable function whose callee looks like a network/stream read must be a modelled source
	modelled := map[string]bool{
		"(*net.UDPConn).ReadMsgUDPAddrPort": true, "(*net.UDPConn).ReadFrom": true,
		"(*github.com/google/gopacket.DecodingLayerParser).DecodeLayers": true,
		"encoding/binary.Read": true, "io.ReadFull": true, "io.ReadAtLeast": true, "(*bufio.Reader).Read": true,
		"(*bufio.Reader).Discard": true, // hands no data to the caller (count and error only)
	}
	n := 0
	for _, f := range ts.Reachable() {
		ana.Instrs(f, func(in ssa.Instruction) {
			c, ok := in.(ssa.CallInstruction)
			if !ok {
				return
			}
			name := ana.CalleeName(c.Common())
			base := name[strings.LastIndex(name, ".")+1:]
			isRead := strings.HasPrefix(base, "Read") || strings.HasPrefix(base, "Recv") || base == "DecodeLayers" || base == "Peek" || base == "Discard" || base == "WriteTo" && false
			if !isRead {
				return
			}
			// only reads on connections / readers / packets
			recvOK := strings.Contains(name, "net.") || strings.Contains(name, "bufio.") || strings.Contains(name, "io.") || strings.Contains(name, "binary.") || strings.Contains(name, "tls.") || strings.Contains(name, "quic") || strings.Contains(name, "gopacket") || strings.Contains(name, "unix.Recv")
			if !recvOK {
				return
			}
			if ts.Callees(c.Common()) != nil {
				return // repo function (readPkt, ReadFrom, ReadData ...): analysed, not a source
			}
			if strings.HasSuffix(name, "unix.Recvmsg") || strings.Contains(name, "ReadTXTimestamp") || strings.HasSuffix(name, "RawConn).Read") || strings.HasSuffix(name, "RawConn.Read") {
				r.Ok("C08.sources", ana.FuncName(f), "kernel-source:"+ana.Short(name), posOf(p, in), "error-queue / raw-conn read of kernel-produced control data (not network payload)")
				return
			}
			n++
			if modelled[name] {
				r.Ok("C08.sources", ana.FuncName(f), "source:"+ana.Short(name), posOf(p, in), "modelled network read")
			} else {
				r.Violate("C08.sources", ana.FuncName(f), "unmodelled-read:"+ana.Short(name), posOf(p, in), "a read from the network that the taint model does not know: data it returns would be treated as trusted")
			}
		})
	}
	r.Floor("C08.sources.sites", n, 15)
	r.Table("taint_sources", ts.Sources)
}

// ---- C08.fatal ----------------------------------------------------------------

type sinkInfo struct {
	fn   *ssa.Function
	in   ssa.Instruction
	desc string
}

// alwaysNilResult: every return of f has the nil constant at result index idx.
func alwaysNilResult(f *ssa.Function, idx int) bool {
	if f == nil || f.Blocks == nil {
		return false
	}
	ok := true
	n := 0
	ana.Instrs(f, func(in ssa.Instruction) {
		ret, isR := in.(*ssa.Return)
		if !isR || (f.Recover != nil && ret.Block() == f.Recover) {
			return
		}
		n++
		if idx >= len(ret.Results) || !ana.IsNilConst(ret.Results[idx]) {
			ok = false
		}
	})
	return ok && n > 0
}

// condOrigin classifies a tainted guard condition.
// kind: "direct" (comparison over network data), "interpret", "assumed", "unknown-lib", "repo-error", "dead".
func condOrigin(ts *ana.TaintState, cond ssa.Value) (kind, what string) {
	v, _ := ana.StripNot(cond)
	// phi of boolean parts
	if ph, ok := v.(*ssa.Phi); ok {
		best, bw := "", ""
		for _, e := range ph.Edges {
			if _, isC := e.(*ssa.Const); isC {
				continue
			}
			k, w := condOrigin(ts, e)
			if rank(k) > rank(best) {
				best, bw = k, w
			}
		}
		return best, bw
	}
	bo, isCmp := v.(*ssa.BinOp)
	var subject ssa.Value = v
	if isCmp {
		subject = bo.X
		if ana.IsNilConst(bo.X) {
			subject = bo.Y
		}
		if _, isK := bo.Y.(*ssa.Const); !isK {
			if _, isK2 := bo.X.(*ssa.Const); !isK2 {
				// comparison of two non-constants
				if c1, _ := ana.CallOf(ana.Resolve(bo.X)); c1 == nil {
					return "direct", ana.ValueString(v)
				}
			}
		}
	}
	call, idx := ana.CallOf(ana.Resolve(ana.StripConv(subject)))
	if call == nil {
		return "direct", ana.ValueString(v)
	}
	name := ana.CalleeName(call.Common())
	if why, ok := interpretClass[name]; ok {
		return "interpret", ana.Short(name) + ": " + why
	}
	if why, ok := assumedInfallible[name]; ok {
		return "assumed", ana.Short(name) + ": " + why
	}
	switch name {
	case "(time.Time).Sub", "(time.Time).Before", "(time.Time).After", "(time.Time).Compare", "(time.Time).Equal", "bytes.Equal", "bytes.Compare", "(net/netip.Addr).Compare", "(net/netip.AddrPort).Compare", "strings.Contains":
		return "direct", "comparison of network-derived values via " + ana.Short(name)
	}
	callees := ts.Callees(call.Common())
	if len(callees) > 0 {
		allNil := true
		for _, f := range callees {
			if !alwaysNilResult(f, idx) {
				allNil = false
			}
		}
		if allNil && isCmp && (ana.IsNilConst(bo.X) || ana.IsNilConst(bo.Y)) {
			return "dead", ana.Short(name) + " always returns nil at result " + fmt.Sprint(idx)
		}
		return "repo-error", ana.Short(name)
	}
	if b, ok := call.Common().Value.(*ssa.Builtin); ok {
		return "direct", b.Name() + "(...) of network data"
	}
	return "unknown-lib", ana.Short(name)
}

func rank(k string) int {
	switch k {
	case "direct", "interpret", "repo-error":
		return 4
	case "unknown-lib":
		return 3
	case "assumed":
		return 2
	case "dead":
		return 1
	}
	return 0
}

func c08Fatal(p *ana.Prog, r *ana.Result, ts *ana.TaintState, pset *ana.ProverSet) {
	nSinks := 0
	counts := map[string]int{}
	for _, f := range ts.Reachable() {
		var cd *ana.CtrlDep
		fname := ana.FuncName(f)
		ana.Instrs(f, func(in ssa.Instruction) {
			desc := ""
			switch x := in.(type) {
			case *ssa.Panic:
				desc = "panic"
				// explicit panics only (run-time checks are C08.bounds)
				if !in.Pos().IsValid() && !x.X.Pos().IsValid() {
					// select/typeassert lowering panics: keep, they are explicit in SSA only
					if c, ok := x.X.(*ssa.MakeInterface); ok {
						if k, ok := c.X.(*ssa.Const); ok && k.Value != nil && strings.Contains(k.Value.ExactString(), "blocking select") {
							return
						}
					}
				}
			case ssa.CallInstruction:
				n := ana.CalleeName(x.Common())
				if !isFatalCall(n) {
					return
				}
				if f.Pkg != nil && f.Pkg.Pkg.Path() == ana.ModPath+"/base/logbase" {
					return // the sink's own body
				}
				desc = ana.Short(n)
			default:
				return
			}
			nSinks++
			if cd == nil {
				cd = ana.ControlDeps(f)
			}
			edges := cd.Direct(in.Block())
			sort.Slice(edges, func(i, j int) bool { return edges[i].From.Index < edges[j].From.Index })
			worst, worstWhat := "", ""
			var worstPos token.Pos
			guardDesc := "unconditional"
			for _, e := range edges {
				iff, ok := e.From.Instrs[len(e.From.Instrs)-1].(*ssa.If)
				if !ok {
					continue
				}
				guardDesc = "guarded"
				if ts.Of(iff.Cond) == 0 {
					// the condition itself is not tainted; a dead guard also clears the sink
					if k, w := condOrigin(ts, iff.Cond); k == "dead" {
						worst, worstWhat = "dead", w
						break
					}
					continue
				}
				k, w := condOrigin(ts, iff.Cond)
				if k == "dead" {
					worst, worstWhat = "dead", w
					break
				}
				if k == "direct" {
					if okI, whyI := lengthEstablishedByEarlierCall(p, ts, f, iff.Cond); okI {
						worst, worstWhat = "dead", "accepted idiom 'length established by earlier call': "+whyI
						break
					}
				}
				if k == "direct" {
					// the guard is a condition on the function's parameters that every caller excludes
					if goals := pset.For(f).OppositeEdgeFacts(e.From, e.Succ); len(goals) > 0 {
						o := boundObl{fn: f, in: iff, desc: desc, goals: goals}
						if okL, how := liftToCallers(p, ts, o, pset.For, 0); okL {
							worst, worstWhat = "dead", "every call site establishes the negation of the guard ("+how+")"
							break
						}
					}
				}
				if rank(k) > rank(worst) {
					worst, worstWhat, worstPos = k, w, iff.Cond.Pos()
				}
			}
			key := "sink:" + desc + "<-" + sinkGuardKey(worst, worstWhat, in)
			switch worst {
			case "":
				counts["not-taint-controlled"]++
				r.Ok("C08.fatal", fname, "sink:"+desc+"@"+guardKeyOf(in, edges), posOf(p, in), "fatal sink is "+guardDesc+" by conditions that do not depend on network data")
			case "dead":
				counts["dead"]++
				r.Ok("C08.fatal", fname, "sink:"+desc+"@dead:"+worstWhat, posOf(p, in), "unreachable: "+worstWhat)
			case "assumed":
				counts["assumed"]++
				r.Assumed("C08.fatal", fname, key, posOf(p, in), "fatal sink guarded only by an assumed-infallible library error on network-derived arguments - "+worstWhat)
			case "unknown-lib":
				counts["violations"]++
				r.Violate("C08.fatal", fname, key, posOf(p, in), "a fatal sink is controlled by the result of "+worstWhat+" applied to network data; that operation has no reviewed summary row (default deny)")
			default:
				counts["violations"]++
				pos := posOf(p, in)
				if worstPos.IsValid() {
					pos = p.Pos(worstPos) + " -> " + pos
				}
				r.Violate("C08.fatal", fname, key, pos, fmt.Sprintf("one datagram/stream from the network can terminate the process: %s is directly controlled by a condition on network data (%s: %s)", desc, worst, worstWhat))
			}
		})
	}
	r.Floor("C08.fatal.sinks", nSinks, 40)
	r.Table("fatal_sink_census", counts)
}

func guardKeyOf(in ssa.Instruction, edges []ana.Edge) string {
	var parts []string
	for _, e := range edges {
		if iff, ok := e.From.Instrs[len(e.From.Instrs)-1].(*ssa.If); ok {
			parts = append(parts, shortCond(iff.Cond))
		}
	}
	if len(parts) == 0 {
		return "unconditional"
	}
	if len(parts) > 2 {
		parts = parts[:2]
	}
	return strings.Join(parts, "&")
}

func shortCond(v ssa.Value) string {
	v, _ = ana.StripNot(v)
	if bo, ok := v.(*ssa.BinOp); ok {
		x := bo.X
		if ana.IsNilConst(x) {
			x = bo.Y
		}
		if c, idx := ana.CallOf(ana.Resolve(ana.StripConv(x))); c != nil {
			return fmt.Sprintf("%s#%d", ana.Short(ana.CalleeName(c.Common())), idx)
		}
		if pth := ana.AccessPath(ana.StripConv(x)); pth != "" {
			return pth
		}
	}
	if c, idx := ana.CallOf(v); c != nil {
		return fmt.Sprintf("%s#%d", ana.Short(ana.CalleeName(c.Common())), idx)
	}
	if pth := ana.AccessPath(v); pth != "" {
		return pth
	}
	return "cond"
}

func sinkGuardKey(kind, what string, in ssa.Instruction) string {
	w := what
	if i := strings.Index(w, ":"); i > 0 {
		w = w[:i]
	}
	// include the guarded subject for uniqueness
	blk := in.Block()
	cd := ana.ControlDeps(blk.Parent())
	return kind + ":" + w + "@" + guardKeyOf(in, cd.Direct(blk))
}

// ---- the PacketConn contract with quic-go -------------------------------------

func c08PacketConn(p *ana.Prog, r *ana.Result, ts *ana.TaintState) {
	// (*serverConn).ReadFrom / (*clientConn).ReadFrom: a failure return is fatal for the listener
	// (quic-go closes the transport on non-temporary errors). Failure returns must not be controlled by network data.
	for _, name := range []string{"(*serverConn).ReadFrom", "(*clientConn).ReadFrom"} {
		f := mustFunc(p, r, "net/scion", name)
		if f == nil {
			continue
		}
		fname := ana.FuncName(f)
		cd := ana.ControlDeps(f)
		rets := ana.ClassifyReturns(f)
		n := 0
		for _, ri := range rets {
			if ri.Class == "success" {
				continue
			}
			n++
			tainted, what := false, ""
			for _, e := range cd.Direct(ri.Ret.Block()) {
				iff, ok := e.From.Instrs[len(e.From.Instrs)-1].(*ssa.If)
				if !ok || ts.Of(iff.Cond) == 0 {
					continue
				}
				k, w := condOrigin(ts, iff.Cond)
				if k == "dead" {
					continue
				}
				// an error passed through from the underlying socket read is the transport's own failure
				if c, _ := ana.CallOf(ana.Resolve(condSubject(iff.Cond))); c != nil {
					cn := ana.CalleeName(c.Common())
					if cn == ana.Q("(*net/scion.baseConn).readPkt") {
						continue
					}
				}
				tainted, what = true, k+": "+w
			}
			errDesc := "error"
			if len(ri.ErrVals) > 0 {
				errDesc = ana.ValueString(ri.ErrVals[0])
			}
			if tainted {
				r.Violate("C08.fatal", fname, "packetconn-error-on-content:"+errDesc, posOf(p, ri.Ret), "ReadFrom of the PacketConn handed to quic-go returns "+errDesc+" depending on packet content ("+what+"); quic-go closes the transport on any non-temporary ReadFrom error, so one datagram stops the NTS-KE-over-SCION listener")
			} else {
				r.Ok("C08.fatal", fname, "packetconn-error:"+errDesc, posOf(p, ri.Ret), "this failure return does not depend on packet content")
			}
		}
		_ = n
	}
}

func condSubject(cond ssa.Value) ssa.Value {
	v, _ := ana.StripNot(cond)
	if bo, ok := v.(*ssa.BinOp); ok {
		if ana.IsNilConst(bo.X) {
			return bo.Y
		}
		return bo.X
	}
	return v
}

// ---- C08.cmsg -------------------------------------------------------------------

func c08Cmsg(p *ana.Prog, r *ana.Result, ts *ana.TaintState) {
	n := 0
	for _, f := range ts.Reachable() {
		for _, c := range ana.CallsIn(f, ana.Q("net/udp.TimestampFromOOBData")) {
			n++
			arg := c.Common().Args[0]
			okSrc := false
			desc := ana.ValueString(arg)
			// oob[:oobn] of a ReadMsgUDPAddrPort in this function, or oob[:0]
			if sl, ok := ana.UniqueReaching(f, arg).(*ssa.Slice); ok {
				if e, ok := sl.High.(*ssa.Extract); ok && e.Index == 1 {
					if rc, ok := e.Tuple.(*ssa.Call); ok && ana.CalleeName(&rc.Call) == fnReadMsg && sliceRootIs(sl.X, rc.Call.Args[2]) {
						okSrc = true
					}
				}
			}
			if okSrc && ts.Of(arg) == 0 {
				r.Ok("C08.cmsg", ana.FuncName(f), "cmsg-parser-input:oob", posOf(p, c), "the control-message parser is fed oob[:oobn] of this receive call (kernel-produced data)")
				continue
			}
			// network payload is parsed as control messages: allowed only because the parser
			// itself is analysed as code that handles network data (its parameter is tainted,
			// so every index, slice, unsafe access and fatal sink in it is an obligation of
			// C08.bounds / C08.fatal)
			callee := c.Common().StaticCallee()
			if callee != nil && ts.IsReachable(callee) && len(callee.Params) > 0 && ts.Of(callee.Params[0]) != 0 {
				r.Ok("C08.cmsg", ana.FuncName(f), "cmsg-parser-input:"+desc, posOf(p, c), "network payload is parsed as control messages; the parser's parameter is network-tainted, so its totality is decided by the C08.bounds (in-range, unsafe-read) and C08.fatal obligations inside net/udp.TimestampFromOOBData")
			} else {
				r.Violate("C08.cmsg", ana.FuncName(f), "cmsg-parser-input:"+desc, posOf(p, c), "the control-message parser udp.TimestampFromOOBData is applied to "+desc+" (network payload) but is not analysed as network-facing code")
			}
		}
	}
	r.Floor("C08.cmsg.sites", n, 6)
}

// ---- C08.progress -----------------------------------------------------------------

// natural loops by back edges (target dominates source)
func backEdges(fn *ssa.Function) []ana.Edge {
	var out []ana.Edge
	for _, b := range fn.Blocks {
		for si, s := range b.Succs {
			if s.Dominates(b) {
				out = append(out, ana.Edge{From: b, Succ: si})
			}
		}
	}
	return out
}

// lenUsedInCond: cond compares len(ph).
func lenUsedInCond(ph *ssa.Phi, cond ssa.Value) bool {
	found := false
	var walk func(v ssa.Value, d int)
	walk = func(v ssa.Value, d int) {
		if d > 6 || found {
			return
		}
		switch x := v.(type) {
		case *ssa.BinOp:
			walk(x.X, d+1)
			walk(x.Y, d+1)
		case *ssa.UnOp:
			walk(x.X, d+1)
		case *ssa.Convert:
			walk(x.X, d+1)
		case *ssa.Call:
			if b, ok := x.Call.Value.(*ssa.Builtin); ok && b.Name() == "len" && x.Call.Args[0] == ssa.Value(ph) {
				found = true
			}
		}
	}
	walk(cond, 0)
	return found
}

func c08Progress(p *ana.Prog, r *ana.Result, ts *ana.TaintState, pset *ana.ProverSet) {
	n := 0
	for _, f := range ts.Reachable() {
		fname := ana.FuncName(f)
		headers := map[*ssa.BasicBlock]bool{}
		for _, e := range backEdges(f) {
			headers[e.To()] = true
		}
		for h := range headers {
			// cursor phis in the header whose loop condition involves tainted data
			iff, ok := lastIf(h)
			var condBlk = h
			if !ok {
				// rotated loops / conditions in the first body block: look one block ahead
				continue
			}
			_ = condBlk
			if ts.Of(iff.Cond) == 0 {
				continue
			}
			for _, in := range h.Instrs {
				ph, isPhi := in.(*ssa.Phi)
				if !isPhi {
					break
				}
				if !isIntLike(ph) || !usedInCond(ph, iff.Cond) {
					continue
				}
				// every back-edge value must be ph + (something >= 1)
				n++
				okAll := true
				why := ""
				for i, e := range ph.Edges {
					pred := h.Preds[i]
					if !h.Dominates(pred) {
						continue // loop entry
					}
					lo, ok := minIncrement(f, e, ph, pred, 0)
					if !ok || lo < 1 {
						// second opinion: the linear prover (guards on copies, struct values, callee summaries)
						pr := pset.For(f)
						el, ok1 := pr.Int(e, 0)
						pl, ok2 := pr.Int(ph, 0)
						if ok1 && ok2 {
							goal := el.Add(pl, -1)
							goal.C -= 1
							if pr.ProveAt(goal, pred.Instrs[len(pred.Instrs)-1]) {
								continue
							}
						}
						okAll = false
						why = fmt.Sprintf("cursor `%s` changes by %s on the way back to the loop test", ph.Comment, describeStep(e, ph))
					}
				}
				key := "loop-cursor:" + ph.Comment
				if okAll {
					r.Ok("C08.progress", fname, key, posOf(p, iff), "the cursor advances by at least 1 on every iteration of this loop over network data")
				} else {
					r.Violate("C08.progress", fname, key, posOf(p, iff), "a loop over network bytes may not advance: "+why+" (a peer-chosen length of 0 - or below the header size - keeps the goroutine spinning forever)")
				}
			}
			// reslice loops: a slice phi tested through len() that is re-sliced on the way back
			for _, in := range h.Instrs {
				ph, isPhi := in.(*ssa.Phi)
				if !isPhi {
					break
				}
				if !isSliceType(ph.Type()) || !lenUsedInCond(ph, iff.Cond) {
					continue
				}
				n++
				okAll := true
				why := ""
				for i, e := range ph.Edges {
					pred := h.Preds[i]
					if !h.Dominates(pred) {
						continue
					}
					sl, isSl := e.(*ssa.Slice)
					if !isSl || sl.X != ssa.Value(ph) || sl.Low == nil {
						okAll = false
						why = "the slice is not shortened from the front on the way back to the loop test"
						continue
					}
					pr := pset.For(f)
					lo, okL := pr.Int(sl.Low, 0)
					if okL {
						lo.C -= 1
					}
					if !okL || !pr.ProveAt(lo, sl) {
						okAll = false
						why = fmt.Sprintf("the amount `%s` cut off the front is not provably >= 1", ana.ValueString(sl.Low))
					}
				}
				key := "loop-cursor:len(" + ph.Comment + ")"
				if okAll {
					r.Ok("C08.progress", fname, key, posOf(p, iff), "the slice shrinks by at least 1 byte on every iteration of this loop over network data")
				} else {
					r.Violate("C08.progress", fname, key, posOf(p, iff), "a loop over network bytes may not advance: "+why+" (the goroutine keeps spinning on the same bytes)")
				}
			}
		}
	}
	r.Floor("C08.progress.loops", n, 3)
}

func lastIf(b *ssa.BasicBlock) (*ssa.If, bool) {
	if len(b.Instrs) == 0 {
		return nil, false
	}
	iff, ok := b.Instrs[len(b.Instrs)-1].(*ssa.If)
	return iff, ok
}

func isIntLike(ph *ssa.Phi) bool {
	k, _ := ana.ConstInt(ph.Edges[0])
	_ = k
	s := ph.Type().Underlying().String()
	return strings.HasPrefix(s, "int") || strings.HasPrefix(s, "uint")
}

func usedInCond(ph *ssa.Phi, cond ssa.Value) bool {
	seen := map[ssa.Value]bool{}
	var rec func(v ssa.Value, d int) bool
	rec = func(v ssa.Value, d int) bool {
		if v == ssa.Value(ph) {
			return true
		}
		if d > 6 || seen[v] {
			return false
		}
		seen[v] = true
		switch x := v.(type) {
		case *ssa.BinOp:
			return rec(x.X, d+1) || rec(x.Y, d+1)
		case *ssa.UnOp:
			return rec(x.X, d+1)
		case *ssa.Convert:
			return rec(x.X, d+1)
		case *ssa.Phi:
			for _, e := range x.Edges {
				if rec(e, d+1) {
					return true
				}
			}
		}
		return false
	}
	return rec(cond, 0)
}

func describeStep(e ssa.Value, ph *ssa.Phi) string {
	if l, ok := ana.Linear(e); ok {
		return "`" + l.String() + "` (in terms of SSA values)"
	}
	return ana.ValueString(e)
}

// minIncrement computes a lower bound of (e - ph) using: constants, unsigned
// conversions (>= 0), copy results (>= 0), and lower bounds established by
// guards dominating block at (x >= k on the taken edge).
func minIncrement(fn *ssa.Function, e ssa.Value, ph *ssa.Phi, at *ssa.BasicBlock, d int) (int64, bool) {
	if d > 12 {
		return 0, false
	}
	if e == ssa.Value(ph) {
		return 0, true
	}
	switch x := e.(type) {
	case *ssa.Phi:
		// min over incoming
		var lo int64
		first := true
		for i, v := range x.Edges {
			l, ok := minIncrement(fn, v, ph, x.Block().Preds[i], d+1)
			if !ok {
				return 0, false
			}
			if first || l < lo {
				lo, first = l, false
			}
		}
		return lo, !first
	case *ssa.BinOp:
		switch x.Op {
		case token.ADD:
			a, ok1 := minIncrement(fn, x.X, ph, at, d+1)
			if ok1 {
				b, ok2 := lowerBound(fn, x.Y, at, d+1)
				if ok2 {
					return a + b, true
				}
			}
			b, ok1 := minIncrement(fn, x.Y, ph, at, d+1)
			if ok1 {
				a, ok2 := lowerBound(fn, x.X, at, d+1)
				if ok2 {
					return a + b, true
				}
			}
		case token.SUB:
			a, ok1 := minIncrement(fn, x.X, ph, at, d+1)
			if k, isK := ana.ConstInt(x.Y); ok1 && isK {
				return a - k, true
			}
		}
	case *ssa.Extract:
		// pos, err := c.pack(buf, pos): result #0 of a repo function f(…, pos) that returns pos + n
		if c, ok := x.Tuple.(*ssa.Call); ok && x.Index == 0 {
			if cal := c.Call.StaticCallee(); cal != nil && cal.Blocks != nil {
				return calleeAdvance(fn, c, cal, ph, at, d)
			}
		}
	case *ssa.Call:
		if cal := x.Call.StaticCallee(); cal != nil && cal.Blocks != nil {
			return calleeAdvance(fn, x, cal, ph, at, d)
		}
	}
	return 0, false
}

// calleeAdvance: the callee returns one of its int parameters plus a nonnegative amount.
func calleeAdvance(fn *ssa.Function, c *ssa.Call, cal *ssa.Function, ph *ssa.Phi, at *ssa.BasicBlock, d int) (int64, bool) {
	for pi, prm := range cal.Params {
		argIdx := pi
		if argIdx >= len(c.Call.Args) {
			continue
		}
		base, ok := minIncrement(fn, c.Call.Args[argIdx], ph, at, d+1)
		if !ok {
			continue
		}
		// all success returns are prm + (>=k)
		var lo int64
		first := true
		good := true
		ana.Instrs(cal, func(in ssa.Instruction) {
			ret, isR := in.(*ssa.Return)
			if !isR || len(ret.Results) == 0 {
				return
			}
			// skip failure returns (error non-nil) - they leave the loop
			if len(ret.Results) == 2 && !ana.IsNilConst(ret.Results[1]) {
				return
			}
			l, ok := advanceOver(cal, ret.Results[0], prm, ret.Block(), 0)
			if !ok {
				good = false
				return
			}
			if first || l < lo {
				lo, first = l, false
			}
		})
		if good && !first {
			return base + lo, true
		}
	}
	return 0, false
}

// advanceOver: lower bound of (v - prm) inside the callee.
func advanceOver(fn *ssa.Function, v ssa.Value, prm *ssa.Parameter, at *ssa.BasicBlock, d int) (int64, bool) {
	if d > 12 {
		return 0, false
	}
	if v == ssa.Value(prm) {
		return 0, true
	}
	switch x := v.(type) {
	case *ssa.BinOp:
		if x.Op == token.ADD {
			if a, ok := advanceOver(fn, x.X, prm, at, d+1); ok {
				if b, ok := lowerBound(fn, x.Y, at, d+1); ok {
					return a + b, true
				}
			}
			if b, ok := advanceOver(fn, x.Y, prm, at, d+1); ok {
				if a, ok := lowerBound(fn, x.X, at, d+1); ok {
					return a + b, true
				}
			}
		}
	case *ssa.Call:
		if cal := x.Call.StaticCallee(); cal != nil && cal.Blocks != nil {
			for pi, p2 := range cal.Params {
				if pi >= len(x.Call.Args) {
					continue
				}
				base, ok := advanceOver(fn, x.Call.Args[pi], prm, at, d+1)
				if !ok {
					continue
				}
				var lo int64
				first, good := true, true
				ana.Instrs(cal, func(in ssa.Instruction) {
					ret, isR := in.(*ssa.Return)
					if !isR || len(ret.Results) == 0 {
						return
					}
					l, ok := advanceOver(cal, ret.Results[0], p2, ret.Block(), d+1)
					if !ok {
						good = false
						return
					}
					if first || l < lo {
						lo, first = l, false
					}
				})
				if good && !first {
					return base + lo, true
				}
			}
		}
	}
	return 0, false
}

// lowerBound: a constant lower bound of an integer value at block `at`.
func lowerBound(fn *ssa.Function, v ssa.Value, at *ssa.BasicBlock, d int) (int64, bool) {
	if d > 12 {
		return 0, false
	}
	if k, ok := ana.ConstInt(v); ok {
		return k, true
	}
	// guards dominating `at`
	best, have := int64(0), false
	for _, b := range fn.Blocks {
		iff, ok := lastIf(b)
		if !ok {
			continue
		}
		c, pos, isCmp := ana.AsCmp(iff.Cond)
		if !isCmp {
			continue
		}
		for si, s := range b.Succs {
			if !(len(s.Preds) == 1 && (s == at || s.Dominates(at))) {
				continue
			}
			holds := pos == (si == 0)
			x, y, op := c.X, c.Y, c.Op
			if !holds {
				op = ana.NegOp(op)
			}
			if sameIntValue(y, v) {
				x, y, op = y, x, ana.SwapOp(op)
			}
			if !sameIntValue(x, v) {
				continue
			}
			k, isK := ana.ConstInt(y)
			if !isK {
				continue
			}
			switch op {
			case token.GEQ:
				if !have || k > best {
					best, have = k, true
				}
			case token.GTR:
				if !have || k+1 > best {
					best, have = k+1, true
				}
			case token.EQL:
				if !have || k > best {
					best, have = k, true
				}
			}
		}
	}
	if have {
		return best, true
	}
	switch x := v.(type) {
	case *ssa.Convert:
		// zero-extension of an unsigned value
		if b := x.X.Type().Underlying().String(); strings.HasPrefix(b, "uint") {
			if l, ok := lowerBound(fn, x.X, at, d+1); ok && l > 0 {
				return l, true
			}
			return 0, true
		}
		return lowerBound(fn, x.X, at, d+1)
	case *ssa.BinOp:
		switch x.Op {
		case token.ADD:
			a, ok1 := lowerBound(fn, x.X, at, d+1)
			b, ok2 := lowerBound(fn, x.Y, at, d+1)
			if ok1 && ok2 {
				return a + b, true
			}
		case token.SUB:
			a, ok1 := lowerBound(fn, x.X, at, d+1)
			if k, isK := ana.ConstInt(x.Y); ok1 && isK {
				return a - k, true
			}
		case token.AND:
			if strings.HasPrefix(x.Type().Underlying().String(), "uint") {
				return 0, true
			}
		}
	case *ssa.Call:
		if b, ok := x.Call.Value.(*ssa.Builtin); ok && (b.Name() == "copy" || b.Name() == "len" || b.Name() == "cap") {
			return 0, true
		}
		if ana.CalleeName(&x.Call) == "golang.org/x/sys/unix.CmsgSpace" {
			return 0, true
		}
	}
	if strings.HasPrefix(v.Type().Underlying().String(), "uint") {
		return 0, true
	}
	return 0, false
}

// sameIntValue: identical value, or both loads of the same field path with no call in between (conservative: same access path).
func sameIntValue(a, b ssa.Value) bool {
	a, b = ana.StripConv(a), ana.StripConv(b)
	if a == b {
		return true
	}
	pa, pb := ana.AccessPath(a), ana.AccessPath(b)
	return pa != "" && pa == pb
}

// lengthEstablishedByEarlierCall is the accepted idiom for sinks guarded by
// `len(*p) != K` on a pointer parameter p: at every call site of f the same
// address was handed, on every path, to a repo function that leaves len(*p) == K
// on all its returns, with no other write to that variable in between.
func lengthEstablishedByEarlierCall(p *ana.Prog, ts *ana.TaintState, f *ssa.Function, cond ssa.Value) (bool, string) {
	v, _ := ana.StripNot(cond)
	bo, ok := v.(*ssa.BinOp)
	if !ok || (bo.Op != token.NEQ && bo.Op != token.EQL) {
		return false, ""
	}
	bx, by := bo.X, bo.Y
	if _, isC := ana.ConstInt(bx); isC {
		bx, by = by, bx // the constant may stand on either side of == / !=
	}
	k, isK := ana.ConstInt(by)
	if !isK || !isLenOf(bx) {
		return false, ""
	}
	lc, _ := ana.CallOf(bx)
	ld, ok := lc.Common().Args[0].(*ssa.UnOp)
	if !ok || ld.Op != token.MUL {
		return false, ""
	}
	prm, ok := ld.X.(*ssa.Parameter)
	if !ok {
		return false, ""
	}
	pi := -1
	for i, q := range f.Params {
		if q == prm {
			pi = i
		}
	}
	if pi < 0 {
		return false, ""
	}
	// establishing functions: repo functions with a *[]byte parameter whose every store to *param has constant length k
	establishes := func(g *ssa.Function, gi int) bool {
		if g == nil || g.Blocks == nil || gi >= len(g.Params) {
			return false
		}
		gp := g.Params[gi]
		n := 0
		good := true
		ana.Instrs(g, func(in ssa.Instruction) {
			st, ok := in.(*ssa.Store)
			if !ok || st.Addr != ssa.Value(gp) {
				return
			}
			n++
			switch x := st.Val.(type) {
			case *ssa.Slice:
				h, okh := ana.ConstInt(x.High)
				if !okh || h != k || x.Low != nil {
					good = false
				}
			case *ssa.MakeSlice:
				l, okl := ana.ConstInt(x.Len)
				if !okl || l != k {
					good = false
				}
			default:
				good = false
			}
		})
		// and every path through g performs such a store
		if n == 0 || !good {
			return false
		}
		s := &ana.Search{Fn: g, NoFacts: true, Stop: func(in ssa.Instruction) bool {
			st, ok := in.(*ssa.Store)
			return ok && st.Addr == ssa.Value(gp)
		}, Target: func(in ssa.Instruction) bool { _, ok := in.(*ssa.Return); return ok }}
		found, _ := s.Run(nil)
		return !found
	}
	sites := 0
	var est string
	for _, caller := range ts.Reachable() {
		for _, c := range ana.CallsIn(caller, ana.CalleeName(&ssa.CallCommon{Value: f})) {
			sites++
			arg := c.Common().Args[pi]
			// find dominating establishing call with the same address
			okSite := false
			ana.Instrs(caller, func(in ssa.Instruction) {
				gc, ok := in.(*ssa.Call)
				if !ok || gc == c {
					return
				}
				g := gc.Call.StaticCallee()
				for gi, a := range gc.Call.Args {
					if !(a == arg || (ana.AccessPath(a) != "" && ana.AccessPath(a) == ana.AccessPath(arg))) || !establishes(g, gi) {
						continue
					}
					if !(gc.Block().Dominates(c.Block())) {
						continue
					}
					// no other write to the variable between g and f
					al, _ := arg.(*ssa.Alloc)
					ap := ana.AccessPath(arg)
					isWriter := func(x ssa.Instruction) bool {
						if x == ssa.Instruction(gc) || x == c.(ssa.Instruction) {
							return false
						}
						if st, ok := x.(*ssa.Store); ok && (st.Addr == arg || (al != nil && st.Addr == ssa.Value(al)) || (ap != "" && ana.AccessPath(st.Addr) == ap)) {
							return true
						}
						if cc, ok := x.(ssa.CallInstruction); ok {
							for _, a2 := range cc.Common().Args {
								_, isPtr := a2.Type().Underlying().(*types.Pointer)
								if a2 == arg || (isPtr && ap != "" && ana.AccessPath(a2) == ap) {
									return true
								}
							}
						}
						return false
					}
					// a writer is harmful only if the call site can be reached from it without passing the establishing call again
					found := false
					var w []string
					ana.Instrs(caller, func(x ssa.Instruction) {
						if found || !isWriter(x) {
							return
						}
						s := &ana.Search{Fn: caller, NoFacts: true, Stop: func(y ssa.Instruction) bool { return y == ssa.Instruction(gc) }, Target: func(y ssa.Instruction) bool { return y == c.(ssa.Instruction) }}
						if f2, w2 := s.Run(x); f2 {
							found, w = true, w2
						}
					})
					if os.Getenv("C08_DEBUG") != "" {
						fmt.Println("DEBUG-idiom between-search", ana.FuncName(caller), found, w)
					}
					if !found {
						okSite = true
						est = ana.Short(ana.CalleeName(&gc.Call))
					}
				}
			})
			if !okSite {
				if os.Getenv("C08_DEBUG") != "" {
					fmt.Println("DEBUG idiom: site not established", ana.FuncName(caller), p.Pos(c.Pos()))
				}
				return false, ""
			}
		}
	}
	if sites == 0 {
		return false, ""
	}
	return true, fmt.Sprintf("all %d call sites pass the address that %s has just left with length %d", sites, est, k)
}

// ---- C08.accept ---------------------------------------------------------------------

// isLibAccept: a call of an Accept method of a listener declared outside the repo.
func isLibAccept(c *ssa.CallCommon) bool {
	name := ana.CalleeName(c)
	if !strings.HasSuffix(name, ").Accept") {
		return false
	}
	return !strings.Contains(name, ana.ModPath)
}

// acceptWrappers: repo functions that return (a value derived from) a library Accept result.
func acceptWrappers(p *ana.Prog) map[*ssa.Function]bool {
	out := map[*ssa.Function]bool{}
	for _, f := range p.AllFuncs {
		derived := map[ssa.Value]bool{}
		ana.Instrs(f, func(in ssa.Instruction) {
			if c, ok := in.(*ssa.Call); ok && isLibAccept(&c.Call) {
				derived[c] = true
			}
		})
		if len(derived) == 0 {
			continue
		}
		for changed := true; changed; {
			changed = false
			ana.Instrs(f, func(in ssa.Instruction) {
				v, ok := in.(ssa.Value)
				if !ok || derived[v] {
					return
				}
				switch x := in.(type) {
				case *ssa.Extract:
					if derived[x.Tuple] && x.Index == 0 {
						derived[v], changed = true, true
					}
				case *ssa.TypeAssert:
					if derived[x.X] {
						derived[v], changed = true, true
					}
				case *ssa.ChangeInterface:
					if derived[x.X] {
						derived[v], changed = true, true
					}
				case *ssa.MakeInterface:
					if derived[x.X] {
						derived[v], changed = true, true
					}
				case *ssa.Phi:
					for _, e := range x.Edges {
						if derived[e] {
							derived[v], changed = true, true
						}
					}
				}
			})
		}
		ana.Instrs(f, func(in ssa.Instruction) {
			if ret, ok := in.(*ssa.Return); ok {
				for _, rv := range ret.Results {
					if derived[rv] {
						out[f] = true
					}
				}
			}
		})
	}
	return out
}

// c08Accept: in an accept loop the accepted connection is only handed to a
// goroutine (or closed, compared, logged): the accepting goroutine performs no
// peer-paced operation on it, so one silent peer cannot stop later peers from
// being accepted.
func c08Accept(p *ana.Prog, r *ana.Result) {
	wrappers := acceptWrappers(p)
	n := 0
	for _, f := range p.AllFuncs {
		fname := ana.FuncName(f)
		ana.Instrs(f, func(in ssa.Instruction) {
			c, ok := in.(*ssa.Call)
			if !ok {
				return
			}
			callee := c.Call.StaticCallee()
			if !(isLibAccept(&c.Call) || (callee != nil && wrappers[callee])) {
				return
			}
			if !inLoop(f, c) {
				return // a wrapper's own body, or a single accept
			}
			n++
			// follow the accepted connection
			conn := map[ssa.Value]bool{}
			holders := map[*ssa.Alloc]bool{}
			var work []ssa.Value
			add := func(v ssa.Value) {
				if !conn[v] {
					conn[v] = true
					work = append(work, v)
				}
			}
			for _, ref := range ana.Referrers(c) {
				if e, ok := ref.(*ssa.Extract); ok && e.Index == 0 {
					add(e)
				}
			}
			if c.Call.Signature().Results().Len() == 1 {
				add(c)
			}
			var bad []string
			badPos := ""
			note := func(in ssa.Instruction, what string) {
				bad = append(bad, what)
				if badPos == "" {
					badPos = posOf(p, in)
				}
			}
			for len(work) > 0 {
				v := work[len(work)-1]
				work = work[:len(work)-1]
				for _, ref := range ana.Referrers(v) {
					switch x := ref.(type) {
					case *ssa.Go:
						// handed to a goroutine
					case *ssa.Store:
						if x.Val == v {
							if a, ok := x.Addr.(*ssa.Alloc); ok {
								if !holders[a] {
									holders[a] = true
									for _, r2 := range ana.Referrers(a) {
										switch y := r2.(type) {
										case *ssa.Store:
										case *ssa.UnOp:
											add(y)
										case *ssa.MakeClosure:
											for _, r3 := range ana.Referrers(y) {
												if _, isGo := r3.(*ssa.Go); !isGo {
													note(r3, "closure capturing the connection is not started with go")
												}
											}
										case *ssa.DebugRef:
										default:
											note(r2, "connection variable used by "+r2.String())
										}
									}
								}
							} else {
								note(x, "connection stored outside the loop's locals")
							}
						}
					case *ssa.BinOp, *ssa.DebugRef:
					case *ssa.TypeAssert, *ssa.ChangeInterface, *ssa.MakeInterface, *ssa.Phi, *ssa.Extract:
						add(x.(ssa.Value))
					case *ssa.MakeClosure:
						for _, r3 := range ana.Referrers(x) {
							if _, isGo := r3.(*ssa.Go); !isGo {
								note(r3, "closure capturing the connection is not started with go")
							}
						}
					case *ssa.Call:
						name := ana.CalleeName(&x.Call)
						switch {
						case strings.HasSuffix(name, ").Close") || strings.HasSuffix(name, ").CloseWithError"):
						case strings.HasSuffix(name, ").RemoteAddr") || strings.HasSuffix(name, ").LocalAddr"):
						case strings.HasPrefix(name, "log/slog."):
						case name == "crypto/tls.Server":
							add(x)
						default:
							note(x, "calls "+ana.Short(name)+" on the accepted connection before handing it to a goroutine")
						}
					case *ssa.Defer:
						note(x, "defers on the accepted connection inside the accept loop")
					default:
						note(ref, "uses the accepted connection in "+ref.String())
					}
				}
			}
			// the loop itself must not wait for its handlers: a blocking channel operation (a semaphore
			// slot, a hand-over queue) in the iteration makes accepting depend on peers that hold a
			// handler - handlers read from their peer without a deadline
			ana.Instrs(f, func(j ssa.Instruction) {
				blocking := ""
				switch y := j.(type) {
				case *ssa.Send:
					blocking = "sends on a channel"
				case *ssa.UnOp:
					if y.Op == token.ARROW {
						if cl, _ := ana.CallOf(y.X); cl != nil && strings.HasSuffix(ana.CalleeName(cl.Common()), ").Done") {
							return // cancellation
						}
						blocking = "receives from a channel"
					}
				case *ssa.Select:
					if y.Blocking {
						blocking = "selects without default"
					}
				}
				if blocking == "" {
					return
				}
				// in the same iteration as the accept: reachable from it and reaching it again
				if ana.Reachable(f, c, func(x ssa.Instruction) bool { return x == j }, nil, nil) && ana.Reachable(f, j, func(x ssa.Instruction) bool { return x == ssa.Instruction(c) }, nil, nil) {
					note(j, blocking+" inside the accept loop (waits for handlers that may never finish)")
				}
			})
			key := "accept-loop-only-dispatches:" + ana.Short(ana.CalleeName(&c.Call))
			if len(bad) == 0 {
				r.Ok("C08.accept", fname, key, posOf(p, c), "the accepted connection is only handed to a goroutine (or closed/logged); the accept loop does no peer-paced work")
			} else {
				sort.Strings(bad)
				r.Violate("C08.accept", fname, key, badPos, "the goroutine that accepts connections "+bad[0]+": a peer that connects and stays silent stops every later peer from being accepted (the listener makes no progress)")
			}
		})
	}
	r.Floor("C08.accept.loops", n, 2)
}
