package rules

import (
	"fmt"
	"go/token"
	"go/types"

	"golang.org/x/tools/go/ssa"

	"verif/internal/ana"
)

// c19Weight: the measurement weight given to (*Pll).Do takes part in the update only through
// ordered comparisons (a finite set of outcomes; every comparison with NaN is false and falls into
// an arm whose gains do not depend on the weight), or its arithmetic use is preceded by a NaN test.
// A weight that flows arithmetically into the gains carries NaN into p and, through l.i += p*b,
// into the integrator for good: both clamp comparisons are false for NaN and Adjust is called with
// a non-finite frequency.
func c19Weight(p *ana.Prog, r *ana.Result, fn *ssa.Function) {
	fname := ana.FuncName(fn)
	var w *ssa.Parameter
	for _, pr := range fn.Params {
		if b, ok := pr.Type().Underlying().(*types.Basic); ok && b.Kind() == types.Float64 {
			w = pr
		}
	}
	if w == nil {
		r.Violate("C19.weight", fname, "weight-only-compared", p.Pos(fn.Pos()), "UNDECIDED: no float64 parameter (the measurement weight) found")
		r.Floor("C19.weight", 0, 1)
		return
	}
	nCmp, nanTest := 0, false
	var flow ssa.Instruction
	seen := map[ssa.Value]bool{}
	var walk func(v ssa.Value, d int)
	walk = func(v ssa.Value, d int) {
		if seen[v] || d > 6 {
			return
		}
		seen[v] = true
		refs := v.Referrers()
		if refs == nil {
			return
		}
		for _, in := range *refs {
			switch x := in.(type) {
			case *ssa.DebugRef, *ssa.MakeInterface:
			case *ssa.BinOp:
				switch x.Op {
				case token.LSS, token.LEQ, token.GTR, token.GEQ:
					nCmp++
				case token.EQL, token.NEQ:
					nCmp++
					if ana.StripConv(x.X) == ana.StripConv(x.Y) {
						nanTest = true // weight != weight
					}
				default:
					if flow == nil {
						flow = x
					}
				}
			case *ssa.Phi:
				walk(x, d+1)
			case *ssa.Convert:
				walk(x, d+1)
			case *ssa.ChangeType:
				walk(x, d+1)
			case ssa.CallInstruction:
				cc := x.Common()
				name := ana.CalleeName(cc)
				if name == "math.IsNaN" {
					nanTest = true
					continue
				}
				callee := cc.StaticCallee()
				if callee != nil && callee.Pkg != nil {
					switch callee.Pkg.Pkg.Path() {
					case "log/slog", "log", "fmt", "go.uber.org/zap":
						continue // logged, not computed with
					}
				}
				followed := false
				if callee != nil && len(callee.Blocks) > 0 && callee.Pkg == fn.Pkg {
					off := 0
					if cc.Signature().Recv() != nil && !cc.IsInvoke() {
						off = 0 // receiver is Args[0] for static method calls: Params align with Args
					}
					for i, a := range cc.Args {
						if a == v && i+off < len(callee.Params) {
							walk(callee.Params[i+off], d+1)
							followed = true
						}
					}
				}
				if !followed && flow == nil {
					flow = in
				}
			default:
				if flow == nil {
					flow = in
				}
			}
		}
	}
	walk(w, 0)
	switch {
	case flow != nil && !nanTest:
		r.Violate("C19.weight", fname, "weight-only-compared", posOf(p, flow), fmt.Sprintf("the weight is used as a value here (%s) and no NaN test (math.IsNaN / w != w) exists: a NaN weight is carried into the gains, the integrator and the frequency handed to Adjust", flow.String()))
	case flow != nil:
		r.Ok("C19.weight", fname, "weight-only-compared", posOf(p, flow), "the weight is used as a value, with a NaN test in the function")
	default:
		r.Ok("C19.weight", fname, "weight-only-compared", p.Pos(w.Pos()), fmt.Sprintf("the weight is used in %d ordered comparisons only: a NaN weight selects an arm, it never enters the arithmetic", nCmp))
	}
	r.Floor("C19.weight", nCmp, 1)
}
