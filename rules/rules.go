// Package rules holds one file per property: rule slots, floors, obligations.
package rules

import (
	"fmt"
	"os"
	"strings"

	"golang.org/x/tools/go/ssa"

	"verif/internal/ana"
)

// All maps property ids to their checks.
var All = map[string]func(p *ana.Prog, r *ana.Result){}

// Dump writes the SSA of "rel/pkg.func" for debugging.
func Dump(p *ana.Prog, spec string) {
	i := strings.LastIndex(spec, ":")
	if i < 0 {
		fmt.Println("usage: -dump core/server:handleRequest")
		return
	}
	fn := p.Func(spec[:i], spec[i+1:])
	if fn == nil {
		fmt.Println("not found")
		return
	}
	fn.WriteTo(os.Stdout)
	for _, a := range fn.AnonFuncs {
		a.WriteTo(os.Stdout)
	}
}

// mustFunc resolves an anchor function or records a broken check.
func mustFunc(p *ana.Prog, r *ana.Result, rel, name string) *ssa.Function {
	fn := p.Func(rel, name)
	if fn == nil || fn.Blocks == nil {
		r.Broken("anchor function %s.%s does not resolve", rel, name)
		return nil
	}
	r.Saw(ana.FuncName(fn))
	return fn
}
