package rules

import (
	"fmt"
	"go/token"
	"go/types"

	"golang.org/x/tools/go/ssa"

	"verif/internal/ana"
)

// c03Wrapper decides the structural part of "the reported offset ... of the exchange it was
// computed from" at the exported entry points: the (timestamp, offset) reported together with a
// nil error are results #0 and #1 of ONE call of the exchange function, and either the error
// reported with them is that same call's error result or the assignment sits behind
// `that call's error == nil`. The triple (ts, off, err) is followed backwards jointly through
// merges, through helper functions that return such a triple and through function-typed
// parameters (resolved at every call site of the helper).
type c03w struct {
	p     *ana.Prog
	exch  map[*ssa.Function]bool
	memo  map[*ssa.Function]string // "" = satisfied, otherwise the reason
	stack map[*ssa.Function]bool
	sites int
}

type c03edge struct{ from, to *ssa.BasicBlock }

func isTripleSig(sig *types.Signature) bool {
	if sig == nil || sig.Results().Len() != 3 {
		return false
	}
	r := sig.Results()
	return typeNameOf(r.At(0).Type()) == "Time" && typeNameOf(r.At(1).Type()) == "Duration" && r.At(2).Type().String() == "error"
}

// errGated: the edge e (or, when e.to == nil, the end of block e.from) lies behind the outcome
// "c's error result is nil".
func (w *c03w) errGated(c *ssa.Call, e c03edge) bool {
	fn := c.Parent()
	for _, g := range fn.Blocks {
		iff := c03LastIf(g)
		if iff == nil {
			continue
		}
		for si := 0; si < 2; si++ {
			isNil := false
			for _, a := range ana.Implied(iff.Cond, si == 0) {
				cmp, pos, ok := ana.AsCmp(a.V)
				if !ok || !(cmp.Op == token.EQL || cmp.Op == token.NEQ) {
					continue
				}
				x, y := cmp.X, cmp.Y
				if ana.IsNilConst(x) {
					x, y = y, x
				}
				if ana.IsNilConst(y) && isErrOf(x, c) && (cmp.Op == token.EQL) == (a.Holds == pos) {
					isNil = true
				}
			}
			if !isNil {
				continue
			}
			s := g.Succs[si]
			if g == e.from && e.to == s {
				return true
			}
			if len(s.Preds) == 1 && s.Dominates(e.from) {
				return true
			}
		}
	}
	return false
}

func isErrOf(v ssa.Value, c *ssa.Call) bool {
	x, ok := ana.Strip(v).(*ssa.Extract)
	return ok && x.Tuple == ssa.Value(c) && x.Index == 2
}

func c03LastIf(b *ssa.BasicBlock) *ssa.If {
	if len(b.Instrs) == 0 {
		return nil
	}
	iff, _ := b.Instrs[len(b.Instrs)-1].(*ssa.If)
	return iff
}

// source classifies a call whose results are a (Time, Duration, error) triple: an exchange,
// or a helper / function value that itself satisfies the rule.
func (w *c03w) source(c *ssa.Call) string {
	if !isTripleSig(c.Call.Signature()) {
		return "call does not return (time.Time, time.Duration, error)"
	}
	if f := c.Call.StaticCallee(); f != nil {
		if w.exch[f] {
			w.sites++
			return ""
		}
		return w.fn(f)
	}
	switch v := c.Call.Value.(type) {
	case *ssa.MakeClosure:
		return w.fn(v.Fn.(*ssa.Function))
	case *ssa.Parameter:
		return w.param(v)
	}
	if u := ana.UniqueReaching(c.Parent(), c.Call.Value); u != nil && u != c.Call.Value {
		switch v := u.(type) {
		case *ssa.MakeClosure:
			return w.fn(v.Fn.(*ssa.Function))
		case *ssa.Function:
			return w.fn(v)
		case *ssa.Parameter:
			return w.param(v)
		}
	}
	return "the called function value does not resolve: " + ana.ValueString(c.Call.Value)
}

// param: every call site of the enclosing function passes a function that satisfies the rule.
func (w *c03w) param(par *ssa.Parameter) string {
	fn := par.Parent()
	idx := -1
	for i, q := range fn.Params {
		if q == par {
			idx = i
		}
	}
	if idx < 0 {
		return "parameter not found"
	}
	n := 0
	for _, g := range w.p.AllFuncs {
		for _, b := range g.Blocks {
			for _, in := range b.Instrs {
				ci, ok := in.(ssa.CallInstruction)
				if !ok {
					continue
				}
				cc := ci.Common()
				if cc.StaticCallee() != fn {
					// the function used as a value anywhere else makes the set of callers open
					for _, op := range in.Operands(nil) {
						if op != nil && *op == ssa.Value(fn) && !(cc.Value == ssa.Value(fn)) {
							return "the helper " + ana.Short(ana.FuncName(fn)) + " is used as a value, its callers are not enumerable"
						}
					}
					continue
				}
				n++
				if idx >= len(cc.Args) {
					return "argument missing"
				}
				arg := cc.Args[idx]
				var why string
				switch a := arg.(type) {
				case *ssa.MakeClosure:
					why = w.fn(a.Fn.(*ssa.Function))
				case *ssa.Function:
					if w.exch[a] {
						w.sites++
					} else {
						why = w.fn(a)
					}
				default:
					why = "argument is not a function literal or named function: " + ana.ValueString(arg)
				}
				if why != "" {
					return fmt.Sprintf("at the call of %s in %s: %s", ana.Short(ana.FuncName(fn)), ana.Short(ana.FuncName(g)), why)
				}
			}
		}
	}
	if n == 0 {
		return "no call site of " + ana.Short(ana.FuncName(fn)) + " found"
	}
	return ""
}

// fn: every return of f satisfies the rule.
func (w *c03w) fn(f *ssa.Function) string {
	if why, ok := w.memo[f]; ok {
		return why
	}
	if w.stack[f] {
		return ""
	}
	if f.Blocks == nil || !isTripleSig(f.Signature) {
		return ana.Short(ana.FuncName(f)) + " is not a (time.Time, time.Duration, error) function with a body"
	}
	w.stack[f] = true
	defer delete(w.stack, f)
	why := ""
	dead := ana.DeadBlocks(f)
	for _, b := range f.Blocks {
		if dead[b] {
			continue
		}
		ret, ok := b.Instrs[len(b.Instrs)-1].(*ssa.Return)
		if !ok {
			continue
		}
		res := ret.Results
		if len(res) != 3 {
			continue
		}
		if y := w.triple(f, res[0], res[1], res[2], c03edge{b, nil}, c03edge{b, nil}, map[string]bool{}, 0); y != "" {
			why = fmt.Sprintf("%s (return at %s)", y, w.p.Pos(ret.Pos()))
			break
		}
	}
	w.memo[f] = why
	return why
}

func defBlock(v ssa.Value) *ssa.BasicBlock {
	if in, ok := v.(ssa.Instruction); ok {
		return in.Block()
	}
	return nil
}

// triple follows (a, b, e) backwards; ea/eb are the edges at which a and b took their current values.
func (w *c03w) triple(f *ssa.Function, a, b, e ssa.Value, ea, eb c03edge, seen map[string]bool, depth int) string {
	a, b, e = ana.Strip(a), ana.Strip(b), ana.Strip(e)
	if u := ana.UniqueReaching(f, a); u != nil {
		a = ana.Strip(u)
	}
	if u := ana.UniqueReaching(f, b); u != nil {
		b = ana.Strip(u)
	}
	if u := ana.UniqueReaching(f, e); u != nil {
		e = ana.Strip(u)
	}
	key := fmt.Sprintf("%p/%p/%p/%p/%p", a, b, e, ea.from, ea.to)
	if seen[key] {
		return ""
	}
	seen[key] = true
	if depth > 400 {
		return "merge structure too deep"
	}
	// the deepest merge among the three is expanded first, jointly with the merges of its block
	var pick *ssa.Phi
	for _, v := range []ssa.Value{a, b, e} {
		if ph, ok := v.(*ssa.Phi); ok {
			if pick == nil || (pick.Block() != ph.Block() && pick.Block().Dominates(ph.Block())) {
				pick = ph
			}
		}
	}
	if pick != nil {
		blk := pick.Block()
		for i, pred := range blk.Preds {
			na, nb, ne := a, b, e
			nea, neb := ea, eb
			if ph, ok := a.(*ssa.Phi); ok && ph.Block() == blk {
				na, nea = ph.Edges[i], c03edge{pred, blk}
			}
			if ph, ok := b.(*ssa.Phi); ok && ph.Block() == blk {
				nb, neb = ph.Edges[i], c03edge{pred, blk}
			}
			if ph, ok := e.(*ssa.Phi); ok && ph.Block() == blk {
				ne = ph.Edges[i]
			}
			if why := w.triple(f, na, nb, ne, nea, neb, seen, depth+1); why != "" {
				return why
			}
		}
		return ""
	}
	// no merges left
	if isZeroValue(a) && isZeroValue(b) {
		return ""
	}
	xa, oka := a.(*ssa.Extract)
	xb, okb := b.(*ssa.Extract)
	if !oka || !okb {
		if isZeroValue(a) != isZeroValue(b) {
			return "timestamp and offset do not come from the same exchange: " + ana.ValueString(a) + " / " + ana.ValueString(b)
		}
		return "reported timestamp/offset is not the result of an exchange: " + ana.ValueString(a) + " / " + ana.ValueString(b)
	}
	ca, ok1 := xa.Tuple.(*ssa.Call)
	cb, ok2 := xb.Tuple.(*ssa.Call)
	if !ok1 || !ok2 || ca != cb || xa.Index != 0 || xb.Index != 1 {
		return "timestamp and offset are not results #0 and #1 of one call: " + ana.ValueString(a) + " / " + ana.ValueString(b)
	}
	if why := w.source(ca); why != "" {
		return why
	}
	if isErrOf(e, ca) {
		return ""
	}
	if w.errGated(ca, ea) && w.errGated(ca, eb) {
		return ""
	}
	return fmt.Sprintf("the results of the call at %s are reported without its error and not behind `its error == nil` (reported error: %s)", w.p.Pos(ca.Pos()), ana.ValueString(e))
}

func isZeroValue(v ssa.Value) bool {
	c, ok := v.(*ssa.Const)
	if !ok {
		return false
	}
	if c.Value == nil {
		return true
	}
	if k, ok := ana.ConstInt(v); ok && k == 0 {
		return true
	}
	return false
}

func c03Wrapper(p *ana.Prog, r *ana.Result) {
	w := &c03w{p: p, exch: map[*ssa.Function]bool{}, memo: map[*ssa.Function]string{}, stack: map[*ssa.Function]bool{}}
	for _, n := range []string{"(*IPClient).measureClockOffsetIP", "(*SCIONClient).measureClockOffsetSCION"} {
		if f := p.Func("core/client", n); f != nil {
			w.exch[f] = true
		}
	}
	// IP: the exported function returns the triple
	if fn := mustFunc(p, r, "core/client", "MeasureClockOffsetIP"); fn != nil {
		name := ana.FuncName(fn)
		w.sites = 0
		if why := w.fn(fn); why != "" {
			r.Violate("C03.wrapper", name, "reports-one-successful-exchange", p.Pos(fn.Pos()), why)
		} else if w.sites == 0 {
			r.Violate("C03.wrapper", name, "reports-one-successful-exchange", p.Pos(fn.Pos()), "UNDECIDED: no call of the exchange function found behind the reported values")
		} else {
			r.Ok("C03.wrapper", name, "reports-one-successful-exchange", p.Pos(fn.Pos()), "every (timestamp, offset) returned is the pair of results of one measureClockOffsetIP call, reported with that call's error or stored behind `its error == nil`")
		}
	}
	// SCION: the per-path goroutine sends Measurement{ts, off, err}
	fn := mustFunc(p, r, "core/client", "MeasureClockOffsetSCION")
	if fn == nil {
		return
	}
	name := ana.FuncName(fn)
	found := 0
	visited := map[*ssa.Function]bool{}
	var visit func(g *ssa.Function)
	visit = func(g *ssa.Function) {
		for _, b := range g.Blocks {
			for _, in := range b.Instrs {
				snd, ok := in.(*ssa.Send)
				if !ok || typeNameOf(snd.X.Type()) != "Measurement" {
					continue
				}
				found++
				vals, ok := measurementFields(g, snd)
				if !ok {
					r.Violate("C03.wrapper", name, "sends-one-successful-exchange", posOf(p, snd), "UNDECIDED: the fields of the Measurement sent are not three local stores")
					continue
				}
				w.sites = 0
				w.memo = map[*ssa.Function]string{}
				why := w.triple(g, vals[0], vals[1], vals[2], c03edge{b, nil}, c03edge{b, nil}, map[string]bool{}, 0)
				if why == "" && w.sites == 0 {
					why = "UNDECIDED: no call of the exchange function found behind the Measurement sent"
				}
				if why != "" {
					r.Violate("C03.wrapper", name, "sends-one-successful-exchange", posOf(p, snd), why)
				} else {
					r.Ok("C03.wrapper", name, "sends-one-successful-exchange", posOf(p, snd), "Timestamp and Offset of the Measurement sent are the pair of results of one measureClockOffsetSCION call, sent with that call's error or stored behind `its error == nil`")
				}
			}
		}
		for _, a := range g.AnonFuncs {
			visit(a)
		}
		// a named worker started with `go worker(...)`
		for _, b := range g.Blocks {
			for _, in := range b.Instrs {
				if gi, ok := in.(*ssa.Go); ok {
					if f := gi.Call.StaticCallee(); f != nil && f.Blocks != nil && f.Pkg == fn.Pkg && !visited[f] {
						visited[f] = true
						visit(f)
					}
				}
			}
		}
	}
	visit(fn)
	r.Floor("C03.wrapper.sends", found, 1)
}

// measurementFields returns the values stored to Timestamp, Offset, Error of the local
// Measurement that snd sends.
func measurementFields(g *ssa.Function, snd *ssa.Send) ([3]ssa.Value, bool) {
	var out [3]ssa.Value
	ld, ok := snd.X.(*ssa.UnOp)
	if !ok {
		return out, false
	}
	al, ok := ld.X.(*ssa.Alloc)
	if !ok {
		return out, false
	}
	names := map[string]int{"Timestamp": 0, "Offset": 1, "Error": 2}
	for _, ref := range *al.Referrers() {
		fa, ok := ref.(*ssa.FieldAddr)
		if !ok {
			if ref == ssa.Instruction(ld) {
				continue
			}
			if _, isDbg := ref.(*ssa.DebugRef); isDbg {
				continue
			}
			return out, false
		}
		i, ok := names[fieldNameOf(al.Type(), fa.Field)]
		if !ok {
			return out, false
		}
		for _, r2 := range *fa.Referrers() {
			st, ok := r2.(*ssa.Store)
			if !ok || st.Addr != ssa.Value(fa) || out[i] != nil || st.Block() != snd.Block() {
				return out, false
			}
			out[i] = st.Val
		}
	}
	for i := range out {
		if out[i] == nil {
			// a field left at its zero value
			if i == 2 {
				out[i] = ssa.NewConst(nil, types.Universe.Lookup("error").Type())
			} else {
				return out, false
			}
		}
	}
	return out, true
}
