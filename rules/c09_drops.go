package rules

import (
	"fmt"
	"os"
	"sort"
	"strings"

	"golang.org/x/tools/go/ssa"

	"verif/internal/ana"
)

// C09.drops: "exactly one reply for each well-formed client request" also needs that nothing but
// the known tests can drop a datagram between the read and the reply. A decision point is a branch
// inside the receive loop one side of which can still reach the reply write of this iteration while
// the other cannot. What such a branch tests is described by the origins of its condition (the
// functions whose results it looks at, lengths and fields of the datagram); every origin must be
// in the table below, which lists what the listeners test today - by callee, not by position, so
// that moving a test into a helper, merging two tests or reordering them changes nothing. A new
// filter (a pre-check on the first byte, a rate limiter, a second validator) shows up as an origin
// that is not in the table.
var c09DropOrigins = map[string]string{
	"call:(*net.UDPConn).ReadMsgUDPAddrPort":          "read error / truncation flags",
	"call:net/ntp.DecodePacket":                       "malformed NTP header",
	"call:net/ntp.ValidateRequest":                    "not a client request (decided exactly by C09.req)",
	"call:net/nts.DecodePacket":                       "malformed NTS extension fields",
	"call:(*net/nts.Packet).FirstCookie":              "no cookie",
	"call:(*net/ntske.EncryptedServerCookie).Decode":  "malformed cookie",
	"call:(*net/ntske.Provider).Get":                  "unknown key id",
	"call:(*net/ntske.EncryptedServerCookie).Decrypt": "cookie does not open",
	"call:net/nts.ProcessRequest":                     "request does not authenticate",
	"call:(*net/ntske.ServerCookie).EncryptWithNonce": "cookie cannot be sealed (server-side failure)",
	"call:net/nts.NewResponsePacket":                  "response cannot be built (server-side failure)",
	"call:net/nts.EncodePacket":                       "response does not fit (server-side failure)",
	"call:(*net.UDPConn).WriteToUDPAddrPort":          "write error",
	"call:(*net.UDPConn).WriteMsgUDPAddrPort":         "write error",
	"len:datagram":       "extension fields present or not",
	"flag:authenticated": "NTS request seen",
	"count:cookies":      "no cookie could be sealed",
}

func c09CondOrigins(fn *ssa.Function, cond ssa.Value, isPayload func(ssa.Value) bool) []string {
	set := map[string]bool{}
	seen := map[ssa.Value]bool{}
	var walk func(v ssa.Value, d int)
	walk = func(v ssa.Value, d int) {
		if v == nil || seen[v] || d > 12 {
			return
		}
		seen[v] = true
		switch x := v.(type) {
		case *ssa.Const:
		case *ssa.BinOp:
			walk(x.X, d+1)
			walk(x.Y, d+1)
		case *ssa.UnOp:
			if ld, ok := x.X.(*ssa.Alloc); ok {
				// a local: what is stored into it
				n := 0
				for _, ref := range ana.Referrers(ld) {
					if st, ok := ref.(*ssa.Store); ok && st.Addr == ssa.Value(ld) {
						walk(st.Val, d+1)
						n++
					}
				}
				if n == 0 {
					set["local:"+ld.Comment] = true
				}
				return
			}
			if p := ana.AccessPath(x); p != "" && x.Op.String() == "*" {
				set["fld:"+p] = true
				return
			}
			walk(x.X, d+1)
		case *ssa.Phi:
			for _, e := range x.Edges {
				walk(e, d+1)
			}
		case *ssa.Extract:
			walk(x.Tuple, d+1)
		case *ssa.Convert:
			walk(x.X, d+1)
		case *ssa.ChangeType:
			walk(x.X, d+1)
		case *ssa.Call:
			name := ana.CalleeName(x.Common())
			if name == "builtin.len" && len(x.Call.Args) == 1 {
				a := x.Call.Args[0]
				if isPayload(a) {
					set["len:datagram"] = true
					return
				}
				if strings.HasSuffix(ana.AccessPath(a), "cookies") {
					set["count:cookies"] = true
					return
				}
				set["len:"+ana.AccessPath(a)] = true
				return
			}
			set["call:"+ana.Short(name)] = true
		case *ssa.Parameter:
			set["param:"+x.Name()] = true
		default:
			set["val:"+v.Type().String()] = true
		}
	}
	walk(cond, 0)
	var out []string
	for k := range set {
		out = append(out, k)
	}
	sort.Strings(out)
	return out
}

func c09Drops(p *ana.Prog, r *ana.Result, fn *ssa.Function, rd ssa.CallInstruction, isReply func(ssa.Instruction) bool, isPayload func(ssa.Value) bool) {
	fname := ana.FuncName(fn)
	isRead := func(in ssa.Instruction) bool { return in == rd.(ssa.Instruction) }
	n, nBad := 0, 0
	for _, b := range fn.Blocks {
		iff := c09LastIfOrNil(b)
		if iff == nil {
			continue
		}
		// inside the iteration: reachable from the read without passing it again
		if !ana.Reachable(fn, rd.(ssa.Instruction), func(in ssa.Instruction) bool { return in == ssa.Instruction(iff) }, isRead, nil) {
			continue
		}
		var can [2]bool
		for si := range b.Succs {
			s := &ana.Search{Fn: fn, NoFacts: true, Target: isReply, Stop: isRead}
			can[si], _ = s.RunAtEdge(ana.Edge{From: b, Succ: si})
		}
		if can[0] == can[1] {
			continue
		}
		n++
		var unknown []string
		origins := c09CondOrigins(fn, iff.Cond, isPayload)
		for _, o := range origins {
			if _, ok := c09DropOrigins[o]; !ok {
				unknown = append(unknown, o)
			}
		}
		if os.Getenv("C09_DROPS") != "" {
			fmt.Println("DROP", fname, p.Pos(iff.Pos()), origins)
		}
		if len(unknown) > 0 {
			nBad++
			r.Violate("C09.drops", fname, "drop-decision:"+strings.Join(unknown, "+"), posOf(p, iff), "a datagram is dropped between the read and the reply on a test of "+strings.Join(unknown, ", ")+", which is not one of the listener's known reasons to drop a request: well-formed client requests this test rejects get no reply")
		}
	}
	if nBad == 0 {
		r.Ok("C09.drops", fname, "drop-decisions-known", p.Pos(fn.Pos()), fmt.Sprintf("%d decision points between the read and the reply test only the known reasons to drop a datagram", n))
	}
	r.Floor("C09.drops.decisions:"+fname, n, 4)
}
