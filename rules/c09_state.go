package rules

import (
	"fmt"
	"go/token"
	"go/types"
	"strings"

	"golang.org/x/tools/go/ssa"

	"verif/internal/ana"
)

// c09NTSState: nts.DecodePacket appends the cookie and placeholder fields it finds to the Packet
// it is given, so whether a datagram "is a valid NTS request" (and how many cookies the reply
// carries) depends on this datagram alone only if that Packet holds no cookies and no placeholders
// when decoding starts. For every nts.DecodePacket call of a listener loop the rule requires, per
// field, one of:
//   - the Packet variable is created inside the iteration (behind the datagram read) and not
//     written before the call, or
//   - every path from the datagram read to the call passes a store that empties the field (the
//     zero Packet, a nil or zero-length slice) or an edge on which the field's length is known to
//     be zero (a test of len(f) or of len(Cookies)+len(CookiePlaceholders)).
func c09NTSState(p *ana.Prog, r *ana.Result, rule string, fn *ssa.Function, rd *ssa.Call) {
	fname := ana.FuncName(fn)
	calls := ana.CallsIn(fn, ana.Q("net/nts.DecodePacket"))
	if len(calls) == 0 {
		r.Violate(rule, fname, "request-state-fresh", p.Pos(fn.Pos()), "UNDECIDED: no nts.DecodePacket call in the listener loop")
		return
	}
	_ = rd
	for ci, c := range calls {
		call, ok := c.(*ssa.Call)
		if !ok {
			continue
		}
		suffix := ""
		if ci > 0 {
			suffix = fmt.Sprintf(" #%d", ci+1)
		}
		x := call.Call.Args[0]
		xp := strings.TrimPrefix(ana.AccessPath(x), "&")
		root, _ := rootAlloc(x).(*ssa.Alloc)
		for _, fld := range []string{"Cookies", "CookiePlaceholders"} {
			construct := "request-state-fresh:" + fld + suffix
			fp := xp + "." + fld
			empties := func(in ssa.Instruction) bool {
				if root != nil && in == ssa.Instruction(root) {
					return true // the variable is created (zeroed) anew
				}
				st, ok := in.(*ssa.Store)
				if !ok {
					return false
				}
				ap := strings.TrimPrefix(ana.AccessPath(st.Addr), "&")
				switch {
				case ap == xp:
					return packetValueEmpty(st.Val, fld)
				case ap == fp:
					return emptySlice(st.Val)
				case strings.HasPrefix(xp, ap+"."):
					c, isC := st.Val.(*ssa.Const) // an enclosing struct reset to its zero value
					return isC && c.Value == nil
				}
				return false
			}
			// instructions after which the field may be non-empty
			var fills []ssa.Instruction
			ana.Instrs(fn, func(in ssa.Instruction) {
				switch y := in.(type) {
				case *ssa.Store:
					ap := strings.TrimPrefix(ana.AccessPath(y.Addr), "&")
					if (ap == xp || ap == fp || strings.HasPrefix(xp, ap+".")) && !empties(in) {
						fills = append(fills, in)
					}
				case ssa.CallInstruction:
					for _, a := range y.Common().Args {
						if _, isPtr := a.Type().Underlying().(*types.Pointer); !isPtr {
							continue
						}
						ap := strings.TrimPrefix(ana.AccessPath(a), "&")
						if ap == xp || ap == fp || strings.HasPrefix(xp, ap+".") {
							fills = append(fills, in)
						}
					}
				}
			})
			zeroEdge := func(e ana.Edge) bool { return edgeImpliesEmpty(e, xp, fld) }
			bad := false
			for _, w := range fills {
				s := &ana.Search{Fn: fn,
					Target:   func(in ssa.Instruction) bool { return in == ssa.Instruction(call) },
					Stop:     empties,
					StopEdge: zeroEdge,
				}
				if found, wit := s.Run(w); found {
					r.Violate(rule, fname, construct, posOf(p, call), "DecodePacket appends to "+fp+"; after "+posOf(p, w)+" the field may hold entries, and a path from there reaches this call without emptying it: fields of an earlier datagram count for this one", wit...)
					bad = true
					break
				}
			}
			if !bad {
				r.Ok(rule, fname, construct, posOf(p, call), fmt.Sprintf("from each of the %d places that may leave entries in %s, every path to this DecodePacket call re-creates the variable, stores an empty value, or tests that the field is empty", len(fills), fp))
			}
		}
	}
}

func emptySlice(v ssa.Value) bool {
	switch y := ana.Strip(v).(type) {
	case *ssa.Const:
		return y.Value == nil
	case *ssa.Slice:
		if y.High != nil {
			if k, ok := ana.ConstInt(y.High); ok && k == 0 {
				return true
			}
		}
	case *ssa.MakeSlice:
		if k, ok := ana.ConstInt(y.Len); ok && k == 0 {
			return true
		}
	}
	return false
}

// packetValueEmpty: the Packet value v has an empty field fld: the zero Packet, or a composite
// literal built in a local whose field is left out or set to an empty slice.
func packetValueEmpty(v ssa.Value, fld string) bool {
	if c, ok := v.(*ssa.Const); ok {
		return c.Value == nil
	}
	u, ok := v.(*ssa.UnOp)
	if !ok || u.Op != token.MUL {
		return false
	}
	a, ok := u.X.(*ssa.Alloc)
	if !ok {
		return false
	}
	for _, ref := range ana.Referrers(a) {
		switch y := ref.(type) {
		case *ssa.UnOp:
			if y != u {
				return false
			}
		case *ssa.FieldAddr:
			isF := fieldNameOf(a.Type(), y.Field) == fld
			for _, r2 := range ana.Referrers(y) {
				st, ok := r2.(*ssa.Store)
				if !ok || st.Addr != ssa.Value(y) {
					return false
				}
				if isF && !emptySlice(st.Val) {
					return false
				}
			}
		case *ssa.DebugRef:
		default:
			return false
		}
	}
	return true
}

// edgeImpliesEmpty: on edge e, len(xp.fld) is known to be zero.
func edgeImpliesEmpty(e ana.Edge, xp, fld string) bool {
	iff, ok := e.From.Instrs[len(e.From.Instrs)-1].(*ssa.If)
	if !ok {
		return false
	}
	lenOf := func(v ssa.Value) string {
		c, _ := ana.CallOf(ana.StripConv(v))
		if c == nil || ana.CalleeName(c.Common()) != "builtin.len" {
			return ""
		}
		return strings.TrimPrefix(ana.AccessPath(c.Common().Args[0]), "*")
	}
	covers := func(v ssa.Value) bool {
		v = ana.StripConv(v)
		if lenOf(v) == xp+"."+fld {
			return true
		}
		if bo, ok := v.(*ssa.BinOp); ok && bo.Op == token.ADD {
			a, b := lenOf(bo.X), lenOf(bo.Y)
			if a != "" && b != "" && (a == xp+"."+fld || b == xp+"."+fld) {
				return true // a sum of two lengths is zero only if both are
			}
		}
		return false
	}
	for _, a := range ana.Implied(iff.Cond, e.Succ == 0) {
		cmp, pos, ok := ana.AsCmp(a.V)
		if !ok {
			continue
		}
		truth := a.Holds == pos
		x, y, op := cmp.X, cmp.Y, cmp.Op
		if _, isK := ana.ConstInt(x); isK {
			x, y, op = y, x, ana.SwapOp(op)
		}
		k, isK := ana.ConstInt(y)
		if !isK || !covers(x) {
			continue
		}
		if !truth {
			op = ana.NegOp(op)
		}
		switch {
		case op == token.EQL && k == 0, op == token.LEQ && k == 0, op == token.LSS && k == 1:
			return true
		}
	}
	return false
}
