package rules

import (
	"fmt"
	"go/constant"
	"go/token"
	"go/types"
	"strings"

	"golang.org/x/tools/go/ssa"

	"verif/internal/ana"
)

// Selection by enumeration (C02). The functions under C02 choose elements of their argument by
// index expressions in n = len(argument) only: +, -, *, /, % with small constants, comparisons with
// small constants. Such an index is, beyond the largest constant it is compared with, an affine
// function of n on every residue class modulo the least common multiple L of its divisors; two such
// functions that agree on 2L consecutive arguments beyond that threshold agree everywhere. The
// functions here divide by 2 and 3 and compare with constants below 4, so agreement for
// n = 0..c02MaxN decides every n.
//
// For each n the function body is followed path by path by an abstract evaluator (no Go code is
// executed): integers are concrete, the argument's elements are symbols (index, read before or
// after the sort), durations/timestamps built from them are expression trees, a branch whose
// condition depends on element values is followed both ways. A path ends in a panic or a return;
// what is returned must be the overflow-safe midpoint of the elements at (k, n-1-k) of the sorted
// argument, k = (n-1)/3 (fault-tolerant midpoint) or (n-1)/2 (median).
const c02MaxN = 40

type svKind int

const (
	svInt svKind = iota
	svBool
	svElem   // element i of the argument
	svField  // field name of args[0]
	svOp     // name(args...)
	svStruct // struct value with known fields
	svParam  // the argument slice itself
	svOpaque
	svAddrAlloc // address of a local (alloc), optionally of one of its fields
	svAddrElem  // address of element i (field name optional)
	svSub       // the argument re-sliced: elements [i, j)
	svOrd       // smallest (b false) or largest (b true) of the elements whose positions are in set
)

type sv struct {
	k      svKind
	i      int64
	b      bool
	name   string
	args   []*sv
	sorted bool
	fields map[string]*sv
	alloc  *ssa.Alloc
	j      int64
	set    uint64
}

func (v *sv) String() string {
	if v == nil {
		return "<nil>"
	}
	switch v.k {
	case svInt:
		return fmt.Sprint(v.i)
	case svBool:
		return fmt.Sprint(v.b)
	case svElem:
		if v.sorted {
			return fmt.Sprintf("sorted[%d]", v.i)
		}
		return fmt.Sprintf("unsorted[%d]", v.i)
	case svField:
		return v.args[0].String() + "." + v.name
	case svOp:
		var as []string
		for _, a := range v.args {
			as = append(as, a.String())
		}
		return v.name + "(" + strings.Join(as, ", ") + ")"
	case svStruct:
		var fs []string
		for _, k := range []string{"Timestamp", "Offset", "Error"} {
			if f, ok := v.fields[k]; ok {
				fs = append(fs, k+": "+f.String())
			}
		}
		return "{" + strings.Join(fs, ", ") + "}"
	case svParam:
		return "s"
	case svSub:
		return fmt.Sprintf("s[%d:%d]", v.i, v.j)
	case svOrd:
		if v.b {
			return fmt.Sprintf("max(positions %b)", v.set)
		}
		return fmt.Sprintf("min(positions %b)", v.set)
	}
	return "?" + v.name
}

type c02Cond struct {
	v     *sv
	truth bool
}

type c02Outcome struct {
	n      int
	panics bool
	ret    *sv
	path   string
	conds  []c02Cond
}

type c02Interp struct {
	fn        *ssa.Function
	param     ssa.Value
	n         int
	outcomes  []c02Outcome
	undecided string
	steps     int
}

type c02State struct {
	env    map[ssa.Value]*sv
	mem    map[*ssa.Alloc]*sv
	sorted bool
	prev   *ssa.BasicBlock
	trail  []string
	visits map[*ssa.BasicBlock]int
	conds  []c02Cond
}

func (s *c02State) clone() *c02State {
	n := &c02State{env: map[ssa.Value]*sv{}, mem: map[*ssa.Alloc]*sv{}, sorted: s.sorted, prev: s.prev, visits: map[*ssa.BasicBlock]int{}}
	for k, v := range s.env {
		n.env[k] = v
	}
	for k, v := range s.mem {
		n.mem[k] = cloneSV(v)
	}
	for k, v := range s.visits {
		n.visits[k] = v
	}
	n.trail = append([]string{}, s.trail...)
	n.conds = append([]c02Cond{}, s.conds...)
	return n
}

func cloneSV(v *sv) *sv {
	if v == nil || v.k != svStruct {
		return v
	}
	c := &sv{k: svStruct, fields: map[string]*sv{}}
	for k, f := range v.fields {
		c.fields[k] = f
	}
	return c
}

func isIntType(t types.Type) bool {
	b, ok := t.Underlying().(*types.Basic)
	return ok && b.Info()&types.IsInteger != 0 && !isNamedDuration(t)
}

func isNamedDuration(t types.Type) bool {
	return typeNameOf(t) == "Duration"
}

func (it *c02Interp) val(st *c02State, v ssa.Value) *sv {
	if x, ok := st.env[v]; ok {
		return x
	}
	switch c := v.(type) {
	case *ssa.Const:
		if c.Value == nil {
			return &sv{k: svOp, name: "zero"}
		}
		switch c.Value.Kind() {
		case constant.Bool:
			return &sv{k: svBool, b: constant.BoolVal(c.Value)}
		case constant.Int:
			if k, ok := constant.Int64Val(c.Value); ok {
				if isNamedDuration(c.Type()) {
					return &sv{k: svOp, name: fmt.Sprintf("const:%d", k)}
				}
				return &sv{k: svInt, i: k}
			}
		}
		return &sv{k: svOp, name: "const:" + c.Value.ExactString()}
	case *ssa.Parameter:
		if v == it.param {
			return &sv{k: svParam}
		}
	case *ssa.Function:
		return &sv{k: svOpaque, name: "func"}
	case *ssa.Global:
		return &sv{k: svOpaque, name: "global"}
	}
	return &sv{k: svOpaque, name: v.Name()}
}

func (it *c02Interp) run() {
	st := &c02State{env: map[ssa.Value]*sv{}, mem: map[*ssa.Alloc]*sv{}, visits: map[*ssa.BasicBlock]int{}}
	it.block(it.fn.Blocks[0], st)
}

func (it *c02Interp) fail(why string) {
	if it.undecided == "" {
		it.undecided = why
	}
}

func (it *c02Interp) block(b *ssa.BasicBlock, st *c02State) {
	for it.undecided == "" {
		it.steps++
		if it.steps > 20000 {
			it.fail("too many steps")
			return
		}
		st.visits[b]++
		if st.visits[b] > 64 {
			it.fail("a loop does not terminate within the bound")
			return
		}
		st.trail = append(st.trail, fmt.Sprintf("b%d", b.Index))
		// phis first, simultaneously
		phiVals := map[*ssa.Phi]*sv{}
		for _, in := range b.Instrs {
			ph, ok := in.(*ssa.Phi)
			if !ok {
				break
			}
			for i, p := range b.Preds {
				if p == st.prev {
					phiVals[ph] = it.val(st, ph.Edges[i])
				}
			}
			if phiVals[ph] == nil {
				it.fail("merge without a known predecessor")
				return
			}
		}
		for ph, v := range phiVals {
			st.env[ph] = v
		}
		var next *ssa.BasicBlock
		for _, in := range b.Instrs {
			switch x := in.(type) {
			case *ssa.Phi, *ssa.DebugRef:
			case *ssa.BinOp:
				st.env[x] = it.binop(x, it.val(st, x.X), it.val(st, x.Y))
			case *ssa.UnOp:
				st.env[x] = it.unop(st, x)
			case *ssa.Convert:
				v := it.val(st, x.X)
				if v.k == svInt && !isIntType(x.Type()) && !isNamedDuration(x.Type()) {
					v = &sv{k: svOp, name: "conv", args: []*sv{v}}
				}
				st.env[x] = v
			case *ssa.ChangeType:
				st.env[x] = it.val(st, x.X)
			case *ssa.MakeInterface, *ssa.MakeClosure:
				st.env[x.(ssa.Value)] = &sv{k: svOpaque, name: "iface"}
			case *ssa.Alloc:
				st.env[x] = &sv{k: svAddrAlloc, alloc: x}
				if _, isStruct := x.Type().Underlying().(*types.Pointer).Elem().Underlying().(*types.Struct); isStruct {
					st.mem[x] = &sv{k: svStruct, fields: map[string]*sv{}}
				} else {
					st.mem[x] = &sv{k: svOp, name: "zero"}
				}
			case *ssa.FieldAddr:
				base := it.val(st, x.X)
				fld := fieldNameOf(x.X.Type(), x.Field)
				switch base.k {
				case svAddrAlloc:
					if base.name != "" {
						it.fail("nested field address")
						return
					}
					st.env[x] = &sv{k: svAddrAlloc, alloc: base.alloc, name: fld}
				case svAddrElem:
					st.env[x] = &sv{k: svAddrElem, i: base.i, name: fld}
				default:
					st.env[x] = &sv{k: svOpaque, name: "addr"}
				}
			case *ssa.IndexAddr:
				base := it.val(st, x.X)
				idx := it.val(st, x.Index)
				if base.k != svParam && base.k != svSub {
					st.env[x] = &sv{k: svOpaque, name: "addr"}
					break
				}
				if idx.k != svInt {
					it.fail("element index does not depend on the length only")
					return
				}
				from, to := int64(0), int64(it.n)
				if base.k == svSub {
					from, to = base.i, base.j
				}
				if idx.i < 0 || from+idx.i >= to {
					it.outcomes = append(it.outcomes, c02Outcome{n: it.n, panics: true, path: strings.Join(st.trail, " ")})
					return
				}
				st.env[x] = &sv{k: svAddrElem, i: from + idx.i}
			case *ssa.Slice:
				base := it.val(st, x.X)
				if (base.k != svParam && base.k != svSub) || x.Max != nil {
					st.env[x] = &sv{k: svOpaque, name: "slice"}
					break
				}
				from, to := int64(0), int64(it.n)
				if base.k == svSub {
					from, to = base.i, base.j
				}
				lo, hi := int64(0), to-from
				if x.Low != nil {
					l := it.val(st, x.Low)
					if l.k != svInt {
						it.fail("slice bound does not depend on the length only")
						return
					}
					lo = l.i
				}
				if x.High != nil {
					h := it.val(st, x.High)
					if h.k != svInt {
						it.fail("slice bound does not depend on the length only")
						return
					}
					hi = h.i
				}
				if lo < 0 || lo > hi || hi > to-from {
					it.outcomes = append(it.outcomes, c02Outcome{n: it.n, panics: true, path: strings.Join(st.trail, " ")})
					return
				}
				st.env[x] = &sv{k: svSub, i: from + lo, j: from + hi}
			case *ssa.Field:
				base := it.val(st, x.X)
				fld := fieldNameOf(x.X.Type(), x.Field)
				st.env[x] = projectField(base, fld)
			case *ssa.Store:
				addr := it.val(st, x.Addr)
				v := it.val(st, x.Val)
				switch addr.k {
				case svAddrAlloc:
					if addr.name == "" {
						st.mem[addr.alloc] = cloneSV(v)
					} else {
						cur := st.mem[addr.alloc]
						if cur == nil || cur.k != svStruct {
							cur = structFrom(cur)
						}
						cur.fields[addr.name] = v
						st.mem[addr.alloc] = cur
					}
				case svAddrElem:
					it.fail("the function writes an element of its argument")
					return
				}
			case *ssa.Extract:
				t := it.val(st, x.Tuple)
				if t.k == svOp && len(t.args) > x.Index && t.name == "tuple" {
					st.env[x] = t.args[x.Index]
				} else {
					st.env[x] = &sv{k: svOp, name: fmt.Sprintf("#%d", x.Index), args: []*sv{t}}
				}
			case *ssa.Call:
				if stop := it.call(st, x); stop {
					return
				}
			case *ssa.Panic:
				it.outcomes = append(it.outcomes, c02Outcome{n: it.n, panics: true, path: strings.Join(st.trail, " ")})
				return
			case *ssa.Return:
				var rv *sv
				if len(x.Results) > 0 {
					rv = it.val(st, x.Results[0])
				}
				it.outcomes = append(it.outcomes, c02Outcome{n: it.n, ret: rv, path: strings.Join(st.trail, " "), conds: st.conds})
				return
			case *ssa.Jump:
				next = b.Succs[0]
			case *ssa.If:
				c := it.val(st, x.Cond)
				if c.k == svBool {
					if c.b {
						next = b.Succs[0]
					} else {
						next = b.Succs[1]
					}
				} else {
					// depends on element values: both ways
					s2 := st.clone()
					s2.prev = b
					s2.conds = append(s2.conds, c02Cond{c, false})
					it.block(b.Succs[1], s2)
					st.conds = append(st.conds, c02Cond{c, true})
					next = b.Succs[0]
				}
			default:
				it.fail("instruction outside the evaluator's domain: " + in.String())
				return
			}
		}
		if next == nil {
			it.fail("block without successor")
			return
		}
		st.prev = b
		b = next
	}
}

func structFrom(v *sv) *sv {
	if v != nil && v.k == svStruct {
		return v
	}
	return &sv{k: svStruct, fields: map[string]*sv{}}
}

func projectField(base *sv, fld string) *sv {
	if base.k == svStruct {
		if f, ok := base.fields[fld]; ok {
			return f
		}
		return &sv{k: svOp, name: "zero"}
	}
	return &sv{k: svField, name: fld, args: []*sv{base}}
}

func (it *c02Interp) unop(st *c02State, x *ssa.UnOp) *sv {
	v := it.val(st, x.X)
	switch x.Op {
	case token.NOT:
		if v.k == svBool {
			return &sv{k: svBool, b: !v.b}
		}
		return &sv{k: svOp, name: "!", args: []*sv{v}}
	case token.SUB:
		if v.k == svInt {
			return &sv{k: svInt, i: -v.i}
		}
		return &sv{k: svOp, name: "neg", args: []*sv{v}}
	case token.MUL: // load
		switch v.k {
		case svAddrAlloc:
			cur := st.mem[v.alloc]
			if cur == nil {
				return &sv{k: svOp, name: "zero"}
			}
			if v.name != "" {
				return projectField(cur, v.name)
			}
			return cloneSV(cur)
		case svAddrElem:
			e := &sv{k: svElem, i: v.i, sorted: st.sorted}
			if v.name != "" {
				return &sv{k: svField, name: v.name, args: []*sv{e}}
			}
			return e
		}
		return &sv{k: svOpaque, name: "load"}
	}
	return &sv{k: svOp, name: x.Op.String(), args: []*sv{v}}
}

func (it *c02Interp) binop(x *ssa.BinOp, a, b *sv) *sv {
	if a.k == svInt && b.k == svInt {
		p, q := a.i, b.i
		switch x.Op {
		case token.ADD:
			return &sv{k: svInt, i: p + q}
		case token.SUB:
			return &sv{k: svInt, i: p - q}
		case token.MUL:
			return &sv{k: svInt, i: p * q}
		case token.QUO:
			if q != 0 {
				return &sv{k: svInt, i: p / q}
			}
		case token.REM:
			if q != 0 {
				return &sv{k: svInt, i: p % q}
			}
		case token.SHL:
			if q >= 0 && q < 62 {
				return &sv{k: svInt, i: p << uint(q)}
			}
		case token.SHR:
			if q >= 0 && q < 64 {
				return &sv{k: svInt, i: p >> uint(q)}
			}
		case token.AND:
			return &sv{k: svInt, i: p & q}
		case token.OR:
			return &sv{k: svInt, i: p | q}
		case token.EQL:
			return &sv{k: svBool, b: p == q}
		case token.NEQ:
			return &sv{k: svBool, b: p != q}
		case token.LSS:
			return &sv{k: svBool, b: p < q}
		case token.LEQ:
			return &sv{k: svBool, b: p <= q}
		case token.GTR:
			return &sv{k: svBool, b: p > q}
		case token.GEQ:
			return &sv{k: svBool, b: p >= q}
		}
	}
	if a.k == svBool && b.k == svBool {
		switch x.Op {
		case token.EQL:
			return &sv{k: svBool, b: a.b == b.b}
		case token.NEQ:
			return &sv{k: svBool, b: a.b != b.b}
		}
	}
	return &sv{k: svOp, name: x.Op.String(), args: []*sv{a, b}}
}

// call interprets a call; it returns true when the path ended.
func (it *c02Interp) call(st *c02State, c *ssa.Call) bool {
	name := ana.CalleeName(&c.Call)
	var args []*sv
	for _, a := range c.Call.Args {
		v := it.val(st, a)
		if v.k == svAddrElem && v.name == "" {
			// a pointer to an element handed to a helper: the element as it is at the call
			v = &sv{k: svElem, i: v.i, sorted: st.sorted}
		}
		args = append(args, v)
	}
	switch {
	case name == "builtin.len" || name == "builtin.cap":
		if len(args) == 1 && args[0].k == svParam {
			st.env[c] = &sv{k: svInt, i: int64(it.n)}
			return false
		}
		if len(args) == 1 && args[0].k == svSub && name == "builtin.len" {
			st.env[c] = &sv{k: svInt, i: args[0].j - args[0].i}
			return false
		}
	case name == "builtin.min" || name == "builtin.max":
		allInt := len(args) > 0
		for _, a := range args {
			if a.k != svInt {
				allInt = false
			}
		}
		if allInt {
			m := args[0].i
			for _, a := range args[1:] {
				if (name == "builtin.min" && a.i < m) || (name == "builtin.max" && a.i > m) {
					m = a.i
				}
			}
			st.env[c] = &sv{k: svInt, i: m}
			return false
		}
		if v := it.ordStat(name == "builtin.max", args); v != nil {
			st.env[c] = v
			return false
		}
	case strings.HasPrefix(name, "slices.Sort"):
		if len(args) >= 1 && args[0].k == svParam {
			st.sorted = true
			return false
		}
		it.fail("a sort of something other than the argument")
		return true
	}
	for _, a := range args {
		if a.k == svParam {
			it.fail("the argument slice is handed to " + ana.Short(name))
			return true
		}
	}
	st.env[c] = &sv{k: svOp, name: "call:" + ana.Short(name), args: args}
	return false
}

// ordStat: min/max over whole elements. Of sorted elements it is the one at the smallest/largest
// position; of unsorted ones it is an order statistic over a set of positions, and over all
// positions it is the first/last element of the sorted argument whether or not a sort has run.
func (it *c02Interp) ordStat(isMax bool, args []*sv) *sv {
	if len(args) == 0 || it.n > 63 {
		return nil
	}
	allSorted := true
	var set uint64
	for _, a := range args {
		a = svStrip(a)
		switch {
		case a.k == svElem && a.sorted:
		case a.k == svElem:
			allSorted = false
			set |= 1 << uint(a.i)
		case a.k == svOrd && a.b == isMax:
			allSorted = false
			set |= a.set
		default:
			return nil
		}
	}
	if allSorted {
		m := svStrip(args[0]).i
		for _, a := range args[1:] {
			if i := svStrip(a).i; (isMax && i > m) || (!isMax && i < m) {
				m = i
			}
		}
		return &sv{k: svElem, i: m, sorted: true}
	}
	for _, a := range args {
		if a = svStrip(a); a.k == svElem && a.sorted {
			return nil // mixed: outside the domain
		}
	}
	if set == (uint64(1)<<uint(it.n))-1 {
		if isMax {
			return &sv{k: svElem, i: int64(it.n) - 1, sorted: true}
		}
		return &sv{k: svElem, i: 0, sorted: true}
	}
	return &sv{k: svOrd, b: isMax, set: set}
}

// stripConv removes conversion wrappers of a symbolic value.
func svStrip(v *sv) *sv {
	for v != nil && v.k == svOp && v.name == "conv" && len(v.args) == 1 {
		v = v.args[0]
	}
	return v
}

func svSame(a, b *sv) bool {
	a, b = svStrip(a), svStrip(b)
	if a == nil || b == nil || a.k != b.k {
		return false
	}
	switch a.k {
	case svInt:
		return a.i == b.i
	case svElem:
		return a.i == b.i
	case svField:
		return a.name == b.name && svSame(a.args[0], b.args[0])
	case svOp:
		if a.name != b.name || len(a.args) != len(b.args) {
			return false
		}
		for i := range a.args {
			if !svSame(a.args[i], b.args[i]) {
				return false
			}
		}
		return true
	}
	return false
}

// svMidpoint: v is the overflow-safe midpoint of x and y: x + (y-x)/2 (also written with an
// unsigned halving of the non-negative distance), the repo's Midpoint(x, y), or x itself when
// x and y are the same element.
func svMidpoint(v, x, y *sv) bool {
	v = svStrip(v)
	if svSame(x, y) && svSame(v, x) {
		return true
	}
	if v.k != svOp {
		return false
	}
	if strings.HasSuffix(v.name, "timemath.Midpoint") && len(v.args) == 2 {
		return (svSame(v.args[0], x) && svSame(v.args[1], y)) || (svSame(v.args[0], y) && svSame(v.args[1], x))
	}
	if v.name == "+" && len(v.args) == 2 {
		for _, pr := range [][2]*sv{{v.args[0], v.args[1]}, {v.args[1], v.args[0]}} {
			base, half := svStrip(pr[0]), svStrip(pr[1])
			if half.k != svOp || half.name != "/" || len(half.args) != 2 {
				continue
			}
			two := svStrip(half.args[1])
			if !(two.k == svInt && two.i == 2) && !(two.k == svOp && two.name == "const:2") {
				continue
			}
			diff := svStrip(half.args[0])
			if diff.k != svOp || diff.name != "-" || len(diff.args) != 2 {
				continue
			}
			// base + (other - base)/2
			for _, xy := range [][2]*sv{{x, y}, {y, x}} {
				if svSame(base, xy[0]) && svSame(diff.args[0], xy[1]) && svSame(diff.args[1], xy[0]) {
					return true
				}
			}
		}
	}
	return false
}

// svLeavesWithin: every element leaf of v is field fld of element a or b.
func svLeavesWithin(v *sv, fld string, a, b int64) bool {
	v = svStrip(v)
	switch v.k {
	case svInt, svBool:
		return true
	case svField:
		e := svStrip(v.args[0])
		return e.k == svElem && v.name == fld && (e.i == a || e.i == b)
	case svElem, svParam, svOpaque, svStruct:
		return false
	case svOp:
		for _, x := range v.args {
			if !svLeavesWithin(x, fld, a, b) {
				return false
			}
		}
		return true
	}
	return false
}

// c02Table decides the selection clause of one function by enumeration. decided=false: the
// function is outside the evaluator's domain (why says what stopped it).
func c02Table(fn *ssa.Function, ftm, meas bool) (decided, ok bool, detail string, paths int) {
	param := ssa.Value(fn.Params[0])
	for n := 0; n <= c02MaxN; n++ {
		it := &c02Interp{fn: fn, param: param, n: n}
		it.run()
		if it.undecided != "" {
			return false, false, it.undecided, paths
		}
		if len(it.outcomes) == 0 {
			return false, false, "no outcome", paths
		}
		k := int64(n-1) / 3
		if !ftm {
			k = int64(n-1) / 2
		}
		lo, hi := k, int64(n)-1-k
		for _, o := range it.outcomes {
			paths++
			if n == 0 {
				if !o.panics {
					return true, false, "an empty argument does not panic", paths
				}
				continue
			}
			if o.panics {
				return true, false, fmt.Sprintf("with %d values a path panics (%s)", n, o.path), paths
			}
			bad := func(why string) (bool, bool, string, int) {
				return true, false, fmt.Sprintf("with n = %d values the result is %s: %s; expected the midpoint of the values at positions %d and %d of the sorted argument", n, o.ret.String(), why, lo, hi), paths
			}
			elemOK := func(e *sv, idx int64) bool {
				e = svStrip(e)
				return e.k == svElem && e.i == idx && (e.sorted || n == 1)
			}
			// the two selected elements, taken from the result's own leaves
			var leaves []*sv
			var collect func(v *sv)
			collect = func(v *sv) {
				v = svStrip(v)
				if v == nil {
					return
				}
				switch v.k {
				case svElem:
					leaves = append(leaves, v)
				case svField, svOp:
					for _, a := range v.args {
						collect(a)
					}
				case svStruct:
					for _, f := range v.fields {
						collect(f)
					}
				}
			}
			collect(o.ret)
			for _, l := range leaves {
				if !(l.i == lo || l.i == hi) {
					return bad(fmt.Sprintf("it depends on the value at position %d", l.i))
				}
				if !l.sorted && n > 1 {
					return bad("an element is read before the argument is sorted (the result depends on the order of the inputs)")
				}
			}
			eLo := &sv{k: svElem, i: lo, sorted: true}
			eHi := &sv{k: svElem, i: hi, sorted: true}
			if !meas {
				if !svMidpoint(o.ret, eLo, eHi) {
					return bad("not lo + (hi-lo)/2 of the two")
				}
				_ = elemOK
				continue
			}
			// measurements: midpoint(x, y) of the repo, or a value with Offset = midpoint of the offsets,
			// Timestamp built from the two timestamps only, Error left nil
			r := svStrip(o.ret)
			if r.k == svOp && strings.HasSuffix(r.name, "measurements.midpoint") && len(r.args) == 2 {
				if (svSame(r.args[0], eLo) && svSame(r.args[1], eHi)) || (svSame(r.args[0], eHi) && svSame(r.args[1], eLo)) {
					continue
				}
				return bad("midpoint() of other elements")
			}
			if r.k != svStruct {
				return bad("not a Measurement built from the two selected ones")
			}
			fo := func(e *sv, f string) *sv { return &sv{k: svField, name: f, args: []*sv{e}} }
			off, hasOff := r.fields["Offset"]
			if !hasOff || !svMidpoint(off, fo(eLo, "Offset"), fo(eHi, "Offset")) {
				return bad("Offset is not lo + (hi-lo)/2 of the two offsets")
			}
			ts, hasTS := r.fields["Timestamp"]
			if !hasTS || !svLeavesWithin(ts, "Timestamp", lo, hi) {
				return bad("Timestamp is not computed from the two selected timestamps only")
			}
			if !svTimeBetween(ts, fo(eLo, "Timestamp"), fo(eHi, "Timestamp"), o.conds) {
				return bad("Timestamp is not earlier + (later-earlier)/2 of the two selected timestamps (it can lie outside them)")
			}
			if e, hasE := r.fields["Error"]; hasE {
				e = svStrip(e)
				if !(e.k == svOp && e.name == "zero") {
					return bad("Error is not nil")
				}
			}
		}
	}
	return true, true, "", paths
}

// svTimeBetween: ts is one of the two timestamps when they are the same element's, or
// E.Add(L.Sub(E)/2) where the path's conditions say that E is not after L.
func svTimeBetween(ts, a, b *sv, conds []c02Cond) bool {
	ts = svStrip(ts)
	if svSame(a, b) && svSame(ts, a) {
		return true
	}
	if ts.k != svOp || !strings.HasSuffix(ts.name, "(time.Time).Add") || len(ts.args) != 2 {
		return false
	}
	e := ts.args[0]
	half := svStrip(ts.args[1])
	if half.k != svOp || half.name != "/" || len(half.args) != 2 {
		return false
	}
	two := svStrip(half.args[1])
	if !(two.k == svInt && two.i == 2) && !(two.k == svOp && two.name == "const:2") {
		return false
	}
	sub := svStrip(half.args[0])
	if sub.k != svOp || !strings.HasSuffix(sub.name, "(time.Time).Sub") || len(sub.args) != 2 || !svSame(sub.args[1], e) {
		return false
	}
	l := sub.args[0]
	if !((svSame(e, a) && svSame(l, b)) || (svSame(e, b) && svSame(l, a))) {
		return false
	}
	if svSame(e, l) {
		return true
	}
	// e is not after l on this path
	for _, c := range conds {
		v, truth := svStrip(c.v), c.truth
		for v.k == svOp && v.name == "!" && len(v.args) == 1 {
			v, truth = svStrip(v.args[0]), !truth
		}
		if v.k != svOp || len(v.args) != 2 {
			continue
		}
		x, y := v.args[0], v.args[1]
		switch {
		case strings.HasSuffix(v.name, "(time.Time).After"):
			// e.After(l) false, or l.After(e) true
			if (svSame(x, e) && svSame(y, l) && !truth) || (svSame(x, l) && svSame(y, e) && truth) {
				return true
			}
		case strings.HasSuffix(v.name, "(time.Time).Before"):
			// l.Before(e) false, or e.Before(l) true
			if (svSame(x, l) && svSame(y, e) && !truth) || (svSame(x, e) && svSame(y, l) && truth) {
				return true
			}
		}
	}
	return false
}
