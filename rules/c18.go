package rules

import (
	"fmt"
	"go/constant"
	"go/token"
	"math/big"
	"strings"

	"golang.org/x/tools/go/ssa"

	"verif/internal/ana"
)

func init() { All["C18"] = checkC18 }

// iv is a closed integer interval.
type iv struct{ lo, hi *big.Int }

func ivConst(k int64) iv { return iv{big.NewInt(k), big.NewInt(k)} }
func ivFull() iv {
	lo := new(big.Int).Lsh(big.NewInt(-1), 63)
	hi := new(big.Int).Sub(new(big.Int).Lsh(big.NewInt(1), 63), big.NewInt(1))
	return iv{lo, hi}
}
func (a iv) join(b iv) iv {
	lo, hi := a.lo, a.hi
	if b.lo.Cmp(lo) < 0 {
		lo = b.lo
	}
	if b.hi.Cmp(hi) > 0 {
		hi = b.hi
	}
	return iv{lo, hi}
}
func (a iv) String() string { return fmt.Sprintf("[%s, %s]", a.lo, a.hi) }
func (a iv) empty() bool    { return a.lo.Cmp(a.hi) > 0 }

type ivEnv map[ssa.Value]iv

func (e ivEnv) clone() ivEnv {
	n := ivEnv{}
	for k, v := range e {
		n[k] = v
	}
	return n
}

// ivEval evaluates an int64 SSA value in env (sound over-approximation; wrap-around ignored only where noted).
func ivEval(v ssa.Value, env ivEnv) (iv, bool) {
	if x, ok := env[v]; ok {
		return x, true
	}
	switch x := v.(type) {
	case *ssa.Const:
		if x.Value != nil && x.Value.Kind() == constant.Int {
			if k, ok := constant.Int64Val(x.Value); ok {
				return ivConst(k), true
			}
		}
	case *ssa.Parameter:
		return ivFull(), true
	case *ssa.BinOp:
		a, ok1 := ivEval(x.X, env)
		b, ok2 := ivEval(x.Y, env)
		if !ok1 || !ok2 {
			return iv{}, false
		}
		switch x.Op {
		case token.ADD:
			return iv{new(big.Int).Add(a.lo, b.lo), new(big.Int).Add(a.hi, b.hi)}, true
		case token.SUB:
			return iv{new(big.Int).Sub(a.lo, b.hi), new(big.Int).Sub(a.hi, b.lo)}, true
		case token.MUL:
			if b.lo.Cmp(b.hi) == 0 && b.lo.Sign() >= 0 {
				return iv{new(big.Int).Mul(a.lo, b.lo), new(big.Int).Mul(a.hi, b.lo)}, true
			}
		case token.QUO:
			if b.lo.Cmp(b.hi) == 0 && b.lo.Sign() > 0 {
				// truncated division is monotone
				return iv{new(big.Int).Quo(a.lo, b.lo), new(big.Int).Quo(a.hi, b.lo)}, true
			}
		case token.REM:
			if b.lo.Cmp(b.hi) == 0 && b.lo.Sign() > 0 {
				k1 := new(big.Int).Sub(b.lo, big.NewInt(1))
				lo, hi := new(big.Int).Neg(k1), k1
				if a.lo.Sign() >= 0 {
					lo = big.NewInt(0)
				}
				if a.hi.Sign() <= 0 {
					hi = big.NewInt(0)
				}
				return iv{lo, hi}, true
			}
		}
	}
	return iv{}, false
}

// ivRefine narrows env by the outcome of a comparison with a constant.
func ivRefine(env ivEnv, cond ssa.Value, val bool) ivEnv {
	c, pos, isCmp := ana.AsCmp(cond)
	if !isCmp {
		return env
	}
	holds := val == pos
	x, y, op := c.X, c.Y, c.Op
	if _, isK := x.(*ssa.Const); isK {
		x, y, op = y, x, ana.SwapOp(op)
	}
	k, ok := ana.ConstInt(y)
	if !ok {
		return env
	}
	if !holds {
		op = ana.NegOp(op)
	}
	cur, ok := ivEval(x, env)
	if !ok {
		return env
	}
	kk := big.NewInt(k)
	n := env.clone()
	lo, hi := cur.lo, cur.hi
	switch op {
	case token.LSS:
		if h := new(big.Int).Sub(kk, big.NewInt(1)); h.Cmp(hi) < 0 {
			hi = h
		}
	case token.LEQ:
		if kk.Cmp(hi) < 0 {
			hi = kk
		}
	case token.GTR:
		if l := new(big.Int).Add(kk, big.NewInt(1)); l.Cmp(lo) > 0 {
			lo = l
		}
	case token.GEQ:
		if kk.Cmp(lo) > 0 {
			lo = kk
		}
	case token.EQL:
		lo, hi = kk, kk
	}
	n[x] = iv{lo, hi}
	return n
}

// ivAnalyze runs the interval analysis over a loop-free function and returns
// the environment at each Return.
func ivAnalyze(fn *ssa.Function) (map[*ssa.Return]ivEnv, error) {
	order, err := ana.Topo(fn)
	if err != nil {
		return nil, err
	}
	exit := map[*ssa.BasicBlock]ivEnv{}
	edgeEnv := map[ana.Edge]ivEnv{}
	out := map[*ssa.Return]ivEnv{}
	for _, b := range order {
		var env ivEnv
		if b.Index == 0 {
			env = ivEnv{}
		} else {
			// join of incoming edges, phis evaluated per edge
			var envs []ivEnv
			var preds []int
			for pi, pr := range b.Preds {
				for si, s := range pr.Succs {
					if s == b {
						if e, ok := edgeEnv[ana.Edge{From: pr, Succ: si}]; ok {
							envs = append(envs, e)
							preds = append(preds, pi)
						}
					}
				}
			}
			if len(envs) == 0 {
				continue
			}
			env = ivEnv{}
			// values known in all incoming envs: join
			for k := range envs[0] {
				j := envs[0][k]
				all := true
				for _, e := range envs[1:] {
					if v, ok := e[k]; ok {
						j = j.join(v)
					} else {
						all = false
					}
				}
				if all {
					env[k] = j
				}
			}
			for _, in := range b.Instrs {
				ph, ok := in.(*ssa.Phi)
				if !ok {
					break
				}
				var j *iv
				okAll := true
				for i, e := range envs {
					v, ok := ivEval(ph.Edges[preds[i]], e)
					if !ok {
						okAll = false
						break
					}
					if v.empty() {
						continue
					}
					if j == nil {
						vv := v
						j = &vv
					} else {
						vv := j.join(v)
						j = &vv
					}
				}
				if okAll && j != nil {
					env[ph] = *j
				}
			}
		}
		for _, in := range b.Instrs {
			switch x := in.(type) {
			case *ssa.BinOp:
				if v, ok := ivEval(x, env); ok {
					env[x] = v
				}
			case *ssa.Return:
				out[x] = env
			}
		}
		exit[b] = env
		if n := len(b.Instrs); n > 0 {
			switch t := b.Instrs[n-1].(type) {
			case *ssa.If:
				te := ivRefine(env, t.Cond, true)
				fe := ivRefine(env, t.Cond, false)
				if !envEmpty(te) {
					edgeEnv[ana.Edge{From: b, Succ: 0}] = te
				}
				if !envEmpty(fe) {
					edgeEnv[ana.Edge{From: b, Succ: 1}] = fe
				}
			case *ssa.Jump:
				edgeEnv[ana.Edge{From: b, Succ: 0}] = env
			}
		}
	}
	return out, nil
}

func envEmpty(e ivEnv) bool {
	for _, v := range e {
		if v.empty() {
			return true
		}
	}
	return false
}

func checkC18(p *ana.Prog, r *ana.Result) {
	r.Explain("C18: seconds/sub-second split - a path-wise proof over unixutil.TimevalFromNsec (closed arbitrary-precision intervals refined by the comparisons on the path, and exact linear forms over the input, its truncated quotient and its remainder by a positive constant, every +, -, * admitted only if its interval excludes int64 wrap-around) shows, for every int64 input and on every feasible path, 0 <= Usec < 10^9 and Sec*10^9 + Usec == input, using only n == k*(n/k) + n%k and |n%k| < k with the sign of n; CSPTP timestamp packing - a bit-level abstract interpretation (each bit is 0, 1, a named bit of t.Unix() / t.Nanosecond() / a Seconds byte, or unknown; shifts, |, &, conversions, carry-free +, array and struct elements exact; counted loops followed by constant propagation; branches on input bits followed only when the other side panics, recording the interval) shows that TimestampFromTime stores bits 40-8i..47-8i of the second count in Seconds[i] for second counts in [0, 2^48-1] (others panic) and the nanoseconds unchanged, and that TimeFromTimestamp returns time.Unix(sec, nsec) built from exactly these bits zero-extended - every timestamp in range round-trips exactly (shared with C14; a structural rule is the fallback when the functions leave the domain); single truncation - csptp.ClockOffset and MeanPathDelay are one division by two of the integer combination of the two one-way terms (never a difference/sum of two halves), C2SDelay/S2CDelay are their linear forms, DurationFromTimeInterval is an arithmetic shift by 16; scaled-ppm conversion uses the same factor 65536*10^6 in both directions; SystemClock.Drift is timemath.Duration(duration.Seconds() * c.drift) (proportional) or the UnknownDrift sentinel. Nothing is executed: all three analyses work on the SSA form with abstract values.")
	r.Undecided("float rounding of the ppm conversion and of Drift (one unit in the last place), the CSPTP offset/delay identities as value properties beyond their linear form, time.Unix / Time.Unix / Time.Nanosecond themselves (standard library, trusted: Nanosecond() in [0, 999999999])")
	c18Timeval(p, r)
	c14Timestamp(p, r)
	for _, o := range r.Obls {
		if o.Rule == "C14.fixed" {
			o.Rule = "C18.timestamp"
			o.Key = strings.Replace(o.Key, "C14.fixed", "C18.timestamp", 1)
		}
	}
	c18Formulas(p, r)
	c18Freq(p, r)
	c18Drift(p, r)
}

// subSym: canonical symbol for a time difference a.Sub(b): "(a-b)".
func durLin(v ssa.Value, d int) (map[string]int64, bool) {
	if d > 8 {
		return nil, false
	}
	switch x := v.(type) {
	case *ssa.Parameter:
		return map[string]int64{x.Name(): 1}, true
	case *ssa.Call:
		if ana.CalleeName(&x.Call) == "(time.Time).Sub" {
			a, ok1 := x.Call.Args[0].(*ssa.Parameter)
			b, ok2 := x.Call.Args[1].(*ssa.Parameter)
			if ok1 && ok2 {
				return map[string]int64{"(" + a.Name() + "-" + b.Name() + ")": 1}, true
			}
		}
	case *ssa.BinOp:
		if x.Op == token.ADD || x.Op == token.SUB {
			a, ok1 := durLin(x.X, d+1)
			b, ok2 := durLin(x.Y, d+1)
			if !ok1 || !ok2 {
				return nil, false
			}
			s := int64(1)
			if x.Op == token.SUB {
				s = -1
			}
			out := map[string]int64{}
			for k, c := range a {
				out[k] += c
			}
			for k, c := range b {
				out[k] += s * c
			}
			return out, true
		}
	}
	return nil, false
}

func linEq(a map[string]int64, want map[string]int64) bool {
	for k, c := range a {
		if c != want[k] {
			return false
		}
	}
	for k, c := range want {
		if c != a[k] {
			return false
		}
	}
	return true
}

func c18Formulas(p *ana.Prog, r *ana.Result) {
	type spec struct {
		name string
		half bool
		want map[string]int64
		desc string
	}
	specs := []spec{
		{"ClockOffset", true, map[string]int64{"(t1-t0)": 1, "t1Corr": -1, "(t3-t2)": -1, "t3Corr": 1}, "((t1-t0-t1Corr) - (t3-t2-t3Corr)) / 2"},
		{"MeanPathDelay", true, map[string]int64{"(t1-t0)": 1, "t1Corr": -1, "(t3-t2)": 1, "t3Corr": -1}, "((t1-t0-t1Corr) + (t3-t2-t3Corr)) / 2"},
		{"C2SDelay", false, map[string]int64{"(t1-t0)": 1, "t1Corr": -1, "utcCorr": -1}, "t1-t0-t1Corr-utcCorr"},
		{"S2CDelay", false, map[string]int64{"(t3-t2)": 1, "t3Corr": -1, "utcCorr": 1}, "t3-t2-t3Corr+utcCorr"},
	}
	for _, sp := range specs {
		fn := mustFunc(p, r, "net/csptp", sp.name)
		if fn == nil {
			continue
		}
		fname := ana.FuncName(fn)
		var ret *ssa.Return
		ana.Instrs(fn, func(in ssa.Instruction) {
			if x, ok := in.(*ssa.Return); ok {
				ret = x
			}
		})
		if ret == nil || len(fn.Blocks) != 1 {
			r.Violate("C18.formula", fname, "form", p.Pos(fn.Pos()), "UNDECIDED: formula is not a single expression")
			continue
		}
		v := ret.Results[0]
		if sp.half {
			q, ok := v.(*ssa.BinOp)
			k := int64(0)
			if ok {
				k, _ = ana.ConstInt(q.Y)
			}
			if !ok || q.Op != token.QUO || k != 2 {
				r.Violate("C18.formula", fname, "single-division", posOf(p, ret), "the result is not one division by two of the combined integer terms (dividing the two one-way terms separately truncates twice and loses a nanosecond for odd terms of opposite sign)")
				continue
			}
			v = q.X
		}
		l, ok := durLin(v, 0)
		if ok && linEq(l, sp.want) {
			r.Ok("C18.formula", fname, "linear-form", posOf(p, ret), sp.name+" = "+sp.desc+" (one truncation at most)")
		} else {
			r.Violate("C18.formula", fname, "linear-form", posOf(p, ret), fmt.Sprintf("%s is not %s (found terms %v)", sp.name, sp.desc, l))
		}
	}
	// DurationFromTimeInterval: i >> 16
	fn := mustFunc(p, r, "net/csptp", "DurationFromTimeInterval")
	if fn != nil {
		// every value the function can return is i >> 16 (through merges): no input is special
		var isShift func(v ssa.Value, d int) bool
		isShift = func(v ssa.Value, d int) bool {
			v = ana.StripConv(v)
			if ph, isPh := v.(*ssa.Phi); isPh && d < 4 {
				for _, e := range ph.Edges {
					if !isShift(e, d+1) {
						return false
					}
				}
				return len(ph.Edges) > 0
			}
			if sh, isB := v.(*ssa.BinOp); isB && sh.Op == token.SHR {
				k, _ := ana.ConstInt(sh.Y)
				if pr, isP := ana.StripConv(sh.X).(*ssa.Parameter); isP && pr == fn.Params[0] && k == 16 {
					return true
				}
			}
			return false
		}
		ok, nRet := true, 0
		ana.Instrs(fn, func(in ssa.Instruction) {
			if ret, isR := in.(*ssa.Return); isR && len(ret.Results) == 1 {
				nRet++
				if !isShift(ret.Results[0], 0) {
					ok = false
				}
			}
		})
		if ok && nRet > 0 {
			r.Ok("C18.formula", ana.FuncName(fn), "drop-16-subnanosecond-bits", p.Pos(fn.Pos()), "DurationFromTimeInterval(i) = i >> 16 (arithmetic shift of the signed value)")
		} else {
			r.Violate("C18.formula", ana.FuncName(fn), "drop-16-subnanosecond-bits", p.Pos(fn.Pos()), "correction fields are not converted by an arithmetic right shift of 16")
		}
	}
}

func c18Freq(p *ana.Prog, r *ana.Result) {
	a := mustFunc(p, r, "base/unixutil", "ScaledPPMFromFreq")
	b := mustFunc(p, r, "base/unixutil", "FreqFromScaledPPM")
	if a == nil || b == nil {
		return
	}
	factor := func(fn *ssa.Function, op token.Token) (float64, bool) {
		var f float64
		ok := false
		ana.Instrs(fn, func(in ssa.Instruction) {
			bo, isB := in.(*ssa.BinOp)
			if !isB || bo.Op != op {
				return
			}
			if k, isK := constFloatOf(bo.Y); isK {
				f, ok = k, true
			}
		})
		return f, ok
	}
	fa, ok1 := factor(a, token.MUL)
	fb, ok2 := factor(b, token.QUO)
	if ok1 && ok2 && fa == fb && fa == 65536.0*1e6 {
		r.Ok("C18.formula", "base/unixutil.freq", "same-scale-both-ways", p.Pos(a.Pos()), "ScaledPPMFromFreq multiplies and FreqFromScaledPPM divides by the same 65536*10^6")
	} else {
		r.Violate("C18.formula", "base/unixutil.freq", "same-scale-both-ways", p.Pos(a.Pos()), fmt.Sprintf("the two directions of the scaled-ppm conversion use different factors (%g vs %g, expected 65536e6)", fa, fb))
	}
}

func c18Drift(p *ana.Prog, r *ana.Result) {
	fn := mustFunc(p, r, "driver/clocks", "(*SystemClock).Drift")
	if fn == nil {
		return
	}
	fname := ana.FuncName(fn)
	ok := false
	n := 0
	ana.Instrs(fn, func(in ssa.Instruction) {
		ret, isR := in.(*ssa.Return)
		if !isR {
			return
		}
		n++
		v := ret.Results[0]
		if k, isK := ana.ConstInt(v); isK && k == 1<<63-1 {
			return // UnknownDrift sentinel arm
		}
		c, _ := ana.CallOf(v)
		if c == nil || ana.CalleeName(c.Common()) != ana.Q("base/timemath.Duration") {
			return
		}
		mul, isB := c.Common().Args[0].(*ssa.BinOp)
		if !isB || mul.Op != token.MUL {
			return
		}
		for _, pr := range [][2]ssa.Value{{mul.X, mul.Y}, {mul.Y, mul.X}} {
			s, _ := ana.CallOf(pr[0])
			if s != nil && ana.CalleeName(s.Common()) == "(time.Duration).Seconds" && ana.AccessPath(s.Common().Args[0]) == "duration" && ana.AccessPath(pr[1]) == "c.drift" {
				ok = true
			}
		}
	})
	if ok {
		r.Ok("C18.formula", fname, "drift-proportional", p.Pos(fn.Pos()), "Drift(d) = Duration(d.Seconds() * c.drift) - each factor once - or the UnknownDrift sentinel")
	} else {
		r.Violate("C18.formula", fname, "drift-proportional", p.Pos(fn.Pos()), "the drift allowance is not the product of the interval and the configured drift")
	}
}
