package rules

import (
	"fmt"
	"go/token"
	"go/types"
	"strings"

	"golang.org/x/tools/go/ssa"

	"verif/internal/ana"
)

func init() { All["C07"] = checkC07 }

const (
	fnLock   = "(*sync.Mutex).Lock"
	fnUnlock = "(*sync.Mutex).Unlock"
)

func checkC07(p *ana.Prog, r *ana.Result) {
	r.Explain("C07 (structural necessary conditions): lockset - every function of core/server that touches the timestamp store (globals tss, tssQ) takes tssMu in its entry block before the first access, releases it only by defer, starts no goroutine and performs no channel operation while holding it, and the tssQueue heap methods are reachable only through heap.* calls made inside such holders; guarded growth - every map insert is reachable only where len(tss) != 2^20 (or after a delete), every per-client length increment only where len != 8, heap.Pop only under len(tss)==2^20 && !min.After(rxt) and is followed by delete of the popped key; heap/map pairing - insert<->heap.Push, delete<->heap.Pop/Remove of the same item, every qval store on a queued item is followed by heap.Fix of that item, qval decisions are taken on the pre-update buffer (no buffer store can reach the new-maximum test), Swap/Push/Pop/Less maintain the back-pointers and order by qval.")
	r.Undecided("heap order over histories, eviction fairness, linearizability as a behaviour (argued from the lockset: each operation is one critical section), metric gauges")
	tss := p.Global("core/server", "tss")
	tssQ := p.Global("core/server", "tssQ")
	mu := p.Global("core/server", "tssMu")
	if tss == nil || tssQ == nil || mu == nil {
		r.Broken("anchors tss/tssQ/tssMu do not resolve")
		return
	}
	c07Consts(p, r)
	holders := c07Lock(p, r, tss, tssQ, mu)
	hr := mustFunc(p, r, "core/server", "handleRequest")
	ut := mustFunc(p, r, "core/server", "updateTXTimestamp")
	if hr == nil || ut == nil {
		return
	}
	if !holders[hr] || !holders[ut] {
		r.Violate("C07.lock", "core/server", "expected-holders", p.Pos(hr.Pos()), "handleRequest and updateTXTimestamp are expected to be the lock holders that access the store")
	}
	c07Cap(p, r, hr, tss, tssQ)
	c07Pair(p, r, hr, ut, tss, tssQ)
	c07HeapMethods(p, r)
	c07ArgExtreme(p, r, hr)
	c07ArgExtreme(p, r, ut)
}

func c07Consts(p *ana.Prog, r *ana.Result) {
	for _, c := range []struct {
		name string
		want int64
	}{{"tssCap", 1 << 20}, {"tssItemCap", 8}} {
		nc := p.Const("core/server", c.name)
		if nc == nil {
			r.Broken("constant core/server.%s does not resolve", c.name)
			continue
		}
		v, _ := ana.ConstInt(nc.Value)
		if v == c.want {
			r.Ok("C07.cap", "core/server", "const:"+c.name, p.Pos(nc.Pos()), fmt.Sprintf("%s == %d as stated by the property", c.name, c.want))
		} else {
			r.Violate("C07.cap", "core/server", "const:"+c.name, p.Pos(nc.Pos()), fmt.Sprintf("%s is %d, the property states %d", c.name, v, c.want))
		}
	}
	// the per-item buffer really has tssItemCap elements and the queue is the only other container
}

// c07Lock computes the accessor set and checks the holder discipline.
func c07Lock(p *ana.Prog, r *ana.Result, tss, tssQ, mu *ssa.Global) map[*ssa.Function]bool {
	holders := map[*ssa.Function]bool{}
	nAcc := 0
	for _, fn := range p.AllFuncs {
		if fn.Pkg == nil || fn.Pkg != p.SSAPkg("core/server") {
			// other packages cannot name the unexported globals; checked by the type checker
			continue
		}
		var first ssa.Instruction
		ana.Instrs(fn, func(in ssa.Instruction) {
			if first == nil && (refsGlobal(in, tss) || refsGlobal(in, tssQ)) {
				first = in
			}
		})
		if first == nil {
			continue
		}
		fname := ana.FuncName(fn)
		if fn.Name() == "init" && fn.Synthetic != "" {
			r.Ok("C07.lock", fname, "package-init", p.Pos(fn.Pos()), "package initialiser creates the store before any goroutine exists")
			continue
		}
		nAcc++
		r.Saw(fname)
		// entry block: Lock(tssMu) then defer Unlock(tssMu) before the first access
		b0 := fn.Blocks[0]
		lockIdx, deferIdx := -1, -1
		for i, in := range b0.Instrs {
			if c, ok := in.(*ssa.Call); ok && ana.CalleeName(&c.Call) == fnLock && len(c.Call.Args) == 1 && c.Call.Args[0] == ssa.Value(mu) && lockIdx < 0 {
				lockIdx = i
			}
			if d, ok := in.(*ssa.Defer); ok && ana.CalleeName(&d.Call) == fnUnlock && len(d.Call.Args) == 1 && d.Call.Args[0] == ssa.Value(mu) && deferIdx < 0 {
				deferIdx = i
			}
		}
		ok := lockIdx >= 0 && deferIdx > lockIdx
		if ok {
			// first access after the lock: every access instruction is in block 0 after lockIdx or in a block != 0
			ana.Instrs(fn, func(in ssa.Instruction) {
				if (refsGlobal(in, tss) || refsGlobal(in, tssQ)) && in.Block() == b0 && instrIndex(in) < deferIdx {
					ok = false
				}
			})
		}
		if !ok {
			r.Violate("C07.lock", fname, "access-outside-critical-section", posOf(p, first),
				"function accesses the timestamp store (tss/tssQ) without taking tssMu in its entry block (Lock followed by defer Unlock) before the first access")
			continue
		}
		// no explicit Unlock, no go, no channel op, no second Lock
		bad := ""
		ana.Instrs(fn, func(in ssa.Instruction) {
			switch x := in.(type) {
			case *ssa.Call:
				n := ana.CalleeName(&x.Call)
				if (n == fnUnlock || n == "(*sync.Mutex).TryLock") && len(x.Call.Args) > 0 && x.Call.Args[0] == ssa.Value(mu) {
					bad = "explicit tssMu.Unlock() inside the critical section at " + posOf(p, in)
				}
				if n == fnLock && instrIndex(in) != lockIdx && x.Call.Args[0] == ssa.Value(mu) {
					bad = "second tssMu.Lock() at " + posOf(p, in)
				}
			case *ssa.Go:
				bad = "goroutine started while tssMu is held at " + posOf(p, in)
			case *ssa.Send, *ssa.Select:
				bad = "channel operation while tssMu is held at " + posOf(p, in)
			case *ssa.UnOp:
				if x.Op == token.ARROW {
					bad = "channel receive while tssMu is held at " + posOf(p, in)
				}
			case *ssa.MakeClosure:
				bad = "closure created in a store accessor at " + posOf(p, in)
			}
		})
		if fn.Signature.Results().Len() != 0 {
			bad = "store accessor returns a value (possible escape of store pointers)"
		}
		if bad != "" {
			r.Violate("C07.lock", fname, "critical-section-shape", p.Pos(fn.Pos()), bad)
			continue
		}
		holders[fn] = true
		r.Ok("C07.lock", fname, "holder", p.Pos(fn.Pos()), "tssMu.Lock(); defer tssMu.Unlock() precede every access to tss/tssQ; no early unlock, goroutine, channel operation or returned pointer")
	}
	r.Floor("C07.lock.accessors", nAcc, 2)
	// heap methods: only reachable as heap.Interface built from &tssQ inside holders;
	// no direct calls to tssQueue methods and no other conversion of tssQueue to an interface
	nIface := 0
	for _, fn := range p.AllFuncs {
		ana.Instrs(fn, func(in ssa.Instruction) {
			switch x := in.(type) {
			case *ssa.MakeInterface:
				if typeNameOf(x.X.Type()) == "tssQueue" {
					nIface++
					if !(holders[fn] && x.X == ssa.Value(tssQ)) {
						r.Violate("C07.lock", ana.FuncName(fn), "queue-interface-escape", posOf(p, in), "tssQueue is converted to an interface outside a lock holder (heap methods would run unlocked)")
					}
					for _, ref := range ana.Referrers(x) {
						c, ok := ref.(*ssa.Call)
						if !ok || !strings.HasPrefix(ana.CalleeName(&c.Call), "container/heap.") {
							r.Violate("C07.lock", ana.FuncName(fn), "queue-interface-use", posOf(p, ref), "the heap interface of tssQ is used by something other than container/heap")
						}
					}
				}
			case ssa.CallInstruction:
				if f := x.Common().StaticCallee(); f != nil && f.Signature.Recv() != nil && typeNameOf(f.Signature.Recv().Type()) == "tssQueue" && !strings.Contains(fn.Name(), "$bound") {
					if fn.Signature.Recv() == nil || typeNameOf(fn.Signature.Recv().Type()) != "tssQueue" {
						r.Violate("C07.lock", ana.FuncName(fn), "direct-heap-method-call", posOf(p, in), "tssQueue method called directly (outside container/heap under the lock)")
					}
				}
			}
		})
	}
	if nIface > 0 {
		r.Ok("C07.lock", "core/server", "heap-methods-confined", "-", fmt.Sprintf("all %d conversions of tssQ to heap.Interface are inside lock holders and passed only to container/heap", nIface))
	}
	r.Floor("C07.lock.heap-interface-sites", nIface, 3)
	return holders
}

// lenTssEqCap matches `len(*tss) == 1048576`.
func lenTssCmp(c ana.Cmp, tss *ssa.Global) (isEq bool, ok bool) {
	if c.Op != token.EQL && c.Op != token.NEQ {
		return false, false
	}
	x, y := c.X, c.Y
	if _, isK := ana.ConstInt(x); isK {
		x, y = y, x
	}
	k, isK := ana.ConstInt(y)
	if !isK || k != 1<<20 || !isLenOf(x) {
		return false, false
	}
	call, _ := ana.CallOf(x)
	if !loadsGlobal(call.Common().Args[0], tss) {
		return false, false
	}
	return c.Op == token.EQL, true
}

func c07Cap(p *ana.Prog, r *ana.Result, hr *ssa.Function, tss, tssQ *ssa.Global) {
	fname := ana.FuncName(hr)
	notFull := ana.FindGate(p, hr, "len(tss)!=tssCap", func(c ana.Cmp, isCmp bool, _ ssa.Value) (bool, bool) {
		if !isCmp {
			return false, false
		}
		isEq, ok := lenTssCmp(c, tss)
		if !ok {
			return false, false
		}
		return true, !isEq
	})
	full := ana.FindGate(p, hr, "len(tss)==tssCap", func(c ana.Cmp, isCmp bool, _ ssa.Value) (bool, bool) {
		if !isCmp {
			return false, false
		}
		isEq, ok := lenTssCmp(c, tss)
		if !ok {
			return false, false
		}
		return true, isEq
	})
	isDelete := func(in ssa.Instruction) bool {
		c := isBuiltinCall(in, "delete")
		return c != nil && loadsGlobal(c.Call.Args[0], tss)
	}
	// map inserts
	nIns := 0
	for _, fn := range p.AllFuncs {
		ana.Instrs(fn, func(in ssa.Instruction) {
			mu, ok := in.(*ssa.MapUpdate)
			if !ok || !loadsGlobal(mu.Map, tss) {
				return
			}
			if fn.Name() == "init" {
				return
			}
			nIns++
			if fn != hr {
				r.Violate("C07.cap", ana.FuncName(fn), "insert-outside-handleRequest", posOf(p, in), "client state is inserted outside handleRequest (no capacity test)")
				return
			}
			// every path entry -> insert passes len(tss)!=cap after the last delete
			s := &ana.Search{Fn: hr, Cut: func(e ana.Edge) bool { return notFull.Accept[e] }, Target: func(x ssa.Instruction) bool { return x == in }}
			// paths may pass a delete: search from entry and from after each delete separately
			found, wit := s.Run(nil)
			// a path that passed a delete before reaching the insert is fine only if the delete happened on the full arm: model by stopping at deletes
			s2 := &ana.Search{Fn: hr, Cut: func(e ana.Edge) bool { return notFull.Accept[e] }, Stop: isDelete, Target: func(x ssa.Instruction) bool { return x == in }}
			found2, wit2 := s2.Run(nil)
			_ = found
			_ = wit
			if found2 {
				r.Violate("C07.cap", fname, "insert-guard", posOf(p, in), "a new client is inserted into the store on a path where neither len(tss) != 2^20 was established nor an entry was deleted (store can exceed its capacity)", wit2...)
			} else {
				r.Ok("C07.cap", fname, "insert-guard", posOf(p, in), fmt.Sprintf("every path to tss[k]=v passes the not-full edge of len(tss)==tssCap (%d test sites) or a delete", len(notFull.Sites)))
			}
		})
	}
	r.Floor("C07.cap.inserts", nIns, 1)
	// per-client length increments
	nInc := 0
	lenNot8 := ana.FindGate(p, hr, "tssi.len!=cap(buf)", func(c ana.Cmp, isCmp bool, _ ssa.Value) (bool, bool) {
		if !isCmp || (c.Op != token.EQL && c.Op != token.NEQ) {
			return false, false
		}
		k, ok := ana.ConstInt(c.Y)
		if !ok || k != 8 {
			return false, false
		}
		ch, root := fieldChain(c.X)
		if ch != "len" || typeNameOf(root.Type()) != "tssItem" {
			return false, false
		}
		return true, c.Op == token.NEQ
	})
	for _, fn := range p.AllFuncs {
		ana.Instrs(fn, func(in ssa.Instruction) {
			st, ok := in.(*ssa.Store)
			if !ok {
				return
			}
			ch, root := fieldChain(st.Addr)
			if ch != "len" || typeNameOf(root.Type()) != "tssItem" {
				return
			}
			bo, ok := st.Val.(*ssa.BinOp)
			if !ok {
				r.Violate("C07.cap", ana.FuncName(fn), "len-store-form", posOf(p, in), "tssItem.len is assigned something other than len+1 / len-1")
				return
			}
			if bo.Op == token.SUB {
				return // shrinking is always within bounds (checked by C07.pair)
			}
			k, _ := ana.ConstInt(bo.Y)
			if bo.Op != token.ADD || k != 1 {
				r.Violate("C07.cap", ana.FuncName(fn), "len-store-form", posOf(p, in), "tssItem.len grows by something other than 1")
				return
			}
			nInc++
			if fn != hr {
				r.Violate("C07.cap", ana.FuncName(fn), "len-increment-outside-handleRequest", posOf(p, in), "per-client exchange count grows outside handleRequest")
				return
			}
			s := &ana.Search{Fn: hr, Cut: func(e ana.Edge) bool { return lenNot8.Accept[e] }, Target: func(x ssa.Instruction) bool { return x == in }}
			if found, wit := s.Run(nil); found {
				r.Violate("C07.cap", fname, "len-increment-guard", posOf(p, in), "tssi.len++ is reachable without the test tssi.len != 8 (more than 8 exchanges per client / write past the buffer)", wit...)
			} else {
				r.Ok("C07.cap", fname, "len-increment-guard", posOf(p, in), "tssi.len++ only on the not-equal edge of tssi.len == cap(tssi.buf) (8)")
			}
			// the element written is buf[len] on that arm
		})
	}
	r.Floor("C07.cap.len-increments", nInc, 1)
	// eviction: heap.Pop only under full && !min.After(rxt64), followed by delete of the popped key
	pops := ana.CallsIn(hr, "container/heap.Pop")
	if len(pops) != 1 {
		r.Violate("C07.cap", fname, "eviction-site", p.Pos(hr.Pos()), fmt.Sprintf("expected exactly one heap.Pop (eviction) in handleRequest, found %d", len(pops)))
		return
	}
	pop := pops[0].(*ssa.Call)
	notAfter := ana.FindGate(p, hr, "!tssQ[0].qval.After(rxt64)", func(_ ana.Cmp, isCmp bool, v ssa.Value) (bool, bool) {
		if isCmp {
			return false, false
		}
		// rxt64 earlier than tssQ[0].qval (either spelling) must not hold
		earlier, later, _, ok := strictOrder(v)
		if !ok {
			return false, false
		}
		ch, root := fieldChain(later)
		// tssQ[0].qval
		if ch != "[].qval" || !loadsGlobal(root, tssQ) {
			return false, false
		}
		if k, ok := ana.ConstInt(indexOfAddrVal(later)); !ok || k != 0 {
			return false, false
		}
		if !isRxt64(earlier) {
			return false, false
		}
		return true, false
	})
	target := func(x ssa.Instruction) bool { return x == ssa.Instruction(pop) }
	for _, g := range []*ana.Gate{full, notAfter} {
		if len(g.Accept) == 0 {
			r.Violate("C07.cap", fname, "eviction-guard-missing:"+g.Name, posOf(p, pop), "eviction is not guarded by "+g.Name)
			continue
		}
		okp, wit := ana.MustPass(hr, nil, g, target, nil, nil)
		if okp {
			r.Ok("C07.cap", fname, "eviction-guard:"+g.Name, posOf(p, pop), "heap.Pop (eviction) is reachable only through the edge where "+g.Name+" holds")
		} else {
			r.Violate("C07.cap", fname, "eviction-guard:"+g.Name, posOf(p, pop), "the least recently active client can be evicted on a path where "+g.Name+" was not established", wit...)
		}
	}
	// pop is on &tssQ and followed in its block by delete(tss, popped.key)
	okDel := false
	if ifaceOfGlobal(pop.Call.Args[0], tssQ) {
		blk := pop.Block()
		for i := instrIndex(pop) + 1; i < len(blk.Instrs); i++ {
			if d := isBuiltinCall(blk.Instrs[i], "delete"); d != nil && loadsGlobal(d.Call.Args[0], tss) {
				ch, root := fieldChain(d.Call.Args[1])
				if ta, ok := root.(*ssa.TypeAssert); ok && ta.X == ssa.Value(pop) && ch == "key" {
					okDel = true
				}
				break
			}
			if c, ok := blk.Instrs[i].(*ssa.Call); ok && strings.HasPrefix(ana.CalleeName(&c.Call), "container/heap.") {
				break
			}
		}
	}
	if okDel {
		r.Ok("C07.pair", fname, "pop-then-delete", posOf(p, pop), "heap.Pop(&tssQ) is followed in the same block by delete(tss, popped.key)")
	} else {
		r.Violate("C07.pair", fname, "pop-then-delete", posOf(p, pop), "the item popped from the queue is not deleted from the map by its own key in the same block (index and map diverge)")
	}
}

// isRxt64: the value is ntp.Time64FromTime(*rxt) (possibly through the retry-loop phi).
func isRxt64(v ssa.Value) bool {
	seen := map[ssa.Value]bool{}
	var rec func(v ssa.Value) bool
	rec = func(v ssa.Value) bool {
		if seen[v] {
			return true
		}
		seen[v] = true
		switch x := v.(type) {
		case *ssa.Phi:
			for _, e := range x.Edges {
				if !rec(e) {
					return false
				}
			}
			return true
		case *ssa.Call:
			if ana.CalleeName(&x.Call) != ana.Q("net/ntp.Time64FromTime") {
				return false
			}
			a := x.Call.Args[0]
			if u, ok := a.(*ssa.UnOp); ok && u.Op == token.MUL {
				if pr, ok := u.X.(*ssa.Parameter); ok && pr.Name() == "rxt" {
					return true
				}
			}
			if pr, ok := a.(*ssa.Parameter); ok && pr.Name() == "rxt" {
				return true
			}
		}
		return false
	}
	return rec(v)
}

func c07Pair(p *ana.Prog, r *ana.Result, hr, ut *ssa.Function, tss, tssQ *ssa.Global) {
	// insert <-> push
	for _, fn := range []*ssa.Function{hr, ut} {
		fname := ana.FuncName(fn)
		ana.Instrs(fn, func(in ssa.Instruction) {
			switch x := in.(type) {
			case *ssa.MapUpdate:
				if !loadsGlobal(x.Map, tss) {
					return
				}
				item := x.Value
				blk := x.Block()
				pushed, qvalSet := false, false
				// the key the heap orders by is this request's receive timestamp when the item is
				// pushed: the last store to item.qval in front of the push (in the composite literal,
				// or between insert and push) is rxt64
				for i := 0; i < len(blk.Instrs); i++ {
					if st, ok := blk.Instrs[i].(*ssa.Store); ok {
						ch, root := fieldChain(st.Addr)
						if ch == "qval" && root == item {
							qvalSet = isRxt64(st.Val)
						}
					}
					if i <= instrIndex(x) {
						continue
					}
					if c, ok := blk.Instrs[i].(*ssa.Call); ok && strings.HasPrefix(ana.CalleeName(&c.Call), "container/heap.") {
						if ana.CalleeName(&c.Call) == "container/heap.Push" && ifaceOfGlobal(c.Call.Args[0], tssQ) {
							if mi, ok := c.Call.Args[1].(*ssa.MakeInterface); ok && mi.X == item {
								pushed = true
							}
						}
						break
					}
				}
				// key: the item's key field (stored from clientID) or clientID itself
				keyOK := false
				if pr, ok := x.Key.(*ssa.Parameter); ok && pr.Name() == "clientID" {
					keyOK = true
				}
				if ch, root := fieldChain(x.Key); ch == "key" && root == item {
					// item.key must have been stored from clientID
					ana.Instrs(fn, func(j ssa.Instruction) {
						if st, ok := j.(*ssa.Store); ok {
							c2, r2 := fieldChain(st.Addr)
							if c2 == "key" && r2 == item {
								if pr, ok := st.Val.(*ssa.Parameter); ok && pr.Name() == "clientID" {
									keyOK = true
								}
							}
						}
					})
				}
				if pushed && qvalSet && keyOK {
					r.Ok("C07.pair", fname, "insert-then-push", posOf(p, in), "tss[clientID] = item; item.qval = rxt64; heap.Push(&tssQ, item) in one block")
				} else {
					r.Violate("C07.pair", fname, "insert-then-push", posOf(p, in), fmt.Sprintf("map insert is not paired with qval=rxt64 and heap.Push of the same item under the client's id (pushed=%v qval=%v key=%v)", pushed, qvalSet, keyOK))
				}
			case *ssa.Call:
				if d := isBuiltinCall(x, "delete"); d != nil && loadsGlobal(d.Call.Args[0], tss) {
					// preceded in block by heap.Pop or heap.Remove on the same item
					blk := x.Block()
					ch, root := fieldChain(d.Call.Args[1])
					okPair := false
					for i := instrIndex(x) - 1; i >= 0; i-- {
						c, ok := blk.Instrs[i].(*ssa.Call)
						if !ok || !strings.HasPrefix(ana.CalleeName(&c.Call), "container/heap.") {
							continue
						}
						switch ana.CalleeName(&c.Call) {
						case "container/heap.Pop":
							if ta, ok := root.(*ssa.TypeAssert); ok && ta.X == ssa.Value(c) && ch == "key" {
								okPair = true
							}
						case "container/heap.Remove":
							c2, r2 := fieldChain(c.Call.Args[1])
							if c2 == "qidx" && r2 == root && ch == "key" && ifaceOfGlobal(c.Call.Args[0], tssQ) {
								okPair = true
							}
						}
						break
					}
					if okPair {
						r.Ok("C07.pair", fname, "delete-with-heap-removal", posOf(p, in), "delete(tss, item.key) is preceded in its block by heap.Pop/heap.Remove of the same item")
					} else {
						r.Violate("C07.pair", fname, "delete-with-heap-removal", posOf(p, in), "a client is deleted from the map without removing the same item from the activity queue")
					}
				}
			case *ssa.Store:
				ch, root := fieldChain(x.Addr)
				if ch != "qval" || typeNameOf(root.Type()) != "tssItem" {
					return
				}
				if _, fresh := root.(*ssa.Alloc); fresh {
					return // item not yet queued (insert-then-push covers it)
				}
				blk := x.Block()
				fixed := false
				for i := instrIndex(x) + 1; i < len(blk.Instrs); i++ {
					if c, ok := blk.Instrs[i].(*ssa.Call); ok && strings.HasPrefix(ana.CalleeName(&c.Call), "container/heap.") {
						if ana.CalleeName(&c.Call) == "container/heap.Fix" && ifaceOfGlobal(c.Call.Args[0], tssQ) {
							c2, r2 := fieldChain(c.Call.Args[1])
							if c2 == "qidx" && r2 == root {
								fixed = true
							}
						}
						break
					}
				}
				if fixed {
					r.Ok("C07.pair", fname, "qval-then-fix:"+qvalDesc(x.Val), posOf(p, in), "item.qval store is followed by heap.Fix(&tssQ, item.qidx) before any other heap call")
				} else {
					r.Violate("C07.pair", fname, "qval-then-fix:"+qvalDesc(x.Val), posOf(p, in), "the activity key of a queued client is changed without heap.Fix of that client (queue no longer a valid priority order)")
				}
			}
		})
	}
	c07QvalArms(p, r, hr, ut)
}

func qvalDesc(v ssa.Value) string {
	if isRxt64(v) {
		return "rxt64"
	}
	ch, _ := fieldChain(v)
	if ch != "" {
		return ch
	}
	return "other"
}

// c07QvalArms: the value and guard of each qval update.
func c07QvalArms(p *ana.Prog, r *ana.Result, hr, ut *ssa.Function) {
	hname := ana.FuncName(hr)
	// handleRequest: qval <- rxt64 under rxt64.After(tssi.buf[max].rxt), decided before any buffer store
	var guardIf *ssa.If
	var guardCall *ssa.Call
	ana.IfEdges(hr, func(iff *ssa.If, b *ssa.BasicBlock) {
		for _, a := range ana.Implied(iff.Cond, true) {
			earlier, later, c, ok := strictOrder(a.V)
			if !ok || !a.Holds {
				continue
			}
			ch, root := fieldChain(earlier)
			if isRxt64(later) && ch == "buf[].rxt" && typeNameOf(root.Type()) == "tssItem" {
				guardIf = iff
				guardCall = c
			}
		}
	})
	var qvalStore *ssa.Store
	ana.Instrs(hr, func(in ssa.Instruction) {
		if st, ok := in.(*ssa.Store); ok {
			ch, root := fieldChain(st.Addr)
			if _, fresh := root.(*ssa.Alloc); ch == "qval" && !fresh {
				qvalStore = st
			}
		}
	})
	if guardIf == nil || qvalStore == nil {
		r.Violate("C07.pair", hname, "new-maximum-arm", p.Pos(hr.Pos()), "the arm `if rxt64.After(tssi.buf[max].rxt) { tssi.qval = rxt64; heap.Fix }` was not found: a client's rank is not advanced when it becomes more recently active")
	} else {
		okv := isRxt64(qvalStore.Val) && guardIf.Block().Succs[0].Dominates(qvalStore.Block())
		// max index must be the maximum found by the scan: index value is a phi named by the scan; checked structurally: index is not a constant
		if okv {
			r.Ok("C07.pair", hname, "new-maximum-arm", posOf(p, qvalStore), "tssi.qval <- rxt64 only under rxt64.After(tssi.buf[max].rxt)")
		} else {
			r.Violate("C07.pair", hname, "new-maximum-arm", posOf(p, qvalStore), "the queued activity key is not set to the new receive timestamp under the new-maximum test")
		}
		// ordering: no store into buf[] may reach the guard (decision on the pre-update buffer)
		bad := false
		var wit []string
		ana.Instrs(hr, func(in ssa.Instruction) {
			st, ok := in.(*ssa.Store)
			if !ok || bad {
				return
			}
			ch, root := fieldChain(st.Addr)
			if !(strings.HasPrefix(ch, "buf[]") && typeNameOf(root.Type()) == "tssItem") {
				return
			}
			s := &ana.Search{Fn: hr, Target: func(x ssa.Instruction) bool { return x == ssa.Instruction(guardCall) }}
			if found, w := s.Run(st); found {
				bad = true
				wit = w
			}
		})
		if bad {
			r.Violate("C07.pair", hname, "rank-decision-before-buffer-update", posOf(p, guardCall), "the new-maximum test reads tssi.buf after this request's timestamps were written into it: the comparison can never be true for the slot just written, so an active client's rank stops advancing", wit...)
		} else {
			r.Ok("C07.pair", hname, "rank-decision-before-buffer-update", posOf(p, guardCall), "no store into tssi.buf can reach the new-maximum test (rank decided on the pre-update buffer)")
		}
		// the test must be evaluated on every path on which a buffer store happens for a known item with max != -1:
		// every path from entry to a buf[].rxt store passes the guard's block or the `max == -1` edge
		nStores := 0
		ana.Instrs(hr, func(in ssa.Instruction) {
			st, ok := in.(*ssa.Store)
			if !ok {
				return
			}
			ch, root := fieldChain(st.Addr)
			if ch != "buf[].rxt" || typeNameOf(root.Type()) != "tssItem" {
				return
			}
			nStores++
			s := &ana.Search{Fn: hr, Stop: func(x ssa.Instruction) bool { return x == ssa.Instruction(guardCall) }, Target: func(x ssa.Instruction) bool { return x == in },
				Cut: func(e ana.Edge) bool { return isMaxUnsetEdge(e, guardIf) }}
			if found, w := s.Run(nil); found {
				r.Violate("C07.pair", hname, "rank-test-skipped:"+ana.AccessPath(st.Addr), posOf(p, st), "a receive timestamp is stored for a client without evaluating the new-maximum test first", w...)
			} else {
				r.Ok("C07.pair", hname, "rank-test-on-path:"+ana.AccessPath(st.Addr), posOf(p, st), "every path to this buffer store evaluates the new-maximum test (or has no stored exchange yet)")
			}
		})
		r.Floor("C07.pair.buffer-stores", nStores, 3)
	}
	// updateTXTimestamp: qval <- buf[max1].rxt under buf[max0].rxt == rxt64
	uname := ana.FuncName(ut)
	var st2 *ssa.Store
	ana.Instrs(ut, func(in ssa.Instruction) {
		if st, ok := in.(*ssa.Store); ok {
			ch, _ := fieldChain(st.Addr)
			if ch == "qval" {
				st2 = st
			}
		}
	})
	if st2 == nil {
		r.Violate("C07.pair", uname, "maximum-removed-arm", p.Pos(ut.Pos()), "no qval update in updateTXTimestamp: removing a client's most recent exchange leaves it ranked too young")
		return
	}
	chv, _ := fieldChain(st2.Val)
	guardOK := false
	ana.IfEdges(ut, func(iff *ssa.If, b *ssa.BasicBlock) {
		c, pos, isCmp := ana.AsCmp(iff.Cond)
		if !isCmp || c.Op != token.EQL || !pos {
			return
		}
		for _, c := range []ana.Cmp{c, c.Mirror()} {
			chx, _ := fieldChain(c.X)
			if chx == "buf[].rxt" && isRxt64Local(c.Y) && b.Succs[0].Dominates(st2.Block()) {
				// index of the compared element differs from the index of the new qval element
				if indexOfAddrVal(c.X) != indexOfAddrVal(st2.Val) {
					guardOK = true
				}
			}
		}
	})
	if chv == "buf[].rxt" && guardOK {
		r.Ok("C07.pair", uname, "maximum-removed-arm", posOf(p, st2), "tssi.qval <- tssi.buf[max1].rxt only under tssi.buf[max0].rxt == rxt64")
	} else {
		r.Violate("C07.pair", uname, "maximum-removed-arm", posOf(p, st2), "when the most recent exchange is removed the activity key is not reset to the second most recent receive timestamp under the `removed one was the maximum` test")
	}
}

func isMaxUnsetEdge(e ana.Edge, guardIf *ssa.If) bool {
	// the edge `max != -1` false (max == -1) leading around the guard: the If block that branches to the guard's block
	b := e.From
	n := len(b.Instrs)
	iff, ok := b.Instrs[n-1].(*ssa.If)
	if !ok {
		return false
	}
	c, pos, isCmp := ana.AsCmp(iff.Cond)
	if !isCmp {
		return false
	}
	k, ok := ana.ConstInt(c.Y)
	if !ok || k != -1 {
		return false
	}
	if _, isPhi := c.X.(*ssa.Phi); !isPhi {
		return false
	}
	// this If must lead directly to the guard block on its other edge
	other := 1 - e.Succ
	if b.Succs[other] != guardIf.Block() {
		return false
	}
	// the cut edge is the one where max == -1
	eq := (c.Op == token.EQL) == pos
	if e.Succ == 0 {
		return eq
	}
	return !eq
}

func isRxt64Local(v ssa.Value) bool {
	c, _ := ana.CallOf(v)
	if c == nil || ana.CalleeName(c.Common()) != ana.Q("net/ntp.Time64FromTime") {
		return false
	}
	pr, ok := c.Common().Args[0].(*ssa.Parameter)
	return ok && pr.Name() == "rxt"
}

func indexOfAddrVal(v ssa.Value) ssa.Value {
	if u, ok := v.(*ssa.UnOp); ok {
		return indexOfAddr(u.X)
	}
	return indexOfAddr(v)
}

func c07HeapMethods(p *ana.Prog, r *ana.Result) {
	less := mustFunc(p, r, "core/server", "(tssQueue).Less")
	swap := mustFunc(p, r, "core/server", "(tssQueue).Swap")
	push := mustFunc(p, r, "core/server", "(*tssQueue).Push")
	pop := mustFunc(p, r, "core/server", "(*tssQueue).Pop")
	ln := mustFunc(p, r, "core/server", "(tssQueue).Len")
	if less == nil || swap == nil || push == nil || pop == nil || ln == nil {
		return
	}
	// Less: return q[i].qval.Before(q[j].qval)
	okLess := false
	if len(less.Blocks) == 1 {
		ret, _ := less.Blocks[0].Instrs[len(less.Blocks[0].Instrs)-1].(*ssa.Return)
		if ret != nil && len(ret.Results) == 1 {
			if earlier, later, _, ok := strictOrder(ret.Results[0]); ok {
				c0, _ := fieldChain(earlier)
				c1, _ := fieldChain(later)
				i0, i1 := indexOfAddrVal(earlier), indexOfAddrVal(later)
				pi, _ := i0.(*ssa.Parameter)
				pj, _ := i1.(*ssa.Parameter)
				if c0 == "[].qval" || c0 == "qval" {
					if c1 == c0 && pi != nil && pj != nil && pi == less.Params[1] && pj == less.Params[2] {
						okLess = true
					}
				}
			}
		}
	}
	if okLess {
		r.Ok("C07.pair", ana.FuncName(less), "less-by-qval", p.Pos(less.Pos()), "Less(i,j) = q[i].qval.Before(q[j].qval): minimum = least recently active")
	} else {
		r.Violate("C07.pair", ana.FuncName(less), "less-by-qval", p.Pos(less.Pos()), "the queue is not ordered by qval ascending (least recently active first)")
	}
	// Swap: after swapping, q[i].qidx = i and q[j].qidx = j
	idxStores := map[string]bool{}
	elemStores := 0
	ana.Instrs(swap, func(in ssa.Instruction) {
		st, ok := in.(*ssa.Store)
		if !ok {
			return
		}
		ch, _ := fieldChain(st.Addr)
		if ch == "[].qidx" && elemStores == 2 {
			// q[x].qidx = x, after both element stores
			if idx := indexOfAddr(st.Addr); idx != nil && idx == st.Val {
				if pr, ok := st.Val.(*ssa.Parameter); ok {
					idxStores[pr.Name()] = true
				}
			}
		}
		if _, ok := st.Addr.(*ssa.IndexAddr); ok {
			elemStores++
		}
	})
	if len(idxStores) == 2 && elemStores == 2 {
		r.Ok("C07.pair", ana.FuncName(swap), "swap-backpointers", p.Pos(swap.Pos()), "Swap exchanges q[i], q[j] and stores q[i].qidx = i, q[j].qidx = j")
	} else {
		r.Violate("C07.pair", ana.FuncName(swap), "swap-backpointers", p.Pos(swap.Pos()), "Swap does not maintain both back-pointers qidx (heap.Fix/Remove would act on the wrong element)")
	}
	// Push: qidx = len(*q) before append
	okPush := false
	ana.Instrs(push, func(in ssa.Instruction) {
		if st, ok := in.(*ssa.Store); ok {
			if ch, _ := fieldChain(st.Addr); ch == "qidx" && isLenOf(st.Val) {
				okPush = true
			}
		}
	})
	nAppend := len(ana.CallsIn(push, "builtin.append"))
	if okPush && nAppend == 1 {
		r.Ok("C07.pair", ana.FuncName(push), "push-backpointer", p.Pos(push.Pos()), "Push stores qidx = len(*q) and appends")
	} else {
		r.Violate("C07.pair", ana.FuncName(push), "push-backpointer", p.Pos(push.Pos()), "Push does not record the element's index before appending")
	}
	// Pop: returns (*q)[n-1] and reslices to n-1
	okPop := false
	ana.Instrs(pop, func(in ssa.Instruction) {
		if sl, ok := in.(*ssa.Slice); ok {
			if bo, ok := sl.High.(*ssa.BinOp); ok && bo.Op == token.SUB {
				if k, _ := ana.ConstInt(bo.Y); k == 1 && isLenOf(bo.X) {
					okPop = true
				}
			}
		}
	})
	if okPop {
		r.Ok("C07.pair", ana.FuncName(pop), "pop-last", p.Pos(pop.Pos()), "Pop removes and returns the last element")
	} else {
		r.Violate("C07.pair", ana.FuncName(pop), "pop-last", p.Pos(pop.Pos()), "Pop does not shrink the queue by its last element")
	}
}

// c07ArgExtreme: a slot index that tracks an extreme element of a client's
// buffer (min/max/second max) is updated to the scan index i only under a
// comparison of element i with the element the tracker itself currently points
// to. Comparing against a different tracker makes the tracked slot - and the
// queue rank derived from it - wrong.
func c07ArgExtreme(p *ana.Prog, r *ana.Result, fn *ssa.Function) {
	fname := ana.FuncName(fn)
	cd := ana.ControlDeps(fn)
	isOrderCall := func(c *ssa.Call) bool {
		n := ana.CalleeName(&c.Call)
		return n == ana.Q("(net/ntp.Time64).Before") || n == ana.Q("(net/ntp.Time64).After")
	}
	// order calls inside a condition value
	var callsIn func(v ssa.Value, seen map[ssa.Value]bool, out *[]*ssa.Call)
	callsIn = func(v ssa.Value, seen map[ssa.Value]bool, out *[]*ssa.Call) {
		if v == nil || seen[v] {
			return
		}
		seen[v] = true
		switch x := v.(type) {
		case *ssa.UnOp:
			callsIn(x.X, seen, out)
		case *ssa.Phi:
			for _, e := range x.Edges {
				callsIn(e, seen, out)
			}
		case *ssa.Call:
			if isOrderCall(x) {
				*out = append(*out, x)
			}
		}
	}
	found := 0
	for _, b := range fn.Blocks {
		// loop headers
		isHeader := false
		for _, pr := range b.Preds {
			if b.Dominates(pr) {
				isHeader = true
			}
		}
		if !isHeader {
			continue
		}
		// the scan index: a header phi whose back-edge value is itself + 1
		var idx *ssa.Phi
		for _, in := range b.Instrs {
			ph, ok := in.(*ssa.Phi)
			if !ok {
				break
			}
			for i, e := range ph.Edges {
				if !b.Dominates(b.Preds[i]) {
					continue
				}
				if bo, ok := e.(*ssa.BinOp); ok && bo.Op == token.ADD && bo.X == ssa.Value(ph) {
					if k, ok := ana.ConstInt(bo.Y); ok && k == 1 {
						idx = ph
					}
				}
			}
		}
		if idx == nil {
			continue
		}
		for _, in := range b.Instrs {
			m, ok := in.(*ssa.Phi)
			if !ok {
				break
			}
			if m == idx {
				continue
			}
			if bt, ok := m.Type().Underlying().(*types.Basic); !ok || bt.Info()&types.IsInteger == 0 {
				continue
			}
			// leaves (value, block it comes from) of the tracker's back-edge values
			type leaf struct {
				v    ssa.Value
				from *ssa.BasicBlock
			}
			var leaves []leaf
			seen := map[*ssa.Phi]bool{}
			var expand func(v ssa.Value, from *ssa.BasicBlock)
			expand = func(v ssa.Value, from *ssa.BasicBlock) {
				if ph, ok := v.(*ssa.Phi); ok && ph.Block() != b {
					if seen[ph] {
						return
					}
					seen[ph] = true
					for i, e := range ph.Edges {
						expand(e, ph.Block().Preds[i])
					}
					return
				}
				leaves = append(leaves, leaf{v, from})
			}
			for i, e := range m.Edges {
				if b.Dominates(b.Preds[i]) {
					expand(e, b.Preds[i])
				}
			}
			for _, lf := range leaves {
				if lf.v != ssa.Value(idx) {
					continue
				}
				// the assignment m = i happens on the way into lf.from: its controlling conditions
				var calls []*ssa.Call
				for _, e := range cd.Direct(lf.from) {
					if iff, ok := e.From.Instrs[len(e.From.Instrs)-1].(*ssa.If); ok {
						callsIn(iff.Cond, map[ssa.Value]bool{}, &calls)
					}
				}
				if len(calls) == 0 {
					continue // not an order-based tracker (e.g. o = i under an equality)
				}
				found++
				name := m.Comment
				okAll := true
				why := ""
				for _, c := range calls {
					i0 := indexOfAddrVal(c.Call.Args[0])
					i1 := indexOfAddrVal(c.Call.Args[1])
					pair := map[ssa.Value]bool{i0: true, i1: true}
					if !(pair[ssa.Value(idx)] && pair[ssa.Value(m)]) || i0 == i1 {
						okAll = false
						why = fmt.Sprintf("the guard compares buf[%s] with buf[%s]", ana.ValueString(i0), ana.ValueString(i1))
					}
				}
				key := "tracker-compares-with-itself:" + name
				if okAll {
					r.Ok("C07.pair", fname, key, posOf(p, calls[0]), "slot tracker `"+name+"` moves to the scan index only when element i compares against the element it currently tracks")
				} else {
					r.Violate("C07.pair", fname, key, posOf(p, calls[0]), "slot tracker `"+name+"` is moved to the scan index under a comparison that does not involve the slot it tracks ("+why+"): the slot it ends on is not the extreme it is used as, so the client's queue rank (qval) is set from the wrong exchange")
				}
			}
		}
	}
	r.Floor("C07.pair.trackers."+fn.Name(), found, 2)
}
