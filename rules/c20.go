package rules

import (
	"fmt"
	"go/token"
	"strings"

	"golang.org/x/tools/go/ssa"

	"verif/internal/ana"
)

func init() { All["C20"] = checkC20 }

func checkC20(p *ana.Prog, r *ana.Result) {
	r.Explain("C20 (structural necessary conditions): dialTLS hands out a connection only through NegotiatedProtocol == \"ntske/1\" and both dial functions offer exactly that ALPN; Fetcher.exchangeKeys returns nil only through dial==nil, exchangeData*==nil, ExportKeys==nil, len(cookies)!=0 and algorithm==AES-SIV-CMAC-256; ReadData returns nil only at end-of-message, its error-record arm always fails, its unknown-record arm fails whenever the critical bit (read before it is masked off) was set and otherwise consumes exactly BodyLen bytes; ExportKeyingMaterial is called only by ntske.ExportKeys with the RFC 8915 label, fresh constant contexts (...,0x0f,0x01 -> S2C, ...,0x0f,0x00 -> C2S) and length 32, and client and servers call ExportKeys on the connection state of the session the records were exchanged on; the defaults returned by dialTLS/dialQUIC (peer host, standard port) replace the fetcher's data before records are read (so nothing of an earlier exchange survives); every failure of an exchange clears the fetcher's cookie pool; an exchange is started only when the pool is empty; the clients send to the server/port of the fetched data; the server's message is NextProto, Algorithm, Server, Port, 8 cookies sealed under provider.Current(), End. ReadData returns nil only from the End-of-Message arm (shared with C14).")
	r.Undecided("TLS itself, certificate validation, the exporter's values, truncation at every byte offset (covered only as: every read error propagates)")
	c20Dial(p, r)
	c20Exchange(p, r)
	c20ReadData(p, r)
	c20Export(p, r)
	c20Clients(p, r)
	c20ServerMsg(p, r)
}

func c20Dial(p *ana.Prog, r *ana.Result) {
	for _, name := range []string{"dialTLS", "dialQUIC"} {
		fn := mustFunc(p, r, "net/ntske", name)
		if fn == nil {
			continue
		}
		fname := ana.FuncName(fn)
		// config.NextProtos = []string{alpn}: a store to config.NextProtos of a 1-element slice holding "ntske/1"
		ok := false
		ana.Instrs(fn, func(in ssa.Instruction) {
			st, isSt := in.(*ssa.Store)
			if !isSt || ana.AccessPath(st.Addr) != "config.NextProtos" {
				return
			}
			sl, isSl := st.Val.(*ssa.Slice)
			if !isSl {
				return
			}
			arr, isA := sl.X.(*ssa.Alloc)
			if !isA {
				return
			}
			n, good := 0, true
			for _, ref := range ana.Referrers(arr) {
				if ia, isIA := ref.(*ssa.IndexAddr); isIA {
					for _, r2 := range ana.Referrers(ia) {
						if es, isES := r2.(*ssa.Store); isES {
							n++
							if c, isC := es.Val.(*ssa.Const); !isC || c.Value == nil || c.Value.ExactString() != "\"ntske/1\"" {
								good = false
							}
						}
					}
				}
			}
			if n == 1 && good {
				ok = true
			}
		})
		if ok {
			r.Ok("C20.gates", fname, "alpn-offered", p.Pos(fn.Pos()), "config.NextProtos = [\"ntske/1\"] (the only protocol offered)")
		} else {
			r.Violate("C20.gates", fname, "alpn-offered", p.Pos(fn.Pos()), "the dial function does not restrict the offered application protocols to exactly \"ntske/1\"")
		}
	}
	fn := mustFunc(p, r, "net/ntske", "dialTLS")
	if fn == nil {
		return
	}
	rets := ana.ClassifyReturns(fn)
	g := ana.FindGate(p, fn, "NegotiatedProtocol==alpn", func(c ana.Cmp, isCmp bool, _ ssa.Value) (bool, bool) {
		if !isCmp || (c.Op != token.EQL && c.Op != token.NEQ) {
			return false, false
		}
		for _, pr := range [][2]ssa.Value{{c.X, c.Y}, {c.Y, c.X}} {
			k, isC := pr[1].(*ssa.Const)
			if isC && k.Value != nil && k.Value.ExactString() == "\"ntske/1\"" && strings.HasSuffix(ana.AccessPath(pr[0]), ".NegotiatedProtocol") {
				return true, c.Op == token.EQL
			}
		}
		return false, false
	})
	checkGates(p, r, "C20.gates", fn, nil, isSuccessTarget(rets), nil, "success-return", []gateSpec{
		{name: "NegotiatedProtocol==ntske/1", gate: g},
		{name: "tls.DialWithDialer==nil", gate: ana.ErrNilGate(p, fn, "crypto/tls.DialWithDialer")},
	})
}

// isFetcherData: address/path is f.data or below.
func isFetcherDataPath(pth string) bool {
	return pth == "f.data" || strings.HasPrefix(pth, "f.data.")
}

func c20Exchange(p *ana.Prog, r *ana.Result) {
	ex := mustFunc(p, r, "net/ntske", "(*Fetcher).exchangeKeys")
	fd := mustFunc(p, r, "net/ntske", "(*Fetcher).FetchData")
	if ex == nil || fd == nil {
		return
	}
	ename := ana.FuncName(ex)
	rets := ana.ClassifyReturns(ex)
	target := isSuccessTarget(rets)
	k1, v1 := ana.ClassFact("f.QUIC.Enabled", true)
	k0, v0 := ana.ClassFact("f.QUIC.Enabled", false)
	quic := map[string]string{k1: v1}
	tls := map[string]string{k0: v0}
	cookieGate := ana.FindGate(p, ex, "len(f.data.Cookie)!=0", func(c ana.Cmp, isCmp bool, _ ssa.Value) (bool, bool) {
		if !isCmp || !isLenOf(c.X) {
			return false, false
		}
		call, _ := ana.CallOf(c.X)
		if ana.AccessPath(call.Common().Args[0]) != "f.data.Cookie" {
			return false, false
		}
		k, ok := ana.ConstInt(c.Y)
		if !ok || k != 0 {
			return false, false
		}
		switch c.Op {
		case token.EQL:
			return true, false
		case token.NEQ, token.GTR:
			return true, true
		}
		return false, false
	})
	algoGate := ana.FindGate(p, ex, "f.data.Algo==0x0f", func(c ana.Cmp, isCmp bool, _ ssa.Value) (bool, bool) {
		if !isCmp || (c.Op != token.EQL && c.Op != token.NEQ) {
			return false, false
		}
		if ana.AccessPath(ana.StripConv(c.X)) != "f.data.Algo" {
			return false, false
		}
		k, ok := ana.ConstInt(c.Y)
		if !ok || k != 0x0f {
			return false, false
		}
		return true, c.Op == token.EQL
	})
	checkGates(p, r, "C20.gates", ex, nil, target, nil, "success-return", []gateSpec{
		{name: "cookies-not-empty", gate: cookieGate},
		{name: "algorithm==AES_SIV_CMAC_256", gate: algoGate},
		{name: "ExportKeys==nil", gate: ana.ErrNilGate(p, ex, ana.Q("net/ntske.ExportKeys")), min: 2},
		{name: "[QUIC] dialQUIC==nil", gate: ana.ErrNilGate(p, ex, ana.Q("net/ntske.dialQUIC")), assume: quic},
		{name: "[QUIC] exchangeDataQUIC==nil", gate: ana.ErrNilGate(p, ex, ana.Q("net/ntske.exchangeDataQUIC")), assume: quic},
		{name: "[TLS] dialTLS==nil", gate: ana.ErrNilGate(p, ex, ana.Q("net/ntske.dialTLS")), assume: tls},
		{name: "[TLS] exchangeDataTLS==nil", gate: ana.ErrNilGate(p, ex, ana.Q("net/ntske.exchangeDataTLS")), assume: tls},
	})
	// (c) defaults kept: the Data result (#1) of each dial is stored to f.data before the exchange call
	for _, d := range []struct{ dial, exch string }{{"dialTLS", "exchangeDataTLS"}, {"dialQUIC", "exchangeDataQUIC"}} {
		dcs := ana.CallsIn(ex, ana.Q("net/ntske."+d.dial))
		ecs := ana.CallsIn(ex, ana.Q("net/ntske."+d.exch))
		if len(dcs) != 1 || len(ecs) != 1 {
			r.Violate("C20.defaults", ename, "call-sites:"+d.dial, p.Pos(ex.Pos()), fmt.Sprintf("expected one %s and one %s call, found %d/%d", d.dial, d.exch, len(dcs), len(ecs)))
			continue
		}
		dc := dcs[0].(*ssa.Call)
		dataRes := extractOf(dc, 1)
		var storeIn ssa.Instruction
		if dataRes != nil {
			for _, ref := range ana.Referrers(dataRes) {
				if st, ok := ref.(*ssa.Store); ok && st.Val == ssa.Value(dataRes) && ana.AccessPath(st.Addr) == "f.data" {
					storeIn = st
				}
			}
		}
		if storeIn == nil {
			r.Violate("C20.defaults", ename, "dial-data-discarded:"+d.dial, posOf(p, dc),
				"the Data returned by "+d.dial+" (default server = key-exchange host, default port) is not stored into f.data: data of an earlier exchange (algorithm, server, port, keys) survives into this one and the defaults are lost when the peer omits the Server/Port records")
			continue
		}
		// the store happens on every path from the dial to the exchange call
		s := &ana.Search{Fn: ex, Stop: func(in ssa.Instruction) bool { return in == storeIn }, Target: func(in ssa.Instruction) bool { return in == ecs[0].(ssa.Instruction) }}
		if found, w := s.Run(dc); found {
			r.Violate("C20.defaults", ename, "dial-data-not-always-stored:"+d.dial, posOf(p, dc), "records can be read into f.data without first replacing it by the dial's defaults", w...)
		} else {
			r.Ok("C20.defaults", ename, "dial-data-stored:"+d.dial, posOf(p, storeIn), "f.data is replaced by the Data returned by "+d.dial+" before "+d.exch+" reads records into it")
		}
		// exchange reads into &f.data and ExportKeys writes &f.data
		if ana.AccessPath(ecs[0].Common().Args[len(ecs[0].Common().Args)-1]) != "f.data" {
			r.Violate("C20.defaults", ename, "exchange-target:"+d.exch, posOf(p, ecs[0]), d.exch+" does not fill f.data")
		}
	}
	// (d) failure leaves nothing behind
	c20FailureReset(p, r, ex, fd)
	// (e) exchangeKeys only from FetchData under len(f.data.Cookie)==0
	nCalls := 0
	for _, fn := range p.AllFuncs {
		for _, c := range ana.CallsIn(fn, ana.Q("(*net/ntske.Fetcher).exchangeKeys")) {
			nCalls++
			if fn != fd {
				r.Violate("C20.rekey", ana.FuncName(fn), "exchangeKeys-caller", posOf(p, c), "exchangeKeys is called outside FetchData")
				continue
			}
			empty := ana.FindGate(p, fd, "len(f.data.Cookie)==0", func(cc ana.Cmp, isCmp bool, _ ssa.Value) (bool, bool) {
				if !isCmp || !isLenOf(cc.X) {
					return false, false
				}
				call, _ := ana.CallOf(cc.X)
				if ana.AccessPath(call.Common().Args[0]) != "f.data.Cookie" {
					return false, false
				}
				k, ok := ana.ConstInt(cc.Y)
				if !ok || k != 0 {
					return false, false
				}
				switch cc.Op {
				case token.EQL:
					return true, true
				case token.NEQ, token.GTR:
					return true, false
				}
				return false, false
			})
			okp, w := ana.MustPass(fd, nil, empty, func(in ssa.Instruction) bool { return in == c.(ssa.Instruction) }, nil, nil)
			if okp && len(empty.Accept) > 0 {
				r.Ok("C20.rekey", ana.FuncName(fd), "rekey-only-when-empty", posOf(p, c), "exchangeKeys is reached only on the edge len(f.data.Cookie) == 0")
			} else {
				r.Violate("C20.rekey", ana.FuncName(fd), "rekey-only-when-empty", posOf(p, c), "a key exchange can be started while cookies are still pooled (or the emptiness test is missing)", w...)
			}
		}
	}
	r.Floor("C20.rekey.calls", nCalls, 1)
	// FetchData's success return passes exchangeKeys==nil when the pool was empty: covered by return classification
	frets := ana.ClassifyReturns(fd)
	checkGates(p, r, "C20.gates", fd, nil, isSuccessTarget(frets), nil, "success-return", []gateSpec{
		{name: "exchangeKeys==nil-or-pool-not-empty", gate: ana.Union("x", ana.ErrNilGate(p, fd, ana.Q("(*net/ntske.Fetcher).exchangeKeys")), ana.FindGate(p, fd, "pool-not-empty", func(cc ana.Cmp, isCmp bool, _ ssa.Value) (bool, bool) {
			if !isCmp || !isLenOf(cc.X) {
				return false, false
			}
			call, _ := ana.CallOf(cc.X)
			if ana.AccessPath(call.Common().Args[0]) != "f.data.Cookie" {
				return false, false
			}
			k, ok := ana.ConstInt(cc.Y)
			if !ok || k != 0 {
				return false, false
			}
			switch cc.Op {
			case token.EQL:
				return true, false
			case token.NEQ, token.GTR:
				return true, true
			}
			return false, false
		}))},
	})
}

// c20FailureReset: every failure of an exchange clears the fetcher's pool.
func c20FailureReset(p *ana.Prog, r *ana.Result, ex, fd *ssa.Function) {
	isReset := func(in ssa.Instruction) bool {
		st, ok := in.(*ssa.Store)
		if !ok {
			return false
		}
		pth := ana.AccessPath(st.Addr)
		if pth != "f.data" && pth != "f.data.Cookie" {
			return false
		}
		// zero value: nil const, or a zero struct (const / load of a fresh zero alloc)
		if c, ok := st.Val.(*ssa.Const); ok && c.Value == nil {
			return true
		}
		if u, ok := st.Val.(*ssa.UnOp); ok && u.Op == token.MUL {
			if a, ok := u.X.(*ssa.Alloc); ok {
				// fresh local never stored to = zero value
				stored := false
				for _, ref := range ana.Referrers(a) {
					switch ref.(type) {
					case *ssa.Store, *ssa.FieldAddr, ssa.CallInstruction:
						if ref != ssa.Instruction(u) {
							stored = true
						}
					}
				}
				return !stored
			}
		}
		return false
	}
	// option 1: FetchData resets on the failure edge of exchangeKeys
	calls := ana.CallsIn(fd, ana.Q("(*net/ntske.Fetcher).exchangeKeys"))
	if len(calls) == 1 {
		frets := ana.ClassifyReturns(fd)
		fail := map[ssa.Instruction]bool{}
		for _, ri := range frets {
			if ri.Class == "failure" {
				fail[ri.Ret] = true
			}
		}
		s := &ana.Search{Fn: fd, Stop: isReset, Target: func(in ssa.Instruction) bool { return fail[in] }}
		if found, _ := s.Run(calls[0].(ssa.Instruction)); !found && len(fail) > 0 {
			r.Ok("C20.failure", ana.FuncName(fd), "failed-exchange-clears-state", posOf(p, calls[0]), "every failure return of FetchData after exchangeKeys passes a reset of f.data")
			return
		}
	}
	// option 2: exchangeKeys resets before every failure return that follows a write to f.data
	rets := ana.ClassifyReturns(ex)
	fail := map[ssa.Instruction]bool{}
	for _, ri := range rets {
		if ri.Class != "success" {
			fail[ri.Ret] = true
		}
	}
	isWrite := func(in ssa.Instruction) bool {
		switch x := in.(type) {
		case *ssa.Store:
			return isFetcherDataPath(ana.AccessPath(x.Addr)) && !isReset(in)
		case ssa.CallInstruction:
			for _, a := range x.Common().Args {
				if ana.AccessPath(a) == "f.data" {
					if _, isPtr := a.(*ssa.FieldAddr); isPtr {
						return true
					}
				}
			}
		}
		return false
	}
	bad := false
	var wit []string
	var at ssa.Instruction
	ana.Instrs(ex, func(in ssa.Instruction) {
		if bad || !isWrite(in) {
			return
		}
		s := &ana.Search{Fn: ex, Stop: isReset, Target: func(x ssa.Instruction) bool { return fail[x] }}
		if found, w := s.Run(in); found {
			bad, wit, at = true, w, in
		}
	})
	if bad {
		r.Violate("C20.failure", ana.FuncName(ex), "failed-exchange-leaves-state", posOf(p, at),
			"an exchange that fails after records were read into f.data (e.g. a cookie, then EOF / error record / unknown algorithm) returns an error without clearing f.data: the next FetchData sees a non-empty pool, skips the exchange and hands out cookies without (valid) keys", wit...)
	} else {
		r.Ok("C20.failure", ana.FuncName(ex), "failed-exchange-clears-state", p.Pos(ex.Pos()), "every failure return reachable after a write to f.data passes a reset of f.data")
	}
}

func c20ReadData(p *ana.Prog, r *ana.Result) {
	// success only at End of Message (rule shared with C14): a nil return from any other arm
	// accepts a stream whose remaining records - server, port, error, unknown critical - are never read
	{
		n0 := len(r.Obls)
		c14NTSKE(p, r)
		shareObls(p, r, n0, "C14.tags", "C20.readdata", "net/ntske.ReadData", "nil-return-")
	}
	fn := mustFunc(p, r, "net/ntske", "ReadData")
	if fn == nil {
		return
	}
	fname := ana.FuncName(fn)
	// critical bit: hasBit(msg.Type, 15) must read msg.Type before the mask store msg.Type &^= 0x8000
	var maskStore *ssa.Store
	ana.Instrs(fn, func(in ssa.Instruction) {
		if st, ok := in.(*ssa.Store); ok && isRecordHdrField(st.Addr, "Type") {
			if bo, ok := st.Val.(*ssa.BinOp); ok && (bo.Op == token.AND_NOT || bo.Op == token.AND) {
				maskStore = st
			}
		}
	})
	hb := ana.CallsIn(fn, ana.Q("net/ntske.hasBit"))
	if maskStore == nil && len(hb) == 1 {
		// the received type is never modified (the masked value lives in a local): the critical
		// flag only has to be bit 15 of the header field
		k, isK := ana.ConstInt(hb[0].Common().Args[1])
		_, isMasked := hb[0].Common().Args[0].(*ssa.BinOp)
		if isK && k == 15 && !isMasked && isRecordHdrField(hb[0].Common().Args[0], "Type") {
			r.Ok("C20.readdata", fname, "critical-bit-read-before-mask", posOf(p, hb[0]), "the critical flag is hasBit(msg.Type, 15) of the type as received (msg.Type is never modified)")
		} else {
			r.Violate("C20.readdata", fname, "critical-bit-read-before-mask", posOf(p, hb[0]), "the critical flag is not bit 15 of the record type as received: unrecognised critical records are silently ignored")
		}
	} else if maskStore == nil || len(hb) != 1 {
		r.Violate("C20.readdata", fname, "critical-bit-form", p.Pos(fn.Pos()), fmt.Sprintf("UNDECIDED: expected one hasBit(msg.Type, 15) call and one mask store on msg.Type (found %d / %v)", len(hb), maskStore != nil))
	} else {
		bitOK := false
		if k, ok := ana.ConstInt(hb[0].Common().Args[1]); ok && k == 15 {
			bitOK = true
		}
		argLoad, _ := hb[0].Common().Args[0].(*ssa.UnOp)
		s := &ana.Search{Fn: fn, Target: func(in ssa.Instruction) bool { return argLoad != nil && in == ssa.Instruction(argLoad) },
			Stop: func(in ssa.Instruction) bool {
				c, ok := in.(ssa.CallInstruction)
				return ok && ana.CalleeName(c.Common()) == "encoding/binary.Read" && isRecordHdrVar(ana.Strip(c.Common().Args[2]))
			}}
		found, w := s.Run(maskStore)
		if bitOK && argLoad != nil && !found {
			r.Ok("C20.readdata", fname, "critical-bit-read-before-mask", posOf(p, hb[0]), "the critical flag is hasBit(msg.Type, 15) of the type as received (the mask store cannot reach it within one record)")
		} else {
			r.Violate("C20.readdata", fname, "critical-bit-read-before-mask", posOf(p, hb[0]), "the critical bit is tested after it has been cleared from msg.Type (or not on bit 15): unrecognised critical records are silently ignored", w...)
		}
	}
	// default arm: from the header read, continuing to the next record on an unknown type requires critical == false
	// arms: msg.Type == K
	known := map[int64]bool{}
	var lastCmpBlock *ssa.BasicBlock
	ana.IfEdges(fn, func(iff *ssa.If, b *ssa.BasicBlock) {
		c, pos, isCmp := ana.AsCmp(iff.Cond)
		if !isCmp || c.Op != token.EQL || !pos || !isRecordHdrField(c.X, "Type") {
			return
		}
		if k, ok := ana.ConstInt(c.Y); ok {
			known[k] = true
			lastCmpBlock = b
		}
	})
	for _, k := range []int64{0, 1, 2, 4, 5, 6, 7} {
		if !known[k] {
			r.Violate("C20.readdata", fname, fmt.Sprintf("arm-missing:%d", k), p.Pos(fn.Pos()), fmt.Sprintf("ReadData has no arm for record type %d", k))
		}
	}
	if lastCmpBlock == nil {
		return
	}
	// default arm = false successor of the last comparison in the chain (the one whose false edge is not another comparison)
	var def *ssa.BasicBlock
	ana.IfEdges(fn, func(iff *ssa.If, b *ssa.BasicBlock) {
		c, pos, isCmp := ana.AsCmp(iff.Cond)
		if !isCmp || c.Op != token.EQL || !pos || !isRecordHdrField(c.X, "Type") {
			return
		}
		fs := b.Succs[1]
		isChain := false
		if n := len(fs.Instrs); n > 0 {
			if i2, ok := fs.Instrs[n-1].(*ssa.If); ok {
				c2, _, ok2 := ana.AsCmp(i2.Cond)
				if ok2 && isRecordHdrField(c2.X, "Type") {
					isChain = true
				}
			}
		}
		if !isChain {
			def = fs
		}
	})
	if def == nil {
		r.Violate("C20.readdata", fname, "default-arm", p.Pos(fn.Pos()), "UNDECIDED: default arm of the record switch not found")
		return
	}
	// from the default arm, reaching the next header read requires passing the edge critical == false
	hdrRead := func(in ssa.Instruction) bool {
		c, ok := in.(ssa.CallInstruction)
		return ok && ana.CalleeName(c.Common()) == "encoding/binary.Read" && isRecordHdrVar(ana.Strip(c.Common().Args[2]))
	}
	notCritical := ana.FindGate(p, fn, "critical==false", func(_ ana.Cmp, isCmp bool, v ssa.Value) (bool, bool) {
		if isCmp {
			return false, false
		}
		// the critical flag: a phi/const chain or the hasBit call result
		if c, _ := ana.CallOf(v); c != nil && ana.CalleeName(c.Common()) == ana.Q("net/ntske.hasBit") {
			return true, false
		}
		if ph, ok := v.(*ssa.Phi); ok {
			// phi [true from hasBit-true arm, false from else]
			all := true
			for _, e := range ph.Edges {
				if _, isC := ana.ConstBool(e); !isC {
					if c, _ := ana.CallOf(e); c == nil || ana.CalleeName(c.Common()) != ana.Q("net/ntske.hasBit") {
						all = false
					}
				}
			}
			if all && len(ph.Edges) >= 1 {
				return true, false
			}
		}
		return false, false
	})
	first := def.Instrs[0]
	s := &ana.Search{Fn: fn, Cut: func(e ana.Edge) bool { return notCritical.Accept[e] }, Target: hdrRead}
	// start "before" the first instruction of the default arm: emulate by searching from entry of that block
	found, w := runFromBlock(s, def)
	_ = first
	if len(notCritical.Accept) == 0 {
		r.Violate("C20.readdata", fname, "unknown-critical-fails", posOf(p, def.Instrs[0]), "the unknown-record arm does not test the critical flag")
	} else if found {
		r.Violate("C20.readdata", fname, "unknown-critical-fails", posOf(p, def.Instrs[0]), "an unrecognised record can be skipped without the critical flag having been tested false", w...)
	} else {
		r.Ok("C20.readdata", fname, "unknown-critical-fails", posOf(p, def.Instrs[0]), "from the unknown-record arm the next record is read only through the edge critical == false")
	}
	// the skip consumes exactly BodyLen bytes: make([]byte, msg.BodyLen) then binary.Read into it
	okSkip := false
	for _, b := range fn.Blocks {
		if !(b == def || def.Dominates(b)) {
			continue
		}
		for _, in := range b.Instrs {
			if c, ok := in.(*ssa.Call); ok && ana.CalleeName(&c.Call) == "(*bufio.Reader).Discard" && len(c.Call.Args) == 2 {
				// reader.Discard(BodyLen) with its error checked: exactly BodyLen bytes are skipped or the exchange fails
				if isRecordHdrField(ana.StripConv(c.Call.Args[1]), "BodyLen") && errResultUsed(c, 1) {
					okSkip = true
				}
			}
			if c, ok := in.(*ssa.Call); ok && (ana.CalleeName(&c.Call) == "encoding/binary.Read" || ana.CalleeName(&c.Call) == "io.ReadFull") {
				// find a MakeSlice with len msg.BodyLen feeding it
				ana.Instrs(fn, func(j ssa.Instruction) {
					if ms, ok := j.(*ssa.MakeSlice); ok && (ms.Block() == def || def.Dominates(ms.Block())) {
						if isRecordHdrField(ana.StripConv(ms.Len), "BodyLen") {
							okSkip = true
						}
					}
				})
			}
		}
	}
	if okSkip {
		r.Ok("C20.readdata", fname, "unknown-noncritical-skipped", posOf(p, def.Instrs[0]), "an unrecognised non-critical record is consumed with a full read of exactly msg.BodyLen bytes")
	} else {
		r.Violate("C20.readdata", fname, "unknown-noncritical-skipped", posOf(p, def.Instrs[0]), "an unrecognised non-critical record is not consumed by a full read of msg.BodyLen bytes")
	}
	// the cookie pool holds the cookies issued: every cookie appended to data.Cookie is a buffer
	// allocated for that record (no shared scratch buffer that a later record overwrites)
	nApp := 0
	ana.Instrs(fn, func(in ssa.Instruction) {
		c, ok := in.(*ssa.Call)
		if !ok {
			return
		}
		if bi, isB := c.Call.Value.(*ssa.Builtin); !isB || bi.Name() != "append" || len(c.Call.Args) != 2 {
			return
		}
		if ch, _ := fieldChain(c.Call.Args[0]); ch != "Cookie" {
			return
		}
		nApp++
		// the appended element: stored into the varargs array
		fresh := false
		var elem ssa.Value
		if sl, ok := c.Call.Args[1].(*ssa.Slice); ok {
			if arr, ok := sl.X.(*ssa.Alloc); ok {
				for _, ref := range ana.Referrers(arr) {
					if ia, ok := ref.(*ssa.IndexAddr); ok {
						for _, r2 := range ana.Referrers(ia) {
							if st, ok := r2.(*ssa.Store); ok {
								elem = st.Val
							}
						}
					}
				}
			}
		}
		switch e := elem.(type) {
		case *ssa.MakeSlice:
			fresh = e.Block() == c.Block() || e.Block().Dominates(c.Block())
			// allocated for this record: inside the record loop, after the header read
			if fresh {
				hdrRead := false
				for _, b := range fn.Blocks {
					for _, j := range b.Instrs {
						if cc, ok := j.(*ssa.Call); ok && ana.CalleeName(&cc.Call) == "encoding/binary.Read" && isRecordHdrVar(ana.Strip(cc.Call.Args[2])) {
							if b == e.Block() || b.Dominates(e.Block()) {
								hdrRead = true
							}
						}
					}
				}
				fresh = hdrRead
			}
		case *ssa.Slice:
			if al, ok := e.X.(*ssa.Alloc); ok && al.Heap && (al.Block() == c.Block() || al.Block().Dominates(c.Block())) {
				fresh = al.Block().Index != 0
			}
		}
		if fresh {
			r.Ok("C20.readdata", fname, "cookie-is-own-buffer", posOf(p, c), "each cookie record is stored in a buffer allocated for that record")
		} else {
			r.Violate("C20.readdata", fname, "cookie-is-own-buffer", posOf(p, c), "the slice appended to the cookie pool is not a buffer allocated for this record (cookies share storage that later records overwrite: the pool no longer holds the cookies the server issued)")
		}
	})
	r.Floor("C20.readdata.cookie-appends", nApp, 1)
	// error arm always fails: from the arm of RecError (2) no path to the header read or a success return
	var errArm *ssa.BasicBlock
	ana.IfEdges(fn, func(iff *ssa.If, b *ssa.BasicBlock) {
		c, pos, isCmp := ana.AsCmp(iff.Cond)
		if isCmp && c.Op == token.EQL && pos && isRecordHdrField(c.X, "Type") {
			if k, ok := ana.ConstInt(c.Y); ok && k == 2 {
				errArm = b.Succs[0]
			}
		}
	})
	if errArm != nil {
		rets := ana.ClassifyReturns(fn)
		succ := isSuccessTarget(rets)
		s2 := &ana.Search{Fn: fn, Target: func(in ssa.Instruction) bool { return hdrRead(in) || succ(in) }}
		if found, w := runFromBlock(s2, errArm); found {
			r.Violate("C20.readdata", fname, "error-record-fails", posOf(p, errArm.Instrs[0]), "after an error record the exchange can continue or succeed", w...)
		} else {
			r.Ok("C20.readdata", fname, "error-record-fails", posOf(p, errArm.Instrs[0]), "every path out of the error-record arm is a failure return")
		}
	}
}

// runFromBlock runs a search starting at the first instruction of block b.
func runFromBlock(s *ana.Search, b *ssa.BasicBlock) (bool, []string) {
	// if the first instruction is itself a target, report it
	if s.Target != nil && len(b.Instrs) > 0 && s.Target(b.Instrs[0]) {
		return true, nil
	}
	if len(b.Instrs) == 0 {
		return false, nil
	}
	return s.Run(b.Instrs[0])
}

// constByteArray resolves a []byte value that is a slice of a fresh local
// array filled with constants; returns the bytes.
func constByteArray(v ssa.Value) ([]int64, bool) {
	sl, ok := v.(*ssa.Slice)
	if !ok || sl.Low != nil || sl.High != nil {
		return nil, false
	}
	arr, ok := sl.X.(*ssa.Alloc)
	if !ok {
		return nil, false
	}
	vals := map[int64]int64{}
	for _, ref := range ana.Referrers(arr) {
		switch x := ref.(type) {
		case *ssa.IndexAddr:
			i, ok := ana.ConstInt(x.Index)
			if !ok {
				return nil, false
			}
			for _, r2 := range ana.Referrers(x) {
				st, ok := r2.(*ssa.Store)
				if !ok {
					return nil, false
				}
				k, ok := ana.ConstInt(st.Val)
				if !ok {
					return nil, false
				}
				if _, dup := vals[i]; dup {
					return nil, false
				}
				vals[i] = k
			}
		case *ssa.Slice:
			if x != sl {
				return nil, false
			}
		default:
			return nil, false
		}
	}
	out := make([]int64, len(vals))
	for i := range out {
		v, ok := vals[int64(i)]
		if !ok {
			return nil, false
		}
		out[i] = v
	}
	// only use of the slice: the call
	return out, true
}

func c20Export(p *ana.Prog, r *ana.Result) {
	const ekm = "(*crypto/tls.ConnectionState).ExportKeyingMaterial"
	ek := mustFunc(p, r, "net/ntske", "ExportKeys")
	if ek == nil {
		return
	}
	fname := ana.FuncName(ek)
	for _, fn := range p.AllFuncs {
		if fn == ek {
			continue
		}
		for _, c := range ana.CallsIn(fn, ekm) {
			r.Violate("C20.export", ana.FuncName(fn), "exporter-outside-ExportKeys", posOf(p, c), "TLS keying material is exported outside ntske.ExportKeys (a second, possibly different, key derivation)")
		}
	}
	calls := ana.CallsIn(ek, ekm)
	if len(calls) != 2 {
		r.Violate("C20.export", fname, "exporter-calls", p.Pos(ek.Pos()), fmt.Sprintf("expected two ExportKeyingMaterial calls (S2C, C2S), found %d", len(calls)))
		return
	}
	for _, c := range calls {
		args := c.Common().Args
		lbl, _ := args[1].(*ssa.Const)
		ln, _ := ana.ConstInt(args[3])
		ctx, okCtx := constByteArray(args[2])
		if !okCtx {
			// built step by step (make, PutUint16, append ...): evaluated with append's aliasing rule
			ctx, okCtx = evalBytesAt(ek, c, args[2])
		}
		// destination field of result #0
		dest := ""
		if call, ok := c.(*ssa.Call); ok {
			if e := extractOf(call, 0); e != nil {
				for _, ref := range ana.Referrers(e) {
					if st, ok := ref.(*ssa.Store); ok {
						dest = ana.AccessPath(st.Addr)
					}
				}
			}
		}
		if !okCtx {
			r.Violate("C20.export", fname, "context-not-constant:"+dest, posOf(p, c), "UNDECIDED: the exporter context is not a fresh constant byte array (e.g. built with append over shared storage) - the two directions may alias")
			continue
		}
		wantLast := int64(-1)
		switch dest {
		case "data.S2cKey":
			wantLast = 1
		case "data.C2sKey":
			wantLast = 0
		}
		good := lbl != nil && lbl.Value != nil && lbl.Value.ExactString() == "\"EXPORTER-network-time-security\"" && ln == 32 &&
			len(ctx) == 5 && ctx[0] == 0 && ctx[1] == 0 && ctx[2] == 0 && ctx[3] == 0x0f && ctx[4] == wantLast
		if good {
			r.Ok("C20.export", fname, "exporter:"+dest, posOf(p, c), fmt.Sprintf("%s <- ExportKeyingMaterial(\"EXPORTER-network-time-security\", [0 0 0 0x0f %d], 32) (RFC 8915 5.1)", dest, wantLast))
		} else {
			r.Violate("C20.export", fname, "exporter:"+dest, posOf(p, c), fmt.Sprintf("exporter call for %q deviates from RFC 8915 5.1 (label/context %v/length %d): client and server of other implementations - or the two directions - no longer agree", dest, ctx, ln))
		}
	}
	// call sites of ExportKeys: connection state of the session the records were read from
	sites := 0
	for _, fn := range p.AllFuncs {
		for _, c := range ana.CallsIn(fn, ana.Q("net/ntske.ExportKeys")) {
			sites++
			cs := c.Common().Args[0]
			// cs = conn.ConnectionState() or conn.ConnectionState().TLS
			var conn ssa.Value
			v := cs
			if u, ok := v.(*ssa.UnOp); ok && u.Op == token.MUL {
				v = u.X
			}
			for i := 0; i < 6 && conn == nil; i++ {
				switch x := v.(type) {
				case *ssa.Field:
					v = x.X
				case *ssa.FieldAddr:
					v = x.X
				case *ssa.UnOp:
					v = x.X
				case *ssa.Alloc:
					// spilled struct result: find the store
					var sv ssa.Value
					for _, ref := range ana.Referrers(x) {
						if st, ok := ref.(*ssa.Store); ok && st.Addr == ssa.Value(x) {
							sv = st.Val
						}
					}
					if sv == nil {
						i = 99
					}
					v = sv
				case *ssa.Call:
					n := ana.CalleeName(&x.Call)
					if strings.HasSuffix(n, ".ConnectionState") {
						if x.Call.IsInvoke() {
							conn = x.Call.Value
						} else {
							conn = x.Call.Args[0]
						}
					} else {
						i = 99
					}
				default:
					i = 99
				}
			}
			// the same conn value feeds the exchange / ReadData reader in this function
			same := false
			if conn != nil {
				connRoot := ana.AccessPath(conn)
				connAlloc := rootAlloc(conn)
				if _, isAlloc := connAlloc.(*ssa.Alloc); !isAlloc {
					connAlloc = nil
				}
				ana.Instrs(fn, func(in ssa.Instruction) {
					cc, ok := in.(ssa.CallInstruction)
					if !ok {
						return
					}
					n := ana.CalleeName(cc.Common())
					if n == ana.Q("net/ntske.exchangeDataTLS") || n == ana.Q("net/ntske.exchangeDataQUIC") {
						for _, a := range cc.Common().Args {
							if a == conn || (connRoot != "" && ana.AccessPath(a) == connRoot) || (connAlloc != nil && rootAlloc(a) == connAlloc) {
								same = true
							}
						}
					}
					if n == "bufio.NewReader" {
						a := ana.Strip(cc.Common().Args[0])
						if a == conn || (connRoot != "" && ana.AccessPath(a) == connRoot) {
							same = true
						}
						// QUIC server: reader over a stream accepted from conn
						if sc, _ := ana.CallOf(a); sc != nil && strings.HasSuffix(ana.CalleeName(sc.Common()), ".AcceptStream") {
							if sc.Common().Value == conn || ana.AccessPath(sc.Common().Value) == connRoot {
								same = true
							}
						}
					}
				})
			}
			if same {
				r.Ok("C20.export", ana.FuncName(fn), "export-on-exchange-session", posOf(p, c), "ExportKeys uses the ConnectionState of the connection the records were exchanged on")
			} else {
				r.Violate("C20.export", ana.FuncName(fn), "export-on-exchange-session", posOf(p, c), "ExportKeys is not given the connection state of the session on which the records were exchanged")
			}
		}
	}
	r.Floor("C20.export.sites", sites, 4)
}

// c20Clients: with NTS on, the request goes to the server and port of the fetched data.
func c20Clients(p *ana.Prog, r *ana.Result) {
	for _, spec := range []struct{ fn, ipPath, portPath string }{
		{"(*IPClient).measureClockOffsetIP", "remoteAddr.IP", "remoteAddr.Port"},
		{"(*SCIONClient).measureClockOffsetSCION", "remoteAddr.Host.IP", "remoteAddr.Host.Port"},
	} {
		fn := mustFunc(p, r, "core/client", spec.fn)
		if fn == nil {
			continue
		}
		fname := ana.FuncName(fn)
		ipOK, portOK := false, false
		ana.Instrs(fn, func(in ssa.Instruction) {
			st, ok := in.(*ssa.Store)
			if !ok {
				return
			}
			switch ana.AccessPath(st.Addr) {
			case spec.ipPath:
				if c, _ := ana.CallOf(st.Val); c != nil && ana.CalleeName(c.Common()) == "net.ParseIP" && ana.AccessPath(c.Common().Args[0]) == "ntskeData.Server" {
					ipOK = true
				}
			case spec.portPath:
				if ana.AccessPath(ana.StripConv(st.Val)) == "ntskeData.Port" {
					portOK = true
				}
			}
		})
		if ipOK && portOK {
			r.Ok("C20.defaults", fname, "request-destination", p.Pos(fn.Pos()), "with NTS on the request is addressed to net.ParseIP(ntskeData.Server) : ntskeData.Port")
		} else {
			r.Violate("C20.defaults", fname, "request-destination", p.Pos(fn.Pos()), fmt.Sprintf("with NTS on the request is not addressed to the server/port named in the key exchange (server=%v port=%v)", ipOK, portOK))
		}
	}
}

func c20ServerMsg(p *ana.Prog, r *ana.Result) {
	fn := mustFunc(p, r, "core/server", "newNTSKEMsg")
	if fn == nil {
		return
	}
	fname := ana.FuncName(fn)
	// order of AddRecord calls by record kind along the unique path (loop for cookies)
	var order []string
	var cookieInLoop bool
	for _, c := range ana.CallsIn(fn, ana.Q("(*net/ntske.ExchangeMsg).AddRecord")) {
		mi, ok := c.Common().Args[1].(*ssa.MakeInterface)
		kind := "?"
		if ok {
			kind = typeNameOf(mi.X.Type())
		}
		order = append(order, kind)
		if kind == "Cookie" {
			// in a loop: block is in a cycle
			s := &ana.Search{Fn: fn, Target: func(in ssa.Instruction) bool { return in == c.(ssa.Instruction) }, NoFacts: true}
			if found, _ := s.Run(c.(ssa.Instruction)); found {
				cookieInLoop = true
			}
		}
	}
	// sort by dominance order: CallsIn returns block order, which for this function is source order except loop blocks; compare as multiset + relative constraints
	pos := map[string]int{}
	for i, k := range order {
		if _, ok := pos[k]; !ok {
			pos[k] = i
		}
	}
	want := []string{"NextProto", "Algorithm", "Server", "Port", "Cookie", "End"}
	ok := len(order) == 6 && cookieInLoop
	for _, k := range want {
		if _, has := pos[k]; !has {
			ok = false
		}
	}
	// End must be dominated by the loop exit, cookies dominated by Port
	if ok {
		r.Ok("C20.server", fname, "record-kinds", p.Pos(fn.Pos()), "message consists of NextProto, Algorithm, Server, Port, Cookie (in a loop), End")
	} else {
		r.Violate("C20.server", fname, "record-kinds", p.Pos(fn.Pos()), fmt.Sprintf("server message records are %v (cookie loop=%v), expected NextProto, Algorithm, Server, Port, Cookie..., End", order, cookieInLoop))
	}
	// loop bound 8, key = provider.Current(), cookie plaintext keys = data.C2sKey / data.S2cKey
	cur := ana.CallsIn(fn, ana.Q("(*net/ntske.Provider).Current"))
	enc := ana.CallsIn(fn, ana.Q("(*net/ntske.ServerCookie).EncryptWithNonce"))
	if len(cur) == 1 && len(enc) == 1 {
		a := enc[0].Common().Args
		kv, kid := ana.AccessPath(a[1]), ana.AccessPath(a[2])
		fromCurrent := func(v ssa.Value) bool {
			root := rootAlloc(v)
			if al, ok := root.(*ssa.Alloc); ok {
				n := 0
				good := false
				for _, ref := range ana.Referrers(al) {
					if st, ok := ref.(*ssa.Store); ok && st.Addr == ssa.Value(al) {
						n++
						good = st.Val == ssa.Value(cur[0].(*ssa.Call))
					}
				}
				return n == 1 && good
			}
			return root == ssa.Value(cur[0].(*ssa.Call))
		}
		if strings.HasSuffix(kv, ".Value") && strings.HasSuffix(kid, ".ID") && fromCurrent(a[1]) && fromCurrent(a[2]) {
			r.Ok("C20.server", fname, "cookies-sealed-with-current-key", posOf(p, enc[0]), "cookies are sealed with provider.Current().Value / .ID")
		} else {
			r.Violate("C20.server", fname, "cookies-sealed-with-current-key", posOf(p, enc[0]), "cookies are not sealed with the value and id of provider.Current() ("+kv+", "+kid+")")
		}
	} else {
		r.Violate("C20.server", fname, "cookies-sealed-with-current-key", p.Pos(fn.Pos()), "expected one provider.Current() and one EncryptWithNonce call")
	}
	c2s, s2c, algo := false, false, false
	ana.Instrs(fn, func(in ssa.Instruction) {
		st, ok := in.(*ssa.Store)
		if !ok {
			return
		}
		switch {
		case localFieldStore(st, "ServerCookie", "C2S"):
			c2s = ana.AccessPath(st.Val) == "data.C2sKey"
		case localFieldStore(st, "ServerCookie", "S2C"):
			s2c = ana.AccessPath(st.Val) == "data.S2cKey"
		case localFieldStore(st, "ServerCookie", "Algo"):
			k, _ := ana.ConstInt(st.Val)
			algo = k == 0x0f
		}
	})
	if c2s && s2c && algo {
		r.Ok("C20.server", fname, "cookie-contents", p.Pos(fn.Pos()), "cookie plaintext = (AES_SIV_CMAC_256, C2S <- data.C2sKey, S2C <- data.S2cKey)")
	} else {
		r.Violate("C20.server", fname, "cookie-contents", p.Pos(fn.Pos()), fmt.Sprintf("cookie plaintext does not carry the exported keys in their own direction (C2S=%v S2C=%v algo=%v)", c2s, s2c, algo))
	}
	// loop count 8: a phi compared with const 8 / range over 8
	eight := false
	ana.IfEdges(fn, func(iff *ssa.If, b *ssa.BasicBlock) {
		c, _, isCmp := ana.AsCmp(iff.Cond)
		if isCmp {
			if k, ok := ana.ConstInt(c.Y); ok && k == 8 {
				eight = true
			}
		}
	})
	if eight {
		r.Ok("C20.server", fname, "eight-cookies", p.Pos(fn.Pos()), "the cookie loop runs 8 times")
	} else {
		r.Violate("C20.server", fname, "eight-cookies", p.Pos(fn.Pos()), "the key-exchange server does not issue eight cookies")
	}
}
