package rules

import (
	"verif/internal/ana"
)

func c08Bounds(p *ana.Prog, r *ana.Result, ts *ana.TaintState) {}
