package rules

import (
	"fmt"
	"go/types"
	"os"
	"sort"
	"strings"

	"golang.org/x/tools/go/ssa"

	"verif/internal/ana"
)

// minLenCallees: library functions with a length precondition on one argument
// (they index it unconditionally and panic otherwise).
var minLenCallees = map[string][2]int{ // callee -> {arg index (after receiver for methods), min length}
	"(encoding/binary.bigEndian).Uint16":       {1, 2},
	"(encoding/binary.bigEndian).Uint32":       {1, 4},
	"(encoding/binary.bigEndian).Uint64":       {1, 8},
	"(encoding/binary.bigEndian).PutUint16":    {1, 2},
	"(encoding/binary.bigEndian).PutUint32":    {1, 4},
	"(encoding/binary.bigEndian).PutUint64":    {1, 8},
	"(encoding/binary.littleEndian).Uint16":    {1, 2},
	"(encoding/binary.littleEndian).Uint32":    {1, 4},
	"(encoding/binary.littleEndian).Uint64":    {1, 8},
	"(encoding/binary.littleEndian).PutUint16": {1, 2},
	"(encoding/binary.littleEndian).PutUint32": {1, 4},
	"(encoding/binary.littleEndian).PutUint64": {1, 8},
}

type boundObl struct {
	fn     *ssa.Function
	in     ssa.Instruction
	desc   string
	goals  []ana.ILin // each must be >= 0
	why    string
	unsafe bool // not backed by a run-time check: the compiler's BCE result does not apply
}

// exprDesc renders an index/slice expression without positions.
func exprDesc(in ssa.Instruction) string {
	switch x := in.(type) {
	case *ssa.IndexAddr:
		return ana.ValueString(x.X) + "[" + ana.ValueString(x.Index) + "]"
	case *ssa.Index:
		return ana.ValueString(x.X) + "[" + ana.ValueString(x.Index) + "]"
	case *ssa.Slice:
		lo, hi := "", ""
		if x.Low != nil {
			lo = ana.ValueString(x.Low)
		}
		if x.High != nil {
			hi = ana.ValueString(x.High)
		}
		return ana.ValueString(x.X) + "[" + lo + ":" + hi + "]"
	case *ssa.Call:
		return ana.Short(ana.CalleeName(&x.Call)) + "(" + ana.ValueString(x.Call.Args[len(x.Call.Args)-1]) + ")"
	}
	return in.String()
}

func isSliceType(t types.Type) bool {
	_, ok := t.Underlying().(*types.Slice)
	return ok
}

func c08Bounds(p *ana.Prog, r *ana.Result, ts *ana.TaintState, pset *ana.ProverSet) {
	residual, err := ana.CompilerResidual(p.Dir, p.Overlay)
	if err != nil {
		r.Broken("C08.bounds: %v", err)
		return
	}
	r.Trust("the Go compiler's prove/bounds-check-elimination pass (go build -gcflags=-d=ssa/check_bce/debug=1, compile only): an index or slice operation without a residual check at its position cannot panic")
	nObl, nCompiler, nProver, nLifted, nUnsafe := 0, 0, 0, 0, 0
	posKey := func(in ssa.Instruction) string {
		ps := p.Fset.Position(in.Pos())
		f := strings.TrimPrefix(ps.Filename, p.Dir+"/")
		return fmt.Sprintf("%s:%d:%d", f, ps.Line, ps.Column)
	}
	proverOf := pset.For
	// obligations
	var obls []boundObl
	for _, f := range ts.Reachable() {
		pr := proverOf(f)
		ana.Instrs(f, func(in ssa.Instruction) {
			switch x := in.(type) {
			case *ssa.IndexAddr, *ssa.Index:
				var base, idx ssa.Value
				if ia, ok := x.(*ssa.IndexAddr); ok {
					base, idx = ia.X, ia.Index
				} else {
					ix := x.(*ssa.Index)
					base, idx = ix.X, ix.Index
				}
				risk := ts.Of(idx) != 0 || (isSliceType(base.Type()) && ts.Of(base)&ana.TL != 0)
				if _, isStr := base.Type().Underlying().(*types.Basic); isStr && ts.Of(base) != 0 {
					risk = true
				}
				if !risk {
					return
				}
				i, ok1 := pr.Int(idx, 0)
				l, ok2 := pr.Len(base, 0)
				if !ok1 || !ok2 {
					obls = append(obls, boundObl{fn: f, in: in, desc: exprDesc(in), why: "index expression outside the linear domain"})
					return
				}
				g1 := l.Add(i, -1)
				g1.C -= 1
				obls = append(obls, boundObl{fn: f, in: in, desc: exprDesc(in), goals: []ana.ILin{i, g1}})
			case *ssa.Slice:
				base := x.X
				risk := (x.Low != nil && ts.Of(x.Low) != 0) || (x.High != nil && ts.Of(x.High) != 0) || (isSliceType(base.Type()) && ts.Of(base)&ana.TL != 0 && (x.Low != nil || x.High != nil))
				if _, isStr := base.Type().Underlying().(*types.Basic); isStr && ts.Of(base) != 0 && (x.Low != nil || x.High != nil) {
					risk = true
				}
				if !risk {
					return
				}
				var goals []ana.ILin
				ok := true
				var hi ana.ILin
				if x.High != nil {
					h, okh := pr.Int(x.High, 0)
					c, okc := pr.Cap(base, 0)
					if _, isStr := base.Type().Underlying().(*types.Basic); isStr {
						c, okc = pr.Len(base, 0)
					}
					ok = ok && okh && okc
					if ok {
						goals = append(goals, c.Add(h, -1)) // cap - hi >= 0
						hi = h
					}
				} else {
					l, okl := pr.Len(base, 0)
					ok = ok && okl
					hi = l
				}
				if x.Low != nil && ok {
					lo, okl := pr.Int(x.Low, 0)
					ok = ok && okl
					if ok {
						goals = append(goals, lo, hi.Add(lo, -1)) // lo >= 0, hi - lo >= 0
					}
				} else if x.High != nil && ok {
					goals = append(goals, hi) // hi >= 0
				}
				if !ok {
					obls = append(obls, boundObl{fn: f, in: in, desc: exprDesc(in), why: "slice bounds outside the linear domain"})
					return
				}
				obls = append(obls, boundObl{fn: f, in: in, desc: exprDesc(in), goals: goals})
			case *ssa.Convert:
				// (*T)(unsafe.Pointer(&s[k])): the typed access covers sizeof(T) bytes of s
				pt, isPtr := x.Type().Underlying().(*types.Pointer)
				if !isPtr {
					return
				}
				up, isUP := x.X.(*ssa.Convert)
				if !isUP {
					return
				}
				if b, ok := up.Type().Underlying().(*types.Basic); !ok || b.Kind() != types.UnsafePointer {
					return
				}
				ia, isIA := up.X.(*ssa.IndexAddr)
				if !isIA || !isSliceType(ia.X.Type()) {
					return
				}
				nUnsafe++
				if ts.Of(ia.X) == 0 && ts.Of(ia.Index) == 0 {
					return
				}
				size := p.Sizes().Sizeof(pt.Elem())
				i, ok1 := pr.Int(ia.Index, 0)
				l, ok2 := pr.Len(ia.X, 0)
				desc := "unsafe-read:(*" + types.TypeString(pt.Elem(), func(p *types.Package) string { return p.Name() }) + ")(&" + exprDesc(ia) + ")"
				if !ok1 || !ok2 {
					obls = append(obls, boundObl{fn: f, in: in, desc: desc, why: "index expression outside the linear domain", unsafe: true})
					return
				}
				g := l.Add(i, -1)
				g.C -= size
				obls = append(obls, boundObl{fn: f, in: in, desc: desc, goals: []ana.ILin{i, g}, unsafe: true, why: fmt.Sprintf("a %d-byte access through unsafe.Pointer is not bounds-checked at run time", size)})
			case *ssa.Call:
				name := ana.CalleeName(&x.Call)
				if spec, ok := minLenCallees[name]; ok {
					arg := x.Call.Args[spec[0]]
					if ts.Of(arg)&ana.TL == 0 {
						return
					}
					l, okl := pr.Len(arg, 0)
					if !okl {
						obls = append(obls, boundObl{fn: f, in: in, desc: exprDesc(in), why: "length outside the linear domain"})
						return
					}
					g := l
					g = g.Add(ana.ILin{Coef: map[string]int64{}, C: int64(spec[1])}, -1)
					obls = append(obls, boundObl{fn: f, in: in, desc: exprDesc(in), goals: []ana.ILin{g}})
				}
				// AEAD nonce length precondition (miscreant panics on len(nonce) != 16)
				if name == fnOpen || name == fnSeal {
					nonce := x.Call.Args[1]
					if ts.Of(nonce)&ana.TL == 0 {
						return
					}
					l, okl := pr.Len(nonce, 0)
					if !okl {
						obls = append(obls, boundObl{fn: f, in: in, desc: "nonce-length:" + exprDesc(in), why: "nonce length outside the linear domain"})
						return
					}
					g1 := l.Add(ana.ILin{Coef: map[string]int64{}, C: 16}, -1)
					g2 := ana.ILin{Coef: map[string]int64{}, C: 16}
					g2 = g2.Add(l, -1)
					obls = append(obls, boundObl{fn: f, in: in, desc: "nonce-length==16:" + ana.ValueString(nonce), goals: []ana.ILin{g1, g2}, why: "miscreant's AEAD panics ('incorrect nonce length') unless len(nonce) == 16"})
				}
			}
		})
	}
	nObl = len(obls)
	for _, o := range obls {
		fname := ana.FuncName(o.fn)
		key := "in-range:" + o.desc
		isPre := strings.HasPrefix(o.desc, "nonce-length") || o.unsafe
		if !isPre {
			if _, resid := residual[posKey(o.in)]; !resid {
				nCompiler++
				r.Ok("C08.bounds", fname, key, posOf(p, o.in), "compiler-proved: no residual bounds check at this position")
				continue
			}
		}
		if o.goals == nil {
			r.Violate("C08.bounds", fname, key, posOf(p, o.in), "index/slice operation on network-sized data cannot be analysed ("+o.why+") and the compiler keeps a run-time bounds check: a peer-chosen length can make it panic")
			continue
		}
		pr := proverOf(o.fn)
		all := true
		var failed ana.ILin
		for _, g := range o.goals {
			if !pr.ProveAt(g, o.in) {
				all = false
				failed = g
				break
			}
		}
		if all {
			nProver++
			r.Ok("C08.bounds", fname, key, posOf(p, o.in), fmt.Sprintf("prover: %d goals follow from dominating guard/bounds facts, value definitions and callee summaries", len(o.goals)))
			continue
		}
		// lift to callers when the failed goals only mention parameters
		if ok, how := liftToCallers(p, ts, o, proverOf, 0); ok {
			nLifted++
			r.Ok("C08.bounds", fname, key, posOf(p, o.in), "prover: requirement on the parameters holds at every call site ("+how+")")
			continue
		}
		if os.Getenv("C08_DEBUG") != "" && o.goals != nil {
			fmt.Fprintf(os.Stderr, "BOUND-FAIL %s %s\n  goal: %s\n", fname, key, failed.String())
			for _, f := range pr.GuardFacts(o.in) {
				fmt.Fprintf(os.Stderr, "  fact: %s\n", f.String())
			}
		}
		extra := ""
		if o.why != "" {
			extra = " - " + o.why
		}
		r.Violate("C08.bounds", fname, key, posOf(p, o.in), fmt.Sprintf("no guard establishes %s >= 0 for this operation on data whose length/index the peer chooses (the compiler keeps a run-time check): a short or oversized field panics with index/slice out of range%s", failed.String(), extra))
	}
	if d := os.Getenv("C08_SUMMARY"); d != "" {
		for _, f := range p.AllFuncs {
			if strings.Contains(ana.FuncName(f), d) {
				fmt.Fprintf(os.Stderr, "SUMMARY %s: %s\n", ana.FuncName(f), pset.DumpSummary(f))
			}
		}
	}
	r.Table("bounds", map[string]int{"obligations": nObl, "compiler_proved": nCompiler, "prover_proved": nProver, "lifted_to_callers": nLifted, "compiler_residual_positions": len(residual), "unsafe_casts_seen": nUnsafe})
	r.Floor("C08.bounds.obligations", nObl, 40)
}

// liftToCallers: re-prove the obligation's failed goals at every call site of
// o.fn with the callee's parameter atoms replaced by the arguments. A goal that
// is not established by facts dominating the call may still hold on every path
// to it (pathGate).
func liftToCallers(p *ana.Prog, ts *ana.TaintState, o boundObl, proverOf func(*ssa.Function) *ana.Prover, depth int) (bool, string) {
	if depth > 3 || o.goals == nil {
		return false, ""
	}
	callee := o.fn
	cpr := proverOf(callee)
	var open []ana.ILin
	for _, g := range o.goals {
		if depth > 0 || !cpr.ProveAt(g, o.in) {
			open = append(open, g)
		}
	}
	// a goal that mentions values local to the callee (a loop index, ...) cannot be stated at a call
	// site; a dominating fact of the callee that cancels the local part leaves a residual over the
	// parameters which implies the goal: goal = residual + k*fact with fact >= 0, k > 0
	if depth == 0 {
		liftable := func(a string) bool {
			inner := a
			for _, w := range []string{"len(", "cap("} {
				if strings.HasPrefix(a, w) && strings.HasSuffix(a, ")") {
					inner = a[len(w) : len(a)-1]
				}
			}
			for _, prm := range callee.Params {
				if inner == prm.Name() || strings.HasPrefix(inner, prm.Name()+".") {
					return true
				}
			}
			return false
		}
		allLiftable := func(l ana.ILin) bool {
			for a := range l.Coef {
				if !liftable(a) {
					return false
				}
			}
			return true
		}
		for gi, g := range open {
			if allLiftable(g) {
				continue
			}
			for _, f := range cpr.GuardFacts(o.in) {
				k := int64(0)
				okK := true
				for a, ga := range g.Coef {
					if liftable(a) {
						continue
					}
					fa := f.Coef[a]
					if fa == 0 || ga%fa != 0 || ga/fa <= 0 || (k != 0 && ga/fa != k) {
						okK = false
						break
					}
					k = ga / fa
				}
				if !okK || k == 0 {
					continue
				}
				res := g.Add(f, -k)
				if allLiftable(res) {
					open[gi] = res
					break
				}
			}
		}
	}
	sites := 0
	how := map[string]int{}
	for _, caller := range ts.Reachable() {
		var calls []ssa.CallInstruction
		ana.Instrs(caller, func(in ssa.Instruction) {
			c, ok := in.(ssa.CallInstruction)
			if !ok {
				return
			}
			if c.Common().StaticCallee() == callee {
				calls = append(calls, c)
			}
		})
		for _, c := range calls {
			sites++
			pr := proverOf(caller)
			for _, g := range open {
				sub, ok := pr.ArgLin(g, callee, c.Common().Args)
				if !ok {
					if os.Getenv("C08_DEBUG") != "" {
						fmt.Fprintf(os.Stderr, "LIFT-NOSUBST %s -> %s: %s\n", ana.FuncName(callee), ana.FuncName(caller), g.String())
					}
					return false, ""
				}
				if pr.ProveAt(sub, c.(ssa.Instruction)) {
					how["guard"]++
					continue
				}
				if pathGate(p, pr, sub, c.(ssa.Instruction)) {
					how["path-gate"]++
					continue
				}
				if os.Getenv("C08_DEBUG") != "" {
					fmt.Fprintf(os.Stderr, "LIFT-FAIL %s -> %s: %s\n", ana.FuncName(callee), ana.FuncName(caller), sub.String())
				}
				lo := boundObl{fn: caller, in: c.(ssa.Instruction), desc: o.desc, goals: []ana.ILin{sub}}
				if ok2, _ := liftToCallers(p, ts, lo, proverOf, depth+1); !ok2 {
					return false, ""
				}
				how["lifted"]++
			}
		}
	}
	if sites == 0 {
		return false, ""
	}
	var hs []string
	for k, v := range how {
		hs = append(hs, fmt.Sprintf("%s:%d", k, v))
	}
	sort.Strings(hs)
	return true, fmt.Sprintf("%d call sites; %s", sites, strings.Join(hs, " "))
}

// pathGate: every path from the definition of the goal's root value to `at`
// takes a branch edge whose condition alone establishes goal >= 0 (decided by
// the path-sensitive CFG search, so flags like `authenticated` are followed),
// and nothing in between can change the heap fields the goal mentions.
func pathGate(p *ana.Prog, pr *ana.Prover, goal ana.ILin, at ssa.Instruction) bool {
	fn := pr.Fn
	g := &ana.Gate{Name: "establishes:" + goal.String(), Accept: ana.EdgeSet{}}
	var origins []ssa.Instruction
	for _, b := range fn.Blocks {
		n := len(b.Instrs)
		if n == 0 {
			continue
		}
		iff, ok := b.Instrs[n-1].(*ssa.If)
		if !ok {
			continue
		}
		for si := range b.Succs {
			if pr.EdgeProves(b, si, goal) {
				g.Accept[ana.Edge{From: b, Succ: si}] = true
				origins = append(origins, iff)
			}
		}
	}
	dbg := os.Getenv("C08_DEBUG") != ""
	if dbg {
		fmt.Fprintf(os.Stderr, "PATHGATE %s goal %s: %d accept edges\n", ana.FuncName(fn), goal.String(), len(g.Accept))
	}
	if len(g.Accept) == 0 {
		return false
	}
	for _, o := range origins {
		if !pr.StableBetween(goal, o, at) {
			return false
		}
	}
	// start at the latest-defined root register of the goal's atoms (or the entry)
	var start ssa.Instruction = fn.Blocks[0].Instrs[0]
	for a := range goal.Coef {
		if in, ok := pr.RootOf(a).(ssa.Instruction); ok {
			if in.Block() != nil {
				start = in
			}
		}
	}
	target := func(in ssa.Instruction) bool { return in == at }
	stop := func(in ssa.Instruction) bool { return false }
	ok, w := ana.MustPass(fn, start, g, target, stop, nil)
	if dbg && !ok {
		fmt.Fprintf(os.Stderr, "  start=%v witness=%v\n", start, w)
	}
	return ok
}

// phiLowerBound: an inductive lower bound of a loop phi: the minimum of its
// entry values when every back-edge value is the phi plus a non-negative amount.
func phiLowerBound(fn *ssa.Function, ph *ssa.Phi) (int64, bool) {
	var lo int64
	have := false
	for i, e := range ph.Edges {
		pred := ph.Block().Preds[i]
		if k, ok := ana.ConstInt(e); ok {
			if !have || k < lo {
				lo, have = k, true
			}
			continue
		}
		if ph.Block().Dominates(pred) {
			inc, ok := minIncrement(fn, e, ph, pred, 0)
			if !ok || inc < 0 {
				return 0, false
			}
			continue
		}
		// non-constant entry value: use its own lower bound
		l, ok := lowerBound(fn, e, pred, 0)
		if !ok {
			return 0, false
		}
		if !have || l < lo {
			lo, have = l, true
		}
	}
	return lo, have
}
