package rules

import (
	"fmt"
	"go/types"

	"golang.org/x/tools/go/ssa"

	"verif/internal/ana"
)

// C08.recv-buffer: a receive loop reads every datagram into a buffer of full capacity. The loops
// shrink their buffer to the datagram just read (buf = buf[:n], oob = oob[:oobn]); if a path around
// the loop reaches the next read without re-extending it, the next longer datagram is truncated
// (MSG_TRUNC / MSG_CTRUNC -> flags != 0 -> dropped) and, the dropped path not resetting either, the
// socket never answers again.
//
// Decided per read call site and buffer argument:
//   - argument held in a register (phi web): every value reaching the argument is a fresh make, a
//     re-extension x[:cap(x)], or a value that is not shrunk inside the loop;
//   - argument loaded from an address-taken local: from every shrinking definition inside the loop
//     (store of x[:k], call receiving &x) every path to the read passes another store to the variable
//     first, and the stores that can reach the read hold a full value.
func c08RecvBuffer(p *ana.Prog, r *ana.Result) {
	const rule = "C08.recv-buffer"
	n := 0
	for _, f := range p.AllFuncs {
		for _, name := range []string{"(*net.UDPConn).ReadMsgUDPAddrPort"} {
			for _, c := range ana.CallsIn(f, name) {
				in := c.(ssa.Instruction)
				if !ana.Reachable(f, in, func(x ssa.Instruction) bool { return x == in }, nil, nil) {
					continue // not in a loop
				}
				args := c.Common().Args
				for i, what := range map[int]string{1: "data", 2: "oob"} {
					if i >= len(args) {
						continue
					}
					n++
					ok, detail, at := recvBufFull(f, in, args[i])
					if ok {
						r.Ok(rule, ana.FuncName(f), what+"-buffer-full-at-read", posOf(p, in), detail)
					} else {
						r.Violate(rule, ana.FuncName(f), what+"-buffer-full-at-read", p.Pos(at.Pos()), "the "+what+" buffer of this receive loop can reach the read still cut to the length of an earlier datagram ("+detail+"): the next longer datagram is truncated and dropped, on the same path, for ever")
					}
				}
			}
		}
	}
	r.Floor(rule+".sites", n, 12)
}

func isCapOf(high, x ssa.Value) bool {
	c, ok := high.(*ssa.Call)
	if !ok {
		return false
	}
	b, ok := c.Call.Value.(*ssa.Builtin)
	if !ok || b.Name() != "cap" || len(c.Call.Args) != 1 {
		return false
	}
	a := c.Call.Args[0]
	if a == x {
		return true
	}
	la, ok1 := a.(*ssa.UnOp)
	lx, ok2 := x.(*ssa.UnOp)
	return ok1 && ok2 && la.X == lx.X
}

// fullSlice: v is a slice whose length equals its capacity by construction.
func fullSlice(v ssa.Value) bool {
	switch t := v.(type) {
	case *ssa.MakeSlice:
		return t.Len == t.Cap
	case *ssa.Slice:
		if t.Max != nil {
			return false
		}
		if t.High == nil && t.Low == nil {
			if _, isPtr := t.X.Type().Underlying().(*types.Pointer); isPtr {
				return true // whole array
			}
			return fullSlice(t.X)
		}
		return t.Low == nil && isCapOf(t.High, t.X)
	}
	return false
}

// shrinks: v is a re-slice with an upper bound other than the capacity.
func shrinks(v ssa.Value) bool {
	s, ok := v.(*ssa.Slice)
	if !ok {
		return false
	}
	if _, isPtr := s.X.Type().Underlying().(*types.Pointer); isPtr {
		return false
	}
	return s.High != nil && !isCapOf(s.High, s.X) || s.Low != nil
}

func recvBufFull(f *ssa.Function, read ssa.Instruction, arg ssa.Value) (bool, string, ssa.Instruction) {
	inLoop := func(in ssa.Instruction) bool {
		return ana.Reachable(f, read, func(x ssa.Instruction) bool { return x == in }, nil, nil)
	}
	if ld, ok := arg.(*ssa.UnOp); ok {
		if al, ok := ld.X.(*ssa.Alloc); ok {
			// address-taken local
			isDef := func(in ssa.Instruction) bool {
				if st, ok := in.(*ssa.Store); ok && st.Addr == al {
					return true
				}
				return false
			}
			var bad ssa.Instruction
			nShrink, nDef := 0, 0
			ana.Instrs(f, func(in ssa.Instruction) {
				if bad != nil {
					return
				}
				shrink := false
				switch t := in.(type) {
				case *ssa.Store:
					if t.Addr != al {
						return
					}
					nDef++
					shrink = shrinks(t.Val)
				case ssa.CallInstruction:
					for _, a := range t.Common().Args {
						if a == al {
							shrink = true
						}
					}
				}
				if !shrink || !inLoop(in) {
					return
				}
				nShrink++
				s := &ana.Search{Fn: f, Stop: isDef, Target: func(x ssa.Instruction) bool { return x == read }}
				if found, _ := s.Run(in); found {
					bad = in
				}
			})
			if bad != nil {
				return false, "shrunk here and not re-extended on a path to the read", bad
			}
			return true, fmt.Sprintf("variable %s: %d definitions, %d shrinking ones inside the loop, each followed by a re-definition on every path to the read", al.Comment, nDef, nShrink), nil
		}
	}
	// register value
	seen := map[ssa.Value]bool{}
	var bad ssa.Instruction
	nLeaves := 0
	var walk func(v ssa.Value)
	walk = func(v ssa.Value) {
		if bad != nil || seen[v] {
			return
		}
		seen[v] = true
		if fullSlice(v) {
			nLeaves++
			return
		}
		switch t := v.(type) {
		case *ssa.Phi:
			for _, e := range t.Edges {
				walk(e)
			}
		case *ssa.Slice:
			if shrinks(t) && inLoop(t) {
				bad = t
				return
			}
			nLeaves++
		default:
			nLeaves++
		}
	}
	walk(arg)
	if bad != nil {
		return false, "a value cut inside the loop reaches the read", bad
	}
	return true, fmt.Sprintf("%d reaching values, none cut inside the loop", nLeaves), nil
}
