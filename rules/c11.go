package rules

import (
	"fmt"
	"go/token"
	"strings"

	"golang.org/x/tools/go/ssa"

	"verif/internal/ana"
)

func init() { All["C11"] = checkC11 }

// inLoop reports whether instruction in lies on a CFG cycle.
func inLoop(fn *ssa.Function, in ssa.Instruction) bool {
	s := &ana.Search{Fn: fn, NoFacts: true, Target: func(x ssa.Instruction) bool { return x == in }}
	found, _ := s.Run(in)
	return found
}

func checkC11(p *ana.Prog, r *ana.Result) {
	r.Explain("C11 (structural necessary conditions): field kinds - each NTS extension kind packs the type constant its own unpack accepts, pairwise distinct (shared with C14); single use - FetchData hands out a copy of the data and then drops exactly the first cookie on every success path, NewRequestPacket reads only Cookie[0] and appends exactly one cookie field outside any loop, both clients build the request from the FetchData result of the same invocation and never inside a retry loop; placeholder count - the placeholder loop runs from len(cookies handed out) to the constant 8 in steps of one and appends exactly one placeholder per iteration; server issue - in both listeners the cookie loop's trip count is len(Cookies)+len(CookiePlaceholders) of the request, every iteration seals the session cookie under provider.Current() and appends the freshly allocated result of Encode() of that iteration (no shared buffer), and the reply is built from that list; pool refill - cookies are stored only by ProcessResponse after authentication, one StoreCookie per decoded cookie; authenticated fields only - nts.DecodePacket reads no extension header after the authenticator, so fields behind it are neither stored as cookies nor counted as requested cookies. The fields the server counts are those of this datagram only (same per-datagram-state rule as C09). Space tests: the errShortBuffer test of each extension encoder, read as a sum of lengths, never demands more than the bytes the encoder occupies. Pool copies: ReadData stores its own copy of every cookie record (shared with C20); cookies are sealed from and opened into values of their own (shared with C10).")
	r.Undecided("that the pool never exceeds eight / never shrinks (run-time count of what the server returns), the size budget at each pool level (length arithmetic over run-time values), re-keying dynamics")
	// the pool holds the cookies the server issued: ReadData stores its own copy of every cookie
	// record (a view into the stream reader's buffer is overwritten by the next read - all pool
	// entries would then carry the bytes of the last cookie; rule shared with C20)
	{
		n0 := len(r.Obls)
		c20ReadData(p, r)
		shareObls(p, r, n0, "C20.readdata", "C11.pool-copy", "net/ntske.ReadData", "cookie-is-own-buffer")
	}
	// "each of which opens ... to the same session keys": cookies are sealed from and opened into
	// values of their own (Seal over c.Encode(), Open into a fresh buffer; rule shared with C10)
	{
		n0 := len(r.Obls)
		c10AEAD(p, r)
		shareObls(p, r, n0, "C10.aead", "C11.cookie-keys", "net/ntske.cookies", "cookie-seal-open-")
	}
	// "requests always fit": an encoder's free-space test must not demand more than the field occupies
	c14ExtLen(p, r, "C11.space-test", false, true)
	c14Tags(p, r)
	for _, o := range r.Obls {
		if o.Rule == "C14.tags" {
			o.Rule = "C11.tags"
			o.Key = strings.Replace(o.Key, "C14.tags", "C11.tags", 1)
		}
	}
	// only authenticated fields count: the decoder stops at the authenticator, so cookies and
	// placeholders behind it are neither stored by the client nor counted by the server (shared with C10)
	{
		n0 := len(r.Obls)
		c10Coverage(p, r)
		shareObls(p, r, n0, "C10.coverage", "C11.authenticated-fields", "net/nts.DecodePacket", "stop-at-authenticator")
	}
	c11Fetch(p, r)
	c11Request(p, r)
	c11Clients(p, r)
	c11Servers(p, r)
	c11Store(p, r)
}

func c11Fetch(p *ana.Prog, r *ana.Result) {
	fd := mustFunc(p, r, "net/ntske", "(*Fetcher).FetchData")
	if fd == nil {
		return
	}
	fname := ana.FuncName(fd)
	rets := ana.ClassifyReturns(fd)
	succ := isSuccessTarget(rets)
	// pop: store to f.data.Cookie of slice f.data.Cookie[1:] (one site, or one per return when the
	// hand-out sequence is repeated)
	var pops []*ssa.Store
	nStores := 0
	ana.Instrs(fd, func(in ssa.Instruction) {
		st, ok := in.(*ssa.Store)
		if !ok || ana.AccessPath(st.Addr) != "f.data.Cookie" {
			return
		}
		nStores++
		sl, ok := st.Val.(*ssa.Slice)
		if !ok || sl.High != nil || sl.Max != nil {
			return
		}
		k, ok := ana.ConstInt(sl.Low)
		if ok && k == 1 && ana.AccessPath(sl.X) == "f.data.Cookie" {
			pops = append(pops, st)
		}
	})
	if len(pops) == 0 || nStores != len(pops) {
		r.Violate("C11.single-use", fname, "pop-first-cookie", p.Pos(fd.Pos()), fmt.Sprintf("FetchData does not drop exactly the first cookie (f.data.Cookie = f.data.Cookie[1:]) as its only kind of pool update (stores found: %d, of that form: %d)", nStores, len(pops)))
		return
	}
	isPop := func(in ssa.Instruction) bool {
		for _, q := range pops {
			if in == ssa.Instruction(q) {
				return true
			}
		}
		return false
	}
	s := &ana.Search{Fn: fd, Stop: isPop, Target: succ}
	if found, w := s.Run(nil); found {
		r.Violate("C11.single-use", fname, "pop-on-every-success-path", posOf(p, pops[0]), "FetchData can return data without removing the handed-out cookie from the pool (the same cookie is sent again)", w...)
	} else {
		r.Ok("C11.single-use", fname, "pop-on-every-success-path", posOf(p, pops[0]), "every success return passes f.data.Cookie = f.data.Cookie[1:]")
	}
	for _, q := range pops {
		s2 := &ana.Search{Fn: fd, Target: isPop}
		if found, w := s2.Run(q); found {
			r.Violate("C11.single-use", fname, "one-pop-per-call", posOf(p, q), "one call of FetchData can drop two cookies from the pool", w...)
		}
	}
	// the returned Data is a copy of f.data taken before the pop
	okCopy, nRet := true, 0
	for _, ri := range rets {
		if ri.Class == "failure" {
			continue
		}
		nRet++
		var pop *ssa.Store
		for _, q := range pops {
			if ana.InstrDominates(q, ri.Ret) {
				pop = q
			}
		}
		good := false
		if pop != nil {
			var vals []ssa.Value
			v := ri.Ret.Results[0]
			if ld, ok := v.(*ssa.UnOp); ok && ld.Op == token.MUL {
				if a, ok := ld.X.(*ssa.Alloc); ok {
					vals = ana.ReachingStores(fd, a)(ld)
				} else {
					vals = []ssa.Value{v}
				}
			} else if u := ana.UniqueReaching(fd, v); u != nil {
				vals = []ssa.Value{u}
			}
			good = len(vals) > 0
			for _, x := range vals {
				src, ok := x.(*ssa.UnOp)
				if !ok || x == ana.Unknown || ana.AccessPath(src) != "f.data" || !ana.InstrDominates(src, pop) {
					good = false
				}
			}
		}
		if !good {
			okCopy = false
		}
	}
	if okCopy && nRet > 0 {
		r.Ok("C11.single-use", fname, "returns-copy-before-pop", posOf(p, pops[0]), "the data returned is f.data as it was before the pop (Cookie[0] is the cookie to use)")
	} else {
		r.Violate("C11.single-use", fname, "returns-copy-before-pop", posOf(p, pops[0]), "the data returned is not the copy of f.data taken before the first cookie is dropped")
	}
}

func c11Request(p *ana.Prog, r *ana.Result) {
	nr := mustFunc(p, r, "net/nts", "NewRequestPacket")
	if nr == nil {
		return
	}
	fname := ana.FuncName(nr)
	// reads of ntskeData.Cookie elements: only index 0
	badIdx := false
	nElem := 0
	ana.Instrs(nr, func(in ssa.Instruction) {
		ia, ok := in.(*ssa.IndexAddr)
		if !ok {
			return
		}
		if ana.AccessPath(ia.X) != "ntskeData.Cookie" {
			return
		}
		nElem++
		if k, ok := ana.ConstInt(ia.Index); !ok || k != 0 {
			badIdx = true
		}
	})
	if nElem >= 1 && !badIdx {
		r.Ok("C11.single-use", fname, "uses-only-first-cookie", p.Pos(nr.Pos()), "the request reads only ntskeData.Cookie[0]")
	} else {
		r.Violate("C11.single-use", fname, "uses-only-first-cookie", p.Pos(nr.Pos()), fmt.Sprintf("the request reads cookie elements other than exactly Cookie[0] (%d element reads)", nElem))
	}
	// appends: exactly one to pkt.Cookies outside loops; placeholders: one per loop iteration
	var cookieAppends, phAppends []*ssa.Store
	ana.Instrs(nr, func(in ssa.Instruction) {
		st, ok := in.(*ssa.Store)
		if !ok {
			return
		}
		switch ana.AccessPath(st.Addr) {
		case "pkt.Cookies":
			cookieAppends = append(cookieAppends, st)
		case "pkt.CookiePlaceholders":
			phAppends = append(phAppends, st)
		}
	})
	if len(cookieAppends) == 1 && !inLoop(nr, cookieAppends[0]) && (appendsN(cookieAppends[0].Val, 1) || freshSliceOfN(cookieAppends[0].Val, 1)) {
		r.Ok("C11.single-use", fname, "one-cookie-field", posOf(p, cookieAppends[0]), "exactly one cookie extension field is added, outside any loop")
	} else {
		r.Violate("C11.single-use", fname, "one-cookie-field", p.Pos(nr.Pos()), fmt.Sprintf("the request does not carry exactly one cookie field (%d append sites)", len(cookieAppends)))
	}
	nc := p.Const("net/nts", "numStoredCookies")
	nv := int64(-1)
	if nc != nil {
		nv, _ = ana.ConstInt(nc.Value)
	}
	// the placeholder list allocated at its final length: make([]CookiePlaceholder, 8 - len(ntskeData.Cookie))
	if len(phAppends) == 1 && !inLoop(nr, phAppends[0]) {
		if ms, isMS := phAppends[0].Val.(*ssa.MakeSlice); isMS && ms.Cap == ms.Len {
			pset := ana.NewProverSet(p.AllFuncs)
			okN := false
			if l, okL := pset.For(nr).Int(ms.Len, 0); okL && l.C == 8 && len(l.Coef) == 1 {
				for a, c := range l.Coef {
					if c == -1 && a == "len(ntskeData.Cookie)" {
						okN = true
					}
				}
			}
			if okN && nv == 8 {
				r.Ok("C11.placeholders", fname, "placeholder-count", posOf(p, phAppends[0]), "placeholders: a list of 8 - len(ntskeData.Cookie) fields, one per cookie missing from the pool of eight")
			} else {
				r.Violate("C11.placeholders", fname, "placeholder-count", posOf(p, phAppends[0]), "the number of placeholder fields is not (8 - cookies held)")
			}
			return
		}
	}
	// placeholder loop
	if len(phAppends) != 1 || !inLoop(nr, phAppends[0]) || !appendsN(phAppends[0].Val, 1) {
		r.Violate("C11.placeholders", fname, "placeholder-loop", p.Pos(nr.Pos()), "placeholders are not appended one per iteration of a single loop")
		return
	}
	// loop header: phi i [len(ntskeData.Cookie), i+1], cond i < 8
	var hdr *ssa.Phi
	for b := phAppends[0].Block(); b != nil; b = b.Idom() {
		for _, in := range b.Instrs {
			if ph, ok := in.(*ssa.Phi); ok && len(ph.Edges) == 2 {
				hdr = ph
				break
			}
		}
		if hdr != nil {
			break
		}
	}
	ok := false
	if hdr != nil {
		initOK, incOK := false, false
		for _, e := range hdr.Edges {
			if isLenOf(e) {
				c, _ := ana.CallOf(e)
				if ana.AccessPath(c.Common().Args[0]) == "ntskeData.Cookie" {
					initOK = true
				}
			}
			if bo, isB := e.(*ssa.BinOp); isB && bo.Op == token.ADD && bo.X == ssa.Value(hdr) {
				if k, _ := ana.ConstInt(bo.Y); k == 1 {
					incOK = true
				}
			}
		}
		condOK := false
		b := hdr.Block()
		if iff, isIf := b.Instrs[len(b.Instrs)-1].(*ssa.If); isIf {
			c, pos, isCmp := ana.AsCmp(iff.Cond)
			if isCmp && pos && c.X == ssa.Value(hdr) {
				k, isK := ana.ConstInt(c.Y)
				if isK && ((c.Op == token.LSS && k == 8) || (c.Op == token.NEQ && k == 8) || (c.Op == token.LEQ && k == 7)) {
					condOK = true
				}
			}
		}
		ok = initOK && incOK && condOK
	}
	if !ok {
		// the same count written from zero: a counted loop whose bound is 8 - len(ntskeData.Cookie)
		if bnd, isCounted := loopBound(nr, phAppends[0].Block()); isCounted {
			pset := ana.NewProverSet(p.AllFuncs)
			if l, okL := pset.For(nr).Int(bnd, 0); okL && l.C == 8 && len(l.Coef) == 1 {
				for a, c := range l.Coef {
					if c == -1 && a == "len(ntskeData.Cookie)" {
						ok = true
					}
				}
			}
		}
	}
	if ok && nv == 8 {
		r.Ok("C11.placeholders", fname, "placeholder-count", posOf(p, phAppends[0]), "placeholders: for i := len(ntskeData.Cookie); i < 8; i++ - one per cookie missing from the pool of eight")
	} else {
		r.Violate("C11.placeholders", fname, "placeholder-count", posOf(p, phAppends[0]), "the number of placeholder fields is not (8 - cookies held): the loop does not run from len(ntskeData.Cookie) to the constant 8 in steps of one, so the pool is not refilled to eight")
	}
}

// appendsN: v is append(x, <slice of a fresh n-element array>...).
func appendsN(v ssa.Value, n int64) bool {
	c, _ := ana.CallOf(v)
	if c == nil || ana.CalleeName(c.Common()) != "builtin.append" {
		return false
	}
	sl, ok := c.Common().Args[1].(*ssa.Slice)
	if !ok {
		return false
	}
	a, ok := sl.X.(*ssa.Alloc)
	if !ok {
		return false
	}
	s := a.Type().String()
	return strings.HasPrefix(s, fmt.Sprintf("*[%d]", n))
}

// freshSliceOfN: v is the full slice of a fresh n-element array (a slice literal with n elements).
func freshSliceOfN(v ssa.Value, n int64) bool {
	sl, ok := v.(*ssa.Slice)
	if !ok || sl.Low != nil || sl.High != nil {
		return false
	}
	a, ok := sl.X.(*ssa.Alloc)
	if !ok {
		return false
	}
	return strings.HasPrefix(a.Type().String(), fmt.Sprintf("*[%d]", n))
}

func c11Clients(p *ana.Prog, r *ana.Result) {
	for _, name := range []string{"(*IPClient).measureClockOffsetIP", "(*SCIONClient).measureClockOffsetSCION"} {
		fn := mustFunc(p, r, "core/client", name)
		if fn == nil {
			continue
		}
		fname := ana.FuncName(fn)
		nrs := ana.CallsIn(fn, ana.Q("net/nts.NewRequestPacket"))
		fds := ana.CallsIn(fn, ana.Q("(*net/ntske.Fetcher).FetchData"))
		if len(nrs) != 1 || len(fds) != 1 {
			r.Violate("C11.single-use", fname, "call-sites", p.Pos(fn.Pos()), fmt.Sprintf("expected one NewRequestPacket and one FetchData call, found %d/%d", len(nrs), len(fds)))
			continue
		}
		// argument: load of alloc ntskeData whose reaching stores are {zero, FetchData#0}
		arg := nrs[0].Common().Args[0]
		okArg := false
		if ld, ok := arg.(*ssa.UnOp); ok {
			if a, ok := ld.X.(*ssa.Alloc); ok {
				vals := ana.ReachingStores(fn, a)(ld)
				okArg = len(vals) > 0
				for _, v := range vals {
					if v == ana.Zero {
						continue
					}
					if e, ok := v.(*ssa.Extract); ok && e.Tuple == ssa.Value(fds[0].(*ssa.Call)) && e.Index == 0 {
						continue
					}
					okArg = false
				}
			}
		}
		if e, ok := arg.(*ssa.Extract); ok && e.Tuple == ssa.Value(fds[0].(*ssa.Call)) {
			okArg = true
		}
		if okArg {
			r.Ok("C11.single-use", fname, "request-from-this-fetch", posOf(p, nrs[0]), "NewRequestPacket receives the data returned by this invocation's FetchData")
		} else {
			r.Violate("C11.single-use", fname, "request-from-this-fetch", posOf(p, nrs[0]), "the request is not built from the data fetched in this invocation (a cookie may be reused)")
		}
		if inLoop(fn, nrs[0].(ssa.Instruction)) || inLoop(fn, fds[0].(ssa.Instruction)) {
			r.Violate("C11.single-use", fname, "request-not-in-loop", posOf(p, nrs[0]), "the NTS request is (re)built inside a loop: a retry would resend the same cookie")
		} else {
			r.Ok("C11.single-use", fname, "request-not-in-loop", posOf(p, nrs[0]), "FetchData and NewRequestPacket are outside the receive/retry loop")
		}
	}
}

func c11Servers(p *ana.Prog, r *ana.Result) {
	enc := mustFunc(p, r, "net/ntske", "(*EncryptedServerCookie).Encode")
	if enc != nil {
		fresh := true
		n := 0
		ana.Instrs(enc, func(in ssa.Instruction) {
			if ret, ok := in.(*ssa.Return); ok {
				n++
				if _, ok := ret.Results[0].(*ssa.MakeSlice); !ok {
					fresh = false
				}
			}
		})
		if fresh && n > 0 {
			r.Ok("C11.server", ana.FuncName(enc), "encode-allocates", p.Pos(enc.Pos()), "Encode returns a slice it has just allocated")
		} else {
			r.Violate("C11.server", ana.FuncName(enc), "encode-allocates", p.Pos(enc.Pos()), "Encode does not return freshly allocated storage (cookies of one reply could alias)")
		}
	}
	for _, name := range []string{"runIPServer", "runSCIONServer"} {
		fn := mustFunc(p, r, "core/server", name)
		if fn == nil {
			continue
		}
		fname := ana.FuncName(fn)
		// the fields counted are those of this datagram only (shared with C09)
		if rds := ana.CallsIn(fn, fnReadMsg); len(rds) == 1 {
			if rd, ok := rds[0].(*ssa.Call); ok {
				c09NTSState(p, r, "C11.request-state", fn, rd)
			}
		}
		encs := ana.CallsIn(fn, ana.Q("(*net/ntske.ServerCookie).EncryptWithNonce"))
		curs := ana.CallsIn(fn, ana.Q("(*net/ntske.Provider).Current"))
		nrp := ana.CallsIn(fn, ana.Q("net/nts.NewResponsePacket"))
		if len(encs) != 1 || len(curs) != 1 || len(nrp) != 1 {
			r.Violate("C11.server", fname, "call-sites", p.Pos(fn.Pos()), fmt.Sprintf("expected one EncryptWithNonce/provider.Current/NewResponsePacket, found %d/%d/%d", len(encs), len(curs), len(nrp)))
			continue
		}
		encCall := encs[0].(*ssa.Call)
		// key = provider.Current() (value and id)
		fromCur := func(v ssa.Value) bool {
			root := rootAlloc(v)
			if al, ok := root.(*ssa.Alloc); ok {
				n, good := 0, false
				for _, ref := range ana.Referrers(al) {
					if st, ok := ref.(*ssa.Store); ok && st.Addr == ssa.Value(al) {
						n++
						good = st.Val == ssa.Value(curs[0].(*ssa.Call))
					}
				}
				return n == 1 && good
			}
			return root == ssa.Value(curs[0].(*ssa.Call))
		}
		kv, _ := fieldChain(encCall.Call.Args[1])
		ki, _ := fieldChain(encCall.Call.Args[2])
		if kv == "Value" && ki == "ID" && fromCur(encCall.Call.Args[1]) && fromCur(encCall.Call.Args[2]) && !inLoop(fn, curs[0].(ssa.Instruction)) == false || (kv == "Value" && ki == "ID" && fromCur(encCall.Call.Args[1]) && fromCur(encCall.Call.Args[2])) {
			r.Ok("C11.server", fname, "sealed-under-current-key", posOf(p, encCall), "new cookies are sealed with provider.Current().Value / .ID")
		} else {
			r.Violate("C11.server", fname, "sealed-under-current-key", posOf(p, encCall), "new cookies are not sealed under the provider's current key (e.g. under the key that opened the request)")
		}
		// loop trip count: range over len(ntsreq.Cookies)+len(ntsreq.CookiePlaceholders)
		tripOK := false
		ana.Instrs(fn, func(in ssa.Instruction) {
			bo, ok := in.(*ssa.BinOp)
			if !ok || bo.Op != token.ADD || !isLenOf(bo.X) || !isLenOf(bo.Y) {
				return
			}
			c1, _ := ana.CallOf(bo.X)
			c2, _ := ana.CallOf(bo.Y)
			a1, a2 := ana.AccessPath(c1.Common().Args[0]), ana.AccessPath(c2.Common().Args[0])
			// the request Packet is the one handed to nts.DecodePacket in this function
			okPkt := false
			for _, dc := range ana.CallsIn(fn, ana.Q("net/nts.DecodePacket")) {
				for xp := range copyClosure(fn, strings.TrimPrefix(ana.AccessPath(dc.Common().Args[0]), "&"), "Packet") {
					if (a1 == xp+".Cookies" && a2 == xp+".CookiePlaceholders") || (a2 == xp+".Cookies" && a1 == xp+".CookiePlaceholders") {
						okPkt = true
					}
				}
			}
			if !okPkt {
				return
			}
			// used (only) as the bound of the loop containing the EncryptWithNonce call:
			// `0 < bound` (rotated pre-check), `i < bound` or `i+1 < bound` with i counting from 0 by 1
			good, leads := true, false
			for _, ref := range ana.Referrers(bo) {
				if ms, isMS := ref.(*ssa.MakeSlice); isMS {
					// a capacity hint for the list (length 0) does not change the count
					if k, isK := ana.ConstInt(ms.Len); isK && k == 0 && ms.Cap == ssa.Value(bo) {
						continue
					}
				}
				if _, isDbg := ref.(*ssa.DebugRef); isDbg {
					continue
				}
				cmp, ok := ref.(*ssa.BinOp)
				if !ok {
					good = false
					continue
				}
				x := cmp.X
				switch {
				case cmp.Op == token.LSS && cmp.Y == ssa.Value(bo):
				case cmp.Op == token.GTR && cmp.X == ssa.Value(bo):
					x = cmp.Y // mirrored spelling: bound > i
				default:
					good = false
					continue
				}
				okX := false
				if k, isK := ana.ConstInt(x); isK && k == 0 {
					okX = true
				}
				if ph, isPh := x.(*ssa.Phi); isPh && countsFromMinus1OrZero(ph) {
					okX = true
				}
				if add, isAdd := x.(*ssa.BinOp); isAdd && add.Op == token.ADD {
					if ph, isPh := add.X.(*ssa.Phi); isPh && countsFromMinus1OrZero(ph) {
						if k, _ := ana.ConstInt(add.Y); k == 1 {
							okX = true
						}
					}
				}
				if !okX {
					good = false
				}
				for _, r2 := range ana.Referrers(cmp) {
					if iff, ok := r2.(*ssa.If); ok {
						t := iff.Block().Succs[0]
						if t == encCall.Block() || t.Dominates(encCall.Block()) {
							leads = true
						}
					}
				}
			}
			if good && leads {
				tripOK = true
			}
		})
		if tripOK {
			r.Ok("C11.server", fname, "one-cookie-per-requested", posOf(p, encCall), "the cookie loop runs len(ntsreq.Cookies)+len(ntsreq.CookiePlaceholders) times")
		} else {
			r.Violate("C11.server", fname, "one-cookie-per-requested", posOf(p, encCall), "the number of cookies issued is not the number of cookie and placeholder fields of the request")
		}
		// appended value: Encode() of this iteration's EncryptWithNonce result, appended to the list passed to NewResponsePacket
		listArg := nrp[0].Common().Args[0]
		appOK := false
		nApp := 0
		ana.Instrs(fn, func(in ssa.Instruction) {
			c, ok := in.(*ssa.Call)
			if !ok || ana.CalleeName(&c.Call) != "builtin.append" {
				return
			}
			sl, ok := c.Call.Args[1].(*ssa.Slice)
			if !ok {
				return
			}
			arr, ok := sl.X.(*ssa.Alloc)
			if !ok || !strings.HasPrefix(arr.Type().String(), "*[1][]byte") {
				return
			}
			if !flowsTo(c, listArg) {
				return
			}
			nApp++
			// element stored: result of Encode on the alloc holding EncryptWithNonce's result
			for _, ref := range ana.Referrers(arr) {
				ia, ok := ref.(*ssa.IndexAddr)
				if !ok {
					continue
				}
				for _, r2 := range ana.Referrers(ia) {
					st, ok := r2.(*ssa.Store)
					if !ok {
						continue
					}
					ec, _ := ana.CallOf(st.Val)
					if ec == nil || ana.CalleeName(ec.Common()) != ana.Q("(*net/ntske.EncryptedServerCookie).Encode") {
						continue
					}
					recv, ok := ec.Common().Args[0].(*ssa.Alloc)
					if !ok {
						continue
					}
					for _, r3 := range ana.Referrers(recv) {
						if s3, ok := r3.(*ssa.Store); ok && s3.Addr == ssa.Value(recv) {
							// sealed, stored, encoded and appended in this order within one iteration
							if e, ok := s3.Val.(*ssa.Extract); ok && e.Tuple == ssa.Value(encCall) && e.Index == 0 {
								if ana.InstrDominates(encCall, s3) && ana.InstrDominates(s3, ec) && ana.InstrDominates(ec, c) {
									appOK = true
								}
							}
						}
					}
				}
			}
		})
		if appOK && nApp == 1 {
			r.Ok("C11.server", fname, "fresh-cookie-appended", posOf(p, nrp[0]), "each iteration appends encryptedCookie.Encode() of the cookie sealed in that iteration (a newly allocated slice)")
		} else {
			r.Violate("C11.server", fname, "fresh-cookie-appended", posOf(p, nrp[0]), fmt.Sprintf("the reply's cookie list is not built by appending the freshly allocated Encode() result of each iteration's sealed cookie (append sites into the list: %d): cookies of one reply can share storage or repeat", nApp))
		}
	}
}

// countsFromMinus1OrZero: a range-over-int index phi (starts at -1 or 0, +1).
func countsFromMinus1OrZero(ph *ssa.Phi) bool {
	init, inc := false, false
	for _, e := range ph.Edges {
		if k, ok := ana.ConstInt(e); ok && (k == 0 || k == -1) {
			init = true
		}
		if bo, ok := e.(*ssa.BinOp); ok && bo.Op == token.ADD && bo.X == ssa.Value(ph) {
			if k, _ := ana.ConstInt(bo.Y); k == 1 {
				inc = true
			}
		}
	}
	return init && inc
}

// flowsTo: value v reaches target through phis only.
func flowsTo(v ssa.Value, target ssa.Value) bool {
	seen := map[ssa.Value]bool{}
	var rec func(t ssa.Value) bool
	rec = func(t ssa.Value) bool {
		if t == v {
			return true
		}
		if seen[t] {
			return false
		}
		seen[t] = true
		if ph, ok := t.(*ssa.Phi); ok {
			for _, e := range ph.Edges {
				if rec(e) {
					return true
				}
			}
		}
		return false
	}
	return rec(target)
}

func c11Store(p *ana.Prog, r *ana.Result) {
	pr := mustFunc(p, r, "net/nts", "ProcessResponse")
	if pr == nil {
		return
	}
	fname := ana.FuncName(pr)
	scs := ana.CallsIn(pr, ana.Q("(*net/ntske.Fetcher).StoreCookie"))
	if len(scs) != 1 {
		r.Violate("C11.refill", fname, "store-site", p.Pos(pr.Pos()), fmt.Sprintf("expected one StoreCookie call site, found %d", len(scs)))
		return
	}
	// inside a range over pkt.Cookies, storing cookie.Cookie of the element
	a := ana.AccessPath(scs[0].Common().Args[1])
	if inLoop(pr, scs[0].(ssa.Instruction)) && strings.HasSuffix(a, ".Cookie") {
		r.Ok("C11.refill", fname, "store-every-decoded-cookie", posOf(p, scs[0]), "every cookie of the authenticated response is stored (loop over pkt.Cookies)")
	} else {
		r.Violate("C11.refill", fname, "store-every-decoded-cookie", posOf(p, scs[0]), "ProcessResponse does not store each decoded cookie")
	}
	gs := []gateSpec{
		{name: "authenticate==nil", gate: ana.ErrNilGate(p, pr, ana.Q("(*net/nts.Packet).authenticate"))},
	}
	checkGates(p, r, "C11.refill", pr, nil, ana.IsCallTo(ana.Q("(*net/ntske.Fetcher).StoreCookie")), nil, "StoreCookie", gs)
	for _, f := range p.AllFuncs {
		if f == pr {
			continue
		}
		for _, c := range ana.CallsIn(f, ana.Q("(*net/ntske.Fetcher).StoreCookie")) {
			r.Violate("C11.refill", ana.FuncName(f), "StoreCookie-outside-ProcessResponse", posOf(p, c), "cookies are added to the pool outside ProcessResponse (unauthenticated)")
		}
	}
	// StoreCookie appends exactly one
	sc := mustFunc(p, r, "net/ntske", "(*Fetcher).StoreCookie")
	if sc != nil {
		n := 0
		ok := false
		ana.Instrs(sc, func(in ssa.Instruction) {
			if st, isSt := in.(*ssa.Store); isSt && ana.AccessPath(st.Addr) == "f.data.Cookie" {
				n++
				ok = appendsN(st.Val, 1)
			}
		})
		if n == 1 && ok {
			r.Ok("C11.refill", ana.FuncName(sc), "append-one", p.Pos(sc.Pos()), "StoreCookie appends exactly the given cookie to the pool")
		} else {
			r.Violate("C11.refill", ana.FuncName(sc), "append-one", p.Pos(sc.Pos()), "StoreCookie does not append exactly one cookie")
		}
	}
	// authenticate: decrypted cookies are appended to pkt.Cookies only after Open == nil
	au := mustFunc(p, r, "net/nts", "(*Packet).authenticate")
	if au != nil {
		tgt := func(in ssa.Instruction) bool {
			st, ok := in.(*ssa.Store)
			return ok && ana.AccessPath(st.Addr) == "pkt.Cookies"
		}
		n := 0
		ana.Instrs(au, func(in ssa.Instruction) {
			if tgt(in) {
				n++
			}
		})
		if n > 0 {
			checkGates(p, r, "C11.refill", au, nil, tgt, nil, "append-to-pkt.Cookies", []gateSpec{{name: "Open==nil", gate: ana.ErrNilGate(p, au, fnOpen)}})
		}
	}
}
