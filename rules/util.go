package rules

import (
	"go/token"
	"go/types"
	"strings"

	"golang.org/x/tools/go/ssa"

	"verif/internal/ana"
)

// fieldChain returns the chain of field names / index markers of an address or
// field value, and the root value it starts from: &x.buf[i].rxt -> ("buf[].rxt", x).
func fieldChain(v ssa.Value) (string, ssa.Value) {
	var parts []string
	for i := 0; i < 24; i++ {
		switch x := v.(type) {
		case *ssa.FieldAddr:
			parts = append([]string{fieldNameOf(x.X.Type(), x.Field)}, parts...)
			v = x.X
		case *ssa.Field:
			parts = append([]string{fieldNameOf(x.X.Type(), x.Field)}, parts...)
			v = x.X
		case *ssa.IndexAddr:
			parts = append([]string{"[]"}, parts...)
			v = x.X
		case *ssa.Index:
			parts = append([]string{"[]"}, parts...)
			v = x.X
		case *ssa.UnOp:
			if x.Op != token.MUL {
				return join(parts), v
			}
			// load of an addressable location continues the chain; a plain
			// pointer dereference of a root ends it
			switch x.X.(type) {
			case *ssa.FieldAddr, *ssa.IndexAddr:
				v = x.X
			default:
				return join(parts), v
			}
		default:
			return join(parts), v
		}
	}
	return join(parts), v
}

func join(parts []string) string {
	s := strings.Join(parts, ".")
	return strings.ReplaceAll(s, ".[]", "[]")
}

func fieldNameOf(t types.Type, i int) string {
	if p, ok := t.Underlying().(*types.Pointer); ok {
		t = p.Elem()
	}
	if s, ok := t.Underlying().(*types.Struct); ok && i < s.NumFields() {
		return s.Field(i).Name()
	}
	return "?"
}

// typeNameOf returns the name of the (pointer to) named type of v.
func typeNameOf(t types.Type) string {
	if p, ok := t.Underlying().(*types.Pointer); ok {
		t = p.Elem()
	}
	if n, ok := t.(*types.Named); ok {
		return n.Obj().Name()
	}
	return ""
}

// indexOfAddr returns the index value of the innermost IndexAddr in an address chain.
func indexOfAddr(v ssa.Value) ssa.Value {
	for i := 0; i < 24; i++ {
		switch x := v.(type) {
		case *ssa.FieldAddr:
			v = x.X
		case *ssa.IndexAddr:
			return x.Index
		case *ssa.UnOp:
			v = x.X
		default:
			return nil
		}
	}
	return nil
}

// refsGlobal reports whether instruction in references global g as an operand.
func refsGlobal(in ssa.Instruction, g *ssa.Global) bool {
	for _, op := range in.Operands(nil) {
		if *op == ssa.Value(g) {
			return true
		}
	}
	return false
}

// instrIndex returns the index of an instruction in its block.
func instrIndex(in ssa.Instruction) int {
	for i, x := range in.Block().Instrs {
		if x == in {
			return i
		}
	}
	return -1
}

// isBuiltinCall reports a call to builtin name and returns it.
func isBuiltinCall(in ssa.Instruction, name string) *ssa.Call {
	c, ok := in.(*ssa.Call)
	if !ok {
		return nil
	}
	if b, ok := c.Call.Value.(*ssa.Builtin); ok && b.Name() == name {
		return c
	}
	return nil
}

// loadsGlobal: v is `*g`.
func loadsGlobal(v ssa.Value, g *ssa.Global) bool {
	u, ok := v.(*ssa.UnOp)
	return ok && u.Op == token.MUL && u.X == ssa.Value(g)
}

// heapIfaceOf: v is `make heap.Interface <- *tssQueue (g)`.
func ifaceOfGlobal(v ssa.Value, g *ssa.Global) bool {
	m, ok := v.(*ssa.MakeInterface)
	return ok && m.X == ssa.Value(g)
}

// posOf returns a printable position for an instruction, falling back to the block's first position.
func posOf(p *ana.Prog, in ssa.Instruction) string {
	if in.Pos().IsValid() {
		return p.Pos(in.Pos())
	}
	for _, x := range in.Block().Instrs {
		if x.Pos().IsValid() {
			return p.Pos(x.Pos())
		}
	}
	return p.Pos(in.Parent().Pos())
}

// loopBound recognises the counted loops `for i := 0; i < B; i++`, `for i := 0; i != B; i++`,
// `for i := range B` (rotated form) and `for i, x := range s` (B = len(s)) around block blk and
// returns B when blk executes exactly once per iteration i = 0..B-1 (it dominates the
// back edge). Other loop shapes are not recognised (ok=false).
func loopBound(fn *ssa.Function, blk *ssa.BasicBlock) (ssa.Value, bool) {
	for _, h := range fn.Blocks {
		var latch *ssa.BasicBlock
		for _, pr := range h.Preds {
			if h.Dominates(pr) {
				latch = pr
			}
		}
		if latch == nil || !(h == blk || h.Dominates(blk)) || !(blk == latch || blk.Dominates(latch)) {
			continue
		}
		for _, in := range h.Instrs {
			ph, ok := in.(*ssa.Phi)
			if !ok {
				break
			}
			var entry ssa.Value
			var inc *ssa.BinOp
			okShape := true
			for i, e := range ph.Edges {
				if h.Dominates(h.Preds[i]) {
					bo, isBo := e.(*ssa.BinOp)
					if !isBo || bo.Op != token.ADD || bo.X != ssa.Value(ph) {
						okShape = false
						break
					}
					if k, isK := ana.ConstInt(bo.Y); !isK || k != 1 {
						okShape = false
						break
					}
					inc = bo
				} else {
					entry = e
				}
			}
			if !okShape || inc == nil || entry == nil {
				// range-over-slice lowering: the increment is computed in the header itself
				continue
			}
			e0, isK := ana.ConstInt(entry)
			if !isK {
				continue
			}
			// continuation tests
			var found ssa.Value
			ana.IfEdges(fn, func(iff *ssa.If, b *ssa.BasicBlock) {
				c, pos, isCmp := ana.AsCmpDir(iff.Cond, token.LSS)
				if !isCmp || !pos || (c.Op != token.LSS && c.Op != token.NEQ) {
					return
				}
				inLoop := b == h || h.Dominates(b)
				if !inLoop {
					return
				}
				switch {
				case c.X == ssa.Value(ph) && e0 == 0 && b == h:
					// for i := 0; i < B; i++ : body entered while the test holds
					if b.Succs[0] == blk || b.Succs[0].Dominates(blk) {
						found = c.Y
					}
				case c.X == ssa.Value(inc) && e0 == -1:
					// range over a slice: next = idx+1; next < len(s)
					found = c.Y
				case c.X == ssa.Value(inc) && e0 == 0 && (b == latch || b.Dominates(latch)):
					// rotated `for i := range B`: needs the entry guard 0 < B
					guard := false
					ana.IfEdges(fn, func(iff2 *ssa.If, b2 *ssa.BasicBlock) {
						c2, pos2, isCmp2 := ana.AsCmpDir(iff2.Cond, token.LSS)
						if isCmp2 && pos2 && c2.Op == token.LSS && c2.Y == c.Y {
							if k, ok := ana.ConstInt(c2.X); ok && k == 0 && (b2.Succs[0] == h || b2.Succs[0].Dominates(h)) {
								guard = true
							}
						}
					})
					if guard {
						found = c.Y
					}
				}
			})
			if found != nil {
				return found, true
			}
		}
		// range over a slice: header holds  idx = phi[-1, next]; next = idx + 1; if next < len(s)
		for _, in := range h.Instrs {
			ph, ok := in.(*ssa.Phi)
			if !ok {
				break
			}
			for i, e := range ph.Edges {
				if !h.Dominates(h.Preds[i]) {
					continue
				}
				bo, isBo := e.(*ssa.BinOp)
				if !isBo || bo.Op != token.ADD || bo.X != ssa.Value(ph) || bo.Block() != h {
					continue
				}
				if iff, ok := h.Instrs[len(h.Instrs)-1].(*ssa.If); ok {
					c, pos, isCmp := ana.AsCmpDir(iff.Cond, token.LSS)
					if isCmp && pos && c.Op == token.LSS && c.X == ssa.Value(bo) {
						return c.Y, true
					}
				}
			}
		}
	}
	return nil, false
}

// isRecordHdrField: v is (the address or a load of) field fld of a local of type
// ntske.RecordHdr - whatever that local is called.
func isRecordHdrField(v ssa.Value, fld string) bool {
	if u, ok := v.(*ssa.UnOp); ok && u.Op == token.MUL {
		v = u.X
	}
	switch x := v.(type) {
	case *ssa.FieldAddr:
		return typeNameOf(x.X.Type()) == "RecordHdr" && fieldNameOf(x.X.Type(), x.Field) == fld
	case *ssa.Field:
		return typeNameOf(x.X.Type()) == "RecordHdr" && fieldNameOf(x.X.Type(), x.Field) == fld
	case *ssa.Convert:
		return isRecordHdrField(x.X, fld)
	case *ssa.BinOp:
		// the record type with the critical bit masked out, kept in a local instead of in place
		if fld == "Type" && (x.Op == token.AND_NOT || x.Op == token.AND) {
			if _, isK := ana.ConstInt(x.Y); isK {
				return isRecordHdrField(x.X, fld)
			}
		}
	}
	return false
}

// isRecordHdrVar: v is (the address of) a local of type ntske.RecordHdr.
func isRecordHdrVar(v ssa.Value) bool {
	if mi, ok := v.(*ssa.MakeInterface); ok {
		v = mi.X
	}
	a, ok := v.(*ssa.Alloc)
	return ok && typeNameOf(a.Type()) == "RecordHdr"
}

// strictOrder reads v as a strict order test between two timestamps: a.After(b) and
// b.Before(a) both say that b is earlier than a (ntp.Time64 and time.Time; the two
// methods are mirror images of each other).
func strictOrder(v ssa.Value) (earlier, later ssa.Value, call *ssa.Call, ok bool) {
	c, _ := ana.CallOf(v)
	if c == nil || len(c.Common().Args) != 2 {
		return nil, nil, nil, false
	}
	a, b := c.Common().Args[0], c.Common().Args[1]
	switch ana.CalleeName(c.Common()) {
	case ana.Q("(net/ntp.Time64).After"), "(time.Time).After":
		return b, a, c, true
	case ana.Q("(net/ntp.Time64).Before"), "(time.Time).Before":
		return a, b, c, true
	}
	return nil, nil, nil, false
}

// localFieldStore reports whether st assigns field `field` of a function-local value of the
// named struct type - whatever the variable is called, and also when the value is first
// built as a composite literal.
func localFieldStore(st *ssa.Store, typeName, field string) bool {
	fa, ok := st.Addr.(*ssa.FieldAddr)
	if !ok || typeNameOf(fa.X.Type()) != typeName || fieldNameOf(fa.X.Type(), fa.Field) != field {
		return false
	}
	_, isLocal := rootAlloc(fa.X).(*ssa.Alloc)
	return isLocal
}

// inLoopOf: blk belongs to the natural loop with the given header (dominated by the header and
// able to reach it again).
func inLoopOf(header, blk *ssa.BasicBlock) bool {
	if !header.Dominates(blk) {
		return false
	}
	seen := map[*ssa.BasicBlock]bool{}
	var walk func(b *ssa.BasicBlock) bool
	walk = func(b *ssa.BasicBlock) bool {
		if b == header {
			return true
		}
		if seen[b] || !header.Dominates(b) {
			return false
		}
		seen[b] = true
		for _, s := range b.Succs {
			if walk(s) {
				return true
			}
		}
		return false
	}
	for _, s := range blk.Succs {
		if walk(s) {
			return true
		}
	}
	return false
}

// localStructField resolves the value that field path (e.g. "Validity", "NotBefore") of the
// struct value v holds, when v is (a load of) a local variable that is filled by field stores
// and/or whole assignments of other such locals (composite literals, copies). It follows the
// unique store that supplies the field; nil when the value is not determined that way.
func localStructField(v ssa.Value, path []string, depth int) ssa.Value {
	if depth > 8 {
		return nil
	}
	if len(path) == 0 {
		// a register value, unless it is itself a load of a local's field
		u, ok := v.(*ssa.UnOp)
		if !ok || u.Op != token.MUL {
			return v
		}
		if _, isFA := u.X.(*ssa.FieldAddr); !isFA {
			return v
		}
		if _, isLocal := rootAlloc(u.X).(*ssa.Alloc); !isLocal {
			return v
		}
	}
	switch x := v.(type) {
	case *ssa.Field:
		// (struct value).f: resolve the base with the field prepended
		return localStructField(x.X, append([]string{fieldNameOf(x.X.Type(), x.Field)}, path...), depth+1)
	case *ssa.UnOp:
		if x.Op != token.MUL {
			return nil
		}
		// load of (a field of) a local
		var pre []string
		addr := x.X
		for {
			fa, ok := addr.(*ssa.FieldAddr)
			if !ok {
				break
			}
			pre = append([]string{fieldNameOf(fa.X.Type(), fa.Field)}, pre...)
			addr = fa.X
		}
		al, ok := addr.(*ssa.Alloc)
		if !ok {
			return nil
		}
		full := append(append([]string{}, pre...), path...)
		// stores into al: at a prefix of full (the rest is resolved inside the stored value), or below
		type cand struct {
			val  ssa.Value
			rest []string
		}
		var cands []cand
		var walk func(a ssa.Value, at []string) bool
		walk = func(a ssa.Value, at []string) bool {
			for _, ref := range ana.Referrers(a) {
				switch y := ref.(type) {
				case *ssa.Store:
					if y.Addr != a {
						continue
					}
					// at must be a prefix of full
					if len(at) <= len(full) && strings.Join(at, ".") == strings.Join(full[:len(at)], ".") {
						cands = append(cands, cand{y.Val, full[len(at):]})
					}
				case *ssa.FieldAddr:
					nm := fieldNameOf(y.X.Type(), y.Field)
					na := append(append([]string{}, at...), nm)
					// only paths compatible with full matter
					if len(na) <= len(full) && strings.Join(na, ".") == strings.Join(full[:len(na)], ".") {
						if !walk(y, na) {
							return false
						}
					}
				case *ssa.UnOp, *ssa.DebugRef:
				case ssa.CallInstruction:
					return false // the address escapes
				}
			}
			return true
		}
		if !walk(al, nil) || len(cands) != 1 {
			return nil
		}
		return localStructField(cands[0].val, cands[0].rest, depth+1)
	}
	return nil
}

// resolveLocal: a load of a local struct's field is replaced by the value stored there.
func resolveLocal(v ssa.Value) ssa.Value {
	if r := localStructField(v, nil, 0); r != nil {
		return r
	}
	return v
}

// stripZeroMerge looks through merges whose other inputs are zero values: phi(0, v) is v for a
// rule in which the zero value is the safe side (an empty buffer does not decode, the zero
// address equals no peer). This is the form a helper with `return 0, T{}, err` failure arms
// leaves behind once it is inlined.
func stripZeroMerge(v ssa.Value) ssa.Value {
	for d := 0; d < 6; d++ {
		ph, ok := v.(*ssa.Phi)
		if !ok {
			return v
		}
		var other ssa.Value
		for _, e := range ph.Edges {
			if c, isC := e.(*ssa.Const); isC && (c.Value == nil || c.IsNil() || isZeroConst(c)) {
				continue
			}
			if other != nil && other != e {
				return v
			}
			other = e
		}
		if other == nil {
			return v
		}
		v = other
	}
	return v
}

// copyClosure returns the access paths of the locals of type typeName that hold a copy of the
// local at seedPath: every whole store to such a local is the zero value or a load of a local
// already in the set (v2 = v1, also on the success arm of an inlined helper whose failure arms
// return T{}).
func copyClosure(fn *ssa.Function, seedPath, typeName string) map[string]bool {
	paths := map[string]bool{seedPath: true}
	pathOf := func(v ssa.Value) string { return strings.TrimPrefix(ana.AccessPath(v), "&") }
	for changed := true; changed; {
		changed = false
		for _, b := range fn.Blocks {
			for _, in := range b.Instrs {
				al, ok := in.(*ssa.Alloc)
				if !ok || paths[pathOf(al)] || typeNameOf(al.Type()) != typeName {
					continue
				}
				okAll, n := true, 0
				for _, ref := range ana.Referrers(al) {
					st, ok := ref.(*ssa.Store)
					if !ok || st.Addr != ssa.Value(al) {
						continue
					}
					if _, isC := st.Val.(*ssa.Const); isC {
						continue
					}
					if ld, ok := st.Val.(*ssa.UnOp); ok && ld.Op == token.MUL && paths[pathOf(ld.X)] {
						n++
						continue
					}
					okAll = false
				}
				if okAll && n > 0 {
					paths[pathOf(al)] = true
					changed = true
				}
			}
		}
	}
	return paths
}

// shareObls keeps, of the obligations recorded since position n0, those whose key contains one of
// the given constructs, renamed from rule `from` to rule `to`; everything else recorded since n0 is
// dropped (it belongs to the property the rule was borrowed from). If the borrowed rule produced no
// obligation for a construct - it gave up earlier, under another key - that is reported as
// undecided rather than silently passed.
func shareObls(p *ana.Prog, r *ana.Result, n0 int, from, to, fn string, constructs ...string) {
	kept := r.Obls[:n0]
	got := map[string]bool{}
	for _, o := range r.Obls[n0:] {
		for _, c := range constructs {
			if strings.Contains(o.Key, c) && strings.HasPrefix(o.Key, from) {
				o.Rule = to
				o.Key = strings.Replace(o.Key, from, to, 1)
				kept = append(kept, o)
				got[c] = true
				break
			}
		}
	}
	r.Obls = kept
	for _, c := range constructs {
		if !got[c] {
			r.Violate(to, fn, c, "-", "UNDECIDED: the shared rule "+from+" produced no decision for "+c+" (it stopped at an earlier anchor)")
		}
	}
}
