package rules

import (
	"go/token"
	"go/types"
	"strings"

	"golang.org/x/tools/go/ssa"

	"verif/internal/ana"
)

// fieldChain returns the chain of field names / index markers of an address or
// field value, and the root value it starts from: &x.buf[i].rxt -> ("buf[].rxt", x).
func fieldChain(v ssa.Value) (string, ssa.Value) {
	var parts []string
	for i := 0; i < 24; i++ {
		switch x := v.(type) {
		case *ssa.FieldAddr:
			parts = append([]string{fieldNameOf(x.X.Type(), x.Field)}, parts...)
			v = x.X
		case *ssa.Field:
			parts = append([]string{fieldNameOf(x.X.Type(), x.Field)}, parts...)
			v = x.X
		case *ssa.IndexAddr:
			parts = append([]string{"[]"}, parts...)
			v = x.X
		case *ssa.Index:
			parts = append([]string{"[]"}, parts...)
			v = x.X
		case *ssa.UnOp:
			if x.Op != token.MUL {
				return join(parts), v
			}
			// load of an addressable location continues the chain; a plain
			// pointer dereference of a root ends it
			switch x.X.(type) {
			case *ssa.FieldAddr, *ssa.IndexAddr:
				v = x.X
			default:
				return join(parts), v
			}
		default:
			return join(parts), v
		}
	}
	return join(parts), v
}

func join(parts []string) string {
	s := strings.Join(parts, ".")
	return strings.ReplaceAll(s, ".[]", "[]")
}

func fieldNameOf(t types.Type, i int) string {
	if p, ok := t.Underlying().(*types.Pointer); ok {
		t = p.Elem()
	}
	if s, ok := t.Underlying().(*types.Struct); ok && i < s.NumFields() {
		return s.Field(i).Name()
	}
	return "?"
}

// typeNameOf returns the name of the (pointer to) named type of v.
func typeNameOf(t types.Type) string {
	if p, ok := t.Underlying().(*types.Pointer); ok {
		t = p.Elem()
	}
	if n, ok := t.(*types.Named); ok {
		return n.Obj().Name()
	}
	return ""
}

// indexOfAddr returns the index value of the innermost IndexAddr in an address chain.
func indexOfAddr(v ssa.Value) ssa.Value {
	for i := 0; i < 24; i++ {
		switch x := v.(type) {
		case *ssa.FieldAddr:
			v = x.X
		case *ssa.IndexAddr:
			return x.Index
		case *ssa.UnOp:
			v = x.X
		default:
			return nil
		}
	}
	return nil
}

// refsGlobal reports whether instruction in references global g as an operand.
func refsGlobal(in ssa.Instruction, g *ssa.Global) bool {
	for _, op := range in.Operands(nil) {
		if *op == ssa.Value(g) {
			return true
		}
	}
	return false
}

// instrIndex returns the index of an instruction in its block.
func instrIndex(in ssa.Instruction) int {
	for i, x := range in.Block().Instrs {
		if x == in {
			return i
		}
	}
	return -1
}

// isBuiltinCall reports a call to builtin name and returns it.
func isBuiltinCall(in ssa.Instruction, name string) *ssa.Call {
	c, ok := in.(*ssa.Call)
	if !ok {
		return nil
	}
	if b, ok := c.Call.Value.(*ssa.Builtin); ok && b.Name() == name {
		return c
	}
	return nil
}

// loadsGlobal: v is `*g`.
func loadsGlobal(v ssa.Value, g *ssa.Global) bool {
	u, ok := v.(*ssa.UnOp)
	return ok && u.Op == token.MUL && u.X == ssa.Value(g)
}

// heapIfaceOf: v is `make heap.Interface <- *tssQueue (g)`.
func ifaceOfGlobal(v ssa.Value, g *ssa.Global) bool {
	m, ok := v.(*ssa.MakeInterface)
	return ok && m.X == ssa.Value(g)
}

// posOf returns a printable position for an instruction, falling back to the block's first position.
func posOf(p *ana.Prog, in ssa.Instruction) string {
	if in.Pos().IsValid() {
		return p.Pos(in.Pos())
	}
	for _, x := range in.Block().Instrs {
		if x.Pos().IsValid() {
			return p.Pos(x.Pos())
		}
	}
	return p.Pos(in.Parent().Pos())
}
