package rules

import (
	"fmt"
	"go/token"

	"golang.org/x/tools/go/ssa"

	"verif/internal/ana"
)

// c14EncodeAll: the loops of package nts that pack the elements of a packet's extension slices
// (Cookies, CookiePlaceholders) encode every element or fail: the only way out of such a loop that
// can reach a success return (error result the constant nil) is the loop header's own exit
// (index exhausted), and the pack call lies on every path from the header back to the header.
// A `break`/`continue` in front of the pack silently leaves fields out of a packet that is then
// reported as encoded, so decoding it yields fewer extension fields than were given.
func c14EncodeAll(p *ana.Prog, r *ana.Result) {
	found := 0
	for _, kind := range []string{"Cookie", "CookiePlaceholder"} {
		q := ana.Q("(net/nts." + kind + ").pack")
		for _, fn := range p.AllFuncs {
			if fn.Pkg == nil || fn.Pkg.Pkg.Path() != ana.ModPath+"/net/nts" {
				continue
			}
			for _, c := range packCallsOf(fn, q, kind) {
				call := c.(ssa.Instruction)
				cb := call.Block()
				// innermost natural loop containing the call
				var header *ssa.BasicBlock
				var loop map[*ssa.BasicBlock]bool
				for _, n := range fn.Blocks {
					for _, h := range n.Succs {
						if !h.Dominates(n) {
							continue
						}
						l := naturalLoop(h, n)
						if !l[cb] {
							continue
						}
						if header == h {
							for b := range l {
								loop[b] = true
							}
						} else if loop == nil || len(l) < len(loop) {
							header, loop = h, l
						}
					}
				}
				if header == nil {
					continue // a single field packed outside any loop: not a per-element walk
				}
				found++
				fname := ana.FuncName(fn)
				construct := "every " + kind + " is packed"
				bad := ""
				for b := range loop {
					if bad != "" {
						break
					}
					for _, s := range b.Succs {
						if loop[s] || b == header {
							continue
						}
						if !reachesSuccessReturn(s, header) {
							continue
						}
						// `break` on an error that is tested again and returned right behind the loop
						if t := errorArmBehind(b, s); t != nil && !reachesSuccessReturn(t, header) {
							continue
						}
						// second opinion, path-sensitive: the facts of the exit edge (e.g. err != nil on a
						// `break` whose error is returned behind the loop) may exclude every success return
						si := 0
						for k, t := range b.Succs {
							if t == s {
								si = k
							}
						}
						hdr := header
						q := &ana.Search{Fn: fn,
							Stop: func(in ssa.Instruction) bool { return in.Block() == hdr },
							Target: func(in ssa.Instruction) bool {
								ret, ok := in.(*ssa.Return)
								return ok && len(ret.Results) > 0 && mayBeNilConst(ret.Results[len(ret.Results)-1], 0)
							}}
						if reach, _ := q.RunAtEdge(ana.Edge{From: b, Succ: si}); reach {
							bad = fmt.Sprintf("the loop is left at %s in front of a success return without the index being exhausted: the remaining %s fields are not encoded although EncodePacket reports success", p.Pos(lastPos(b)), kind)
							break
						}
					}
				}
				if bad == "" {
					for _, latch := range header.Preds {
						if loop[latch] && !cb.Dominates(latch) {
							bad = fmt.Sprintf("a path through the loop body returns to the loop header (from %s) without the pack call: that %s is skipped", p.Pos(lastPos(latch)), kind)
							break
						}
					}
				}
				if bad != "" {
					r.Violate("C14.encode-all", fname, construct, posOf(p, call), bad)
				} else {
					r.Ok("C14.encode-all", fname, construct, posOf(p, call), fmt.Sprintf("loop of %d blocks: exits other than the header's lead only to error returns, and the pack call dominates every back edge", len(loop)))
				}
			}
		}
	}
	r.Floor("C14.encode-all", found, 2)
}

func naturalLoop(h, n *ssa.BasicBlock) map[*ssa.BasicBlock]bool {
	l := map[*ssa.BasicBlock]bool{h: true}
	var st []*ssa.BasicBlock
	if !l[n] {
		l[n] = true
		st = append(st, n)
	}
	for len(st) > 0 {
		b := st[len(st)-1]
		st = st[:len(st)-1]
		for _, q := range b.Preds {
			if !l[q] {
				l[q] = true
				st = append(st, q)
			}
		}
	}
	return l
}

// reachesSuccessReturn: a Return whose last result is the constant nil (directly or as a phi
// input) is reachable from start without passing through stop.
func reachesSuccessReturn(start, stop *ssa.BasicBlock) bool {
	seen := map[*ssa.BasicBlock]bool{stop: true}
	st := []*ssa.BasicBlock{start}
	for len(st) > 0 {
		b := st[len(st)-1]
		st = st[:len(st)-1]
		if seen[b] {
			continue
		}
		seen[b] = true
		if len(b.Instrs) > 0 {
			if ret, ok := b.Instrs[len(b.Instrs)-1].(*ssa.Return); ok && len(ret.Results) > 0 {
				if mayBeNilConst(ret.Results[len(ret.Results)-1], 0) {
					return true
				}
			}
		}
		st = append(st, b.Succs...)
	}
	return false
}

func mayBeNilConst(v ssa.Value, d int) bool {
	if ana.IsNilConst(v) {
		return true
	}
	if phi, ok := v.(*ssa.Phi); ok && d < 4 {
		for _, e := range phi.Edges {
			if mayBeNilConst(e, d+1) {
				return true
			}
		}
	}
	return false
}

func lastPos(b *ssa.BasicBlock) (pos token.Pos) {
	for i := len(b.Instrs) - 1; i >= 0; i-- {
		if q := b.Instrs[i].Pos(); q.IsValid() {
			return q
		}
	}
	if b.Parent() != nil {
		return b.Parent().Pos()
	}
	return
}

// packCallsOf: the calls of fn that pack an extension field of the given kind - static calls of the
// kind's pack method, and calls through an interface whose operand is a value of that kind.
func packCallsOf(fn *ssa.Function, q, kind string) []ssa.CallInstruction {
	out := ana.CallsIn(fn, q)
	for _, b := range fn.Blocks {
		for _, in := range b.Instrs {
			c, ok := in.(ssa.CallInstruction)
			if !ok || !c.Common().IsInvoke() || c.Common().Method.Name() != "pack" {
				continue
			}
			v := c.Common().Value
			for d := 0; d < 4; d++ {
				if ci, ok := v.(*ssa.ChangeInterface); ok {
					v = ci.X
				}
			}
			if mi, ok := v.(*ssa.MakeInterface); ok && typeNameOf(mi.X.Type()) == kind {
				out = append(out, c)
			}
		}
	}
	return out
}

// nilTest: v is `x != nil` / `x == nil`; returns x and whether the true arm means non-nil.
func nilTest(v ssa.Value) (ssa.Value, bool, bool) {
	bo, ok := v.(*ssa.BinOp)
	if !ok || (bo.Op != token.NEQ && bo.Op != token.EQL) {
		return nil, false, false
	}
	switch {
	case ana.IsNilConst(bo.Y):
		return bo.X, bo.Op == token.NEQ, true
	case ana.IsNilConst(bo.X):
		return bo.Y, bo.Op == token.NEQ, true
	}
	return nil, false, false
}

// errorArmBehind: the edge from -> to is taken with a value known to be non-nil, and to ends in a
// nil test of that value (directly or through a phi that takes it on this edge): the only
// successor of to that this path can continue with.
func errorArmBehind(from, to *ssa.BasicBlock) *ssa.BasicBlock {
	if len(from.Instrs) == 0 || len(to.Instrs) == 0 {
		return nil
	}
	iff, ok := from.Instrs[len(from.Instrs)-1].(*ssa.If)
	if !ok {
		return nil
	}
	x, trueIsNonNil, ok := nilTest(iff.Cond)
	if !ok || (from.Succs[0] == to) != trueIsNonNil || from.Succs[0] == from.Succs[1] {
		return nil // the edge does not establish x != nil
	}
	iff2, ok := to.Instrs[len(to.Instrs)-1].(*ssa.If)
	if !ok {
		return nil
	}
	y, trueIsNonNil2, ok := nilTest(iff2.Cond)
	if !ok {
		return nil
	}
	if phi, isPhi := y.(*ssa.Phi); isPhi && phi.Block() == to {
		for i, pr := range to.Preds {
			if pr == from {
				y = phi.Edges[i]
			}
		}
	}
	if y != x {
		return nil
	}
	if trueIsNonNil2 {
		return to.Succs[0]
	}
	return to.Succs[1]
}
