package rules

import (
	"fmt"
	"go/token"
	"strings"

	"golang.org/x/tools/go/ssa"

	"verif/internal/ana"
)

func init() { All["C15"] = checkC15 }

func checkC15(p *ana.Prog, r *ana.Result) {
	r.Explain("C15 (narrow structural clauses) for client.MeasureClockOffsetSCION and crypto.Sample: sticky path - a client's previous path is looked up by comparing its remembered fingerprint with snet.Fingerprint(ps[j]).String() of the candidate currently at ps[j], and a match removes exactly that element from the candidate list (ps[j] = ps[len-1]; ps = ps[:len-1]) and assigns it to the client before the search stops; reset - a client that ends the search without a path passes ResetInterleavedMode() and, if it has a filter, Filter.Reset(); sampling - crypto.Sample is called with k = len(sps)-nsps, n = len(ps) after the removals and a callback ps[dst] = ps[src]; Sample has the reservoir shape (pick(i,i) for i<k, then for i in [k,n): j = RandIntn(i+1), if j<k pick(j,i)) with k capped at n, and returns k; errors - a Sample error is propagated and nsps+n == 0 yields errNoPath; assignment - the n sampled paths ps[0..n) go to the clients without a path, one goroutine is started per client that has a path with exactly that client and path, and the result is measurements.FaultTolerantMidpoint over the slice collectMeasurements filled.")
	r.Undecided("pairwise distinctness and uniformity as value/probability properties, RandIntn's rejection sampling, completion orders")
	fn := mustFunc(p, r, "core/client", "MeasureClockOffsetSCION")
	if fn == nil {
		return
	}
	fname := ana.FuncName(fn)
	// ps alloc (captured by the callback closure)
	var psAlloc *ssa.Alloc
	ana.Instrs(fn, func(in ssa.Instruction) {
		if a, ok := in.(*ssa.Alloc); ok && a.Comment == "ps" {
			psAlloc = a
		}
	})
	isPsLoad := func(v ssa.Value) bool {
		if psAlloc != nil {
			ld, ok := v.(*ssa.UnOp)
			return ok && ld.Op == token.MUL && ld.X == ssa.Value(psAlloc)
		}
		pr, ok := v.(*ssa.Parameter)
		return ok && pr.Name() == "ps"
	}
	// fingerprint comparison
	var match *ssa.If
	matchSucc := 0 // the successor taken when the fingerprints are equal
	var jIdx ssa.Value
	var elem ssa.Value
	ana.IfEdges(fn, func(iff *ssa.If, b *ssa.BasicBlock) {
		c, pos, isCmp := ana.AsCmp(iff.Cond)
		if !isCmp || (c.Op != token.EQL && c.Op != token.NEQ) {
			return
		}
		eqSucc := 0
		if (c.Op == token.EQL) != pos {
			eqSucc = 1
		}
		for _, pr := range [][2]ssa.Value{{c.X, c.Y}, {c.Y, c.X}} {
			ip, _ := ana.CallOf(pr[1])
			if ip == nil || ana.CalleeName(ip.Common()) != ana.Q("(*core/client.SCIONClient).InterleavedModePath") {
				continue
			}
			match = iff
			matchSucc = eqSucc
			// other side must be Fingerprint(ps[j]).String()
			s, _ := ana.CallOf(pr[0])
			if s == nil || !strings.HasSuffix(ana.CalleeName(s.Common()), "PathFingerprint).String") {
				continue
			}
			f, _ := ana.CallOf(s.Common().Args[0])
			if f == nil || !strings.HasSuffix(ana.CalleeName(f.Common()), "snet.Fingerprint") {
				continue
			}
			ld, ok := f.Common().Args[0].(*ssa.UnOp)
			if !ok {
				continue
			}
			ia, ok := ld.X.(*ssa.IndexAddr)
			if !ok || !isPsLoad(ia.X) {
				continue
			}
			if f.Block() == b || f.Block().Dominates(b) && inLoop(fn, f) {
				jIdx, elem = ia.Index, ld
			}
		}
	})
	if match == nil {
		r.Violate("C15.sticky", fname, "fingerprint-match", p.Pos(fn.Pos()), "no comparison of a candidate's fingerprint with the client's previous path found")
		return
	}
	if jIdx == nil {
		r.Violate("C15.sticky", fname, "fingerprint-of-current-candidate", p.Pos(match.Cond.Pos()), "the previous path is not matched against snet.Fingerprint(ps[j]).String() of the candidate currently stored at ps[j] (e.g. a fingerprint cache that goes stale when candidates are moved): a still-offered path can be missed, or a different path be taken for it")
		return
	}
	r.Ok("C15.sticky", fname, "fingerprint-of-current-candidate", p.Pos(match.Cond.Pos()), "the remembered fingerprint is compared with snet.Fingerprint(ps[j]).String() computed from the current ps[j]")
	// in the match block: ps[j] = ps[len(ps)-1]; ps = ps[:len(ps)-1]; sps[i] = p
	mb := match.Block().Succs[matchSucc]
	swap, shrink, assign := false, false, false
	var spsSlice ssa.Value
	// another read of ps[j] in the match block, in front of the store that overwrites the slot
	isCandLoad := func(v ssa.Value) bool {
		ld, ok := v.(*ssa.UnOp)
		if !ok || ld.Op != token.MUL || ld.Block() != mb {
			return false
		}
		ia, ok := ld.X.(*ssa.IndexAddr)
		if !ok || !isPsLoad(ia.X) || ia.Index != jIdx {
			return false
		}
		for _, in := range mb.Instrs {
			if in == ssa.Instruction(ld) {
				return true
			}
			if st, ok := in.(*ssa.Store); ok {
				if ia2, ok := st.Addr.(*ssa.IndexAddr); ok && isPsLoad(ia2.X) {
					return false // the slot was overwritten before this read
				}
			}
		}
		return false
	}
	var shrunk ssa.Value // ps[:len(ps)-1] computed in the match block
	for _, in := range mb.Instrs {
		if sl, ok := in.(*ssa.Slice); ok && sl.Low == nil && isPsLoad(sl.X) {
			if bo, ok := sl.High.(*ssa.BinOp); ok && bo.Op == token.SUB && isLenOf(bo.X) {
				if k, _ := ana.ConstInt(bo.Y); k == 1 {
					shrunk = sl
				}
			}
		}
	}
	for _, in := range mb.Instrs {
		st, ok := in.(*ssa.Store)
		if !ok {
			continue
		}
		if ia, ok := st.Addr.(*ssa.IndexAddr); ok {
			if isPsLoad(ia.X) && ia.Index == jIdx {
				// value: ps[len(ps)-1]
				if ld, ok := st.Val.(*ssa.UnOp); ok {
					if ia2, ok := ld.X.(*ssa.IndexAddr); ok && isPsLoad(ia2.X) {
						if bo, ok := ia2.Index.(*ssa.BinOp); ok && bo.Op == token.SUB && isLenOf(bo.X) {
							if k, _ := ana.ConstInt(bo.Y); k == 1 {
								swap = true
							}
						}
					}
				}
			} else if st.Val == elem || isCandLoad(st.Val) {
				assign = true
				spsSlice = ia.X
			}
		}
		if psAlloc != nil && st.Addr == ssa.Value(psAlloc) {
			if sl, ok := st.Val.(*ssa.Slice); ok && sl.Low == nil && isPsLoad(sl.X) {
				if bo, ok := sl.High.(*ssa.BinOp); ok && bo.Op == token.SUB && isLenOf(bo.X) {
					if k, _ := ana.ConstInt(bo.Y); k == 1 {
						shrink = true
					}
				}
			}
		}
	}
	if !shrink && shrunk != nil && psAlloc != nil {
		// the shortened list may be stored at a distance (the removal in a helper that returns the
		// rest): a store of it - possibly merged with the unchanged list for "not found" - to the
		// candidate variable, passed on every path from the match to the next client
		var stores []ssa.Instruction
		ana.Instrs(fn, func(in ssa.Instruction) {
			st, ok := in.(*ssa.Store)
			if !ok || st.Addr != ssa.Value(psAlloc) {
				return
			}
			good := st.Val == shrunk
			if ph, isPhi := st.Val.(*ssa.Phi); isPhi {
				n := 0
				good = true
				for _, e := range ph.Edges {
					switch {
					case e == shrunk:
						n++
					case isPsLoad(e):
					default:
						good = false
					}
				}
				good = good && n > 0
			}
			if good {
				stores = append(stores, in)
			}
		})
		if len(stores) > 0 {
			isStore := func(in ssa.Instruction) bool {
				for _, a := range stores {
					if a == in {
						return true
					}
				}
				return false
			}
			s := &ana.Search{Fn: fn, Stop: isStore, Target: func(in ssa.Instruction) bool {
				c, ok := in.(*ssa.Call)
				if !ok {
					return false
				}
				n := ana.CalleeName(&c.Call)
				return n == ana.Q("(*core/client.SCIONClient).InterleavedModePath") || n == ana.Q("base/crypto.Sample")
			}}
			if found, _ := s.Run(mb.Instrs[0]); !found {
				shrink = true
			}
		}
	}
	if !assign {
		// the assignment may follow the removal at a distance (the removal in a helper that returns
		// the path): a store of the matched element - possibly merged with nil for "not found" - into
		// a slice other than the candidates, passed on every path from the match to the next client
		var assigns []ssa.Instruction
		ana.Instrs(fn, func(in ssa.Instruction) {
			st, ok := in.(*ssa.Store)
			if !ok {
				return
			}
			ia, ok := st.Addr.(*ssa.IndexAddr)
			if !ok || isPsLoad(ia.X) {
				return
			}
			good := st.Val == elem
			if ph, isPhi := st.Val.(*ssa.Phi); isPhi {
				n := 0
				good = true
				for _, e := range ph.Edges {
					switch {
					case e == elem:
						n++
					case ana.IsNilConst(e):
					default:
						good = false
					}
				}
				good = good && n > 0
			}
			if good && (mb == st.Block() || mb.Dominates(st.Block()) || ana.Reachable(fn, mb.Instrs[0], func(x ssa.Instruction) bool { return x == in }, nil, nil)) {
				assigns = append(assigns, in)
				spsSlice = ia.X
			}
		})
		if len(assigns) > 0 {
			isAssign := func(in ssa.Instruction) bool {
				for _, a := range assigns {
					if a == in {
						return true
					}
				}
				return false
			}
			s := &ana.Search{Fn: fn, Stop: isAssign, Target: func(in ssa.Instruction) bool {
				c, ok := in.(*ssa.Call)
				if !ok {
					return false
				}
				n := ana.CalleeName(&c.Call)
				return n == ana.Q("(*core/client.SCIONClient).InterleavedModePath") || n == ana.Q("base/crypto.Sample")
			}}
			if found, _ := s.Run(mb.Instrs[0]); !found {
				assign = true
			}
		}
	}
	// the search stops after a match: the match block does not lead back into the candidate loop
	stops := true
	if len(mb.Succs) == 1 {
		s := &ana.Search{Fn: fn, NoFacts: true, Target: func(in ssa.Instruction) bool { return in == ssa.Instruction(match) },
			Stop: func(in ssa.Instruction) bool {
				c, ok := in.(*ssa.Call)
				return ok && ana.CalleeName(&c.Call) == ana.Q("(*core/client.SCIONClient).InterleavedModePath")
			}}
		if found, _ := s.Run(mb.Instrs[len(mb.Instrs)-1]); found {
			stops = false
		}
	}
	if swap && shrink && assign && stops {
		r.Ok("C15.sticky", fname, "matched-path-removed-and-assigned", posOf(p, mb.Instrs[0]), "on a match: ps[j] = ps[len(ps)-1]; ps = ps[:len(ps)-1]; sps[i] = the matched path; the search ends")
	} else {
		r.Violate("C15.sticky", fname, "matched-path-removed-and-assigned", posOf(p, mb.Instrs[0]), fmt.Sprintf("a matched previous path is not (moved out of the candidate list, the list shortened by one, assigned to the client, search ended): swap=%v shrink=%v assign=%v stop=%v - two clients could probe the same path", swap, shrink, assign, stops))
	}
	// reset when no path: If sps[i] == nil -> ResetInterleavedMode and Filter.Reset when Filter != nil
	rims := ana.CallsIn(fn, ana.Q("(*core/client.SCIONClient).ResetInterleavedMode"))
	frs := ana.CallsIn(fn, ana.Q("(core/measurements.Filter).Reset"))
	if len(rims) != 1 || len(frs) != 1 {
		r.Violate("C15.reset", fname, "reset-sites", p.Pos(fn.Pos()), fmt.Sprintf("expected one ResetInterleavedMode and one Filter.Reset call, found %d/%d", len(rims), len(frs)))
	} else {
		nilTest := ana.FindGate(p, fn, "sps[i]==nil", func(c ana.Cmp, isCmp bool, _ ssa.Value) (bool, bool) {
			if !isCmp || (c.Op != token.EQL && c.Op != token.NEQ) || !ana.IsNilConst(c.Y) {
				return false, false
			}
			ld, ok := c.X.(*ssa.UnOp)
			if !ok {
				return false, false
			}
			ia, ok := ld.X.(*ssa.IndexAddr)
			if !ok || (spsSlice != nil && ia.X != spsSlice) {
				return false, false
			}
			return true, c.Op == token.EQL
		})
		okReset := len(nilTest.Accept) > 0
		var wit []string
		for e := range nilTest.Accept {
			e := e
			// from the no-path edge, reaching the next client / the sampling passes ResetInterleavedMode
			s := &ana.Search{Fn: fn, Via: func(x ana.Edge) bool { return x == e }, Stop: func(in ssa.Instruction) bool { return in == rims[0].(ssa.Instruction) },
				Target: func(in ssa.Instruction) bool {
					c, ok := in.(*ssa.Call)
					if !ok {
						return false
					}
					n := ana.CalleeName(&c.Call)
					return n == ana.Q("base/crypto.Sample") || n == ana.Q("(*core/client.SCIONClient).InterleavedModePath")
				}}
			if found, w := s.Run(nil); found {
				okReset = false
				wit = w
			}
		}
		// filter reset: from ResetInterleavedMode, unless Filter == nil, Filter.Reset is passed
		filtNil := ana.FindGate(p, fn, "c.Filter==nil", func(c ana.Cmp, isCmp bool, _ ssa.Value) (bool, bool) {
			if !isCmp || (c.Op != token.EQL && c.Op != token.NEQ) || !ana.IsNilConst(c.Y) {
				return false, false
			}
			if ch, _ := fieldChain(c.X); !strings.HasSuffix(ch, "Filter") {
				return false, false
			}
			return true, c.Op == token.EQL
		})
		s := &ana.Search{Fn: fn, Cut: func(e ana.Edge) bool { return filtNil.Accept[e] }, Stop: func(in ssa.Instruction) bool { return in == frs[0].(ssa.Instruction) },
			Target: func(in ssa.Instruction) bool {
				c, ok := in.(*ssa.Call)
				if !ok {
					return false
				}
				n := ana.CalleeName(&c.Call)
				return n == ana.Q("base/crypto.Sample") || n == ana.Q("(*core/client.SCIONClient).InterleavedModePath")
			}}
		foundF, wF := s.Run(rims[0].(ssa.Instruction))
		// same client receiver
		sameClient := rims[0].Common().Args[0] == rootOfFilterRecv(frs[0])
		if okReset && !foundF && sameClient {
			r.Ok("C15.reset", fname, "reset-when-path-lost", posOf(p, rims[0]), "a client left without its previous path passes ResetInterleavedMode() and, when it has a filter, Filter.Reset()")
		} else {
			w := wit
			if foundF {
				w = wF
			}
			r.Violate("C15.reset", fname, "reset-when-path-lost", posOf(p, rims[0]), fmt.Sprintf("a client whose previous path is no longer offered is not always reset together with its filter (client reset on every path=%v, filter reset unless nil=%v, same client=%v)", okReset, !foundF, sameClient), w...)
		}
	}
	// Sample call
	samples := ana.CallsIn(fn, ana.Q("base/crypto.Sample"))
	if len(samples) != 1 {
		r.Violate("C15.sample", fname, "sample-site", p.Pos(fn.Pos()), fmt.Sprintf("expected one crypto.Sample call, found %d", len(samples)))
		return
	}
	sc := samples[0].(*ssa.Call)
	kOK := false
	if sub, ok := sc.Call.Args[1].(*ssa.BinOp); ok && sub.Op == token.SUB && isLenOf(sub.X) {
		lc, _ := ana.CallOf(sub.X)
		if (spsSlice == nil || lc.Common().Args[0] == spsSlice) && isCountPhi(sub.Y) {
			kOK = true
		}
	}
	nOK := false
	if isLenOf(sc.Call.Args[2]) {
		lc, _ := ana.CallOf(sc.Call.Args[2])
		if isPsLoad(lc.Common().Args[0]) && lc.Block() == sc.Block() {
			nOK = true
		}
	}
	cbOK := false
	if mc, ok := sc.Call.Args[3].(*ssa.MakeClosure); ok {
		cb := mc.Fn.(*ssa.Function)
		// single store ps[dst] = ps[src]
		n := 0
		ana.Instrs(cb, func(in ssa.Instruction) {
			st, ok := in.(*ssa.Store)
			if !ok {
				return
			}
			n++
			ia, ok1 := st.Addr.(*ssa.IndexAddr)
			ld, ok2 := st.Val.(*ssa.UnOp)
			if !ok1 || !ok2 {
				return
			}
			ia2, ok3 := ld.X.(*ssa.IndexAddr)
			if !ok3 {
				return
			}
			d, okd := ia.Index.(*ssa.Parameter)
			s, oks := ia2.Index.(*ssa.Parameter)
			if okd && oks && d == cb.Params[0] && s == cb.Params[1] && len(mc.Bindings) == 1 && mc.Bindings[0] == ssa.Value(psAlloc) {
				cbOK = true
			}
		})
		if n != 1 {
			cbOK = false
		}
	}
	if kOK && nOK && cbOK {
		r.Ok("C15.sample", fname, "sample-arguments", posOf(p, sc), "crypto.Sample(ctx, len(sps)-nsps, len(ps) after removals, func(dst, src){ ps[dst] = ps[src] })")
	} else {
		r.Violate("C15.sample", fname, "sample-arguments", posOf(p, sc), fmt.Sprintf("crypto.Sample is not called with (clients still without a path, remaining candidates, overwrite callback on ps): k=%v n=%v callback=%v", kOK, nOK, cbOK))
	}
	// errors
	rets := ana.ClassifyReturns(fn)
	succ := isSuccessTarget(rets)
	_ = succ
	errGate := ana.ErrNilGate(p, fn, ana.Q("base/crypto.Sample"))
	noPath := ana.FindGate(p, fn, "nsps+n!=0", func(c ana.Cmp, isCmp bool, _ ssa.Value) (bool, bool) {
		if !isCmp || (c.Op != token.EQL && c.Op != token.NEQ) {
			return false, false
		}
		k, ok := ana.ConstInt(c.Y)
		add, isAdd := c.X.(*ssa.BinOp)
		if !ok || k != 0 || !isAdd || add.Op != token.ADD {
			return false, false
		}
		e0, _ := add.X.(*ssa.Extract)
		e1, _ := add.Y.(*ssa.Extract)
		if (e0 != nil && e0.Tuple == ssa.Value(sc) && e0.Index == 0 && isCountPhi(add.Y)) || (e1 != nil && e1.Tuple == ssa.Value(sc) && e1.Index == 0 && isCountPhi(add.X)) {
			return true, c.Op == token.NEQ
		}
		return false, false
	})
	isGo := func(in ssa.Instruction) bool { _, ok := in.(*ssa.Go); return ok }
	checkGates(p, r, "C15.errors", fn, sc, isGo, nil, "starting-measurements", []gateSpec{
		{name: "Sample==nil", gate: errGate},
		{name: "at-least-one-path", gate: noPath},
	})
	// the no-path edge returns errNoPath
	okNP := false
	for e := range noPath.Accept {
		rej := e.From.Succs[1-e.Succ]
		if ret, ok := rej.Instrs[len(rej.Instrs)-1].(*ssa.Return); ok {
			if ana.AccessPath(ret.Results[2]) == "errNoPath" {
				okNP = true
			}
		}
	}
	if okNP {
		r.Ok("C15.errors", fname, "no-path-error", posOf(p, sc), "nsps + n == 0 returns errNoPath")
	} else {
		r.Violate("C15.errors", fname, "no-path-error", posOf(p, sc), "the round does not report errNoPath when no path is available")
	}
	// combination: FaultTolerantMidpoint(ms) with ms given to collectMeasurements; goroutine per non-nil sps[i]
	cms := ana.CallsIn(fn, ana.Q("core/client.collectMeasurements"))
	ftms := ana.CallsIn(fn, ana.Q("core/measurements.FaultTolerantMidpoint"))
	if len(cms) == 1 && len(ftms) == 1 && cms[0].Common().Args[1] == ftms[0].Common().Args[0] && cms[0].Block().Dominates(ftms[0].Block()) {
		// returned values are fields of the FTM result
		okRet := false
		for _, ri := range rets {
			if ri.Class == "failure" {
				continue
			}
			ts, off := ana.AccessPath(ri.Ret.Results[0]), ana.AccessPath(ri.Ret.Results[1])
			if strings.HasSuffix(ts, ".Timestamp") && strings.HasSuffix(off, ".Offset") && strings.Contains(off, "FaultTolerantMidpoint") || (strings.HasSuffix(off, "m.Offset") && strings.HasSuffix(ts, "m.Timestamp")) {
				okRet = true
			}
		}
		if okRet {
			r.Ok("C15.combine", fname, "ftm-over-collected", posOf(p, ftms[0]), "the result is FaultTolerantMidpoint over the slice collectMeasurements filled")
		} else {
			r.Violate("C15.combine", fname, "ftm-over-collected", posOf(p, ftms[0]), "the returned offset/timestamp are not those of the fault-tolerant midpoint")
		}
	} else {
		r.Violate("C15.combine", fname, "ftm-over-collected", p.Pos(fn.Pos()), "the reported offset is not measurements.FaultTolerantMidpoint over the collected per-path measurements")
	}
	// goroutine: go f(..., ntpcs[i], ..., sps[i]) under sps[i] != nil
	gos := 0
	ana.Instrs(fn, func(in ssa.Instruction) {
		g, ok := in.(*ssa.Go)
		if !ok {
			return
		}
		gos++
		var cIdx, pIdx ssa.Value
		for _, a := range g.Call.Args {
			if ld, ok := a.(*ssa.UnOp); ok {
				if ia, ok := ld.X.(*ssa.IndexAddr); ok {
					if pr, ok := ia.X.(*ssa.Parameter); ok && pr.Name() == "ntpcs" {
						cIdx = ia.Index
					} else if spsSlice == nil || ia.X == spsSlice {
						pIdx = ia.Index
					}
				}
			}
		}
		if cIdx != nil && cIdx == pIdx {
			r.Ok("C15.combine", fname, "worker-gets-own-path", posOf(p, g), "each measurement goroutine receives ntpcs[i] and sps[i] for the same i")
		} else {
			r.Violate("C15.combine", fname, "worker-gets-own-path", posOf(p, g), "a measurement goroutine is not started with client i and the path assigned to client i")
		}
	})
	if gos != 1 {
		r.Violate("C15.combine", fname, "worker-sites", p.Pos(fn.Pos()), fmt.Sprintf("expected one goroutine start site, found %d", gos))
	}
	c15Sample(p, r)
}

func rootOfFilterRecv(c ssa.CallInstruction) ssa.Value {
	// invoke on load of &client.Filter
	if ld, ok := c.Common().Value.(*ssa.UnOp); ok {
		if fa, ok := ld.X.(*ssa.FieldAddr); ok {
			return fa.X
		}
	}
	return nil
}

// isCountPhi: v is a counter phi (starts at 0, +1).
func isCountPhi(v ssa.Value) bool {
	ph, ok := v.(*ssa.Phi)
	if !ok {
		return false
	}
	seen := map[*ssa.Phi]bool{}
	var rec func(ph *ssa.Phi) bool
	rec = func(ph *ssa.Phi) bool {
		if seen[ph] {
			return true
		}
		seen[ph] = true
		for _, e := range ph.Edges {
			if k, ok := ana.ConstInt(e); ok {
				if k != 0 {
					return false
				}
				continue
			}
			if q, ok := e.(*ssa.Phi); ok {
				if !rec(q) {
					return false
				}
				continue
			}
			bo, ok := e.(*ssa.BinOp)
			if !ok || bo.Op != token.ADD {
				return false
			}
			k, _ := ana.ConstInt(bo.Y)
			q, isQ := bo.X.(*ssa.Phi)
			if k != 1 || !isQ || !rec(q) {
				return false
			}
		}
		return true
	}
	return rec(ph)
}

// c15Sample: reservoir shape of crypto.Sample.
func c15Sample(p *ana.Prog, r *ana.Result) {
	fn := mustFunc(p, r, "base/crypto", "Sample")
	if fn == nil {
		return
	}
	fname := ana.FuncName(fn)
	var pick *ssa.Parameter
	for _, pr := range fn.Params {
		if pr.Name() == "pick" {
			pick = pr
		}
	}
	var picks []*ssa.Call
	ana.Instrs(fn, func(in ssa.Instruction) {
		if c, ok := in.(*ssa.Call); ok && pick != nil && c.Call.Value == ssa.Value(pick) {
			picks = append(picks, c)
		}
	})
	rands := ana.CallsIn(fn, ana.Q("base/crypto.RandIntn"))
	if len(picks) != 2 || len(rands) != 1 {
		r.Violate("C15.sample", fname, "reservoir-shape", p.Pos(fn.Pos()), fmt.Sprintf("Sample is not reservoir sampling: expected two pick sites and one RandIntn call, found %d/%d", len(picks), len(rands)))
		return
	}
	// first: pick(i, i)
	var fill, repl *ssa.Call
	for _, c := range picks {
		if c.Call.Args[0] == c.Call.Args[1] {
			fill = c
		} else {
			repl = c
		}
	}
	ok := fill != nil && repl != nil
	why := ""
	if ok {
		// RandIntn(ctx, i+1) with i the loop index given as src to repl; j = result; guard j < k; repl = pick(j, i)
		rc := rands[0].(*ssa.Call)
		add, isAdd := rc.Call.Args[1].(*ssa.BinOp)
		k1 := int64(0)
		if isAdd {
			k1, _ = ana.ConstInt(add.Y)
		}
		if !isAdd || add.Op != token.ADD || k1 != 1 || add.X != repl.Call.Args[1] {
			ok, why = false, "the random index is not drawn from [0, i] for the item i being considered"
		}
		j := extractOf(rc, 0)
		if ok && (j == nil || repl.Call.Args[0] != ssa.Value(j)) {
			ok, why = false, "the replaced slot is not the drawn index"
		}
		if ok {
			g := ana.FindGate(p, fn, "j<k", func(c ana.Cmp, isCmp bool, _ ssa.Value) (bool, bool) {
				if !isCmp {
					return false, false
				}
				// j < k (or k > j) accepted when it holds; k <= j (or j >= k) when it does not
				c = c.Orient(token.LSS)
				switch {
				case c.Op == token.LSS && c.X == ssa.Value(j):
					return true, true
				case c.Op == token.LEQ && c.Y == ssa.Value(j):
					return true, false
				}
				return false, false
			})
			if okp, _ := ana.MustPass(fn, nil, g, func(in ssa.Instruction) bool { return in == ssa.Instruction(repl) }, nil, nil); !okp || len(g.Accept) == 0 {
				ok, why = false, "an item replaces a reservoir slot without the test j < k"
			}
		}
		// errors of RandIntn propagate
		if ok {
			rets := ana.ClassifyReturns(fn)
			eg := ana.ErrNilGate(p, fn, ana.Q("base/crypto.RandIntn"))
			s := &ana.Search{Fn: fn, Cut: func(e ana.Edge) bool { return eg.Accept[e] }, Target: isSuccessTarget(rets)}
			if found, _ := s.Run(rc); found {
				ok, why = false, "a RandIntn error is not propagated"
			}
		}
		// k capped at n, both loops in order: fill loop index from 0 to k, replacement from k to n
		if ok {
			capped := false
			ana.IfEdges(fn, func(iff *ssa.If, b *ssa.BasicBlock) {
				c, pos, isCmp := ana.AsCmpDir(iff.Cond, token.LSS)
				if isCmp && pos && c.Op == token.LSS {
					if a, ok := c.X.(*ssa.Parameter); ok && a.Name() == "n" {
						if bb, ok := c.Y.(*ssa.Parameter); ok && bb.Name() == "k" {
							capped = true
						}
					}
				}
			})
			// k = min(k, n)
			ana.Instrs(fn, func(in ssa.Instruction) {
				if c := isBuiltinCall(in, "min"); c != nil && len(c.Call.Args) == 2 {
					names := map[string]bool{}
					for _, a := range c.Call.Args {
						if pr, ok := a.(*ssa.Parameter); ok {
							names[pr.Name()] = true
						}
					}
					if names["k"] && names["n"] {
						capped = true
					}
				}
			})
			if !capped {
				ok, why = false, "k is not capped at n (more clients than paths would take part)"
			}
		}
	} else {
		why = "pick(i, i) fill phase and pick(j, i) replacement phase not found"
	}
	if ok {
		r.Ok("C15.sample", fname, "reservoir-shape", p.Pos(fn.Pos()), "Sample: k = min(k, n); pick(i, i) for i < k; for i in [k, n): j = RandIntn(i+1), if j < k pick(j, i); errors propagate")
	} else {
		r.Violate("C15.sample", fname, "reservoir-shape", p.Pos(fn.Pos()), "Sample is not reservoir sampling compatible with an overwriting callback: "+why+" (paths can be assigned twice or non-uniformly)")
	}
}
