package rules

import (
	"fmt"
	"go/token"
	"go/types"
	"strings"

	"golang.org/x/tools/go/ssa"

	"verif/internal/ana"
)

func init() { All["C16"] = checkC16 }

func isChanOf(t types.Type, elem string) bool {
	if p, ok := t.Underlying().(*types.Pointer); ok {
		t = p.Elem()
	}
	c, ok := t.Underlying().(*types.Chan)
	if !ok {
		return false
	}
	return strings.HasSuffix(c.Elem().String(), elem)
}

// chanRoot resolves a channel value to its root (parameter, make, or the
// parameter spilled into a captured cell).
func chanRoot(v ssa.Value) ssa.Value {
	for i := 0; i < 8; i++ {
		switch x := v.(type) {
		case *ssa.ChangeType:
			v = x.X // chan T handed over as <-chan T / chan<- T
			continue
		case *ssa.UnOp:
			if x.Op == token.MUL {
				if a, ok := x.X.(*ssa.Alloc); ok {
					var sv ssa.Value
					n := 0
					for _, ref := range ana.Referrers(a) {
						if st, ok := ref.(*ssa.Store); ok && st.Addr == ssa.Value(a) {
							sv = st.Val
							n++
						}
					}
					if n == 1 {
						v = sv
						continue
					}
				}
				if fv, ok := x.X.(*ssa.FreeVar); ok {
					return fv
				}
			}
			return v
		default:
			return v
		}
	}
	return v
}

func checkC16(p *ana.Prog, r *ana.Result) {
	r.Explain("C16 (structural necessary conditions) for ReferenceClockClient.MeasureClockOffsets + collectMeasurements: (deadline) the two functions contain no call that can block other than one blocking select which has a <-ctx.Done() case leading straight out of the loop, and every call to a reference clock's MeasureClockOffset sits inside a spawned goroutine; the caller builds the context with context.WithTimeout(cfg.SyncTimeout) and defers cancel; (once, at the front) the only store into the result slice is ms[j] = m under m.Error == nil && j != len(ms), followed by j++, j starts at 0 and is the return value; (balance) every receive from the result channel is followed by exactly one i++ before the loop continues or ends, each spawned worker sends exactly once on every path and never closes the channel, one worker per reference clock, and the drain goroutine receives exactly len(ms)-i times; (re-entrancy) CompareAndSwap(0->1) precedes everything, its failure panics, the 1->0 swap is deferred on the success arm.")
	r.Undecided("scheduling fairness, real time, that clock implementations honour ctx (a worker that never returns leaks by design of the statement's premise)")
	cm := mustFunc(p, r, "core/client", "collectMeasurements")
	mo := mustFunc(p, r, "core/client", "(*ReferenceClockClient).MeasureClockOffsets")
	if cm == nil || mo == nil {
		return
	}
	c16Collect(p, r, cm)
	c16Measure(p, r, mo, cm)
	c16Caller(p, r)
}

func c16Collect(p *ana.Prog, r *ana.Result, cm *ssa.Function) {
	fname := ana.FuncName(cm)
	var msc, ctx, ms *ssa.Parameter
	for _, pr := range cm.Params {
		switch {
		case isChanOf(pr.Type(), "Measurement"):
			msc = pr
		case pr.Type().String() == "context.Context":
			ctx = pr
		default:
			if _, ok := pr.Type().Underlying().(*types.Slice); ok {
				ms = pr
			}
		}
	}
	if msc == nil || ctx == nil || ms == nil {
		r.Broken("%s: parameters (ctx, ms, msc) not recognised", fname)
		return
	}
	// selects and other blocking instructions
	var selects []*ssa.Select
	ana.Instrs(cm, func(in ssa.Instruction) {
		switch x := in.(type) {
		case *ssa.Select:
			selects = append(selects, x)
		case *ssa.Send:
			r.Violate("C16.deadline", fname, "blocking-send", posOf(p, in), "channel send outside a ctx-guarded select")
		case *ssa.UnOp:
			if x.Op == token.ARROW {
				r.Violate("C16.deadline", fname, "blocking-receive", posOf(p, in), "a bare channel receive blocks without regard to the deadline")
			}
		case *ssa.Call:
			n := ana.CalleeName(&x.Call)
			if strings.HasPrefix(n, "builtin.") || n == "(context.Context).Done" || n == "(context.Context).Err" {
				return
			}
			r.Violate("C16.deadline", fname, "call:"+ana.Short(n), posOf(p, in), "collectMeasurements calls "+ana.Short(n)+", which is not known to return promptly (only the ctx-guarded select may block)")
		}
	})
	// loop counter i: phi compared with len(ms) in the loop header
	var iPhi, jPhi *ssa.Phi
	var nVal ssa.Value
	ana.IfEdges(cm, func(iff *ssa.If, b *ssa.BasicBlock) {
		c, _, isCmp := ana.AsCmp(iff.Cond)
		if !isCmp {
			return
		}
		for _, c := range []ana.Cmp{c, c.Mirror()} {
			// i != len(ms), or i < len(ms) / i >= len(ms) for a counter that goes up in steps of one
			if c.Op != token.NEQ && c.Op != token.LSS && c.Op != token.GEQ {
				continue
			}
			// the counter is a loop-header phi; the test may sit in a later block of a compound loop condition
			leaves := false // the test decides whether the loop goes on: one of its outcomes leaves the loop
			if ph, ok := c.X.(*ssa.Phi); ok {
				for _, sc := range b.Succs {
					if !inLoopOf(ph.Block(), sc) && sc != ph.Block() {
						leaves = true
					}
				}
			}
			if ph, ok := c.X.(*ssa.Phi); ok && leaves && (ph.Block() == b || ph.Block().Dominates(b)) && inLoopHeader(ph) && isLenOf(c.Y) {
				call, _ := ana.CallOf(c.Y)
				if call.Common().Args[0] == ssa.Value(ms) {
					iPhi = ph
					nVal = c.Y
				}
			}
		}
	})
	if iPhi == nil {
		r.Violate("C16.balance", fname, "loop-counter", p.Pos(cm.Pos()), "UNDECIDED: loop `for i != len(ms)` not found")
		return
	}
	header := iPhi.Block()
	var inc *ssa.BinOp
	// the values merged into the counter: 0, the counter itself (unchanged), or the counter + 1
	var leaves []ssa.Value
	seenPhi := map[*ssa.Phi]bool{iPhi: true}
	var expandI func(v ssa.Value)
	expandI = func(v ssa.Value) {
		if q, ok := v.(*ssa.Phi); ok {
			if q == iPhi {
				return
			}
			if !seenPhi[q] {
				seenPhi[q] = true
				for _, e := range q.Edges {
					expandI(e)
				}
			}
			return
		}
		leaves = append(leaves, v)
	}
	for _, e := range iPhi.Edges {
		expandI(e)
	}
	for _, e := range leaves {
		if bo, ok := e.(*ssa.BinOp); ok && bo.Op == token.ADD && bo.X == ssa.Value(iPhi) {
			if k, _ := ana.ConstInt(bo.Y); k == 1 && (inc == nil || inc == bo) {
				inc = bo
				continue
			}
		}
		if k, ok := ana.ConstInt(e); !ok || k != 0 {
			r.Violate("C16.balance", fname, "counter-init", posOf(p, iPhi), "the receive counter does not start at 0 / is changed by something other than +1")
		}
	}
	if inc == nil {
		r.Violate("C16.balance", fname, "counter-increment", posOf(p, iPhi), "the receive counter is never incremented")
		return
	}
	// drain goroutine
	var drain *ssa.Go
	ana.Instrs(cm, func(in ssa.Instruction) {
		if g, ok := in.(*ssa.Go); ok {
			if drain != nil {
				r.Violate("C16.balance", fname, "second-goroutine", posOf(p, in), "more than one goroutine is started by collectMeasurements")
			}
			drain = g
		}
	})
	// (a) exactly one blocking select with msc receive and ctx.Done receive; done arm leaves the loop
	nBlocking := 0
	for _, sel := range selects {
		recvMsc, recvDone := -1, -1
		for i, st := range sel.States {
			if st.Dir != types.RecvOnly {
				r.Violate("C16.deadline", fname, "select-send", posOf(p, sel), "select contains a send case")
				continue
			}
			if chanRoot(st.Chan) == ssa.Value(msc) {
				recvMsc = i
			}
			if c, _ := ana.CallOf(st.Chan); c != nil && ana.CalleeName(c.Common()) == "(context.Context).Done" && c.Common().Value == ssa.Value(ctx) {
				recvDone = i
			}
		}
		if sel.Blocking {
			nBlocking++
			if recvDone < 0 {
				r.Violate("C16.deadline", fname, "select-without-deadline-case", posOf(p, sel), "a blocking select has no <-ctx.Done() case: collection can outlive the round's deadline")
			} else {
				// the Done arm reaches the function exit without passing the loop header or another select
				arm := selectArm(sel, recvDone)
				if arm == nil {
					r.Violate("C16.deadline", fname, "done-arm", posOf(p, sel), "UNDECIDED: arm of the ctx.Done case not found")
				} else {
					// path-sensitive: an exit flag set on the arm and tested by the loop condition counts as leaving
					s := &ana.Search{Fn: cm, Target: func(in ssa.Instruction) bool {
						_, isSel := in.(*ssa.Select)
						return isSel
					}}
					if found, w := runFromBlock(s, arm); found {
						r.Violate("C16.deadline", fname, "done-arm-leaves-loop", posOf(p, sel), "after the deadline fired the collector can go on waiting (the ctx.Done arm re-enters the loop or another select)", w...)
					} else {
						r.Ok("C16.deadline", fname, "done-arm-leaves-loop", posOf(p, sel), "the <-ctx.Done() arm leads out of the loop to the drain and return without further waiting")
					}
				}
			}
		}
		// (c-balance) every receive arm on msc passes exactly one increment before header/exit
		if recvMsc >= 0 {
			arm := selectArm(sel, recvMsc)
			if arm == nil {
				r.Violate("C16.balance", fname, "receive-arm", posOf(p, sel), "UNDECIDED: arm of the result receive not found")
				continue
			}
			incSeen := func(in ssa.Instruction) bool { return in == ssa.Instruction(inc) }
			s := &ana.Search{Fn: cm, Stop: incSeen, Target: func(in ssa.Instruction) bool {
				if in.Block() == header {
					return true
				}
				if drain != nil && in == ssa.Instruction(drain) {
					return true
				}
				_, isRet := in.(*ssa.Return)
				return isRet
			}}
			if found, w := runFromBlock(s, arm); found {
				r.Violate("C16.balance", fname, fmt.Sprintf("receive-counted:select@%s", selKind(sel)), posOf(p, sel), "a result received from the channel is not counted (i++ is skipped): the drain goroutine then waits for one send more than will ever happen and leaks", w...)
			} else {
				r.Ok("C16.balance", fname, fmt.Sprintf("receive-counted:select@%s", selKind(sel)), posOf(p, sel), "every path from a received result to the next iteration / the drain passes i++")
			}
		}
	}
	if nBlocking != 1 {
		r.Violate("C16.deadline", fname, "one-blocking-select", p.Pos(cm.Pos()), fmt.Sprintf("expected exactly one blocking select in the collection loop, found %d", nBlocking))
	}
	// at most one increment per iteration: from inc, no path to inc without passing header
	{
		s := &ana.Search{Fn: cm, NoFacts: true, Stop: func(in ssa.Instruction) bool { return in.Block() == header && in == header.Instrs[0] }, Target: func(in ssa.Instruction) bool { return in == ssa.Instruction(inc) }}
		if found, _ := s.Run(inc); found {
			r.Violate("C16.balance", fname, "double-count", posOf(p, inc), "i can be incremented twice for one received result")
		}
	}
	// drain: go f(n - i) with f receiving exactly its argument times
	if drain == nil {
		r.Violate("C16.balance", fname, "drain", p.Pos(cm.Pos()), "no drain goroutine: workers still sending after the deadline block forever")
	} else {
		okArg := false
		countIdx := -1
		for ai, a := range drain.Call.Args {
			if bo, ok := a.(*ssa.BinOp); ok && bo.Op == token.SUB && bo.Y == ssa.Value(iPhi) {
				if bo.X == nVal || (isLenOf(bo.X) && func() bool { c, _ := ana.CallOf(bo.X); return c.Common().Args[0] == ssa.Value(ms) }()) {
					okArg = true
					countIdx = ai
				}
			}
		}
		if okArg {
			r.Ok("C16.balance", fname, "drain-count", posOf(p, drain), "the drain goroutine is started with len(ms) - i (sends still outstanding)")
		} else {
			r.Violate("C16.balance", fname, "drain-count", posOf(p, drain), "the drain goroutine is not started with exactly len(ms) - i outstanding results")
		}
		if mc, ok := drain.Call.Value.(*ssa.MakeClosure); ok {
			c16DrainBody(p, r, mc.Fn.(*ssa.Function), msc, max(countIdx, 0))
		} else if df, ok := drain.Call.Value.(*ssa.Function); ok && df.Blocks != nil {
			// a named drain function: the channel it receives from must be the collector's channel
			chOK := false
			for _, a := range drain.Call.Args {
				if chanRoot(a) == chanRoot(msc) || a == ssa.Value(msc) {
					chOK = true
				}
			}
			if !chOK {
				r.Violate("C16.balance", fname, "drain-body", posOf(p, drain), "the drain goroutine is not given the collector's channel")
			} else {
				c16DrainBody(p, r, df, msc, max(countIdx, 0))
			}
		} else {
			r.Violate("C16.balance", fname, "drain-body", posOf(p, drain), "UNDECIDED: drain goroutine is neither a function literal nor a named function")
		}
		// drain is started on every path to return
		rets := 0
		ana.Instrs(cm, func(in ssa.Instruction) {
			if _, ok := in.(*ssa.Return); ok {
				rets++
			}
		})
		// a return behind `i == len(ms)` has nothing left to drain
		allReceived := func(e ana.Edge) bool {
			iff, ok := e.From.Instrs[len(e.From.Instrs)-1].(*ssa.If)
			if !ok {
				return false
			}
			for _, a := range ana.Implied(iff.Cond, e.Succ == 0) {
				cmp, pos, ok := ana.AsCmp(a.V)
				if !ok {
					continue
				}
				for _, c := range []ana.Cmp{cmp, cmp.Mirror()} {
					if c.X != ssa.Value(iPhi) || !isLenOf(c.Y) {
						continue
					}
					if call, _ := ana.CallOf(c.Y); call == nil || call.Common().Args[0] != ssa.Value(ms) {
						continue
					}
					truth := a.Holds == pos
					if (c.Op == token.EQL && truth) || (c.Op == token.NEQ && !truth) || (c.Op == token.LSS && !truth) || (c.Op == token.GEQ && truth) {
						return true
					}
				}
			}
			return false
		}
		s := &ana.Search{Fn: cm, NoFacts: true, StopEdge: allReceived, Stop: func(in ssa.Instruction) bool { return in == ssa.Instruction(drain) }, Target: func(in ssa.Instruction) bool { _, ok := in.(*ssa.Return); return ok }}
		if found, w := s.Run(nil); found {
			r.Violate("C16.balance", fname, "drain-on-every-exit", posOf(p, drain), "collectMeasurements can return without starting the drain", w...)
		} else {
			r.Ok("C16.balance", fname, "drain-on-every-exit", posOf(p, drain), "every return passes the start of the drain goroutine")
		}
	}
	// (b) stores into ms
	nStores := 0
	ana.Instrs(cm, func(in ssa.Instruction) {
		st, ok := in.(*ssa.Store)
		if !ok {
			return
		}
		ia, ok := st.Addr.(*ssa.IndexAddr)
		if !ok || ia.X != ssa.Value(ms) {
			return
		}
		nStores++
		jp, ok := ia.Index.(*ssa.Phi)
		if !ok || jp.Block() != header {
			r.Violate("C16.once", fname, "store-index", posOf(p, st), "a result is stored at an index other than the running count j")
			return
		}
		jPhi = jp
		// guards: m.Error == nil and j != len(ms)
		errNil := ana.FindGate(p, cm, "m.Error==nil", func(c ana.Cmp, isCmp bool, _ ssa.Value) (bool, bool) {
			if !isCmp || (c.Op != token.EQL && c.Op != token.NEQ) || !ana.IsNilConst(c.Y) {
				return false, false
			}
			if ch, _ := fieldChain(c.X); ch != "Error" {
				return false, false
			}
			return true, c.Op == token.EQL
		})
		room := ana.FindGate(p, cm, "j!=len(ms)", func(c ana.Cmp, isCmp bool, _ ssa.Value) (bool, bool) {
			if !isCmp || c.X != ssa.Value(jp) || !isLenOf(c.Y) {
				return false, false
			}
			switch c.Op {
			case token.NEQ, token.LSS:
				return true, true
			case token.EQL, token.GEQ:
				return true, false
			}
			return false, false
		})
		tgt := func(in ssa.Instruction) bool { return in == ssa.Instruction(st) }
		for _, g := range []*ana.Gate{errNil, room} {
			if len(g.Accept) == 0 {
				r.Violate("C16.once", fname, "store-guard-missing:"+g.Name, posOf(p, st), "result store is not guarded by "+g.Name)
				continue
			}
			if okp, w := ana.MustPass(cm, nil, g, tgt, nil, nil); okp {
				r.Ok("C16.once", fname, "store-guard:"+g.Name, posOf(p, st), "ms[j] = m only on the edge "+g.Name)
			} else {
				r.Violate("C16.once", fname, "store-guard:"+g.Name, posOf(p, st), "a result can be stored without "+g.Name, w...)
			}
		}
		// value stored is the received m (from the select's value for the msc state)
		// followed by j+1 in the same block
		blk := st.Block()
		jinc := false
		for i := instrIndex(st) + 1; i < len(blk.Instrs); i++ {
			if bo, ok := blk.Instrs[i].(*ssa.BinOp); ok && bo.Op == token.ADD && bo.X == ssa.Value(jp) {
				if k, _ := ana.ConstInt(bo.Y); k == 1 {
					jinc = true
				}
			}
		}
		if jinc {
			r.Ok("C16.once", fname, "store-then-j++", posOf(p, st), "the store is followed by j++ in the same block")
		} else {
			r.Violate("C16.once", fname, "store-then-j++", posOf(p, st), "the running count is not advanced after storing a result (next result overwrites it)")
		}
	})
	if nStores != 1 {
		r.Violate("C16.once", fname, "single-store-site", p.Pos(cm.Pos()), fmt.Sprintf("expected exactly one store into the result slice, found %d", nStores))
	}
	if jPhi != nil {
		// j starts at 0, changes only by +1, and is the return value
		okJ := true
		for _, e := range jPhi.Edges {
			if k, ok := ana.ConstInt(e); ok {
				if k != 0 {
					okJ = false
				}
				continue
			}
			if !derivesFromPlusOne(e, jPhi, 0) {
				okJ = false
			}
		}
		retOK := true
		ana.Instrs(cm, func(in ssa.Instruction) {
			if ret, ok := in.(*ssa.Return); ok {
				if len(ret.Results) != 1 || ret.Results[0] != ssa.Value(jPhi) {
					retOK = false
				}
			}
		})
		if okJ && retOK {
			r.Ok("C16.once", fname, "count-is-return-value", posOf(p, jPhi), "j starts at 0, advances only by one per stored result, and is returned")
		} else {
			r.Violate("C16.once", fname, "count-is-return-value", posOf(p, jPhi), "the number of stored results is not what is returned / does not start at 0 with +1 steps")
		}
	}
}

// derivesFromPlusOne: v is j, j+1, or a phi over such values.
func derivesFromPlusOne(v ssa.Value, j *ssa.Phi, d int) bool {
	if d > 6 {
		return false
	}
	if v == ssa.Value(j) {
		return true
	}
	switch x := v.(type) {
	case *ssa.BinOp:
		k, _ := ana.ConstInt(x.Y)
		return x.Op == token.ADD && x.X == ssa.Value(j) && k == 1
	case *ssa.Phi:
		for _, e := range x.Edges {
			if !derivesFromPlusOne(e, j, d+1) {
				return false
			}
		}
		return true
	}
	return false
}

func selKind(s *ssa.Select) string {
	if s.Blocking {
		return "blocking"
	}
	return "nonblocking"
}

// selectArm returns the block executed when the select chose state idx.
func selectArm(sel *ssa.Select, idx int) *ssa.BasicBlock {
	var index ssa.Value
	for _, ref := range ana.Referrers(sel) {
		if e, ok := ref.(*ssa.Extract); ok && e.Index == 0 {
			index = e
		}
	}
	if index == nil {
		return nil
	}
	var arm *ssa.BasicBlock
	for _, ref := range ana.Referrers(index) {
		bo, ok := ref.(*ssa.BinOp)
		if !ok || bo.Op != token.EQL {
			continue
		}
		if k, ok := ana.ConstInt(bo.Y); ok && int(k) == idx {
			for _, r2 := range ana.Referrers(bo) {
				if iff, ok := r2.(*ssa.If); ok {
					arm = iff.Block().Succs[0]
				}
			}
		}
	}
	return arm
}

func c16DrainBody(p *ana.Prog, r *ana.Result, fn *ssa.Function, msc *ssa.Parameter, countIdx int) {
	fname := ana.FuncName(fn)
	// for n != 0 { <-msc; n-- }
	var nPhi *ssa.Phi
	ana.IfEdges(fn, func(iff *ssa.If, b *ssa.BasicBlock) {
		c, _, isCmp := ana.AsCmp(iff.Cond)
		if isCmp && (c.Op == token.NEQ || c.Op == token.GTR || c.Op == token.LEQ) {
			// n != 0, or n > 0 / n <= 0 for a count that is never negative
			if ph, ok := c.X.(*ssa.Phi); ok {
				if k, ok := ana.ConstInt(c.Y); ok && k == 0 {
					nPhi = ph
				}
			}
		}
	})
	recvs, decs := 0, 0
	sameBlock := true
	var recvBlock, decBlock *ssa.BasicBlock
	ana.Instrs(fn, func(in ssa.Instruction) {
		switch x := in.(type) {
		case *ssa.UnOp:
			if x.Op == token.ARROW {
				recvs++
				recvBlock = x.Block()
			}
		case *ssa.BinOp:
			if x.Op == token.SUB && nPhi != nil && x.X == ssa.Value(nPhi) {
				if k, _ := ana.ConstInt(x.Y); k == 1 {
					decs++
					decBlock = x.Block()
				}
			}
		}
	})
	// one receive and one decrement per iteration: both blocks lie on every way round the loop
	if nPhi != nil && recvBlock != nil && decBlock != nil {
		hdr := nPhi.Block()
		for _, pred := range hdr.Preds {
			if !inLoopOf(hdr, pred) && pred != hdr {
				continue
			}
			for _, b := range []*ssa.BasicBlock{recvBlock, decBlock} {
				if !(b == pred || b.Dominates(pred)) || !(b == hdr || inLoopOf(hdr, b)) {
					sameBlock = false
				}
			}
		}
	} else {
		sameBlock = false
	}
	startsAtParam := false
	if nPhi != nil {
		for _, e := range nPhi.Edges {
			if pr, ok := e.(*ssa.Parameter); ok && countIdx < len(fn.Params) && pr == fn.Params[countIdx] {
				startsAtParam = true
			}
		}
	}
	if nPhi != nil && recvs == 1 && decs == 1 && sameBlock && startsAtParam {
		r.Ok("C16.balance", fname, "drain-body", p.Pos(fn.Pos()), "the drain receives exactly once per decrement of its argument down to zero")
	} else {
		r.Violate("C16.balance", fname, "drain-body", p.Pos(fn.Pos()), fmt.Sprintf("the drain goroutine does not receive exactly `n` times (receives=%d decrements=%d)", recvs, decs))
	}
}

func c16Measure(p *ana.Prog, r *ana.Result, mo, cm *ssa.Function) {
	fname := ana.FuncName(mo)
	// allowed calls in the body
	var cas *ssa.Call
	var gos []*ssa.Go
	var collect *ssa.Call
	ana.Instrs(mo, func(in ssa.Instruction) {
		switch x := in.(type) {
		case *ssa.Call:
			n := ana.CalleeName(&x.Call)
			switch {
			case strings.HasPrefix(n, "builtin."):
			case n == "sync/atomic.CompareAndSwapUint32":
				if cas == nil {
					cas = x
				}
			case n == ana.Q("core/client.collectMeasurements"):
				collect = x
			default:
				r.Violate("C16.deadline", fname, "call:"+ana.Short(n), posOf(p, in), "MeasureClockOffsets calls "+ana.Short(n)+" synchronously: a slow or blocked callee keeps the round from ending by its deadline (reference clocks may only be queried from spawned goroutines)")
			}
		case *ssa.Go:
			gos = append(gos, x)
		case *ssa.Send, *ssa.Select:
			r.Violate("C16.deadline", fname, "channel-op", posOf(p, in), "channel operation in MeasureClockOffsets outside collectMeasurements")
		case *ssa.UnOp:
			if x.Op == token.ARROW {
				r.Violate("C16.deadline", fname, "channel-receive", posOf(p, in), "bare channel receive in MeasureClockOffsets")
			}
		}
	})
	if collect == nil {
		r.Violate("C16.deadline", fname, "collect-call", p.Pos(mo.Pos()), "MeasureClockOffsets does not collect through collectMeasurements")
		return
	}
	// collect args: ctx param, ms param, the made channel
	var msc ssa.Value
	if len(collect.Call.Args) == 3 {
		msc = collect.Call.Args[2]
	}
	mk, _ := chanRoot(msc).(*ssa.MakeChan)
	unbuf := false
	if mk != nil {
		if k, ok := ana.ConstInt(mk.Size); ok && k == 0 {
			unbuf = true
		}
	}
	ctxOK := false
	if pr, ok := collect.Call.Args[0].(*ssa.Parameter); ok && pr.Name() == "ctx" {
		ctxOK = true
	}
	msOK := false
	if pr, ok := collect.Call.Args[1].(*ssa.Parameter); ok && pr.Name() == "ms" {
		msOK = true
	}
	if mk != nil && ctxOK && msOK {
		r.Ok("C16.deadline", fname, "collect-args", posOf(p, collect), fmt.Sprintf("collectMeasurements(ctx of the caller, ms of the caller, fresh channel; unbuffered=%v)", unbuf))
	} else {
		r.Violate("C16.deadline", fname, "collect-args", posOf(p, collect), "collectMeasurements is not given the caller's ctx and ms and a channel created by this call")
	}
	// entry: len(ms) != len(refclks) -> panic
	lenGuard := false
	ana.IfEdges(mo, func(iff *ssa.If, b *ssa.BasicBlock) {
		c, pos, isCmp := ana.AsCmp(iff.Cond)
		if isCmp && c.Op == token.NEQ && pos && isLenOf(c.X) && isLenOf(c.Y) && b.Index == 0 {
			if _, ok := b.Succs[0].Instrs[len(b.Succs[0].Instrs)-1].(*ssa.Panic); ok {
				lenGuard = true
			}
		}
	})
	if lenGuard {
		r.Ok("C16.balance", fname, "len-guard", p.Pos(mo.Pos()), "len(ms) != len(refclks) panics at entry (one result slot per worker)")
	} else {
		r.Violate("C16.balance", fname, "len-guard", p.Pos(mo.Pos()), "the number of result slots is not tied to the number of reference clocks at entry")
	}
	// workers: exactly one go site, inside a range loop over refclks, closure sends once on every path
	if len(gos) != 1 {
		r.Violate("C16.balance", fname, "worker-spawn-sites", p.Pos(mo.Pos()), fmt.Sprintf("expected exactly one worker spawn site, found %d", len(gos)))
	} else {
		g := gos[0]
		// spawn count: the go is in a loop whose trip count is len(refclks): its block is dominated by a header comparing an index phi with len(refclks)
		rangeOK := false
		if bnd, ok := loopBound(mo, g.Block()); ok && isLenOf(bnd) {
			call, _ := ana.CallOf(bnd)
			if pr, ok := call.Common().Args[0].(*ssa.Parameter); ok && pr.Name() == "refclks" {
				rangeOK = true
			}
		}
		// no conditional around the go inside the loop body: the go's block is the loop body block itself (single path)
		if rangeOK {
			r.Ok("C16.balance", fname, "one-worker-per-clock", posOf(p, g), "one goroutine is started per element of refclks")
		} else {
			r.Violate("C16.balance", fname, "one-worker-per-clock", posOf(p, g), "workers are not started once per reference clock (sends would not match len(ms) receives)")
		}
		mc, ok := g.Call.Value.(*ssa.MakeClosure)
		var wf *ssa.Function
		if ok {
			wf = mc.Fn.(*ssa.Function)
		} else if f, ok := g.Call.Value.(*ssa.Function); ok {
			wf = f
		}
		if wf == nil {
			r.Violate("C16.balance", fname, "worker-body", posOf(p, g), "UNDECIDED: worker is not a function literal")
		} else {
			c16Worker(p, r, wf, mo)
		}
	}
	// CAS guard
	if cas == nil {
		r.Violate("C16.reentrancy", fname, "cas", p.Pos(mo.Pos()), "no CompareAndSwap re-entrancy guard")
		return
	}
	old, _ := ana.ConstInt(cas.Call.Args[1])
	nw, _ := ana.ConstInt(cas.Call.Args[2])
	casAddr := cas.Call.Args[0]
	if u := ana.UniqueReaching(mo, casAddr); u != nil {
		casAddr = u
	}
	okCAS := old == 0 && nw == 1 && strings.HasSuffix(ana.AccessPath(casAddr), "numOpsInProgress")
	// before any go / collect: cas dominates them; failure arm panics
	domOK := true
	for _, g := range gos {
		if !cas.Block().Dominates(g.Block()) {
			domOK = false
		}
	}
	if !cas.Block().Dominates(collect.Block()) {
		domOK = false
	}
	failPanics := false
	for _, ref := range ana.Referrers(cas) {
		if iff, ok := ref.(*ssa.If); ok {
			fb := iff.Block().Succs[1]
			if _, ok := fb.Instrs[len(fb.Instrs)-1].(*ssa.Panic); ok {
				failPanics = true
			}
		}
		if u, ok := ref.(*ssa.UnOp); ok && u.Op == token.NOT {
			for _, r2 := range ana.Referrers(u) {
				if iff, ok := r2.(*ssa.If); ok {
					fb := iff.Block().Succs[0]
					if _, ok := fb.Instrs[len(fb.Instrs)-1].(*ssa.Panic); ok {
						failPanics = true
					}
				}
			}
		}
	}
	// deferred reset 1 -> 0, registered only once the 0 -> 1 swap has succeeded: a refused attempt
	// must not release the flag that belongs to the collection in progress
	var successArms []*ssa.BasicBlock
	for _, b := range mo.Blocks {
		if len(b.Instrs) == 0 {
			continue
		}
		iff, ok := b.Instrs[len(b.Instrs)-1].(*ssa.If)
		if !ok {
			continue
		}
		for si := 0; si < 2; si++ {
			for _, a := range ana.Implied(iff.Cond, si == 0) {
				if a.V == ssa.Value(cas) && a.Holds && len(b.Succs[si].Preds) == 1 {
					successArms = append(successArms, b.Succs[si])
				}
			}
		}
	}
	onSuccessArm := func(blk *ssa.BasicBlock) bool {
		for _, s := range successArms {
			if s.Dominates(blk) {
				return true
			}
		}
		return false
	}
	deferOK := false
	ana.Instrs(mo, func(in ssa.Instruction) {
		d, ok := in.(*ssa.Defer)
		if !ok {
			return
		}
		var df *ssa.Function
		if mc, ok := d.Call.Value.(*ssa.MakeClosure); ok {
			df = mc.Fn.(*ssa.Function)
		} else if f, ok := d.Call.Value.(*ssa.Function); ok {
			df = f
		} else if f := d.Call.StaticCallee(); f != nil {
			df = f
		}
		if df == nil {
			return
		}
		for _, c := range ana.CallsIn(df, "sync/atomic.CompareAndSwapUint32") {
			o, _ := ana.ConstInt(c.Common().Args[1])
			n, _ := ana.ConstInt(c.Common().Args[2])
			if o == 1 && n == 0 {
				// every deferred release must sit on the success arm
				deferOK = onSuccessArm(d.Block())
			}
		}
	})
	if okCAS && domOK && failPanics && deferOK {
		r.Ok("C16.reentrancy", fname, "cas-guard", posOf(p, cas), "CompareAndSwap(&numOpsInProgress, 0, 1) precedes spawning and collecting, panics on failure, and the 1->0 swap is deferred after success")
	} else {
		r.Violate("C16.reentrancy", fname, "cas-guard", posOf(p, cas), fmt.Sprintf("re-entrancy guard incomplete (cas 0->1=%v dominates work=%v failure panics=%v deferred reset=%v): a second collection on the same collector would be interleaved silently", okCAS, domOK, failPanics, deferOK))
	}
}

func c16Worker(p *ana.Prog, r *ana.Result, wf, parent *ssa.Function) {
	fname := ana.FuncName(wf)
	var sends []*ssa.Send
	bad := ""
	nMeasure := 0
	ana.Instrs(wf, func(in ssa.Instruction) {
		switch x := in.(type) {
		case *ssa.Send:
			sends = append(sends, x)
		case *ssa.Call:
			n := ana.CalleeName(&x.Call)
			if n == "builtin.close" {
				bad = "worker closes the result channel"
			}
			if n == ana.Q("(core/client.ReferenceClock).MeasureClockOffset") {
				nMeasure++
			}
		case *ssa.Select:
			bad = "worker uses select around its send (a result may be dropped while the collector still counts it)"
		case *ssa.Go:
			bad = "worker starts further goroutines"
		}
	})
	if bad != "" {
		r.Violate("C16.balance", fname, "worker-shape", p.Pos(wf.Pos()), bad)
		return
	}
	if len(sends) != 1 {
		r.Violate("C16.balance", fname, "worker-sends", p.Pos(wf.Pos()), fmt.Sprintf("worker has %d send sites (exactly one send per worker keeps sends == receives)", len(sends)))
		return
	}
	// every path entry -> return passes the send; no path from send to send
	send := sends[0]
	s := &ana.Search{Fn: wf, NoFacts: true, Stop: func(in ssa.Instruction) bool { return in == ssa.Instruction(send) }, Target: func(in ssa.Instruction) bool { _, ok := in.(*ssa.Return); return ok }}
	found, w := s.Run(nil)
	s2 := &ana.Search{Fn: wf, NoFacts: true, Target: func(in ssa.Instruction) bool { return in == ssa.Instruction(send) }}
	again, _ := s2.Run(send)
	hasRecover := wf.Recover != nil
	if found || again {
		r.Violate("C16.balance", fname, "worker-sends-exactly-once", posOf(p, send), "a worker can return without sending its result, or send twice (sends != receives: collector or drain blocks forever / a sender leaks)", w...)
	} else {
		r.Ok("C16.balance", fname, "worker-sends-exactly-once", posOf(p, send), fmt.Sprintf("every path through the worker sends exactly once on the result channel (deferred recover present: %v)", hasRecover))
	}
	if nMeasure == 1 {
		r.Ok("C16.deadline", fname, "worker-measures-with-ctx", p.Pos(wf.Pos()), "the worker calls refclk.MeasureClockOffset once")
	} else {
		r.Violate("C16.deadline", fname, "worker-measures-with-ctx", p.Pos(wf.Pos()), fmt.Sprintf("the worker calls MeasureClockOffset %d times", nMeasure))
	}
}

// c16Caller: measureOffsetToRefClks builds the deadline context.
func c16Caller(p *ana.Prog, r *ana.Result) {
	fn := mustFunc(p, r, "core/sync", "measureOffsetToRefClks")
	if fn == nil {
		return
	}
	fname := ana.FuncName(fn)
	wt := ana.CallsIn(fn, "context.WithTimeout")
	mc := ana.CallsIn(fn, ana.Q("(*core/client.ReferenceClockClient).MeasureClockOffsets"))
	if len(wt) != 1 || len(mc) != 1 {
		r.Violate("C16.deadline", fname, "deadline-context", p.Pos(fn.Pos()), "measureOffsetToRefClks does not build exactly one context.WithTimeout and call MeasureClockOffsets once")
		return
	}
	w := wt[0].(*ssa.Call)
	ctx := extractOf(w, 0)
	cancel := extractOf(w, 1)
	timeoutOK := false
	if pr, ok := w.Call.Args[1].(*ssa.Parameter); ok && pr.Name() == "timeout" {
		timeoutOK = true
	}
	ctxOK := ctx != nil && mc[0].Common().Args[1] == ssa.Value(ctx)
	deferOK := false
	ana.Instrs(fn, func(in ssa.Instruction) {
		if d, ok := in.(*ssa.Defer); ok && cancel != nil && d.Call.Value == ssa.Value(cancel) {
			deferOK = true
		}
	})
	if timeoutOK && ctxOK && deferOK {
		r.Ok("C16.deadline", fname, "deadline-context", posOf(p, w), "the round's context is context.WithTimeout(background, timeout) with deferred cancel and is the one handed to MeasureClockOffsets")
	} else {
		r.Violate("C16.deadline", fname, "deadline-context", posOf(p, w), fmt.Sprintf("the collection is not run under the round's timeout context (timeout arg=%v ctx passed=%v cancel deferred=%v)", timeoutOK, ctxOK, deferOK))
	}
	// callers pass cfg.SyncTimeout
	run := mustFunc(p, r, "core/sync", "Run")
	if run == nil {
		return
	}
	n := 0
	// the timeout may be handed down through a named worker's parameter: then every call / go
	// site of that worker passes cfg.SyncTimeout
	var isSyncTimeout func(v ssa.Value, depth int) bool
	isSyncTimeout = func(v ssa.Value, depth int) bool {
		if strings.HasSuffix(ana.AccessPath(v), "cfg.SyncTimeout") {
			return true
		}
		par, ok := v.(*ssa.Parameter)
		if !ok || depth > 2 {
			return false
		}
		pf := par.Parent()
		idx := -1
		for i, q := range pf.Params {
			if q == par {
				idx = i
			}
		}
		sites := 0
		for _, g := range p.AllFuncs {
			for _, b := range g.Blocks {
				for _, in := range b.Instrs {
					ci, ok := in.(ssa.CallInstruction)
					if !ok || ci.Common().StaticCallee() != pf {
						continue
					}
					sites++
					if idx < 0 || idx >= len(ci.Common().Args) || !isSyncTimeout(ci.Common().Args[idx], depth+1) {
						return false
					}
				}
			}
		}
		return sites > 0
	}
	var callers []*ssa.Function
	for _, f := range p.AllFuncs {
		if f.Pkg == run.Pkg {
			callers = append(callers, f)
		}
	}
	for _, f := range callers {
		for _, c := range ana.CallsIn(f, ana.Q("core/sync.measureOffsetToRefClks")) {
			n++
			if isSyncTimeout(c.Common().Args[3], 0) {
				r.Ok("C16.deadline", ana.FuncName(f), "timeout-is-SyncTimeout", posOf(p, c), "timeout argument is cfg.SyncTimeout")
			} else {
				r.Violate("C16.deadline", ana.FuncName(f), "timeout-is-SyncTimeout", posOf(p, c), "the round's timeout is not cfg.SyncTimeout")
			}
		}
	}
	r.Floor("C16.deadline.callers", n, 1) // two on the pinned tree; one when both rounds share a parameterised goroutine body
}
