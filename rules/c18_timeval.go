package rules

import (
	"fmt"
	"go/constant"
	"go/token"
	"go/types"
	"math/big"
	"sort"
	"strings"

	"golang.org/x/tools/go/ssa"

	"verif/internal/ana"
)

// Path-wise proof of the two clauses of the seconds/sub-second split:
//
//	0 <= Usec < 10^9   and   Sec*10^9 + Usec == input
//
// for every int64 input, on every path of the (loop-free) function. Values are
// followed through phis and through fields of local structs; each value has
//   - an interval (closed, arbitrary precision), refined by the comparisons with
//     constants taken on the path, and
//   - a linear form over the atoms {parameter, q(X,k), r(X,k)} where q and r are
//     the truncated quotient and remainder of X by the positive constant k.
// Every +, - and * is admitted to the linear form only if its interval shows
// that it cannot wrap in int64. The identity X == k*q(X,k) + r(X,k) and the
// range |r| < k with the sign of X are the only arithmetic facts used.

type tvLin struct {
	c map[string]*big.Int
	k *big.Int
}

func tvConstLin(k *big.Int) tvLin { return tvLin{map[string]*big.Int{}, new(big.Int).Set(k)} }
func tvAtomLin(a string) tvLin {
	return tvLin{map[string]*big.Int{a: big.NewInt(1)}, big.NewInt(0)}
}
func (a tvLin) addScaled(b tvLin, s *big.Int) tvLin {
	out := tvLin{map[string]*big.Int{}, new(big.Int).Set(a.k)}
	for k, v := range a.c {
		out.c[k] = new(big.Int).Set(v)
	}
	for k, v := range b.c {
		t := new(big.Int).Mul(v, s)
		if o, ok := out.c[k]; ok {
			t.Add(t, o)
		}
		if t.Sign() == 0 {
			delete(out.c, k)
		} else {
			out.c[k] = t
		}
	}
	out.k.Add(out.k, new(big.Int).Mul(b.k, s))
	return out
}
func (a tvLin) scale(s *big.Int) tvLin { return tvConstLin(big.NewInt(0)).addScaled(a, s) }
func (a tvLin) isZero() bool           { return len(a.c) == 0 && a.k.Sign() == 0 }
func (a tvLin) String() string {
	var ks []string
	for k := range a.c {
		ks = append(ks, k)
	}
	sort.Strings(ks)
	var sb strings.Builder
	for _, k := range ks {
		fmt.Fprintf(&sb, "%+d*%s ", a.c[k], k)
	}
	fmt.Fprintf(&sb, "%+d", a.k)
	return sb.String()
}

type tvDiv struct {
	x ssa.Value // dividend
	k *big.Int
}

type tvState struct {
	res   map[ssa.Value]ssa.Value
	mem   map[string]ssa.Value
	rng   map[ssa.Value]iv
	divs  map[string]tvDiv // key "(<lin of X>,k)" -> dividend
	conds []string
}

func (s *tvState) clone() *tvState {
	n := &tvState{res: map[ssa.Value]ssa.Value{}, mem: map[string]ssa.Value{}, rng: map[ssa.Value]iv{}, divs: map[string]tvDiv{}}
	for k, v := range s.res {
		n.res[k] = v
	}
	for k, v := range s.mem {
		n.mem[k] = v
	}
	for k, v := range s.rng {
		n.rng[k] = v
	}
	for k, v := range s.divs {
		n.divs[k] = v
	}
	n.conds = append([]string(nil), s.conds...)
	return n
}

func (s *tvState) resolve(v ssa.Value) ssa.Value {
	for i := 0; i < 64; i++ {
		switch x := v.(type) {
		case *ssa.ChangeType:
			v = x.X
			continue
		case *ssa.Convert:
			if isInt64(x.Type()) && isInt64(x.X.Type()) {
				v = x.X
				continue
			}
		}
		n, ok := s.res[v]
		if !ok {
			return v
		}
		v = n
	}
	return v
}

func isInt64(t types.Type) bool {
	b, ok := t.Underlying().(*types.Basic)
	return ok && b.Kind() == types.Int64
}

func ivMeet(a, b iv) iv {
	lo, hi := a.lo, a.hi
	if b.lo.Cmp(lo) > 0 {
		lo = b.lo
	}
	if b.hi.Cmp(hi) < 0 {
		hi = b.hi
	}
	return iv{lo, hi}
}

func (a iv) inInt64() bool {
	f := ivFull()
	return a.lo.Cmp(f.lo) >= 0 && a.hi.Cmp(f.hi) <= 0
}

func posConst(v ssa.Value) (*big.Int, bool) {
	k, ok := ana.ConstInt(v)
	if !ok || k <= 0 {
		return nil, false
	}
	return big.NewInt(k), true
}

// remRange: range of the truncated remainder of a value in a by k > 0.
func remRange(a iv, k *big.Int) iv {
	k1 := new(big.Int).Sub(k, big.NewInt(1))
	lo, hi := new(big.Int).Neg(k1), k1
	if a.lo.Sign() >= 0 {
		lo = big.NewInt(0)
	}
	if a.hi.Sign() <= 0 {
		hi = big.NewInt(0)
	}
	return iv{lo, hi}
}

// ivOf: interval of an int64 value on this path (structural, via the linear form, and path refinements).
func (s *tvState) ivOf(v ssa.Value, d int) (iv, bool) {
	v = s.resolve(v)
	out, ok := s.ivStruct(v, d)
	if !ok {
		if !isInt64(v.Type()) {
			return iv{}, false
		}
		out = ivFull()
	}
	if d < 6 {
		if l, ok := s.linOf(v, d+1); ok {
			if x, ok := s.ivOfLin(l, d+1); ok {
				out = ivMeet(out, x)
			}
		}
	}
	if r, ok := s.rng[v]; ok {
		out = ivMeet(out, r)
	}
	return out, true
}

func (s *tvState) ivStruct(v ssa.Value, d int) (iv, bool) {
	if d > 24 {
		return iv{}, false
	}
	switch x := v.(type) {
	case *ssa.Const:
		if k, ok := ana.ConstInt(x); ok {
			return ivConst(k), true
		}
	case *ssa.Parameter:
		if isInt64(x.Type()) {
			return ivFull(), true
		}
	case *ssa.UnOp:
		if x.Op == token.SUB {
			a, ok := s.ivOf(x.X, d+1)
			if ok {
				return iv{new(big.Int).Neg(a.hi), new(big.Int).Neg(a.lo)}, true
			}
		}
	case *ssa.BinOp:
		a, ok1 := s.ivOf(x.X, d+1)
		b, ok2 := s.ivOf(x.Y, d+1)
		if !ok1 || !ok2 {
			return iv{}, false
		}
		switch x.Op {
		case token.ADD:
			return iv{new(big.Int).Add(a.lo, b.lo), new(big.Int).Add(a.hi, b.hi)}, true
		case token.SUB:
			return iv{new(big.Int).Sub(a.lo, b.hi), new(big.Int).Sub(a.hi, b.lo)}, true
		case token.MUL:
			if a.lo.Cmp(a.hi) == 0 {
				a, b = b, a
			}
			if b.lo.Cmp(b.hi) == 0 {
				p, q := new(big.Int).Mul(a.lo, b.lo), new(big.Int).Mul(a.hi, b.lo)
				if p.Cmp(q) > 0 {
					p, q = q, p
				}
				return iv{p, q}, true
			}
		case token.QUO:
			if b.lo.Cmp(b.hi) == 0 && b.lo.Sign() > 0 && a.inInt64() {
				return iv{new(big.Int).Quo(a.lo, b.lo), new(big.Int).Quo(a.hi, b.lo)}, true
			}
		case token.REM:
			if b.lo.Cmp(b.hi) == 0 && b.lo.Sign() > 0 && a.inInt64() {
				return remRange(a, b.lo), true
			}
		}
	}
	return iv{}, false
}

// divKey registers the pair (X, k) and returns the atom suffix.
func (s *tvState) divKey(x ssa.Value, k *big.Int, d int) (string, bool) {
	l, ok := s.linOf(x, d+1)
	if !ok {
		return "", false
	}
	key := "(" + l.String() + "," + k.String() + ")"
	if _, ok := s.divs[key]; !ok {
		s.divs[key] = tvDiv{s.resolve(x), k}
	}
	return key, true
}

// linOf: exact linear form of v over the atoms, valid in the integers (no wrap).
func (s *tvState) linOf(v ssa.Value, d int) (tvLin, bool) {
	if d > 24 {
		return tvLin{}, false
	}
	v = s.resolve(v)
	noWrap := func() bool {
		x, ok := s.ivStruct(v, d+1)
		return ok && x.inInt64()
	}
	switch x := v.(type) {
	case *ssa.Const:
		if k, ok := ana.ConstInt(x); ok {
			return tvConstLin(big.NewInt(k)), true
		}
	case *ssa.Parameter:
		if isInt64(x.Type()) {
			return tvAtomLin("in:" + x.Name()), true
		}
	case *ssa.UnOp:
		if x.Op == token.SUB && noWrap() {
			if a, ok := s.linOf(x.X, d+1); ok {
				return a.scale(big.NewInt(-1)), true
			}
		}
	case *ssa.BinOp:
		switch x.Op {
		case token.ADD, token.SUB:
			a, ok1 := s.linOf(x.X, d+1)
			b, ok2 := s.linOf(x.Y, d+1)
			if ok1 && ok2 && noWrap() {
				sg := big.NewInt(1)
				if x.Op == token.SUB {
					sg = big.NewInt(-1)
				}
				return a.addScaled(b, sg), true
			}
		case token.MUL:
			for _, pr := range [][2]ssa.Value{{x.X, x.Y}, {x.Y, x.X}} {
				if k, ok := ana.ConstInt(s.resolve(pr[1])); ok {
					if a, ok := s.linOf(pr[0], d+1); ok && noWrap() {
						return a.scale(big.NewInt(k)), true
					}
				}
			}
		case token.QUO, token.REM:
			if k, ok := posConst(s.resolve(x.Y)); ok && isInt64(x.X.Type()) {
				if key, ok := s.divKey(x.X, k, d); ok {
					if x.Op == token.QUO {
						return tvAtomLin("q" + key), true
					}
					return tvAtomLin("r" + key), true
				}
			}
		}
	}
	return tvLin{}, false
}

// reduce eliminates q atoms using X == k*q + r.
func (s *tvState) reduce(l tvLin, d int) tvLin {
	for i := 0; i < 8; i++ {
		changed := false
		for a, c := range l.c {
			if !strings.HasPrefix(a, "q(") {
				continue
			}
			dv, ok := s.divs[a[1:]]
			if !ok {
				continue
			}
			m := new(big.Int)
			qq, _ := new(big.Int).QuoRem(c, dv.k, m)
			if m.Sign() != 0 {
				continue
			}
			xl, ok := s.linOf(dv.x, d+1)
			if !ok {
				continue
			}
			// c*q = (c/k)*(X - r)
			l = l.addScaled(tvAtomLin(a), new(big.Int).Neg(c))
			l = l.addScaled(xl, qq)
			l = l.addScaled(tvAtomLin("r"+a[1:]), new(big.Int).Neg(qq))
			changed = true
			break
		}
		if !changed {
			break
		}
	}
	return l
}

// ivOfLin: interval of a linear form after eliminating quotients; only forms over remainders and constants are bounded.
func (s *tvState) ivOfLin(l tvLin, d int) (iv, bool) {
	l = s.reduce(l, d)
	out := iv{new(big.Int).Set(l.k), new(big.Int).Set(l.k)}
	for a, c := range l.c {
		if !strings.HasPrefix(a, "r(") {
			return iv{}, false
		}
		dv, ok := s.divs[a[1:]]
		if !ok {
			return iv{}, false
		}
		xi, ok := s.ivOf(dv.x, d+1)
		if !ok || !xi.inInt64() {
			return iv{}, false
		}
		r := remRange(xi, dv.k)
		p, q := new(big.Int).Mul(r.lo, c), new(big.Int).Mul(r.hi, c)
		if p.Cmp(q) > 0 {
			p, q = q, p
		}
		out = iv{new(big.Int).Add(out.lo, p), new(big.Int).Add(out.hi, q)}
	}
	return out, true
}

// refine records the outcome of a comparison with a constant; false if the path is infeasible.
func (s *tvState) refine(cond ssa.Value, val bool) bool {
	c, pos, isCmp := ana.AsCmp(cond)
	if !isCmp {
		return true
	}
	holds := val == pos
	x, y, op := s.resolve(c.X), s.resolve(c.Y), c.Op
	if _, isK := x.(*ssa.Const); isK {
		x, y, op = y, x, ana.SwapOp(op)
	}
	k, ok := ana.ConstInt(y)
	if !ok || !isInt64(x.Type()) {
		return true
	}
	if !holds {
		op = ana.NegOp(op)
	}
	cur, ok := s.ivOf(x, 0)
	if !ok {
		return true
	}
	kk := big.NewInt(k)
	one := big.NewInt(1)
	switch op {
	case token.LSS:
		cur = ivMeet(cur, iv{cur.lo, new(big.Int).Sub(kk, one)})
	case token.LEQ:
		cur = ivMeet(cur, iv{cur.lo, kk})
	case token.GTR:
		cur = ivMeet(cur, iv{new(big.Int).Add(kk, one), cur.hi})
	case token.GEQ:
		cur = ivMeet(cur, iv{kk, cur.hi})
	case token.EQL:
		cur = ivMeet(cur, iv{kk, kk})
	case token.NEQ:
		if cur.lo.Cmp(kk) == 0 {
			cur = iv{new(big.Int).Add(kk, one), cur.hi}
		} else if cur.hi.Cmp(kk) == 0 {
			cur = iv{cur.lo, new(big.Int).Sub(kk, one)}
		}
	}
	s.rng[x] = cur
	s.conds = append(s.conds, fmt.Sprintf("%s %s %d", x.Name(), op, k))
	return !cur.empty()
}

func tvMemKey(addr ssa.Value) (string, bool) {
	fa, ok := addr.(*ssa.FieldAddr)
	if !ok {
		return "", false
	}
	a, ok := fa.X.(*ssa.Alloc)
	if !ok {
		return "", false
	}
	return a.Name() + "." + fieldNameOf(fa.X.Type(), fa.Field), true
}

type tvReturn struct {
	ret *ssa.Return
	st  *tvState
}

// tvPaths enumerates the feasible paths of a loop-free function.
func tvPaths(fn *ssa.Function) ([]tvReturn, error) {
	if _, err := ana.Topo(fn); err != nil {
		return nil, err
	}
	var out []tvReturn
	var walk func(b, from *ssa.BasicBlock, st *tvState) error
	walk = func(b, from *ssa.BasicBlock, st *tvState) error {
		if len(out) > 256 {
			return fmt.Errorf("more than 256 paths")
		}
		// phis read the state at block entry
		upd := map[ssa.Value]ssa.Value{}
		for _, in := range b.Instrs {
			ph, ok := in.(*ssa.Phi)
			if !ok {
				break
			}
			for i, p := range b.Preds {
				if p == from {
					upd[ph] = st.resolve(ph.Edges[i])
				}
			}
		}
		for k, v := range upd {
			st.res[k] = v
		}
		for _, in := range b.Instrs {
			switch x := in.(type) {
			case *ssa.Store:
				if key, ok := tvMemKey(x.Addr); ok {
					st.mem[key] = st.resolve(x.Val)
				} else if a, ok := x.Addr.(*ssa.Alloc); ok {
					// whole-struct store from another local struct
					if ld, ok := x.Val.(*ssa.UnOp); ok && ld.Op == token.MUL {
						if src, ok := ld.X.(*ssa.Alloc); ok {
							for k, v := range st.mem {
								if strings.HasPrefix(k, src.Name()+".") {
									st.mem[a.Name()+k[len(src.Name()):]] = v
								}
							}
							continue
						}
					}
					st.mem[a.Name()+".*"] = x.Val
				}
			case *ssa.UnOp:
				if x.Op == token.MUL {
					if key, ok := tvMemKey(x.X); ok {
						if v, ok := st.mem[key]; ok {
							st.res[x] = v
						}
					}
				}
			case *ssa.Return:
				out = append(out, tvReturn{x, st})
				return nil
			case *ssa.If:
				for si, val := range []bool{true, false} {
					n := st.clone()
					if n.refine(x.Cond, val) {
						if err := walk(b.Succs[si], b, n); err != nil {
							return err
						}
					}
				}
				return nil
			case *ssa.Jump:
				return walk(b.Succs[0], b, st)
			case *ssa.Panic:
				return nil
			}
		}
		return nil
	}
	st := &tvState{res: map[ssa.Value]ssa.Value{}, mem: map[string]ssa.Value{}, rng: map[ssa.Value]iv{}, divs: map[string]tvDiv{}}
	if err := walk(fn.Blocks[0], nil, st); err != nil {
		return nil, err
	}
	return out, nil
}

func c18Timeval(p *ana.Prog, r *ana.Result) {
	fn := mustFunc(p, r, "base/unixutil", "TimevalFromNsec")
	if fn == nil {
		return
	}
	fname := ana.FuncName(fn)
	if len(fn.Params) != 1 || !isInt64(fn.Params[0].Type()) {
		r.Violate("C18.timeval", fname, "undecided", p.Pos(fn.Pos()), "UNDECIDED: expected one int64 parameter")
		return
	}
	in := tvAtomLin("in:" + fn.Params[0].Name())
	paths, err := tvPaths(fn)
	if err != nil {
		r.Violate("C18.timeval", fname, "undecided", p.Pos(fn.Pos()), "UNDECIDED: "+err.Error())
		return
	}
	if len(paths) == 0 {
		r.Violate("C18.timeval", fname, "no-return", p.Pos(fn.Pos()), "no return found")
		return
	}
	billion := big.NewInt(1e9)
	rangeOK, splitOK := true, true
	var rngs []string
	for _, pt := range paths {
		st := pt.st
		on := " on the path [" + strings.Join(st.conds, ", ") + "]"
		ld, ok := pt.ret.Results[0].(*ssa.UnOp)
		var a *ssa.Alloc
		if ok {
			a, ok = ld.X.(*ssa.Alloc)
		}
		if !ok {
			r.Violate("C18.timeval", fname, "result-form", posOf(p, pt.ret), "UNDECIDED: result is not a local struct value")
			rangeOK, splitOK = false, false
			continue
		}
		zero := ssa.Value(ssa.NewConst(constant.MakeInt64(0), types.Typ[types.Int64]))
		us, hasU := st.mem[a.Name()+".Usec"]
		sec, hasS := st.mem[a.Name()+".Sec"]
		if _, whole := st.mem[a.Name()+".*"]; whole {
			r.Violate("C18.timeval", fname, "result-form", posOf(p, pt.ret), "UNDECIDED: result struct is assigned as a whole from a non-local value")
			rangeOK, splitOK = false, false
			continue
		}
		if !hasU {
			us = zero
		}
		if !hasS {
			sec = zero
		}
		v, ok := st.ivOf(us, 0)
		switch {
		case !ok:
			r.Violate("C18.timeval", fname, "usec-range", posOf(p, pt.ret), "UNDECIDED: the sub-second part is computed by operations outside the interval domain"+on)
			rangeOK = false
		case v.lo.Sign() >= 0 && v.hi.Cmp(big.NewInt(999999999)) <= 0:
			rngs = append(rngs, v.String())
		default:
			r.Violate("C18.timeval", fname, "usec-range", posOf(p, pt.ret), "the sub-second part can lie in "+v.String()+", outside [0, 10^9)"+on+": the kernel rejects such a timeval")
			rangeOK = false
		}
		sl, ok1 := st.linOf(sec, 0)
		ul, ok2 := st.linOf(us, 0)
		if !ok1 || !ok2 {
			r.Violate("C18.timeval", fname, "exact-split", posOf(p, pt.ret), "UNDECIDED: seconds or sub-second part is not an exact (wrap-free) linear form of the input, its quotient and its remainder"+on)
			splitOK = false
			continue
		}
		e := sl.scale(billion).addScaled(ul, big.NewInt(1)).addScaled(in, big.NewInt(-1))
		e = st.reduce(e, 0)
		if !e.isZero() {
			r.Violate("C18.timeval", fname, "exact-split", posOf(p, pt.ret), "seconds*10^9 + sub-second - input is not identically zero"+on+": it equals "+e.String())
			splitOK = false
		}
	}
	if rangeOK {
		r.Ok("C18.timeval", fname, "usec-range", p.Pos(fn.Pos()), fmt.Sprintf("for every int64 input and on each of the %d feasible paths the sub-second part lies within [0, 10^9) (per path: %s)", len(paths), strings.Join(rngs, ", ")))
	}
	if splitOK {
		r.Ok("C18.timeval", fname, "exact-split", p.Pos(fn.Pos()), fmt.Sprintf("on each of the %d feasible paths seconds*10^9 + sub-second - input reduces to 0 using only n == 10^9*(n/10^9) + n%%10^9; no addition, subtraction or multiplication on the way can wrap", len(paths)))
	}
}
