package rules

import (
	"fmt"
	"go/token"
	"go/types"
	"strings"

	"golang.org/x/tools/go/ssa"

	"verif/internal/ana"
)

func init() { All["C13"] = checkC13 }

const (
	fnCMAC    = "github.com/scionproto/scion/pkg/spao.ComputeAuthCMAC"
	slayersPk = "github.com/scionproto/scion/pkg/slayers"
)

// structLit resolves a by-value struct argument built as a composite literal:
// field name -> stored value.
func structLit(v ssa.Value) map[string]ssa.Value {
	ld, ok := v.(*ssa.UnOp)
	if !ok || ld.Op != token.MUL {
		return nil
	}
	a, ok := ld.X.(*ssa.Alloc)
	if !ok {
		return nil
	}
	out := map[string]ssa.Value{}
	for _, ref := range ana.Referrers(a) {
		fa, ok := ref.(*ssa.FieldAddr)
		if !ok {
			continue
		}
		for _, r2 := range ana.Referrers(fa) {
			if st, ok := r2.(*ssa.Store); ok && st.Addr == ssa.Value(fa) {
				out[fieldNameOf(fa.X.Type(), fa.Field)] = st.Val
			}
		}
	}
	return out
}

// authOptOf: the *EndToEndOption inside a PacketAuthOption literal.
func authOptOf(v ssa.Value) ssa.Value {
	m := structLit(v)
	if m == nil {
		return nil
	}
	return m["EndToEndOption"]
}

func checkC13(p *ana.Prog, r *ana.Result) {
	r.Explain("C13 (structural necessary conditions): MAC gate - in the SCION listener and the SCION client, once an authenticator option with the expected SPI and algorithm was found and a key obtained, the reply write / the success return is reachable only through ConstantTimeCompare(PacketAuthOptMAC(opt), computed MAC) != 0, the MAC being computed with the host-to-host key over the decoded SCION layer and the received UDP payload; the server derives that key for (this packet's source AS and host, the addressed host), and a cached AS-level key is reused only if protocol, both ASes, the addressed host and the epoch all match; authenticated reply - from an authenticated request every path to the reply passes PreparePacketAuthOpt(SPIServer), ComputeAuthCMAC under the verified key into the option's MAC field, and serialisation of the option, and nothing of the SCION header except NextHdr is modified after a MAC over it was computed (listener and client); direction table - client and server SPIs differ in the direction bit only and each side verifies the other's; swap rule - both reply arms exchange DstIA/SrcIA, address types and raw addresses (NTP arm also the UDP ports), reverse the path, echo the SCMP payload, and write to the previous hop; forwarding - only when received on the end-host port and not addressed to it, to (destination host, L4 port), payload and addresses untouched.")
	r.Undecided("CMAC correctness, DRKey derivation inside the SCION libraries, that the reversed path works, gopacket checksums. When no key can be fetched the request is served unauthenticated (as coded); the MAC gate is conditional on a key being available.")
	c13Consts(p, r)
	c13Server(p, r)
	c13Client(p, r)
	c13Cache(p, r)
}

func c13Consts(p *ana.Prog, r *ana.Result) {
	cc, sc := p.Const("net/scion", "PacketAuthSPIClient"), p.Const("net/scion", "PacketAuthSPIServer")
	if cc == nil || sc == nil {
		r.Broken("SPI constants do not resolve")
		return
	}
	c, _ := ana.ConstInt(cc.Value)
	s, _ := ana.ConstInt(sc.Value)
	if c^s == 1<<16 && c&0xffff == 123 && s&0xffff == 123 && c>>17 == 1 {
		r.Ok("C13.direction", "net/scion", "spi-constants", p.Pos(cc.Pos()), fmt.Sprintf("SPIClient=0x%x and SPIServer=0x%x differ in the direction bit (bit 16) only; protocol 123, host-host type", c, s))
	} else {
		r.Violate("C13.direction", "net/scion", "spi-constants", p.Pos(cc.Pos()), fmt.Sprintf("SPIClient=0x%x / SPIServer=0x%x are not the time-service host-host SPIs differing in the direction bit only", c, s))
	}
}

// spiGate: edges on which spi == want && algo == 0 is established for PacketAuthOptMetadata results.
func spiEdges(p *ana.Prog, fn *ssa.Function, want int64) (*ana.Gate, *ana.Gate) {
	spi := ana.FindGate(p, fn, "spi==expected", func(c ana.Cmp, isCmp bool, _ ssa.Value) (bool, bool) {
		if !isCmp || (c.Op != token.EQL && c.Op != token.NEQ) {
			return false, false
		}
		call, idx := ana.CallOf(c.X)
		if call == nil || ana.CalleeName(call.Common()) != ana.Q("net/scion.PacketAuthOptMetadata") || idx != 0 {
			return false, false
		}
		k, ok := ana.ConstInt(c.Y)
		if !ok || k != want {
			return false, false
		}
		return true, c.Op == token.EQL
	})
	algo := ana.FindGate(p, fn, "algo==AES-CMAC", func(c ana.Cmp, isCmp bool, _ ssa.Value) (bool, bool) {
		if !isCmp || (c.Op != token.EQL && c.Op != token.NEQ) {
			return false, false
		}
		call, idx := ana.CallOf(c.X)
		if call == nil || ana.CalleeName(call.Common()) != ana.Q("net/scion.PacketAuthOptMetadata") || idx != 1 {
			return false, false
		}
		k, ok := ana.ConstInt(c.Y)
		if !ok || k != 0 {
			return false, false
		}
		return true, c.Op == token.EQL
	})
	return spi, algo
}

// macGate: edges where ConstantTimeCompare(PacketAuthOptMAC(opt), mac) != 0.
func macGate(p *ana.Prog, fn *ssa.Function, verify *ssa.Call) *ana.Gate {
	return ana.FindGate(p, fn, "ConstantTimeCompare(optMAC, computedMAC)!=0", func(c ana.Cmp, isCmp bool, _ ssa.Value) (bool, bool) {
		if !isCmp || (c.Op != token.EQL && c.Op != token.NEQ) {
			return false, false
		}
		call, _ := ana.CallOf(c.X)
		if call == nil || ana.CalleeName(call.Common()) != fnCTCompare {
			return false, false
		}
		k, ok := ana.ConstInt(c.Y)
		if !ok || k != 0 {
			return false, false
		}
		// args: PacketAuthOptMAC(same option as the verified header), the verify call's output buffer
		a0, a1 := call.Common().Args[0], call.Common().Args[1]
		m0, _ := ana.CallOf(a0)
		if m0 == nil || ana.CalleeName(m0.Common()) != ana.Q("net/scion.PacketAuthOptMAC") {
			a0, a1 = a1, a0
			m0, _ = ana.CallOf(a0)
		}
		if m0 == nil || ana.CalleeName(m0.Common()) != ana.Q("net/scion.PacketAuthOptMAC") {
			return false, false
		}
		in := structLit(verify.Call.Args[0])
		if in == nil || m0.Common().Args[0] != authOptOf(in["Header"]) {
			return false, false
		}
		if !sameBuf(a1, verify.Call.Args[2]) {
			return false, false
		}
		return true, c.Op == token.NEQ
	})
}

// checkMACInput verifies the fields of a verifying ComputeAuthCMAC call.
func checkMACInput(p *ana.Prog, r *ana.Result, fn *ssa.Function, c *ssa.Call, who string, bufIsRead func(ssa.Value) bool) {
	fname := ana.FuncName(fn)
	in := structLit(c.Call.Args[0])
	if in == nil {
		r.Violate("C13.mac", fname, "mac-input-form:"+who, posOf(p, c), "UNDECIDED: MACInput is not a composite literal")
		return
	}
	okLayer := false
	if a, ok := in["ScionLayer"].(*ssa.Alloc); ok && a.Comment == "scionLayer" {
		okLayer = true
	}
	pld, _ := in["Pld"].(*ssa.Slice)
	okPld := false
	if pld != nil && pld.High == nil {
		if sub, ok := pld.Low.(*ssa.BinOp); ok && sub.Op == token.SUB && isLenOf(sub.X) {
			lc, _ := ana.CallOf(sub.X)
			if sameBuf(lc.Common().Args[0], pld.X) && strings.HasSuffix(ana.AccessPath(ana.StripConv(sub.Y)), "udpLayer.Length") && bufIsRead(pld.X) {
				okPld = true
			}
		}
	}
	pt, _ := ana.ConstInt(in["PldType"])
	if okLayer && okPld && pt == 17 {
		r.Ok("C13.mac", fname, "mac-input:"+who, posOf(p, c), "MAC is computed over the decoded SCION layer and buf[len(buf)-udpLayer.Length:] (the received L4 datagram), payload type UDP")
	} else {
		r.Violate("C13.mac", fname, "mac-input:"+who, posOf(p, c), fmt.Sprintf("the verified MAC does not cover the received packet (scion layer=%v, payload=received UDP datagram=%v, type UDP=%v)", okLayer, okPld, pt == 17))
	}
}

func c13Server(p *ana.Prog, r *ana.Result) {
	fn := mustFunc(p, r, "core/server", "runSCIONServer")
	if fn == nil {
		return
	}
	fname := ana.FuncName(fn)
	rd := readSite(r, fn)
	if rd == nil {
		return
	}
	isRead := func(in ssa.Instruction) bool { return in == ssa.Instruction(rd) }
	cmacs := ana.CallsIn(fn, fnCMAC)
	hrs := ana.CallsIn(fn, ana.Q("core/server.handleRequest"))
	if len(cmacs) != 2 || len(hrs) != 1 {
		r.Violate("C13.mac", fname, "cmac-sites", p.Pos(fn.Pos()), fmt.Sprintf("expected two ComputeAuthCMAC calls (verify request, authenticate reply) and one handleRequest, found %d/%d", len(cmacs), len(hrs)))
		return
	}
	// verify = the one from which handleRequest is reachable
	var verify, sign *ssa.Call
	for _, c := range cmacs {
		cc := c.(*ssa.Call)
		s := &ana.Search{Fn: fn, NoFacts: true, Stop: isRead, Target: func(in ssa.Instruction) bool { return in == hrs[0].(ssa.Instruction) }}
		if found, _ := s.Run(cc); found {
			verify = cc
		} else {
			sign = cc
		}
	}
	if verify == nil || sign == nil {
		r.Violate("C13.mac", fname, "cmac-roles", p.Pos(fn.Pos()), "UNDECIDED: could not tell the verifying from the signing ComputeAuthCMAC call")
		return
	}
	writes := ana.CallsIn(fn, fnWriteMsg)
	var reply ssa.CallInstruction
	for _, w := range writes {
		w := w
		if ana.Reachable(fn, hrs[0].(ssa.Instruction), func(in ssa.Instruction) bool { return in == w.(ssa.Instruction) }, isRead, nil) {
			reply = w
		}
	}
	if reply == nil {
		r.Violate("C13.mac", fname, "reply-write", p.Pos(fn.Pos()), "NTP reply write not found")
		return
	}
	isReply := func(in ssa.Instruction) bool { return in == reply.(ssa.Instruction) }
	nBuf := extractOf(rd, 0)
	bufIsRead := func(v ssa.Value) bool {
		sl, ok := ana.UniqueReaching(fn, v).(*ssa.Slice)
		if ok && sl.High == ssa.Value(nBuf) {
			return true
		}
		// phi over re-slices of the read buffer
		return sliceRootIs(v, rd.Call.Args[1]) || ana.AccessPath(v) == "buf"
	}
	checkMACInput(p, r, fn, verify, "request", bufIsRead)
	// gate
	g := macGate(p, fn, verify)
	if len(g.Accept) == 0 {
		r.Violate("C13.mac", fname, "mac-gate-missing", posOf(p, verify), "the computed MAC is not compared (constant time) with the MAC carried by the packet's authenticator option")
	} else if ok, w := ana.MustPass(fn, verify, g, isReply, isRead, nil); ok {
		r.Ok("C13.mac", fname, "mac-gate:reply", strings.Join(g.Sites, ","), "after a MAC was computed for a request the reply write is reachable only through ConstantTimeCompare(...) != 0")
	} else {
		r.Violate("C13.mac", fname, "mac-gate:reply", strings.Join(g.Sites, ","), "a request whose authenticator does not verify can still be served", w...)
	}
	// the verification is reached whenever spi/algo match and the key fetch succeeded
	spi, algo := spiEdges(p, fn, c13SPI(p, "PacketAuthSPIClient"))
	fetchOK := ana.ErrNilGate(p, fn, ana.Q("(*net/scion.Fetcher).FetchHostASKey"))
	if len(spi.Accept) == 0 || len(algo.Accept) == 0 || len(fetchOK.Accept) == 0 {
		r.Violate("C13.mac", fname, "verify-conditions", p.Pos(fn.Pos()), "the listener does not test the authenticator's SPI (client direction), algorithm and key fetch before verifying")
	} else {
		// from the key-fetch-ok edge, every path to the reply passes the verify call
		okAll := true
		var wit []string
		for e := range fetchOK.Accept {
			e := e
			s := &ana.Search{Fn: fn, Via: func(x ana.Edge) bool { return x == e }, Stop: func(in ssa.Instruction) bool { return in == ssa.Instruction(verify) || isRead(in) }, Target: isReply}
			if found, w := s.Run(rd); found {
				okAll = false
				wit = w
			}
		}
		if okAll {
			r.Ok("C13.mac", fname, "verify-when-key-available", posOf(p, verify), "once the host-AS key was fetched for a matching authenticator, every path to the reply computes and checks the MAC")
		} else {
			r.Violate("C13.mac", fname, "verify-when-key-available", posOf(p, verify), "with a key available a request carrying the time-service authenticator can be served without MAC verification", wit...)
		}
		// the verify call itself lies behind spi==SPIClient and algo==0
		for _, gg := range []*ana.Gate{spi, algo} {
			if ok, w := ana.MustPass(fn, rd, gg, func(in ssa.Instruction) bool { return in == ssa.Instruction(verify) }, isRead, nil); ok {
				r.Ok("C13.direction", fname, "verify-behind:"+gg.Name, strings.Join(gg.Sites, ","), "MAC verification is done for authenticators with "+gg.Name+" (client-to-server direction)")
			} else {
				r.Violate("C13.direction", fname, "verify-behind:"+gg.Name, strings.Join(gg.Sites, ","), "MAC verification is not conditioned on "+gg.Name, w...)
			}
		}
	}
	// key derivation inputs
	c13ServerKey(p, r, fn, verify)
	// authenticated reply
	prep := ana.CallsIn(fn, ana.Q("net/scion.PreparePacketAuthOpt"))
	if len(prep) != 1 {
		r.Violate("C13.reply", fname, "prepare-site", p.Pos(fn.Pos()), fmt.Sprintf("expected one PreparePacketAuthOpt call, found %d", len(prep)))
	} else {
		spiArg, _ := ana.ConstInt(prep[0].Common().Args[1])
		algArg, _ := ana.ConstInt(prep[0].Common().Args[2])
		vin, sin := structLit(verify.Call.Args[0]), structLit(sign.Call.Args[0])
		sameOpt := vin != nil && sin != nil && sameOptValue(authOptOf(sin["Header"]), prep[0].Common().Args[0])
		sameKey := vin != nil && sin != nil && sameKeyValue(vin["Key"], sin["Key"])
		outMAC := false
		if m, _ := ana.CallOf(sign.Call.Args[2]); m != nil && ana.CalleeName(m.Common()) == ana.Q("net/scion.PacketAuthOptMAC") && sameOptValue(m.Common().Args[0], prep[0].Common().Args[0]) {
			outMAC = true
		}
		if spiArg == c13SPI(p, "PacketAuthSPIServer") && algArg == 0 && sameOpt && sameKey && outMAC {
			r.Ok("C13.reply", fname, "reply-authenticator", posOf(p, sign), "reply: PreparePacketAuthOpt(opt, SPIServer, AES-CMAC); ComputeAuthCMAC(key = the verified key, header = opt) writes into PacketAuthOptMAC(opt)")
		} else {
			r.Violate("C13.reply", fname, "reply-authenticator", posOf(p, sign), fmt.Sprintf("the reply authenticator is not (SPIServer, AES-CMAC, same option, verified key, MAC written into the option): spi=0x%x algo=%d sameOpt=%v sameKey=%v out=%v", spiArg, algArg, sameOpt, sameKey, outMAC))
		}
		// from authenticated == true every path to the reply passes prepare, sign and the e2e serialisation
		auth := authFlagGate(p, fn, g)
		e2eSer := ana.IsCallTo("(*" + slayersPk + ".EndToEndExtn).SerializeTo")
		for _, st := range []struct {
			name string
			pred func(ssa.Instruction) bool
		}{{"PreparePacketAuthOpt", func(in ssa.Instruction) bool { return in == prep[0].(ssa.Instruction) }}, {"ComputeAuthCMAC(reply)", func(in ssa.Instruction) bool { return in == ssa.Instruction(sign) }}, {"EndToEndExtn.SerializeTo", func(in ssa.Instruction) bool {
			return e2eSer(in) && in.Block() != nil && sign.Block().Dominates(in.Block())
		}}} {
			s := &ana.Search{Fn: fn, Via: func(e ana.Edge) bool { return g.Accept[e] }, Stop: func(in ssa.Instruction) bool { return st.pred(in) || isRead(in) }, Target: isReply}
			if found, w := s.Run(rd); found {
				r.Violate("C13.reply", fname, "authenticated-reply-passes:"+st.name, posOf(p, reply), "the reply to a request whose authenticator verified can be sent without "+st.name+" (the client would reject or not be able to verify it)", w...)
			} else {
				r.Ok("C13.reply", fname, "authenticated-reply-passes:"+st.name, posOf(p, reply), "every path from a verified authenticator to the reply write passes "+st.name)
			}
		}
		_ = auth
	}
	// header unchanged after signing
	c13NoHeaderStoreAfter(p, r, fn, sign, isReply, isRead)
	// swap rules and destinations
	c13Swaps(p, r, fn, rd, reply)
	c13Forward(p, r, fn, rd)
}

func c13SPI(p *ana.Prog, name string) int64 {
	nc := p.Const("net/scion", name)
	if nc == nil {
		return -1
	}
	v, _ := ana.ConstInt(nc.Value)
	return v
}

func sameOptValue(a, b ssa.Value) bool {
	if a == nil || b == nil {
		return false
	}
	if a == b {
		return true
	}
	pa, pb := ana.AccessPath(a), ana.AccessPath(b)
	return pa != "" && pa == pb
}

func sameKeyValue(a, b ssa.Value) bool {
	if a == nil || b == nil {
		return false
	}
	if a == b {
		return true
	}
	// phi named authKey on both sides / one flows into the other
	if flowsTo(a, b) || flowsTo(b, a) {
		return true
	}
	pa, pb := ana.AccessPath(a), ana.AccessPath(b)
	return pa != "" && pa == pb
}

func authFlagGate(p *ana.Prog, fn *ssa.Function, g *ana.Gate) *ana.Gate { return g }

// c13NoHeaderStoreAfter: between a signing ComputeAuthCMAC and the write no
// field of the SCION layer other than NextHdr is stored.
func c13NoHeaderStoreAfter(p *ana.Prog, r *ana.Result, fn *ssa.Function, sign *ssa.Call, isWrite, isRead func(ssa.Instruction) bool) {
	fname := ana.FuncName(fn)
	bad := func(in ssa.Instruction) bool {
		st, ok := in.(*ssa.Store)
		if !ok {
			return false
		}
		pth := ana.AccessPath(st.Addr)
		if !strings.HasPrefix(pth, "scionLayer.") {
			return false
		}
		return pth != "scionLayer.NextHdr"
	}
	s := &ana.Search{Fn: fn, Stop: func(in ssa.Instruction) bool { return isWrite(in) || isRead(in) }, Target: bad}
	if found, w := s.Run(sign); found {
		r.Violate("C13.reply", fname, "header-frozen-after-mac", posOf(p, sign), "a field of the SCION header covered by the MAC is modified after the MAC was computed and before the packet is sent (the receiver's verification fails, e.g. when DSCP differs)", w...)
	} else {
		r.Ok("C13.reply", fname, "header-frozen-after-mac", posOf(p, sign), "between computing the MAC and writing the packet only scionLayer.NextHdr (not covered) is stored")
	}
	// and all header stores of this packet happen before the MAC on every path: stores to covered fields reachable from entry/read must not be able to skip to the write... covered by the rule above
}

func c13ServerKey(p *ana.Prog, r *ana.Result, fn *ssa.Function, verify *ssa.Call) {
	fname := ana.FuncName(fn)
	fk := ana.CallsIn(fn, ana.Q("(*net/scion.Fetcher).FetchHostASKey"))
	dk := ana.CallsIn(fn, ana.Q("net/scion.DeriveHostHostKey"))
	if len(fk) != 1 || len(dk) != 1 {
		r.Violate("C13.key", fname, "key-sites", p.Pos(fn.Pos()), "expected one FetchHostASKey and one DeriveHostHostKey call")
		return
	}
	meta := structLit(fk[0].Common().Args[2])
	okMeta := meta != nil
	if okMeta {
		pid, _ := ana.ConstInt(meta["ProtoId"])
		okMeta = pid == 123 &&
			strings.HasSuffix(ana.AccessPath(meta["SrcIA"]), "scionLayer.DstIA") &&
			strings.HasSuffix(ana.AccessPath(meta["DstIA"]), "scionLayer.SrcIA") &&
			addrStringOf(meta["SrcHost"], "scionLayer.RawDstAddr")
	}
	if okMeta {
		r.Ok("C13.key", fname, "host-as-key-meta", posOf(p, fk[0]), "host-AS key is requested for (proto 123, fast side = addressed AS/host of this packet, slow side = the packet's source AS)")
	} else {
		r.Violate("C13.key", fname, "host-as-key-meta", posOf(p, fk[0]), "the host-AS key is not requested for this packet's (destination AS, destination host) -> source AS")
	}
	// derive: (hostASKey of this fetch, srcAddr.String())
	d := dk[0].Common()
	okD := false
	if e, ok := d.Args[0].(*ssa.Extract); ok && e.Tuple == ssa.Value(fk[0].(*ssa.Call)) && e.Index == 0 && addrStringOf(d.Args[1], "scionLayer.RawSrcAddr") {
		okD = true
	}
	if okD {
		r.Ok("C13.key", fname, "host-host-derivation", posOf(p, dk[0]), "host-host key = DeriveHostHostKey(fetched host-AS key, this packet's source host)")
	} else {
		r.Violate("C13.key", fname, "host-host-derivation", posOf(p, dk[0]), "the verification key is not derived from the fetched key for this packet's source host")
	}
	// MAC key: hostHostKey.Key[:] (or the mock key when configured)
	in := structLit(verify.Call.Args[0])
	okK := false
	if in != nil {
		seen := map[ssa.Value]bool{}
		var rec func(v ssa.Value) bool
		rec = func(v ssa.Value) bool {
			if seen[v] {
				return true
			}
			seen[v] = true
			if ana.IsNilConst(v) {
				return true
			}
			switch x := v.(type) {
			case *ssa.Phi:
				for _, e := range x.Edges {
					if !rec(e) {
						return false
					}
				}
				return true
			case *ssa.Slice:
				pth := ana.AccessPath(x.X)
				if strings.Contains(pth, "DeriveHostHostKey") && strings.HasSuffix(pth, ".Key") {
					return true
				}
				// mock key: new(drkey.Key)[:]
				if a, ok := x.X.(*ssa.Alloc); ok && strings.HasSuffix(a.Type().String(), "drkey.Key") {
					return true
				}
				if fa, ok := x.X.(*ssa.FieldAddr); ok {
					_, root := fieldChain(fa)
					if al, ok := root.(*ssa.Alloc); ok {
						for _, ref := range ana.Referrers(al) {
							if st, ok := ref.(*ssa.Store); ok && st.Addr == ssa.Value(al) {
								if e, ok := st.Val.(*ssa.Extract); ok && e.Tuple == ssa.Value(dk[0].(*ssa.Call)) {
									return true
								}
							}
						}
					}
				}
			}
			return false
		}
		okK = rec(in["Key"])
	}
	if okK {
		r.Ok("C13.key", fname, "mac-key", posOf(p, verify), "the MAC key is the derived host-host key (or the all-zero mock key when USE_MOCK_KEYS is set)")
	} else {
		r.Violate("C13.key", fname, "mac-key", posOf(p, verify), "the request MAC is not verified under the derived host-host key")
	}
}

// addrStringOf: v is netip.AddrFromSlice(<...rawField>).String().
func addrStringOf(v ssa.Value, rawField string) bool {
	c, _ := ana.CallOf(v)
	if c == nil || ana.CalleeName(c.Common()) != "(net/netip.Addr).String" {
		return false
	}
	c2, _ := ana.CallOf(c.Common().Args[0])
	if c2 == nil || ana.CalleeName(c2.Common()) != "net/netip.AddrFromSlice" {
		return false
	}
	return strings.HasSuffix(ana.AccessPath(c2.Common().Args[0]), rawField)
}

// swapPairs checks that within block-local sequences the stores exchange the named field pairs.
func c13Swaps(p *ana.Prog, r *ana.Result, fn *ssa.Function, rd *ssa.Call, reply ssa.CallInstruction) {
	fname := ana.FuncName(fn)
	isRead := func(in ssa.Instruction) bool { return in == ssa.Instruction(rd) }
	writes := ana.CallsIn(fn, fnWriteMsg)
	lastHop := extractOf(rd, 3)
	revs := ana.CallsMatching(fn, func(n string) bool { return strings.HasSuffix(n, "path.Path).Reverse") })
	type arm struct {
		name  string
		write ssa.CallInstruction
		rev   ssa.CallInstruction
		ports bool
	}
	var arms []arm
	for _, w := range writes {
		if w.Common().Args[2] != ssa.Value(lastHop) {
			continue
		}
		a := arm{write: w, name: "scmp-reply"}
		if w == reply {
			a.name = "ntp-reply"
			a.ports = true
		}
		for _, rv := range revs {
			rv := rv
			if ana.Reachable(fn, rv.(ssa.Instruction), func(in ssa.Instruction) bool { return in == w.(ssa.Instruction) }, isRead, nil) {
				a.rev = rv
			}
		}
		arms = append(arms, a)
	}
	if len(arms) != 2 {
		r.Violate("C13.swap", fname, "reply-arms", p.Pos(fn.Pos()), fmt.Sprintf("expected two writes to the previous hop (SCMP reply, NTP reply), found %d", len(arms)))
	}
	for _, a := range arms {
		if a.rev == nil {
			r.Violate("C13.swap", fname, a.name+":path-reversed", posOf(p, a.write), "the reply is sent without reversing the path")
			continue
		}
		// scionLayer.Path <- Reverse() result, on every path to the write
		pathStored := false
		rb := a.rev.(*ssa.Call)
		if e := extractOf(rb, 0); e != nil {
			for _, ref := range ana.Referrers(e) {
				if st, ok := ref.(*ssa.Store); ok && ana.AccessPath(st.Addr) == "scionLayer.Path" {
					pathStored = true
				}
			}
		}
		ld := ana.AccessPath(rb.Call.Value)
		if strings.HasSuffix(ld, ".Path") && !strings.HasSuffix(ld, "scionLayer.Path") {
			// the path of a snapshot copy of the received header
			if a, ok := rootAlloc(rb.Call.Value).(*ssa.Alloc); ok {
				for _, ref := range ana.Referrers(a) {
					if st, ok := ref.(*ssa.Store); ok && st.Addr == ssa.Value(a) {
						if src, ok := st.Val.(*ssa.UnOp); ok && src.Op == token.MUL && strings.HasSuffix(ana.AccessPath(src.X), "scionLayer") {
							ld = "scionLayer.Path"
						}
					}
				}
			}
		}
		if pathStored && strings.HasSuffix(ld, "scionLayer.Path") {
			r.Ok("C13.swap", fname, a.name+":path-reversed", posOf(p, a.rev), "scionLayer.Path <- scionLayer.Path.Reverse()")
		} else {
			r.Violate("C13.swap", fname, a.name+":path-reversed", posOf(p, a.rev), "the reversed path is not what is stored in the reply's SCION header")
		}
		// swaps in the block of the Reverse call
		pairs := [][2]string{{"scionLayer.DstIA", "scionLayer.SrcIA"}, {"scionLayer.DstAddrType", "scionLayer.SrcAddrType"}, {"scionLayer.RawDstAddr", "scionLayer.RawSrcAddr"}}
		if a.ports {
			pairs = append(pairs, [2]string{"udpLayer.DstPort", "udpLayer.SrcPort"})
		}
		for _, pr := range pairs {
			okSwap := false
			for _, blk := range fn.Blocks {
				if swapInRegion(fn, blk, pr[0], pr[1]) && len(blk.Instrs) > 0 &&
					ana.Reachable(fn, blk.Instrs[0], func(in ssa.Instruction) bool { return in == a.write.(ssa.Instruction) }, isRead, nil) {
					okSwap = true
				}
			}
			if okSwap {
				r.Ok("C13.swap", fname, a.name+":swap:"+pr[0], posOf(p, a.rev), pr[0]+" and "+pr[1]+" are exchanged")
			} else {
				r.Violate("C13.swap", fname, a.name+":swap:"+pr[0], posOf(p, a.rev), "the reply does not exchange "+pr[0]+" and "+pr[1]+" (reply would not go back to the requester)")
			}
		}
		if a.name == "scmp-reply" {
			// payload is scmpLayer.Payload
			okP := false
			ana.Instrs(fn, func(in ssa.Instruction) {
				c, ok := in.(*ssa.Call)
				if !ok || ana.CalleeName(&c.Call) != "(github.com/google/gopacket.Payload).SerializeTo" {
					return
				}
				if !ana.Reachable(fn, c, func(x ssa.Instruction) bool { return x == a.write.(ssa.Instruction) }, isRead, nil) {
					return
				}
				v := c.Call.Args[0]
				seen := map[ssa.Value]bool{}
				var rec func(v ssa.Value) bool
				rec = func(v ssa.Value) bool {
					if seen[v] {
						return true
					}
					seen[v] = true
					switch x := v.(type) {
					case *ssa.Phi:
						any := false
						for _, e := range x.Edges {
							if ana.IsNilConst(e) {
								continue
							}
							if !rec(e) {
								return false
							}
							any = true
						}
						return any
					case *ssa.ChangeType:
						return rec(x.X)
					}
					pth := ana.AccessPath(v)
					return strings.HasPrefix(pth, "scmpLayer.") && strings.HasSuffix(pth, ".Payload")
				}
				if rec(v) {
					okP = true
				}
			})
			if okP {
				r.Ok("C13.swap", fname, "scmp-reply:payload-echoed", posOf(p, a.write), "the SCMP reply carries scmpLayer.Payload of the request")
			} else {
				r.Violate("C13.swap", fname, "scmp-reply:payload-echoed", posOf(p, a.write), "the SCMP reply does not echo the request's payload")
			}
		}
	}
}

// swapInRegion: in blk there are stores x <- (old y) and y <- (old x) where the
// old values are loaded before both stores.
// swapInRegion: along the straight-line code starting at blk the contents of the two fields x and y
// are exchanged. The code is followed with a small symbolic store (each location holds the name of
// the original value it now contains), so the exchange may be written as a tuple assignment, with
// temporaries, or from a snapshot copy of the whole header taken before.
func swapInRegion(fn *ssa.Function, blk *ssa.BasicBlock, x, y string) bool {
	mem := map[string]string{}    // location -> token
	reg := map[ssa.Value]string{} // loaded value -> token
	snap := map[ssa.Value]map[string]string{}
	tok := func(loc string) string {
		if t, ok := mem[loc]; ok {
			return t
		}
		return "old:" + loc
	}
	touched := false
	cur := blk
	for n := 0; n < 8 && cur != nil; n++ {
		for _, in := range cur.Instrs {
			switch v := in.(type) {
			case *ssa.UnOp:
				if v.Op != token.MUL {
					continue
				}
				loc := ana.AccessPath(v.X)
				if loc == "" {
					continue
				}
				if _, isStruct := v.Type().Underlying().(*types.Struct); isStruct {
					// snapshot of every field known so far (others are still the originals)
					m := map[string]string{"": loc}
					for k, t := range mem {
						if strings.HasPrefix(k, loc+".") {
							m[k[len(loc):]] = t
						}
					}
					snap[v] = m
					continue
				}
				reg[v] = tok(loc)
			case *ssa.Store:
				loc := ana.AccessPath(v.Addr)
				if loc == "" {
					continue
				}
				if m, ok := snap[v.Val]; ok {
					// whole-struct copy: every field of loc now holds what the source held
					for k := range mem {
						if strings.HasPrefix(k, loc+".") {
							delete(mem, k)
						}
					}
					for k, t := range m {
						if k != "" {
							mem[loc+k] = t
						}
					}
					mem[loc+".*"] = m[""] // fields not listed come from the source's originals
					continue
				}
				if t, ok := reg[v.Val]; ok {
					mem[loc] = t
				} else {
					mem[loc] = "other"
				}
				if loc == x || loc == y {
					touched = true
				}
			}
		}
		// follow an unconditional jump into a block entered only from here
		if len(cur.Succs) == 1 && len(cur.Succs[0].Preds) == 1 {
			cur = cur.Succs[0]
		} else {
			cur = nil
		}
	}
	if !touched {
		return false
	}
	// resolve tokens that came through a snapshot copy: "old:rcvd.F" with rcvd.* = src
	resolve := func(t string) string {
		for i := 0; i < 4; i++ {
			if !strings.HasPrefix(t, "old:") {
				return t
			}
			loc := t[4:]
			k := strings.LastIndex(loc, ".")
			if k < 0 {
				return t
			}
			src, ok := mem[loc[:k]+".*"]
			if !ok {
				return t
			}
			t = "old:" + src + loc[k:]
		}
		return t
	}
	return resolve(tok(x)) == "old:"+y && resolve(tok(y)) == "old:"+x
}

func c13Forward(p *ana.Prog, r *ana.Result, fn *ssa.Function, rd *ssa.Call) {
	fname := ana.FuncName(fn)
	isRead := func(in ssa.Instruction) bool { return in == ssa.Instruction(rd) }
	lastHop := extractOf(rd, 3)
	var fw ssa.CallInstruction
	for _, w := range ana.CallsIn(fn, fnWriteMsg) {
		if w.Common().Args[2] != ssa.Value(lastHop) {
			if fw != nil {
				r.Violate("C13.forward", fname, "second-forward-write", posOf(p, w), "more than one write to an address other than the previous hop")
			}
			fw = w
		}
	}
	if fw == nil {
		r.Violate("C13.forward", fname, "forward-write", p.Pos(fn.Pos()), "no forwarding write found")
		return
	}
	isFw := func(in ssa.Instruction) bool { return in == fw.(ssa.Instruction) }
	// destination: AddrPortFrom(dstAddr(AddrFromSlice(RawDstAddr)), udpLayer.DstPort)
	okDst := false
	if c, _ := ana.CallOf(fw.Common().Args[2]); c != nil && ana.CalleeName(c.Common()) == "net/netip.AddrPortFrom" {
		a0, _ := ana.CallOf(c.Common().Args[0])
		if a0 != nil && ana.CalleeName(a0.Common()) == "net/netip.AddrFromSlice" && strings.HasSuffix(ana.AccessPath(a0.Common().Args[0]), "scionLayer.RawDstAddr") &&
			strings.HasSuffix(ana.AccessPath(c.Common().Args[1]), "udpLayer.DstPort") {
			okDst = true
		}
	}
	if okDst {
		r.Ok("C13.forward", fname, "forward-destination", posOf(p, fw), "forwarded to (destination host of the SCION header, L4 destination port)")
	} else {
		r.Violate("C13.forward", fname, "forward-destination", posOf(p, fw), "the packet is not forwarded to (SCION destination host, L4 destination port)")
	}
	portCmp := func(x, y string) func(c ana.Cmp, isCmp bool, _ ssa.Value) (bool, bool) {
		return func(c ana.Cmp, isCmp bool, _ ssa.Value) (bool, bool) { return false, false }
	}
	_ = portCmp
	mk := func(name string, lhs func(ssa.Value) bool, k int64, acceptEq bool) *ana.Gate {
		return ana.FindGate(p, fn, name, func(c ana.Cmp, isCmp bool, _ ssa.Value) (bool, bool) {
			if !isCmp || (c.Op != token.EQL && c.Op != token.NEQ) {
				return false, false
			}
			for _, pr := range [][2]ssa.Value{{c.X, c.Y}, {c.Y, c.X}} {
				if kk, ok := ana.ConstInt(pr[1]); ok && kk == k && lhs(ana.StripConv(pr[0])) {
					return true, (c.Op == token.EQL) == acceptEq
				}
			}
			return false, false
		})
	}
	endhost := int64(30041)
	if nc := p.Const("net/scion", "EndhostPort"); nc != nil {
		endhost, _ = ana.ConstInt(nc.Value)
	}
	g1 := mk("localConnPort==EndhostPort", func(v ssa.Value) bool {
		return ana.AccessPath(v) == "localConnPort" || strings.HasSuffix(ana.AccessPath(v), ".Port") && !strings.Contains(ana.AccessPath(v), "udpLayer")
	}, endhost, true)
	g2 := mk("udp.DstPort!=EndhostPort", func(v ssa.Value) bool { return strings.HasSuffix(ana.AccessPath(v), "udpLayer.DstPort") }, endhost, false)
	g3 := ana.FindGate(p, fn, "udp.DstPort!=localHostPort", func(c ana.Cmp, isCmp bool, _ ssa.Value) (bool, bool) {
		if !isCmp || (c.Op != token.EQL && c.Op != token.NEQ) {
			return false, false
		}
		for _, pr := range [][2]ssa.Value{{c.X, c.Y}, {c.Y, c.X}} {
			if strings.HasSuffix(ana.AccessPath(ana.StripConv(pr[0])), "udpLayer.DstPort") && ana.AccessPath(ana.StripConv(pr[1])) == "localHostPort" {
				return true, c.Op == token.NEQ
			}
		}
		return false, false
	})
	checkGates(p, r, "C13.forward", fn, rd, isFw, isRead, "forward-write", []gateSpec{
		{name: "received-on-endhost-port", gate: g1},
		{name: "not-addressed-to-endhost-port", gate: g2},
		{name: "not-addressed-to-this-service", gate: g3},
	})
	// payload unchanged: Payload.SerializeTo(udpLayer.Payload); no swap stores on the way
	bad := func(in ssa.Instruction) bool {
		st, ok := in.(*ssa.Store)
		if !ok {
			return false
		}
		pth := ana.AccessPath(st.Addr)
		for _, f := range []string{"scionLayer.DstIA", "scionLayer.SrcIA", "scionLayer.RawDstAddr", "scionLayer.RawSrcAddr", "scionLayer.Path", "udpLayer.DstPort", "udpLayer.SrcPort"} {
			if pth == f {
				return true
			}
		}
		return strings.HasPrefix(pth, "udpLayer.") && strings.HasSuffix(pth, ".Payload")
	}
	// any path read -> forward write containing such a store
	s := &ana.Search{Fn: fn, Stop: func(in ssa.Instruction) bool { return isRead(in) || isFw(in) }, Target: bad}
	found, w := s.Run(rd)
	// a store is only relevant if the forward write is reachable from it
	rel := false
	if found {
		ana.Instrs(fn, func(in ssa.Instruction) {
			if bad(in) && ana.Reachable(fn, in, isFw, isRead, nil) {
				rel = true
			}
		})
	}
	if rel {
		r.Violate("C13.forward", fname, "forward-unchanged", posOf(p, fw), "addresses, ports, path or payload are modified on the way to the forwarding write", w...)
	} else {
		r.Ok("C13.forward", fname, "forward-unchanged", posOf(p, fw), "no address, port, path or payload store lies on a path from the read to the forwarding write")
	}
}

func c13Client(p *ana.Prog, r *ana.Result) {
	fn := mustFunc(p, r, "core/client", "(*SCIONClient).measureClockOffsetSCION")
	if fn == nil {
		return
	}
	fname := ana.FuncName(fn)
	rd := readSite(r, fn)
	if rd == nil {
		return
	}
	isRead := func(in ssa.Instruction) bool { return in == ssa.Instruction(rd) }
	cmacs := ana.CallsIn(fn, fnCMAC)
	if len(cmacs) != 2 {
		r.Violate("C13.mac", fname, "cmac-sites", p.Pos(fn.Pos()), fmt.Sprintf("expected two ComputeAuthCMAC calls (sign request, verify response), found %d", len(cmacs)))
		return
	}
	var verify, sign *ssa.Call
	for _, c := range cmacs {
		cc := c.(*ssa.Call)
		// the verify call is after the read (reachable from the read)
		s := &ana.Search{Fn: fn, NoFacts: true, Target: func(in ssa.Instruction) bool { return in == ssa.Instruction(cc) }}
		if found, _ := s.Run(rd); found {
			verify = cc
		} else {
			sign = cc
		}
	}
	if verify == nil || sign == nil {
		r.Violate("C13.mac", fname, "cmac-roles", p.Pos(fn.Pos()), fmt.Sprintf("UNDECIDED: signing/verifying ComputeAuthCMAC calls not recognised (verify found=%v sign found=%v)", verify != nil, sign != nil))
		return
	}
	rets := ana.ClassifyReturns(fn)
	succ := isSuccessTarget(rets)
	nBuf := extractOf(rd, 0)
	bufIsRead := func(v ssa.Value) bool {
		sl, ok := ana.UniqueReaching(fn, v).(*ssa.Slice)
		return (ok && sl.High == ssa.Value(nBuf)) || sliceRootIs(v, rd.Call.Args[1])
	}
	checkMACInput(p, r, fn, verify, "response", bufIsRead)
	g := macGate(p, fn, verify)
	if len(g.Accept) == 0 {
		r.Violate("C13.mac", fname, "mac-gate-missing", posOf(p, verify), "the computed MAC is not compared with the MAC carried by the response's authenticator option")
	} else if ok, w := ana.MustPass(fn, verify, g, succ, isRead, nil); ok {
		r.Ok("C13.mac", fname, "mac-gate:success-return", strings.Join(g.Sites, ","), "after a MAC was computed for a response a successful measurement is reachable only through ConstantTimeCompare(...) != 0")
	} else {
		r.Violate("C13.mac", fname, "mac-gate:success-return", strings.Join(g.Sites, ","), "a response whose authenticator does not verify can still be accepted", w...)
	}
	spi, algo := spiEdges(p, fn, c13SPI(p, "PacketAuthSPIServer"))
	for _, gg := range []*ana.Gate{spi, algo} {
		if len(gg.Accept) == 0 {
			r.Violate("C13.direction", fname, "verify-behind-missing:"+gg.Name, posOf(p, verify), "the client does not test "+gg.Name+" of the response's authenticator (server-to-client direction)")
			continue
		}
		if ok, w := ana.MustPass(fn, rd, gg, func(in ssa.Instruction) bool { return in == ssa.Instruction(verify) }, isRead, nil); ok {
			r.Ok("C13.direction", fname, "verify-behind:"+gg.Name, strings.Join(gg.Sites, ","), "response MACs are verified for authenticators with "+gg.Name+" (server-to-client direction)")
		} else {
			r.Violate("C13.direction", fname, "verify-behind:"+gg.Name, strings.Join(gg.Sites, ","), "verification not conditioned on "+gg.Name, w...)
		}
	}
	// whenever a key is held and the option matches, verification happens: from spi&&algo accept edges with authKey != nil, success requires passing verify
	{
		okAll := true
		var wit []string
		// the edges on which both the SPI and the algorithm test have passed (in either order)
		both := ana.EdgeSet{}
		for _, pr := range [][2]*ana.Gate{{spi, algo}, {algo, spi}} {
			for e := range pr[1].Accept {
				for f := range pr[0].Accept {
					if f == e {
						both[e] = true // one test of a value that stands for both comparisons
						continue
					}
					t := f.From.Succs[f.Succ]
					if len(t.Preds) == 1 && (t == e.From || t.Dominates(e.From)) {
						both[e] = true
					}
				}
			}
		}
		for e := range both {
			e := e
			s := &ana.Search{Fn: fn, Via: func(x ana.Edge) bool { return x == e }, Stop: func(in ssa.Instruction) bool { return in == ssa.Instruction(verify) || isRead(in) }, Target: succ}
			if found, w := s.Run(rd); found {
				okAll = false
				wit = w
			}
		}
		if okAll && len(both) > 0 {
			r.Ok("C13.mac", fname, "verify-when-key-held", posOf(p, verify), "with a key held, a response carrying the matching authenticator reaches success only through MAC verification")
		} else {
			r.Violate("C13.mac", fname, "verify-when-key-held", posOf(p, verify), "a response carrying the matching authenticator can be accepted without MAC verification although a key is held", wit...)
		}
	}
	// verify key = the key used for signing (authKey = hostHostKey.Key[:] of FetchHostHostKey)
	vin, sin := structLit(verify.Call.Args[0]), structLit(sign.Call.Args[0])
	if vin != nil && sin != nil && sameKeyValue(vin["Key"], sin["Key"]) {
		r.Ok("C13.key", fname, "same-key-both-directions", posOf(p, verify), "the response is verified under the host-host key the request was signed with")
	} else {
		r.Violate("C13.key", fname, "same-key-both-directions", posOf(p, verify), "the response is not verified under the host-host key fetched for this exchange")
	}
	fk := ana.CallsIn(fn, ana.Q("(*net/scion.Fetcher).FetchHostHostKey"))
	if len(fk) == 1 {
		meta := structLit(fk[0].Common().Args[2])
		okMeta := meta != nil
		if okMeta {
			pid, _ := ana.ConstInt(meta["ProtoId"])
			okMeta = pid == 123 && ana.AccessPath(meta["SrcIA"]) == "remoteAddr.IA" && ana.AccessPath(meta["DstIA"]) == "localAddr.IA"
			sh, _ := ana.CallOf(meta["SrcHost"])
			dh, _ := ana.CallOf(meta["DstHost"])
			okMeta = okMeta && sh != nil && dh != nil && ana.AccessPath(ana.Strip(sh.Common().Args[0])) == "remoteAddr.Host.IP" && ana.AccessPath(ana.Strip(dh.Common().Args[0])) == "localAddr.Host.IP"
		}
		if okMeta {
			r.Ok("C13.key", fname, "host-host-key-meta", posOf(p, fk[0]), "key requested for (proto 123, fast side = server AS/host, slow side = client AS/host)")
		} else {
			r.Violate("C13.key", fname, "host-host-key-meta", posOf(p, fk[0]), "the host-host key is not requested for (server AS/host -> client AS/host)")
		}
	} else {
		r.Violate("C13.key", fname, "host-host-key-site", p.Pos(fn.Pos()), "expected one FetchHostHostKey call")
	}
	// request: PreparePacketAuthOpt(c.Auth.opt, SPIClient, 0), sign into option MAC, header frozen after
	prep := ana.CallsIn(fn, ana.Q("net/scion.PreparePacketAuthOpt"))
	if len(prep) == 1 {
		spiArg, _ := ana.ConstInt(prep[0].Common().Args[1])
		algArg, _ := ana.ConstInt(prep[0].Common().Args[2])
		outMAC := false
		if m, _ := ana.CallOf(sign.Call.Args[2]); m != nil && ana.CalleeName(m.Common()) == ana.Q("net/scion.PacketAuthOptMAC") && sameOptValue(m.Common().Args[0], prep[0].Common().Args[0]) {
			outMAC = true
		}
		sameOpt := sin != nil && sameOptValue(authOptOf(sin["Header"]), prep[0].Common().Args[0])
		if spiArg == c13SPI(p, "PacketAuthSPIClient") && algArg == 0 && outMAC && sameOpt {
			r.Ok("C13.direction", fname, "request-authenticator", posOf(p, sign), "request: PreparePacketAuthOpt(opt, SPIClient, AES-CMAC) and MAC written into the option")
		} else {
			r.Violate("C13.direction", fname, "request-authenticator", posOf(p, sign), "the request authenticator is not (SPIClient, AES-CMAC, MAC into the same option)")
		}
	} else {
		r.Violate("C13.direction", fname, "request-authenticator", p.Pos(fn.Pos()), "expected one PreparePacketAuthOpt call in the client")
	}
	writes := ana.CallsIn(fn, fnWriteMsg)
	if len(writes) == 1 {
		c13NoHeaderStoreAfter(p, r, fn, sign, func(in ssa.Instruction) bool { return in == writes[0].(ssa.Instruction) }, isRead)
	}
}

// c13Cache: a cached host-AS key is reused only if everything that selects it matches.
func c13Cache(p *ana.Prog, r *ana.Result) {
	fn := mustFunc(p, r, "net/scion", "(*Fetcher).FetchHostASKey")
	if fn == nil {
		return
	}
	fname := ana.FuncName(fn)
	refetch := func(in ssa.Instruction) bool {
		switch x := in.(type) {
		case *ssa.Call:
			return ana.CalleeName(&x.Call) == ana.Q("net/scion.FetchHostASKey")
		case *ssa.MapUpdate:
			return true
		}
		return false
	}
	isRet := func(in ssa.Instruction) bool { _, ok := in.(*ssa.Return); return ok }
	fieldEq := func(f string) *ana.Gate {
		return ana.FindGate(p, fn, "hak."+f+"==meta."+f, func(c ana.Cmp, isCmp bool, _ ssa.Value) (bool, bool) {
			if !isCmp || (c.Op != token.EQL && c.Op != token.NEQ) {
				return false, false
			}
			x, y := ana.AccessPath(c.X), ana.AccessPath(c.Y)
			if (strings.HasSuffix(x, "hak."+f) && y == "meta."+f) || (strings.HasSuffix(y, "hak."+f) && x == "meta."+f) {
				return true, c.Op == token.EQL
			}
			return false, false
		})
	}
	gates := []gateSpec{}
	for _, f := range []string{"ProtoId", "SrcIA", "DstIA", "SrcHost"} {
		gates = append(gates, gateSpec{name: "cached." + f + "==requested." + f, gate: fieldEq(f)})
	}
	isContains := func(v ssa.Value) bool {
		c, _ := ana.CallOf(v)
		return c != nil && strings.HasSuffix(ana.CalleeName(c.Common()), ".Contains") && len(c.Common().Args) == 2 &&
			strings.HasSuffix(ana.AccessPath(c.Common().Args[0]), "hak.Epoch.Validity") || (c != nil && strings.HasSuffix(ana.CalleeName(c.Common()), ".Contains") && ana.AccessPath(c.Common().Args[1]) == "meta.Validity")
	}
	// expired := ok && !hak.Epoch.Contains(meta.Validity): the flag is false only if the map missed (separate gate) or the epoch contains the validity
	gates = append(gates, gateSpec{name: "not-expired(epoch-contains-validity)", gate: ana.FindGate(p, fn, "!expired", func(_ ana.Cmp, isCmp bool, v ssa.Value) (bool, bool) {
		if isCmp {
			return false, false
		}
		if isContains(v) {
			return true, true
		}
		ph, ok := v.(*ssa.Phi)
		if !ok {
			return false, false
		}
		n := 0
		for _, e := range ph.Edges {
			if b, isC := ana.ConstBool(e); isC {
				if b {
					return false, false
				}
				continue
			}
			inner, pos := ana.StripNot(e)
			if pos || !isContains(inner) {
				return false, false
			}
			n++
		}
		return n == 1, false
	})})
	gates = append(gates, gateSpec{name: "cache-hit", gate: ana.FindGate(p, fn, "ok", func(_ ana.Cmp, isCmp bool, v ssa.Value) (bool, bool) {
		if isCmp {
			return false, false
		}
		e, ok := v.(*ssa.Extract)
		if !ok || e.Index != 1 {
			return false, false
		}
		l, ok := e.Tuple.(*ssa.Lookup)
		if !ok {
			return false, false
		}
		return strings.HasSuffix(ana.AccessPath(l.X), "f.haks") && ana.AccessPath(l.Index) == "meta.DstIA", true
	})})
	// mock-key mode also passes a "refetch" (struct literal store) - treat the useMockKeys arm as refetch: any path that reaches return without refetch is the cache-hit path
	// On the mock arm the map is updated too (MapUpdate), so Stop=refetch covers it.
	for i := range gates {
		gates[i].min = 1
	}
	checkGates(p, r, "C13.key", fn, nil, isRet, refetch, "return-of-cached-key", gates)
	_ = fname
}
