package rules

import (
	"fmt"
	"go/constant"
	"go/token"
	"go/types"
	"math/big"

	"golang.org/x/tools/go/ssa"

	"verif/internal/ana"
)

// Bit-level abstract interpretation of small, straight-line-or-counted-loop
// conversion functions (the CSPTP timestamp packing). Every integer is a
// vector of bits, each bit being 0, 1, "bit i of input atom a" or unknown.
// Shifts by known amounts, |, &, ^, truncating / extending conversions,
// carry-free additions, array and struct element accesses are exact in this
// domain; loop counters and array indices are ordinary constants, so counted
// loops are simply followed (as sparse conditional constant propagation does).
// A branch whose condition is not known is followed only when one successor
// panics: the analysis continues on the other one and records what the test
// says about the input atom (its interval). Nothing of the analysed program is
// executed: the interpreter works on the SSA form with abstract values.

type bitKind int8

const (
	bZero bitKind = iota
	bOne
	bSym
	bTop
)

type abit struct {
	k    bitKind
	atom int16
	idx  int8
}

type bvec struct {
	w      int
	signed bool
	b      [64]abit
}

type acell struct {
	val  aval
	kids []*acell
	typ  types.Type
}

type aval interface{}

type aptr struct{ c *acell }
type aagg struct{ elems []aval } // array or struct value
type aopaque struct {
	tag  string
	args []aval
}
type aclosure struct {
	fn   *ssa.Function
	bind []aval
}
type abool struct {
	known, val bool
	op         token.Token
	x, y       *bvec
}

type bitAtom struct {
	name   string
	w      int
	signed bool
	lo, hi *big.Int
}

type bitInterp struct {
	atoms  []*bitAtom
	byKey  map[string]int
	steps  int
	err    string
	depth  int
	assume []string
}

func (bi *bitInterp) fail(f string, a ...interface{}) {
	if bi.err == "" {
		bi.err = fmt.Sprintf(f, a...)
	}
}

func (bi *bitInterp) newAtom(key, name string, w int, signed bool) *bvec {
	i, ok := bi.byKey[key]
	if !ok {
		i = len(bi.atoms)
		bi.byKey[key] = i
		lo, hi := big.NewInt(0), new(big.Int).Sub(new(big.Int).Lsh(big.NewInt(1), uint(w)), big.NewInt(1))
		if signed {
			lo = new(big.Int).Neg(new(big.Int).Lsh(big.NewInt(1), uint(w-1)))
			hi = new(big.Int).Sub(new(big.Int).Lsh(big.NewInt(1), uint(w-1)), big.NewInt(1))
		}
		bi.atoms = append(bi.atoms, &bitAtom{name: name, w: w, signed: signed, lo: lo, hi: hi})
	}
	v := &bvec{w: w, signed: signed}
	for j := 0; j < w; j++ {
		v.b[j] = abit{k: bSym, atom: int16(i), idx: int8(j)}
	}
	return v
}

// norm replaces atom bits that the recorded interval of the atom forces to zero.
func (bi *bitInterp) norm(v *bvec) *bvec {
	out := *v
	for j := 0; j < v.w; j++ {
		if v.b[j].k == bSym {
			a := bi.atoms[v.b[j].atom]
			if a.lo.Sign() >= 0 && a.hi.BitLen() <= int(v.b[j].idx) {
				out.b[j] = abit{k: bZero}
			}
		}
	}
	return &out
}

func constBvec(x *big.Int, w int, signed bool) *bvec {
	v := &bvec{w: w, signed: signed}
	m := new(big.Int).Set(x)
	if m.Sign() < 0 {
		m.Add(m, new(big.Int).Lsh(big.NewInt(1), uint(w)))
	}
	for j := 0; j < w; j++ {
		if m.Bit(j) == 1 {
			v.b[j] = abit{k: bOne}
		}
	}
	return v
}

func (v *bvec) concrete() (*big.Int, bool) {
	x := new(big.Int)
	for j := 0; j < v.w; j++ {
		switch v.b[j].k {
		case bOne:
			x.SetBit(x, j, 1)
		case bZero:
		default:
			return nil, false
		}
	}
	if v.signed && v.w > 0 && v.b[v.w-1].k == bOne {
		x.Sub(x, new(big.Int).Lsh(big.NewInt(1), uint(v.w)))
	}
	return x, true
}

func intShape(t types.Type) (w int, signed bool, ok bool) {
	b, isB := t.Underlying().(*types.Basic)
	if !isB || b.Info()&types.IsInteger == 0 {
		return 0, false, false
	}
	switch b.Kind() {
	case types.Int8:
		return 8, true, true
	case types.Uint8:
		return 8, false, true
	case types.Int16:
		return 16, true, true
	case types.Uint16:
		return 16, false, true
	case types.Int32:
		return 32, true, true
	case types.Uint32:
		return 32, false, true
	case types.Int, types.Int64:
		return 64, true, true
	case types.Uint, types.Uint64, types.Uintptr:
		return 64, false, true
	}
	return 0, false, false
}

func (bi *bitInterp) zeroCell(t types.Type) *acell {
	c := &acell{typ: t}
	switch u := t.Underlying().(type) {
	case *types.Array:
		if u.Len() > 64 {
			c.val = &aopaque{tag: "big-array"}
			return c
		}
		for i := int64(0); i < u.Len(); i++ {
			c.kids = append(c.kids, bi.zeroCell(u.Elem()))
		}
	case *types.Struct:
		for i := 0; i < u.NumFields(); i++ {
			c.kids = append(c.kids, bi.zeroCell(u.Field(i).Type()))
		}
	default:
		if w, s, ok := intShape(t); ok {
			c.val = &bvec{w: w, signed: s}
		} else {
			c.val = &aopaque{tag: "zero"}
		}
	}
	return c
}

func (c *acell) get() aval {
	if c.kids != nil {
		a := &aagg{}
		for _, k := range c.kids {
			a.elems = append(a.elems, k.get())
		}
		return a
	}
	return c.val
}

func (c *acell) set(v aval) {
	if c.kids != nil {
		if a, ok := v.(*aagg); ok && len(a.elems) == len(c.kids) {
			for i, k := range c.kids {
				k.set(a.elems[i])
			}
			return
		}
		for _, k := range c.kids {
			k.set(&aopaque{tag: "unknown"})
		}
		return
	}
	c.val = v
}

func bitOp(op token.Token, a, b abit) abit {
	switch op {
	case token.AND:
		if a.k == bZero || b.k == bZero {
			return abit{k: bZero}
		}
		if a.k == bOne {
			return b
		}
		if b.k == bOne {
			return a
		}
		if a == b {
			return a
		}
	case token.OR:
		if a.k == bOne || b.k == bOne {
			return abit{k: bOne}
		}
		if a.k == bZero {
			return b
		}
		if b.k == bZero {
			return a
		}
		if a == b {
			return a
		}
	case token.XOR:
		if a.k == bZero {
			return b
		}
		if b.k == bZero {
			return a
		}
		if a.k == bOne && b.k == bOne {
			return abit{k: bZero}
		}
		if a == b && a.k == bSym {
			return abit{k: bZero}
		}
	case token.AND_NOT:
		if a.k == bZero || b.k == bOne {
			return abit{k: bZero}
		}
		if b.k == bZero {
			return a
		}
	}
	return abit{k: bTop}
}

func topVec(w int, signed bool) *bvec {
	v := &bvec{w: w, signed: signed}
	for j := 0; j < w; j++ {
		v.b[j] = abit{k: bTop}
	}
	return v
}

func (bi *bitInterp) binop(op token.Token, x, y aval, t types.Type) aval {
	a, ok1 := x.(*bvec)
	b, ok2 := y.(*bvec)
	if !ok1 || !ok2 {
		if _, isCmp := map[token.Token]bool{token.EQL: true, token.NEQ: true, token.LSS: true, token.LEQ: true, token.GTR: true, token.GEQ: true}[op]; isCmp {
			return &abool{}
		}
		if w, s, ok := intShape(t); ok {
			return topVec(w, s)
		}
		return &aopaque{tag: "binop"}
	}
	switch op {
	case token.EQL, token.NEQ, token.LSS, token.LEQ, token.GTR, token.GEQ:
		an, bn := bi.norm(a), bi.norm(b)
		ca, oka := an.concrete()
		cb, okb := bn.concrete()
		if oka && okb {
			c := ca.Cmp(cb)
			var r bool
			switch op {
			case token.EQL:
				r = c == 0
			case token.NEQ:
				r = c != 0
			case token.LSS:
				r = c < 0
			case token.LEQ:
				r = c <= 0
			case token.GTR:
				r = c > 0
			case token.GEQ:
				r = c >= 0
			}
			return &abool{known: true, val: r}
		}
		return &abool{op: op, x: a, y: b}
	}
	w, signed := a.w, a.signed
	out := &bvec{w: w, signed: signed}
	switch op {
	case token.AND, token.OR, token.XOR, token.AND_NOT:
		for j := 0; j < w; j++ {
			out.b[j] = bitOp(op, a.b[j], b.b[j])
		}
		return out
	case token.SHL, token.SHR:
		k, ok := bi.norm(b).concrete()
		if !ok || k.Sign() < 0 {
			return topVec(w, signed)
		}
		n := int(k.Int64())
		if !k.IsInt64() || n > w {
			n = w
		}
		if op == token.SHL {
			for j := n; j < w; j++ {
				out.b[j] = a.b[j-n]
			}
			return out
		}
		an := bi.norm(a)
		fill := abit{k: bZero}
		if signed {
			fill = an.b[w-1] // arithmetic shift replicates the sign bit
		}
		for j := 0; j < w; j++ {
			if j+n < w {
				out.b[j] = an.b[j+n]
			} else {
				out.b[j] = fill
			}
		}
		return out
	case token.ADD, token.SUB, token.MUL, token.QUO, token.REM:
		ca, oka := bi.norm(a).concrete()
		cb, okb := bi.norm(b).concrete()
		if oka && okb {
			r := new(big.Int)
			switch op {
			case token.ADD:
				r.Add(ca, cb)
			case token.SUB:
				r.Sub(ca, cb)
			case token.MUL:
				r.Mul(ca, cb)
			case token.QUO:
				if cb.Sign() == 0 {
					return topVec(w, signed)
				}
				r.Quo(ca, cb)
			case token.REM:
				if cb.Sign() == 0 {
					return topVec(w, signed)
				}
				r.Rem(ca, cb)
			}
			r.And(r, new(big.Int).Sub(new(big.Int).Lsh(big.NewInt(1), uint(w)), big.NewInt(1)))
			return constBvec(r, w, signed)
		}
		if op == token.ADD {
			// no position where both operands can be 1: no carries, the sum is the bitwise or
			an, bn := bi.norm(a), bi.norm(b)
			disjoint := true
			for j := 0; j < w; j++ {
				if an.b[j].k != bZero && bn.b[j].k != bZero {
					disjoint = false
				}
			}
			if disjoint {
				for j := 0; j < w; j++ {
					out.b[j] = bitOp(token.OR, an.b[j], bn.b[j])
				}
				return out
			}
		}
		return topVec(w, signed)
	}
	return topVec(w, signed)
}

func (bi *bitInterp) convert(v aval, to types.Type) aval {
	w, s, ok := intShape(to)
	b, isB := v.(*bvec)
	if !ok || !isB {
		if ok {
			return topVec(w, s)
		}
		return &aopaque{tag: "convert", args: []aval{v}}
	}
	src := bi.norm(b)
	out := &bvec{w: w, signed: s}
	for j := 0; j < w; j++ {
		switch {
		case j < src.w:
			out.b[j] = src.b[j]
		case src.signed:
			out.b[j] = src.b[src.w-1]
		default:
			out.b[j] = abit{k: bZero}
		}
	}
	return out
}

// refine records what an assumed branch outcome says about an input atom.
func (bi *bitInterp) refine(c *abool, val bool) {
	if c == nil || c.x == nil || c.y == nil {
		return
	}
	x, y, op := c.x, c.y, c.op
	if _, isK := bi.norm(x).concrete(); isK {
		x, y, op = y, x, ana.SwapOp(op)
	}
	k, isK := bi.norm(y).concrete()
	if !isK {
		return
	}
	// x must be exactly one atom
	if x.w == 0 || x.b[0].k != bSym {
		return
	}
	ai := x.b[0].atom
	a := bi.atoms[ai]
	if x.w != a.w || x.signed != a.signed {
		return
	}
	for j := 0; j < x.w; j++ {
		if x.b[j].k != bSym || x.b[j].atom != ai || int(x.b[j].idx) != j {
			return
		}
	}
	if !val {
		op = ana.NegOp(op)
	}
	one := big.NewInt(1)
	switch op {
	case token.LSS:
		if h := new(big.Int).Sub(k, one); h.Cmp(a.hi) < 0 {
			a.hi = h
		}
	case token.LEQ:
		if k.Cmp(a.hi) < 0 {
			a.hi = k
		}
	case token.GTR:
		if l := new(big.Int).Add(k, one); l.Cmp(a.lo) > 0 {
			a.lo = l
		}
	case token.GEQ:
		if k.Cmp(a.lo) > 0 {
			a.lo = k
		}
	case token.EQL:
		a.lo, a.hi = k, k
	}
	bi.assume = append(bi.assume, fmt.Sprintf("%s in [%s, %s]", a.name, a.lo, a.hi))
}

func leadsToPanic(b *ssa.BasicBlock) bool {
	for i := 0; i < 4 && b != nil; i++ {
		n := len(b.Instrs)
		if n == 0 {
			return false
		}
		switch b.Instrs[n-1].(type) {
		case *ssa.Panic:
			return true
		case *ssa.Jump:
			b = b.Succs[0]
		default:
			return false
		}
	}
	return false
}

func constAval(c *ssa.Const) aval {
	if w, s, ok := intShape(c.Type()); ok && c.Value != nil && c.Value.Kind() == constant.Int {
		if x, ok := new(big.Int).SetString(c.Value.ExactString(), 10); ok {
			return constBvec(x, w, s)
		}
	}
	if b, ok := c.Type().Underlying().(*types.Basic); ok && b.Info()&types.IsBoolean != 0 && c.Value != nil {
		return &abool{known: true, val: constant.BoolVal(c.Value)}
	}
	return &aopaque{tag: "const"}
}

// call interprets fn on abstract arguments and returns its results.
func (bi *bitInterp) call(fn *ssa.Function, args []aval, bind []aval) []aval {
	bi.depth++
	defer func() { bi.depth-- }()
	if bi.depth > 8 || fn.Blocks == nil {
		bi.fail("call depth / external function %s", fn.Name())
		return nil
	}
	fr := map[ssa.Value]aval{}
	for i, p := range fn.Params {
		if i < len(args) {
			fr[p] = args[i]
		}
	}
	for i, fv := range fn.FreeVars {
		if i < len(bind) {
			fr[fv] = bind[i]
		}
	}
	val := func(v ssa.Value) aval {
		if c, ok := v.(*ssa.Const); ok {
			return constAval(c)
		}
		if f, ok := v.(*ssa.Function); ok {
			return &aclosure{fn: f}
		}
		if x, ok := fr[v]; ok {
			return x
		}
		return &aopaque{tag: "undef"}
	}
	blk := fn.Blocks[0]
	var prev *ssa.BasicBlock
	for {
		var next *ssa.BasicBlock
		// phis first, simultaneously
		upd := map[ssa.Value]aval{}
		for _, in := range blk.Instrs {
			ph, ok := in.(*ssa.Phi)
			if !ok {
				break
			}
			for i, p := range blk.Preds {
				if p == prev {
					upd[ph] = val(ph.Edges[i])
				}
			}
		}
		for k, v := range upd {
			fr[k] = v
		}
		for _, in := range blk.Instrs {
			bi.steps++
			if bi.steps > 20000 {
				bi.fail("step budget exhausted (unbounded loop?)")
				return nil
			}
			if bi.err != "" {
				return nil
			}
			switch x := in.(type) {
			case *ssa.Phi, *ssa.DebugRef, *ssa.RunDefers:
			case *ssa.Alloc:
				fr[x] = &aptr{bi.zeroCell(x.Type().Underlying().(*types.Pointer).Elem())}
			case *ssa.Store:
				if p, ok := val(x.Addr).(*aptr); ok {
					p.c.set(val(x.Val))
				} else {
					bi.fail("store through an unknown pointer in %s", fn.Name())
				}
			case *ssa.UnOp:
				switch x.Op {
				case token.MUL:
					if p, ok := val(x.X).(*aptr); ok {
						fr[x] = p.c.get()
					} else {
						fr[x] = &aopaque{tag: "load"}
					}
				case token.NOT:
					if b, ok := val(x.X).(*abool); ok {
						nb := *b
						if b.known {
							nb.val = !b.val
						} else {
							nb.op = ana.NegOp(b.op)
						}
						fr[x] = &nb
					} else {
						fr[x] = &abool{}
					}
				case token.SUB:
					if w, s, ok := intShape(x.Type()); ok {
						fr[x] = bi.binop(token.SUB, constBvec(big.NewInt(0), w, s), val(x.X), x.Type())
					} else {
						fr[x] = &aopaque{tag: "neg"}
					}
				case token.XOR:
					if b, ok := val(x.X).(*bvec); ok {
						ones := constBvec(big.NewInt(-1), b.w, b.signed)
						fr[x] = bi.binop(token.XOR, b, ones, x.Type())
					} else {
						fr[x] = &aopaque{tag: "not"}
					}
				default:
					fr[x] = &aopaque{tag: "unop"}
				}
			case *ssa.BinOp:
				fr[x] = bi.binop(x.Op, val(x.X), val(x.Y), x.Type())
			case *ssa.Convert:
				fr[x] = bi.convert(val(x.X), x.Type())
			case *ssa.ChangeType:
				fr[x] = val(x.X)
			case *ssa.FieldAddr:
				if p, ok := val(x.X).(*aptr); ok && x.Field < len(p.c.kids) {
					fr[x] = &aptr{p.c.kids[x.Field]}
				} else {
					fr[x] = &aopaque{tag: "fieldaddr"}
				}
			case *ssa.IndexAddr:
				p, ok := val(x.X).(*aptr)
				iv, isI := val(x.Index).(*bvec)
				if ok && isI {
					if k, isK := bi.norm(iv).concrete(); isK && k.IsInt64() && k.Int64() >= 0 && int(k.Int64()) < len(p.c.kids) {
						fr[x] = &aptr{p.c.kids[k.Int64()]}
						break
					}
				}
				bi.fail("array element address with an index that is not a known constant in %s", fn.Name())
			case *ssa.Field:
				if a, ok := val(x.X).(*aagg); ok && x.Field < len(a.elems) {
					fr[x] = a.elems[x.Field]
				} else {
					fr[x] = &aopaque{tag: "field"}
				}
			case *ssa.Index:
				a, ok := val(x.X).(*aagg)
				iv, isI := val(x.Index).(*bvec)
				if ok && isI {
					if k, isK := bi.norm(iv).concrete(); isK && k.IsInt64() && k.Int64() >= 0 && int(k.Int64()) < len(a.elems) {
						fr[x] = a.elems[k.Int64()]
						break
					}
				}
				bi.fail("array element read with an index that is not a known constant in %s", fn.Name())
			case *ssa.MakeClosure:
				c := &aclosure{fn: x.Fn.(*ssa.Function)}
				for _, b := range x.Bindings {
					c.bind = append(c.bind, val(b))
				}
				fr[x] = c
			case *ssa.Extract:
				if t, ok := val(x.Tuple).(*aagg); ok && x.Index < len(t.elems) {
					fr[x] = t.elems[x.Index]
				} else {
					fr[x] = &aopaque{tag: "extract"}
				}
			case *ssa.Call:
				fr[x] = bi.doCall(x, val)
			case *ssa.Return:
				var out []aval
				for _, r := range x.Results {
					out = append(out, val(r))
				}
				return out
			case *ssa.Panic:
				bi.fail("the analysed path ends in a panic in %s", fn.Name())
				return nil
			case *ssa.Jump:
				next = blk.Succs[0]
			case *ssa.If:
				c, _ := val(x.Cond).(*abool)
				switch {
				case c != nil && c.known:
					if c.val {
						next = blk.Succs[0]
					} else {
						next = blk.Succs[1]
					}
				case leadsToPanic(blk.Succs[0]) && !leadsToPanic(blk.Succs[1]):
					bi.refine(c, false)
					next = blk.Succs[1]
				case leadsToPanic(blk.Succs[1]) && !leadsToPanic(blk.Succs[0]):
					bi.refine(c, true)
					next = blk.Succs[0]
				default:
					bi.fail("a branch in %s depends on input bits and neither side panics", fn.Name())
					return nil
				}
			default:
				if v, ok := in.(ssa.Value); ok {
					fr[v] = &aopaque{tag: fmt.Sprintf("%T", in)}
				}
			}
		}
		if next == nil {
			bi.fail("block without successor in %s", fn.Name())
			return nil
		}
		prev, blk = blk, next
	}
}

func (bi *bitInterp) doCall(x *ssa.Call, val func(ssa.Value) aval) aval {
	var args []aval
	for _, a := range x.Call.Args {
		args = append(args, val(a))
	}
	wrap := func(res []aval, n int) aval {
		if bi.err != "" {
			return &aopaque{tag: "failed"}
		}
		if n == 1 && len(res) == 1 {
			return res[0]
		}
		return &aagg{elems: res}
	}
	nres := x.Call.Signature().Results().Len()
	if b, ok := x.Call.Value.(*ssa.Builtin); ok {
		if (b.Name() == "len" || b.Name() == "cap") && len(x.Call.Args) == 1 {
			t := x.Call.Args[0].Type().Underlying()
			if p, isP := t.(*types.Pointer); isP {
				t = p.Elem().Underlying()
			}
			if a, isA := t.(*types.Array); isA {
				return constBvec(big.NewInt(a.Len()), 64, true)
			}
		}
		return &aopaque{tag: "builtin " + b.Name()}
	}
	if c, ok := val(x.Call.Value).(*aclosure); ok && x.Call.Method == nil {
		if c.fn.Blocks != nil && c.fn.Pkg != nil && x.Parent().Pkg != nil && c.fn.Pkg == x.Parent().Pkg {
			return wrap(bi.call(c.fn, args, c.bind), nres)
		}
	}
	name := ana.CalleeName(&x.Call)
	switch name {
	case "(time.Time).Unix":
		return bi.newAtom("unix", "t.Unix()", 64, true)
	case "(time.Time).Nanosecond":
		v := bi.newAtom("nsec", "t.Nanosecond()", 64, true)
		a := bi.atoms[v.b[0].atom]
		a.lo, a.hi = big.NewInt(0), big.NewInt(999999999) // documented range of time.Time.Nanosecond
		return v
	case "time.Unix":
		return &aopaque{tag: "time.Unix", args: args}
	case "(time.Time).UTC":
		if len(args) == 1 {
			return args[0]
		}
	}
	return &aopaque{tag: "call " + name}
}

// c18BitPacking proves the CSPTP timestamp packing at bit level, in both directions. It returns
// false (and reports nothing) when the functions are outside the domain.
func c18BitPacking(p *ana.Prog, r *ana.Result, enc, dec *ssa.Function) bool {
	pair := "net/csptp.TimestampFromTime/TimeFromTimestamp"
	// encoder
	be := &bitInterp{byKey: map[string]int{}}
	res := be.call(enc, []aval{&aopaque{tag: "t"}}, nil)
	if be.err != "" || len(res) != 1 {
		r.Undecided("bit-level analysis of TimestampFromTime not applicable (" + be.err + "); structural rule used instead")
		return false
	}
	ts, ok := res[0].(*aagg)
	var secs *aagg
	var nanos *bvec
	if ok && len(ts.elems) == 2 {
		secs, _ = ts.elems[0].(*aagg)
		nanos, _ = ts.elems[1].(*bvec)
	}
	if secs == nil || nanos == nil || len(secs.elems) != 6 {
		r.Undecided("bit-level analysis: the result of TimestampFromTime is not a (Seconds [6]uint8, Nanoseconds uint32) value; structural rule used instead")
		return false
	}
	ui, hasU := be.byKey["unix"]
	ni, hasN := be.byKey["nsec"]
	good := hasU && hasN
	why := ""
	if !good {
		why = "the result does not depend on both t.Unix() and t.Nanosecond()"
	}
	if good {
		a := be.atoms[ui]
		if a.lo.Sign() < 0 || a.hi.BitLen() > 48 {
			good, why = false, fmt.Sprintf("second counts in [%s, %s] reach the packing: values outside [0, 2^48-1] are truncated silently", a.lo, a.hi)
		}
	}
	for i := 0; good && i < 6; i++ {
		bv, ok := secs.elems[i].(*bvec)
		if !ok || bv.w != 8 {
			good, why = false, fmt.Sprintf("Seconds[%d] is not a byte", i)
			break
		}
		for j := 0; j < 8; j++ {
			want := abit{k: bSym, atom: int16(ui), idx: int8(8*(5-i) + j)}
			if bv.b[j] != want {
				good, why = false, fmt.Sprintf("bit %d of Seconds[%d] is not bit %d of the second count", j, i, 8*(5-i)+j)
			}
		}
	}
	if good {
		nn := be.norm(nanos)
		for j := 0; j < 32; j++ {
			want := abit{k: bSym, atom: int16(ni), idx: int8(j)}
			if j >= 30 {
				want = abit{k: bZero} // < 10^9 < 2^30
			}
			if nn.b[j] != want {
				good, why = false, fmt.Sprintf("bit %d of Nanoseconds is not bit %d of t.Nanosecond()", j, j)
			}
		}
	}
	if !good {
		r.Violate("C14.fixed", pair, "seconds-48bit", p.Pos(enc.Pos()), "TimestampFromTime does not store the second count big-endian in 48 bits and the nanoseconds unchanged: "+why)
		return true
	}
	// decoder
	bd := &bitInterp{byKey: map[string]int{}}
	in := &aagg{}
	sa := &aagg{}
	for i := 0; i < 6; i++ {
		sa.elems = append(sa.elems, bd.newAtom(fmt.Sprintf("b%d", i), fmt.Sprintf("Seconds[%d]", i), 8, false))
	}
	in.elems = append(in.elems, sa, bd.newAtom("n", "Nanoseconds", 32, false))
	dres := bd.call(dec, []aval{in}, nil)
	if bd.err != "" || len(dres) != 1 {
		r.Undecided("bit-level analysis of TimeFromTimestamp not applicable (" + bd.err + "); structural rule used instead")
		return false
	}
	u, ok := dres[0].(*aopaque)
	if !ok || u.tag != "time.Unix" || len(u.args) != 2 {
		r.Violate("C14.fixed", pair, "seconds-48bit", p.Pos(dec.Pos()), "TimeFromTimestamp does not return time.Unix(sec, nsec) (in UTC)")
		return true
	}
	sec, ok1 := u.args[0].(*bvec)
	nsec, ok2 := u.args[1].(*bvec)
	if !ok1 || !ok2 || sec.w != 64 || nsec.w != 64 {
		r.Undecided("bit-level analysis: arguments of time.Unix are not 64-bit integers; structural rule used instead")
		return false
	}
	for k := 0; k < 64; k++ {
		want := abit{k: bZero}
		if k < 48 {
			want = abit{k: bSym, atom: int16(bd.byKey[fmt.Sprintf("b%d", 5-k/8)]), idx: int8(k % 8)}
		}
		if sec.b[k] != want {
			good, why = false, fmt.Sprintf("bit %d of the decoded second count is not bit %d of Seconds[%d]", k, k%8, 5-k/8)
		}
		want = abit{k: bZero}
		if k < 32 {
			want = abit{k: bSym, atom: int16(bd.byKey["n"]), idx: int8(k)}
		}
		if nsec.b[k] != want {
			good, why = false, fmt.Sprintf("bit %d of the decoded nanoseconds is not bit %d of the Nanoseconds field", k, k)
		}
	}
	if !good {
		r.Violate("C14.fixed", pair, "seconds-48bit", p.Pos(dec.Pos()), "TimeFromTimestamp does not read back what TimestampFromTime stores: "+why)
		return true
	}
	r.Ok("C14.fixed", pair, "seconds-48bit", p.Pos(enc.Pos()), "bit-level: Seconds[i] bit j = bit 8(5-i)+j of t.Unix() for second counts in [0, 2^48-1] (others panic), Nanoseconds = t.Nanosecond(); TimeFromTimestamp returns time.Unix(sec, nsec) with exactly those 48 + 32 bits zero-extended - every timestamp in range round-trips exactly")
	r.Ok("C14.fixed", ana.FuncName(enc), "range-guards", p.Pos(enc.Pos()), "the second count reaching the packing lies in [0, 2^48-1]: values outside are rejected by a panic before packing ("+fmt.Sprint(be.assume)+")")
	return true
}
