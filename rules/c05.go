package rules

import (
	"fmt"
	"go/token"
	"strings"

	"golang.org/x/tools/go/ssa"

	"verif/internal/ana"
)

func init() { All["C05"] = checkC05 }

const (
	fnReadMsg   = "(*net.UDPConn).ReadMsgUDPAddrPort"
	fnWriteMsg  = "(*net.UDPConn).WriteToUDPAddrPort"
	fnDecLayers = "(*github.com/google/gopacket.DecodingLayerParser).DecodeLayers"
	fnCTCompare = "crypto/subtle.ConstantTimeCompare"
)

// gateSpec is one acceptance test a success return must have passed.
type gateSpec struct {
	name   string
	gate   *ana.Gate
	assume map[string]string // condition class under which the gate is required
	min    int               // minimum number of test sites
}

// readSite returns the single datagram read of a receive loop.
func readSite(r *ana.Result, fn *ssa.Function) *ssa.Call {
	cs := ana.CallsIn(fn, fnReadMsg)
	if len(cs) != 1 {
		r.Broken("%s: expected exactly one %s call, found %d", ana.FuncName(fn), fnReadMsg, len(cs))
		return nil
	}
	c, _ := cs[0].(*ssa.Call)
	return c
}

// extractOf finds the Extract #idx of a tuple-valued call.
func extractOf(c *ssa.Call, idx int) *ssa.Extract {
	for _, ref := range ana.Referrers(c) {
		if e, ok := ref.(*ssa.Extract); ok && e.Index == idx {
			return e
		}
	}
	return nil
}

// cmpValueConstGate: `v == k` accept (or `v != k` reject) tests on a specific SSA value.
func cmpValueConstGate(p *ana.Prog, fn *ssa.Function, name string, isV func(ssa.Value) bool, k int64, acceptEq bool) *ana.Gate {
	return ana.FindGate(p, fn, name, func(c ana.Cmp, isCmp bool, _ ssa.Value) (bool, bool) {
		if !isCmp || (c.Op != token.EQL && c.Op != token.NEQ) {
			return false, false
		}
		x, y := c.X, c.Y
		if _, ok := ana.ConstInt(x); ok {
			x, y = y, x
		}
		kk, ok := ana.ConstInt(y)
		if !ok || kk != k || !isV(ana.StripConv(x)) {
			return false, false
		}
		return true, (c.Op == token.EQL) == acceptEq
	})
}

// pathCmpGate: comparison between two access paths (suffix match) with roots checked by rootOK.
func pathCmpGate(p *ana.Prog, fn *ssa.Function, name string, match func(x, y ssa.Value) bool, acceptEq bool) *ana.Gate {
	return ana.FindGate(p, fn, name, func(c ana.Cmp, isCmp bool, _ ssa.Value) (bool, bool) {
		if !isCmp || (c.Op != token.EQL && c.Op != token.NEQ) {
			return false, false
		}
		if match(c.X, c.Y) || match(c.Y, c.X) {
			return true, (c.Op == token.EQL) == acceptEq
		}
		return false, false
	})
}

// rootAlloc returns the local alloc an address/loaded value is rooted at.
func rootAlloc(v ssa.Value) ssa.Value {
	for i := 0; i < 24; i++ {
		switch x := v.(type) {
		case *ssa.UnOp:
			v = x.X
		case *ssa.FieldAddr:
			v = x.X
		case *ssa.Field:
			v = x.X
		case *ssa.IndexAddr:
			v = x.X
		case *ssa.ChangeType:
			v = x.X
		default:
			return v
		}
	}
	return v
}

func isSuccessTarget(rets []ana.ReturnInfo) func(ssa.Instruction) bool {
	set := map[ssa.Instruction]bool{}
	for _, ri := range rets {
		if ri.Class != "failure" {
			set[ri.Ret] = true
		}
	}
	return func(in ssa.Instruction) bool { return set[in] }
}

// checkGates runs the must-pass queries for a receive function.
func checkGates(p *ana.Prog, r *ana.Result, rule string, fn *ssa.Function, start ssa.Instruction,
	target, stop func(ssa.Instruction) bool, targetName string, gates []gateSpec) {
	fname := ana.FuncName(fn)
	for _, g := range gates {
		if (len(g.gate.Accept) < g.min || len(g.gate.Accept) == 0) && len(g.gate.PassThrough) == 0 {
			r.Violate(rule, fname, "gate-missing:"+g.name, p.Pos(fn.Pos()),
				fmt.Sprintf("acceptance test %q not found in %s (found %d test sites, need >= %d): the mechanism the property rests on is missing", g.name, fname, len(g.gate.Accept), max(g.min, 1)))
			continue
		}
		if !ana.Reachable(fn, start, target, stop, g.assume) {
			r.Broken("%s: %s not reachable from the read under class %v (gate %s would pass vacuously)", fname, targetName, g.assume, g.name)
			continue
		}
		ok, w := ana.MustPass(fn, start, g.gate, target, stop, g.assume)
		cls := ""
		if len(g.assume) > 0 {
			var ks []string
			for k, v := range g.assume {
				ks = append(ks, strings.TrimPrefix(k, "fld:")+"="+v)
			}
			cls = " [class " + strings.Join(ks, ",") + "]"
		}
		if ok {
			r.Ok(rule, fname, "must-pass:"+g.name+"->"+targetName, strings.Join(g.gate.Sites, ","),
				fmt.Sprintf("every path from the start point (datagram read / function entry) to %s passes the accept edge of %s%s (%d test site(s))", targetName, g.name, cls, len(g.gate.Sites)))
		} else {
			r.Violate(rule, fname, "must-pass:"+g.name+"->"+targetName, strings.Join(g.gate.Sites, ","),
				fmt.Sprintf("a path from the start point (datagram read / function entry) reaches %s without passing the test %s%s", targetName, g.name, cls), w...)
		}
	}
}

// originGate builds the disjunctive origin-timestamp test of the NTP clients:
// (interleavedReq && resp.Origin == req.Receive) || resp.Origin == req.Transmit.
func originGate(p *ana.Prog, r *ana.Result, fn *ssa.Function, respRoot, reqRoot ssa.Value, target, stop func(ssa.Instruction) bool) *ana.Gate {
	isPath := func(v ssa.Value, root ssa.Value, field string) bool {
		pth := ana.AccessPath(v)
		return strings.HasSuffix(pth, "."+field) && rootAlloc(v) == root
	}
	gInter := pathCmpGate(p, fn, "origin==req.ReceiveTime", func(x, y ssa.Value) bool {
		return isPath(x, respRoot, "OriginTime") && isPath(y, reqRoot, "ReceiveTime")
	}, true)
	// the interleaved comparison only counts when the request really was an
	// interleaved one: its If block must be dominated by the true edge of a
	// flag whose `true` inputs all come from the block that stores
	// req.ReceiveTime (the interleaved request arm).
	var storeBlocks []*ssa.BasicBlock
	ana.Instrs(fn, func(in ssa.Instruction) {
		if st, ok := in.(*ssa.Store); ok && isPath(st.Addr, reqRoot, "ReceiveTime") {
			storeBlocks = append(storeBlocks, st.Block())
		}
	})
	isReqFlag := func(ph *ssa.Phi) bool {
		trues := 0
		for i, e := range ph.Edges {
			b, isC := ana.ConstBool(e)
			if !isC {
				return false
			}
			if b {
				trues++
				ok := false
				for _, sb := range storeBlocks {
					if sb == ph.Block().Preds[i] || sb.Dominates(ph.Block().Preds[i]) {
						ok = true
					}
				}
				if !ok {
					return false
				}
			}
		}
		return trues > 0
	}
	// ... or the flag is the very condition under which the request is made an interleaved one:
	// `flag := <cond>; if flag { req.ReceiveTime = ... }` - the store sits at the head of the arm
	// taken when the flag holds
	condFlags := map[ssa.Value]bool{}
	ana.IfEdges(fn, func(iff *ssa.If, b *ssa.BasicBlock) {
		s := b.Succs[0]
		if len(s.Preds) != 1 {
			return
		}
		for _, sb := range storeBlocks {
			if sb == s {
				condFlags[iff.Cond] = true
			}
		}
	})
	gBasic := pathCmpGate(p, fn, "origin==req.TransmitTime", func(x, y ssa.Value) bool {
		return isPath(x, respRoot, "OriginTime") && isPath(y, reqRoot, "TransmitTime")
	}, true)
	// edges on which the request is known to have been built as an interleaved one
	flagTrue := ana.EdgeSet{}
	ana.IfEdges(fn, func(iff *ssa.If, b *ssa.BasicBlock) {
		for si, val := range []bool{true, false} {
			for _, a := range ana.Implied(iff.Cond, val) {
				if !a.Holds {
					continue
				}
				if ph, ok := a.V.(*ssa.Phi); condFlags[a.V] || (ok && isReqFlag(ph)) {
					flagTrue[ana.Edge{From: b, Succ: si}] = true
				}
			}
		}
	})
	for e := range gInter.Accept {
		okDom := false
		ana.IfEdges(fn, func(iff *ssa.If, b *ssa.BasicBlock) {
			for si, val := range []bool{true, false} {
				for _, a := range ana.Implied(iff.Cond, val) {
					if a.Holds && condFlags[a.V] {
						s := b.Succs[si]
						if (len(s.Preds) == 1 && s.Dominates(e.From)) || b == e.From {
							okDom = true
						}
					}
					if ph, ok := a.V.(*ssa.Phi); ok && a.Holds && isReqFlag(ph) {
						s := b.Succs[si]
						if (len(s.Preds) == 1 && s.Dominates(e.From)) || b == e.From {
							okDom = true
						}
					}
				}
			}
		})
		if !okDom && target != nil && len(flagTrue) > 0 {
			// the flag may also be tested behind the comparison: from the comparison's accept edge no
			// path reaches a success return without the flag's true edge or the basic-mode comparison
			sr := &ana.Search{Fn: fn, Target: target, Stop: stop, Cut: func(c ana.Edge) bool { return flagTrue[c] || gBasic.Accept[c] }}
			if found, _ := sr.RunAtEdge(e); !found {
				okDom = true
			}
		}
		if !okDom {
			r.Violate("C05.accept", ana.FuncName(fn), "origin-interleaved-unguarded", p.Pos(fn.Pos()),
				"the comparison resp.OriginTime == req.ReceiveTime is accepted without the outstanding request having been built as an interleaved request")
			delete(gInter.Accept, e)
		}
	}
	// the same test written as one boolean (e.g. the result of a helper): by truth table,
	// (request was interleaved && origin == req.ReceiveTime) || origin == req.TransmitTime
	eqPaths := func(f1, f2 string) ana.AtomMatcher {
		return func(c ana.Cmp, isCmp bool, _ ssa.Value) (bool, bool) {
			if isCmp && c.Op == token.EQL && isPath(c.X, respRoot, f1) && isPath(c.Y, reqRoot, f2) {
				return true, true
			}
			return false, false
		}
	}
	reqFlag := func(_ ana.Cmp, isCmp bool, v ssa.Value) (bool, bool) {
		if ph, ok := v.(*ssa.Phi); ok && !isCmp && isReqFlag(ph) {
			return true, true
		}
		return false, false
	}
	gWhole := ana.FindGateDNF(p, fn, "origin-echo", [][]ana.AtomMatcher{
		{reqFlag, eqPaths("OriginTime", "ReceiveTime")},
		{eqPaths("OriginTime", "TransmitTime")},
	})
	if len(gBasic.Accept) == 0 && len(gWhole.Accept) == 0 {
		r.Violate("C05.accept", ana.FuncName(fn), "origin-basic-missing", p.Pos(fn.Pos()),
			"no test resp.OriginTime == req.TransmitTime found")
	}
	return ana.Union("origin-echo", gInter, gBasic, gWhole)
}

// ntpCallArgRoot returns the root alloc of argument idx of the unique call to callee.
func ntpCallArgRoot(r *ana.Result, fn *ssa.Function, callee string, idx int, pick int) ssa.Value {
	cs := ana.CallsIn(fn, callee)
	if len(cs) <= pick {
		r.Broken("%s: call #%d to %s not found", ana.FuncName(fn), pick, ana.Short(callee))
		return nil
	}
	return rootAlloc(cs[pick].Common().Args[idx])
}

func checkC05(p *ana.Prog, r *ana.Result) {
	r.Explain("C05 (structural necessary condition): in both NTP client receive functions every return that can carry a nil error is reachable from the function entry only through the datagram read, and from that read only through the accept edge of every acceptance test (source address, NTP decode, NTS decode+verify when NTS is on, origin echo, response metadata, response timestamps; over SCION additionally layer decode, L4 type, length, source/destination IA+host and the SPAO MAC when a key is held). Queries are path searches on the SSA CFG with constant-phi and condition-class path sensitivity. ValidateResponseMetadata is decided exactly over all 256x256 (LVM, Stratum) byte pairs by a truth-table abstract interpretation (E-TABLE8). nts.ProcessResponse: success is dominated by the unique-id comparison and authenticate()==nil, and StoreCookie happens only after both. NTS verification: authenticate returns nil only through NewAEAD == nil and Open == nil of the packet's own nonce and ciphertext over b[:Auth.pos] (rule shared with C10).")
	r.Undecided("cryptographic strength of AEAD/CMAC; bytes.Equal/ConstantTimeCompare semantics (trusted); value-level correctness of compareAddrs/compareIPs beyond being called on the datagram's source and the queried address")
	c05Client(p, r, "(*IPClient).measureClockOffsetIP", false)
	c05Client(p, r, "(*SCIONClient).measureClockOffsetSCION", true)
	c05Meta(p, r)
	c05Timestamps(p, r)
	c05NTS(p, r)
	// only fields in front of the authenticator are covered by the AEAD: the decoder must stop there,
	// otherwise an appended, unauthenticated Unique Identifier field replaces the authenticated one
	// and a replayed response passes the identifier comparison (shared with C10)
	{
		n0 := len(r.Obls)
		c10Coverage(p, r)
		shareObls(p, r, n0, "C10.coverage", "C05.authenticated-fields", "net/nts.DecodePacket", "stop-at-authenticator")
		// "verify under the server-to-client key": authenticate succeeds only through the AEAD Open
		// of the packet's own nonce/ciphertext over the recorded prefix
		n1 := len(r.Obls)
		c10Coverage(p, r)
		shareObls(p, r, n1, "C10.coverage", "C05.nts-verify", "(*net/nts.Packet).authenticate", ").authenticate |")
	}
	n := 0
	for _, o := range r.Obls {
		if o.Rule == "C05.accept" {
			n++
		}
	}
	r.Floor("C05.accept", n, 9+14+2)
}

func c05Client(p *ana.Prog, r *ana.Result, name string, scion bool) {
	fn := mustFunc(p, r, "core/client", name)
	if fn == nil {
		return
	}
	fname := ana.FuncName(fn)
	rd := readSite(r, fn)
	if rd == nil {
		return
	}
	rets := ana.ClassifyReturns(fn)
	target := isSuccessTarget(rets)
	nSucc := 0
	for _, ri := range rets {
		if ri.Class != "failure" {
			nSucc++
		}
	}
	if nSucc == 0 {
		r.Broken("%s: no success return found", fname)
		return
	}
	isRead := func(in ssa.Instruction) bool { return in == ssa.Instruction(rd) }

	// (1) no success-capable return without a datagram read
	s := &ana.Search{Fn: fn, Stop: isRead, Target: target}
	if found, w := s.Run(nil); found {
		r.Violate("C05.accept", fname, "success-return-without-read", p.Pos(fn.Pos()),
			"a return whose error result can be nil is reachable from the function entry without reading any datagram (reports offset 0 / no error without a response)", w...)
	} else {
		r.Ok("C05.accept", fname, "success-return-without-read", p.Pos(fn.Pos()), "every return that may carry a nil error lies behind the datagram read")
	}

	// (2) gates
	errRead := extractOf(rd, 4)
	flags := extractOf(rd, 2)
	var gates []gateSpec
	if errRead == nil || flags == nil {
		r.Broken("%s: read results not extracted", fname)
		return
	}
	gates = append(gates,
		gateSpec{name: "read-error-nil", gate: ana.ErrNilGate(p, fn, fnReadMsg)},
		gateSpec{name: "flags==0", gate: cmpValueConstGate(p, fn, "flags==0", func(v ssa.Value) bool { return v == ssa.Value(flags) }, 0, true)},
	)
	classNTS := "c.Auth.Enabled"
	payloadOK := func(v ssa.Value) bool { return true }
	if !scion {
		gates = append(gates, gateSpec{name: "source-address==remote", gate: ana.CallCmpGate(p, fn, ana.Q("core/client.compareAddrs"), true, 0)})
		// compareAddrs must compare the datagram's source with the queried address
		for _, c := range ana.CallsIn(fn, ana.Q("core/client.compareAddrs")) {
			a0 := ana.AccessPath(c.Common().Args[0])
			a1 := ana.AccessPath(c.Common().Args[1])
			srcOK := false
			if call, _ := ana.CallOf(c.Common().Args[0]); call != nil && ana.CalleeName(call.Common()) == "(net/netip.AddrPort).Addr" {
				if e, ok := stripZeroMerge(call.Common().Args[0]).(*ssa.Extract); ok && e.Tuple == ssa.Value(rd) && e.Index == 3 {
					srcOK = true
				}
			}
			dstOK := false
			if call, _ := ana.CallOf(c.Common().Args[1]); call != nil && ana.CalleeName(call.Common()) == "(net/netip.AddrPort).Addr" {
				if c2, _ := ana.CallOf(call.Common().Args[0]); c2 != nil && ana.CalleeName(c2.Common()) == "(*net.UDPAddr).AddrPort" {
					if pr, ok := c2.Common().Args[0].(*ssa.Parameter); ok && pr.Name() == "remoteAddr" {
						dstOK = true
					}
				}
			}
			if srcOK && dstOK {
				r.Ok("C05.accept", fname, "compareAddrs-args", p.Pos(c.Pos()), "compareAddrs(source of this datagram, queried remote address)")
			} else {
				r.Violate("C05.accept", fname, "compareAddrs-args", p.Pos(c.Pos()),
					fmt.Sprintf("compareAddrs is not applied to (this datagram's source address, the queried remote address): args %q, %q", a0, a1))
			}
		}
	} else {
		classNTS = "c.Auth.NTSEnabled"
		gates = append(gates,
			gateSpec{name: "DecodeLayers==nil", gate: ana.ErrNilGate(p, fn, fnDecLayers)},
		)
		gates = append(gates, c05ScionGates(p, r, fn)...)
	}
	_ = payloadOK
	respRoot := ntpCallArgRoot(r, fn, ana.Q("net/ntp.DecodePacket"), 0, 0)
	reqRoot := ntpCallArgRoot(r, fn, ana.Q("net/ntp.EncodePacket"), 1, 0)
	if respRoot == nil || reqRoot == nil {
		return
	}
	k, v := ana.ClassFact(classNTS, true)
	nts := map[string]string{k: v}
	gates = append(gates,
		gateSpec{name: "ntp.DecodePacket==nil", gate: ana.ErrNilGate(p, fn, ana.Q("net/ntp.DecodePacket"))},
		gateSpec{name: "nts.DecodePacket==nil", gate: ana.ErrNilGate(p, fn, ana.Q("net/nts.DecodePacket")), assume: nts},
		gateSpec{name: "nts.ProcessResponse==nil", gate: ana.ErrNilGate(p, fn, ana.Q("net/nts.ProcessResponse")), assume: nts},
		gateSpec{name: "origin-echo", gate: originGate(p, r, fn, respRoot, reqRoot, target, isRead)},
		gateSpec{name: "ValidateResponseMetadata==nil", gate: ana.ErrNilGate(p, fn, ana.Q("net/ntp.ValidateResponseMetadata"))},
		gateSpec{name: "ValidateResponseTimestamps==nil", gate: ana.ErrNilGate(p, fn, ana.Q("net/ntp.ValidateResponseTimestamps"))},
	)
	// the class must really be tested in the function (otherwise the assumption is vacuous)
	classes := 0
	ana.Instrs(fn, func(in ssa.Instruction) {
		if u, ok := in.(*ssa.UnOp); ok && u.Op == token.MUL && ana.AccessPath(u) == classNTS {
			classes++
		}
	})
	if classes < 3 {
		r.Violate("C05.accept", fname, "nts-class", p.Pos(fn.Pos()), fmt.Sprintf("the NTS switch %s is read %d times (expected >= 3: fetch keys, build request, verify response)", classNTS, classes))
	}
	checkGates(p, r, "C05.accept", fn, rd, target, isRead, "success-return", gates)

	// (3) the validated packet is the decoded packet, decoded from this datagram
	for _, cal := range []string{"net/ntp.ValidateResponseMetadata"} {
		for _, c := range ana.CallsIn(fn, ana.Q(cal)) {
			if rootAlloc(c.Common().Args[0]) == respRoot {
				r.Ok("C05.accept", fname, "validated-packet-is-decoded-packet", p.Pos(c.Pos()), cal+" is applied to the packet ntp.DecodePacket filled")
			} else {
				r.Violate("C05.accept", fname, "validated-packet-is-decoded-packet", p.Pos(c.Pos()), cal+" is applied to a different packet than the one decoded from this datagram")
			}
		}
	}
	// NTS verification inputs: same buffer as ntp/nts decode, key = ntskeData.S2cKey, reqID from NewRequestPacket
	c05NTSArgs(p, r, fn)
	// decode buffers derive from the read buffer
	c05DecodeBuffer(p, r, fn, rd, scion)
}

func c05ScionGates(p *ana.Prog, r *ana.Result, fn *ssa.Function) []gateSpec {
	var gs []gateSpec
	var isDecodedElemN func(v ssa.Value, d int) bool
	isDecodedElemN = func(v ssa.Value, d int) bool {
		pth := ana.AccessPath(v)
		if strings.HasPrefix(pth, "decoded[") || strings.HasPrefix(pth, "*decoded[") {
			return true
		}
		// the element held in a local that is the zero layer type when there is none (a helper's
		// (layer, ok) result): equal to SCION/UDP or SCMP only if it is the element
		if ph, ok := v.(*ssa.Phi); ok && d < 3 {
			n := 0
			for _, e := range ph.Edges {
				switch {
				case isGlobalLoad(e, "github.com/google/gopacket", "LayerTypeZero"):
				case isDecodedElemN(e, d+1):
					n++
				default:
					return false
				}
			}
			return n > 0
		}
		return false
	}
	isDecodedElem := func(v ssa.Value) bool { return isDecodedElemN(v, 0) }
	layerCmp := func(c ana.Cmp, layer string) bool {
		if c.Op != token.EQL && c.Op != token.NEQ {
			return false
		}
		for _, pr := range [][2]ssa.Value{{c.X, c.Y}, {c.Y, c.X}} {
			if isGlobalLoad(pr[1], "github.com/scionproto/scion/pkg/slayers", layer) && isDecodedElem(pr[0]) {
				return true
			}
		}
		return false
	}
	asCmp := func(v ssa.Value) (ana.Cmp, bool) {
		if bo, ok := v.(*ssa.BinOp); ok {
			return ana.Cmp{Op: bo.Op, X: bo.X, Y: bo.Y, Instr: bo}, true
		}
		return ana.Cmp{}, false
	}
	// len(decoded) >= 2
	gs = append(gs, gateSpec{name: "len(decoded)>=2", gate: ana.FindGate(p, fn, "len(decoded)>=2", func(c ana.Cmp, isCmp bool, _ ssa.Value) (bool, bool) {
		if !isCmp || !isLenOf(c.X) {
			return false, false
		}
		call, _ := ana.CallOf(c.X)
		if !strings.Contains(ana.AccessPath(call.Common().Args[0]), "decoded") {
			return false, false
		}
		k, ok := ana.ConstInt(c.Y)
		if !ok {
			return false, false
		}
		switch {
		case c.Op == token.GEQ && k == 2, c.Op == token.GTR && k == 1:
			return true, true
		case c.Op == token.LSS && k == 2, c.Op == token.LEQ && k == 1:
			return true, false
		}
		return false, false
	})})
	// last layer is SCION/UDP or SCMP (the || of validType)
	layerIs := func(which string) *ana.Gate {
		return ana.FindGate(p, fn, "last-layer=="+which, func(c ana.Cmp, isCmp bool, _ ssa.Value) (bool, bool) {
			if !isCmp || !layerCmp(c, which) {
				return false, false
			}
			switch c.Op {
			case token.EQL:
				return true, true
			case token.NEQ:
				return true, false
			}
			return false, false
		})
	}
	gs = append(gs, gateSpec{name: "last-layer-in-{UDP,SCMP}", gate: ana.Union("last-layer-in-{UDP,SCMP}", layerIs("LayerTypeSCIONUDP"), layerIs("LayerTypeSCMP"), ana.FindGate(p, fn, "last-layer-in-{UDP,SCMP}", func(_ ana.Cmp, isCmp bool, v ssa.Value) (bool, bool) {
		ph, ok := v.(*ssa.Phi)
		if !ok {
			return false, false
		}
		n := 0
		for i, e := range ph.Edges {
			if b, isC := ana.ConstBool(e); isC {
				if !b {
					return false, false
				}
				pred := ph.Block().Preds[i]
				iff, ok := pred.Instrs[len(pred.Instrs)-1].(*ssa.If)
				if !ok {
					return false, false
				}
				c, pos, isC := ana.AsCmp(iff.Cond)
				if !isC || !pos || c.Op != token.EQL || !(layerCmp(c, "LayerTypeSCIONUDP") || layerCmp(c, "LayerTypeSCMP")) {
					return false, false
				}
				n++
				continue
			}
			c, ok := asCmp(e)
			if !ok || c.Op != token.EQL || !(layerCmp(c, "LayerTypeSCIONUDP") || layerCmp(c, "LayerTypeSCMP")) {
				return false, false
			}
			n++
		}
		return n == 2, true
	}), ana.FindGateAny(p, fn, "last-layer-in-{UDP,SCMP}", func(c ana.Cmp, isCmp bool, _ ssa.Value) (bool, bool) {
		// any spelling (De Morgan, negated flag): by truth table of the tested condition
		if isCmp && c.Op == token.EQL && (layerCmp(c, "LayerTypeSCIONUDP") || layerCmp(c, "LayerTypeSCMP")) {
			return true, true
		}
		return false, false
	}))})
	// last layer != SCMP
	// (the edge `last layer == SCION/UDP` establishes it as well: the two layer types are distinct)
	gs = append(gs, gateSpec{name: "last-layer-not-SCMP", gate: ana.Union("last-layer-not-SCMP", ana.FindGate(p, fn, "last-layer-not-SCMP", func(c ana.Cmp, isCmp bool, _ ssa.Value) (bool, bool) {
		if !isCmp || !layerCmp(c, "LayerTypeSCMP") {
			return false, false
		}
		return true, c.Op == token.NEQ
	}), layerIs("LayerTypeSCIONUDP"))})
	// len(buf) >= int(udpLayer.Length)
	gs = append(gs, gateSpec{name: "len(buf)>=udp.Length", gate: ana.FindGate(p, fn, "len>=udpLength", func(c ana.Cmp, isCmp bool, _ ssa.Value) (bool, bool) {
		if !isCmp {
			return false, false
		}
		x, y, op := c.X, c.Y, c.Op
		if strings.HasSuffix(ana.AccessPath(ana.StripConv(x)), "udpLayer.Length") {
			x, y, op = y, x, ana.SwapOp(op)
		}
		if !strings.HasSuffix(ana.AccessPath(ana.StripConv(y)), "udpLayer.Length") {
			return false, false
		}
		if !isLenOf(x) {
			return false, false
		}
		switch op {
		case token.LSS:
			return true, false
		case token.GEQ:
			return true, true
		}
		return false, false
	})})
	iaGate := func(name, layerField, addr string) gateSpec {
		return gateSpec{name: name, gate: pathCmpGate(p, fn, name, func(x, y ssa.Value) bool {
			return strings.HasSuffix(ana.AccessPath(x), "scionLayer."+layerField) && ana.AccessPath(y) == addr+".IA"
		}, true)}
	}
	ipGate := func(name, rawField, addr string) gateSpec {
		return gateSpec{name: name, gate: ana.FindGate(p, fn, name, func(c ana.Cmp, isCmp bool, _ ssa.Value) (bool, bool) {
			if !isCmp || (c.Op != token.EQL && c.Op != token.NEQ) {
				return false, false
			}
			k, ok := ana.ConstInt(c.Y)
			if !ok || k != 0 {
				return false, false
			}
			call, _ := ana.CallOf(ana.StripConv(c.X))
			if call == nil || ana.CalleeName(call.Common()) != ana.Q("core/client.compareIPs") {
				return false, false
			}
			a0 := ana.AccessPath(call.Common().Args[0])
			a1 := ana.AccessPath(ana.Strip(call.Common().Args[1]))
			if !strings.HasSuffix(a0, "scionLayer."+rawField) || a1 != addr+".Host.IP" {
				return false, false
			}
			return true, c.Op == token.EQL
		})}
	}
	gs = append(gs,
		iaGate("SrcIA==remote.IA", "SrcIA", "remoteAddr"),
		ipGate("compareIPs(RawSrcAddr,remote.Host.IP)==0", "RawSrcAddr", "remoteAddr"),
		iaGate("DstIA==local.IA", "DstIA", "localAddr"),
		ipGate("compareIPs(RawDstAddr,local.Host.IP)==0", "RawDstAddr", "localAddr"),
	)
	return gs
}

func isLenOf(v ssa.Value) bool {
	c, _ := ana.CallOf(ana.StripConv(v))
	if c == nil {
		return false
	}
	return ana.CalleeName(c.Common()) == "builtin.len"
}

func isGlobalLoad(v ssa.Value, pkg, name string) bool {
	u, ok := v.(*ssa.UnOp)
	if !ok || u.Op != token.MUL {
		return false
	}
	g, ok := u.X.(*ssa.Global)
	return ok && g.Name() == name && g.Pkg != nil && g.Pkg.Pkg.Path() == pkg
}

func c05NTSArgs(p *ana.Prog, r *ana.Result, fn *ssa.Function) {
	fname := ana.FuncName(fn)
	prs := ana.CallsIn(fn, ana.Q("net/nts.ProcessResponse"))
	nreq := ana.CallsIn(fn, ana.Q("net/nts.NewRequestPacket"))
	dec := ana.CallsIn(fn, ana.Q("net/nts.DecodePacket"))
	if len(prs) != 1 || len(nreq) != 1 || len(dec) != 1 {
		r.Violate("C05.nts", fname, "nts-call-sites", p.Pos(fn.Pos()), fmt.Sprintf("expected exactly one ProcessResponse/NewRequestPacket/nts.DecodePacket call, found %d/%d/%d", len(prs), len(nreq), len(dec)))
		return
	}
	pr := prs[0].Common()
	// key
	if kp := ana.AccessPath(pr.Args[1]); kp == "ntskeData.S2cKey" {
		r.Ok("C05.nts", fname, "response-key", p.Pos(prs[0].Pos()), "ProcessResponse verifies under ntskeData.S2cKey (server-to-client key)")
	} else {
		r.Violate("C05.nts", fname, "response-key", p.Pos(prs[0].Pos()), "ProcessResponse key argument is "+kp+", expected ntskeData.S2cKey")
	}
	// request id = result #1 of NewRequestPacket (through phi with nil on the NTS-off class)
	idOK := false
	var walk func(v ssa.Value, d int) bool
	walk = func(v ssa.Value, d int) bool {
		if d > 6 {
			return false
		}
		if c, i := ana.CallOf(v); c != nil {
			return c == nreq[0].(*ssa.Call) && i == 1
		}
		if ph, ok := v.(*ssa.Phi); ok {
			any := false
			for _, e := range ph.Edges {
				if ana.IsNilConst(e) {
					continue
				}
				if !walk(e, d+1) {
					return false
				}
				any = true
			}
			return any
		}
		return false
	}
	idOK = walk(pr.Args[4], 0)
	if idOK {
		r.Ok("C05.nts", fname, "response-id", p.Pos(prs[0].Pos()), "ProcessResponse compares against the unique id returned by this invocation's NewRequestPacket")
	} else {
		r.Violate("C05.nts", fname, "response-id", p.Pos(prs[0].Pos()), "ProcessResponse request-id argument is not the id returned by this invocation's nts.NewRequestPacket")
	}
	// same buffer and packet as nts.DecodePacket
	d := dec[0].Common()
	if sameBuf(d.Args[1], pr.Args[0]) && rootAlloc(d.Args[0]) == rootAlloc(pr.Args[3]) {
		r.Ok("C05.nts", fname, "paired-buffer", p.Pos(prs[0].Pos()), "ProcessResponse authenticates the same buffer and packet that nts.DecodePacket parsed")
	} else {
		r.Violate("C05.nts", fname, "paired-buffer", p.Pos(prs[0].Pos()), "ProcessResponse is given a different buffer or packet than nts.DecodePacket parsed")
	}
}

func sameBuf(a, b ssa.Value) bool {
	if a == b {
		return true
	}
	pa, pb := ana.AccessPath(a), ana.AccessPath(b)
	return pa != "" && pa == pb
}

// c05DecodeBuffer: the buffer handed to the first decoder is the read buffer re-sliced to n.
func c05DecodeBuffer(p *ana.Prog, r *ana.Result, fn *ssa.Function, rd *ssa.Call, scion bool) {
	fname := ana.FuncName(fn)
	n := extractOf(rd, 0)
	dec := ana.Q("net/ntp.DecodePacket")
	argi := 1
	if scion {
		dec = fnDecLayers
		argi = 1
	}
	cs := ana.CallsIn(fn, dec)
	if len(cs) != 1 || n == nil {
		r.Broken("%s: decode call not unique", fname)
		return
	}
	arg := ana.UniqueReaching(fn, cs[0].Common().Args[argi])
	sl, ok := arg.(*ssa.Slice)
	if ok && sl.High != nil && stripZeroMerge(sl.High) == ssa.Value(n) && sl.Low == nil && sameBufferValue(fn, sl.X, rd.Call.Args[1]) {
		r.Ok("C05.accept", fname, "decode-buffer-is-datagram", p.Pos(cs[0].Pos()), "the decoder reads buf[:n] of this read")
	} else {
		r.Violate("C05.accept", fname, "decode-buffer-is-datagram", p.Pos(cs[0].Pos()), "the first decoder is not applied to the bytes buf[:n] of this read (stale or over-long buffer contents could be accepted)")
	}
	if scion {
		// NTP/NTS decoders read udpLayer.Payload
		for _, name := range []string{"net/ntp.DecodePacket", "net/nts.DecodePacket", "net/nts.ProcessResponse"} {
			for _, c := range ana.CallsIn(fn, ana.Q(name)) {
				i := 1
				if strings.HasSuffix(name, "ProcessResponse") {
					i = 0
				}
				if pth := ana.AccessPath(c.Common().Args[i]); strings.HasPrefix(pth, "udpLayer.") && strings.HasSuffix(pth, ".Payload") {
					r.Ok("C05.accept", fname, "payload-of-decoded-udp-layer:"+name, p.Pos(c.Pos()), name+" reads udpLayer.Payload of the decoded datagram")
				} else {
					r.Violate("C05.accept", fname, "payload-of-decoded-udp-layer:"+name, p.Pos(c.Pos()), name+" does not read udpLayer.Payload")
				}
			}
		}
	}
}

// sameBufferValue: v and buf are the same SSA value, loads of the same local
// alloc with the same unique reaching store, or slice/phi chains over the same roots.
func sameBufferValue(fn *ssa.Function, v, buf ssa.Value) bool {
	if v == buf {
		return true
	}
	rv, rb := ana.UniqueReaching(fn, v), ana.UniqueReaching(fn, buf)
	if rv != nil && rv == rb {
		return true
	}
	if rv == nil || rb == nil {
		return false
	}
	return sliceRootIs(rv, rb)
}

// sliceRootIs: v is (a phi/slice chain over) the same buffer value as buf.
func sliceRootIs(v, buf ssa.Value) bool {
	seen := map[ssa.Value]bool{}
	var rootsOf func(v ssa.Value) []ssa.Value
	rootsOf = func(v ssa.Value) []ssa.Value {
		if seen[v] {
			return nil
		}
		seen[v] = true
		switch x := v.(type) {
		case *ssa.Slice:
			return rootsOf(x.X)
		case *ssa.Phi:
			var out []ssa.Value
			for _, e := range x.Edges {
				out = append(out, rootsOf(e)...)
			}
			return out
		}
		return []ssa.Value{v}
	}
	a := rootsOf(v)
	seen = map[ssa.Value]bool{}
	b := rootsOf(buf)
	if len(a) == 0 || len(b) == 0 {
		return false
	}
	set := map[ssa.Value]bool{}
	for _, x := range b {
		set[x] = true
	}
	for _, x := range a {
		if !set[x] {
			return false
		}
	}
	return true
}

func c05NTS(p *ana.Prog, r *ana.Result) {
	fn := mustFunc(p, r, "net/nts", "ProcessResponse")
	if fn == nil {
		return
	}
	fname := ana.FuncName(fn)
	rets := ana.ClassifyReturns(fn)
	target := isSuccessTarget(rets)
	idGate := ana.FindGate(p, fn, "bytes.Equal(reqID, pkt.UniqueID.ID)", func(c ana.Cmp, isCmp bool, v ssa.Value) (bool, bool) {
		if isCmp {
			return false, false
		}
		call, _ := ana.CallOf(v)
		if call == nil || ana.CalleeName(call.Common()) != "bytes.Equal" {
			return false, false
		}
		a, b := ana.AccessPath(call.Common().Args[0]), ana.AccessPath(call.Common().Args[1])
		if (a == "reqID" && b == "pkt.UniqueID.ID") || (b == "reqID" && a == "pkt.UniqueID.ID") {
			return true, true
		}
		return false, false
	})
	authGate := ana.ErrNilGate(p, fn, ana.Q("(*net/nts.Packet).authenticate"))
	store := ana.IsCallTo(ana.Q("(*net/ntske.Fetcher).StoreCookie"))
	gs := []gateSpec{{name: "unique-id-equal", gate: idGate}, {name: "authenticate==nil", gate: authGate}}
	checkGates(p, r, "C05.nts", fn, nil, target, nil, "success-return", gs)
	if len(ana.CallsIn(fn, ana.Q("(*net/ntske.Fetcher).StoreCookie"))) > 0 {
		checkGates(p, r, "C05.nts", fn, nil, store, nil, "StoreCookie", gs)
	}
	// authenticate is called with the key parameter and buffer parameter
	for _, c := range ana.CallsIn(fn, ana.Q("(*net/nts.Packet).authenticate")) {
		a := c.Common().Args
		if ana.AccessPath(a[0]) == "pkt" && ana.AccessPath(a[1]) == "b" && ana.AccessPath(a[2]) == "key" {
			r.Ok("C05.nts", fname, "authenticate-args", p.Pos(c.Pos()), "authenticate(pkt, b, key) uses the caller's packet, buffer and key")
		} else {
			r.Violate("C05.nts", fname, "authenticate-args", p.Pos(c.Pos()), "authenticate is not called on (pkt, b, key)")
		}
	}
	// who may call StoreCookie: only ProcessResponse
	for _, f := range p.AllFuncs {
		if f == fn {
			continue
		}
		for _, c := range ana.CallsIn(f, ana.Q("(*net/ntske.Fetcher).StoreCookie")) {
			r.Violate("C05.nts", ana.FuncName(f), "StoreCookie-outside-ProcessResponse", p.Pos(c.Pos()), "cookies are stored outside nts.ProcessResponse (before/without response authentication)")
		}
	}
}

// lvmFields splits an NTP first byte.
func lvmFields(b int64) (li, vn, mode int64) { return (b >> 6) & 3, (b >> 3) & 7, b & 7 }

// c05Timestamps: ValidateResponseTimestamps(t0, t1, t2, t3) returns nil only where neither
// t3 is before t0 nor t2 is before t1 (transmit time not before receive time).
func c05Timestamps(p *ana.Prog, r *ana.Result) {
	fn := mustFunc(p, r, "net/ntp", "ValidateResponseTimestamps")
	if fn == nil {
		return
	}
	fname := ana.FuncName(fn)
	if len(fn.Params) != 4 {
		r.Violate("C05.timestamps", fname, "signature", p.Pos(fn.Pos()), "UNDECIDED: expected (t0, t1, t2, t3 time.Time)")
		return
	}
	rets := ana.ClassifyReturns(fn)
	target := isSuccessTarget(rets)
	// notBefore(later, earlier): the edges on which "later is before earlier" is known to be false
	notBefore := func(name string, later, earlier ssa.Value) *ana.Gate {
		return ana.FindGate(p, fn, name, func(c ana.Cmp, isCmp bool, v ssa.Value) (bool, bool) {
			if isCmp {
				k, isK := ana.ConstInt(c.Y)
				sub, _ := ana.CallOf(c.X)
				if !isK || k != 0 || sub == nil || ana.CalleeName(sub.Common()) != "(time.Time).Sub" {
					return false, false
				}
				a, b := sub.Common().Args[0], sub.Common().Args[1]
				switch {
				case a == later && b == earlier: // later - earlier
					switch c.Op {
					case token.LSS:
						return true, false
					case token.GEQ:
						return true, true
					}
				case a == earlier && b == later: // earlier - later
					switch c.Op {
					case token.GTR:
						return true, false
					case token.LEQ:
						return true, true
					}
				}
				return false, false
			}
			if e, l, _, ok := strictOrder(v); ok && e == later && l == earlier {
				return true, false // "later is before earlier" must not hold
			}
			return false, false
		})
	}
	for _, g := range []struct {
		name           string
		later, earlier ssa.Value
		what           string
	}{
		{"t3-not-before-t0", fn.Params[3], fn.Params[0], "the response is not received before the request was sent"},
		{"t2-not-before-t1", fn.Params[2], fn.Params[1], "the server's transmit time is not before its receive time"},
	} {
		gate := notBefore(g.name, g.later, g.earlier)
		if len(gate.Accept) == 0 {
			r.Violate("C05.timestamps", fname, "gate-missing:"+g.name, p.Pos(fn.Pos()), "ValidateResponseTimestamps does not test that "+g.what)
			continue
		}
		if ok, w := ana.MustPass(fn, nil, gate, target, nil, nil); ok {
			r.Ok("C05.timestamps", fname, "must-pass:"+g.name, strings.Join(gate.Sites, ","), "nil is returned only where "+g.what)
		} else {
			r.Violate("C05.timestamps", fname, "must-pass:"+g.name, strings.Join(gate.Sites, ","), "ValidateResponseTimestamps can return nil although it is not established that "+g.what, w...)
		}
	}
}

func c05Meta(p *ana.Prog, r *ana.Result) {
	fn := mustFunc(p, r, "net/ntp", "ValidateResponseMetadata")
	if fn == nil {
		return
	}
	fname := ana.FuncName(fn)
	res := ana.RunTable(fn, []ana.TableInput{{Path: "resp.LVM", Values: ana.Range(0, 255)}, {Path: "resp.Stratum", Values: ana.Range(0, 255)}})
	if res.Err != nil {
		r.Violate("C05.meta", fname, "undecided", p.Pos(fn.Pos()), "UNDECIDED: ValidateResponseMetadata is outside the truth-table domain: "+res.Err.Error())
		return
	}
	bad := 0
	accepted := 0
	var firstBad string
	accLVM := map[int64]bool{}
	accStr := map[int64]bool{}
	for i := 0; i < res.N; i++ {
		pt := res.Point(i)
		li, vn, mode := lvmFields(pt[0])
		want := li != 3 && (vn == 3 || vn == 4) && mode == 4 && pt[1] >= 1 && pt[1] <= 15
		got := res.Returns[0][i] == 0 && !res.Panics[i]
		if got {
			accepted++
			accLVM[pt[0]] = true
			accStr[pt[1]] = true
		}
		if got != want {
			bad++
			if firstBad == "" {
				firstBad = fmt.Sprintf("LVM=0x%02x (LI=%d VN=%d mode=%d) stratum=%d: accepted=%v, property says %v", pt[0], li, vn, mode, pt[1], got, want)
			}
		}
	}
	r.Table("ValidateResponseMetadata", map[string]any{"points": res.N, "accepted": accepted, "accepted_first_bytes": len(accLVM), "accepted_strata": len(accStr)})
	if bad == 0 {
		r.Ok("C05.meta", fname, "truth-table", p.Pos(fn.Pos()), fmt.Sprintf("over all 65536 (first byte, stratum) pairs the result is nil exactly for LI in {0,1,2}, VN in {3,4}, mode 4, stratum 1..15 (%d pairs: %d first bytes x %d strata)", accepted, len(accLVM), len(accStr)))
	} else {
		r.Violate("C05.meta", fname, "truth-table", p.Pos(fn.Pos()), fmt.Sprintf("ValidateResponseMetadata disagrees with the property on %d of 65536 (first byte, stratum) pairs; e.g. %s", bad, firstBad))
	}
}
