package rules

import (
	"fmt"
	"go/token"
	"go/types"
	"math/big"
	"sort"
	"strings"

	"golang.org/x/tools/go/ssa"

	"verif/internal/ana"
)

func init() { All["C14"] = checkC14 }

type codecPair struct {
	pkg, enc, dec    string
	encMsg, decMsg   string // parameter names of the message in encoder / decoder
	baseLen, fullLen int64  // unconditional length, length with the flag arm (== baseLen if none)
}

func checkC14(p *ana.Prog, r *ana.Result) {
	r.Explain("C14 (structural clauses, decided exactly for fixed layouts): for ntp.EncodePacket/DecodePacket, csptp.EncodeMessage/DecodeMessage, Encode/DecodeRequestTLV and Encode/DecodeResponseTLV the byte<->(field,shift) relation extracted from the encoder equals the one extracted from the decoder, every field of width w uses shifts 0,8,..,w-8 exactly once, offsets are pairwise distinct and cover [0,L) (L = declared length; the flag arm covers [36,54)), and the decoder assigns every leaf field of the message on every path to its success return (so decoding into a reused struct cannot keep stale fields) - together these are round-trip and re-encode equality for these codecs. LVM accessors: for all 256 bytes and all in-range arguments Get(Set(x)) == x, the other two fields unchanged, getters read bits 7-6/5-3/2-0 (truth tables). NTS extension fields: the type constant written by each pack equals the one tested by the same kind's unpack, the four are pairwise distinct, DecodePacket dispatches each constant to its own kind, every pack pads to 4 bytes. Cookie TLV tags written by Encode equal the tags read by Decode. NTS-KE: every record type a pack method writes has an arm in ReadData, only the end-of-message arm returns nil, and every read of the stream inside package ntske goes through binary.Read/io.ReadFull (full reads; segmentation independence). Both extension-field walks (datagram, decrypted fields) are entered whenever at least 28 bytes remain behind the cursor (the test is read as a linear inequality in len(buf) - cursor), so a field that ends the buffer exactly is decoded. Extension lengths: for the four NTS extension encoders the Length written into the header equals the bytes occupied (returned cursor minus given cursor, as a sum of lengths with copy(dst, src) counted as len(src)) and is a multiple of four for every value length. Encode-all: the loops of package nts that pack the Cookies / CookiePlaceholders of a packet can reach a success return only through the loop header's own exit, and the pack call dominates every back edge (no element is skipped or cut off in a packet reported as encoded).")
	r.Undecided("variable-length NTS fields round-tripping for all lengths; binary.Write/Read reflection semantics; NTS authenticator contents (C10)")
	pairs := []codecPair{
		{"net/ntp", "EncodePacket", "DecodePacket", "pkt", "pkt", 48, 48},
		{"net/csptp", "EncodeMessage", "DecodeMessage", "msg", "msg", 44, 44},
		{"net/csptp", "EncodeRequestTLV", "DecodeRequestTLV", "tlv", "tlv", 36, 54},
		{"net/csptp", "EncodeResponseTLV", "DecodeResponseTLV", "tlv", "tlv", 36, 54},
	}
	c14Lengths(p, r)
	total := 0
	for _, cp := range pairs {
		total += c14Fixed(p, r, cp)
	}
	r.Floor("C14.fixed.offsets", total, 48+44+14+54)
	c14Timestamp(p, r)
	c14LVM(p, r)
	c14Tags(p, r)
	c14CookieTags(p, r)
	c14NTSKE(p, r)
	c14FieldWalk(p, r)
	c14ExtLen(p, r, "C14.ext-length", true, false)
	c14EncodeAll(p, r)
}

// c14Lengths: the declared lengths used above are the repo's constants / length functions.
func c14Lengths(p *ana.Prog, r *ana.Result) {
	chk := func(rel, name string, want int64) {
		nc := p.Const(rel, name)
		if nc == nil {
			r.Broken("constant %s.%s does not resolve", rel, name)
			return
		}
		v, _ := ana.ConstInt(nc.Value)
		if v == want {
			r.Ok("C14.fixed", rel, "const:"+name, p.Pos(nc.Pos()), fmt.Sprintf("%s == %d", name, want))
		} else {
			r.Violate("C14.fixed", rel, "const:"+name, p.Pos(nc.Pos()), fmt.Sprintf("%s is %d; the fixed header is %d bytes on the wire", name, v, want))
		}
	}
	chk("net/ntp", "PacketLen", 48)
	chk("net/csptp", "MinMessageLength", 44)
	for _, name := range []string{"EncodedRequestTLVLength", "EncodedResponseTLVLength"} {
		fn := mustFunc(p, r, "net/csptp", name)
		if fn == nil {
			continue
		}
		res := ana.RunTable(fn, []ana.TableInput{{Path: "tlv.FlagField", Values: ana.Range(0, 3)}})
		if res.Err != nil {
			r.Violate("C14.fixed", ana.FuncName(fn), "undecided", p.Pos(fn.Pos()), "UNDECIDED: "+res.Err.Error())
			continue
		}
		ok := true
		for i := 0; i < res.N; i++ {
			want := int64(36)
			if res.Point(i)[0]&1 == 1 {
				want = 54
			}
			if res.Returns[0][i] != want {
				ok = false
			}
		}
		if ok {
			r.Ok("C14.fixed", ana.FuncName(fn), "length-function", p.Pos(fn.Pos()), "returns 36, or 54 when the ServerStateDS flag (bit 0) is set")
		} else {
			r.Violate("C14.fixed", ana.FuncName(fn), "length-function", p.Pos(fn.Pos()), "length function does not return 36 / 54 by the ServerStateDS flag")
		}
	}
}

func msgType(fn *ssa.Function, param string) types.Type {
	for _, pr := range fn.Params {
		if pr.Name() == param {
			if pt, ok := pr.Type().Underlying().(*types.Pointer); ok {
				return pt.Elem()
			}
			return pr.Type()
		}
	}
	return nil
}

func c14Fixed(p *ana.Prog, r *ana.Result, cp codecPair) int {
	enc := mustFunc(p, r, cp.pkg, cp.enc)
	dec := mustFunc(p, r, cp.pkg, cp.dec)
	if enc == nil || dec == nil {
		return 0
	}
	pair := cp.pkg + "." + cp.enc + "/" + cp.dec
	et := ana.ExtractEncoder(enc, cp.encMsg)
	dt := ana.ExtractDecoder(dec, cp.decMsg)
	for _, pr := range et.Problems {
		r.Violate("C14.fixed", ana.FuncName(enc), "undecided:"+pr, p.Pos(enc.Pos()), "UNDECIDED encoder construct: "+pr)
	}
	for _, pr := range dt.Problems {
		r.Violate("C14.fixed", ana.FuncName(dec), "undecided:"+pr, p.Pos(dec.Pos()), "UNDECIDED decoder construct: "+pr)
	}
	key := func(row ana.CodecRow) string {
		return fmt.Sprintf("%d|%s|%d|%s", row.Off, row.Field, row.Shift, row.Cond)
	}
	em, dm := map[string]ana.CodecRow{}, map[string]ana.CodecRow{}
	for _, row := range et.Rows {
		if _, dup := em[key(row)]; dup {
			r.Violate("C14.fixed", ana.FuncName(enc), "duplicate-row:"+row.String(), p.Pos(row.Pos), "encoder writes the same byte twice")
		}
		em[key(row)] = row
	}
	for _, row := range dt.Rows {
		dm[key(row)] = row
	}
	isRequestTLV := cp.enc == "EncodeRequestTLV"
	// (i) relation equality
	agree := 0
	for k, row := range em {
		if _, ok := dm[k]; ok {
			agree++
			continue
		}
		r.Violate("C14.fixed", pair, "encoder-row-not-decoded:"+row.Field+fmt.Sprintf(">>%d", row.Shift), p.Pos(row.Pos),
			fmt.Sprintf("encoder writes %s but the decoder does not read that byte into that field at that shift", row))
	}
	for k, row := range dm {
		if _, ok := em[k]; ok {
			continue
		}
		r.Violate("C14.fixed", pair, "decoder-row-not-encoded:"+row.Field+fmt.Sprintf("<<%d", row.Shift), p.Pos(row.Pos),
			fmt.Sprintf("decoder reads %s but the encoder does not write that field byte there", row))
	}
	if agree > 0 && agree == len(em) && agree == len(dm) {
		r.Ok("C14.fixed", pair, "tables-agree", p.Pos(enc.Pos()), fmt.Sprintf("%d (offset, field, shift, condition) rows extracted from the encoder equal the %d rows extracted from the decoder", len(em), len(dm)))
	}
	// (ii) shifts per field, (iii) offsets
	mt := msgType(enc, cp.encMsg)
	byField := map[string][]ana.CodecRow{}
	for _, row := range et.Rows {
		byField[row.Field] = append(byField[row.Field], row)
	}
	okShifts := true
	for f, rows := range byField {
		w := ana.FieldWidth(mt, f)
		shifts := map[int64]int{}
		for _, row := range rows {
			shifts[row.Shift]++
		}
		good := w > 0 && len(rows) == w
		for s := int64(0); s < int64(w)*8; s += 8 {
			if shifts[s] != 1 {
				good = false
			}
		}
		if !good {
			okShifts = false
			r.Violate("C14.fixed", pair, "field-bytes:"+f, p.Pos(rows[0].Pos), fmt.Sprintf("field %s (width %d bytes) is not written as exactly one byte per shift 0,8,..,%d", f, w, (w-1)*8))
		}
	}
	// every leaf field is encoded
	if mt != nil {
		for _, lf := range ana.LeafFields(mt, "") {
			found := false
			for f := range byField {
				if f == lf || strings.HasPrefix(f, lf+"[") {
					found = true
				}
			}
			if !found {
				okShifts = false
				r.Violate("C14.fixed", pair, "field-not-encoded:"+lf, p.Pos(enc.Pos()), "message field "+lf+" is never written by the encoder")
			}
		}
	}
	if okShifts {
		r.Ok("C14.fixed", pair, "field-bytes", p.Pos(enc.Pos()), fmt.Sprintf("all %d fields are written with every byte exactly once", len(byField)))
	}
	cover := map[int64]int{}
	for _, row := range et.Rows {
		cover[row.Off]++
	}
	for i, z := range et.ZeroPad {
		_ = i
		for k := z[0]; k < z[1]; k++ {
			cover[k]++
		}
	}
	okCover := true
	for k := int64(0); k < cp.fullLen; k++ {
		if cover[k] != 1 {
			okCover = false
			r.Violate("C14.fixed", pair, fmt.Sprintf("offset-coverage:%d", k), p.Pos(enc.Pos()), fmt.Sprintf("byte %d of the %d-byte layout is written %d times by the encoder (must be exactly once)", k, cp.fullLen, cover[k]))
		}
	}
	for k := range cover {
		if k < 0 || k >= cp.fullLen {
			okCover = false
			r.Violate("C14.fixed", pair, fmt.Sprintf("offset-out-of-layout:%d", k), p.Pos(enc.Pos()), fmt.Sprintf("encoder writes byte %d outside the declared %d-byte layout", k, cp.fullLen))
		}
	}
	// conditional rows live exactly in [baseLen, fullLen)
	for _, row := range et.Rows {
		if (row.Cond != "") != (row.Off >= cp.baseLen) {
			okCover = false
			r.Violate("C14.fixed", pair, fmt.Sprintf("conditional-offset:%d", row.Off), p.Pos(row.Pos), fmt.Sprintf("byte %d is written under condition %q but the unconditional part is [0,%d)", row.Off, row.Cond, cp.baseLen))
		}
	}
	if okCover {
		r.Ok("C14.fixed", pair, "offset-coverage", p.Pos(enc.Pos()), fmt.Sprintf("encoder writes each of the %d bytes exactly once (%d field bytes + %d zero-padding ranges)", cp.fullLen, len(et.Rows), len(et.ZeroPad)))
	}
	// decoder reads only what the encoder wrote as field bytes, (RequestTLV: padding unread)
	if isRequestTLV && len(dt.Rows) != 14 {
		r.Violate("C14.fixed", pair, "request-tlv-decoded-bytes", p.Pos(dec.Pos()), fmt.Sprintf("DecodeRequestTLV reads %d bytes into fields, expected 14", len(dt.Rows)))
	}
	// (v) decoder totality: every leaf field assigned on every path to a success return
	dmt := msgType(dec, cp.decMsg)
	rets := ana.ClassifyReturns(dec)
	target := isSuccessTarget(rets)
	okTotal := true
	for _, lf := range ana.LeafFields(dmt, "") {
		lf := lf
		stores := func(in ssa.Instruction) bool {
			st, ok := in.(*ssa.Store)
			if !ok {
				return false
			}
			pth := ana.AccessPath(st.Addr)
			full := cp.decMsg + "." + lf
			// the field itself, or an enclosing struct assigned as a whole
			return pth == full || (pth != "" && strings.HasPrefix(full, pth+"."))
		}
		s := &ana.Search{Fn: dec, Stop: stores, Target: target}
		if found, w := s.Run(nil); found {
			okTotal = false
			r.Violate("C14.fixed", ana.FuncName(dec), "decoder-leaves-field-unassigned:"+lf, p.Pos(dec.Pos()),
				"a successful decode can leave field "+lf+" untouched: decoding into a previously used struct returns stale data (decode(encode(v)) != v)", w...)
		}
	}
	if okTotal {
		r.Ok("C14.fixed", ana.FuncName(dec), "decoder-total", p.Pos(dec.Pos()), fmt.Sprintf("every one of the %d leaf fields is assigned on every path to the success return", len(ana.LeafFields(dmt, ""))))
	}
	// length guards: decoder's success return lies behind len(b) >= baseLen (and >= the length function)
	return len(et.Rows)
}

// c14Timestamp: csptp.TimestampFromTime / TimeFromTimestamp pack 48-bit seconds with matching shifts.
func c14Timestamp(p *ana.Prog, r *ana.Result) {
	enc := mustFunc(p, r, "net/csptp", "TimestampFromTime")
	dec := mustFunc(p, r, "net/csptp", "TimeFromTimestamp")
	if enc == nil || dec == nil {
		return
	}
	if c18BitPacking(p, r, enc, dec) {
		return
	}
	// structural fallback
	// encoder: stores into the Seconds array elements: element i <- uint8(uint64(s) >> sh)
	encSh := map[int64]int64{}
	ana.Instrs(enc, func(in ssa.Instruction) {
		st, ok := in.(*ssa.Store)
		if !ok {
			return
		}
		ia, ok := st.Addr.(*ssa.IndexAddr)
		if !ok {
			return
		}
		i, ok := ana.ConstInt(ia.Index)
		if !ok {
			return
		}
		v := ana.StripConv(st.Val)
		sh := int64(0)
		if bo, ok := v.(*ssa.BinOp); ok && bo.Op == token.SHR {
			sh, _ = ana.ConstInt(bo.Y)
			v = ana.StripConv(bo.X)
		}
		if c, _ := ana.CallOf(v); c != nil && ana.CalleeName(c.Common()) == "(time.Time).Unix" {
			encSh[i] = sh
		}
	})
	decSh := map[int64]int64{}
	ana.Instrs(dec, func(in ssa.Instruction) {
		bo, ok := in.(*ssa.BinOp)
		if !ok || bo.Op != token.SHL {
			return
		}
		sh, ok := ana.ConstInt(bo.Y)
		if !ok {
			return
		}
		pth := ana.AccessPath(ana.StripConv(bo.X))
		if strings.HasPrefix(pth, "t.Seconds[") {
			var i int64
			fmt.Sscanf(pth, "t.Seconds[%d]", &i)
			decSh[i] = sh
		}
	})
	// element 5 has shift 0 (no SHL instruction)
	ana.Instrs(dec, func(in ssa.Instruction) {
		if u, ok := in.(*ssa.UnOp); ok && u.Op == token.MUL {
			if ana.AccessPath(u) == "t.Seconds[5]" {
				if _, has := decSh[5]; !has {
					decSh[5] = 0
				}
			}
		}
	})
	ok := len(encSh) == 6 && len(decSh) == 6
	for i := int64(0); i < 6; i++ {
		if encSh[i] != 40-8*i || decSh[i] != 40-8*i {
			ok = false
		}
	}
	if ok {
		r.Ok("C14.fixed", "net/csptp.TimestampFromTime/TimeFromTimestamp", "seconds-48bit", p.Pos(enc.Pos()), "Seconds[i] <-> bits 40-8i..47-8i of the Unix second count in both directions")
	} else {
		r.Violate("C14.fixed", "net/csptp.TimestampFromTime/TimeFromTimestamp", "seconds-48bit", p.Pos(enc.Pos()), fmt.Sprintf("48-bit seconds packing disagrees: encoder shifts %v, decoder shifts %v (expected 40,32,24,16,8,0)", encSh, decSh))
	}
	// range: on every path that returns, the packed second count lies in [0, 2^48-1]
	var unix ssa.Value
	nUnix := 0
	ana.Instrs(enc, func(in ssa.Instruction) {
		if c, ok := in.(*ssa.Call); ok && ana.CalleeName(c.Common()) == "(time.Time).Unix" {
			unix = c
			nUnix++
		}
	})
	paths, err := tvPaths(enc)
	if nUnix == 1 && err == nil && len(paths) > 0 {
		okAll := true
		worst := ""
		max48 := new(big.Int).Sub(new(big.Int).Lsh(big.NewInt(1), 48), big.NewInt(1))
		for _, pt := range paths {
			v, ok := pt.st.ivOf(unix, 0)
			if !ok || v.lo.Sign() < 0 || v.hi.Cmp(max48) > 0 {
				okAll = false
				worst = v.String()
			}
		}
		if okAll {
			r.Ok("C14.fixed", ana.FuncName(enc), "range-guards", p.Pos(enc.Pos()), fmt.Sprintf("on each of the %d returning paths the second count is within [0, 2^48-1] (values outside are rejected before packing)", len(paths)))
		} else {
			r.Violate("C14.fixed", ana.FuncName(enc), "range-guards", p.Pos(enc.Pos()), "TimestampFromTime can pack a second count in "+worst+", outside [0, 2^48-1] (silent truncation)")
		}
		return
	}
	// fallback (loops): the two range panics s < 0 and s > 2^48-1
	nPanic := 0
	ana.Instrs(enc, func(in ssa.Instruction) {
		if _, ok := in.(*ssa.Panic); ok {
			nPanic++
		}
	})
	lo, hi := false, false
	ana.IfEdges(enc, func(iff *ssa.If, b *ssa.BasicBlock) {
		c, pos, isCmp := ana.AsCmp(iff.Cond)
		if !isCmp || !pos {
			return
		}
		x, y, op := c.X, c.Y, c.Op
		if _, isK := x.(*ssa.Const); isK {
			x, y, op = y, x, ana.SwapOp(op)
		}
		k, okk := ana.ConstInt(y)
		if !okk {
			return
		}
		if (op == token.LSS && k == 0) || (op == token.LEQ && k == -1) {
			lo = true
		}
		if (op == token.GTR && k == 1<<48-1) || (op == token.GEQ && k == 1<<48) {
			hi = true
		}
	})
	if lo && hi && nPanic >= 2 {
		r.Ok("C14.fixed", ana.FuncName(enc), "range-guards", p.Pos(enc.Pos()), "values outside [0, 2^48-1] seconds are rejected before packing")
	} else {
		r.Violate("C14.fixed", ana.FuncName(enc), "range-guards", p.Pos(enc.Pos()), "TimestampFromTime does not reject second counts outside [0, 2^48-1] (silent truncation)")
	}
}

func c14LVM(p *ana.Prog, r *ana.Result) {
	type acc struct {
		get, set string
		shift    int64
		width    int64
	}
	accs := []acc{{"LeapIndicator", "SetLeapIndicator", 6, 2}, {"Version", "SetVersion", 3, 3}, {"Mode", "SetMode", 0, 3}}
	getters := map[string]*ssa.Function{}
	for _, a := range accs {
		g := mustFunc(p, r, "net/ntp", "(*Packet)."+a.get)
		if g == nil {
			return
		}
		getters[a.get] = g
		res := ana.RunTable(g, []ana.TableInput{{Path: "p.LVM", Values: ana.Range(0, 255)}})
		if res.Err != nil {
			r.Violate("C14.lvm", ana.FuncName(g), "undecided", p.Pos(g.Pos()), "UNDECIDED: "+res.Err.Error())
			continue
		}
		bad := 0
		for i := 0; i < res.N; i++ {
			b := res.Point(i)[0]
			if res.Returns[0][i] != (b>>a.shift)&(1<<a.width-1) {
				bad++
			}
		}
		if bad == 0 {
			r.Ok("C14.lvm", ana.FuncName(g), "getter-table", p.Pos(g.Pos()), fmt.Sprintf("%s() == bits %d..%d of the first byte for all 256 values", a.get, a.shift, a.shift+a.width-1))
		} else {
			r.Violate("C14.lvm", ana.FuncName(g), "getter-table", p.Pos(g.Pos()), fmt.Sprintf("%s() disagrees with bits %d..%d of the first byte on %d of 256 values", a.get, a.shift, a.shift+a.width-1, bad))
		}
	}
	for _, a := range accs {
		s := mustFunc(p, r, "net/ntp", "(*Packet)."+a.set)
		if s == nil {
			continue
		}
		argName := s.Params[1].Name()
		res := ana.RunTable(s, []ana.TableInput{{Path: "p.LVM", Values: ana.Range(0, 255)}, {Path: argName, Values: ana.Range(0, 255)}})
		if res.Err != nil {
			r.Violate("C14.lvm", ana.FuncName(s), "undecided", p.Pos(s.Pos()), "UNDECIDED: "+res.Err.Error())
			continue
		}
		bad, first := 0, ""
		mask := (int64(1)<<a.width - 1) << a.shift
		for i := 0; i < res.N; i++ {
			pt := res.Point(i)
			old, v := pt[0], pt[1]
			inRange := v < (1 << a.width)
			if !inRange {
				if !res.Panics[i] {
					bad++
					if first == "" {
						first = fmt.Sprintf("%s(%d) does not panic on an out-of-range argument", a.set, v)
					}
				}
				continue
			}
			nw := res.FinalFields["p.LVM"][i]
			if res.Panics[i] || (nw&mask)>>a.shift != v || nw&^mask != old&^mask || nw > 255 {
				bad++
				if first == "" {
					first = fmt.Sprintf("LVM=0x%02x %s(%d) -> 0x%02x", old, a.set, v, nw)
				}
			}
		}
		if bad == 0 {
			r.Ok("C14.lvm", ana.FuncName(s), "setter-table", p.Pos(s.Pos()), fmt.Sprintf("for all 256 bytes x all arguments: %s sets bits %d..%d to the argument, leaves the other bits, rejects out-of-range arguments", a.set, a.shift, a.shift+a.width-1))
		} else {
			r.Violate("C14.lvm", ana.FuncName(s), "setter-table", p.Pos(s.Pos()), fmt.Sprintf("%s violates Get(Set(x))==x / other-fields-unchanged on %d of 65536 cases; e.g. %s", a.set, bad, first))
		}
	}
}

// isExtHdrType: v is (a load of) the field Type of a value of type nts.extHdr, whatever it is rooted at
// (the method's own embedded header, a local header, a composite literal).
func isExtHdrType(v ssa.Value) bool {
	if u, ok := v.(*ssa.UnOp); ok && u.Op == token.MUL {
		v = u.X
	}
	switch x := v.(type) {
	case *ssa.FieldAddr:
		return typeNameOf(x.X.Type()) == "extHdr" && fieldNameOf(x.X.Type(), x.Field) == "Type"
	case *ssa.Field:
		return typeNameOf(x.X.Type()) == "extHdr" && fieldNameOf(x.X.Type(), x.Field) == "Type"
	}
	return false
}

// packTypeConst: the constant stored into extHdr.Type by a pack method.
func packTypeConst(fn *ssa.Function) (int64, bool) {
	var k int64
	n := 0
	ana.Instrs(fn, func(in ssa.Instruction) {
		if st, ok := in.(*ssa.Store); ok {
			if isExtHdrType(st.Addr) {
				if v, ok := ana.ConstInt(st.Val); ok {
					k = v
					n++
				}
			}
		}
	})
	return k, n == 1
}

// unpackTypeConst: the constant the unpack method compares extHdr.Type with.
func unpackTypeConst(fn *ssa.Function) (int64, bool) {
	var k int64
	n := 0
	ana.IfEdges(fn, func(iff *ssa.If, b *ssa.BasicBlock) {
		c, _, isCmp := ana.AsCmp(iff.Cond)
		if !isCmp || (c.Op != token.EQL && c.Op != token.NEQ) {
			return
		}
		if isExtHdrType(c.X) {
			if v, ok := ana.ConstInt(c.Y); ok {
				k = v
				n++
			}
		}
	})
	return k, n == 1
}

func c14Tags(p *ana.Prog, r *ana.Result) {
	kinds := []string{"UniqueIdentifier", "Cookie", "CookiePlaceholder", "Authenticator"}
	consts := map[string]int64{}
	for _, k := range kinds {
		pk := mustFunc(p, r, "net/nts", "("+k+").pack")
		up := mustFunc(p, r, "net/nts", "(*"+k+").unpack")
		if pk == nil || up == nil {
			continue
		}
		pc, ok1 := packTypeConst(pk)
		uc, ok2 := unpackTypeConst(up)
		if !ok1 || !ok2 {
			r.Violate("C14.tags", "net/nts."+k, "type-constant-form", p.Pos(pk.Pos()), "UNDECIDED: pack/unpack of "+k+" do not store/test exactly one extension type constant")
			continue
		}
		if pc == uc {
			consts[k] = pc
			r.Ok("C14.tags", "net/nts."+k, "pack-unpack-type-agree", p.Pos(pk.Pos()), fmt.Sprintf("%s.pack writes type 0x%x and %s.unpack accepts exactly 0x%x", k, pc, k, uc))
		} else {
			consts[k] = uc
			r.Violate("C14.tags", "net/nts."+k, "pack-unpack-type-agree", p.Pos(pk.Pos()), fmt.Sprintf("%s.pack writes extension type 0x%x but %s.unpack only accepts 0x%x: an encoded %s does not decode as the kind that was encoded", k, pc, k, uc, k))
		}
		// padding to 4
		padOK := false
		ana.Instrs(pk, func(in ssa.Instruction) {
			bo, ok := in.(*ssa.BinOp)
			if !ok {
				return
			}
			switch bo.Op {
			case token.AND_NOT:
				if kk, _ := ana.ConstInt(bo.Y); kk == 3 {
					if add, ok := bo.X.(*ssa.BinOp); ok && add.Op == token.ADD {
						if k3, _ := ana.ConstInt(add.Y); k3 == 3 {
							padOK = true
						}
					}
				}
			case token.AND:
				if kk, _ := ana.ConstInt(bo.Y); kk == -4 {
					if add, ok := bo.X.(*ssa.BinOp); ok && add.Op == token.ADD {
						if k3, _ := ana.ConstInt(add.Y); k3 == 3 {
							padOK = true
						}
					}
				}
			case token.REM:
				if kk, _ := ana.ConstInt(bo.Y); kk == 4 {
					if neg, ok := bo.X.(*ssa.UnOp); ok && neg.Op == token.SUB {
						padOK = true
					}
				}
			}
		})
		if padOK {
			r.Ok("C14.tags", "net/nts."+k, "pad-to-4", p.Pos(pk.Pos()), "pack rounds the body up to a multiple of four ((n+3)&^3 or (-n)%4)")
		} else {
			r.Violate("C14.tags", "net/nts."+k, "pad-to-4", p.Pos(pk.Pos()), "pack does not pad the field to a multiple of four bytes")
		}
	}
	// pairwise distinct
	seen := map[int64]string{}
	distinct := true
	for _, k := range kinds {
		if o, dup := seen[consts[k]]; dup {
			distinct = false
			r.Violate("C14.tags", "net/nts", "distinct-types:"+k, "-", fmt.Sprintf("%s and %s use the same extension type 0x%x", k, o, consts[k]))
		}
		seen[consts[k]] = k
	}
	if distinct && len(consts) == 4 {
		r.Ok("C14.tags", "net/nts", "distinct-types", "-", "the four extension type constants are pairwise distinct")
	}
	// DecodePacket dispatch: the block reached for type constant K calls the unpack of kind(K)
	dp := mustFunc(p, r, "net/nts", "DecodePacket")
	if dp == nil {
		return
	}
	ana.IfEdges(dp, func(iff *ssa.If, b *ssa.BasicBlock) {
		c, pos, isCmp := ana.AsCmp(iff.Cond)
		if !isCmp || c.Op != token.EQL || !pos {
			return
		}
		ch, _ := fieldChain(c.X)
		kv, ok := ana.ConstInt(c.Y)
		if !strings.HasSuffix(ch, "Type") || !ok {
			return
		}
		kind, known := seen[kv]
		if !known {
			return
		}
		// first unpack call in the true successor
		succ := b.Succs[0]
		callee := ""
		for _, in := range succ.Instrs {
			if cc, ok := in.(*ssa.Call); ok && strings.HasSuffix(ana.CalleeName(&cc.Call), ".unpack") {
				callee = ana.CalleeName(&cc.Call)
				break
			}
		}
		want := ana.Q("(*net/nts." + kind + ").unpack")
		if callee == want {
			r.Ok("C14.tags", ana.FuncName(dp), "dispatch:"+kind, p.Pos(iff.Cond.Pos()), fmt.Sprintf("type 0x%x is decoded by %s.unpack", kv, kind))
		} else {
			r.Violate("C14.tags", ana.FuncName(dp), "dispatch:"+kind, p.Pos(iff.Cond.Pos()), fmt.Sprintf("type 0x%x (%s) is dispatched to %s", kv, kind, ana.Short(callee)))
		}
	})
}

// putUint16Consts collects constants written by binary.BigEndian.PutUint16(b[...], const).
func putUint16Consts(fn *ssa.Function) map[int64]bool {
	out := map[int64]bool{}
	for _, c := range ana.CallsIn(fn, "(encoding/binary.bigEndian).PutUint16") {
		if k, ok := ana.ConstInt(c.Common().Args[2]); ok {
			out[k] = true
		}
	}
	return out
}

// cmpConstsOfUint16 collects constants compared with a value read by Uint16.
func cmpConstsOfUint16(fn *ssa.Function) map[int64]bool {
	out := map[int64]bool{}
	ana.IfEdges(fn, func(iff *ssa.If, b *ssa.BasicBlock) {
		c, _, isCmp := ana.AsCmp(iff.Cond)
		if !isCmp || c.Op != token.EQL {
			return
		}
		call, _ := ana.CallOf(c.X)
		if call == nil || ana.CalleeName(call.Common()) != "(encoding/binary.bigEndian).Uint16" {
			return
		}
		if k, ok := ana.ConstInt(c.Y); ok {
			out[k] = true
		}
	})
	return out
}

// c14CookieTiling: the cookie encoders write a sequence of (type, length, value) fields that tile
// the allocated buffer: every field starts where the previous one ends, its length field is the
// length of the value written after it, and the last field ends at the end of the buffer. Offsets
// and lengths are compared as linear forms over the lengths of the cookie's fields.
func c14CookieTiling(p *ana.Prog, r *ana.Result, enc *ssa.Function, pset *ana.ProverSet) {
	fname := ana.FuncName(enc)
	pr := pset.For(enc)
	type wr struct {
		off   ana.ILin
		n     ana.ILin // bytes written
		val   ssa.Value
		isU16 bool
		in    ssa.Instruction
	}
	var buf ssa.Value
	var total ana.ILin
	var ws []wr
	undecided := ""
	ana.Instrs(enc, func(in ssa.Instruction) {
		if mk, ok := in.(*ssa.MakeSlice); ok && buf == nil {
			if l, ok := pr.Int(mk.Len, 0); ok {
				buf, total = mk, l
			}
		}
		c, ok := in.(*ssa.Call)
		if !ok {
			return
		}
		name := ana.CalleeName(&c.Call)
		var dst ssa.Value
		w := wr{in: in}
		switch {
		case strings.HasSuffix(name, "bigEndian).PutUint16"):
			dst, w.val, w.isU16 = c.Call.Args[1], c.Call.Args[2], true
			w.n = ana.ILin{Coef: map[string]int64{}, C: 2}
		case name == "builtin.copy":
			dst, w.val = c.Call.Args[0], c.Call.Args[1]
			l, ok := pr.Len(c.Call.Args[1], 0)
			if !ok {
				undecided = "length of a copied value is not a linear form"
				return
			}
			w.n = l
		default:
			return
		}
		sl, ok := dst.(*ssa.Slice)
		if !ok || sl.X != buf || sl.High != nil {
			undecided = "a write does not go to b[off:] of the allocated buffer"
			return
		}
		if sl.Low == nil {
			w.off = ana.ILin{Coef: map[string]int64{}}
		} else if o, ok := pr.Int(sl.Low, 0); ok {
			w.off = o
		} else {
			undecided = "a write offset is not a linear form"
			return
		}
		ws = append(ws, w)
	})
	if buf == nil || undecided != "" || len(ws) == 0 || len(ws)%3 != 0 {
		if undecided == "" {
			undecided = fmt.Sprintf("%d writes into the buffer (expected a multiple of three: type, length, value)", len(ws))
		}
		r.Violate("C14.tags", fname, "cookie-fields-tile-buffer", p.Pos(enc.Pos()), "UNDECIDED: "+undecided)
		return
	}
	// order by offset is the program order on the pinned tree; do not rely on it: sort by the constant
	// part after checking that consecutive differences are as required
	pos := ana.ILin{Coef: map[string]int64{}}
	used := make([]bool, len(ws))
	find := func(off ana.ILin, u16 bool) int {
		for i, w := range ws {
			if !used[i] && w.isU16 == u16 && w.off.String() == off.String() {
				return i
			}
		}
		return -1
	}
	for k := 0; k < len(ws)/3; k++ {
		ti := find(pos, true)
		li := find(pos.Add(ana.ILin{Coef: map[string]int64{}, C: 2}, 1), true)
		if ti < 0 || li < 0 {
			r.Violate("C14.tags", fname, "cookie-fields-tile-buffer", p.Pos(enc.Pos()), fmt.Sprintf("field %d of the cookie does not start where the previous field ends (expected a type at offset %s and a length at %s+2): Decode(Encode(c)) fails or returns other values when the field lengths differ", k+1, pos.String(), pos.String()))
			return
		}
		used[ti], used[li] = true, true
		if _, isK := ana.ConstInt(ws[ti].val); !isK {
			r.Violate("C14.tags", fname, "cookie-fields-tile-buffer", posOf(p, ws[ti].in), "the field type written is not a constant tag")
			return
		}
		voff := pos.Add(ana.ILin{Coef: map[string]int64{}, C: 4}, 1)
		// value: a copy of n bytes, or a 16-bit value
		vi := -1
		for i, w := range ws {
			if !used[i] && w.off.String() == voff.String() {
				vi = i
			}
		}
		if vi < 0 {
			r.Violate("C14.tags", fname, "cookie-fields-tile-buffer", p.Pos(enc.Pos()), fmt.Sprintf("no value is written at offset %s for field %d", voff.String(), k+1))
			return
		}
		used[vi] = true
		// declared length == bytes written
		decl, ok := pr.Int(ana.StripConv(ws[li].val), 0)
		if !ok || decl.String() != ws[vi].n.String() {
			r.Violate("C14.tags", fname, "cookie-fields-tile-buffer", posOf(p, ws[li].in), fmt.Sprintf("the length field of field %d (%s) is not the number of bytes written as its value (%s)", k+1, decl.String(), ws[vi].n.String()))
			return
		}
		pos = voff.Add(ws[vi].n, 1)
	}
	if pos.String() != total.String() {
		r.Violate("C14.tags", fname, "cookie-fields-tile-buffer", p.Pos(enc.Pos()), fmt.Sprintf("the fields end at %s but the buffer has %s bytes", pos.String(), total.String()))
		return
	}
	r.Ok("C14.tags", fname, "cookie-fields-tile-buffer", p.Pos(enc.Pos()), fmt.Sprintf("%d (type, length, value) fields tile the %s-byte buffer: each starts where the previous ends and declares the length of the value written", len(ws)/3, total.String()))
}

func c14CookieTags(p *ana.Prog, r *ana.Result) {
	pset := ana.NewProverSet(p.AllFuncs)
	for _, typ := range []string{"ServerCookie", "EncryptedServerCookie"} {
		enc := mustFunc(p, r, "net/ntske", "(*"+typ+").Encode")
		dec := mustFunc(p, r, "net/ntske", "(*"+typ+").Decode")
		if enc == nil || dec == nil {
			continue
		}
		c14CookieTiling(p, r, enc, pset)
		w := putUint16Consts(enc)
		delete(w, 2) // the constant length 0x2 of the 16-bit value field
		rd := cmpConstsOfUint16(dec)
		same := len(w) == len(rd) && len(w) == 3
		for k := range w {
			if !rd[k] {
				same = false
			}
		}
		if same {
			r.Ok("C14.tags", "net/ntske."+typ, "cookie-tlv-tags", p.Pos(enc.Pos()), fmt.Sprintf("Encode writes the three TLV tags %v and Decode recognises exactly those", keysI64(w)))
		} else {
			r.Violate("C14.tags", "net/ntske."+typ, "cookie-tlv-tags", p.Pos(enc.Pos()), fmt.Sprintf("Encode writes TLV tags %v but Decode recognises %v", keysI64(w), keysI64(rd)))
		}
	}
}

func keysI64(m map[int64]bool) []string {
	var ks []int64
	for k := range m {
		ks = append(ks, k)
	}
	sort.Slice(ks, func(i, j int) bool { return ks[i] < ks[j] })
	var out []string
	for _, k := range ks {
		out = append(out, fmt.Sprintf("0x%x", k))
	}
	return out
}

func c14NTSKE(p *ana.Prog, r *ana.Result) {
	rdFn := mustFunc(p, r, "net/ntske", "ReadData")
	if rdFn == nil {
		return
	}
	fname := ana.FuncName(rdFn)
	// record types written by pack methods
	written := map[int64]string{}
	for _, fn := range p.AllFuncs {
		if fn.Pkg != p.SSAPkg("net/ntske") || fn.Name() != "pack" {
			continue
		}
		ana.Instrs(fn, func(in ssa.Instruction) {
			switch x := in.(type) {
			case *ssa.Call:
				n := ana.CalleeName(&x.Call)
				if n == ana.Q("net/ntske.packsimple") || n == ana.Q("net/ntske.packheader") {
					if k, ok := ana.ConstInt(x.Call.Args[0]); ok {
						written[k] = ana.FuncName(fn)
					}
				}
			case *ssa.Store:
				if ch, _ := fieldChain(x.Addr); ch == "RecordHdr.Type" {
					if k, ok := ana.ConstInt(x.Val); ok {
						written[k] = ana.FuncName(fn)
					}
				}
			}
		})
	}
	// arms of ReadData: comparisons msg.Type == K
	arms := map[int64]*ssa.BasicBlock{}
	ana.IfEdges(rdFn, func(iff *ssa.If, b *ssa.BasicBlock) {
		c, pos, isCmp := ana.AsCmp(iff.Cond)
		if !isCmp || c.Op != token.EQL || !pos {
			return
		}
		if !isRecordHdrField(c.X, "Type") {
			return
		}
		if k, ok := ana.ConstInt(c.Y); ok {
			arms[k] = b.Succs[0]
		}
	})
	for k, who := range written {
		if k == 3 {
			// named exception: RFC 8915 defines no warning codes; a Warning record
			// (always critical) is handled by the default arm as an unrecognised
			// critical record, i.e. the exchange fails - nothing of Data is lost.
			r.Ok("C14.tags", fname, "record-arm:3(warning)", p.Pos(rdFn.Pos()), "Warning records carry no negotiated data; handled as unrecognised critical record (exchange fails)")
			continue
		}
		if _, ok := arms[k]; ok {
			r.Ok("C14.tags", fname, fmt.Sprintf("record-arm:%d", k), p.Pos(rdFn.Pos()), fmt.Sprintf("record type %d written by %s has a reader arm", k, who))
		} else {
			r.Violate("C14.tags", fname, fmt.Sprintf("record-arm:%d", k), p.Pos(rdFn.Pos()), fmt.Sprintf("record type %d written by %s has no arm in ReadData", k, who))
		}
	}
	r.Floor("C14.tags.record-types", len(written), 8)
	// only the end-of-message arm returns nil
	rets := ana.ClassifyReturns(rdFn)
	nSucc := 0
	for _, ri := range rets {
		if ri.Class == "failure" {
			continue
		}
		nSucc++
		eom := arms[0]
		if ri.Class == "success" && eom != nil && (ri.Ret.Block() == eom || eom.Dominates(ri.Ret.Block())) {
			r.Ok("C14.tags", fname, "nil-return-only-at-EOM", posOf(p, ri.Ret), "the only return that can carry a nil error is in the end-of-message arm")
		} else {
			r.Violate("C14.tags", fname, "nil-return-outside-EOM", posOf(p, ri.Ret), "ReadData can return without error outside the end-of-message arm (class "+ri.Class+")")
		}
	}
	if nSucc == 0 {
		r.Violate("C14.tags", fname, "no-success-return", p.Pos(rdFn.Pos()), "ReadData has no success return")
	}
	c14FullRead(p, r)
}

// c14FullRead: inside package ntske the byte stream is consumed only by
// binary.Read / io.ReadFull; a bare Read whose count may be short is reported.
func c14FullRead(p *ana.Prog, r *ana.Result) {
	nReads := 0
	for _, fn := range p.AllFuncs {
		if fn.Pkg != p.SSAPkg("net/ntske") {
			continue
		}
		ana.Instrs(fn, func(in ssa.Instruction) {
			c, ok := in.(ssa.CallInstruction)
			if !ok {
				return
			}
			n := ana.CalleeName(c.Common())
			switch n {
			case "encoding/binary.Read", "io.ReadFull", "io.ReadAtLeast":
				nReads++
				r.Ok("C14.fullread", ana.FuncName(fn), "full-read:"+n, posOf(p, in), n+" consumes exactly the requested bytes or fails")
			case "(*bufio.Reader).Discard":
				// Discard(n) skips exactly n bytes or returns an error: a full read when the error is looked at
				if cc, isCall := in.(*ssa.Call); isCall && errResultUsed(cc, 1) {
					nReads++
					r.Ok("C14.fullread", ana.FuncName(fn), "full-read:"+n, posOf(p, in), "Discard skips exactly the requested bytes or fails, and its error is checked")
					return
				}
				nReads++
				r.Violate("C14.fullread", ana.FuncName(fn), "bare-read", posOf(p, in), "the record stream is consumed with a (*bufio.Reader).Discard whose error is not checked: a short read (transport segmentation) desynchronises the record parser")
			case "(*bufio.Reader).Read", "(io.Reader).Read", "(*crypto/tls.Conn).Read", "(github.com/quic-go/quic-go.Stream).Read", "(github.com/quic-go/quic-go.ReceiveStream).Read", "(*bufio.Reader).ReadByte", "(*bufio.Reader).Peek":
				nReads++
				desc := "bare-read"
				if len(c.Common().Args) > 1 {
					if pth := ana.AccessPath(c.Common().Args[1]); pth != "" {
						desc += ":" + pth
					}
				}
				r.Violate("C14.fullread", ana.FuncName(fn), desc, posOf(p, in), "the record stream is consumed with a single "+ana.Short(n)+" whose byte count is not checked: a short read (transport segmentation) desynchronises the record parser")
			}
		})
	}
	r.Floor("C14.fullread.sites", nReads, 3)
}

// errResultUsed: result #idx (an error) of the call is compared with nil or returned.
func errResultUsed(c *ssa.Call, idx int) bool {
	ex := extractOf(c, idx)
	if ex == nil {
		return false
	}
	for _, ref := range ana.Referrers(ex) {
		switch y := ref.(type) {
		case *ssa.BinOp:
			if ana.IsNilConst(y.X) || ana.IsNilConst(y.Y) {
				return true
			}
		case *ssa.Return, *ssa.Phi, *ssa.Store:
			return true
		}
	}
	return false
}
