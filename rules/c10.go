package rules

import (
	"fmt"
	"go/token"
	"strings"

	"golang.org/x/tools/go/ssa"

	"verif/internal/ana"
)

func init() { All["C10"] = checkC10 }

const (
	fnNewAEAD = "github.com/miscreant/miscreant.go.NewAEAD"
	fnSeal    = "(crypto/cipher.AEAD).Seal"
	fnOpen    = "(crypto/cipher.AEAD).Open"
)

func checkC10(p *ana.Prog, r *ana.Result) {
	r.Explain("C10 (structural necessary conditions): associated-data coverage - Authenticator.pack seals over buf[:pos] with pos the very position its own header is then written at, DecodePacket records Auth.pos = the cursor at the authenticator's header and stops parsing at the authenticator (no field after it can change the packet), authenticate opens with b[:Auth.pos] and the packet's own nonce/ciphertext; key-direction table - requests are sealed under C2S and verified under the cookie's C2S, responses sealed under the cookie's S2C and verified under S2C, the exporter contexts end in 0x00 (C2S) / 0x01 (S2C) and are fresh constant arrays, the key-exchange server seals C2S<-C2sKey, S2C<-S2cKey; gate - in both listeners the cookie's keys, new cookies and the response packet are produced only after ProcessRequest == nil, on the cookie decrypted in this iteration under the key looked up by the cookie's id; ProcessRequest/ProcessResponse succeed only through authenticate == nil, ProcessResponse in addition only through bytes.Equal(request id, response id), and cookies are stored only behind both (rule shared with C05); seal/open agreement - all four AEAD constructions use the same algorithm literal and nonce size, cookies are sealed and opened with nil associated data, Decrypt returns a cookie only through Open == nil and Decode == nil.")
	r.Undecided("AEAD security itself, that any bit flip is rejected (follows from AEAD given the coverage clause), completeness for every encoder output (value property)")
	c10Coverage(p, r)
	c10Keys(p, r)
	c10Listeners(p, r)
	c10AEAD(p, r)
	c20Export(p, r)
	c05NTS(p, r) // the client's side: unique identifier and authenticate()==nil before success / StoreCookie
	// re-label the shared exporter and response obligations
	for _, o := range r.Obls {
		if o.Rule == "C05.nts" {
			o.Rule = "C10.response"
			o.Key = strings.Replace(o.Key, "C05.nts", "C10.response", 1)
		}
		if o.Rule == "C20.export" {
			o.Rule = "C10.export"
			o.Key = strings.Replace(o.Key, "C20.export", "C10.export", 1)
		}
	}
	delete(r.Floors, "C20.export.sites")
}

func c10Coverage(p *ana.Prog, r *ana.Result) {
	pack := mustFunc(p, r, "net/nts", "(Authenticator).pack")
	dec := mustFunc(p, r, "net/nts", "DecodePacket")
	auth := mustFunc(p, r, "net/nts", "(*Packet).authenticate")
	if pack == nil || dec == nil || auth == nil {
		return
	}
	// pack: Seal(nil, a.Nonce, a.PlainText, buf[:pos]) and header packed at pos
	seals := ana.CallsIn(pack, fnSeal)
	hdr := ana.CallsIn(pack, ana.Q("(net/nts.extHdr).pack"))
	okSeal := false
	var posParam *ssa.Parameter
	for _, pr := range pack.Params {
		if pr.Name() == "pos" {
			posParam = pr
		}
	}
	if len(seals) == 1 && len(hdr) == 1 && posParam != nil {
		a := seals[0].Common().Args
		sl, isSl := a[3].(*ssa.Slice)
		if isSl && sl.Low == nil && sl.High == ssa.Value(posParam) && ana.AccessPath(sl.X) == "buf" &&
			hdr[0].Common().Args[2] == ssa.Value(posParam) && ana.AccessPath(hdr[0].Common().Args[1]) == "buf" &&
			ana.IsNilConst(a[0]) {
			// header written after sealing: seal dominates the header pack
			if seals[0].Block().Dominates(hdr[0].Block()) {
				okSeal = true
			}
		}
	}
	if okSeal {
		r.Ok("C10.coverage", ana.FuncName(pack), "seal-over-all-preceding-bytes", posOf(p, seals[0]), "associated data is buf[:pos]; the authenticator's own header is then written at pos")
	} else {
		r.Violate("C10.coverage", ana.FuncName(pack), "seal-over-all-preceding-bytes", p.Pos(pack.Pos()), "the authenticator is not sealed over exactly the bytes buf[:pos] that precede its header")
	}
	// plaintext / nonce: Seal(nil, nonce = the fresh random bits, a.PlainText)
	if len(seals) == 1 {
		a := seals[0].Common().Args
		if strings.HasSuffix(ana.AccessPath(a[2]), "a.PlainText") {
			r.Ok("C10.coverage", ana.FuncName(pack), "seal-plaintext", posOf(p, seals[0]), "the sealed plaintext is a.PlainText (the encrypted extension fields)")
		} else {
			r.Violate("C10.coverage", ana.FuncName(pack), "seal-plaintext", posOf(p, seals[0]), "the sealed plaintext is not a.PlainText")
		}
	}
	// DecodePacket: Auth.pos = cursor at header
	dname := ana.FuncName(dec)
	unp := ana.CallsIn(dec, ana.Q("(*net/nts.extHdr).unpack"))
	var posStore *ssa.Store
	ana.Instrs(dec, func(in ssa.Instruction) {
		if st, ok := in.(*ssa.Store); ok {
			if ch, _ := fieldChain(st.Addr); ch == "pos" {
				posStore = st
			}
		}
	})
	if len(unp) != 1 || posStore == nil {
		r.Violate("C10.coverage", dname, "auth-pos-recorded", p.Pos(dec.Pos()), "UNDECIDED: header unpack call or Auth.pos store not found")
	} else {
		hdrPos := unp[0].Common().Args[2]
		// stored value: (hdrPos + 4) - 4
		ok := false
		if sub, isB := posStore.Val.(*ssa.BinOp); isB && sub.Op == token.SUB {
			k, _ := ana.ConstInt(sub.Y)
			if add, isA := sub.X.(*ssa.BinOp); isA && add.Op == token.ADD && add.X == hdrPos {
				k2, _ := ana.ConstInt(add.Y)
				ok = k == k2
			}
		}
		if posStore.Val == hdrPos {
			ok = true
		}
		if ok {
			r.Ok("C10.coverage", dname, "auth-pos-recorded", posOf(p, posStore), "Auth.pos <- position of the authenticator's extension header (cursor + 4 - 4)")
		} else {
			r.Violate("C10.coverage", dname, "auth-pos-recorded", posOf(p, posStore), "the position recorded for the authenticator is not the start of its extension header (authentication would cover more or fewer bytes than were sealed)")
		}
		// parsing stops at the authenticator
		var authArmStore ssa.Instruction
		ana.Instrs(dec, func(in ssa.Instruction) {
			if st, ok := in.(*ssa.Store); ok && ana.AccessPath(st.Addr) == "pkt.Auth" {
				authArmStore = st
			}
		})
		if authArmStore == nil {
			r.Violate("C10.coverage", dname, "stop-at-authenticator", p.Pos(dec.Pos()), "UNDECIDED: store of the decoded authenticator into pkt.Auth not found")
		} else {
			s := &ana.Search{Fn: dec, Target: func(in ssa.Instruction) bool { return in == unp[0].(ssa.Instruction) }}
			if found, w := s.Run(authArmStore); found {
				r.Violate("C10.coverage", dname, "stop-at-authenticator", posOf(p, authArmStore), "extension fields after the authenticator are parsed and can overwrite the unique identifier or add cookies although they are not covered by the AEAD", w...)
			} else {
				r.Ok("C10.coverage", dname, "stop-at-authenticator", posOf(p, authArmStore), "after the authenticator has been decoded no further extension header is read")
			}
		}
	}
	// authenticate: Open(nil, pkt.Auth.Nonce, pkt.Auth.CipherText, b[:pkt.Auth.pos])
	opens := ana.CallsIn(auth, fnOpen)
	if len(opens) != 1 {
		r.Violate("C10.coverage", ana.FuncName(auth), "open-call", p.Pos(auth.Pos()), fmt.Sprintf("expected one AEAD Open call, found %d", len(opens)))
	} else {
		a := opens[0].Common().Args
		sl, isSl := a[3].(*ssa.Slice)
		ok := isSl && sl.Low == nil && ana.AccessPath(sl.X) == "b" && ana.AccessPath(sl.High) == "pkt.Auth.pos" &&
			ana.AccessPath(a[1]) == "pkt.Auth.Nonce" && ana.AccessPath(a[2]) == "pkt.Auth.CipherText"
		if ok {
			r.Ok("C10.coverage", ana.FuncName(auth), "open-over-recorded-prefix", posOf(p, opens[0]), "Open(nonce = pkt.Auth.Nonce, ciphertext = pkt.Auth.CipherText, ad = b[:pkt.Auth.pos])")
		} else {
			r.Violate("C10.coverage", ana.FuncName(auth), "open-over-recorded-prefix", posOf(p, opens[0]), "authenticate does not open the packet's own nonce/ciphertext over exactly b[:Auth.pos]")
		}
		// success only through Open == nil and NewAEAD == nil
		rets := ana.ClassifyReturns(auth)
		checkGates(p, r, "C10.coverage", auth, nil, isSuccessTarget(rets), nil, "success-return", []gateSpec{
			{name: "Open==nil", gate: ana.ErrNilGate(p, auth, fnOpen)},
			{name: "NewAEAD==nil", gate: ana.ErrNilGate(p, auth, fnNewAEAD)},
		})
		// key argument flows into NewAEAD
		na := ana.CallsIn(auth, fnNewAEAD)
		if len(na) == 1 && ana.AccessPath(na[0].Common().Args[1]) == "key" {
			r.Ok("C10.keys", ana.FuncName(auth), "key-param-used", posOf(p, na[0]), "the AEAD is keyed with the caller's key argument")
		} else {
			r.Violate("C10.keys", ana.FuncName(auth), "key-param-used", p.Pos(auth.Pos()), "authenticate does not key the AEAD with its key argument")
		}
	}
	// ProcessRequest: nil only through authenticate == nil with (b, key) passed through
	pr := mustFunc(p, r, "net/nts", "ProcessRequest")
	if pr != nil {
		rets := ana.ClassifyReturns(pr)
		checkGates(p, r, "C10.coverage", pr, nil, isSuccessTarget(rets), nil, "success-return", []gateSpec{
			{name: "authenticate==nil", gate: ana.ErrNilGate(p, pr, ana.Q("(*net/nts.Packet).authenticate"))},
		})
		for _, c := range ana.CallsIn(pr, ana.Q("(*net/nts.Packet).authenticate")) {
			a := c.Common().Args
			if ana.AccessPath(a[0]) == "pkt" && ana.AccessPath(a[1]) == "b" && ana.AccessPath(a[2]) == "key" {
				r.Ok("C10.coverage", ana.FuncName(pr), "authenticate-args", posOf(p, c), "authenticate(pkt, b, key)")
			} else {
				r.Violate("C10.coverage", ana.FuncName(pr), "authenticate-args", posOf(p, c), "ProcessRequest does not authenticate its own packet/buffer/key")
			}
		}
	}
}

func c10Keys(p *ana.Prog, r *ana.Result) {
	// NewRequestPacket: auth.Key <- ntskeData.C2sKey
	nr := mustFunc(p, r, "net/nts", "NewRequestPacket")
	if nr != nil {
		ok := false
		ana.Instrs(nr, func(in ssa.Instruction) {
			if st, isSt := in.(*ssa.Store); isSt {
				if ch, _ := fieldChain(st.Addr); (ch == "Key" || ch == "Auth.Key") && strings.HasSuffix(ana.AccessPath(st.Val), "ntskeData.C2sKey") {
					ok = true
				}
			}
		})
		if ok {
			r.Ok("C10.keys", ana.FuncName(nr), "request-key=C2S", p.Pos(nr.Pos()), "requests are sealed under ntskeData.C2sKey")
		} else {
			r.Violate("C10.keys", ana.FuncName(nr), "request-key=C2S", p.Pos(nr.Pos()), "the request authenticator is not keyed with the client-to-server key")
		}
	}
	// NewResponsePacket: auth.Key <- key param
	np := mustFunc(p, r, "net/nts", "NewResponsePacket")
	if np != nil {
		ok := false
		ana.Instrs(np, func(in ssa.Instruction) {
			if st, isSt := in.(*ssa.Store); isSt {
				if ch, _ := fieldChain(st.Addr); ch == "Key" && ana.AccessPath(st.Val) == "key" {
					ok = true
				}
			}
		})
		if ok {
			r.Ok("C10.keys", ana.FuncName(np), "response-key-param", p.Pos(np.Pos()), "the response authenticator is keyed with NewResponsePacket's key argument")
		} else {
			r.Violate("C10.keys", ana.FuncName(np), "response-key-param", p.Pos(np.Pos()), "the response authenticator is not keyed with the key argument")
		}
	}
	// pack: NewAEAD(.., a.Key, ..)
	pk := mustFunc(p, r, "net/nts", "(Authenticator).pack")
	if pk != nil {
		na := ana.CallsIn(pk, fnNewAEAD)
		if len(na) == 1 && strings.HasSuffix(ana.AccessPath(na[0].Common().Args[1]), "a.Key") {
			r.Ok("C10.keys", ana.FuncName(pk), "pack-key", posOf(p, na[0]), "the authenticator is sealed under a.Key")
		} else {
			r.Violate("C10.keys", ana.FuncName(pk), "pack-key", p.Pos(pk.Pos()), "the authenticator is not sealed under a.Key")
		}
	}
	// clients: ProcessResponse key <- ntskeData.S2cKey (also C05.nts)
	for _, name := range []string{"(*IPClient).measureClockOffsetIP", "(*SCIONClient).measureClockOffsetSCION"} {
		fn := mustFunc(p, r, "core/client", name)
		if fn == nil {
			continue
		}
		for _, c := range ana.CallsIn(fn, ana.Q("net/nts.ProcessResponse")) {
			if ana.AccessPath(c.Common().Args[1]) == "ntskeData.S2cKey" {
				r.Ok("C10.keys", ana.FuncName(fn), "response-verified-under-S2C", posOf(p, c), "responses are verified under ntskeData.S2cKey")
			} else {
				r.Violate("C10.keys", ana.FuncName(fn), "response-verified-under-S2C", posOf(p, c), "responses are not verified under the server-to-client key")
			}
		}
	}
}

func c10Listeners(p *ana.Prog, r *ana.Result) {
	for _, name := range []string{"runIPServer", "runSCIONServer"} {
		fn := mustFunc(p, r, "core/server", name)
		if fn == nil {
			continue
		}
		fname := ana.FuncName(fn)
		rd := readSite(r, fn)
		if rd == nil {
			continue
		}
		isRead := func(in ssa.Instruction) bool { return in == ssa.Instruction(rd) }
		prs := ana.CallsIn(fn, ana.Q("net/nts.ProcessRequest"))
		decs := ana.CallsIn(fn, ana.Q("(*net/ntske.EncryptedServerCookie).Decrypt"))
		gets := ana.CallsIn(fn, ana.Q("(*net/ntske.Provider).Get"))
		if len(prs) != 1 || len(decs) != 1 || len(gets) != 1 {
			r.Violate("C10.gate", fname, "call-sites", p.Pos(fn.Pos()), fmt.Sprintf("expected one ProcessRequest/Decrypt/provider.Get, found %d/%d/%d", len(prs), len(decs), len(gets)))
			continue
		}
		gate := ana.ErrNilGate(p, fn, ana.Q("net/nts.ProcessRequest"))
		// serverCookie alloc: destination of Decrypt result #0
		// (a local variable or a field of one, named by its access path)
		cookiePath := ""
		if e := extractOf(decs[0].(*ssa.Call), 0); e != nil {
			for _, ref := range ana.Referrers(e) {
				if st, ok := ref.(*ssa.Store); ok {
					if _, isLocal := rootAlloc(st.Addr).(*ssa.Alloc); isLocal {
						cookiePath = strings.TrimPrefix(ana.AccessPath(st.Addr), "&")
					}
				}
			}
		}
		if cookiePath == "" {
			r.Violate("C10.gate", fname, "cookie-variable", posOf(p, decs[0]), "UNDECIDED: decrypted cookie is not stored in a local variable")
			continue
		}
		// the decrypted cookie may be copied into further locals (v2 = v1); a local counts when every
		// store to it is such a copy or the zero value
		cookiePaths := map[string]bool{cookiePath: true}
		pathOf := func(v ssa.Value) string { return strings.TrimPrefix(ana.AccessPath(v), "&") }
		isCookieV := func(v ssa.Value) bool { return v != nil && cookiePaths[pathOf(v)] }
		for changed := true; changed; {
			changed = false
			for _, b := range fn.Blocks {
				for _, in := range b.Instrs {
					al, ok := in.(*ssa.Alloc)
					if !ok || isCookieV(al) || typeNameOf(al.Type()) != "ServerCookie" {
						continue
					}
					okAll, n := true, 0
					for _, ref := range ana.Referrers(al) {
						st, ok := ref.(*ssa.Store)
						if !ok || st.Addr != ssa.Value(al) {
							continue
						}
						if _, isC := st.Val.(*ssa.Const); isC {
							continue
						}
						if ld, ok := st.Val.(*ssa.UnOp); ok && ld.Op == token.MUL && isCookieV(ld.X) {
							n++
							continue
						}
						okAll = false
					}
					if okAll && n > 0 {
						cookiePaths[pathOf(al)] = true
						changed = true
					}
				}
			}
		}
		// ProcessRequest key = serverCookie.C2S
		if kp := pathOf(prs[0].Common().Args[1]); strings.HasSuffix(kp, ".C2S") && cookiePaths[strings.TrimSuffix(kp, ".C2S")] {
			r.Ok("C10.keys", fname, "request-verified-under-cookie-C2S", posOf(p, prs[0]), "the request is verified under the C2S key of the cookie decrypted from this request")
		} else {
			r.Violate("C10.keys", fname, "request-verified-under-cookie-C2S", posOf(p, prs[0]), "the request is not verified under the decrypted cookie's client-to-server key")
		}
		// Decrypt key = Get(int(encryptedCookie.ID)).Value, decrypt receiver = the decoded cookie
		dk := decs[0].Common().Args[1]
		_, droot := fieldChain(dk)
		okGet := false
		if ex, ok := droot.(*ssa.Extract); ok && ex.Tuple == ssa.Value(gets[0].(*ssa.Call)) && ex.Index == 0 {
			okGet = true
		}
		if al, ok := droot.(*ssa.Alloc); ok {
			for _, ref := range ana.Referrers(al) {
				if st, ok := ref.(*ssa.Store); ok && st.Addr == ssa.Value(al) {
					if ex, ok := st.Val.(*ssa.Extract); ok && ex.Tuple == ssa.Value(gets[0].(*ssa.Call)) {
						okGet = true
					}
				}
			}
		}
		idArg := ana.AccessPath(ana.StripConv(gets[0].Common().Args[1]))
		if okGet && strings.HasSuffix(idArg, "encryptedCookie.ID") && rootAlloc(ana.StripConv(gets[0].Common().Args[1])) == rootAlloc(decs[0].Common().Args[0]) {
			r.Ok("C10.gate", fname, "cookie-opened-under-its-key-id", posOf(p, decs[0]), "the cookie is opened under provider.Get(cookie.ID).Value")
		} else {
			r.Violate("C10.gate", fname, "cookie-opened-under-its-key-id", posOf(p, decs[0]), "the cookie is not opened under the server key named by its own key id")
		}
		// targets behind the gate
		type tgt struct {
			name string
			pred func(ssa.Instruction) bool
			min  int
		}
		isS2CRead := func(in ssa.Instruction) bool {
			fa, ok := in.(*ssa.FieldAddr)
			return ok && isCookieV(fa.X) && fieldNameOf(fa.X.Type(), fa.Field) == "S2C"
		}
		tgts := []tgt{
			{"NewResponsePacket", ana.IsCallTo(ana.Q("net/nts.NewResponsePacket")), 1},
			{"EncryptWithNonce", ana.IsCallTo(ana.Q("(*net/ntske.ServerCookie).EncryptWithNonce")), 1},
			{"read-of-cookie.S2C", isS2CRead, 1},
		}
		for _, t := range tgts {
			n := 0
			ana.Instrs(fn, func(in ssa.Instruction) {
				if t.pred(in) {
					n++
				}
			})
			if n < t.min {
				r.Violate("C10.gate", fname, "target-missing:"+t.name, p.Pos(fn.Pos()), t.name+" not found in listener")
				continue
			}
			if okp, w := ana.MustPass(fn, rd, gate, t.pred, isRead, nil); okp && len(gate.Accept) > 0 {
				r.Ok("C10.gate", fname, "behind-ProcessRequest:"+t.name, strings.Join(gate.Sites, ","), t.name+" is reachable from the read only through ProcessRequest == nil")
			} else {
				r.Violate("C10.gate", fname, "behind-ProcessRequest:"+t.name, strings.Join(gate.Sites, ","), t.name+" is reachable without the request having been authenticated", w...)
			}
		}
		// NewResponsePacket(cookies, serverCookie.S2C, ntsreq.UniqueID.ID); EncryptWithNonce on serverCookie
		for _, c := range ana.CallsIn(fn, ana.Q("net/nts.NewResponsePacket")) {
			sp := pathOf(c.Common().Args[1])
			uid := ana.AccessPath(c.Common().Args[2])
			// the unique identifier of the Packet that ProcessRequest verified
			reqPath := strings.TrimPrefix(pathOf(prs[0].Common().Args[2]), "&")
			reqPaths := copyClosure(fn, reqPath, "Packet")
			if strings.HasSuffix(sp, ".S2C") && cookiePaths[strings.TrimSuffix(sp, ".S2C")] && strings.HasSuffix(uid, ".UniqueID.ID") && reqPaths[strings.TrimSuffix(uid, ".UniqueID.ID")] {
				r.Ok("C10.keys", fname, "response-sealed-under-cookie-S2C", posOf(p, c), "NewResponsePacket(cookies, serverCookie.S2C, ntsreq.UniqueID.ID)")
			} else {
				r.Violate("C10.keys", fname, "response-sealed-under-cookie-S2C", posOf(p, c), "the response is not sealed under the decrypted cookie's server-to-client key with the request's unique identifier")
			}
		}
		for _, c := range ana.CallsIn(fn, ana.Q("(*net/ntske.ServerCookie).EncryptWithNonce")) {
			if isCookieV(c.Common().Args[0]) {
				r.Ok("C10.gate", fname, "new-cookies-carry-session-keys", posOf(p, c), "new cookies re-seal the decrypted session cookie")
			} else {
				r.Violate("C10.gate", fname, "new-cookies-carry-session-keys", posOf(p, c), "new cookies are not made from the session cookie of this request")
			}
		}
	}
}

func c10AEAD(p *ana.Prog, r *ana.Result) {
	n := 0
	for _, fn := range p.AllFuncs {
		for _, c := range ana.CallsIn(fn, fnNewAEAD) {
			n++
			a := c.Common().Args
			alg, _ := a[0].(*ssa.Const)
			ns, _ := ana.ConstInt(a[2])
			if alg != nil && alg.Value != nil && alg.Value.ExactString() == "\"AES-CMAC-SIV\"" && ns == 16 {
				r.Ok("C10.aead", ana.FuncName(fn), "aead-construction", posOf(p, c), "NewAEAD(\"AES-CMAC-SIV\", key, 16)")
			} else {
				r.Violate("C10.aead", ana.FuncName(fn), "aead-construction", posOf(p, c), "AEAD algorithm / nonce size differs from the other seal/open sites (sealed data cannot be opened)")
			}
		}
	}
	r.Floor("C10.aead.sites", n, 4)
	enc := mustFunc(p, r, "net/ntske", "(*ServerCookie).EncryptWithNonce")
	dcr := mustFunc(p, r, "net/ntske", "(*EncryptedServerCookie).Decrypt")
	if enc == nil || dcr == nil {
		return
	}
	se := ana.CallsIn(enc, fnSeal)
	op := ana.CallsIn(dcr, fnOpen)
	if len(se) == 1 && len(op) == 1 {
		sa, oa := se[0].Common().Args, op[0].Common().Args
		adNil := ana.IsNilConst(sa[3]) && ana.IsNilConst(oa[3])
		okS := true // that the sealing nonce is the one stored in the cookie is the cookie-fields obligation below
		// plaintext = c.Encode()
		ptOK := false
		if c, _ := ana.CallOf(sa[2]); c != nil && ana.CalleeName(c.Common()) == ana.Q("(*net/ntske.ServerCookie).Encode") && ana.AccessPath(c.Common().Args[0]) == "c" {
			ptOK = true
		}
		okO := ana.AccessPath(oa[1]) == "c.Nonce" && ana.AccessPath(oa[2]) == "c.Ciphertext"
		if adNil && okS && ptOK && okO {
			r.Ok("C10.aead", "net/ntske.cookies", "cookie-seal-open-agree", posOf(p, se[0]), "cookies: Seal(nonce, c.Encode(), ad=nil) / Open(c.Nonce, c.Ciphertext, ad=nil)")
		} else {
			r.Violate("C10.aead", "net/ntske.cookies", "cookie-seal-open-agree", posOf(p, se[0]), fmt.Sprintf("cookie sealing and opening disagree (ad nil=%v plaintext=Encode()=%v open args=%v)", adNil, ptOK, okO))
		}
		// the sealed nonce is the one stored in the cookie, ciphertext stored, ID <- keyid
		nonceStored, ctStored, idStored := false, false, false
		ana.Instrs(enc, func(in ssa.Instruction) {
			st, ok := in.(*ssa.Store)
			if !ok {
				return
			}
			// a field of a local EncryptedServerCookie, whatever the variable is called
			// (a composite literal is such a local too)
			fa, ok := st.Addr.(*ssa.FieldAddr)
			if !ok || typeNameOf(fa.X.Type()) != "EncryptedServerCookie" {
				return
			}
			if _, isLocal := rootAlloc(fa.X).(*ssa.Alloc); !isLocal {
				return
			}
			switch fieldNameOf(fa.X.Type(), fa.Field) {
			case "Nonce":
				// the nonce stored is the nonce sealed with
				if st.Val == sa[1] {
					nonceStored = true
				} else if ld, ok := sa[1].(*ssa.UnOp); ok && ld.Op == token.MUL {
					if fb, ok := ld.X.(*ssa.FieldAddr); ok && fb.X == fa.X && fb.Field == fa.Field {
						nonceStored = true
					}
				}
			case "Ciphertext":
				ctStored = st.Val == ssa.Value(se[0].(*ssa.Call))
			case "ID":
				idStored = ana.AccessPath(ana.StripConv(st.Val)) == "keyid"
			}
		})
		if nonceStored && ctStored && idStored {
			r.Ok("C10.aead", ana.FuncName(enc), "cookie-fields", p.Pos(enc.Pos()), "the encrypted cookie carries the key id, the nonce used and the sealed bytes")
		} else {
			r.Violate("C10.aead", ana.FuncName(enc), "cookie-fields", p.Pos(enc.Pos()), fmt.Sprintf("encrypted cookie fields are not (keyid, nonce, Seal result): nonce=%v ct=%v id=%v", nonceStored, ctStored, idStored))
		}
	} else {
		r.Violate("C10.aead", "net/ntske.cookies", "cookie-seal-open-sites", p.Pos(enc.Pos()), "expected one Seal in EncryptWithNonce and one Open in Decrypt")
	}
	rets := ana.ClassifyReturns(dcr)
	checkGates(p, r, "C10.aead", dcr, nil, isSuccessTarget(rets), nil, "success-return", []gateSpec{
		{name: "Open==nil", gate: ana.ErrNilGate(p, dcr, fnOpen)},
		{name: "cookie.Decode==nil", gate: ana.ErrNilGate(p, dcr, ana.Q("(*net/ntske.ServerCookie).Decode"))},
		{name: "NewAEAD==nil", gate: ana.ErrNilGate(p, dcr, fnNewAEAD)},
	})
	// Decode is applied to the opened plaintext
	for _, c := range ana.CallsIn(dcr, ana.Q("(*net/ntske.ServerCookie).Decode")) {
		if e, ok := c.Common().Args[1].(*ssa.Extract); ok && len(op) == 1 && e.Tuple == ssa.Value(op[0].(*ssa.Call)) && e.Index == 0 {
			r.Ok("C10.aead", ana.FuncName(dcr), "decode-opened-plaintext", posOf(p, c), "the returned cookie is decoded from the opened plaintext")
		} else {
			r.Violate("C10.aead", ana.FuncName(dcr), "decode-opened-plaintext", posOf(p, c), "the cookie is not decoded from the authenticated plaintext")
		}
	}
}
