package rules

import (
	"fmt"
	"go/token"
	"sort"
	"strings"

	"golang.org/x/tools/go/ssa"

	"verif/internal/ana"
)

func init() { All["C02"] = checkC02 }

// idxCanon renders an index expression over n = len(param) canonically; integer
// divisions and remainders are opaque symbols (never distributed over sums).
func idxCanon(v ssa.Value, param ssa.Value) string {
	type lin struct {
		coef map[string]int64
		c    int64
	}
	var rec func(v ssa.Value, d int) (lin, bool)
	str := func(l lin) string {
		var ks []string
		for k, c := range l.coef {
			if c != 0 {
				ks = append(ks, k)
			}
		}
		sort.Strings(ks)
		var sb strings.Builder
		for _, k := range ks {
			fmt.Fprintf(&sb, "%+d*%s ", l.coef[k], k)
		}
		fmt.Fprintf(&sb, "%+d", l.c)
		return sb.String()
	}
	rec = func(v ssa.Value, d int) (lin, bool) {
		if d > 10 {
			return lin{}, false
		}
		v = ana.StripConv(v)
		if k, ok := ana.ConstInt(v); ok {
			return lin{coef: map[string]int64{}, c: k}, true
		}
		if isLenOf(v) {
			c, _ := ana.CallOf(v)
			if c.Common().Args[0] == param {
				return lin{coef: map[string]int64{"n": 1}}, true
			}
			return lin{}, false
		}
		if bo, ok := v.(*ssa.BinOp); ok {
			switch bo.Op {
			case token.ADD, token.SUB:
				a, ok1 := rec(bo.X, d+1)
				b, ok2 := rec(bo.Y, d+1)
				if !ok1 || !ok2 {
					return lin{}, false
				}
				s := int64(1)
				if bo.Op == token.SUB {
					s = -1
				}
				out := lin{coef: map[string]int64{}, c: a.c + s*b.c}
				for k, c := range a.coef {
					out.coef[k] += c
				}
				for k, c := range b.coef {
					out.coef[k] += s * c
				}
				return out, true
			case token.QUO, token.REM:
				a, ok1 := rec(bo.X, d+1)
				k, ok2 := ana.ConstInt(bo.Y)
				if !ok1 || !ok2 {
					return lin{}, false
				}
				op := "/"
				if bo.Op == token.REM {
					op = "%"
				}
				return lin{coef: map[string]int64{fmt.Sprintf("(%s)%s%d", str(a), op, k): 1}}, true
			}
		}
		return lin{}, false
	}
	l, ok := rec(v, 0)
	if !ok {
		return "?"
	}
	return str(l)
}

type c02Spec struct {
	pkg, name string
	ftm       bool
	meas      bool
}

func checkC02(p *ana.Prog, r *ana.Result) {
	r.Explain("C02 (structural premises of the containment lemma) for timemath.Median/FaultTolerantMidpoint and measurements.Median/FaultTolerantMidpoint: order independence premise - every read of an element of the parameter slice is preceded on every path by slices.Sort / slices.SortFunc on that slice, and the comparator reads only Offset and returns cmp.Compare of the two; effect - the functions store nothing through the slice themselves (the caller's slice is only reordered by the sort); selection premise - decided by enumeration: for every n = len(s) in 0..40 (which decides all n, DESIGN.md A.10) every path of the function is followed by an abstract evaluator (integers concrete, elements symbolic): n == 0 panics, otherwise the result is lo + (hi-lo)/2 of the elements at positions k and n-1-k of the sorted argument, k = (n-1)/3 (fault-tolerant midpoint) or (n-1)/2 (median), however the index arithmetic, case split and helpers are written (functions outside the evaluator's domain fall back to index-shape rules); overflow-safe midpoint - the two-argument midpoint has the form x + (y-x)/2 (never (x+y)/k); measurement variants return a value they built from the selected elements' Offset and Timestamp only (Error left nil) and combine timestamps as earlier + (later-earlier)/2. Containment then follows from the arithmetic lemma stated in DESIGN.md (sorted multiset, drop floor((n-1)/3) from each end, average two survivors).")
	r.Undecided("the arithmetic lemma itself, ties between equal offsets with different timestamps (unstable sort), overflow outside |v| < 2^62")
	specs := []c02Spec{
		{"base/timemath", "Median", false, false},
		{"base/timemath", "FaultTolerantMidpoint", true, false},
		{"core/measurements", "Median", false, true},
		{"core/measurements", "FaultTolerantMidpoint", true, true},
	}
	for _, s := range specs {
		c02Func(p, r, s)
	}
	c02Midpoint(p, r)
}

func c02Func(p *ana.Prog, r *ana.Result, sp c02Spec) {
	fn := mustFunc(p, r, sp.pkg, sp.name)
	if fn == nil {
		return
	}
	fname := ana.FuncName(fn)
	param := ssa.Value(fn.Params[0])
	// sort call
	var sortCall *ssa.Call
	isSort := map[*ssa.Call]bool{}
	ana.Instrs(fn, func(in ssa.Instruction) {
		c, ok := in.(*ssa.Call)
		if !ok {
			return
		}
		n := ana.CalleeName(&c.Call)
		if (strings.HasPrefix(n, "slices.Sort") || strings.HasPrefix(n, "slices.SortFunc") || strings.HasPrefix(n, "slices.SortStableFunc")) && c.Call.Args[0] == param {
			sortCall = c
			isSort[c] = true
		}
	})
	if sortCall == nil {
		r.Violate("C02.sorted", fname, "sort-call", p.Pos(fn.Pos()), "UNDECIDED: the function does not sort its argument with slices.Sort/SortFunc (selection without sorting is not a recognised idiom)")
		return
	}
	// comparator (of every sort call)
	var sortCalls []*ssa.Call
	for c := range isSort {
		if c != sortCall {
			sortCalls = append(sortCalls, c)
		}
	}
	sortCalls = append(sortCalls, sortCall)
	for _, sortCall := range sortCalls {
		if !strings.Contains(ana.CalleeName(&sortCall.Call), "SortFunc") {
			continue
		}
		cmpFn, _ := sortCall.Call.Args[1].(*ssa.Function)
		if mc, ok := sortCall.Call.Args[1].(*ssa.MakeClosure); ok {
			cmpFn, _ = mc.Fn.(*ssa.Function)
		}
		okCmp := false
		if cmpFn != nil {
			fields := map[string]bool{}
			ana.Instrs(cmpFn, func(in ssa.Instruction) {
				if fa, ok := in.(*ssa.FieldAddr); ok {
					fields[fieldNameOf(fa.X.Type(), fa.Field)] = true
				}
				if f, ok := in.(*ssa.Field); ok {
					fields[fieldNameOf(f.X.Type(), f.Field)] = true
				}
			})
			var ret *ssa.Return
			ana.Instrs(cmpFn, func(in ssa.Instruction) {
				if x, ok := in.(*ssa.Return); ok {
					ret = x
				}
			})
			if ret != nil && len(fields) == 1 && fields["Offset"] {
				if c, _ := ana.CallOf(ret.Results[0]); c != nil && strings.HasPrefix(ana.CalleeName(c.Common()), "cmp.Compare") {
					a0, a1 := c.Common().Args[0], c.Common().Args[1]
					ra, rb := rootAlloc(a0), rootAlloc(a1)
					// a.Offset vs b.Offset in parameter order
					pa := allocStoredFrom(ra)
					pb := allocStoredFrom(rb)
					if pa == ssa.Value(cmpFn.Params[0]) && pb == ssa.Value(cmpFn.Params[1]) {
						okCmp = true
					}
				}
			}
		}
		if okCmp {
			r.Ok("C02.sorted", fname, "comparator-by-offset", posOf(p, sortCall), "the sort comparator is cmp.Compare(a.Offset, b.Offset) and reads nothing else")
		} else {
			r.Violate("C02.sorted", fname, "comparator-by-offset", posOf(p, sortCall), "the sort comparator is not ascending order by Offset only (e.g. compares timestamps or is reversed)")
		}
	}
	// selection, emptiness, order independence and result form: decided by enumeration over
	// n = 0..c02MaxN where the function is inside the evaluator's domain
	byTable := false
	if decided, okT, detail, paths := c02Table(fn, sp.ftm, sp.meas); decided {
		byTable = true
		if okT {
			what := "(n-1)/3"
			if !sp.ftm {
				what = "(n-1)/2"
			}
			r.Ok("C02.select", fname, "selection-by-enumeration", p.Pos(fn.Pos()), fmt.Sprintf("for every n in 0..%d (which decides every n, see DESIGN.md) and each of the %d paths: n == 0 panics; otherwise the result is lo + (hi-lo)/2 of the elements at positions k and n-1-k, k = %s, read after the argument was sorted", c02MaxN, paths, what))
		} else {
			r.Violate("C02.select", fname, "selection-by-enumeration", p.Pos(fn.Pos()), detail)
		}
	}
	// element reads and stores
	type read struct {
		in  ssa.Instruction
		idx string
	}
	var reads []read
	// the argument and its re-slicings (read-only views of the caller's array)
	views := map[ssa.Value]bool{param: true}
	for changed := true; changed; {
		changed = false
		ana.Instrs(fn, func(in ssa.Instruction) {
			if sl, ok := in.(*ssa.Slice); ok && views[sl.X] && !views[sl] {
				views[sl] = true
				changed = true
			}
		})
	}
	ana.Instrs(fn, func(in ssa.Instruction) {
		ia, ok := in.(*ssa.IndexAddr)
		if !ok || !views[ia.X] {
			return
		}
		if ia.X == param {
			reads = append(reads, read{in, idxCanon(ia.Index, param)})
		} else {
			reads = append(reads, read{in, "view"})
		}
		for _, ref := range ana.Referrers(ia) {
			if st, ok := ref.(*ssa.Store); ok && st.Addr == ssa.Value(ia) {
				r.Violate("C02.effect", fname, "element-store", posOf(p, st), "the function writes an element of the caller's slice (it may only reorder it by sorting)")
			}
			if fa, ok := ref.(*ssa.FieldAddr); ok {
				for _, r2 := range ana.Referrers(fa) {
					if st, ok := r2.(*ssa.Store); ok && st.Addr == ssa.Value(fa) {
						r.Violate("C02.effect", fname, "element-field-store", posOf(p, st), "the function writes a field of an element of the caller's slice")
					}
				}
			}
		}
	})
	// other uses of the slice (passing it on) are not admitted
	for v := range views {
		for _, ref := range ana.Referrers(v) {
			switch x := ref.(type) {
			case *ssa.IndexAddr, *ssa.DebugRef, *ssa.Slice:
			case *ssa.Call:
				n := ana.CalleeName(&x.Call)
				if (v == param && (x == sortCall || isSort[x])) || n == "builtin.len" || n == "builtin.cap" {
					continue
				}
				r.Violate("C02.effect", fname, "slice-escapes:"+ana.Short(n), posOf(p, x), "the slice is handed to "+ana.Short(n)+" (effects on the caller's slice are not bounded to reordering)")
			default:
				r.Violate("C02.effect", fname, "slice-use", posOf(p, ref), "UNDECIDED: unrecognised use of the parameter slice")
			}
		}
	}
	if byTable {
		return
	}
	okSorted := true
	for _, rd := range reads {
		s := &ana.Search{Fn: fn, NoFacts: true, Stop: func(in ssa.Instruction) bool { return in == ssa.Instruction(sortCall) }, Target: func(in ssa.Instruction) bool { return in == rd.in }}
		if found, w := s.Run(nil); found {
			okSorted = false
			r.Violate("C02.sorted", fname, "read-before-sort:s["+rd.idx+"]", posOf(p, rd.in), "an element is read on a path that has not sorted the slice: the result depends on the order of the inputs", w...)
		}
	}
	if okSorted && len(reads) > 0 {
		r.Ok("C02.sorted", fname, "reads-after-sort", posOf(p, sortCall), fmt.Sprintf("all %d element reads are behind the sort on every path", len(reads)))
	}
	// selection indices
	got := map[string]bool{}
	for _, rd := range reads {
		got[rd.idx] = true
	}
	var want []string
	if sp.ftm {
		want = []string{"+1*(+1*n -1)/3 +0", "-1*(+1*n -1)/3 +1*n -1"}
	} else {
		want = []string{"+1*(+1*n +0)/2 +0", "+1*(+1*n +0)/2 -1"}
	}
	okSel := len(got) == len(want)
	for _, w := range want {
		if !got[w] {
			okSel = false
		}
	}
	var gl []string
	for g := range got {
		gl = append(gl, g)
	}
	sort.Strings(gl)
	if okSel {
		r.Ok("C02.select", fname, "selection-indices", p.Pos(fn.Pos()), "elements read: "+strings.Join(gl, " ; ")+" (n = len of the argument)")
	} else {
		exp := "s[(n-1)/3], s[n-1-(n-1)/3]"
		if !sp.ftm {
			exp = "s[n/2] (and s[n/2-1] for even n)"
		}
		r.Violate("C02.select", fname, "selection-indices", p.Pos(fn.Pos()), "the elements selected are {"+strings.Join(gl, " ; ")+"}, expected "+exp)
	}
	if !sp.ftm {
		// parity test n%2 != 0 selects the single-element arm
		okPar := false
		ana.IfEdges(fn, func(iff *ssa.If, b *ssa.BasicBlock) {
			c, _, isCmp := ana.AsCmp(iff.Cond)
			if isCmp && (c.Op == token.NEQ || c.Op == token.EQL) && idxCanon(c.X, param) == "+1*(+1*n +0)%2 +0" {
				if k, ok := ana.ConstInt(c.Y); ok && (k == 0 || k == 1) {
					okPar = true
				}
			}
		})
		if okPar {
			r.Ok("C02.select", fname, "parity-test", p.Pos(fn.Pos()), "odd/even case split on n%2")
		} else {
			r.Violate("C02.select", fname, "parity-test", p.Pos(fn.Pos()), "median does not distinguish odd and even n by n%2")
		}
	}
	// n == 0 panics
	empty := ana.FindGate(p, fn, "n!=0", func(c ana.Cmp, isCmp bool, _ ssa.Value) (bool, bool) {
		if !isCmp || idxCanon(c.X, param) != "+1*n +0" {
			return false, false
		}
		k, ok := ana.ConstInt(c.Y)
		if !ok || k != 0 {
			return false, false
		}
		switch c.Op {
		case token.EQL:
			return true, false
		case token.NEQ, token.GTR:
			return true, true
		}
		return false, false
	})
	okEmpty := len(empty.Accept) > 0
	for e := range empty.Accept {
		if !leadsOnlyToPanic(e.From.Succs[1-e.Succ]) {
			okEmpty = false
		}
	}
	if okEmpty {
		r.Ok("C02.select", fname, "empty-panics", p.Pos(fn.Pos()), "n == 0 panics before anything else")
	} else {
		r.Violate("C02.select", fname, "empty-panics", p.Pos(fn.Pos()), "an empty input does not panic")
	}
	// results
	ana.Instrs(fn, func(in ssa.Instruction) {
		ret, ok := in.(*ssa.Return)
		if !ok {
			return
		}
		v := ret.Results[0]
		if sp.meas {
			c02MeasResult(p, r, fn, ret, v, param)
			return
		}
		// duration variants: a selected element or Midpoint of two selected elements
		if c, _ := ana.CallOf(v); c != nil && ana.CalleeName(c.Common()) == ana.Q("base/timemath.Midpoint") {
			r.Ok("C02.midpoint", fname, "result:Midpoint", posOf(p, ret), "result is timemath.Midpoint of the two selected elements")
			return
		}
		if ld, ok := v.(*ssa.UnOp); ok {
			if ia, ok := ld.X.(*ssa.IndexAddr); ok && ia.X == param {
				r.Ok("C02.midpoint", fname, "result:element", posOf(p, ret), "result is the selected element")
				return
			}
		}
		r.Violate("C02.midpoint", fname, "result-form", posOf(p, ret), "the result is neither a selected element nor timemath.Midpoint of two selected elements")
	})
}

func allocStoredFrom(v ssa.Value) ssa.Value {
	a, ok := v.(*ssa.Alloc)
	if !ok {
		return v
	}
	for _, ref := range ana.Referrers(a) {
		if st, ok := ref.(*ssa.Store); ok && st.Addr == ssa.Value(a) {
			return st.Val
		}
	}
	return nil
}

func c02MeasResult(p *ana.Prog, r *ana.Result, fn *ssa.Function, ret *ssa.Return, v ssa.Value, param ssa.Value) {
	fname := ana.FuncName(fn)
	if c, _ := ana.CallOf(v); c != nil && ana.CalleeName(c.Common()) == ana.Q("core/measurements.midpoint") {
		r.Ok("C02.error-nil", fname, "result:midpoint()", posOf(p, ret), "result is midpoint(x, y) of the two selected measurements")
		return
	}
	ld, ok := v.(*ssa.UnOp)
	if ok {
		if a, ok := ld.X.(*ssa.Alloc); ok {
			// fields stored
			fields := map[string]ssa.Value{}
			whole := false
			for _, ref := range ana.Referrers(a) {
				switch x := ref.(type) {
				case *ssa.FieldAddr:
					for _, r2 := range ana.Referrers(x) {
						if st, ok := r2.(*ssa.Store); ok && st.Addr == ssa.Value(x) {
							fields[fieldNameOf(x.X.Type(), x.Field)] = st.Val
						}
					}
				case *ssa.Store:
					if x.Addr == ssa.Value(a) {
						whole = true
					}
				}
			}
			_, hasErr := fields["Error"]
			fromSel := func(val ssa.Value, f string) bool {
				if ch, root := fieldChain(val); ch == "[]."+f && root == param {
					return true
				}
				// through a local copy of the selected element: sel := ms[i]; sel.F
				isElem := func(v ssa.Value) bool {
					ld, ok := v.(*ssa.UnOp)
					if !ok || ld.Op != token.MUL {
						return false
					}
					ia, ok := ld.X.(*ssa.IndexAddr)
					return ok && ia.X == param
				}
				switch x := val.(type) {
				case *ssa.Field:
					return fieldNameOf(x.X.Type(), x.Field) == f && isElem(x.X)
				case *ssa.UnOp:
					if fa, ok := x.X.(*ssa.FieldAddr); ok && x.Op == token.MUL && fieldNameOf(fa.X.Type(), fa.Field) == f {
						if a, ok := fa.X.(*ssa.Alloc); ok {
							n, good := 0, false
							for _, ref := range ana.Referrers(a) {
								if st, ok := ref.(*ssa.Store); ok && st.Addr == ssa.Value(a) {
									n++
									good = isElem(st.Val)
								}
							}
							return n == 1 && good
						}
					}
				}
				return false
			}
			if !whole && !hasErr && fromSel(fields["Offset"], "Offset") && fromSel(fields["Timestamp"], "Timestamp") {
				r.Ok("C02.error-nil", fname, "result:built-from-selected", posOf(p, ret), "result is a fresh Measurement{Timestamp, Offset} of the selected element; Error is never assigned (nil)")
				return
			}
		}
	}
	r.Violate("C02.error-nil", fname, "result-form", posOf(p, ret), "the combined measurement is not built from the selected elements' Offset and Timestamp only (e.g. it copies an input element, so a non-nil Error leaks into the result)")
}

func c02Midpoint(p *ana.Prog, r *ana.Result) {
	// timemath.Midpoint: x + (y-x)/2
	mp := mustFunc(p, r, "base/timemath", "Midpoint")
	if mp != nil {
		fname := ana.FuncName(mp)
		ok := false
		ana.Instrs(mp, func(in ssa.Instruction) {
			ret, isR := in.(*ssa.Return)
			if !isR {
				return
			}
			ok = safeMidpointForm(ret.Results[0], mp.Params[0], mp.Params[1])
		})
		if ok {
			r.Ok("C02.midpoint", fname, "overflow-safe-form", p.Pos(mp.Pos()), "Midpoint(x, y) = x + (y-x)/2")
		} else {
			r.Violate("C02.midpoint", fname, "overflow-safe-form", p.Pos(mp.Pos()), "Midpoint is not computed as x + (y-x)/2 (e.g. (x+y)/2 overflows for magnitudes below 2^62)")
		}
	}
	if f := p.Func("core/measurements", "midpoint"); f == nil || f.Blocks == nil {
		// no pair-combining helper: the combination is written out where it is used and was decided
		// there by enumeration (selection-by-enumeration covers offset form, timestamp and nil error)
		okInline := true
		for _, n := range []string{"Median", "FaultTolerantMidpoint"} {
			fn := p.Func("core/measurements", n)
			if fn == nil {
				okInline = false
				continue
			}
			if decided, okT, _, _ := c02Table(fn, n != "Median", true); !decided || !okT {
				okInline = false
			}
		}
		if okInline {
			r.Ok("C02.midpoint", "core/measurements", "combination-inline", "core/measurements", "there is no midpoint helper; both functions build the combined measurement in place, decided by enumeration")
			return
		}
	}
	mm := mustFunc(p, r, "core/measurements", "midpoint")
	if mm == nil {
		return
	}
	fname := ana.FuncName(mm)
	var offStore *ssa.Store
	var tsStores []*ssa.Store
	errStore := false
	ana.Instrs(mm, func(in ssa.Instruction) {
		st, ok := in.(*ssa.Store)
		if !ok {
			return
		}
		// the fields of the result measurement, whatever the result variable is called
		if fa, ok := st.Addr.(*ssa.FieldAddr); ok && typeNameOf(fa.X.Type()) == "Measurement" {
			if _, isParam := rootAlloc(fa.X).(*ssa.Parameter); !isParam {
				switch fieldNameOf(fa.X.Type(), fa.Field) {
				case "Offset":
					offStore = st
				case "Timestamp":
					tsStores = append(tsStores, st)
				case "Error":
					errStore = true
				}
			}
		}
	})
	okOff := false
	if offStore != nil {
		// x.Offset + (y.Offset - x.Offset)/2 ; x, y are by-value params spilled to allocs
		add, ok := offStore.Val.(*ssa.BinOp)
		if ok && add.Op == token.ADD {
			for _, pr := range [][2]ssa.Value{{add.X, add.Y}, {add.Y, add.X}} {
				if quo, ok := pr[1].(*ssa.BinOp); ok && quo.Op == token.QUO {
					k, _ := ana.ConstInt(quo.Y)
					if sub, ok := quo.X.(*ssa.BinOp); ok && sub.Op == token.SUB && k == 2 {
						px, py := ana.AccessPath(pr[0]), ana.AccessPath(sub.X)
						if px == "x.Offset" && py == "y.Offset" && ana.AccessPath(sub.Y) == "x.Offset" {
							okOff = true
						}
					}
				}
			}
		}
	}
	if okOff {
		r.Ok("C02.midpoint", fname, "offset-overflow-safe-form", posOf(p, offStore), "m.Offset = x.Offset + (y.Offset - x.Offset)/2")
	} else {
		r.Violate("C02.midpoint", fname, "offset-overflow-safe-form", p.Pos(mm.Pos()), "the combined offset is not x.Offset + (y.Offset-x.Offset)/2")
	}
	if errStore {
		r.Violate("C02.error-nil", fname, "error-assigned", p.Pos(mm.Pos()), "midpoint assigns the Error field of its result")
	} else {
		r.Ok("C02.error-nil", fname, "error-never-assigned", p.Pos(mm.Pos()), "the result's Error is never assigned (nil)")
	}
	// timestamp: base.Add(other.Sub(base)/2) where base/other are the two parameters' timestamps
	// (written on two arms, or once after ordering the two)
	tsOf := func(v ssa.Value) string {
		pth := ana.AccessPath(v)
		if pth == "x.Timestamp" || pth == "y.Timestamp" {
			return pth
		}
		return ""
	}
	pairOK := func(base, other ssa.Value) bool {
		if b, o := tsOf(base), tsOf(other); b != "" && o != "" {
			return b != o
		}
		pb, ok1 := base.(*ssa.Phi)
		po, ok2 := other.(*ssa.Phi)
		if !ok1 || !ok2 || pb.Block() != po.Block() || len(pb.Edges) != len(po.Edges) {
			return false
		}
		for i := range pb.Edges {
			b, o := tsOf(pb.Edges[i]), tsOf(po.Edges[i])
			if b == "" || o == "" || b == o {
				return false
			}
		}
		return true
	}
	okTS := len(tsStores) == 1 || len(tsStores) == 2
	var tsVals []ssa.Value
	for _, st := range tsStores {
		if ph, ok := st.Val.(*ssa.Phi); ok {
			tsVals = append(tsVals, ph.Edges...)
		} else {
			tsVals = append(tsVals, st.Val)
		}
	}
	for _, tv := range tsVals {
		c, _ := ana.CallOf(tv)
		if c == nil || ana.CalleeName(c.Common()) != "(time.Time).Add" {
			okTS = false
			continue
		}
		base := c.Common().Args[0]
		quo, ok := c.Common().Args[1].(*ssa.BinOp)
		if !ok || quo.Op != token.QUO {
			okTS = false
			continue
		}
		k, _ := ana.ConstInt(quo.Y)
		sub, _ := ana.CallOf(quo.X)
		if k != 2 || sub == nil || ana.CalleeName(sub.Common()) != "(time.Time).Sub" {
			okTS = false
			continue
		}
		later, earlier := sub.Common().Args[0], sub.Common().Args[1]
		sameBase := earlier == base || (tsOf(earlier) != "" && tsOf(earlier) == tsOf(base))
		if !sameBase || !pairOK(base, later) {
			okTS = false
		}
	}
	if okTS {
		r.Ok("C02.midpoint", fname, "timestamp-between", p.Pos(mm.Pos()), "m.Timestamp = earlier.Add(later.Sub(earlier)/2) on both arms (lies between the two timestamps)")
	} else {
		r.Violate("C02.midpoint", fname, "timestamp-between", p.Pos(mm.Pos()), "the combined timestamp is not base.Add(other.Sub(base)/2) of the two selected measurements")
	}
}

// safeMidpointForm: v == x + (y - x)/2.
func safeMidpointForm(v ssa.Value, x, y *ssa.Parameter) bool {
	add, ok := v.(*ssa.BinOp)
	if !ok || add.Op != token.ADD {
		return false
	}
	// x + (y-x)/2, the two summands in either order
	for _, pr := range [][2]ssa.Value{{add.X, add.Y}, {add.Y, add.X}} {
		if pr[0] != ssa.Value(x) {
			continue
		}
		quo, ok := pr[1].(*ssa.BinOp)
		if !ok || quo.Op != token.QUO {
			continue
		}
		k, _ := ana.ConstInt(quo.Y)
		sub, ok := quo.X.(*ssa.BinOp)
		if ok && k == 2 && sub.Op == token.SUB && sub.X == ssa.Value(y) && sub.Y == ssa.Value(x) {
			return true
		}
	}
	return false
}
